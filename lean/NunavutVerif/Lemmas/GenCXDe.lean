import NunavutVerif.Lemmas.GenCXSim
import NunavutVerif.Lemmas.GenCDeA
/-!
GenCX, part 3: the address-aware deserializer simulates `deserializeC` (structural induction over `Ty`, no typing
hypotheses).  The capacity override is excluded here (`X.ovr = false`).
-/
namespace NunavutVerif.GenC
open NunavutVerif.Dsdl NunavutVerif.Bits

section
variable {o : Opts} {X : Ext} {b0 L0 : Nat} {B : Prop}

/-- finish a `match fX with | .error e => .error e | .ok a => …` goal from `Sim B fX f` when the continuations agree -/
macro "sim_same " h:term : tactic => `(tactic|
  (have hsim := $h
   rcases hsim with hh | ⟨hB, hh⟩ | ⟨e, hh⟩
   · rw [hh]; exact Sim.rfl'
   · rw [hh]; exact Or.inr (Or.inl ⟨hB, rfl⟩)
   · rw [hh]; exact Or.inr (Or.inr ⟨e, rfl⟩)))

theorem anyGuard_sim {α : Type} (t : Ty) (room : Option Nat) (d : AOff) (off : Nat) {kX k : Except Err α}
    (h : Sim B kX k) : Sim B (anyGuard o t room d off kX) (anyGuard o t room d off k) := by
  unfold anyGuard assertC
  split
  · exact Sim.rfl'
  · split
    · exact Sim.rfl'
    · split
      · exact Sim.rfl'
      · exact h

theorem assertC_sim {α : Type} (c : Prop) [Decidable c] {kX k : Except Err α}
    (h : Sim B kX k) : Sim B (assertC o c kX) (assertC o c k) := by
  unfold assertC
  split
  · exact Sim.rfl'
  · exact h

theorem deUintX_sim (hfx : X.fixed = true) (hp : Placed X b0 L0) (hh : HeadOK X b0 L0) (pb n : Nat) (d : AOff)
    (buf : Buf) (cap off : Nat) (hi : InvD o X b0 L0 pb buf) :
    Sim B (deUintX o X pb n d buf cap off) (deUint o n d buf cap off) := by
  unfold deUintX
  split
  · exact Sim.rfl'
  · rename_i h
    have : deUint o n d buf cap off = liftP (getU o.little (storW n) buf cap off n) := by
      unfold deUint
      simp only [h, if_false]
    rw [this]
    exact getUX_sim hfx hp hh pb _ buf cap off n hi

theorem deSintX_sim (hfx : X.fixed = true) (hp : Placed X b0 L0) (hh : HeadOK X b0 L0) (pb n : Nat)
    (buf : Buf) (cap off : Nat) (hi : InvD o X b0 L0 pb buf) :
    Sim B (deSintX o X pb n buf cap off) (deSint o n buf cap off) :=
  getIX_sim hfx hp hh pb _ buf cap off n hi

theorem deFloatX_sim (hfx : X.fixed = true) (hp : Placed X b0 L0) (hh : HeadOK X b0 L0) (pb n : Nat)
    (buf : Buf) (cap off : Nat) (hi : InvD o X b0 L0 pb buf) :
    Sim B (deFloatX o X pb n buf cap off) (deFloat o n buf cap off) := by
  unfold deFloatX deFloat
  sim_same (getUX_sim (B := B) hfx hp hh pb n buf cap off n hi)

theorem deLoop_sim {elemX elem : Nat → Except Err (Val × Nat)} (h : ∀ f, Sim B (elemX f) (elem f)) :
    ∀ (k off : Nat), Sim B (deLoop elemX k off) (deLoop elem k off) := by
  intro k
  induction k with
  | zero => intro off; exact Sim.rfl'
  | succ k ih =>
    intro off
    simp only [deLoop]
    rcases h off with hh | ⟨hB, hh⟩ | ⟨e, hh⟩
    · rw [hh]
      cases elem off with
      | error e => exact Sim.rfl'
      | ok w =>
        obtain ⟨v, o'⟩ := w
        simp only
        rcases ih o' with h2 | ⟨hB, h2⟩ | ⟨e, h2⟩
        · rw [h2]; exact Sim.rfl'
        · rw [h2]; exact Or.inr (Or.inl ⟨hB, rfl⟩)
        · rw [h2]; exact Or.inr (Or.inr ⟨e, rfl⟩)
    · rw [hh]; exact Or.inr (Or.inl ⟨hB, rfl⟩)
    · rw [hh]; exact Or.inr (Or.inr ⟨e, rfl⟩)

theorem deElemsX_nonbool (pb : Nat) (t : Ty) (ht : t ≠ .bool) (elem : Nat → Except Err (Val × Nat))
    (count storN : Nat) (buf : Buf) (cap off : Nat) :
    deElemsX o X pb t elem count storN buf cap off =
      if zeroCost o t then
        match getBitsX o X pb (List.replicate (storN * (primBits t / 8)) (o.fill % 256)) buf cap off (count * primBits t) with
        | .error e => .error e
        | .ok r =>
          .ok ((List.range count).map (fun i => elemVal t ((r.drop (i * (primBits t / 8))).take (primBits t / 8))),
            off + count * primBits t)
      else deLoop elem count off := by
  cases t <;> first | exact absurd rfl ht | rfl

theorem deElemsX_sim (hfx : X.fixed = true) (hp : Placed X b0 L0) (hh : HeadOK X b0 L0) (pb : Nat) (t : Ty)
    {elemX elem : Nat → Except Err (Val × Nat)} (he : ∀ f, Sim B (elemX f) (elem f)) (count storN : Nat)
    (buf : Buf) (cap off : Nat) (hi : InvD o X b0 L0 pb buf) :
    Sim B (deElemsX o X pb t elemX count storN buf cap off) (deElems o t elem count storN buf cap off) := by
  by_cases hb : t = .bool
  · subst hb
    simp only [deElemsX, deElems]
    sim_same (getBitsX_sim (B := B) hfx hp hh pb (List.replicate ((storN + 7) / 8) (o.fill % 256)) buf cap off count hi)
  · rw [deElemsX_nonbool pb t hb, deElems_nonbool o t hb]
    split
    · sim_same (getBitsX_sim (B := B) hfx hp hh pb (List.replicate (storN * (primBits t / 8)) (o.fill % 256)) buf cap
        off (count * primBits t) hi)
    · exact deLoop_sim he count off

theorem invD_drop {pb : Nat} {buf : Buf} (hi : InvD o X b0 L0 pb buf) (k : Nat) :
    InvD o X b0 L0 (pb + k) (buf.drop k) := by
  intro ha hx
  obtain ⟨h0, h1⟩ := hi ha hx
  refine ⟨by omega, fun hne => ?_⟩
  have hk : k < buf.length := by
    rcases Nat.lt_or_ge k buf.length with h | h
    · exact h
    · exact absurd (List.drop_eq_nil_of_le h) hne
  have : buf ≠ [] := by
    intro e
    rw [e] at hk
    simp at hk
  have := h1 this
  simp only [List.length_drop]
  omega

theorem nestedDeX_sim (hfx : X.fixed = true) (hp : Placed X b0 L0) (hh : HeadOK X b0 L0) (pb : Nat)
    {innerX : Nat → Buf → Nat → Except Err (Val × Nat)} {inner : Buf → Nat → Except Err (Val × Nat)}
    (hin : ∀ pb' buf' c, InvD o X b0 L0 pb' buf' → Sim B (innerX pb' buf' c) (inner buf' c))
    (isDelim : Bool) (d : AOff) (buf : Buf) (cap off : Nat) (hi : InvD o X b0 L0 pb buf) :
    Sim B (nestedDeX o X pb innerX isDelim d buf cap off) (nestedDe o inner isDelim d buf cap off) := by
  unfold nestedDeX nestedDe
  split
  · rcases deUintX_sim (B := B) hfx hp hh pb 32 d buf cap off hi with h1 | ⟨hB, h1⟩ | ⟨e, h1⟩
    · rw [h1]
      cases deUint o 32 d buf cap off with
      | error e => exact Sim.rfl'
      | ok h =>
        simp only
        split
        · exact Sim.rfl'
        · apply assertC_sim
          sim_same (hin (pb + (off + 32) / 8) (buf.drop ((off + 32) / 8)) h (invD_drop hi _))
    · rw [h1]; exact Or.inr (Or.inl ⟨hB, rfl⟩)
    · rw [h1]; exact Or.inr (Or.inr ⟨e, rfl⟩)
  · apply assertC_sim
    sim_same (hin (pb + off / 8) (buf.drop (off / 8)) (remainingBytes cap off) (invD_drop hi _))

theorem topDe_sim (maxB : Nat) (triv : Val) {bodyX body : Buf → Nat → Except Err (Val × Nat)} (buf : Buf) (cap : Nat)
    (h : Sim B (bodyX buf cap) (body buf cap)) :
    Sim B (topDe o maxB triv bodyX buf cap) (topDe o maxB triv body buf cap) := by
  unfold topDe
  split
  · exact Sim.rfl'
  · sim_same h

/-- the claim for one type: every site and the generated function -/
def DeSimP (o : Opts) (X : Ext) (b0 L0 : Nat) (B : Prop) (t : Ty) : Prop :=
  (∀ pb d buf cap off, InvD o X b0 L0 pb buf → Sim B (deAnyX o X t pb d buf cap off) (deAny o t d buf cap off)) ∧
  (∀ pb buf cap, InvD o X b0 L0 pb buf → Sim B (deFnX o X t pb buf cap) (deFn o t buf cap))

theorem deFieldsX_sim : ∀ (fs : List Ty), (∀ f ∈ fs, DeSimP o X b0 L0 B f) → ∀ first pb d buf cap off,
    InvD o X b0 L0 pb buf → Sim B (deFieldsX o X fs first pb d buf cap off) (deFields o fs first d buf cap off) := by
  intro fs
  induction fs with
  | nil => intro _ first pb d buf cap off _; exact Sim.rfl'
  | cons f fs ih =>
    intro hf first pb d buf cap off hi
    simp only [deFieldsX, deFields]
    have h1 := anyGuard_sim (o := o) f none (d.pad (align f)) (if first = true then off else padDe (align f) off)
      ((hf f (List.mem_cons_self)).1 pb (d.pad (align f)) buf cap (if first = true then off else padDe (align f) off) hi)
    rcases h1 with h1 | ⟨hB, h1⟩ | ⟨e, h1⟩
    · rw [h1]
      cases anyGuard o f none (d.pad (align f)) (if first = true then off else padDe (align f) off)
          (deAny o f (d.pad (align f)) buf cap (if first = true then off else padDe (align f) off)) with
      | error e => exact Sim.rfl'
      | ok w =>
        obtain ⟨v, o'⟩ := w
        simp only
        sim_same (ih (fun g hg => hf g (List.mem_cons_of_mem _ hg)) false pb ((d.pad (align f)).add (resBits f)) buf cap o' hi)
    · rw [h1]; exact Or.inr (Or.inl ⟨hB, rfl⟩)
    · rw [h1]; exact Or.inr (Or.inr ⟨e, rfl⟩)

theorem deNthX_sim : ∀ (fs : List Ty), (∀ f ∈ fs, DeSimP o X b0 L0 B f) → ∀ k pb d buf cap off,
    InvD o X b0 L0 pb buf → Sim B (deNthX o X fs k pb d buf cap off) (deNth o fs k d buf cap off) := by
  intro fs
  induction fs with
  | nil => intro _ k pb d buf cap off _; exact Sim.rfl'
  | cons f fs ih =>
    intro hf k pb d buf cap off hi
    cases k with
    | zero =>
      simp only [deNthX, deNth]
      exact anyGuard_sim f none d off ((hf f (List.mem_cons_self)).1 pb d buf cap off hi)
    | succ k =>
      simp only [deNthX, deNth]
      exact ih (fun g hg => hf g (List.mem_cons_of_mem _ hg)) k pb d buf cap off hi

theorem structBody_sim (fs : List Ty) (hf : ∀ f ∈ fs, DeSimP o X b0 L0 B f) (pb : Nat) (buf : Buf) (cap : Nat)
    (hi : InvD o X b0 L0 pb buf) :
    Sim B (match deFieldsX o X fs true pb AOff.zero buf cap 0 with
        | .error e => .error e
        | .ok (vs, f) => .ok (Val.struct vs, f))
      (match deFields o fs true AOff.zero buf cap 0 with
        | .error e => .error e
        | .ok (vs, f) => .ok (Val.struct vs, f)) := by
  sim_same (deFieldsX_sim (B := B) fs hf true pb AOff.zero buf cap 0 hi)

theorem unionBody_sim (hfx : X.fixed = true) (hp : Placed X b0 L0) (hh : HeadOK X b0 L0)
    (fs : List Ty) (hf : ∀ f ∈ fs, DeSimP o X b0 L0 B f) (pb : Nat) (buf : Buf) (cap : Nat)
    (hi : InvD o X b0 L0 pb buf) :
    Sim B (match deUintX o X pb (tagBits fs.length) AOff.zero buf cap 0 with
        | .error e => .error e
        | .ok k =>
          match deNthX o X fs k pb (AOff.single (tagBits fs.length)) buf cap (tagBits fs.length) with
          | .error e => .error e
          | .ok (v, f) => .ok (Val.union k v, f))
      (match deUint o (tagBits fs.length) AOff.zero buf cap 0 with
        | .error e => .error e
        | .ok k =>
          match deNth o fs k (AOff.single (tagBits fs.length)) buf cap (tagBits fs.length) with
          | .error e => .error e
          | .ok (v, f) => .ok (Val.union k v, f)) := by
  rcases deUintX_sim (B := B) hfx hp hh pb (tagBits fs.length) AOff.zero buf cap 0 hi with h1 | ⟨hB, h1⟩ | ⟨e, h1⟩
  · rw [h1]
    cases deUint o (tagBits fs.length) AOff.zero buf cap 0 with
    | error e => exact Sim.rfl'
    | ok k =>
      simp only
      sim_same (deNthX_sim (B := B) fs hf k pb (AOff.single (tagBits fs.length)) buf cap (tagBits fs.length) hi)
  · rw [h1]; exact Or.inr (Or.inl ⟨hB, rfl⟩)
  · rw [h1]; exact Or.inr (Or.inr ⟨e, rfl⟩)

theorem zc_mod8 {t : Ty} (hz : zeroCost o t = true) : primBits t % 8 = 0 := by
  cases t <;> simp [zeroCost, isStd, primBits] at hz ⊢
  all_goals (rcases hz.2 with h | h <;> try (rcases h with h | h) <;> try (rcases h with h | h)) <;> omega

theorem liftP_appR (x : Buf) (r : Except Bits.Err Buf) :
    liftP (appR x r) = match liftP r with | .error e => .error e | .ok b => .ok (b ++ x) := by
  cases r <;> rfl

/-- decoding `count` elements into a member array of `s'` elements gives the same values as into one of `s ≥ s'`
elements (the user-reduced capacity of `enable_override_variable_array_capacity`), as long as `count ≤ s'` -/
theorem deElems_storN (t : Ty) (elem : Nat → Except Err (Val × Nat)) (count s' s : Nat) (hc : count ≤ s') (hs : s' ≤ s)
    (hb : t = .bool → s' = s) (buf : Buf) (cap off : Nat) :
    deElems o t elem count s' buf cap off = deElems o t elem count s buf cap off := by
  by_cases hbool : t = .bool
  · rw [hb hbool]
  · rw [deElems_nonbool o t hbool, deElems_nonbool o t hbool]
    split
    · rename_i hz
      have hm := zc_mod8 hz
      have hsplit : List.replicate (s * (primBits t / 8)) (o.fill % 256) =
          List.replicate (s' * (primBits t / 8)) (o.fill % 256) ++
            List.replicate ((s - s') * (primBits t / 8)) (o.fill % 256) := by
        rw [List.replicate_append_replicate, ← Nat.add_mul]
        congr 2
        omega
      rw [hsplit, getBits_append _ _ _ _ _ _ (by
        rw [List.length_replicate]
        have : count * (primBits t / 8) ≤ s' * (primBits t / 8) := Nat.mul_le_mul_right _ hc
        have e : count * primBits t = 8 * (count * (primBits t / 8)) := by
          have : primBits t = 8 * (primBits t / 8) := by omega
          calc count * primBits t = count * (8 * (primBits t / 8)) := by rw [← this]
            _ = 8 * (count * (primBits t / 8)) := by rw [Nat.mul_left_comm]
        omega), liftP_appR]
      cases hg : liftP (getBits (List.replicate (s' * (primBits t / 8)) (o.fill % 256)) buf cap off (count * primBits t)) with
      | error e => rfl
      | ok r =>
        simp only [Except.ok.injEq, Prod.mk.injEq, and_true]
        apply List.map_congr_left
        intro i hi
        have hi' : i < count := List.mem_range.mp hi
        have hl : r.length = s' * (primBits t / 8) := by
          have := getBits_ok_length (liftP_ok hg)
          rw [List.length_replicate] at this
          exact this
        have h1 : (i + 1) * (primBits t / 8) ≤ s' * (primBits t / 8) := Nat.mul_le_mul_right _ (by omega)
        have h2 : i * (primBits t / 8) + primBits t / 8 ≤ r.length := by rw [hl, ← Nat.succ_mul]; exact h1
        congr 1
        rw [List.drop_append_of_le_length (by omega), List.take_append_of_le_length (by rw [List.length_drop]; omega)]
    · rfl

theorem deSimP (hfx : X.fixed = true) (hp : Placed X b0 L0) (hh : HeadOK X b0 L0)
    (hle : ∀ t c, effCap X t c ≤ c) (hB : ∀ t c, effCap X t c < c → B) (t : Ty) :
    DeSimP o X b0 L0 B t := by
  have hbool : ∀ c, effCap X .bool c = c := fun c => by simp [effCap, isBoolTy]
  refine Ty.ind (P := DeSimP o X b0 L0 B) ?_ ?_ ?_ ?_ ?_ ?_ ?_ ?_ ?_ ?_ t
  · intro n m
    refine ⟨fun pb d buf cap off hi => ?_, fun pb buf cap _ => Sim.rfl'⟩
    simp only [deAnyX, deAny]
    sim_same (deUintX_sim (B := B) hfx hp hh pb n d buf cap off hi)
  · intro n m
    refine ⟨fun pb d buf cap off hi => ?_, fun pb buf cap _ => Sim.rfl'⟩
    simp only [deAnyX, deAny]
    sim_same (deSintX_sim (B := B) hfx hp hh pb n buf cap off hi)
  · intro n m
    refine ⟨fun pb d buf cap off hi => ?_, fun pb buf cap _ => Sim.rfl'⟩
    simp only [deAnyX, deAny]
    sim_same (deFloatX_sim (B := B) hfx hp hh pb n buf cap off hi)
  · exact ⟨fun pb d buf cap off hi => Sim.rfl', fun pb buf cap _ => Sim.rfl'⟩
  · intro n
    exact ⟨fun pb d buf cap off hi => Sim.rfl', fun pb buf cap _ => Sim.rfl'⟩
  · intro t n ih
    refine ⟨fun pb d buf cap off hi => ?_, fun pb buf cap _ => Sim.rfl'⟩
    simp only [deAnyX, deAny]
    sim_same (deElemsX_sim (B := B) hfx hp hh pb t
      (fun f => anyGuard_sim (o := o) t none (d.add (AOff.rangeRep (resBits t) (n - 1) AOff.zero)) f
        (ih.1 pb (d.add (AOff.rangeRep (resBits t) (n - 1) AOff.zero)) buf cap f hi)) n n buf cap off hi)
  · intro t c ih
    refine ⟨fun pb d buf cap off hi => ?_, fun pb buf cap _ => Sim.rfl'⟩
    simp only [deAnyX, deAny]
    rcases deUintX_sim (B := B) hfx hp hh pb (prefixBits c) d buf cap off hi with h1 | ⟨hB', h1⟩ | ⟨e, h1⟩
    · rw [h1]
      cases deUint o (prefixBits c) d buf cap off with
      | error e => exact Sim.rfl'
      | ok count =>
        simp only
        by_cases hc1 : count > effCap X t c
        · simp only [hc1, if_true]
          by_cases hc2 : count > c
          · simp only [hc2, if_true]
            exact Sim.rfl'
          · exact Or.inr (Or.inl ⟨hB t c (by omega), rfl⟩)
        · have hc2 : ¬ count > c := by have := hle t c; omega
          simp only [hc1, hc2, if_false]
          apply assertC_sim
          rw [← deElems_storN (o := o) t _ count (effCap X t c) c (by omega) (hle t c)
            (fun e => by rw [e]; exact hbool c) buf cap (off + prefixBits c)]
          sim_same (deElemsX_sim (B := B) hfx hp hh pb t
            (fun f => anyGuard_sim (o := o) t none (d.add (resBits (.varr t c))) f
              (ih.1 pb (d.add (resBits (.varr t c))) buf cap f hi)) count (effCap X t c) buf cap (off + prefixBits c) hi)
    · rw [h1]; exact Or.inr (Or.inl ⟨hB', rfl⟩)
    · rw [h1]; exact Or.inr (Or.inr ⟨e, rfl⟩)
  · intro fs ih
    have hfn : ∀ pb buf cap, InvD o X b0 L0 pb buf →
        Sim B (deFnX o X (.struct fs) pb buf cap) (deFn o (.struct fs) buf cap) := by
      intro pb buf cap hi
      simp only [deFnX, deFn]
      exact topDe_sim _ _ buf cap (structBody_sim fs ih pb buf cap hi)
    refine ⟨fun pb d buf cap off hi => ?_, hfn⟩
    simp only [deAnyX, deAny]
    refine nestedDeX_sim hfx hp hh pb (fun pb' buf' c hi' => ?_) false d buf cap off hi
    have := hfn pb' buf' c hi'
    simp only [deFnX, deFn] at this
    exact this
  · intro fs ih
    have hfn : ∀ pb buf cap, InvD o X b0 L0 pb buf →
        Sim B (deFnX o X (.union fs) pb buf cap) (deFn o (.union fs) buf cap) := by
      intro pb buf cap hi
      simp only [deFnX, deFn]
      exact topDe_sim _ _ buf cap (unionBody_sim hfx hp hh fs ih pb buf cap hi)
    refine ⟨fun pb d buf cap off hi => ?_, hfn⟩
    simp only [deAnyX, deAny]
    refine nestedDeX_sim hfx hp hh pb (fun pb' buf' c hi' => ?_) false d buf cap off hi
    have := hfn pb' buf' c hi'
    simp only [deFnX, deFn] at this
    exact this
  · intro e t ih
    refine ⟨fun pb d buf cap off hi => ?_, fun pb buf cap hi => ?_⟩
    · simp only [deAnyX, deAny]
      exact nestedDeX_sim hfx hp hh pb (fun pb' buf' c hi' => ih.2 pb' buf' c hi') true d buf cap off hi
    · simp only [deFnX, deFn]
      exact ih.2 pb buf cap hi

end

end NunavutVerif.GenC
