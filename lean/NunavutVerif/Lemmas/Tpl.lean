import NunavutVerif.Model.Tpl
import NunavutVerif.Model.ProcState
import NunavutVerif.Lemmas.LineBuffer
/-!
Helper lemmas for C07 / C10: noninterference of the mini template language by structural induction,
prefix-monotonicity of `firstLineNonBlank`, path-name and sorting sanitisers.
-/
namespace NunavutVerif.Tpl
open NunavutVerif.LineBuffer (Str)

variable {δ : Type}

/-- Two ambient states that differ at most in the classes `cs`. -/
def agreeOff (cs : List Src) (a₁ a₂ : Amb) : Prop := ∀ s, cs.contains s = false → a₁ s = a₂ s

theorem agreeOff_refl (cs : List Src) (a : Amb) : agreeOff cs a a := fun _ _ => rfl

/-- Any two ambient states agree off the set of *all* classes of a list that contains every class they differ in. -/
theorem agreeOff_of_all (cs : List Src) (a₁ a₂ : Amb) (h : ∀ s, a₁ s ≠ a₂ s → cs.contains s = true) :
    agreeOff cs a₁ a₂ := by
  intro s hs
  by_cases e : a₁ s = a₂ s
  · exact e
  · have := h s e; simp_all

theorem mask_eq_of_clean {cs : List Src} {l : Leaf} {a₁ a₂ : Amb}
    (h : agreeOff cs a₁ a₂) (hc : l.cleanFor cs = true) :
    mask l.effective a₁ = mask l.effective a₂ := by
  funext s
  unfold mask
  by_cases hs : l.effective.contains s = true
  · simp only [hs, if_true]
    apply h
    unfold Leaf.cleanFor at hc
    rw [List.all_eq_true] at hc
    have hm : s ∈ l.effective := by simpa using hs
    have := hc s hm
    simpa using this
  · have hm : ¬ s ∈ l.effective := by simpa using hs
    simp [hm]

theorem evalCond_ni {cs : List Src} (I : Interp δ) (d : δ) {a₁ a₂ : Amb} (h : agreeOff cs a₁ a₂)
    (ls : List Nat) (c : Cond) (hc : c.cleanFor cs = true) :
    evalCond I false d a₁ ls c = evalCond I false d a₂ ls c := by
  cases c with
  | audit => rfl
  | notAudit => rfl
  | leaf l =>
    simp only [evalCond]
    rw [mask_eq_of_clean h (by simpa [Cond.cleanFor] using hc)]

/-- One body: with auditing off, a clean body renders the same under two ambient states that differ only in `cs`,
provided the callees it uses do. -/
theorem renderWith_ni {cs : List Src} (I : Interp δ) (d : δ) {a₁ a₂ : Amb} (h : agreeOff cs a₁ a₂)
    (c₁ c₂ : Nat → List Nat → Str) :
    ∀ (t : Tpl) (ls : List Nat), t.cleanFor cs = true →
      (∀ m, m ∈ t.callees → ∀ ls', c₁ m ls' = c₂ m ls') →
      renderWith I false d a₁ c₁ ls t = renderWith I false d a₂ c₂ ls t := by
  intro t
  induction t with
  | nil => intros; rfl
  | text i => intros; rfl
  | out e =>
    intro ls hc _
    simp only [renderWith]
    rw [mask_eq_of_clean h (by simpa [Tpl.cleanFor] using hc)]
  | seq x y ihx ihy =>
    intro ls hc hcal
    simp only [Tpl.cleanFor, Bool.and_eq_true] at hc
    simp only [renderWith]
    rw [ihx ls hc.1 (fun m hm => hcal m (by simp [Tpl.callees, hm])),
        ihy ls hc.2 (fun m hm => hcal m (by simp [Tpl.callees, hm]))]
  | ite c t e iht ihe =>
    intro ls hc hcal
    cases c with
    | audit =>
      simp only [Tpl.cleanFor] at hc
      simp only [renderWith, evalCond]
      exact ihe ls hc (fun m hm => hcal m (by simp [Tpl.callees, hm]))
    | notAudit =>
      simp only [Tpl.cleanFor] at hc
      simp only [renderWith, evalCond]
      exact iht ls hc (fun m hm => hcal m (by simp [Tpl.callees, hm]))
    | leaf l =>
      simp only [Tpl.cleanFor, Bool.and_eq_true] at hc
      simp only [renderWith]
      rw [evalCond_ni I d h ls (.leaf l) (by simpa [Cond.cleanFor] using hc.1.1)]
      rw [iht ls hc.1.2 (fun m hm => hcal m (by simp [Tpl.callees, hm])),
          ihe ls hc.2 (fun m hm => hcal m (by simp [Tpl.callees, hm]))]
  | loop e body ih =>
    intro ls hc hcal
    simp only [Tpl.cleanFor, Bool.and_eq_true] at hc
    simp only [renderWith]
    rw [mask_eq_of_clean h hc.1]
    congr 1
    funext item
    exact ih (item :: ls) hc.2 (fun m hm => hcal m (by simpa [Tpl.callees] using hm))
  | call m =>
    intro ls _ hcal
    simp only [renderWith]
    exact hcal m (by simp [Tpl.callees]) ls
  | filterBlock f t ih =>
    intro ls hc hcal
    simp only [Tpl.cleanFor, Bool.and_eq_true] at hc
    simp only [renderWith]
    rw [mask_eq_of_clean h hc.1, ih ls hc.2 (fun m hm => hcal m (by simpa [Tpl.callees] using hm))]

/-- **Noninterference** (T1): if the bodies in `S` are closed under calls and clean for the classes `cs`, then with
auditing off every body of `S` renders to the same text under any two ambient states that differ only in `cs`,
for every interpretation of the leaves, all declared inputs, every call depth and loop context. -/
theorem render_ni {cs : List Src} (I : Interp δ) (P : List Tpl) (S : List Nat) (hS : closedClean cs P S = true)
    (d : δ) {a₁ a₂ : Amb} (h : agreeOff cs a₁ a₂) :
    ∀ (fuel m : Nat) (ls : List Nat), m ∈ S →
      render I P false d a₁ fuel m ls = render I P false d a₂ fuel m ls := by
  intro fuel
  induction fuel with
  | zero => intros; rfl
  | succ f ih =>
    intro m ls hm
    unfold closedClean at hS
    rw [List.all_eq_true] at hS
    have hm' := hS m hm
    simp only [render]
    cases hb : P[m]? with
    | none => rfl
    | some b =>
      simp only [hb, Bool.and_eq_true, List.all_eq_true] at hm'
      simp only []
      apply renderWith_ni I d h _ _ b ls hm'.1
      intro c hc ls'
      have := hm'.2 c hc
      exact ih c ls' (by simpa using this)

/-! ### First line -/

theorem firstLineNonBlank_append (p q : Str) (h : firstLineNonBlank p = true) :
    firstLineNonBlank (p ++ q) = true := by
  induction p with
  | nil => simp [firstLineNonBlank] at h
  | cons c rest ih =>
    simp only [List.cons_append, firstLineNonBlank] at h ⊢
    by_cases h1 : c = '\n'
    · simp [h1] at h
    · simp only [h1, if_false] at h ⊢
      by_cases h2 : LineBuffer.isWs c = true
      · simp only [h2, if_true] at h ⊢; exact ih h
      · simp [h2]

/-! ### The `.name` sanitiser: the last component of a path does not depend on where the tree is placed -/

/-- A path as its components; `prefix ++ rel` is the file `rel` below the absolute location `prefix`. -/
theorem path_name_location_independent {α : Type} (p₁ p₂ rel : List α) (h : rel ≠ []) :
    (p₁ ++ rel).getLast? = (p₂ ++ rel).getLast? := by
  cases rel with
  | nil => exact absurd rfl h
  | cons x xs =>
    have hx : (x :: xs).getLast? = some ((x :: xs).getLast (by simp)) := List.getLast?_eq_some_getLast (by simp)
    simp [List.getLast?_append, hx]

/-! ### The `sort` sanitiser -/

theorem strLe_total (a b : Str) : (strLe a b || strLe b a) = true := by
  induction a generalizing b with
  | nil => simp [strLe]
  | cons x xs ih =>
    cases b with
    | nil => simp [strLe]
    | cons y ys =>
      simp only [strLe]
      by_cases h1 : x.toNat < y.toNat
      · simp [h1]
      · by_cases h2 : y.toNat < x.toNat
        · simp [h2]
        · simp only [h1, h2, if_false]; exact ih ys

theorem strLe_antisymm (a b : Str) (h1 : strLe a b = true) (h2 : strLe b a = true) : a = b := by
  induction a generalizing b with
  | nil => cases b with
    | nil => rfl
    | cons y ys => simp [strLe] at h2
  | cons x xs ih =>
    cases b with
    | nil => simp [strLe] at h1
    | cons y ys =>
      simp only [strLe] at h1 h2
      by_cases l1 : x.toNat < y.toNat
      · have : ¬ y.toNat < x.toNat := by omega
        simp [l1, this] at h2
      · by_cases l2 : y.toNat < x.toNat
        · simp [l1, l2] at h1
        · simp only [l1, l2, if_false] at h1 h2
          have : x.toNat = y.toNat := by omega
          have hx : x = y := Char.toNat_inj.mp this
          rw [hx, ih ys h1 h2]

theorem strLe_trans (a b c : Str) (h1 : strLe a b = true) (h2 : strLe b c = true) : strLe a c = true := by
  induction a generalizing b c with
  | nil => simp [strLe]
  | cons x xs ih =>
    cases b with
    | nil => simp [strLe] at h1
    | cons y ys =>
      cases c with
      | nil => simp [strLe] at h2
      | cons z zs =>
        simp only [strLe] at h1 h2 ⊢
        by_cases l1 : x.toNat < y.toNat
        · by_cases l2 : y.toNat < z.toNat
          · have : x.toNat < z.toNat := by omega
            simp [this]
          · by_cases l3 : z.toNat < y.toNat
            · simp [l2, l3] at h2
            · have : x.toNat < z.toNat := by omega
              simp [this]
        · by_cases l1' : y.toNat < x.toNat
          · simp [l1, l1'] at h1
          · simp only [l1, l1', if_false] at h1
            by_cases l2 : y.toNat < z.toNat
            · have : x.toNat < z.toNat := by omega
              simp [this]
            · by_cases l3 : z.toNat < y.toNat
              · simp [l2, l3] at h2
              · simp only [l2, l3, if_false] at h2
                have e1 : ¬ x.toNat < z.toNat := by omega
                have e2 : ¬ z.toNat < x.toNat := by omega
                simp only [e1, e2, if_false]
                exact ih ys zs h1 h2

/-- Sorting removes the order of the input: permutations sort to the same list. -/
theorem sortStrs_perm_invariant (l₁ l₂ : List Str) (h : l₁.Perm l₂) : sortStrs l₁ = sortStrs l₂ := by
  unfold sortStrs
  apply List.Perm.eq_of_pairwise (le := fun a b => strLe a b = true)
  · intro a b _ _ h1 h2; exact strLe_antisymm a b h1 h2
  · exact List.pairwise_mergeSort (fun a b c => strLe_trans a b c) strLe_total l₁
  · exact List.pairwise_mergeSort (fun a b c => strLe_trans a b c) strLe_total l₂
  · exact (List.mergeSort_perm l₁ _).trans (h.trans (List.mergeSort_perm l₂ _).symm)

end NunavutVerif.Tpl

namespace NunavutVerif.ProcState
open NunavutVerif.LineBuffer NunavutVerif.Tpl

/-! ### UniqueNameGenerator -/

theorem lookup_bump (st : UState) (k k' : NameKey) :
    lookup (bump st k) k' = if k' = k then lookup st k + 1 else lookup st k' := by
  induction st with
  | nil =>
    by_cases h : k' = k
    · simp [bump, lookup, h]
    · have h' : ¬ k = k' := fun e => h e.symm
      simp [bump, lookup, h, h']
  | cons p rest ih =>
    obtain ⟨k0, n⟩ := p
    simp only [bump]
    by_cases h0 : k0 = k
    · subst h0
      by_cases h : k' = k0
      · subst h; simp [lookup]
      · have h' : ¬ k0 = k' := fun e => h e.symm
        simp [lookup, h, h']
    · simp only [h0, if_false, lookup]
      by_cases h1 : k0 = k'
      · subst h1; simp [h0]
      · simp only [h1, if_false]; exact ih

/-- The names issued from a state depend on that state only through `lookup`, and follow the closed form. -/
theorem issue_eq_spec (st : UState) (seen : List NameKey) (reqs : List Req)
    (h : ∀ k, lookup st k = seen.count k) : (issue st reqs).1 = specNames seen reqs := by
  induction reqs generalizing st seen with
  | nil => rfl
  | cons r rs ih =>
    simp only [issue, specNames, request]
    rw [h r.nameKey]
    congr 1
    apply ih
    intro k
    rw [lookup_bump, List.count_cons, h k, h r.nameKey]
    by_cases e : k = r.nameKey
    · subst e; simp
    · have e' : ¬ (r.nameKey == k) = true := by simpa using fun x => e x.symm
      simp [e, e']

theorem lookup_resetDomain (st : UState) (d : Str) (k : NameKey) :
    lookup (resetDomain st d) k = if k.1 = d then 0 else lookup st k := by
  induction st with
  | nil => simp [resetDomain, lookup]
  | cons p rest ih =>
    obtain ⟨k0, n⟩ := p
    simp only [resetDomain]
    by_cases h0 : k0.1 = d
    · simp only [h0, if_true, ih, lookup]
      by_cases e : k0 = k
      · subst e; simp [h0]
      · simp [e]
    · simp only [h0, if_false, lookup, ih]
      by_cases e : k0 = k
      · subst e; simp [h0]
      · simp [e]

/-- Names issued for requests that all belong to the domain `d` depend on the state only through `d`'s counters. -/
theorem issue_eq_spec_domain (d : Str) (st : UState) (seen : List NameKey) (reqs : List Req)
    (hd : ∀ r ∈ reqs, r.key = d) (h : ∀ k : NameKey, k.1 = d → lookup st k = seen.count k) :
    (issue st reqs).1 = specNames seen reqs := by
  induction reqs generalizing st seen with
  | nil => rfl
  | cons r rs ih =>
    have hr : r.nameKey.1 = d := hd r (by simp)
    simp only [issue, specNames, request]
    rw [h r.nameKey hr]
    congr 1
    apply ih
    · intro r' hr'; exact hd r' (by simp [hr'])
    · intro k hk
      rw [lookup_bump, List.count_cons, h k hk, h r.nameKey hr]
      by_cases e : k = r.nameKey
      · subst e; simp
      · have e' : ¬ (r.nameKey == k) = true := by simpa using fun x => e x.symm
        simp [e, e']

/-! ### Line post-processors -/

theorem hasNonWs_append (a b : Str) : hasNonWs (a ++ b) = (hasNonWs a || hasNonWs b) := by
  induction a with
  | nil => simp [hasNonWs]
  | cons c rest ih => simp [hasNonWs, ih, Bool.or_assoc]

theorem ne_nil_of_hasNonWs {s : Str} (h : hasNonWs s = true) : s ≠ [] := by
  intro e; subst e; simp [hasNonWs] at h

theorem hasNonWs_trimStr (s : Str) (h : hasNonWs s = true) : hasNonWs (trimStr s) = true := by
  induction s with
  | nil => simp [hasNonWs] at h
  | cons c rest ih =>
    simp only [hasNonWs, Bool.or_eq_true, Bool.not_eq_true'] at h
    simp only [trimStr]
    by_cases hr : hasNonWs rest = true
    · have := ih hr
      have hne := ne_nil_of_hasNonWs this
      simp [hne, hasNonWs, this]
    · have hc : isWs c = false := by
        rcases h with h | h
        · exact h
        · exact absurd h hr
      simp [hc, hasNonWs]

theorem pipeLine_length (pps : List PP) (ss : List Nat) (l : Line) :
    (pipeLine pps ss l).2.length = ss.length := by
  induction pps generalizing ss l with
  | nil => simp [pipeLine]
  | cons p ps ih =>
    cases ss with
    | nil => simp [pipeLine]
    | cons s st => simp [pipeLine, ih]

/-- States that agree on the limiter positions produce the same line and agree afterwards. -/
theorem pipeLine_agree (pps : List PP) (ss ss' : List Nat) (l : Line) (h : limAgree pps ss ss') :
    (pipeLine pps ss l).1 = (pipeLine pps ss' l).1 ∧
      limAgree pps (pipeLine pps ss l).2 (pipeLine pps ss' l).2 := by
  induction pps generalizing ss ss' l with
  | nil => simp [pipeLine, limAgree]
  | cons p ps ih =>
    cases ss with
    | nil => cases p <;> simp [limAgree] at h
    | cons s st =>
      cases ss' with
      | nil => cases p <;> simp [limAgree] at h
      | cons s' st' =>
        cases p with
        | trim =>
          simp only [limAgree] at h
          have := ih st st' (trim l) h
          simp only [pipeLine, ppStep]
          exact ⟨this.1, by simpa [limAgree] using this.2⟩
        | limit n =>
          simp only [limAgree] at h
          obtain ⟨e, h⟩ := h
          subst e
          have := ih st st' (limitStep n s l).1 h
          simp only [pipeLine, ppStep]
          exact ⟨this.1, by simpa [limAgree] using this.2⟩

/-- A line with a non-blank character is passed on unchanged by every limiter, resets every counter, and so makes
the start state irrelevant. -/
theorem pipeLine_nonblank (pps : List PP) (ss ss' : List Nat) (l : Line)
    (hl : ss.length = pps.length) (hl' : ss'.length = pps.length) (hn : hasNonWs l.content = true) :
    (pipeLine pps ss l).1 = (pipeLine pps ss' l).1 ∧
      limAgree pps (pipeLine pps ss l).2 (pipeLine pps ss' l).2 := by
  induction pps generalizing ss ss' l with
  | nil => simp [pipeLine, limAgree]
  | cons p ps ih =>
    cases ss with
    | nil => simp at hl
    | cons s st =>
      cases ss' with
      | nil => simp at hl'
      | cons s' st' =>
        simp only [List.length_cons, Nat.add_right_cancel_iff] at hl hl'
        cases p with
        | trim =>
          have := ih st st' (trim l) hl hl' (by simpa [trim] using hasNonWs_trimStr _ hn)
          simp only [pipeLine, ppStep]
          exact ⟨this.1, by simpa [limAgree] using this.2⟩
        | limit n =>
          have hne := ne_nil_of_hasNonWs hn
          have e1 : limitStep n s l = (l, 0) := by simp [limitStep, hne]
          have e2 : limitStep n s' l = (l, 0) := by simp [limitStep, hne]
          have := ih st st' l hl hl' hn
          simp only [pipeLine, ppStep, e1, e2]
          exact ⟨this.1, by simpa [limAgree] using this.2⟩

theorem pipeLinesSt_agree (pps : List PP) (ss ss' : List Nat) (ls : List Line) (h : limAgree pps ss ss') :
    (pipeLinesSt pps ss ls).1 = (pipeLinesSt pps ss' ls).1 ∧
      limAgree pps (pipeLinesSt pps ss ls).2 (pipeLinesSt pps ss' ls).2 := by
  induction ls generalizing ss ss' with
  | nil => simpa [pipeLinesSt] using h
  | cons l ls ih =>
    have a := pipeLine_agree pps ss ss' l h
    have b := ih _ _ a.2
    simp only [pipeLinesSt]
    exact ⟨by rw [a.1, b.1], b.2⟩

theorem pipeLinesSt_fst (pps : List PP) (ss : List Nat) (ls : List Line) :
    (pipeLinesSt pps ss ls).1 = pipeLines pps ss ls := by
  induction ls generalizing ss with
  | nil => rfl
  | cons l ls ih => simp [pipeLinesSt, pipeLines, ih]

theorem isWs_cr : isWs '\r' = true := by decide

/-- A text whose first line has a non-blank character hands a first line with a non-blank character to the
processors (also when the line buffer already holds one). -/
theorem scan_first_nonblank (buf text : Str)
    (h : hasNonWs buf = true ∨ firstLineNonBlank text = true) :
    ∃ l ls, (scan buf text).1 ++ flush (scan buf text).2 = l :: ls ∧ hasNonWs l.content = true := by
  fun_induction scan buf text with
  | case1 buf =>
    have hb : hasNonWs buf = true := by simpa [firstLineNonBlank] using h
    exact ⟨⟨buf, []⟩, [], by simp [flush, ne_nil_of_hasNonWs hb], hb⟩
  | case2 buf =>
    have hb : hasNonWs buf = true := by simpa [firstLineNonBlank] using h
    exact ⟨⟨buf, LF⟩, [], by simp [flush], hb⟩
  | case3 buf c hc =>
    have hb : hasNonWs (buf ++ [c]) = true := by
      rw [hasNonWs_append]
      rcases h with h | h
      · simp [h]
      · simp only [firstLineNonBlank, hc, if_false] at h
        by_cases w : isWs c = true
        · simp [w] at h
        · simp [hasNonWs, w]
    exact ⟨⟨buf ++ [c], []⟩, [], by simp [flush], hb⟩
  | case4 buf d rest r ih =>
    have hb : hasNonWs buf = true := by simpa [firstLineNonBlank] using h
    exact ⟨⟨buf, LF⟩, r.1 ++ flush r.2, by simp, hb⟩
  | case5 buf c d rest hc hcd r ih =>
    obtain ⟨h1, h2⟩ := hcd
    subst h1; subst h2
    have hb : hasNonWs buf = true := by
      rcases h with h | h
      · exact h
      · simp [firstLineNonBlank, isWs_cr] at h
    exact ⟨⟨buf, CRLF⟩, r.1 ++ flush r.2, by simp, hb⟩
  | case6 buf c d rest hc hcd ih =>
    apply ih
    rcases h with h | h
    · left; rw [hasNonWs_append]; simp [h]
    · simp only [firstLineNonBlank, hc, if_false] at h
      by_cases w : isWs c = true
      · right; simpa [firstLineNonBlank, w] using h
      · left; rw [hasNonWs_append]; simp [hasNonWs, w]

/-- T6 (partial): a file whose first line has a non-blank character is written identically from every start state
of the processors, and leaves them in states that agree on every limiter. -/
theorem fileOut_start_independent (pps : List PP) (ss ss' : List Nat) (text : Str)
    (hl : ss.length = pps.length) (hl' : ss'.length = pps.length) (h : firstLineNonBlank text = true) :
    (fileOut pps ss text).1 = (fileOut pps ss' text).1 ∧
      limAgree pps (fileOut pps ss text).2 (fileOut pps ss' text).2 := by
  obtain ⟨l, ls, e, hn⟩ := scan_first_nonblank [] text (Or.inr h)
  have e' : specLines text = l :: ls := by simpa [specLines] using e
  have a := pipeLine_nonblank pps ss ss' l hl hl' hn
  have b := pipeLinesSt_agree pps _ _ ls a.2
  simp only [fileOut, e', pipeLinesSt]
  exact ⟨by rw [a.1, b.1], b.2⟩

/-- The empty text writes nothing and leaves the processors alone. -/
theorem fileOut_empty (pps : List PP) (ss : List Nat) : fileOut pps ss [] = ([], ss) := by
  simp [fileOut, specLines, scan, flush, pipeLinesSt, write]

/-! ### Memoisation transparency -/

theorem cacheFind_mem {κ ν : Type} [DecidableEq κ] (cache : List (κ × ν)) (k : κ) (v : ν)
    (h : cacheFind cache k = some v) : (k, v) ∈ cache := by
  induction cache with
  | nil => simp [cacheFind] at h
  | cons p rest ih =>
    obtain ⟨k', v'⟩ := p
    simp only [cacheFind] at h
    by_cases e : k' = k
    · subst e; simp only [if_true, Option.some.injEq] at h; subst h; simp
    · simp only [e, if_false] at h; exact List.mem_cons_of_mem _ (ih h)

/-- T5: a valid cache never changes a result and stays valid — under any eviction policy. -/
theorem memoGet_transparent {κ ν : Type} [DecidableEq κ] (f : κ → ν) (evict : List (κ × ν) → List (κ × ν))
    (hev : ∀ c p, p ∈ evict c → p ∈ c) (cache : List (κ × ν)) (hv : CacheValid f cache) (k : κ) :
    (memoGet f evict cache k).1 = f k ∧ CacheValid f (memoGet f evict cache k).2 := by
  unfold memoGet
  cases h : cacheFind cache k with
  | some v =>
    have := hv _ (cacheFind_mem cache k v h)
    exact ⟨this, hv⟩
  | none =>
    refine ⟨rfl, ?_⟩
    intro p hp
    have := hev _ p hp
    simp only [List.mem_cons] at this
    rcases this with e | e
    · subst e; rfl
    · exact hv p e

theorem memoRun_transparent {κ ν : Type} [DecidableEq κ] (f : κ → ν) (evict : List (κ × ν) → List (κ × ν))
    (hev : ∀ c p, p ∈ evict c → p ∈ c) (cache : List (κ × ν)) (hv : CacheValid f cache) (ks : List κ) :
    (memoRun f evict cache ks).1 = ks.map f ∧ CacheValid f (memoRun f evict cache ks).2 := by
  induction ks generalizing cache with
  | nil => exact ⟨rfl, hv⟩
  | cons k ks ih =>
    have a := memoGet_transparent f evict hev cache hv k
    have b := ih _ a.2
    simp only [memoRun, List.map_cons]
    exact ⟨by rw [a.1, b.1], b.2⟩

/-- A cache shared between instances is transparent when the function does not depend on the instance. -/
theorem memoRunShared_transparent {ι κ ν : Type} [DecidableEq κ] (f : ι → κ → ν)
    (hind : ∀ i j k, f i k = f j k) (cache : List (κ × ν)) (hv : ∀ p ∈ cache, ∀ i, p.2 = f i p.1)
    (qs : List (ι × κ)) :
    (memoRunShared f cache qs).1 = qs.map (fun q => f q.1 q.2) ∧
      ∀ p ∈ (memoRunShared f cache qs).2, ∀ i, p.2 = f i p.1 := by
  induction qs generalizing cache with
  | nil => exact ⟨rfl, hv⟩
  | cons q qs ih =>
    simp only [memoRunShared, List.map_cons]
    unfold memoGetShared
    cases h : cacheFind cache q.2 with
    | some v =>
      have e := hv _ (cacheFind_mem cache q.2 v h) q.1
      have b := ih cache hv
      exact ⟨by simp only []; rw [b.1]; exact congrArg (· :: _) e, b.2⟩
    | none =>
      have hv' : ∀ p ∈ (q.2, f q.1 q.2) :: cache, ∀ i, p.2 = f i p.1 := by
        intro p hp i
        simp only [List.mem_cons] at hp
        rcases hp with e | e
        · subst e; exact hind _ _ _
        · exact hv p e i
      have b := ih _ hv'
      exact ⟨by simp only []; rw [b.1], b.2⟩

/-! ### Sequences of files in one process -/

theorem genFile_counters_length {δ : Type} (I : Interp δ) (P : List Tpl) (fuel : Nat) (resetPerFile : Bool)
    (pps : List PP) (σ : PState) (root : Nat) (d : δ) (hl : σ.counters.length = pps.length) :
    (genFile I P fuel resetPerFile pps σ root d).2.length = pps.length := by
  have key : ∀ (ls : List Line) (ss : List Nat), (pipeLinesSt pps ss ls).2.length = ss.length := by
    intro ls
    induction ls with
    | nil => intro ss; rfl
    | cons l ls ih => intro ss; simp [pipeLinesSt, ih, pipeLine_length]
  unfold genFile fileOut
  cases resetPerFile <;> simp [key, hl, zeros]

/-- The state reached after any sequence of files still agrees with the start state on everything that is not
process state, and keeps the shape of the counters. -/
theorem runJobs_invariant {δ : Type} (I : Interp δ) (P : List Tpl) (fuel : Nat) (resetPerFile : Bool)
    (pps : List PP) (evolve : Amb → Job δ → Amb)
    (hev : ∀ a j s, Src.c10.contains s = false → evolve a j s = a s) (jobs : List (Job δ)) (σ : PState)
    (hl : σ.counters.length = pps.length) :
    agreeOff Src.c10 σ.amb (runJobs I P fuel resetPerFile pps evolve σ jobs).2.amb ∧
      (runJobs I P fuel resetPerFile pps evolve σ jobs).2.counters.length = pps.length := by
  induction jobs generalizing σ with
  | nil => exact ⟨agreeOff_refl _ _, hl⟩
  | cons j js ih =>
    simp only [runJobs]
    have := ih ⟨evolve σ.amb j, (genFile I P fuel resetPerFile pps σ j.root j.decl).2⟩
      (genFile_counters_length I P fuel resetPerFile pps σ j.root j.decl hl)
    refine ⟨?_, this.2⟩
    intro s hs
    rw [← this.1 s hs]
    exact (hev σ.amb j s hs).symm

/-! ### Renderings with a per-call line buffer -/

theorem runRenderings_perCall_reset (pps : List PP) (ss : List Nat) (buf : Str) (rs : List Rendering) :
    runRenderings true true pps ss buf rs =
      rs.map fun r => if pps.isEmpty then r.chunks.flatten
                      else write (pipeLinesSt pps (zeros pps) (bufLines [] r).1).1 := by
  induction rs generalizing ss buf with
  | nil => rfl
  | cons r rs ih =>
    by_cases hp : pps.isEmpty = true
    · simp [runRenderings, ih, hp]
    · simp [runRenderings, ih, hp]

theorem fileOut_no_processors (ss : List Nat) (text : Str) : (fileOut [] ss text).1 = text := by
  have h : ∀ (ls : List Line) (ss : List Nat), (pipeLinesSt [] ss ls).1 = ls := by
    intro ls
    induction ls with
    | nil => intro ss; rfl
    | cons l ls ih => intro ss; simp [pipeLinesSt, pipeLine, ih]
  simp only [fileOut, h]
  exact write_scan [] text

theorem bufLines_complete (chunks : List Str) : (bufLines [] ⟨chunks, false⟩).1 = genLines chunks := by
  simp [bufLines, genLines]

/-! ### A cache keyed through a projection -/

theorem memoRunBy_transparent {κ κ' ν : Type} [DecidableEq κ'] (π : κ → κ') (f : κ → ν)
    (hdet : ∀ k k', π k = π k' → f k = f k') (cache : List (κ' × ν)) (hv : CacheValidBy π f cache) (ks : List κ) :
    (memoRunBy π f cache ks).1 = ks.map f ∧ CacheValidBy π f (memoRunBy π f cache ks).2 := by
  induction ks generalizing cache with
  | nil => exact ⟨rfl, hv⟩
  | cons k ks ih =>
    simp only [memoRunBy, List.map_cons]
    cases h : cacheFind cache (π k) with
    | some v =>
      have e : v = f k := hv _ (cacheFind_mem cache (π k) v h) k rfl
      simp only [memoGetBy, h]
      obtain ⟨a, b⟩ := ih cache hv
      exact ⟨by rw [a, e], b⟩
    | none =>
      simp only [memoGetBy, h]
      have hv' : CacheValidBy π f ((π k, f k) :: cache) := by
        intro p hp k' hk'
        rcases List.mem_cons.mp hp with rfl | hp
        · exact hdet k k' hk'.symm
        · exact hv p hp k' hk'
      obtain ⟨a, b⟩ := ih _ hv'
      exact ⟨by rw [a], b⟩

end NunavutVerif.ProcState
