import NunavutVerif.Lemmas.Resolve
import NunavutVerif.Model.ResolveDirs
/-!
Helper lemmas for the multi-directory loader model (C16, round 2): Python's string order is a strict total order,
`sorted(set(·))` is determined by the members, listings / `get_source` / `get_templates` over a directory list.  Core Lean only.
-/
namespace NunavutVerif.Resolve

theorem char_eq_of_toNat {x y : Char} (h1 : ¬ x.toNat < y.toNat) (h2 : ¬ y.toNat < x.toNat) : x = y := by
  have : x.toNat = y.toNat := by omega
  exact Char.toNat_inj.mp this

theorem pathLt_irrefl : ∀ a : Path, pathLt a a = false
  | [] => rfl
  | x :: xs => by simp [pathLt, pathLt_irrefl xs]

theorem pathLt_asymm : ∀ a b : Path, pathLt a b = true → pathLt b a = false
  | [], [], h => by simp [pathLt] at h
  | [], _ :: _, _ => rfl
  | _ :: _, [], h => by simp [pathLt] at h
  | x :: xs, y :: ys, h => by
    simp only [pathLt] at h ⊢
    by_cases h1 : x.toNat < y.toNat
    · have : ¬ y.toNat < x.toNat := by omega
      simp [this, h1]
    · by_cases h2 : y.toNat < x.toNat
      · simp [h1, h2] at h
      · simp [h1, h2] at h ⊢
        exact pathLt_asymm xs ys h

theorem pathLt_total : ∀ a b : Path, pathLt a b = false → a ≠ b → pathLt b a = true
  | [], [], _, h => absurd rfl h
  | [], _ :: _, h, _ => by simp [pathLt] at h
  | _ :: _, [], _, _ => rfl
  | x :: xs, y :: ys, h, hne => by
    simp only [pathLt] at h ⊢
    by_cases h1 : x.toNat < y.toNat
    · simp [h1] at h
    · by_cases h2 : y.toNat < x.toNat
      · simp [h2]
      · simp [h1, h2] at h ⊢
        have hxy := char_eq_of_toNat h1 h2
        subst hxy
        exact pathLt_total xs ys h (fun e => hne (by rw [e]))

theorem pathLt_trans : ∀ a b c : Path, pathLt a b = true → pathLt b c = true → pathLt a c = true
  | [], [], _, h, _ => by simp [pathLt] at h
  | [], _ :: _, [], _, h => by simp [pathLt] at h
  | [], _ :: _, _ :: _, _, _ => rfl
  | _ :: _, [], _, h, _ => by simp [pathLt] at h
  | _ :: _, _ :: _, [], _, h => by simp [pathLt] at h
  | x :: xs, y :: ys, z :: zs, h1, h2 => by
    simp only [pathLt] at h1 h2 ⊢
    by_cases a1 : x.toNat < y.toNat
    · by_cases b1 : y.toNat < z.toNat
      · have : x.toNat < z.toNat := by omega
        simp [this]
      · by_cases b2 : z.toNat < y.toNat
        · simp [b1, b2] at h2
        · have : x.toNat < z.toNat := by omega
          simp [this]
    · by_cases a2 : y.toNat < x.toNat
      · simp [a1, a2] at h1
      · simp [a1, a2] at h1
        by_cases b1 : y.toNat < z.toNat
        · have : x.toNat < z.toNat := by omega
          simp [this]
        · by_cases b2 : z.toNat < y.toNat
          · simp [b1, b2] at h2
          · simp [b1, b2] at h2
            have e1 : ¬ x.toNat < z.toNat := by omega
            have e2 : ¬ z.toNat < x.toNat := by omega
            simp [e1, e2]
            exact pathLt_trans xs ys zs h1 h2

/-- Strictly increasing in Python's string order (so: no duplicates). -/
def StrictSorted (l : List Path) : Prop := l.Pairwise fun a b => pathLt a b = true

theorem mem_insertSorted (x p : Path) : ∀ l : List Path, p ∈ insertSorted x l ↔ p = x ∨ p ∈ l
  | [] => by simp [insertSorted]
  | y :: ys => by
    unfold insertSorted
    split
    · simp
    · split
      · next h => subst h; simp
      · simp only [List.mem_cons, mem_insertSorted x p ys]; exact or_left_comm

theorem strictSorted_insertSorted (x : Path) : ∀ l : List Path, StrictSorted l → StrictSorted (insertSorted x l)
  | [], _ => by simp [insertSorted, StrictSorted]
  | y :: ys, h => by
    unfold StrictSorted at h ⊢
    rw [List.pairwise_cons] at h
    unfold insertSorted
    split
    · next hxy =>
      refine List.pairwise_cons.mpr ⟨?_, List.pairwise_cons.mpr h⟩
      intro b hb
      rcases List.mem_cons.mp hb with rfl | hb
      · exact hxy
      · exact pathLt_trans _ _ _ hxy (h.1 b hb)
    · next hxy =>
      split
      · exact List.pairwise_cons.mpr h
      · next hne =>
        refine List.pairwise_cons.mpr ⟨?_, strictSorted_insertSorted x ys h.2⟩
        intro b hb
        rcases (mem_insertSorted x b ys).mp hb with rfl | hb
        · exact pathLt_total _ _ (by simpa using hxy) hne
        · exact h.1 b hb

theorem mem_sortDedup (p : Path) : ∀ l : List Path, p ∈ sortDedup l ↔ p ∈ l
  | [] => by simp [sortDedup]
  | x :: xs => by simp [sortDedup, mem_insertSorted, mem_sortDedup p xs]

theorem strictSorted_sortDedup : ∀ l : List Path, StrictSorted (sortDedup l)
  | [] => by simp [sortDedup, StrictSorted]
  | x :: xs => strictSorted_insertSorted x _ (strictSorted_sortDedup xs)

/-- A strictly increasing list is determined by its members. -/
theorem strictSorted_ext : ∀ a b : List Path, StrictSorted a → StrictSorted b → (∀ p, p ∈ a ↔ p ∈ b) → a = b
  | [], [], _, _, _ => rfl
  | [], y :: ys, _, _, h => by have := (h y).mpr (by simp); simp at this
  | x :: xs, [], _, _, h => by have := (h x).mp (by simp); simp at this
  | x :: xs, y :: ys, ha, hb, h => by
    unfold StrictSorted at ha hb
    rw [List.pairwise_cons] at ha hb
    have hxy : x = y := by
      rcases List.mem_cons.mp ((h x).mp (by simp)) with e | hx
      · exact e
      · rcases List.mem_cons.mp ((h y).mpr (by simp)) with e | hy
        · exact e.symm
        · have h1 := hb.1 x hx
          have h2 := ha.1 y hy
          rw [pathLt_asymm _ _ h1] at h2
          cases h2
    subst hxy
    congr 1
    refine strictSorted_ext xs ys ha.2 hb.2 fun p => ?_
    constructor
    · intro hp
      rcases List.mem_cons.mp ((h p).mp (List.mem_cons_of_mem _ hp)) with e | hp'
      · subst e; have := ha.1 p hp; rw [pathLt_irrefl] at this; cases this
      · exact hp'
    · intro hp
      rcases List.mem_cons.mp ((h p).mpr (List.mem_cons_of_mem _ hp)) with e | hp'
      · subst e; have := hb.1 p hp; rw [pathLt_irrefl] at this; cases this
      · exact hp'

theorem sortDedup_congr (a b : List Path) (h : ∀ p, p ∈ a ↔ p ∈ b) : sortDedup a = sortDedup b :=
  strictSorted_ext _ _ (strictSorted_sortDedup a) (strictSorted_sortDedup b)
    fun p => by rw [mem_sortDedup, mem_sortDedup, h]

theorem sfind_isSome_iff (t : Path) : ∀ d : Store, (sfind d t).isSome ↔ t ∈ names d
  | [] => by simp [sfind, names]
  | (p, v) :: rest => by
    have ih := sfind_isSome_iff t rest
    unfold names at ih ⊢
    by_cases h : p = t
    · simp [sfind, h]
    · have h' : ¬ t = p := fun e => h e.symm
      simp [sfind, h, h', ih]

theorem sfind_none_iff (t : Path) (d : Store) : sfind d t = none ↔ t ∉ names d := by
  rw [← sfind_isSome_iff]; cases sfind d t <;> simp

theorem fsSource_isSome_iff (t : Path) : ∀ dirs : List Store, (fsSource dirs t).isSome ↔ ∃ d ∈ dirs, t ∈ names d
  | [] => by simp [fsSource]
  | d :: ds => by
    unfold fsSource
    cases h : sfind d t with
    | some v =>
      have : t ∈ names d := (sfind_isSome_iff t d).mp (by simp [h])
      simp only [Option.isSome_some, true_iff]
      exact ⟨d, by simp, this⟩
    | none =>
      have hn : t ∉ names d := (sfind_none_iff t d).mp h
      simp only [fsSource_isSome_iff t ds, List.mem_cons, exists_eq_or_imp, hn, false_or]

theorem mem_fsList (p : Path) (dirs : List Store) : p ∈ fsList dirs ↔ ∃ d ∈ dirs, p ∈ names d := by
  unfold fsList
  rw [mem_sortDedup, List.mem_flatMap]

/-- A single directory that holds, under every name, what the first directory of the list that has the name holds. -/
def UnionOf (u : Store) (dirs : List Store) : Prop := ∀ t, sfind u t = fsSource dirs t

theorem fsList_union {u : Store} {dirs : List Store} (h : UnionOf u dirs) : fsList [u] = fsList dirs := by
  unfold fsList
  apply sortDedup_congr
  intro p
  rw [List.mem_flatMap, List.mem_flatMap]
  have := fsSource_isSome_iff p dirs
  rw [← h p, sfind_isSome_iff] at this
  simp only [List.mem_singleton, exists_eq_left]
  exact this

/-- Concatenation is such a directory (`sfind` takes the first entry of a name). -/
theorem unionOf_flatten : ∀ dirs : List Store, UnionOf dirs.flatten dirs
  | [] => fun t => by simp [sfind, fsSource]
  | d :: ds => fun t => by
    have ih := unionOf_flatten ds t
    have happ : ∀ a b : Store, sfind (a ++ b) t = match sfind a t with | some v => some v | none => sfind b t := by
      intro a b
      induction a with
      | nil => simp [sfind]
      | cons e a iha =>
        obtain ⟨k, v⟩ := e
        by_cases hk : k = t <;> simp [sfind, hk, iha]
    simp only [List.flatten_cons, happ, fsSource, ih]
    cases sfind d t <;> rfl

theorem firstDir_fsSource (t : Path) : ∀ dirs : List Store, (firstDir dirs t).map (·.2) = fsSource dirs t
  | [] => rfl
  | d :: ds => by
    unfold firstDir fsSource
    cases sfind d t with
    | some v => rfl
    | none => simp [← firstDir_fsSource t ds, Option.map_map, Function.comp_def]

/-- `firstDir` names the first directory that has the file: it has it, no earlier one does. -/
theorem firstDir_spec (t : Path) : ∀ (dirs : List Store) (i v : Nat), firstDir dirs t = some (i, v) →
    (∃ d, dirs[i]? = some d ∧ sfind d t = some v) ∧ ∀ j, j < i → ∀ d, dirs[j]? = some d → sfind d t = none
  | [], _, _, h => by simp [firstDir] at h
  | d :: ds, i, v, h => by
    unfold firstDir at h
    cases hd : sfind d t with
    | some w =>
      rw [hd] at h
      simp only [Option.some.injEq, Prod.mk.injEq] at h
      obtain ⟨rfl, rfl⟩ := h
      exact ⟨⟨d, by simp, hd⟩, fun j hj => by omega⟩
    | none =>
      rw [hd] at h
      cases hr : firstDir ds t with
      | none => rw [hr] at h; simp at h
      | some r =>
        rw [hr] at h
        simp only [Option.map_some, Option.some.injEq, Prod.mk.injEq] at h
        obtain ⟨rfl, rfl⟩ := h
        obtain ⟨⟨d', h1, h2⟩, h3⟩ := firstDir_spec t ds r.1 r.2 hr
        refine ⟨⟨d', by simpa using h1, h2⟩, ?_⟩
        intro j hj d'' hj'
        cases j with
        | zero => simp at hj'; subst hj'; exact hd
        | succ j => exact h3 j (by omega) d'' (by simpa using hj')

theorem mem_templatesOf (sfx : Name) (files : List Path) (n : Name) (p : Path) :
    (n, p) ∈ templatesOf sfx files ↔ p ∈ files ∧ splitExt (baseName p) = (n, sfx) := by
  unfold templatesOf
  rw [List.mem_filterMap]
  constructor
  · rintro ⟨f, hf, h⟩
    by_cases hs : (splitExt (baseName f)).2 = sfx
    · simp only [hs, if_true, Option.some.injEq, Prod.mk.injEq] at h
      obtain ⟨h1, rfl⟩ := h
      exact ⟨hf, by rw [← h1, ← hs]⟩
    · simp [hs] at h
  · rintro ⟨hf, h⟩
    exact ⟨p, hf, by simp [h]⟩

/-- The suffix filter selects a sub-set of what the glob selects. -/
theorem suffixMatch_globMatch (sfx : Name) (p : Path) (h : suffixMatch sfx p = true) : globMatch sfx p = true := by
  unfold suffixMatch at h
  unfold globMatch
  have hs : (splitExt (baseName p)).2 <:+ baseName p := by
    unfold splitExt
    split
    · split
      · exact List.drop_suffix _ _
      · exact List.nil_suffix
    · exact List.nil_suffix
  rw [of_decide_eq_true h] at hs
  exact List.isSuffixOf_iff_suffix.mpr hs

/-- For a suffix of the form `.x` (no further dot, `x` non-empty) the glob selects exactly what the suffix filter
selects plus the file whose whole name is the suffix (a hidden file without a stem, e.g. `.j2`). -/
theorem globMatch_iff (x : List Char) (hx : x ≠ []) (hdot : '.' ∉ x) (p : Path) :
    globMatch ('.' :: x) p = true ↔ suffixMatch ('.' :: x) p = true ∨ baseName p = '.' :: x := by
  constructor
  · intro h
    unfold globMatch at h
    obtain ⟨s, hs⟩ := List.isSuffixOf_iff_suffix.mp h
    by_cases hnil : s = []
    · right; rw [← hs, hnil]; rfl
    · left
      unfold suffixMatch
      rw [← hs, splitExt_last_suffix s x hnil hx hdot]
      simp
  · rintro (h | h)
    · exact suffixMatch_globMatch _ _ h
    · unfold globMatch; rw [h]; exact List.isSuffixOf_iff_suffix.mpr (List.suffix_refl _)

theorem mem_enumDir (sfx : Name) (i : Nat) (d : Store) (o : Origin) (j : Nat) (p : Path) :
    (o, j, p) ∈ enumDir sfx i d ↔ o = .user ∧ j = i ∧ p ∈ names d ∧ globMatch sfx p = true := by
  unfold enumDir
  simp only [List.mem_map, List.mem_filter, Prod.mk.injEq]
  constructor
  · rintro ⟨q, ⟨h1, h2⟩, h3, h4, h5⟩
    subst h5; exact ⟨h3.symm, h4.symm, h1, h2⟩
  · rintro ⟨h1, h2, h3, h4⟩
    exact ⟨p, ⟨h3, h4⟩, h1.symm, h2.symm, rfl⟩

/-- What `get_templates` enumerates under the user directories: for EVERY directory of the list (index `j`), every file
of it that matches the glob. -/
theorem mem_enumDirs (sfx : Name) (o : Origin) (j : Nat) (p : Path) : ∀ (dirs : List Store) (k : Nat),
    (o, j, p) ∈ enumDirs sfx k dirs ↔
      o = .user ∧ k ≤ j ∧ ∃ d, dirs[j - k]? = some d ∧ p ∈ names d ∧ globMatch sfx p = true
  | [], k => by simp [enumDirs]
  | d :: ds, k => by
    unfold enumDirs
    rw [List.mem_append, mem_enumDir, mem_enumDirs sfx o j p ds (k + 1)]
    constructor
    · rintro (⟨h1, h2, h3, h4⟩ | ⟨h1, h2, d', h3, h4⟩)
      · subst h2; exact ⟨h1, Nat.le_refl _, d, by simp, h3, h4⟩
      · refine ⟨h1, by omega, d', ?_, h4⟩
        have : j - k = (j - (k + 1)) + 1 := by omega
        rw [this]; simpa using h3
    · rintro ⟨h1, h2, d', h3, h4⟩
      by_cases hjk : j = k
      · left; subst hjk; simp at h3; subst h3; exact ⟨h1, rfl, h4⟩
      · right
        refine ⟨h1, by omega, d', ?_, h4⟩
        have : j - k = (j - (k + 1)) + 1 := by omega
        rw [this] at h3; simpa using h3

theorem tfind_mem : ∀ {t : Templates} {n : Name} {p : Path}, tfind t n = some p → (n, p) ∈ t
  | [], _, _, h => by simp [tfind] at h
  | (s, q) :: rest, n, p, h => by
    unfold tfind at h
    cases hr : tfind rest n with
    | some q' =>
      rw [hr] at h
      simp only [Option.some.injEq] at h
      subst h
      exact List.mem_cons_of_mem _ (tfind_mem hr)
    | none =>
      rw [hr] at h
      by_cases hs : s = n
      · simp only [hs, if_true, Option.some.injEq] at h
        subst h; subst hs; exact List.mem_cons_self
      · simp [hs] at h

theorem mem_candidates (sfx : Name) (dirs : Option (List Store)) (pkg : Option Store) (p : Path) :
    p ∈ candidates sfx dirs pkg ↔
      ∃ n, mfind (dirs.map (dirsTemplates sfx)) (pkg.map (pkgTemplates sfx)) n = some p := by
  unfold candidates
  simp only [List.mem_map, List.mem_filter, decide_eq_true_eq]
  constructor
  · rintro ⟨e, ⟨_, h2⟩, rfl⟩
    exact ⟨e.1, by rw [← tfind_merged_fun]; exact h2⟩
  · rintro ⟨n, h⟩
    rw [← tfind_merged_fun] at h
    exact ⟨(n, p), ⟨tfind_mem h, h⟩, rfl⟩

theorem nearest_some {H : Hier} {find : Name → Option Path} : ∀ {cs : List Cls} {p : Path},
    nearest H find cs = some p → ∃ c ∈ cs, find (H.name c) = some p
  | [], _, h => by simp [nearest] at h
  | c :: cs, p, h => by
    unfold nearest at h
    cases hf : find (H.name c) with
    | some q => rw [hf] at h; cases h; exact ⟨c, by simp, hf⟩
    | none =>
      rw [hf] at h
      obtain ⟨c', h1, h2⟩ := nearest_some h
      exact ⟨c', List.mem_cons_of_mem _ h1, h2⟩

end NunavutVerif.Resolve
