import NunavutVerif.Lemmas.GenPyDeAll
/-!
The top-level functions `nunavut_support.serialize` / `deserialize` against `serBytes` / `deBytes`.
-/
namespace NunavutVerif.GenPy
open NunavutVerif.Dsdl
open NunavutVerif.Bits (Buf Err bitAt WF)
open NunavutVerif.Bits.Py

/-- a top-level type: a structure or union, sealed or delimited (what a generated class is) -/
def topLevel (t : Ty) : Bool := isComposite (topInner t)

theorem pyWf_topInner {t : Ty} (h : pyWf t = true) : pyWf (topInner t) = true := by
  cases t <;> simp_all [topInner, pyWf]

theorem inDom_topInner {b : Bool} {t : Ty} {v : Val} (h : inDom b t v = true) : inDom b (topInner t) v = true := by
  cases t <;> simp_all [topInner, inDom]

theorem extent_mod8 {t : Ty} (hw : wf t = true) (hc : topLevel t = true) : extent t % 8 = 0 := by
  cases t with
  | struct fs => exact maxBits_struct_mod8 fs
  | union fs => exact maxBits_union_mod8 fs
  | delim e inner => simp only [wf, Bool.and_eq_true, decide_eq_true_eq] at hw; exact hw.1.2.1
  | _ => simp [topLevel, topInner, isComposite] at hc

theorem new_inv (n : Nat) : (⟨List.replicate (n + 1) 0, 0⟩ : Ser).Inv :=
  ⟨Bits.WF_replicate _, fun i _ => Bits.bitAt_replicate_zero _ i⟩

/-- `Serializer.buffer` after appending `bits` to a fresh serializer is `packBytes bits` -/
theorem buffer_eq_packBytes {n : Nat} {s : Ser} {bits : List Bool}
    (h : AppL ⟨List.replicate (n + 1) 0, 0⟩ s bits) (hroom : bits.length ≤ 8 * n) :
    s.buf.take ((s.off + 7) / 8) = packBytes bits := by
  have hoff : s.off = bits.length := by simpa using h.off
  have hlen : s.buf.length = n + 1 := by simpa using h.len
  have hbits : ∀ i, bitAt s.buf i = (decide (i < bits.length) && bitOf bits i) := by
    intro i
    have := h.2.2.2 i
    simpa [Bits.bitAt_replicate_zero] using this
  apply Bits.eq_of_bitAt
  · rw [List.length_take, packBytes_length, hoff, hlen]; omega
  · exact WF_take h.inv.1 _
  · exact WF_packBytes bits
  · intro i
    rw [bitAt_take, bitAt_packBytes, hbits, hoff]
    by_cases h1 : i / 8 < (bits.length + 7) / 8
    · rw [if_pos h1]
      by_cases h2 : i < bits.length
      · simp [h2]
      · simp [h2, bitOf_of_ge bits i (by omega)]
    · rw [if_neg h1, bitOf_of_ge bits i (by omega)]

/-- **`serialize` refines `serBytes`** -/
theorem serializePy_spec (env : Env) (hs : EnvSound env) (t : Ty) (v : Val) (hw : wf t = true) (hpw : pyWf t = true)
    (hc : topLevel t = true) (hdom : inDom false t v = true) :
    serializePy env t v = match serBytes t v with
      | .ok bytes => .ok bytes
      | .error e => .error (excOf e) := by
  have hobj := (serRef_all env hs (topInner t) (wf_topInner hw) (pyWf_topInner hpw)).2 hc
  have hext := extent_mod8 hw hc
  have hmx := maxBits_topInner_le_extent hw
  have h := hobj ⟨List.replicate (extent t / 8 + 1) 0, 0⟩ v false (new_inv _) (by simp) (by
    unfold Room; simp only [List.length_replicate]; omega) (inDom_topInner hdom)
  simp only [serializePy, serBytes, serTop]
  cases hsb : serBits (topInner t) v with
  | error e =>
    rw [hsb] at h
    simp only [Match] at h
    simp only [h, Except.map]
  | ok bits =>
    rw [hsb] at h
    obtain ⟨s, hr, happ⟩ := h
    simp only [List.nil_append] at happ
    have hl := lenOK (topInner t) (wf_topInner hw) v bits hsb
    simp only [hr, Except.map]
    rw [buffer_eq_packBytes happ (by omega)]

/-- the class method `_deserialize_` on a fresh deserializer, with the raise site of the `FormatError` -/
theorem deObj_top_spec (env : Env) (hs : EnvSound env) (t : Ty) (bytes : Buf) (hw : wf t = true)
    (hpw : pyWf t = true) (hc : topLevel t = true) (hwf : WF bytes) :
    deObj env (topInner t) ⟨bytes, 0⟩ = match deBits (topInner t) (unpackBytes bytes) with
      | .ok (v, n) => .ok (v, ⟨bytes, n⟩)
      | .error e => .error (.format e) := by
  have hobj := (deRef_all env hs (topInner t) (wf_topInner hw) (pyWf_topInner hpw)).2 hc
  have h := hobj ⟨bytes, 0⟩ hwf (by simp)
  simp only [List.drop_zero] at h
  cases hd : deBits (topInner t) (unpackBytes bytes) with
  | error e => rw [hd] at h; simp only [DeMatch] at h; simp only [h]
  | ok r => obtain ⟨v, n⟩ := r; rw [hd] at h; simp only [DeMatch, Nat.zero_add] at h; simp only [h]

/-- **`deserialize` refines `deBytes`**: same value, same consumed size; an error of the specification is `None` -/
theorem deserializePy_spec (env : Env) (hs : EnvSound env) (t : Ty) (bytes : Buf) (hw : wf t = true)
    (hpw : pyWf t = true) (hc : topLevel t = true) (hwf : WF bytes) :
    deserializePy env t bytes = match deBytes t bytes with
      | .ok r => .ok (some r)
      | .error _ => .ok none := by
  have h := deObj_top_spec env hs t bytes hw hpw hc hwf
  simp only [deserializePy, deBytes, deTop, h]
  cases hd : deBits (topInner t) (unpackBytes bytes) with
  | error e => simp only []
  | ok r =>
    obtain ⟨v, n⟩ := r
    simp only [unpackBytes_length, Nat.mul_comm bytes.length 8]

end NunavutVerif.GenPy
