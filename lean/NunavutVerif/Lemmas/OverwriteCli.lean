import NunavutVerif.Model.OverwriteCli
import NunavutVerif.Lemmas.Overwrite
import NunavutVerif.Lemmas.CliParse
/-! Helper lemmas for the command-line glue of C12 (`Model/OverwriteCli.lean`).  No Mathlib. -/
namespace NunavutVerif.OverwriteCli
open NunavutVerif.Overwrite NunavutVerif.CliParse NunavutVerif.Gen.CliArgs

/-- Calls that share the overwrite gate and the file post-processors are one `Run` over the concatenated files. -/
theorem runParts_uniform (env : Env) (a : Bool) (q : List FilePP) : ∀ (ps : List Part) (fs : FS),
    (∀ p ∈ ps, p.allow = a ∧ p.pps = q) →
    runParts env ps fs = runRun env ⟨a, q, ps.flatMap (·.writes)⟩ fs := by
  intro ps
  induction ps with
  | nil => intro fs _; simp [runParts, runRun, runWrites]
  | cons p ps ih =>
    intro fs h
    obtain ⟨ha, hq⟩ := h p (List.mem_cons_self ..)
    have ih' := ih (runWrites env a q p.writes fs).fs (fun p' hp' => h p' (List.mem_cons_of_mem _ hp'))
    simp only [runParts, runRun, List.flatMap_cons, ha, hq] at ih' ⊢
    rw [runWrites_append]
    cases ho : runWrites env a q p.writes fs with
    | mk f o e =>
      rw [ho] at ih'
      cases e with
      | some e => rfl
      | none => simp only; rw [ih']

/-! ### the post-processor list -/

def ctorIsSetMode : PPCtor → Bool
  | .setFileMode _ => true
  | _ => false

def ppIsSetMode : PP → Bool
  | .setFileMode _ => true
  | _ => false

theorem buildPPs_append (ns : Namespace) : ∀ (xs ys : List PPRule),
    buildPPs ns (xs ++ ys) =
      match buildPPs ns xs, buildPPs ns ys with
      | some a, some b => some (a ++ b)
      | _, _ => none := by
  intro xs
  induction xs with
  | nil => intro ys; cases h : buildPPs ns ys <;> simp [buildPPs, h]
  | cons r rest ih =>
    intro ys
    simp only [List.cons_append, buildPPs, ih ys]
    cases hc : evalCond ns r.cond with
    | none => simp
    | some c =>
      cases hx : buildPPs ns rest with
      | none => simp
      | some a =>
        cases hy : buildPPs ns ys with
        | none => cases c <;> simp <;> cases evalCtor ns r.ctor <;> simp
        | some b =>
          cases c
          · simp
          · cases evalCtor ns r.ctor <;> simp

theorem evalCtor_setMode {ns : Namespace} {c : PPCtor} {p : PP} (h : evalCtor ns c = some p) :
    ppIsSetMode p = ctorIsSetMode c := by
  cases c with
  | trim => simp [evalCtor] at h; subst h; rfl
  | limitEmptyLines d =>
    simp only [evalCtor, Option.map_eq_some_iff] at h; obtain ⟨_, _, rfl⟩ := h; rfl
  | setFileMode d =>
    simp only [evalCtor, Option.map_eq_some_iff] at h; obtain ⟨_, _, rfl⟩ := h; rfl
  | extProgram d ad =>
    simp only [evalCtor] at h
    split at h
    · simp only [Option.some.injEq] at h; subst h; rfl
    · simp only [Option.some.injEq] at h; subst h; rfl
    · cases h

theorem buildPPs_no_setMode (ns : Namespace) : ∀ (rs : List PPRule) (pps : List PP),
    (∀ r ∈ rs, ctorIsSetMode r.ctor = false) → buildPPs ns rs = some pps → ∀ p ∈ pps, ppIsSetMode p = false := by
  intro rs
  induction rs with
  | nil => intro pps _ h; simp [buildPPs] at h; subst h; intro p hp; cases hp
  | cons r rest ih =>
    intro pps hr h
    simp only [buildPPs, Option.bind_eq_bind, Option.pure_def, Option.bind_eq_some_iff] at h
    obtain ⟨c, _, tail, htail, h⟩ := h
    have iht := ih tail (fun r' hr' => hr r' (List.mem_cons_of_mem _ hr')) htail
    cases c with
    | false => simp only [Bool.false_eq_true, if_false, Option.some.injEq] at h; subst h; exact iht
    | true =>
      simp only [if_true, Option.bind_eq_some_iff, Option.some.injEq] at h
      obtain ⟨p, hp, rfl⟩ := h
      intro p' hp'
      rcases List.mem_cons.1 hp' with rfl | hp'
      · rw [evalCtor_setMode hp]; exact hr r (List.mem_cons_self ..)
      · exact iht p' hp'

theorem toFilePPs_no_setMode (prog : List Scalar → Content → Option (Content × Option Nat)) :
    ∀ (pps : List PP), (∀ p ∈ pps, ppIsSetMode p = false) → ∀ f ∈ toFilePPs prog pps, ∃ g, f = .edit g := by
  intro pps h f hf
  simp only [toFilePPs, List.mem_filterMap] at hf
  obtain ⟨p, hp, hpf⟩ := hf
  cases p with
  | trim => simp [toFilePP] at hpf
  | limitEmptyLines n => simp [toFilePP] at hpf
  | extProgram argv => simp only [toFilePP, Option.some.injEq] at hpf; exact ⟨_, hpf.symm⟩
  | setFileMode v => have := h _ hp; simp [ppIsSetMode] at this

/-- The list `_build_post_processor_list_from_args` builds ends with `SetFileMode(self._args.file_mode)`, and nothing
before it is a `SetFileMode`. -/
theorem buildPPs_shape {ns : Namespace} {pps : List PP} (h : buildPPs ns ppRules = some pps) :
    ∃ pre v, pps = pre ++ [.setFileMode v] ∧ ns.lookup "file_mode" = some v ∧ ∀ p ∈ pre, ppIsSetMode p = false := by
  have hsplit : ppRules = ppRules.dropLast ++ [⟨.always, .setFileMode "file_mode"⟩] := by decide
  rw [hsplit, buildPPs_append] at h
  split at h
  · rename_i a b ha hb
    simp only [Option.some.injEq] at h
    subst h
    simp only [buildPPs, evalCond, evalCtor, Option.bind_eq_bind, Option.pure_def, Option.bind_some, if_true] at hb
    cases hv : ns.lookup "file_mode" with
    | none => simp [hv] at hb
    | some v =>
      simp only [hv, Option.map_some, Option.bind_some, Option.some.injEq] at hb
      subst hb
      exact ⟨a, v, rfl, rfl, buildPPs_no_setMode ns _ a (by decide) ha⟩
  · cases h

theorem toFilePPs_append (prog : List Scalar → Content → Option (Content × Option Nat)) (xs ys : List PP) :
    toFilePPs prog (xs ++ ys) = toFilePPs prog xs ++ toFilePPs prog ys := by
  simp [toFilePPs, List.filterMap_append]

theorem requestedMode_append_setMode (pre : List FilePP) (m : Nat) : requestedMode (pre ++ [.setMode m]) = some m := by
  simp [requestedMode]

theorem hasSetMode_append_setMode (pre : List FilePP) (m : Nat) : hasSetMode (pre ++ [.setMode m]) = true := by
  induction pre with
  | nil => rfl
  | cons p r ih => cases p <;> simp [hasSetMode, ih]

/-! ### the calls of `_generate` -/

def generateKwSpec : List (String × Expr) :=
  [("is_dryrun", .arg "dry_run"), ("allow_overwrite", .notArg "no_overwrite"),
   ("omit_serialization_support", .arg "omit_serialization_support"), ("embed_auditing_info", .arg "embed_auditing_info")]

theorem generate_specs : calls.filter (fun c => c.method = "_generate") =
    [⟨"_generate", "_support_generator", "generate_all", [.shouldGenerateSupport], generateKwSpec, false⟩,
     ⟨"_generate", "_generator", "generate_all", [.notOnly], generateKwSpec, false⟩] := by decide

theorem generate_calls {argv : List String} {ns : Namespace} (hp : parseArgv argv = .ok ns) {steps : List Step}
    (hs : stepsOf actions argv = some steps) (a : Cli.Args) {cs : List Call}
    (hc : callsOf calls "_generate" a ns = some cs) :
    cs = (if Cli.shouldGenerateSupport a then
            [⟨"_support_generator", "generate_all", generateKw (steps.any (Step.takes "dry_run"))
              (steps.any (Step.takes "no_overwrite")) (steps.any (Step.takes "omit_serialization_support"))
              (steps.any (Step.takes "embed_auditing_info"))⟩] else []) ++
         (if a.genSupport != .only then
            [⟨"_generator", "generate_all", generateKw (steps.any (Step.takes "dry_run"))
              (steps.any (Step.takes "no_overwrite")) (steps.any (Step.takes "omit_serialization_support"))
              (steps.any (Step.takes "embed_auditing_info"))⟩] else []) := by
  have h1 := parsed_flag hp hs (d := "dry_run") (by decide)
  have h2 := parsed_flag hp hs (d := "no_overwrite") (by decide)
  have h3 := parsed_flag hp hs (d := "omit_serialization_support") (by decide)
  have h4 := parsed_flag hp hs (d := "embed_auditing_info") (by decide)
  have hk : evalKwargs ns generateKwSpec = some (generateKw (steps.any (Step.takes "dry_run"))
      (steps.any (Step.takes "no_overwrite")) (steps.any (Step.takes "omit_serialization_support"))
      (steps.any (Step.takes "embed_auditing_info"))) := by
    simp [generateKwSpec, generateKw, evalKwargs, evalExpr, h1, h2, h3, h4, truthy]
  unfold callsOf at hc
  rw [generate_specs] at hc
  simp only [callsOfSpecs, List.all_cons, List.all_nil, Bool.and_true, guardHolds, hk] at hc
  by_cases hg1 : Cli.shouldGenerateSupport a = true <;> by_cases hg2 : (a.genSupport != .only) = true <;>
    simp [hg1, hg2] at hc ⊢ <;> first | exact hc.symm | exact hc

end NunavutVerif.OverwriteCli
