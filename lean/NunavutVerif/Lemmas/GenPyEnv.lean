import NunavutVerif.Lemmas.GenPyTop
/-!
The concrete environment `stdEnv` of the driver satisfies the hypotheses of the refinement theorems:
* `lenRes` (the residue analysis standing for PyDSDL's `BitLengthSet`) is a sound alignment oracle;
* the little-endian NumPy oracles satisfy `NpSound`.
(`FloatSound stdEnv` is in `Lemmas/GenPyFloat.lean`.)
-/
namespace NunavutVerif.GenPy
open NunavutVerif.Dsdl
open NunavutVerif.Bits (Buf Err bitAt WF)
open NunavutVerif.Bits.Py

/-! ### `lenRes` is sound -/

theorem serAll_mod {t : Ty} {r : Nat} (h : ∀ v bs, serBits t v = .ok bs → bs.length % 8 = r % 8) :
    ∀ vs bs, serAllWith (serBits t) vs = .ok bs → bs.length % 8 = (vs.length * r) % 8 := by
  intro vs
  induction vs with
  | nil => intro bs hs; simp [serAllWith] at hs; subst hs; simp
  | cons v vs ih =>
    intro bs hs
    simp only [serAllWith] at hs
    split at hs
    · cases hs
    · rename_i a ha
      split at hs
      · cases hs
      · rename_i b hb
        cases hs
        have h1 := h v a ha
        have h2 := ih b hb
        simp only [List.length_append, List.length_cons, Nat.succ_mul]
        omega

theorem deAll_mod8 {t : Ty} {r : Nat} (h : ∀ bs v n, deBits t bs = .ok (v, n) → n % 8 = r % 8) :
    ∀ c bs vs n, deAllWith (deBits t) c bs = .ok (vs, n) → n % 8 = (c * r) % 8 := by
  intro c
  induction c with
  | zero => intro bs vs n hd; simp [deAllWith] at hd; simp [← hd.2]
  | succ c ih =>
    intro bs vs n hd
    simp only [deAllWith] at hd
    split at hd
    · cases hd
    · rename_i v n1 h1
      split at hd
      · cases hd
      · rename_i vs' m h2
        cases hd
        have a := h _ _ _ h1
        have b := ih _ _ _ h2
        rw [Nat.succ_mul]
        omega

theorem lenRes_sound : LrSound lenRes := by
  intro t
  refine Ty.ind (P := fun t => ∀ r, wf t = true → lenRes t = some r →
    (∀ v bs, serBits t v = .ok bs → bs.length % 8 = r % 8) ∧
    (∀ bs v n, deBits t bs = .ok (v, n) → n % 8 = r % 8)) ?_ ?_ ?_ ?_ ?_ ?_ ?_ ?_ ?_ ?_ t
  · intro n m r _ hr
    simp only [lenRes, Option.some.injEq] at hr; subst hr
    refine ⟨fun v bs h => ?_, fun bs v k h => ?_⟩
    · cases v <;> simp [serBits] at h; subst h; simp
    · simp [deBits] at h; simp [← h.2]
  · intro n m r _ hr
    simp only [lenRes, Option.some.injEq] at hr; subst hr
    refine ⟨fun v bs h => ?_, fun bs v k h => ?_⟩
    · cases v <;> simp [serBits] at h; subst h; simp
    · simp [deBits] at h; simp [← h.2]
  · intro n m r _ hr
    simp only [lenRes, Option.some.injEq] at hr; subst hr
    refine ⟨fun v bs h => ?_, fun bs v k h => ?_⟩
    · cases v <;> simp [serBits] at h; subst h; simp
    · simp [deBits] at h; simp [← h.2]
  · intro r _ hr
    simp only [lenRes, Option.some.injEq] at hr; subst hr
    refine ⟨fun v bs h => ?_, fun bs v k h => ?_⟩
    · cases v <;> simp [serBits] at h; subst h; simp
    · simp [deBits] at h; simp [← h.2]
  · intro n r _ hr
    simp only [lenRes, Option.some.injEq] at hr; subst hr
    refine ⟨fun v bs h => ?_, fun bs v k h => ?_⟩
    · cases v <;> simp [serBits] at h; subst h; simp
    · simp [deBits] at h; simp [← h.2]
  · -- fixed array
    intro t n ih r hw hr
    simp only [wf] at hw
    simp only [lenRes] at hr
    split at hr
    · rename_i hn0
      cases hr; subst hn0
      refine ⟨fun v bs h => ?_, fun bs v k h => ?_⟩
      · cases v with
        | arr vs =>
          simp only [serBits] at h
          split at h
          · rename_i hl
            have : vs = [] := List.length_eq_zero_iff.1 hl
            subst this; simp [serAllWith] at h; subst h; simp
          · cases h
        | _ => simp [serBits] at h
      · simp [deBits, deAllWith] at h; simp [← h.2]
    · split at hr
      · rename_i x hx
        cases hr
        obtain ⟨ih1, ih2⟩ := ih x hw hx
        refine ⟨fun v bs h => ?_, fun bs v k h => ?_⟩
        · cases v with
          | arr vs =>
            simp only [serBits] at h
            split at h
            · rename_i hl
              have := serAll_mod ih1 vs bs h
              rw [hl] at this
              omega
            · cases h
          | _ => simp [serBits] at h
        · simp only [deBits] at h
          split at h
          · cases h
          · rename_i vs used hd
            cases h
            have := deAll_mod8 ih2 _ _ _ _ hd
            omega
      · cases hr
  · -- variable array
    intro t cap ih r hw hr
    simp only [wf, Bool.and_eq_true] at hw
    have hp8 := stdWidth_mod8 cap
    simp only [lenRes] at hr
    split at hr
    · rename_i hc0
      cases hr; subst hc0
      refine ⟨fun v bs h => ?_, fun bs v k h => ?_⟩
      · cases v with
        | arr vs =>
          simp only [serBits] at h
          split at h
          · cases h
          · rename_i hl
            have : vs = [] := List.length_eq_zero_iff.1 (by omega)
            subst this
            simp [serAllWith, Except.map] at h; subst h
            simp [prefixBits]; omega
        | _ => simp [serBits] at h
      · simp only [deBits] at h
        split at h
        · cases h
        · rename_i hk
          have hk0 : readNat (prefixBits 0) bs = 0 := by omega
          rw [hk0] at h
          simp [deAllWith] at h
          simp [← h.2, prefixBits]; omega
    · split at hr
      · rename_i x hx
        split at hr
        · rename_i hx8
          cases hr
          obtain ⟨ih1, ih2⟩ := ih x hw.2 hx
          refine ⟨fun v bs h => ?_, fun bs v k h => ?_⟩
          · cases v with
            | arr vs =>
              simp only [serBits] at h
              split at h
              · cases h
              · rw [map_eq_ok] at h
                obtain ⟨b, hb, rfl⟩ := h
                have := serAll_mod ih1 vs b hb
                have e : (vs.length * x) % 8 = 0 := by
                  rw [Nat.mul_mod, hx8]; simp
                simp only [List.length_append, natToBits_length, prefixBits]
                omega
            | _ => simp [serBits] at h
          · simp only [deBits] at h
            split at h
            · cases h
            · split at h
              · cases h
              · rename_i vs used hd
                cases h
                have := deAll_mod8 ih2 _ _ _ _ hd
                have e : (readNat (prefixBits cap) bs * x) % 8 = 0 := by
                  rw [Nat.mul_mod, hx8]; simp
                simp only [prefixBits] at *
                omega
        · cases hr
      · cases hr
  · -- struct
    intro fs _ r hw hr
    simp only [lenRes, Option.some.injEq] at hr; subst hr
    refine ⟨fun v bs h => ?_, fun bs v k h => ?_⟩
    · have := (lenOK (.struct fs) hw v bs h).2.2; simpa [align] using this
    · have := (deLenOK (.struct fs) hw bs v k h).2; simpa [align] using this
  · -- union
    intro fs _ r hw hr
    simp only [lenRes, Option.some.injEq] at hr; subst hr
    refine ⟨fun v bs h => ?_, fun bs v k h => ?_⟩
    · have := (lenOK (.union fs) hw v bs h).2.2; simpa [align] using this
    · have := (deLenOK (.union fs) hw bs v k h).2; simpa [align] using this
  · -- delimited
    intro e inner _ r hw hr
    simp only [lenRes, Option.some.injEq] at hr; subst hr
    refine ⟨fun v bs h => ?_, fun bs v k h => ?_⟩
    · have := (lenOK (.delim e inner) hw v bs h).2.2; simpa [align] using this
    · have := (deLenOK (.delim e inner) hw bs v k h).2; simpa [align] using this

/-! ### the NumPy oracles -/

theorem serAll_eq_flatten {t : Ty} : ∀ (vs : List Val) (bss : List (List Bool)),
    vs.mapM (elemBits t) = some bss → serAllWith (serBits t) vs = .ok bss.flatten := by
  intro vs
  induction vs with
  | nil => intro bss h; simp at h; subst h; rfl
  | cons v vs ih =>
    intro bss h
    rw [List.mapM_cons] at h
    cases hv : serBits t v with
    | error e =>
      have : elemBits t v = none := by simp [elemBits, hv]
      rw [this] at h; simp at h
    | ok a =>
      have he : elemBits t v = some a := by simp [elemBits, hv]
      rw [he] at h
      cases hm : vs.mapM (elemBits t) with
      | none => rw [hm] at h; simp at h
      | some r =>
        rw [hm] at h
        simp at h; subst h
        simp only [serAllWith, ih r hm, hv, List.flatten_cons]

theorem stdPrim_ser {t : Ty} (hstd : isStdPrim t = true) {v : Val} (hd : inDom true t v = true) :
    ∃ bs, serBits t v = .ok bs ∧ bs.length = primBits t := by
  cases t with
  | uint n m => cases v <;> simp [inDom] at hd; exact ⟨_, rfl, by simp [primBits]⟩
  | sint n m => cases v <;> simp [inDom] at hd; exact ⟨_, rfl, by simp [primBits]⟩
  | float n m => cases v <;> simp [inDom] at hd; exact ⟨_, rfl, by simp [primBits]⟩
  | _ => simp [isStdPrim] at hstd

theorem mapM_elemBits {t : Ty} (hstd : isStdPrim t = true) : ∀ (vs : List Val),
    (∀ v ∈ vs, inDom true t v = true) →
    ∃ bss, vs.mapM (elemBits t) = some bss ∧ bss.flatten.length = vs.length * primBits t := by
  intro vs
  induction vs with
  | nil => intro _; exact ⟨[], rfl, by simp⟩
  | cons v vs ih =>
    intro h
    obtain ⟨bss, hb, hl⟩ := ih (fun w hw => h w (List.mem_cons_of_mem _ hw))
    obtain ⟨bs, hs, hbl⟩ := stdPrim_ser hstd (h v List.mem_cons_self)
    refine ⟨bs :: bss, ?_, ?_⟩
    · rw [List.mapM_cons]; simp [elemBits, hs, hb]
    · simp [hl, hbl, Nat.succ_mul]; omega

theorem deAll_stdPrim_ok {t : Ty} (h : isStdPrim t = true) :
    ∀ (c : Nat) (bs : List Bool), ∃ vs, deAllWith (deBits t) c bs = .ok (vs, c * primBits t) := by
  intro c
  induction c with
  | zero => intro bs; exact ⟨[], by simp [deAllWith]⟩
  | succ c ih =>
    intro bs
    obtain ⟨_, v, hv⟩ := deBits_stdPrim h (bs := bs) (bs' := bs) (fun _ _ => rfl)
    obtain ⟨vs, hvs⟩ := ih (bs.drop (primBits t))
    exact ⟨v :: vs, by simp [deAllWith, hv, hvs, Nat.succ_mul, Nat.add_comm]⟩

theorem stdEnv_np : NpSound stdEnv where
  view := by
    intro t vs hstd hw hdom
    obtain ⟨_, _, h8⟩ := stdPrim_facts hstd hw
    obtain ⟨bss, hb, hl⟩ := mapM_elemBits hstd vs hdom
    have hmod : bss.flatten.length % 8 = 0 := by
      rw [hl, ← h8, ← Nat.mul_assoc, Nat.mul_comm (vs.length) 8, Nat.mul_assoc]; simp
    refine ⟨packBytes bss.flatten, by simp [stdEnv, viewBytesStd, hb], WF_packBytes _, ?_, ?_⟩
    · rw [packBytes_length, hl]
      have : vs.length * primBits t = 8 * (vs.length * (primBits t / 8)) := by
        rw [Nat.mul_left_comm, h8]
      omega
    · rw [serAll_eq_flatten vs bss hb, unpack_pack]
      have : padLen 8 bss.flatten.length = 0 := padLen_zero_of_mod (Or.inr rfl) hmod
      rw [this]; simp [zeros]
  frombuffer := by
    intro t bytes count hstd _ _ _
    obtain ⟨vs, hvs⟩ := deAll_stdPrim_ok hstd count (unpackBytes bytes)
    simp [stdEnv, fromBufferStd, hvs]

end NunavutVerif.GenPy
