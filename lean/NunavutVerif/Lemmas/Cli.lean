import NunavutVerif.Model.Cli
/-!
Helper lemmas for C08: the two generator loops return the same result whether or not they run dry, perform no
operation when dry, and — when they succeed for real — write exactly the paths they return.
-/
namespace NunavutVerif.Cli

theorem written_append (x y : List FsOp) : written (x ++ y) = written x ++ written y := by
  induction x with
  | nil => rfl
  | cons o r ih => cases o <;> simp [written, ih]

@[simp] theorem written_generateCodeOps (p : OutPath) : written (generateCodeOps p) = [p] := rfl

/-! ### the type loop -/

theorem genTypes_res_dry (files : List TemplateFile) (dry : Bool) (l : List (Entry × OutPath)) :
    (genTypes files dry l).res = (genTypes files true l).res := by
  induction l with
  | nil => rfl
  | cons x rest ih =>
    obtain ⟨e, p⟩ := x
    simp only [genTypes]
    cases resolveTemplate files e.candidates with
    | error x => rfl
    | ok _ => simp only [ih]

theorem genTypes_ops_dry (files : List TemplateFile) (l : List (Entry × OutPath)) :
    (genTypes files true l).ops = [] := by
  induction l with
  | nil => rfl
  | cons x rest ih =>
    obtain ⟨e, p⟩ := x
    simp only [genTypes]
    cases resolveTemplate files e.candidates with
    | error x => rfl
    | ok _ => simp [ih]

theorem genTypes_written (files : List TemplateFile) (l : List (Entry × OutPath)) (ps : List OutPath)
    (h : (genTypes files false l).res = .ok ps) : written (genTypes files false l).ops = ps := by
  induction l generalizing ps with
  | nil => simp [genTypes] at h; subst h; rfl
  | cons x rest ih =>
    obtain ⟨e, p⟩ := x
    simp only [genTypes] at h ⊢
    cases hr : resolveTemplate files e.candidates with
    | error x => simp [hr] at h
    | ok _ =>
      simp only [hr] at h ⊢
      cases hrest : (genTypes files false rest).res with
      | error x => simp [hrest, Except.map] at h
      | ok qs =>
        simp [hrest, Except.map] at h
        subst h
        simp [written_append, ih qs hrest]

/-- On success the type loop returns the output paths of exactly the entries it was given. -/
theorem genTypes_ok_paths (files : List TemplateFile) (dry : Bool) (l : List (Entry × OutPath)) (ps : List OutPath)
    (h : (genTypes files dry l).res = .ok ps) : ps = l.map (·.2) := by
  induction l generalizing ps with
  | nil => simp [genTypes] at h; subst h; rfl
  | cons x rest ih =>
    obtain ⟨e, p⟩ := x
    simp only [genTypes] at h
    cases hr : resolveTemplate files e.candidates with
    | error x => simp [hr] at h
    | ok _ =>
      simp only [hr] at h
      cases hrest : (genTypes files dry rest).res with
      | error x => simp [hrest, Except.map] at h
      | ok qs =>
        simp [hrest, Except.map] at h
        subst h
        simp [ih qs hrest]

/-! ### the support loop -/

theorem written_headerOps (name src : String) (p : OutPath) :
    written (if pySuffix name == ".j2" then generateHeaderOps false p else copyHeaderOps false src p) = [p] := by
  split <;> rfl

theorem headerOps_dry (name src : String) (p : OutPath) :
    (if pySuffix name == ".j2" then generateHeaderOps true p else copyHeaderOps true src p) = [] := by
  split <;> rfl

theorem genSupportLoop_res_dry (a : Args) (dry : Bool) (l : List String) :
    (genSupportLoop a dry l).res = (genSupportLoop a true l).res := by
  induction l with
  | nil => rfl
  | cons n rest ih =>
    simp only [genSupportLoop]
    cases supportTarget a n with
    | error x => rfl
    | ok _ => simp only [ih]

theorem genSupportLoop_ops_dry (a : Args) (l : List String) : (genSupportLoop a true l).ops = [] := by
  induction l with
  | nil => rfl
  | cons n rest ih =>
    simp only [genSupportLoop]
    cases supportTarget a n with
    | error x => rfl
    | ok p =>
      simp only [ih, List.append_nil]
      split <;> rfl

theorem genSupportLoop_written (a : Args) (l : List String) (ps : List OutPath)
    (h : (genSupportLoop a false l).res = .ok ps) : written (genSupportLoop a false l).ops = ps := by
  induction l generalizing ps with
  | nil => simp [genSupportLoop] at h; subst h; rfl
  | cons n rest ih =>
    simp only [genSupportLoop] at h ⊢
    cases ht : supportTarget a n with
    | error x => simp [ht] at h
    | ok p =>
      simp only [ht] at h ⊢
      cases hrest : (genSupportLoop a false rest).res with
      | error x => simp [hrest, Except.map] at h
      | ok qs =>
        simp [hrest, Except.map] at h
        subst h
        rw [written_append, written_headerOps, ih qs hrest]
        rfl

/-! ### lifted to the guarded calls of the runner -/

theorem typesOut_res_dry (a : Args) (dry : Bool) (tree : List (Entry × OutPath)) :
    (typesOut a dry tree).res = (typesOut a true tree).res := by
  unfold typesOut; split
  · exact genTypes_res_dry _ _ _
  · rfl

theorem typesOut_ops_dry (a : Args) (tree : List (Entry × OutPath)) : (typesOut a true tree).ops = [] := by
  unfold typesOut; split
  · exact genTypes_ops_dry _ _
  · rfl

theorem typesOut_written (a : Args) (tree : List (Entry × OutPath)) (ps : List OutPath)
    (h : (typesOut a false tree).res = .ok ps) : written (typesOut a false tree).ops = ps := by
  unfold typesOut at h ⊢; split
  · rename_i hc; simp only [hc, if_true] at h; exact genTypes_written _ _ _ h
  · rename_i hc; simp only [hc] at h; simp at h; subst h; rfl

theorem typesOut_ok_paths (a : Args) (dry : Bool) (tree : List (Entry × OutPath)) (ps : List OutPath)
    (h : (typesOut a dry tree).res = .ok ps) :
    ps = if a.genSupport != .only then (selected a tree).map (·.2) else [] := by
  unfold typesOut at h; split
  · rename_i hc; simp only [hc, if_true] at h; exact genTypes_ok_paths _ _ _ _ h
  · rename_i hc; simp only [hc] at h; simp at h; exact h

theorem supportOut_res_dry (a : Args) (dry om : Bool) :
    (supportOut a dry om).res = (supportOut a true om).res := by
  unfold supportOut genSupportAll; split
  · exact genSupportLoop_res_dry _ _ _
  · rfl

theorem supportOut_ops_dry (a : Args) (om : Bool) : (supportOut a true om).ops = [] := by
  unfold supportOut genSupportAll; split
  · exact genSupportLoop_ops_dry _ _
  · rfl

theorem supportOut_written (a : Args) (om : Bool) (ps : List OutPath)
    (h : (supportOut a false om).res = .ok ps) : written (supportOut a false om).ops = ps := by
  unfold supportOut genSupportAll at h ⊢; split
  · rename_i hc; simp only [hc, if_true] at h; exact genSupportLoop_written _ _ _ h
  · rename_i hc; simp only [hc] at h; simp at h; subst h; rfl

/-! ### the runner -/

theorem errOf_none_iff (r : Except Err (List OutPath)) : errOf r = none ↔ ∃ l, r = .ok l := by
  cases r <;> simp [errOf]

/-- Success of `_generate` means both generators succeeded. -/
theorem generate_ok (a : Args) (dry : Bool) (tree : List (Entry × OutPath))
    (h : (generate a dry tree).err = none) :
    ∃ ls lt, (supportOut a dry a.omitSer).res = .ok ls ∧ (typesOut a dry tree).res = .ok lt ∧
      (generate a dry tree).ops = (supportOut a dry a.omitSer).ops ++ (typesOut a dry tree).ops := by
  cases hs : (supportOut a dry a.omitSer).res with
  | error x => simp [generate, hs] at h
  | ok ls =>
    have h' : errOf (typesOut a dry tree).res = none := by simpa [generate, hs] using h
    obtain ⟨lt, hlt⟩ := (errOf_none_iff _).1 h'
    exact ⟨ls, lt, rfl, hlt, by simp [generate, hs]⟩

theorem generate_err_none_iff (a : Args) (dry : Bool) (tree : List (Entry × OutPath)) :
    (generate a dry tree).err = none ↔
      (∃ ls, (supportOut a dry a.omitSer).res = .ok ls) ∧ (∃ lt, (typesOut a dry tree).res = .ok lt) := by
  constructor
  · intro h
    obtain ⟨ls, lt, h1, h2, _⟩ := generate_ok a dry tree h
    exact ⟨⟨ls, h1⟩, ⟨lt, h2⟩⟩
  · rintro ⟨⟨ls, h1⟩, ⟨lt, h2⟩⟩
    unfold generate
    simp [h1, h2, errOf]

theorem listOutputsWith_err_none_iff (a : Args) (om : Bool) (tree : List (Entry × OutPath)) :
    (listOutputsWith a om tree).err = none ↔
      (∃ ls, (supportOut a true om).res = .ok ls) ∧ (∃ lt, (typesOut a true tree).res = .ok lt) := by
  cases ht : (typesOut a true tree).res with
  | error x => simp [listOutputsWith, ht]
  | ok lt => simp [listOutputsWith, ht, errOf_none_iff]

theorem generate_ops_dry (a : Args) (tree : List (Entry × OutPath)) : (generate a true tree).ops = [] := by
  cases hs : (supportOut a true a.omitSer).res with
  | error x => simp [generate, hs, supportOut_ops_dry]
  | ok _ => simp [generate, hs, supportOut_ops_dry, typesOut_ops_dry]

theorem listOutputsWith_ops (a : Args) (om : Bool) (tree : List (Entry × OutPath)) :
    (listOutputsWith a om tree).ops = [] := by
  cases ht : (typesOut a true tree).res with
  | error x => simp [listOutputsWith, ht, typesOut_ops_dry]
  | ok _ => simp [listOutputsWith, ht, supportOut_ops_dry, typesOut_ops_dry]

/-- What `get_templates` enumerates is part of what `get_template_inputs` returns. -/
theorem typeTemplates_subset_typeInputs (a : Args) : ∀ f ∈ typeTemplates a, f ∈ typeInputs a := by
  intro f hf
  unfold typeInputs
  rw [List.mem_filter]
  refine ⟨?_, by simp [hf]⟩
  unfold typeTemplates at hf
  cases ht : a.templates with
  | some fs => simp only [ht, List.mem_filter] at hf; simp only [typeLoaderFiles, ht]; exact hf.1
  | none => simp only [ht, List.mem_filter] at hf; exact hf.1

/-- A file of the loader that is not byte code is part of what `get_template_inputs` returns. -/
theorem mem_typeInputs (a : Args) {f : TemplateFile} (hf : f ∈ typeLoaderFiles a) (hp : inPycache f.name = false) :
    f ∈ typeInputs a := by
  unfold typeInputs
  rw [List.mem_filter]
  exact ⟨hf, by simp [hp]⟩

end NunavutVerif.Cli
