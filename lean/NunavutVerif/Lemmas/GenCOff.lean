import NunavutVerif.Model.GenC
/-!
GenC refinement, part 2: soundness of the static offset descriptors (`AOff`): every offset the code can be at is
admitted by the descriptor the template computed for that site.
-/
namespace NunavutVerif.GenC
open NunavutVerif.Dsdl

namespace AOff

/-- offset `x` is admitted by descriptor `d` -/
def Adm (d : AOff) (x : Nat) : Prop := x % 8 ∈ d

theorem mem_norm {p : Nat → Bool} {r : Nat} : r ∈ norm p ↔ r < 8 ∧ p r = true := by
  simp [norm, List.mem_filter, List.mem_range]

theorem adm_zero {x : Nat} (h : x % 8 = 0) : Adm zero x := by simp [Adm, zero, h]

theorem adm_single (n : Nat) : Adm (single n) n := by simp [Adm, single]

theorem adm_add {a b : AOff} {x y : Nat} (hx : Adm a x) (hy : Adm b y) : Adm (add a b) (x + y) := by
  unfold Adm add
  rw [mem_norm]
  refine ⟨Nat.mod_lt _ (by decide), ?_⟩
  rw [List.any_eq_true]
  refine ⟨x % 8, hx, ?_⟩
  rw [List.any_eq_true]
  refine ⟨y % 8, hy, ?_⟩
  simp only [beq_iff_eq]
  omega

theorem adm_union_left {a b : AOff} {x : Nat} (hx : Adm a x) : Adm (union a b) x := by
  unfold Adm union
  rw [mem_norm]
  refine ⟨Nat.mod_lt _ (by decide), ?_⟩
  simp only [Bool.or_eq_true, List.contains_iff_mem]
  exact Or.inl hx

theorem adm_union_right {a b : AOff} {x : Nat} (hx : Adm b x) : Adm (union a b) x := by
  unfold Adm union
  rw [mem_norm]
  refine ⟨Nat.mod_lt _ (by decide), ?_⟩
  simp only [Bool.or_eq_true, List.contains_iff_mem]
  exact Or.inr hx

theorem adm_congr {d : AOff} {x y : Nat} (h : x % 8 = y % 8) (hx : Adm d x) : Adm d y := by
  unfold Adm at *; rw [← h]; exact hx

theorem aligned_of_adm {d : AOff} {x : Nat} (ha : d.isAligned = true) (hx : Adm d x) : x % 8 = 0 := by
  unfold isAligned at ha
  rw [List.all_eq_true] at ha
  simpa using ha _ hx

theorem adm_pad {d : AOff} {x al : Nat} (hal : al = 1 ∨ al = 8) (hx : Adm d x) :
    Adm (d.pad al) (padTo al x) := by
  unfold pad
  rcases hal with h | h
  · subst h
    have : padTo 1 x = x := by simp [padTo, padLen, Nat.mod_one]
    simpa [this] using hx
  · subst h
    simp only [if_true]
    apply adm_zero
    simp only [padTo, padLen]; omega

/-- sums of at most `k` lengths, each admitted by `s` -/
def Sums (s : AOff) (k : Nat) (x : Nat) : Prop :=
  ∃ lens : List Nat, lens.length ≤ k ∧ (∀ l ∈ lens, Adm s l) ∧ lens.sum = x

/-- sums of exactly `k` lengths, each admitted by `s` -/
def SumsEq (s : AOff) (k : Nat) (x : Nat) : Prop :=
  ∃ lens : List Nat, lens.length = k ∧ (∀ l ∈ lens, Adm s l) ∧ lens.sum = x

theorem sums_zero (s : AOff) (k : Nat) : Sums s k 0 := ⟨[], by simp, by simp, rfl⟩

theorem sumsEq_zero (s : AOff) : SumsEq s 0 0 := ⟨[], rfl, by simp, rfl⟩

theorem sums_step {s : AOff} {k x l : Nat} (h : Sums s k x) (hl : Adm s l) : Sums s (k + 1) (x + l) := by
  obtain ⟨lens, h1, h2, h3⟩ := h
  refine ⟨l :: lens, by simp; omega, ?_, by simp [h3]; omega⟩
  intro y hy
  rcases List.mem_cons.mp hy with e | e
  · subst e; exact hl
  · exact h2 y e

theorem sumsEq_step {s : AOff} {k x l : Nat} (h : SumsEq s k x) (hl : Adm s l) : SumsEq s (k + 1) (x + l) := by
  obtain ⟨lens, h1, h2, h3⟩ := h
  refine ⟨l :: lens, by simp [h1], ?_, by simp [h3]; omega⟩
  intro y hy
  rcases List.mem_cons.mp hy with e | e
  · subst e; exact hl
  · exact h2 y e

theorem sums_mono {s : AOff} {k k' x : Nat} (h : Sums s k x) (hk : k ≤ k') : Sums s k' x := by
  obtain ⟨lens, h1, h2, h3⟩ := h
  exact ⟨lens, by omega, h2, h3⟩

theorem sums_of_sumsEq {s : AOff} {k x : Nat} (h : SumsEq s k x) : Sums s k x := by
  obtain ⟨lens, h1, h2, h3⟩ := h
  exact ⟨lens, by omega, h2, h3⟩

theorem adm_kfold (s : AOff) : ∀ (k : Nat) (acc : AOff) (x : Nat) (lens : List Nat),
    Adm acc x → lens.length = k → (∀ l ∈ lens, Adm s l) → Adm (kfold s k acc) (x + lens.sum) := by
  intro k
  induction k with
  | zero =>
    intro acc x lens hx hl _
    have : lens = [] := List.eq_nil_of_length_eq_zero hl
    subst this
    simpa [kfold] using hx
  | succ k ih =>
    intro acc x lens hx hl hs
    match lens, hl with
    | l :: rest, hl =>
      simp only [kfold, List.sum_cons]
      have := ih (add acc s) (x + l) rest (adm_add hx (hs l (by simp))) (by simpa using hl)
        (fun y hy => hs y (List.mem_cons_of_mem _ hy))
      rwa [Nat.add_assoc] at this

theorem adm_kfold_zero {s : AOff} {k x : Nat} (h : SumsEq s k x) : Adm (kfold s k zero) x := by
  obtain ⟨lens, h1, h2, h3⟩ := h
  have := adm_kfold s k zero 0 lens (adm_zero rfl) h1 h2
  rw [h3] at this
  simpa using this

theorem adm_rangeRep (s : AOff) : ∀ (k : Nat) (acc : AOff) (j : Nat),
    (∀ x, Sums s j x → Adm acc x) → ∀ x, Sums s (j + k) x → Adm (rangeRep s k acc) x := by
  intro k
  induction k with
  | zero => intro acc j h x hx; simpa [rangeRep] using h x hx
  | succ k ih =>
    intro acc j h x hx
    simp only [rangeRep]
    apply ih (union zero (add acc s)) (j + 1)
    · intro y hy
      obtain ⟨lens, h1, h2, h3⟩ := hy
      match lens, h1, h2, h3 with
      | [], _, _, h3 =>
        apply adm_union_left
        apply adm_zero
        simp at h3; omega
      | l :: rest, h1, h2, h3 =>
        apply adm_union_right
        have hr : Adm acc rest.sum := h _ ⟨rest, by simp at h1; omega, fun y hy => h2 y (List.mem_cons_of_mem _ hy), rfl⟩
        have := adm_add hr (h2 l (by simp))
        apply adm_congr _ this
        simp at h3; omega
    · have : j + 1 + k = j + (k + 1) := by omega
      rw [this]; exact hx

theorem adm_rangeRep_zero {s : AOff} {k x : Nat} (h : Sums s k x) : Adm (rangeRep s k zero) x := by
  apply adm_rangeRep s k zero 0
  · intro y hy
    obtain ⟨lens, h1, _, h3⟩ := hy
    have : lens = [] := List.eq_nil_of_length_eq_zero (by omega)
    subst this
    apply adm_zero
    simp at h3; omega
  · simpa using h

end AOff

/-- The oracle question at a site: a sound oracle that claims alignment is right about every admitted offset. -/
theorem Opts.Sound.aligned {o : Opts} (hs : o.Sound) {d : AOff} {x : Nat} (hx : AOff.Adm d x)
    (ho : o.orc d = true) : x % 8 = 0 :=
  AOff.aligned_of_adm (hs d ho) hx

theorem exactOrc_sound (little : Bool) (fill : Nat) (asserts : Bool) :
    Opts.Sound { little := little, orc := exactOrc, fill := fill, asserts := asserts } :=
  fun _ h => h

/-! ### assertions that hold do nothing -/

theorem assertC_ok {α : Type} (o : Opts) {c : Prop} [Decidable c] (h : c) (k : Except Err α) :
    assertC o c k = k := by
  unfold assertC
  rw [if_neg]
  intro h2
  exact h2.2 h

/-- the assertions at the head of `_serialize_any` / `_deserialize_any` hold at every site the code reaches -/
theorem anyGuard_ok {α : Type} (o : Opts) (hs : o.Sound) (t : Ty) (room : Option Nat) (d : AOff) (off : Nat)
    (k : Except Err α) (hal : off % align t = 0) (hd : AOff.Adm d off)
    (hroom : optLe (off + maxBits t) room = true) : anyGuard o t room d off k = k := by
  unfold anyGuard
  rw [assertC_ok o (fun _ => hal), assertC_ok o (fun ho => hs.aligned hd ho), assertC_ok o hroom]

end NunavutVerif.GenC
