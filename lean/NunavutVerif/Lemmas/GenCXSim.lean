import NunavutVerif.Lemmas.GenCXBits
/-!
GenCX, part 2: simulation between the address/override-aware transcription and `Model/GenC.lean`.

`Sim B rX r`: the extended function returns what the plain one returns, or (only if `B`: some user capacity is
really smaller) `-BAD_ARRAY_LENGTH`, or the plain one fails in a primitive (which `C04_genC_*_memory_safe` excludes).
Proved for every function by following the structure, *without* typing hypotheses; the address assertions are
discharged by `copyBits_ok_inv`: a copy that stays inside its objects touches only bytes inside two disjoint intervals.
-/
namespace NunavutVerif.GenC
open NunavutVerif.Dsdl NunavutVerif.Bits

def Sim {α : Type} (B : Prop) (rX r : Except Err α) : Prop :=
  rX = r ∨ (B ∧ rX = .error eBadArrayLength) ∨ ∃ e, r = .error (.prim e)

/-- user capacities never exceed the DSDL capacity (`#error` in the generated header otherwise) -/
def Reduced (X : Ext) : Prop := ∀ t c, X.ucap t c ≤ c

theorem effCap_le {X : Ext} (h : Reduced X) (t : Ty) (c : Nat) : effCap X t c ≤ c := by
  unfold effCap
  split
  · exact h t c
  · exact Nat.le_refl _

theorem liftP_ok {α : Type} {r : Except Bits.Err α} {a : α} (h : liftP r = .ok a) : r = .ok a := by
  unfold liftP at h
  cases r with
  | error e => simp at h
  | ok p => simp only [Except.ok.injEq] at h; rw [h]

theorem Sim.rfl' {α : Type} {B : Prop} {r : Except Err α} : Sim B r r := Or.inl rfl

/-- the buffer pointer `pb` of the current function lies inside the user's buffer `[b0, b0+L0)`, as do the `cap`
bytes it was told about; needed only when the address assertions are evaluated -/
def InvS (o : Opts) (X : Ext) (b0 L0 pb : Nat) (len cap : Nat) : Prop :=
  o.asserts = true → X.addrs = true → b0 ≤ pb ∧ pb + len ≤ b0 + L0 ∧ cap ≤ len ∧ 0 < cap

theorem ne_of_inside {a sz b0 L0 pb : Nat} (hd : Disj a sz b0 L0) (h0 : b0 ≤ pb) (h1 : pb < b0 + L0) : a ≠ pb := by
  unfold Disj at hd
  omega

/-- the address assertions of one copy between the buffer pointer `pb` (bit offset `off`) and another object at `a`
(bit offset 0) hold in both directions, from disjointness and "a copy of ≥ 1 bit stays inside both objects" -/
theorem copyAsserts_ok (X : Ext) (hfx : X.fixed = true) (pb a off len szA b0 L0 : Nat)
    (hd : Disj a szA b0 L0) (h0 : b0 ≤ pb)
    (hin : 0 < len → pb + (off + len + 7) / 8 ≤ b0 + L0 ∧ (len + 7) / 8 ≤ szA)
    (hne : a ≠ pb ∨ (X.headGuarded = true ∧ len = 0)) :
    copyAsserts X pb off len a 0 = true ∧ copyAsserts X a 0 len pb off = true := by
  unfold Disj at hd
  have hne' : (X.headGuarded && len == 0 || a != pb) = true ∧ (X.headGuarded && len == 0 || pb != a) = true := by
    rcases hne with h | ⟨h1, h2⟩
    · have : pb ≠ a := fun e => h e.symm
      simp [h, this]
    · simp [h1, h2]
  unfold copyAsserts ovlOK
  simp only [hfx, hne'.1, hne'.2, Bool.true_and, forall_const, Nat.zero_add]
  by_cases hl : 0 < len
  · have := hin hl
    constructor
    · simp only [Bool.or_eq_true, Bool.and_eq_true, decide_eq_true_eq]
      right
      constructor <;> split <;> simp <;> omega
    · simp only [Bool.or_eq_true, Bool.and_eq_true, decide_eq_true_eq]
      right
      constructor <;> split <;> simp <;> omega
  · have : ¬ len > 0 := hl
    simp [this]

/-! ### primitives -/

section
variable {o : Opts} {X : Ext} {b0 L0 : Nat} {B : Prop}

theorem cpGuard_inactive {α : Type} (h : ¬ (o.asserts = true ∧ X.addrs = true)) (pd dOff len ps sOff : Nat)
    (k : Except Err α) : cpGuard o X pd dOff len ps sOff k = k := by
  unfold cpGuard
  have : ¬ (o.asserts = true ∧ X.addrs = true ∧ copyAsserts X pd dOff len ps sOff = false) := fun h' => h ⟨h'.1, h'.2.1⟩
  simp [this]

theorem cpGuard_pass {α : Type} {pd dOff len ps sOff : Nat} (h : copyAsserts X pd dOff len ps sOff = true)
    (k : Except Err α) : cpGuard o X pd dOff len ps sOff k = k := by
  unfold cpGuard
  simp [h]

theorem setUxxX_sim (hfx : X.fixed = true) (hp : Placed X b0 L0) (pb : Nat) (buf : Buf) (cap off value len : Nat)
    (hi : InvS o X b0 L0 pb buf.length cap) :
    Sim B (setUxxX o X pb buf cap off value len) (chk (setUxx o.little buf cap off value len)) := by
  unfold setUxxX
  split
  · exact Sim.rfl'
  · rename_i hroom
    by_cases hact : o.asserts = true ∧ X.addrs = true
    · obtain ⟨h0, h1, h2, h3⟩ := hi hact.1 hact.2
      unfold setUxx
      simp only [hroom, if_false, bind, Except.bind]
      cases hc : copyBits buf off (chooseMin len 64) (if o.little = true then objRepLE (value % 2 ^ 64) 8 else u64Tmp value) 0 with
      | error e => exact Or.inr (Or.inr ⟨e, by simp [chk]⟩)
      | ok r =>
        have hinv := (copyBits_ok_inv hc).2
        have hsl : (if o.little = true then objRepLE (value % 2 ^ 64) 8 else u64Tmp value).length = 8 := by
          split
          · exact length_objRepLE 8 _
          · rfl
        rw [hsl] at hinv
        have hd := hp .setTmp pb off 8
        have := (copyAsserts_ok X hfx pb (X.adr .setTmp pb off 8) off (chooseMin len 64) 8 b0 L0 hd h0
          (fun hl => by have := hinv hl; omega) (Or.inl (ne_of_inside hd h0 (by omega)))).1
        rw [cpGuard_pass this]
        exact Sim.rfl'
    · rw [cpGuard_inactive hact]
      exact Sim.rfl'


/-! ### deserialization -/

/-- decode side: the buffer pointer is not below the user's buffer, and if anything is left of the buffer behind it,
it ends where the user's buffer ends -/
def InvD (o : Opts) (X : Ext) (b0 L0 pb : Nat) (buf : Buf) : Prop :=
  o.asserts = true → X.addrs = true → b0 ≤ pb ∧ (buf ≠ [] → pb + buf.length ≤ b0 + L0)

/-- `src != dst` for a copy of zero bits: either the assertion is guarded, or no object starts at a pointer at /
behind the end of the buffer -/
def HeadOK (X : Ext) (b0 L0 : Nat) : Prop := X.headGuarded = true ∨ NoAliasPastEnd X b0 L0

theorem cpGuard_de_sim {α : Type} (hfx : X.fixed = true) (hp : Placed X b0 L0) (hh : HeadOK X b0 L0) (kind : Other)
    (pb : Nat) (buf : Buf) (off bits sz : Nat) (hi : InvD o X b0 L0 pb buf) (k : Except Err α)
    (hk : (∃ e, k = .error (.prim e)) ∨ ∃ dst r, dst.length = sz ∧ copyBits dst 0 bits buf off = .ok r) :
    Sim B (cpGuard o X (X.adr kind pb off sz) 0 bits pb off k) k := by
  by_cases hact : o.asserts = true ∧ X.addrs = true
  · rcases hk with ⟨e, he⟩ | ⟨dst, r, hl, hc⟩
    · exact Or.inr (Or.inr ⟨e, he⟩)
    · obtain ⟨h0, h1⟩ := hi hact.1 hact.2
      have hinv := (copyBits_ok_inv hc).2
      have hd := hp kind pb off sz
      have hin : 0 < bits → pb + (off + bits + 7) / 8 ≤ b0 + L0 ∧ (bits + 7) / 8 ≤ sz := by
        intro hb
        have := hinv hb
        have hne : buf ≠ [] := by
          intro e
          rw [e] at this
          simp at this
          omega
        have := h1 hne
        omega
      have hne : X.adr kind pb off sz ≠ pb ∨ (X.headGuarded = true ∧ bits = 0) := by
        by_cases hb : 0 < bits
        · exact Or.inl (ne_of_inside hd h0 (by have := hin hb; omega))
        · rcases hh with hg | hna
          · exact Or.inr ⟨hg, by omega⟩
          · by_cases hpe : pb < b0 + L0
            · exact Or.inl (ne_of_inside hd h0 hpe)
            · exact Or.inl (hna kind pb off sz (by omega))
      have := (copyAsserts_ok X hfx pb (X.adr kind pb off sz) off bits sz b0 L0 hd h0 hin hne).2
      rw [cpGuard_pass this]
      exact Sim.rfl'
  · rw [cpGuard_inactive hact]
    exact Sim.rfl'

theorem length_objRepLE' (n v : Nat) : (objRepLE v n).length = n := length_objRepLE n v

theorem getU_cases (little : Bool) (W : Nat) (buf : Buf) (size off len : Nat) :
    (∃ e, liftP (getU little W buf size off len) = .error (.prim e)) ∨
      ∃ dst r, dst.length = W / 8 ∧ copyBits dst 0 (saturate size off (chooseMin len W)) buf off = .ok r := by
  unfold getU
  simp only [bind, Except.bind]
  split
  · cases hc : copyBits (objRepLE 0 (W / 8)) 0 (saturate size off (chooseMin len W)) buf off with
    | error e => exact Or.inl ⟨e, by simp [liftP]⟩
    | ok r => exact Or.inr ⟨_, r, length_objRepLE' _ _, hc⟩
  · cases hc : copyBits (List.replicate (W / 8) 0) 0 (saturate size off (chooseMin len W)) buf off with
    | error e => exact Or.inl ⟨e, by simp [liftP]⟩
    | ok r => exact Or.inr ⟨_, r, List.length_replicate, hc⟩

theorem getUX_sim (hfx : X.fixed = true) (hp : Placed X b0 L0) (hh : HeadOK X b0 L0) (pb W : Nat) (buf : Buf)
    (size off len : Nat) (hi : InvD o X b0 L0 pb buf) :
    Sim B (getUX o X pb W buf size off len) (liftP (getU o.little W buf size off len)) :=
  cpGuard_de_sim hfx hp hh .getTmp pb buf off _ _ hi _ (getU_cases _ _ _ _ _ _)

theorem getIX_sim (hfx : X.fixed = true) (hp : Placed X b0 L0) (hh : HeadOK X b0 L0) (pb W : Nat) (buf : Buf)
    (size off len : Nat) (hi : InvD o X b0 L0 pb buf) :
    Sim B (getIX o X pb W buf size off len) (liftP (getI o.little W buf size off len)) := by
  refine cpGuard_de_sim hfx hp hh .getTmp pb buf off _ _ hi _ ?_
  rcases getU_cases o.little W buf size off (chooseMin len W) with ⟨e, he⟩ | h
  · left
    unfold getI
    simp only [bind, Except.bind]
    cases hg : getU o.little W buf size off (chooseMin len W) with
    | error e' => exact ⟨e', by simp [liftP]⟩
    | ok v => simp [hg, liftP] at he
  · exact Or.inr h

theorem memset0_ok_length (n : Nat) : ∀ (dst : Buf) (p : Nat) (r : Buf), memset0 dst p n = .ok r → r.length = dst.length := by
  induction n with
  | zero =>
    intro dst p r h
    simp [memset0] at h
    rw [h]
  | succ n ih =>
    intro dst p r h
    simp only [memset0, bind, Except.bind] at h
    cases hs : set? dst p 0 with
    | error e => simp [hs] at h
    | ok d =>
      simp only [hs] at h
      have := ih d (p + 1) r h
      have := set?_ok_inv hs
      omega

theorem getBitsX_sim (hfx : X.fixed = true) (hp : Placed X b0 L0) (hh : HeadOK X b0 L0) (pb : Nat) (out buf : Buf)
    (size off len : Nat) (hi : InvD o X b0 L0 pb buf) :
    Sim B (getBitsX o X pb out buf size off len) (liftP (getBits out buf size off len)) := by
  refine cpGuard_de_sim hfx hp hh .memDst pb buf off _ _ hi _ ?_
  unfold getBits
  simp only [bind, Except.bind]
  cases hs : sub? ((len + 7) / 8) (saturate size off len / 8) with
  | error e => exact Or.inl ⟨e, by simp [liftP]⟩
  | ok n =>
    simp only
    cases hm : memset0 out (saturate size off len / 8) n with
    | error e => exact Or.inl ⟨e, by simp [liftP]⟩
    | ok out1 =>
      simp only
      cases hc : copyBits out1 0 (saturate size off len) buf off with
      | error e => exact Or.inl ⟨e, by simp [liftP]⟩
      | ok r => exact Or.inr ⟨out1, r, memset0_ok_length _ _ _ _ hm, hc⟩

end

end NunavutVerif.GenC
