import NunavutVerif.Model.Float16
/-!
Arithmetic facts about the modelled binary32 multiplication by the constant `2^-112` used by `pack`:
exact (an exponent subtraction) when the product is a normal number, below `2^12` when the operand is below
`2^-26`.
-/
namespace NunavutVerif.Float16

theorem allBelow_spec (n : Nat) (p : Nat → Bool) (h : allBelow n p = true) : ∀ i, i < n → p i = true := by
  induction n with
  | zero => intro i hi; omega
  | succ n ih =>
    simp only [allBelow, Bool.and_eq_true] at h
    intro i hi
    by_cases hin : i = n
    · subst hin; exact h.1
    · exact ih h.2 i (by omega)

theorem lgA_le (p r : Nat) : lgA p r ≤ r + 1 := by
  unfold lgA; cases Nat.ble 2 p <;> simp
theorem lgB_le (p r : Nat) : lgB p r ≤ r + 3 := by
  unfold lgB; cases Nat.ble 4 p <;> simp
  · exact Nat.le_trans (lgA_le _ _) (by omega)
  · exact Nat.le_trans (lgA_le _ _) (by omega)
theorem lgC_le (p r : Nat) : lgC p r ≤ r + 7 := by
  unfold lgC; cases Nat.ble 16 p <;> simp
  · exact Nat.le_trans (lgB_le _ _) (by omega)
  · exact Nat.le_trans (lgB_le _ _) (by omega)
theorem lgD_le (p r : Nat) : lgD p r ≤ r + 15 := by
  unfold lgD; cases Nat.ble 256 p <;> simp
  · exact Nat.le_trans (lgC_le _ _) (by omega)
  · exact Nat.le_trans (lgC_le _ _) (by omega)
theorem lgE_le (p r : Nat) : lgE p r ≤ r + 31 := by
  unfold lgE; cases Nat.ble 65536 p <;> simp
  · exact Nat.le_trans (lgD_le _ _) (by omega)
  · exact Nat.le_trans (lgD_le _ _) (by omega)
theorem lg_le_63 (p : Nat) : lg p ≤ 63 := by
  unfold lg; cases Nat.ble 4294967296 p <;> simp
  · exact Nat.le_trans (lgE_le _ _) (by omega)
  · exact Nat.le_trans (lgE_le _ _) (by omega)

theorem ble_t {a b : Nat} (h : a ≤ b) : Nat.ble a b = true := by simp; exact h
theorem ble_f {a b : Nat} (h : b < a) : Nat.ble a b = false := by
  cases hh : Nat.ble a b
  · rfl
  · simp at hh; omega
theorem blt_t {a b : Nat} (h : a < b) : Nat.blt a b = true := by simp [Nat.blt]; omega
theorem blt_f {a b : Nat} (h : b ≤ a) : Nat.blt a b = false := by
  cases hh : Nat.blt a b
  · rfl
  · simp [Nat.blt] at hh; omega
theorem beq_t {a b : Nat} (h : a = b) : Nat.beq a b = true := by simp; exact h
theorem beq_f {a b : Nat} (h : a ≠ b) : Nat.beq a b = false := by
  cases hh : Nat.beq a b
  · rfl
  · simp at hh; omega

theorem lg_46 (p : Nat) (h1 : 70368744177664 ≤ p) (h2 : p < 140737488355328) : lg p = 46 := by
  have e1 : Nat.ble 4294967296 p = true := ble_t (by omega)
  have e2 : Nat.ble 65536 (p >>> 32) = false := ble_f (by simp only [Nat.shiftRight_eq_div_pow]; omega)
  have e3 : Nat.ble 256 (p >>> 32) = true := ble_t (by simp only [Nat.shiftRight_eq_div_pow]; omega)
  have e4 : Nat.ble 16 (p >>> 32 >>> 8) = true := ble_t (by simp only [Nat.shiftRight_eq_div_pow]; omega)
  have e5 : Nat.ble 4 (p >>> 32 >>> 8 >>> 4) = true := ble_t (by simp only [Nat.shiftRight_eq_div_pow]; omega)
  have e6 : Nat.ble 2 (p >>> 32 >>> 8 >>> 4 >>> 2) = false := ble_f (by simp only [Nat.shiftRight_eq_div_pow]; omega)
  simp [lg, lgE, lgD, lgC, lgB, lgA, e1, e2, e3, e4, e5, e6]

/-! ### `rne` -/

theorem rne_exact (M s : Nat) : rne (M * 2 ^ s) s = M := by
  have hp : 0 < 2 ^ s := Nat.two_pow_pos _
  have hq : (M * 2 ^ s) >>> s = M := by rw [Nat.shiftRight_eq_div_pow, Nat.mul_div_cancel _ hp]
  have hr : (M * 2 ^ s) % 2 ^ s = 0 := Nat.mul_mod_left _ _
  have hh : 0 < 2 ^ (s - 1) := Nat.two_pow_pos _
  simp only [rne, hq, hr]
  rw [blt_f (by omega), beq_f (by omega)]
  simp

theorem rne_le (P s : Nat) : rne P s ≤ P / 2 ^ s + 1 := by
  simp only [rne, Nat.shiftRight_eq_div_pow]
  cases (Nat.blt (2 ^ (s - 1)) (P % 2 ^ s) || (Nat.beq (P % 2 ^ s) (2 ^ (s - 1)) && Nat.beq (P / 2 ^ s % 2) 1)) <;> simp

/-! ### multiplication by `2^-112` (pattern `15 <<< 23`) -/

theorem f32round_eq (P E : Nat) : f32round P E =
    if P = 0 then 0 else
    let r := if 174 ≤ lg P + E then (lg P + E - 174) * 8388608 + (if lg P ≤ 23 then P <<< (23 - lg P) else rne P (lg P - 23))
             else (if 151 ≤ E then P <<< (E - 151) else rne P (151 - E))
    if 2139095040 ≤ r then 2139095040 else r := by
  simp only [f32round, cond_eq_ite, Nat.ble_eq, Nat.beq_eq]

theorem f32round_normal (M E : Nat) (hM1 : 8388608 ≤ M) (hM2 : M < 16777216) (hE1 : 128 ≤ E)
    (hE2 : (E - 128) * 8388608 + M < 2139095040) :
    f32round (M * 8388608) E = (E - 128) * 8388608 + M := by
  have hP1 : 70368744177664 ≤ M * 8388608 := by clear hE2; omega
  have hP2 : M * 8388608 < 140737488355328 := by clear hE2 hP1; omega
  have hP0 : M * 8388608 ≠ 0 := by clear hE2 hP2; omega
  have hrne : rne (M * 8388608) 23 = M := by
    have := rne_exact M 23
    rw [show (2:Nat)^23 = 8388608 from by decide] at this
    exact this
  rw [f32round_eq, if_neg hP0, lg_46 _ hP1 hP2]
  simp only []
  rw [if_pos (show 174 ≤ 46 + E by clear hE2 hP1 hP2 hP0; omega), if_neg (show ¬ (46 ≤ 23) by omega), hrne]
  rw [if_neg (by clear hP1 hP2 hP0; omega)]
  clear hP1 hP2 hP0; omega

theorem f32mul_magic_eq (b : Nat) : f32mul b 0x07800000 =
    f32round ((if b / 8388608 = 0 then b else b % 8388608 + 8388608) * 8388608)
      ((if b / 8388608 = 0 then 1 else b / 8388608) + 15) := by
  have hea : b >>> 23 = b / 8388608 := by rw [Nat.shiftRight_eq_div_pow]
  simp only [f32mul, hea, show (125829120 >>> 23) = 15 from rfl, show Nat.beq 15 0 = false from rfl,
    show 125829120 % 8388608 + 8388608 = 8388608 from rfl, cond_eq_ite, Nat.beq_eq]
  simp

/-- Normal product: the multiplication is exact and is a subtraction in the exponent field. -/
theorem f32mul_magic_normal (b : Nat) (h1 : 113 * 8388608 ≤ b) (h2 : b < 2139095040) :
    f32mul b 0x07800000 = b - 112 * 8388608 := by
  rw [f32mul_magic_eq, if_neg (by omega), if_neg (by omega),
    f32round_normal _ _ (by omega) (by omega) (by omega) (by omega)]
  omega
theorem f32round_small (P E : Nat) (hP : P < 140737488355328) (hL : lg P + E < 174) (hE : E ≤ 115) :
    f32round P E < 4096 := by
  rw [f32round_eq]
  by_cases hP0 : P = 0
  · rw [if_pos hP0]; omega
  · rw [if_neg hP0, if_neg (show ¬ (174 ≤ lg P + E) by omega), if_neg (show ¬ (151 ≤ E) by omega)]
    have h1 := rne_le P (151 - E)
    have h2 : P / 2 ^ (151 - E) ≤ P / 2 ^ 36 :=
      Nat.div_le_div_left (Nat.pow_le_pow_right (by omega) (by omega)) (Nat.two_pow_pos _)
    have h3 : P / 2 ^ 36 < 2048 := by
      rw [show (2:Nat) ^ 36 = 68719476736 from by decide]; clear h1 h2; omega
    have h4 : rne P (151 - E) < 4096 := by omega
    simp only []
    rw [if_neg (by omega)]
    exact h4

/-- Operand below `2^-26`: the product is below `2^12` units of `2^-149`. -/
theorem f32mul_magic_small (b : Nat) (h : b < 101 * 8388608) : f32mul b 0x07800000 < 4096 := by
  rw [f32mul_magic_eq]
  by_cases he : b / 8388608 = 0
  · rw [if_pos he, if_pos he]
    have := lg_le_63 (b * 8388608)
    exact f32round_small _ _ (by omega) (by omega) (by omega)
  · rw [if_neg he, if_neg he]
    have hl := lg_46 ((b % 8388608 + 8388608) * 8388608) (by omega) (by omega)
    exact f32round_small _ _ (by omega) (by omega) (by omega)
end NunavutVerif.Float16
