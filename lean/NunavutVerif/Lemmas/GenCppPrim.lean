import NunavutVerif.Model.GenCpp
import NunavutVerif.Lemmas.BitsCpp
import NunavutVerif.Lemmas.GenCDe
/-!
GenCpp refinement, part 1: assertions, and what one emitted primitive site does — every `bitspan` setter as a writer
(`GenC.Wrote`), every `const_bitspan` getter as a reader of the specification's bit list — from the C14 contracts of
the C++ operations (`Lemmas/BitsCpp.lean`).  The vocabulary of the GenC refinement (`Wrote`, `SerStep`, `Rel`,
`bitsOf`, `Adm`, …) is reused as it is.
-/
namespace NunavutVerif.GenCpp
open NunavutVerif.Dsdl NunavutVerif.Bits
open NunavutVerif.GenC (AOff resBits W liftP eTooSmall eBadArrayLength eBadUnionTag eBadDelimiterHeader
  satInt isStd storW floatBits serLoop deLoop trivVal trivVals trivHead padDe
  Wrote SerStep gb bitsOf lowBits satV Rel)
open NunavutVerif.GenC.AOff (Adm)

/-! ### assertions -/

theorem assertX_ok {α : Type} (o : Opts) {c : Prop} [Decidable c] (h : c) (k : Except Err α) :
    assertX o c k = k := by
  unfold assertX
  rw [if_neg]
  intro hh
  exact hh.2 h

theorem Opts.Sound.aligned {o : Opts} (hs : o.Sound) {d : AOff} {x : Nat} (hx : Adm d x)
    (ho : o.orc d = true) : x % 8 = 0 :=
  GenC.AOff.aligned_of_adm (hs d ho) hx

theorem anyGuardS_ok {α : Type} (o : Opts) (hs : o.Sound) (t : Ty) (d : AOff) (data : Buf) (off : Nat)
    (k : Except Err α) (hal : off % align t = 0) (hd : Adm d off) (hroom : off + maxBits t ≤ 8 * data.length) :
    anyGuardS o t d data off k = k := by
  unfold anyGuardS
  rw [assertX_ok o (fun _ => hal), assertX_ok o (fun ho => hs.aligned hd ho),
    assertX_ok o (by intro _; rw [Cpp.size_eq]; simp only; omega)]

theorem anyGuardD_ok {α : Type} (o : Opts) (hs : o.Sound) (t : Ty) (d : AOff) (off : Nat)
    (k : Except Err α) (hal : off % align t = 0) (hd : Adm d off) : anyGuardD o t d off k = k := by
  unfold anyGuardD
  rw [assertX_ok o (fun _ => hal), assertX_ok o (fun ho => hs.aligned hd ho)]

theorem chkX_ok (r : Buf) : chkX (.ok (0, r)) = .ok r := by simp [chkX]

/-! ### the `bitspan` setters as writers -/

theorem setUxx_wrote (data : Buf) (off value n : Nat) (bits : List Bool)
    (hroom : off + n ≤ 8 * data.length) (hn : n ≤ 64) (hb : bits.length = n)
    (hv : ∀ i, i < n → value.testBit i = gb bits i) :
    ∃ r, chkX (Cpp.setUxx ⟨data, off⟩ value n) = .ok r ∧ Wrote data r off bits := by
  rw [Cpp.setUxx_eq]
  obtain ⟨r, hr, hl, hwf, hbits⟩ := setUxx_spec false data data.length off value n (Nat.le_refl _) (by omega)
  refine ⟨r, by rw [hr, chkX_ok], ?_⟩
  apply GenC.wrote_of_frame (fun i => value.testBit i) hl hwf
  · intro i
    rw [hbits i, hb, Nat.min_eq_left hn]
  · intro i hi
    exact hv i (by omega)

theorem serInt_wrote (signed : Bool) (n : Nat) (sat : Bool) (v : Int) (data : Buf) (off : Nat)
    (hn64 : n ≤ 64) (hroom : off + n ≤ 8 * data.length) :
    SerStep (serInt signed n sat v data off) data off (natToBits n (lowBits n (satV signed n sat v))) := by
  unfold serInt SerStep
  simp only [natToBits_length]
  have hsv : (if sat = true ∧ ¬ isStd n = true then satInt signed n v else v) = satV signed n sat v := rfl
  rw [hsv]
  generalize satV signed n sat v = z
  have e : (if signed = true then Cpp.setIxx ⟨data, off⟩ z n else Cpp.setUxx ⟨data, off⟩ (toU64 z) n)
      = Cpp.setUxx ⟨data, off⟩ (lowBits 64 z) n := by
    cases signed <;> rfl
  rw [e]
  obtain ⟨r, hr, hwr⟩ := setUxx_wrote data off (lowBits 64 z) n (natToBits n (lowBits n z)) hroom hn64 (by simp)
    (by
      intro i hi
      rw [GenC.gb_natToBits, GenC.testBit_lowBits hn64 hi]; simp [hi])
  rw [hr]
  exact ⟨_, rfl, hwr⟩

/-- an unsigned value that needs no saturation code: the prefix / tag / header sites -/
theorem serInt_nat_wrote (n k : Nat) (data : Buf) (off : Nat) (hn64 : n ≤ 64) (hroom : off + n ≤ 8 * data.length) :
    SerStep (serInt false n false (k : Int) data off) data off (natToBits n k) := by
  have h := serInt_wrote false n false (k : Int) data off hn64 hroom
  have : satV false n false (k : Int) = (k : Int) := by simp [satV]
  rwa [this, GenC.lowBits_natCast, natToBits_mod] at h

theorem serFloat_wrote (n : Nat) (m : Cast) (x : Nat) (data : Buf) (off : Nat) (hn : n = 16 ∨ n = 32 ∨ n = 64)
    (hroom : off + n ≤ 8 * data.length) :
    SerStep (serFloat n m x data off) data off (natToBits n (floatBits n m x)) := by
  unfold serFloat SerStep
  simp only [natToBits_length]
  generalize floatBits n m x = w
  obtain ⟨r, hr, hwr⟩ := setUxx_wrote data off w n (natToBits n w) hroom (by omega) (by simp)
    (by intro i hi; rw [GenC.gb_natToBits]; simp [hi])
  rw [hr]
  exact ⟨_, rfl, hwr⟩

theorem serVoid_wrote (n : Nat) (data : Buf) (off : Nat) (hroom : off + n ≤ 8 * data.length) :
    SerStep (serVoid n data off) data off (zeros n) := by
  unfold serVoid SerStep
  simp only [zeros_length]
  obtain ⟨r, hr, hl, hwf, hbits⟩ := Cpp.setZeros_spec ⟨data, off⟩ n (by rw [Cpp.size_eq]; simp only; omega)
  rw [hr, chkX_ok]
  refine ⟨r, rfl, ?_⟩
  apply GenC.wrote_of_frame (fun _ => false) hl hwf
  · intro i
    rw [hbits i, zeros_length]
  · intro i _
    rw [GenC.gb_zeros]

theorem serBool_wrote (v : Bool) (data : Buf) (off : Nat) (hroom : off + 1 ≤ 8 * data.length) :
    SerStep (serBool v data off) data off [v] := by
  unfold serBool SerStep
  simp only [List.length_singleton]
  rw [Cpp.setBit_eq]
  obtain ⟨r, hr, hl, hwf, hbits⟩ := setBit_spec data data.length off v (Nat.le_refl _) (by omega)
  simp only [hr, chkX_ok]
  refine ⟨r, rfl, hl, hwf, ?_, ?_⟩
  · intro i hi
    rw [hbits i, if_neg (by omega)]
  · intro i hi
    simp only [List.length_singleton] at hi
    have : i = 0 := by omega
    subst this
    rw [hbits, if_pos (by omega)]
    simp [gb]

theorem padSer_wrote (n : Nat) (data : Buf) (off : Nat) (hn : n = 1 ∨ n = 8)
    (hroom : padTo n off ≤ 8 * data.length) :
    SerStep (padSer n data off) data off (zeros (padLen n off)) := by
  unfold padSer SerStep
  simp only [zeros_length]
  rcases hn with rfl | rfl
  · simp [padLen, Nat.mod_one, zeros, Wrote.refl]
  · obtain ⟨h1, _, h3⟩ := Cpp.pad_spec ⟨data, off⟩ 8 (by decide) (by decide)
    simp only [show (8 : Nat) > 1 by decide, if_true]
    by_cases h : off % 8 = 0
    · have e : padLen 8 off = 0 := by simp only [padLen]; omega
      rw [h1 h]
      simp only [e, zeros, List.replicate_zero, Nat.add_zero, ne_eq, not_true_eq_false, if_false]
      exact ⟨_, rfl, Wrote.refl _ _⟩
    · have e : padLen 8 off = 8 - off % 8 := by simp only [padLen]; omega
      obtain ⟨r, hr, _, hl, hwf, hbits⟩ := h3 h (by
        rw [Cpp.size_eq]; simp only [padTo, padLen] at hroom ⊢; omega)
      rw [hr]
      simp only [ne_eq, not_true_eq_false, if_false, e]
      refine ⟨r, rfl, ?_⟩
      apply GenC.wrote_of_frame (fun _ => false) hl hwf
      · intro i
        rw [hbits i, zeros_length]
      · intro i _
        rw [GenC.gb_zeros]

/-! ### the `const_bitspan` getters as readers of the specification's bits -/

theorem zbit_full (data : Buf) (i : Nat) : zbit data data.length i = bitAt data i := by
  unfold zbit
  by_cases h : i < data.length * 8
  · simp [h]
  · simp only [h, decide_false, Bool.false_and]
    exact (bitAt_of_ge (by omega)).symm

/-- the bits a `const_bitspan` over `data` stands for -/
theorem readNat_data (data : Buf) (off n : Nat) :
    readNat n ((bitsOf data data.length).drop off) = fieldOf (fun i => bitAt data (off + i)) n := by
  rw [GenC.readNat_bitsOf]
  apply GenC.fieldOf_congr
  intro i _
  exact zbit_full data _

theorem deUint_spec (n : Nat) (data : Buf) (off : Nat) (hn64 : n ≤ 64) (hw : WF data) :
    deUint n data off = .ok (readNat n ((bitsOf data data.length).drop off)) := by
  rw [readNat_data]
  unfold deUint
  rw [Cpp.getU_spec (storW n) ⟨data, off⟩ n (GenC.storW_mod8 n) hw, Nat.min_eq_left (GenC.storW_ge n hn64)]
  rfl

theorem deSint_spec (n : Nat) (data : Buf) (off : Nat) (hn1 : 1 ≤ n) (hn64 : n ≤ 64) (hw : WF data) :
    deSint n data off = .ok (Dsdl.signExtend n (readNat n ((bitsOf data data.length).drop off))) := by
  rw [readNat_data]
  unfold deSint
  rw [Cpp.getI_spec (storW n) ⟨data, off⟩ n (GenC.storW_mod8 n) (GenC.storW_pos n) (GenC.storW_le n) hw]
  simp only [liftP, Nat.min_eq_left (GenC.storW_ge n hn64)]
  congr 1
  generalize hu : fieldOf (fun i => bitAt data (off + i)) n = u
  have hlt : u < 2 ^ n := by rw [← hu]; exact fieldOf_lt _ n
  rw [GenC.testBit_top hn1 hlt]
  simp only [Dsdl.signExtend]
  by_cases h : 2 ^ (n - 1) ≤ u
  · have : n > 0 := by omega
    simp only [this, h, decide_true, and_self, if_true]
    rw [if_neg (by omega)]
  · simp only [h, decide_false, Bool.false_eq_true, and_false, if_false]
    rw [if_pos (by omega)]

theorem deBool_spec (data : Buf) (off : Nat) (hw : WF data) :
    deBool data off = .ok (readNat 1 ((bitsOf data data.length).drop off) == 1) := by
  rw [readNat_data]
  unfold deBool Cpp.getBit
  rw [Cpp.getU_spec 8 ⟨data, off⟩ 1 (by decide) hw]
  rfl

theorem deFloat_spec (n : Nat) (data : Buf) (off : Nat) (hn : n = 16 ∨ n = 32 ∨ n = 64) (hw : WF data) :
    deFloat n data off = .ok (widen n (readNat n ((bitsOf data data.length).drop off))) := by
  rw [readNat_data]
  unfold deFloat
  rw [Cpp.getU_spec n ⟨data, off⟩ n (by omega) hw, Nat.min_self]
  rfl

end NunavutVerif.GenCpp
