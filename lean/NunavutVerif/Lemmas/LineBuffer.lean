import NunavutVerif.Model.LineBuffer
/-! Helper lemmas for C15 (line buffer). -/
namespace NunavutVerif.LineBuffer

theorem scan_cons_cons (buf : Str) (c d : Char) (rest : Str) :
    scan buf (c :: d :: rest) =
      if c = '\n' then (⟨buf, LF⟩ :: (scan [] (d :: rest)).1, (scan [] (d :: rest)).2)
      else if c = '\r' ∧ d = '\n' then (⟨buf, CRLF⟩ :: (scan [] rest).1, (scan [] rest).2)
      else scan (buf ++ [c]) (d :: rest) := by
  simp [scan]

theorem scan_append (buf p q : Str)
    (h : ¬ (p.getLast? = some '\r' ∧ q.head? = some '\n')) :
    scan buf (p ++ q) =
      ((scan buf p).1 ++ (scan (scan buf p).2 q).1, (scan (scan buf p).2 q).2) := by
  fun_induction scan buf p with
  | case1 buf => simp
  | case2 buf =>
    cases q with
    | nil => simp [scan]
    | cons d rest => simp [scan]
  | case3 buf c hc =>
    cases q with
    | nil => simp [scan, hc]
    | cons d rest =>
      simp only [List.singleton_append, List.getLast?_singleton, List.head?_cons,
        Option.some.injEq] at h ⊢
      simp [scan, hc, h]
  | case4 buf d rest r ih =>
    have h' : ¬((d :: rest).getLast? = some '\r' ∧ q.head? = some '\n') := by
      simpa [List.getLast?_cons_cons] using h
    have e := ih h'
    simp only [List.cons_append] at e ⊢
    rw [scan_cons_cons]
    simp [r, e]
  | case5 buf c d rest hc hcd r ih =>
    have h' : ¬(rest.getLast? = some '\r' ∧ q.head? = some '\n') := by
      cases rest with
      | nil => 
        obtain ⟨_, rfl⟩ := hcd
        simp
      | cons x xs => simpa [List.getLast?_cons_cons] using h
    have e := ih h'
    simp only [List.cons_append] at e ⊢
    rw [scan_cons_cons]
    simp [r, e, hcd]
  | case6 buf c d rest hc hcd ih =>
    have h' : ¬((d :: rest).getLast? = some '\r' ∧ q.head? = some '\n') := by
      simpa [List.getLast?_cons_cons] using h
    have e := ih h'
    simp only [List.cons_append] at e ⊢
    rw [scan_cons_cons]
    simp [e, hc, hcd]


/-! ### `chopCR` -/

def crIf (b : Bool) : Str := if b then ['\r'] else []

theorem chopCR_spec (p : Str) :
    p = (chopCR p).1 ++ crIf (chopCR p).2 ∧
    ((chopCR p).2 = false → (chopCR p).1.getLast? ≠ some '\r') := by
  fun_induction chopCR p with
  | case1 => simp [crIf]
  | case2 c rest h => obtain ⟨rfl, rfl⟩ := h; simp [crIf]
  | case3 c rest h r ih =>
    obtain ⟨ih1, ih2⟩ := ih
    refine ⟨by simp only [List.cons_append]; rw [← ih1], ?_⟩
    intro hb
    have ih2 := ih2 hb
    cases hr : r.1 with
    | nil =>
      -- then rest = crIf r.2 = [] so rest = [] and c ≠ '\r'
      have : rest = [] := by rw [ih1]; simp [r] at hr hb; simp [hr, hb, crIf]
      simp only [List.getLast?_singleton, ne_eq, Option.some.injEq]
      intro hc; exact h ⟨this, hc⟩
    | cons x xs =>
      simp only [List.getLast?_cons_cons]
      simpa [r, hr] using ih2

theorem scan_cr (buf : Str) (b : Bool) : scan buf (crIf b) = ([], buf ++ crIf b) := by
  cases b <;> simp [crIf, scan]

/-- What the remaining text `t` will produce from state `st`. -/
def cont (st : GenState) (t : Str) : List Line × Str := scan st.buf (crIf st.pend ++ t)

theorem procChunk_cont (st : GenState) (part t : Str) :
    cont st (part ++ t) =
      ((procChunk st part).1 ++ (cont (procChunk st part).2 t).1, (cont (procChunk st part).2 t).2) := by
  unfold cont procChunk
  have hp1 : crIf st.pend ++ part = (if st.pend then '\r' :: part else part) := by
    cases st.pend <;> simp [crIf]
  simp only
  rw [← List.append_assoc, hp1]
  generalize (if st.pend then '\r' :: part else part) = part1
  obtain ⟨e, hlast⟩ := chopCR_spec part1
  conv => lhs; rw [e, List.append_assoc]
  apply scan_append
  rintro ⟨h1, h2⟩
  cases hb : (chopCR part1).2 with
  | false => exact hlast hb h1
  | true => simp [hb, crIf] at h2

theorem procChunks_cont (st : GenState) (chunks : List Str) (t : Str) :
    cont st (chunks.flatten ++ t) =
      ((procChunks st chunks).1 ++ (cont (procChunks st chunks).2 t).1,
       (cont (procChunks st chunks).2 t).2) := by
  induction chunks generalizing st with
  | nil => simp [procChunks]
  | cons p ps ih =>
    simp only [List.flatten_cons, List.append_assoc, procChunks]
    rw [procChunk_cont, ih]

/-! ### `write` -/

theorem write_append (a b : List Line) : write (a ++ b) = write a ++ write b := by
  induction a with
  | nil => simp [write]
  | cons l ls ih => simp [write, ih, List.append_assoc]

theorem write_scan (buf t : Str) :
    write ((scan buf t).1 ++ flush (scan buf t).2) = buf ++ t := by
  fun_induction scan buf t with
  | case1 buf => by_cases h : buf = [] <;> simp [flush, write, h]
  | case2 buf => simp [flush, write, LF]
  | case3 buf c hc => simp [flush, write]
  | case4 buf d rest r ih => simp only [List.cons_append, write, r, ih]; simp [LF]
  | case5 buf c d rest hc hcd r ih =>
    obtain ⟨rfl, rfl⟩ := hcd
    simp only [List.cons_append, write, r, ih]; simp [CRLF]
  | case6 buf c d rest hc hcd ih => simp [ih]

/-! ### `trimStr` -/

theorem trimStr_spec (s : Str) :
    ∃ ws, trimStr s ++ ws = s ∧ (∀ c ∈ ws, isWs c = true) ∧
      (∀ c, (trimStr s).getLast? = some c → isWs c = false) := by
  induction s with
  | nil => exact ⟨[], by simp [trimStr]⟩
  | cons c rest ih =>
    obtain ⟨ws, h1, h2, h3⟩ := ih
    unfold trimStr
    by_cases h : trimStr rest = [] ∧ isWs c = true
    · refine ⟨c :: ws, ?_⟩
      simp only [h, and_self, if_true]
      obtain ⟨hr, hc⟩ := h
      rw [hr] at h1
      simp only [List.nil_append] at h1
      subst h1
      refine ⟨by simp, ?_, by simp⟩
      intro x hx
      rcases List.mem_cons.mp hx with rfl | hx
      · exact hc
      · exact h2 x hx
    · refine ⟨ws, ?_⟩
      simp only [h, if_false]
      refine ⟨by simp [h1], h2, ?_⟩
      intro x hx
      cases hr : trimStr rest with
      | nil =>
        rw [hr] at hx
        simp only [List.getLast?_singleton, Option.some.injEq] at hx
        subst hx
        have : ¬ isWs c = true := fun hc => h ⟨hr, hc⟩
        simpa using this
      | cons y ys =>
        rw [hr, List.getLast?_cons_cons] at hx
        exact h3 x (by rw [hr]; exact hx)

/-! ### `limitLines` one-step lemmas -/

theorem limitLines_cons_nonempty (n cnt : Nat) (l : Line) (ls : List Line) (h : l.content ≠ []) :
    limitLines n cnt (l :: ls) = l :: limitLines n 0 ls := by
  simp [limitLines, limitStep, h]

theorem limitLines_cons_keep (n cnt : Nat) (l : Line) (ls : List Line) (h : l.content = [])
    (hc : cnt + 1 ≤ n) : limitLines n cnt (l :: ls) = l :: limitLines n (cnt + 1) ls := by
  have : ¬ n < cnt + 1 := by omega
  simp [limitLines, limitStep, h, this]

theorem limitLines_cons_drop (n cnt : Nat) (l : Line) (ls : List Line) (h : l.content = [])
    (hc : n < cnt + 1) : limitLines n cnt (l :: ls) = ⟨[], []⟩ :: limitLines n (cnt + 1) ls := by
  simp [limitLines, limitStep, h, hc]

theorem emptyRunsLe_mono (n : Nat) (ls : List Line) (a b : Nat) (hab : a ≤ b)
    (h : emptyRunsLe n b ls = true) : emptyRunsLe n a ls = true := by
  induction ls generalizing a b with
  | nil => rfl
  | cons l ls ih =>
    unfold emptyRunsLe at h ⊢
    by_cases he : l.content = []
    · simp only [he, if_true, Bool.and_eq_true, decide_eq_true_eq] at h ⊢
      exact ⟨by omega, ih (a + 1) (b + 1) (by omega) h.2⟩
    · simpa [he] using h

/-! ### State threading -/

theorem pipeLine_length (pps : List PP) (ss : List Nat) (l : Line) :
    (pipeLine pps ss l).2.length = ss.length := by
  induction pps generalizing ss l with
  | nil => simp [pipeLine]
  | cons p ps ih =>
    cases ss with
    | nil => simp [pipeLine]
    | cons s ss => simp [pipeLine, ih]

theorem pipeLinesSt_fst (pps : List PP) (ss : List Nat) (ls : List Line) :
    (pipeLinesSt pps ss ls).1 = pipeLines pps ss ls := by
  induction ls generalizing ss with
  | nil => rfl
  | cons l ls ih => simp [pipeLinesSt, pipeLines, ih]

theorem pipeLinesSt_length (pps : List PP) (ss : List Nat) (ls : List Line) :
    (pipeLinesSt pps ss ls).2.length = ss.length := by
  induction ls generalizing ss with
  | nil => rfl
  | cons l ls ih => simp [pipeLinesSt, ih, pipeLine_length]

theorem resetAll_eq (ss : List Nat) (n : Nat) (h : ss.length = n) :
    resetAll ss = List.replicate n 0 := by
  subst h
  induction ss with
  | nil => rfl
  | cons s ss ih => simp [resetAll, List.replicate_succ] at ih ⊢; exact ih

end NunavutVerif.LineBuffer
