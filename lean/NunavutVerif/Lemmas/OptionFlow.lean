import NunavutVerif.Model.OptionFlow
import NunavutVerif.Lemmas.Options
/-!
Helper lemmas for the round-2 part of C17: the emitted comparison expression (`Model/OptionExpr.lean`), the meaning of
the generated emission table (`Model/OptionEmit.lean`), and the flow of requested option values through a history of
API calls in one process (`Model/OptionFlow.lean`).
-/
namespace NunavutVerif.Options

/-! ## the comparison expression -/

theorem numeral_of_lt {v : Int} (h : v.natAbs < 9223372036854775808) :
    numeral v = some ⟨if v.natAbs < 2147483648 then .int else .long, v⟩ := by
  unfold numeral litTy
  by_cases h1 : v.natAbs < 2147483648
  · simp [h1]
  · simp [h1, h]

theorem evalAssert_eq_cmp (lang : Lang) (d v : Int) (hd : d.natAbs < 9223372036854775808)
    (hv : v.natAbs < 9223372036854775808) :
    evalAssert (defFormOf lang) .eq d v = some (cmp lang d v) := by
  cases lang
  · simp only [evalAssert, defFormOf, operand, numeral_of_lt hd, numeral_of_lt hv, cmp, stored, eqExpr]
    by_cases h1 : d.natAbs < 2147483648 <;> by_cases h2 : v.natAbs < 2147483648 <;> simp [h1, h2, usual, convert]
  · simp only [evalAssert, defFormOf, operand, numeral_of_lt hd, numeral_of_lt hv, cmp, stored, eqExpr, Option.map]
    by_cases h2 : v.natAbs < 2147483648
    · have : -2147483648 < v ∧ v < 2147483648 := by omega
      simp [h2, usual, convert, this]
    · have : ¬ (-2147483648 < v ∧ v < 2147483648) := by omega
      simp [h2, usual, convert, this]

theorem int_beq_decide (a b : Int) : (a == b) = decide (a = b) := by
  by_cases h : a = b <;> simp [h]

theorem cmp_eq_decide (lang : Lang) {a b : Int} (ha : 0 ≤ a ∧ a < 4294967296) (hb : 0 ≤ b ∧ b < 4294967296) :
    cmp lang a b = decide (a = b) := by
  have := cmp_iff_eq lang ha hb
  by_cases h : a = b
  · subst h
    simp [this.mpr rfl]
  · cases hc : cmp lang a b with
    | true => exact absurd (this.mp hc) h
    | false => simp [h]

theorem cmp_cpp_mod (d v : Int) (hv : -2147483648 < v ∧ v < 4294967296) :
    cmp .cpp d v = decide (d % 4294967296 = v % 4294967296) := by
  unfold cmp stored
  by_cases h : -2147483648 < v ∧ v < 2147483648
  · simp [h, int_beq_decide]
  · have h1 : v % 4294967296 = v := Int.emod_eq_of_lt (by omega) hv.2
    simp [h, h1, int_beq_decide]

/-- What the hand-written model says a header of kind `(lang, side)` carries. -/
def modelRender (nf : NameFilters) (lang : Lang) (side : Side) (om : Bool) (o : OptSet) : Option (List (String × Int)) :=
  match side with
  | .support => render (canonicalName nf lang) o
  | .type => if om then some [] else render (canonicalName nf lang) o

/-- one site of the expected shape renders like the model -/
theorem siteRender_expected (nf : NameFilters) (lang : Lang) (side : Side) (s : EmitSite)
    (h : expectedSite lang side s = true) (om : Bool) (o : OptSet) :
    siteRender nf s om o = some (modelRender nf lang side om o) := by
  unfold modelRender
  simp only [expectedSite, Bool.and_eq_true, decide_eq_true_eq] at h
  obtain ⟨⟨⟨⟨⟨⟨⟨hl, hs⟩, hlo⟩, hlv⟩, hg⟩, hn⟩, hv⟩, hf⟩ := h
  unfold siteRender
  simp only [hlo, hlv, and_self, if_true, hv]
  cases side <;> cases lang <;> simp at hg hn <;> simp [hg, hn, guardsHold, Guard.holds, NameExpr.apply, canonicalName]
    <;> cases om <;> simp

theorem renderAll_single (nf : NameFilters) (s : EmitSite) (om : Bool) (o : OptSet) {x : Option (List (String × Int))}
    (h : siteRender nf s om o = some x) : renderAll nf om o [s] = some x := by
  cases x <;> simp [renderAll, h]

/-- The meaning of a table that passes the shape check is the hand-written model. -/
theorem tableRender_of_ok {tbl : List EmitSite} (h : tableOK tbl = true) (nf : NameFilters) (lang : Lang) (side : Side)
    (om : Bool) (o : OptSet) :
    tableRender tbl nf lang side om o = some (modelRender nf lang side om o) := by
  have key : (match sitesOf tbl lang side with
      | [s] => expectedSite lang side s
      | _ => false) = true := by
    simp only [tableOK, List.all_cons, List.all_nil, Bool.and_true, Bool.and_eq_true] at h
    obtain ⟨⟨h1, h2⟩, h3, h4⟩ := h
    cases lang <;> cases side <;> assumption
  unfold tableRender
  split at key
  · rename_i s hs
    rw [hs]
    exact renderAll_single nf s om o (siteRender_expected nf lang side s key om o)
  · simp at key

theorem render_keys (name : String → String) : ∀ (o : OptSet) (l : List (String × Int)),
    render name o = some l → l.map Prod.fst = (keys o).map name := by
  intro o
  induction o with
  | nil => intro l h; simp [render] at h; subst h; rfl
  | cons kv r ih =>
    intro l h
    obtain ⟨k, v⟩ := kv
    simp only [render] at h
    cases he : enc v with
    | none => simp [he] at h
    | some n =>
      cases hr : render name r with
      | none => simp [he, hr] at h
      | some rest =>
        simp [he, hr] at h
        subst h
        simp [keys, ih rest hr] 
        

/-! ## the process -/

def effOpt (lang : Lang) (file : LangConfig) (req : OptSet) : Option OptSet :=
  match effective lang file req with
  | .ok o => some o
  | .error _ => none

/-- A fresh builder's `create()` hands the language exactly `effective` of the request. -/
theorem create_fresh (lang : Lang) (file : LangConfig) (req : OptSet) :
    (((Builder.fresh file).setOverride req).create lang).2 = effective lang file req := by
  simp only [Builder.create, Builder.fresh, Builder.setOverride, effective]
  rcases validate lang file.presets (update file.options req) with ⟨o, _ | e⟩ <;> rfl

/-- The process invariant: a live generator object holds the effective set of the request it was created from. -/
def Inv (lang : Lang) (file : LangConfig) (past : List Call) (p : Proc) : Prop :=
  ∀ id, (p.lookup id).map (·.options) = (requestOf lang file id past).bind (effOpt lang file)

theorem pass_eq_specRun (lang : Lang) (file : LangConfig) (E : Emitter) (g : GenObj) (req : OptSet) (om : Bool)
    (h : effective lang file req = .ok g.options) : (g.pass E om).2 = specRun lang file E req om := by
  simp [GenObj.pass, specRun, h]

theorem requestOf_effective (lang : Lang) (file : LangConfig) (id : String) : ∀ (past : List Call) (req : OptSet),
    requestOf lang file id past = some req → ∃ o, effective lang file req = .ok o := by
  intro past
  induction past with
  | nil => intro req h; simp [requestOf] at h
  | cons c past ih =>
    intro req h
    cases c with
    | generateTypes r om => exact ih req (by simpa [requestOf] using h)
    | pass g om => exact ih req (by simpa [requestOf] using h)
    | newGenerators g r =>
      simp only [requestOf] at h
      by_cases hg : g = id
      · simp only [hg, if_true] at h
        cases he : effective lang file r with
        | ok o =>
          simp only [he] at h
          cases h
          exact ⟨o, he⟩
        | error e =>
          simp only [he] at h
          exact ih req h
      · simp only [hg, if_false] at h
        exact ih req h

theorem step_spec (lang : Lang) (file : LangConfig) (E : Emitter) (past : List Call) (p : Proc) (c : Call)
    (hinv : Inv lang file past p) :
    (step lang file E p c).2 = specCall lang file E past c ∧ Inv lang file (c :: past) (step lang file E p c).1 := by
  cases c with
  | generateTypes req om =>
    have hc := create_fresh lang file req
    constructor
    · simp only [step, specCall]
      cases he : effective lang file req with
      | error e =>
        rw [he] at hc
        rcases hcr : ((Builder.fresh file).setOverride req).create lang with ⟨b, r⟩
        rw [hcr] at hc; simp at hc; subst hc
        simp [specRun, he]
      | ok o =>
        rw [he] at hc
        rcases hcr : ((Builder.fresh file).setOverride req).create lang with ⟨b, r⟩
        rw [hcr] at hc; simp at hc; subst hc
        exact pass_eq_specRun lang file E ⟨o, false⟩ req om he
    · intro id
      have : (step lang file E p (.generateTypes req om)).1 = p := by
        simp only [step]
        rcases ((Builder.fresh file).setOverride req).create lang with ⟨b, _ | _⟩ <;> rfl
      rw [this]
      simpa [requestOf] using hinv id
  | newGenerators gid req =>
    have hc := create_fresh lang file req
    rcases hcr : ((Builder.fresh file).setOverride req).create lang with ⟨b, r⟩
    rw [hcr] at hc; simp at hc; subst hc
    cases he : effective lang file req with
    | error e =>
      constructor
      · simp [step, specCall, hcr, he]
      · intro id
        simp only [step, hcr, he, requestOf]
        by_cases hid : gid = id
        · simp [hid, hinv id]
        · simp [hid, hinv id]
    | ok o =>
      constructor
      · simp [step, specCall, hcr, he]
      · intro id
        simp only [step, hcr, he, requestOf]
        by_cases hid : gid = id
        · subst hid
          simp [effOpt, he]
        · have : (id == gid) = false := by simp [Ne.symm hid]
          simp [List.lookup_cons, this, hid, hinv id]
  | pass gid om =>
    cases hl : p.lookup gid with
    | none =>
      have h0 := hinv gid
      rw [hl] at h0
      constructor
      · simp only [step, hl, specCall]
        cases hr : requestOf lang file gid past with
        | none => rfl
        | some req =>
          rw [hr] at h0
          obtain ⟨o, ho⟩ := requestOf_effective lang file gid past req hr
          simp [effOpt, ho] at h0
      · intro id; simpa [step, hl, requestOf] using hinv id
    | some g =>
      have h0 := hinv gid
      rw [hl] at h0
      cases hr : requestOf lang file gid past with
      | none => rw [hr] at h0; simp at h0
      | some req =>
        rw [hr] at h0
        obtain ⟨o, ho⟩ := requestOf_effective lang file gid past req hr
        have hgo : o = g.options := by simpa [effOpt, ho] using h0.symm
        subst hgo
        constructor
        · simp only [step, hl, specCall, hr]
          exact pass_eq_specRun lang file E g req om ho
        · intro id
          simp only [step, hl, requestOf]
          by_cases hid : id = gid
          · subst hid
            simp [GenObj.pass, hr, effOpt, ho]
          · have : (id == gid) = false := by simp [hid]
            simp [List.lookup_cons, this, hinv id]

/-! ## histories -/

theorem inv_nil (lang : Lang) (file : LangConfig) : Inv lang file [] [] := by
  intro id; simp [requestOf]

theorem runHistory_eq_spec (lang : Lang) (file : LangConfig) (E : Emitter) : ∀ (cs past : List Call) (p : Proc),
    Inv lang file past p → runHistory lang file E p cs = specHistory lang file E past cs := by
  intro cs
  induction cs with
  | nil => intro past p _; rfl
  | cons c cs ih =>
    intro past p hinv
    obtain ⟨h1, h2⟩ := step_spec lang file E past p c hinv
    simp only [runHistory, specHistory, h1]
    rw [ih (c :: past) _ h2]

/-- Every (call, result) pair of a specified history: the result is `specCall` of that call for *some* past — in
particular, for a `generate_types` call, `specRun` of its own request. -/
theorem specHistory_zip (lang : Lang) (file : LangConfig) (E : Emitter) : ∀ (cs past : List Call) (c : Call) (r : RunResult),
    (c, r) ∈ cs.zip (specHistory lang file E past cs) → ∃ past', r = specCall lang file E past' c := by
  intro cs
  induction cs with
  | nil => intro past c r h; simp at h
  | cons c0 cs ih =>
    intro past c r h
    simp only [specHistory, List.zip_cons_cons, List.mem_cons] at h
    rcases h with h | h
    · cases h
      exact ⟨past, rfl⟩
    · exact ih (c0 :: past) c r h

/-! ## delivery -/

theorem lookup_setKey (o : OptSet) (k : String) (v : OptVal) (k' : String) :
    (setKey o k v).lookup k' = if k' = k then some v else o.lookup k' := by
  induction o with
  | nil => simp [setKey, List.lookup_cons]; split <;> simp_all
  | cons kv r ih =>
    obtain ⟨a, b⟩ := kv
    simp only [setKey]
    by_cases h : a = k
    · subst h
      by_cases h2 : k' = a
      · simp [h2]
      · have hb : (k' == a) = false := by simp [h2]
        simp [List.lookup_cons, h2, hb]
    · simp only [h, if_false, List.lookup_cons]
      by_cases h2 : k' = a
      · subst h2; simp [h]
      · have hb : (k' == a) = false := by simp [h2]
        simp [hb, ih]

theorem lookup_update (u : OptSet) : ∀ (d : OptSet) (k : String),
    (update d u).lookup k = match lastVal u k with
      | some v => some v
      | none => d.lookup k := by
  induction u with
  | nil => intro d k; simp [update, lastVal]
  | cons kv r ih =>
    intro d k
    obtain ⟨a, b⟩ := kv
    have hu : update d ((a, b) :: r) = update (setKey d a b) r := by simp [update]
    rw [hu, ih]
    simp only [lastVal, List.reverse_cons, List.lookup_append]
    cases hr : r.reverse.lookup k with
    | some v => simp
    | none =>
      simp only [Option.none_or, lookup_setKey, List.lookup_cons, List.lookup_nil]
      by_cases h : k = a
      · simp [h]
      · have hb : (k == a) = false := by simp [h]
        simp [h, hb]

theorem lookup_files (k : String) : ∀ (files : List OptSet) (base : OptSet),
    (files.foldl update base).lookup k = match files.reverse.findSome? (fun f => lastVal f k) with
      | some v => some v
      | none => base.lookup k := by
  intro files
  induction files with
  | nil => intro base; simp
  | cons f r ih =>
    intro base
    simp only [List.foldl_cons, ih, List.reverse_cons, List.findSome?_append]
    cases hr : r.reverse.findSome? (fun f => lastVal f k) with
    | some v => simp
    | none =>
      simp only [Option.none_or, List.findSome?_cons, List.findSome?_nil, lookup_update]
      cases lastVal f k <;> simp

theorem pending_foldl : ∀ (ovs : List OptSet) (b : Builder),
    (ovs.foldl Builder.setOverride b).pending = ovs.getLast?.getD b.pending ∧
    (ovs.foldl Builder.setOverride b).config = b.config := by
  intro ovs
  induction ovs with
  | nil => intro b; simp
  | cons o r ih =>
    intro b
    obtain ⟨h1, h2⟩ := ih (b.setOverride o)
    rw [List.foldl_cons]
    refine ⟨?_, by rw [h2]; rfl⟩
    rw [h1]
    cases r with
    | nil => simp [Builder.setOverride]
    | cons x xs =>
      cases h : (x :: xs).getLast? with
      | none => simp at h
      | some v => simp [List.getLast?_cons_cons, h]

theorem create_snd (lang : Lang) (b : Builder) :
    (b.create lang).2 = match validate lang b.config.presets (update b.config.options b.pending) with
      | (o, none) => .ok o
      | (_, some e) => .error e := by
  simp only [Builder.create]
  rcases validate lang b.config.presets (update b.config.options b.pending) with ⟨o, _ | e⟩ <;> rfl

theorem deliver_create (lang : Lang) (file : LangConfig) (d : Delivery) :
    (((Builder.fresh file).deliver d).create lang).2 = effectiveDelivered lang file d := by
  obtain ⟨h1, h2⟩ := pending_foldl d.overrides ((Builder.fresh file).addConfigFiles d.files)
  rw [create_snd]
  unfold Builder.deliver
  rw [h1, h2]
  rfl

end NunavutVerif.Options
