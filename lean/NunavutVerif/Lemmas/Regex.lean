import NunavutVerif.Model.Regex
/-!
Helper lemmas about the regex engine of `Model/Regex.lean` (C09).
-/
namespace NunavutVerif.Regex

end NunavutVerif.Regex
