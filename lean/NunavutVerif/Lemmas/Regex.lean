import NunavutVerif.Model.Regex
/-!
Helper lemmas about the regex engine of `Model/Regex.lean` (C09): what `sub` can and cannot do to a string,
the two pattern shapes the shipped encoding rules rely on (`[K]+` and `^[K]{1}`), fuel.
-/
namespace NunavutVerif.Regex

/-! ### `sub`, any pattern -/

/-- `sub` only copies characters of the subject and inserts replacement strings. -/
theorem subGo_all (P : Nat → Prop) (n : Nat) (re : Re) (f : Str → Str)
    (hf : ∀ m, ∀ c ∈ f m, P c) (s : Str) (k : Nat) (hs : ∀ c ∈ s, P c) :
    ∀ c ∈ subGo n re f s k, P c := by
  fun_induction subGo n re f s k <;> simp_all [List.mem_append] <;> grind

theorem sub_all (P : Nat → Prop) (re : Re) (f : Str → Str)
    (hf : ∀ m, ∀ c ∈ f m, P c) (s : Str) (hs : ∀ c ∈ s, P c) : ∀ c ∈ sub re f s, P c :=
  subGo_all P _ re f hf s 0 hs

theorem take_ne_nil {α} (l : List α) (k : Nat) (hk : 0 < k) (hl : l ≠ []) : l.take k ≠ [] := by
  cases l with
  | nil => exact absurd rfl hl
  | cons a t => cases k with
    | zero => omega
    | succ k => simp

/-- `sub` of a non-empty subject is non-empty when non-empty matches have non-empty replacements. -/
theorem subGo_ne_nil (n : Nat) (re : Re) (f : Str → Str)
    (hf : ∀ m, m ≠ [] → f m ≠ []) (c : Nat) (t : Str) :
    subGo n re f (c :: t) 0 ≠ [] := by
  unfold subGo
  simp only
  split
  · simp
  · rename_i r rest hrs
    split
    · rename_i hlt
      have : (c :: t).take ((c :: t).length - r.length) ≠ [] := take_ne_nil _ _ (by omega) (by simp)
      have := hf _ this
      simp_all
    · split
      · simp
      · rename_i r2 hfind
        have hlt := List.find?_some hfind
        simp only [decide_eq_true_eq] at hlt
        have : (c :: t).take ((c :: t).length - r2.length) ≠ [] := take_ne_nil _ _ (by omega) (by simp)
        have := hf _ this
        simp_all

theorem sub_ne_nil (re : Re) (f : Str → Str) (hf : ∀ m, m ≠ [] → f m ≠ []) (s : Str) (hs : s ≠ []) :
    sub re f s ≠ [] := by
  cases s with
  | nil => exact absurd rfl hs
  | cons c t => exact subGo_ne_nil _ re f hf c t

/-- Nothing to replace: `sub` is the identity. -/
theorem subGo_id_of_matchesNowhere (n : Nat) (re : Re) (f : Str → Str) (s : Str)
    (h : matchesNowhere n re s = true) : subGo n re f s 0 = s := by
  induction s with
  | nil => simp [matchesNowhere] at h; simp [subGo, h]
  | cons c t ih =>
    simp only [matchesNowhere, Bool.and_eq_true, List.isEmpty_iff] at h
    unfold subGo
    simp [h.1, ih h.2]

theorem sub_id_of_matchesNowhere (re : Re) (f : Str → Str) (s : Str)
    (h : matchesNowhere s.length re s = true) : sub re f s = s :=
  subGo_id_of_matchesNowhere _ re f s h

theorem matchesStart_of_matchesNowhere (re : Re) (s : Str)
    (h : matchesNowhere s.length re s = true) : matchesStart re s = false := by
  unfold matchesStart
  cases s with
  | nil => simp [matchesNowhere] at h; simp [h]
  | cons c t => simp only [matchesNowhere, Bool.and_eq_true] at h; rw [h.1]; rfl

/-! ### the shape `[K]+` -/

theorem matchR_rep (n mn : Nat) (mo : Option Nat) (r : Re) (s : Str) :
    matchR n (.rep mn mo r) s = repAux (fun s' => matchR n r s') (mn + s.length + 1) mn mo s := by
  rw [matchR]

/-- all stopping points of a greedy run of `K`-characters, longest first -/
def stops (K : Cls) : Str → List Str
  | [] => [[]]
  | c :: t => if K.mem c then stops K t ++ [c :: t] else [c :: t]

theorem stops_ne_nil (K : Cls) (s : Str) : stops K s ≠ [] := by
  cases s with
  | nil => simp [stops]
  | cons c t => simp only [stops]; split <;> simp

theorem stops_length (K : Cls) (s : Str) : ∀ r ∈ stops K s, r.length ≤ s.length := by
  induction s with
  | nil => simp [stops]
  | cons c t ih =>
    simp only [stops]
    split
    · intro r hr
      simp only [List.mem_append, List.mem_singleton] at hr
      rcases hr with hr | hr
      · have := ih r hr; simp; omega
      · subst hr; simp
    · simp

def clsStep (K : Cls) : Str → List Str
  | [] => []
  | c :: t => if K.mem c then [t] else []

theorem matchR_chr_eq (n : Nat) (K : Cls) : (fun s' => matchR n (.chr K) s') = clsStep K := by
  funext s'; cases s' <;> simp [matchR, clsStep]

theorem repAux_cls_opt (K : Cls) (fuel : Nat) (s : Str) (h : s.length < fuel) :
    repAux (clsStep K) fuel 0 none s = stops K s := by
  induction fuel generalizing s with
  | zero => omega
  | succ fuel ih =>
    cases s with
    | nil => simp [repAux, clsStep, stops]
    | cons c t =>
      simp only [List.length_cons] at h
      have iht := ih t (by omega)
      cases hc : K.mem c <;> simp [repAux, clsStep, stops, hc, iht]

/-- `[K]+` at a position: nothing unless the first character is in `K`, else the greedy run. -/
theorem matchR_plusCls (n : Nat) (K : Cls) (s : Str) :
    matchR n (.rep 1 none (.chr K)) s =
      match s with
      | [] => []
      | c :: t => if K.mem c then stops K t else [] := by
  rw [matchR_rep, matchR_chr_eq]
  cases s with
  | nil => simp [repAux, clsStep]
  | cons c t =>
    have e : 1 + (c :: t).length + 1 = (t.length + 2) + 1 := by simp only [List.length_cons]; omega
    rw [e, repAux]
    have := repAux_cls_opt K (t.length + 2) t (by omega)
    cases hc : K.mem c <;> simp [clsStep, hc, this]

/-- After `sub([K]+, f)` every character is a non-`K` character of the subject or comes from `f`. -/
theorem subGo_plusCls_all (P : Nat → Prop) (n : Nat) (K : Cls) (f : Str → Str)
    (hf : ∀ m, ∀ c ∈ f m, P c) (hK : ∀ c, K.mem c = false → P c) (s : Str) (k : Nat) :
    ∀ c ∈ subGo n (.rep 1 none (.chr K)) f s k, P c := by
  induction s generalizing k with
  | nil => simp [subGo, matchR_plusCls]
  | cons c t ih =>
    cases k with
    | succ k => simpa [subGo] using ih k
    | zero =>
      unfold subGo
      simp only [matchR_plusCls]
      cases hc : K.mem c with
      | false =>
        simp only [Bool.false_eq_true, if_false]
        intro x hx
        simp only [List.mem_cons] at hx
        rcases hx with rfl | hx
        · exact hK _ hc
        · exact ih 0 x hx
      | true =>
        simp only [if_true]
        split
        · rename_i heq; exact absurd heq (stops_ne_nil K t)
        · rename_i r rest heq
          have hr : r.length ≤ t.length := stops_length K t r (by rw [heq]; simp)
          have hlt : r.length < (c :: t).length := by simp; omega
          simp only [hlt, if_true]
          intro x hx
          simp only [List.mem_append] at hx
          rcases hx with hx | hx
          · exact hf _ x hx
          · exact ih _ x hx

theorem sub_plusCls_all (P : Nat → Prop) (K : Cls) (f : Str → Str)
    (hf : ∀ m, ∀ c ∈ f m, P c) (hK : ∀ c, K.mem c = false → P c) (s : Str) :
    ∀ c ∈ sub (.rep 1 none (.chr K)) f s, P c :=
  subGo_plusCls_all P _ K f hf hK s 0

/-! ### the shape `^[K]{1}` -/

theorem matchR_bol_cls1 (K : Cls) (c : Nat) (t : Str) :
    matchR (c :: t).length (.seq .bol (.rep 1 (some 0) (.chr K))) (c :: t) = if K.mem c then [t] else [] := by
  have e : 1 + (c :: t).length + 1 = (t.length + 2) + 1 := by simp only [List.length_cons]; omega
  rw [matchR, matchR]
  simp only [if_true, List.flatMap_cons, List.flatMap_nil, List.append_nil]
  rw [matchR_rep, e, repAux]
  rw [matchR]
  cases hc : K.mem c <;> simp [repAux]

theorem matchesStart_bol_cls1 (K : Cls) (c : Nat) (t : Str) :
    matchesStart (.seq .bol (.rep 1 (some 0) (.chr K))) (c :: t) = K.mem c := by
  unfold matchesStart
  rw [matchR_bol_cls1]
  cases K.mem c <;> simp

/-! ### first-character analysis -/

/-- on a subject starting with `c`, every match of the pattern is empty (or there is none) -/
def eo (c : Nat) : Re → Bool
  | .eps | .bol | .eol | .eos => true
  | .chr k => !k.mem c
  | .seq a b => eo c a && eo c b
  | .alt a b => eo c a && eo c b
  | .rep _ _ r => eo c r

/-- on a subject starting with `c` the pattern cannot match (a sufficient syntactic condition) -/
def rej (c : Nat) : Re → Bool
  | .eps | .bol | .eol | .eos => false
  | .chr k => !k.mem c
  | .seq a b => rej c a || (eo c a && rej c b)
  | .alt a b => rej c a && rej c b
  | .rep min _ r => decide (0 < min) && rej c r

theorem repAux_eo (step : Str → List Str) (s : Str) (h : ∀ x ∈ step s, x = s) (fuel min : Nat) (more : Option Nat) :
    ∀ x ∈ repAux step fuel min more s, x = s := by
  induction fuel generalizing min more with
  | zero => simp [repAux]
  | succ fuel ih =>
    cases min with
    | succ min =>
      simp only [repAux, List.mem_flatMap]
      rintro x ⟨y, hy, hx⟩
      rw [h y hy] at hx
      exact ih _ _ x hx
    | zero =>
      simp only [repAux, List.mem_append, List.mem_singleton]
      rintro x (hx | hx)
      · split at hx
        · cases hx
        · simp only [List.mem_flatMap] at hx
          obtain ⟨y, hy, hx⟩ := hx
          rw [h y hy] at hx
          simpa using hx
      · exact hx

theorem eo_sound (c : Nat) (re : Re) (h : eo c re = true) (n : Nat) (t : Str) :
    ∀ x ∈ matchR n re (c :: t), x = c :: t := by
  induction re with
  | eps => simp [matchR]
  | chr k => simp only [eo, Bool.not_eq_true'] at h; simp [matchR, h]
  | bol => simp only [matchR]; split <;> simp
  | eol => simp only [matchR]; split <;> simp
  | eos => simp [matchR]
  | seq a b iha ihb =>
    simp only [eo, Bool.and_eq_true] at h
    simp only [matchR, List.mem_flatMap]
    rintro x ⟨y, hy, hx⟩
    rw [iha h.1 y hy] at hx
    exact ihb h.2 x hx
  | alt a b iha ihb =>
    simp only [eo, Bool.and_eq_true] at h
    simp only [matchR, List.mem_append]
    rintro x (hx | hx)
    · exact iha h.1 x hx
    · exact ihb h.2 x hx
  | rep mn mo r ih =>
    simp only [eo] at h
    rw [matchR_rep]
    exact repAux_eo _ _ (ih h) _ _ _

theorem rej_sound (c : Nat) (re : Re) (h : rej c re = true) (n : Nat) (t : Str) :
    matchR n re (c :: t) = [] := by
  induction re with
  | eps | bol | eol | eos => simp [rej] at h
  | chr k => simp only [rej, Bool.not_eq_true'] at h; simp [matchR, h]
  | seq a b iha ihb =>
    simp only [rej, Bool.or_eq_true, Bool.and_eq_true] at h
    simp only [matchR]
    rcases h with h | ⟨h1, h2⟩
    · simp [iha h]
    · rw [List.flatMap_eq_nil_iff]
      intro y hy
      rw [eo_sound c a h1 n t y hy]
      exact ihb h2
  | alt a b iha ihb =>
    simp only [rej, Bool.and_eq_true] at h
    simp [matchR, iha h.1, ihb h.2]
  | rep mn mo r ih =>
    simp only [rej, Bool.and_eq_true, decide_eq_true_eq] at h
    rw [matchR_rep]
    obtain ⟨k, rfl⟩ : ∃ k, mn = k + 1 := ⟨mn - 1, by omega⟩
    have e : k + 1 + (c :: t).length + 1 = (k + (c :: t).length + 1) + 1 := by omega
    rw [e, repAux, ih h.2]
    simp

/-! ### two-character shapes, classes inside `_A-Z` -/

theorem matchR_2cls_rej (n : Nat) (A B : Cls) (a b : Nat) (t : Str) (h : B.mem b = false) :
    matchR n (.seq (.chr A) (.chr B)) (a :: b :: t) = [] := by
  simp only [matchR]
  cases A.mem a <;> simp [h]

theorem matchR_2cls_short (n : Nat) (A B : Cls) (a : Nat) :
    matchR n (.seq (.chr A) (.chr B)) [a] = [] := by
  simp only [matchR]
  cases A.mem a <;> simp

theorem matchR_rep2_rej (n : Nat) (A : Cls) (mo : Option Nat) (a b : Nat) (t : Str) (h : A.mem b = false) :
    matchR n (.rep 2 mo (.chr A)) (a :: b :: t) = [] := by
  rw [matchR_rep, matchR_chr_eq]
  have e : 2 + (a :: b :: t).length + 1 = (t.length + 3) + 1 + 1 := by simp only [List.length_cons]; omega
  rw [e, repAux]
  cases A.mem a <;> simp [clsStep, repAux, h]

theorem matchR_rep2_short (n : Nat) (A : Cls) (mo : Option Nat) (a : Nat) :
    matchR n (.rep 2 mo (.chr A)) [a] = [] := by
  rw [matchR_rep, matchR_chr_eq]
  have e : 2 + [a].length + 1 = 2 + 1 + 1 := by simp
  rw [e, repAux]
  cases A.mem a <;> simp [clsStep, repAux]


/-- every member of the class is `_` or an upper-case ASCII letter (syntactic) -/
def clsSubUU (K : Cls) : Bool :=
  !K.neg && K.ranges.all (fun p => (decide (65 ≤ p.1) && decide (p.2 ≤ 90)) || (p.1 == 95 && p.2 == 95))

theorem clsSubUU_sound (K : Cls) (h : clsSubUU K = true) (c : Nat) (hc : K.mem c = true) :
    c = 95 ∨ (65 ≤ c ∧ c ≤ 90) := by
  obtain ⟨neg, ranges⟩ := K
  simp only [clsSubUU, Bool.and_eq_true, Bool.not_eq_true', List.all_eq_true] at h
  obtain ⟨hn, hr⟩ := h
  subst hn
  simp only [Cls.mem, Bool.false_bne] at hc
  induction ranges with
  | nil => simp [inRanges] at hc
  | cons p rest ih =>
    obtain ⟨lo, hi⟩ := p
    simp only [inRanges, Bool.or_eq_true, Bool.and_eq_true, decide_eq_true_eq] at hc
    rcases hc with ⟨h1, h2⟩ | hc
    · have := hr (lo, hi) (by simp)
      simp only [Bool.or_eq_true, Bool.and_eq_true, decide_eq_true_eq, beq_iff_eq] at this
      omega
    · exact ih (fun q hq => hr q (by simp [hq])) hc

/-! ### fuel -/

theorem flatMap_congr' {α β} (l : List α) (f g : α → List β) (h : ∀ x ∈ l, f x = g x) : l.flatMap f = l.flatMap g := by
  induction l with
  | nil => rfl
  | cons a t ih => simp [List.flatMap_cons, h a (by simp), ih (fun x hx => h x (by simp [hx]))]

theorem repAux_length (step : Str → List Str) (hstep : ∀ s, ∀ x ∈ step s, x.length ≤ s.length)
    (fuel min : Nat) (more : Option Nat) (s : Str) : ∀ x ∈ repAux step fuel min more s, x.length ≤ s.length := by
  induction fuel generalizing min more s with
  | zero => simp [repAux]
  | succ fuel ih =>
    cases min with
    | succ min =>
      simp only [repAux, List.mem_flatMap]
      rintro x ⟨y, hy, hx⟩
      exact Nat.le_trans (ih _ _ _ x hx) (hstep s y hy)
    | zero =>
      simp only [repAux, List.mem_append, List.mem_singleton]
      rintro x (hx | rfl)
      · split at hx
        · cases hx
        · simp only [List.mem_flatMap] at hx
          obtain ⟨y, hy, hx⟩ := hx
          split at hx
          · exact Nat.le_trans (ih _ _ _ x hx) (hstep s y hy)
          · simp only [List.mem_singleton] at hx; subst hx; exact hstep s x hy
      · exact Nat.le_refl _

/-- every remainder the matcher reports is no longer than the subject -/
theorem matchR_length (n : Nat) (re : Re) (s : Str) : ∀ x ∈ matchR n re s, x.length ≤ s.length := by
  induction re generalizing s with
  | eps => simp [matchR]
  | chr k => cases s with
    | nil => simp [matchR]
    | cons c t => simp only [matchR]; split <;> simp
  | bol => simp only [matchR]; split <;> simp
  | eol => simp only [matchR]; split <;> simp
  | eos => simp only [matchR]; split <;> simp
  | seq a b iha ihb =>
    simp only [matchR, List.mem_flatMap]
    rintro x ⟨y, hy, hx⟩
    exact Nat.le_trans (ihb y x hx) (iha s y hy)
  | alt a b iha ihb =>
    simp only [matchR, List.mem_append]
    rintro x (hx | hx)
    · exact iha s x hx
    · exact ihb s x hx
  | rep mn mo r ih =>
    rw [matchR_rep]
    exact repAux_length _ (fun s x hx => ih s x hx) _ _ _ _

/-- the fuel `min + |s| + 1` that `matchR` hands to `repAux` is enough: more fuel changes nothing -/
theorem repAux_fuel (step : Str → List Str) (hstep : ∀ s, ∀ x ∈ step s, x.length ≤ s.length)
    (f1 f2 min : Nat) (more : Option Nat) (s : Str) (h1 : min + s.length < f1) (h2 : min + s.length < f2) :
    repAux step f1 min more s = repAux step f2 min more s := by
  induction f1 generalizing f2 min more s with
  | zero => omega
  | succ k1 ih =>
    obtain ⟨k2, rfl⟩ : ∃ k2, f2 = k2 + 1 := ⟨f2 - 1, by omega⟩
    cases min with
    | succ m =>
      simp only [repAux]
      apply flatMap_congr'
      intro y hy
      have := hstep s y hy
      exact ih _ _ _ _ (by omega) (by omega)
    | zero =>
      simp only [repAux]
      congr 1
      split
      · rfl
      · apply flatMap_congr'
        intro y hy
        split
        · exact ih _ _ _ _ (by omega) (by omega)
        · rfl

end NunavutVerif.Regex
