import NunavutVerif.Model.PyReflect
import NunavutVerif.Lemmas.PyObj
/-! Helper lemmas for the reflection part of C18 (core Lean only). -/
namespace NunavutVerif.PyReflect
open NunavutVerif.PyObj

theorem segmentsAux_flatten (n : Nat) (hn : 0 < n) : ∀ (fuel : Nat) (s : List Char), s.length ≤ fuel →
    (segmentsAux n fuel s).flatten = s := by
  intro fuel
  induction fuel with
  | zero => intro s h; cases s <;> simp_all [segmentsAux]
  | succ k ih =>
    intro s h
    simp only [segmentsAux]
    split
    · rename_i he; simp at he; simp [he]
    · rename_i he
      have hpos : 0 < s.length := by cases s <;> simp_all
      rw [List.flatten_cons, ih (s.drop n) (by rw [List.length_drop]; omega), List.take_append_drop]

theorem segments_flatten (n : Nat) (hn : 0 < n) (s : List Char) : (segments n s).flatten = s :=
  segmentsAux_flatten n hn s.length s (Nat.le_refl _)

theorem segmentsAux_bound (n : Nat) (hn : 0 < n) : ∀ (fuel : Nat) (s : List Char), ∀ seg ∈ segmentsAux n fuel s,
    seg ≠ [] ∧ seg.length ≤ n := by
  intro fuel
  induction fuel with
  | zero => intro s seg h; simp [segmentsAux] at h
  | succ k ih =>
    intro s seg h
    simp only [segmentsAux] at h
    split at h
    · simp at h
    · rename_i he
      rcases List.mem_cons.1 h with rfl | h
      · constructor
        · intro hc
          have hlen : (s.take n).length = 0 := by rw [hc]; rfl
          rw [List.length_take] at hlen
          cases s with
          | nil => simp at he
          | cons a t => simp at hlen; omega
        · rw [List.length_take]; omega
      · exact ih _ _ h

theorem restoreConstant_filterPickle {M Y : Type} (pk : Stage M Y) (gz : Stage Y Y) (b85 : Stage Y (List Char)) (m : M) :
    restoreConstant pk gz b85 (filterPickle pk gz b85 m) = some m := by
  simp [restoreConstant, filterPickle, segments_flatten 100 (by decide), b85.inv, gz.inv, pk.inv]

/-- The blob pipeline of the Python target as a `Codec`: the reflection theorems hold for it. -/
def pipelineCodec {M Y : Type} (pk : Stage M Y) (gz : Stage Y Y) (b85 : Stage Y (List Char)) : Codec M (List (List Char)) :=
  ⟨filterPickle pk gz b85, restoreConstant pk gz b85, restoreConstant_filterPickle pk gz b85⟩

theorem write_same {B : Type} (fs : FS B) (p : Path) (f : File B) : write fs p f p = some f := by
  simp [write]

theorem write_other {B : Type} (fs : FS B) (p q : Path) (f : File B) (h : q ≠ p) : write fs p f q = fs q := by
  simp [write, h]

/-- After a run that returns: every output holds exactly what was rendered for it, every other path is untouched. -/
theorem writeAll_spec {B : Type} (allow : Bool) : ∀ (outs : List (Path × File B)) (fs fs' : FS B),
    (outs.map Prod.fst).Nodup → writeAll allow fs outs = .ok fs' →
    (∀ pf ∈ outs, fs' pf.1 = some pf.2) ∧ (∀ q, q ∉ outs.map Prod.fst → fs' q = fs q) := by
  intro outs
  induction outs with
  | nil =>
    intro fs fs' _ h
    simp [writeAll] at h
    subst h
    exact ⟨by simp, fun _ _ => rfl⟩
  | cons o rest ih =>
    intro fs fs' hnd h
    obtain ⟨p, f⟩ := o
    simp only [writeAll] at h
    split at h
    · simp at h
    · simp only [List.map_cons, List.nodup_cons] at hnd
      obtain ⟨hp, hrest⟩ := hnd
      obtain ⟨h1, h2⟩ := ih (write fs p f) fs' hrest h
      constructor
      · intro pf hpf
        rcases List.mem_cons.1 hpf with rfl | hin
        · rw [h2 p hp]; exact write_same fs p f
        · exact h1 pf hin
      · intro q hq
        simp only [List.map_cons, List.mem_cons, not_or] at hq
        rw [h2 q hq.2]; exact write_other fs p q f hq.1

theorem writeAll_allow {B : Type} : ∀ (outs : List (Path × File B)) (fs : FS B), ∃ fs', writeAll true fs outs = .ok fs' := by
  intro outs
  induction outs with
  | nil => intro fs; exact ⟨fs, rfl⟩
  | cons o rest ih =>
    intro fs
    obtain ⟨p, f⟩ := o
    simp only [writeAll, Bool.not_true, Bool.and_false, Bool.false_eq_true, if_false]
    exact ih _

theorem mem_dedup : ∀ (ps : List Path) (p : Path), p ∈ dedup ps ↔ p ∈ ps := by
  intro ps
  induction ps with
  | nil => intro p; simp [dedup]
  | cons q qs ih =>
    intro p
    simp only [dedup]
    split
    · rename_i hq
      rw [ih, List.mem_cons]
      constructor
      · exact Or.inr
      · rintro (rfl | h)
        · exact (ih p).1 hq
        · exact h
    · rw [List.mem_cons, List.mem_cons, ih]

theorem nodup_dedup : ∀ ps : List Path, (dedup ps).Nodup := by
  intro ps
  induction ps with
  | nil => simp [dedup]
  | cons q qs ih =>
    simp only [dedup]
    split
    · exact ih
    · rename_i hq
      exact List.nodup_cons.2 ⟨hq, ih⟩

theorem self_mem_prefixes : ∀ cs : List String, cs ≠ [] → cs ∈ prefixes cs := by
  intro cs
  induction cs with
  | nil => intro h; exact absurd rfl h
  | cons c cs ih =>
    intro _
    cases cs with
    | nil => simp [prefixes]
    | cons c' cs' =>
      simp only [prefixes, List.mem_cons, List.mem_map]
      right
      exact ⟨c' :: cs', by simpa [prefixes] using ih (by simp), rfl⟩

theorem outputs_paths {M B : Type} (c : Codec M B) (defs : List (Def M)) :
    (outputs c defs).map Prod.fst = defs.map modulePath ++ packages defs := by
  simp [outputs, List.map_append, Function.comp_def]

/-- Distinct module files, none of them called like a package ⇒ the run's output paths are pairwise distinct. -/
theorem outputs_nodup {M B : Type} (c : Codec M B) (defs : List (Def M))
    (hmods : (defs.map modulePath).Nodup) (hdisj : ∀ d ∈ defs, modulePath d ∉ packages defs) :
    ((outputs c defs).map Prod.fst).Nodup := by
  rw [outputs_paths]
  refine List.nodup_append.2 ⟨hmods, nodup_dedup _, ?_⟩
  intro a ha b hb hab
  obtain ⟨d, hd, rfl⟩ := List.mem_map.1 ha
  exact hdisj d hd (hab ▸ hb)

/-! ### the alias table -/

theorem aliasesFrom_sound (all : List TyId) : ∀ (ts seen : List TyId) (u : TyId), u ∈ aliasesFrom all seen ts →
    newestMinor all u.name u.major = some u.minor := by
  intro ts
  induction ts with
  | nil => intro seen u h; simp [aliasesFrom] at h
  | cons t ts ih =>
    intro seen u h
    simp only [aliasesFrom] at h
    split at h
    · exact ih _ _ h
    · split at h
      · rename_i k hk
        rcases List.mem_cons.1 h with rfl | h
        · exact hk
        · exact ih _ _ h
      · exact ih _ _ h

theorem aliasesFrom_complete (all : List TyId) : ∀ (ts seen : List TyId) (t : TyId), t ∈ ts →
    (∀ u ∈ seen, ¬ (u.name = t.name ∧ u.major = t.major)) →
    (∃ k, newestMinor all t.name t.major = some k) →
    ∃ u ∈ aliasesFrom all seen ts, u.name = t.name ∧ u.major = t.major := by
  intro ts
  induction ts with
  | nil => intro seen t h; simp at h
  | cons a ts ih =>
    intro seen t ht hseen hk
    simp only [aliasesFrom]
    by_cases hsame : a.name = t.name ∧ a.major = t.major
    · -- `a` is the first of this (name, major)
      have hns : (seen.any fun u => decide (u.name = a.name ∧ u.major = a.major)) = false := by
        rw [Bool.eq_false_iff]
        intro hc
        obtain ⟨u, hu, hd⟩ := List.any_eq_true.1 hc
        simp only [decide_eq_true_eq] at hd
        exact hseen u hu ⟨hd.1.trans hsame.1, hd.2.trans hsame.2⟩
      simp only [hns, Bool.false_eq_true, if_false]
      obtain ⟨k, hk⟩ := hk
      rw [hsame.1, hsame.2, hk]
      exact ⟨_, List.mem_cons_self, rfl, rfl⟩
    · have hta : t ∈ ts := by
        rcases List.mem_cons.1 ht with rfl | h
        · exact absurd ⟨rfl, rfl⟩ hsame
        · exact h
      split
      · exact ih seen t hta hseen hk
      · have hseen' : ∀ u ∈ a :: seen, ¬ (u.name = t.name ∧ u.major = t.major) := by
          intro u hu
          rcases List.mem_cons.1 hu with rfl | h
          · exact hsame
          · exact hseen u h
        split
        · obtain ⟨u, hu, h⟩ := ih (a :: seen) t hta hseen' hk
          exact ⟨u, List.mem_cons_of_mem _ hu, h⟩
        · exact ih (a :: seen) t hta hseen' hk

/-- `lookup` in an association list all of whose entries for the key carry the same value. -/
theorem lookup_of_unique {β : Type} (key : String) (v : β) : ∀ (l : List (String × β)),
    (∃ e ∈ l, e.1 = key) → (∀ e ∈ l, e.1 = key → e.2 = v) → l.lookup key = some v := by
  intro l
  induction l with
  | nil => intro h; obtain ⟨_, h, _⟩ := h; simp at h
  | cons a l ih =>
    intro hex hall
    obtain ⟨k, w⟩ := a
    by_cases hk : key = k
    · subst hk
      have := hall (key, w) List.mem_cons_self rfl
      simp only at this
      simp [List.lookup, this]
    · have hne : (key == k) = false := by simpa using hk
      simp only [List.lookup, hne]
      apply ih
      · obtain ⟨e, he, hek⟩ := hex
        rcases List.mem_cons.1 he with rfl | h
        · exact absurd hek.symm hk
        · exact ⟨e, h, hek⟩
      · intro e he; exact hall e (List.mem_cons_of_mem _ he)

theorem lookup_none_of_keys {β : Type} (key : String) : ∀ (l : List (String × β)),
    (∀ e ∈ l, e.1 ≠ key) → l.lookup key = none := by
  intro l
  induction l with
  | nil => intro _; rfl
  | cons a l ih =>
    intro h
    obtain ⟨k, w⟩ := a
    have hk : (key == k) = false := by
      have := h (k, w) List.mem_cons_self
      simpa using fun hkk : key = k => this hkk.symm
    simp only [List.lookup, hk]
    exact ih (fun e he => h e (List.mem_cons_of_mem _ he))

/-- The import line of `d` is the first one that binds the name `shortRef d` in its package. -/
theorem find_import {M : Type} (defs : List (Def M)) (d : Def M) (hd : d ∈ defs) :
    ((defs.filter fun e => e.ns = d.ns).map fun e => (modulePath e, shortRef e)).find?
      (fun mc => mc.2 = shortRef d) = some (modulePath d, shortRef d) := by
  have hhere : d ∈ defs.filter (fun e => e.ns = d.ns) := List.mem_filter.2 ⟨hd, by simp⟩
  cases hf : ((defs.filter fun e => e.ns = d.ns).map fun e => (modulePath e, shortRef e)).find?
      (fun mc => mc.2 = shortRef d) with
  | none =>
    rw [List.find?_eq_none] at hf
    exact absurd (by simp) (hf (modulePath d, shortRef d) (List.mem_map.2 ⟨d, hhere, rfl⟩))
  | some mc =>
    have hp := List.find?_some hf
    have hm := List.mem_of_find?_eq_some hf
    obtain ⟨e, he, rfl⟩ := List.mem_map.1 hm
    obtain ⟨_, hens⟩ := List.mem_filter.1 he
    simp only [decide_eq_true_eq] at hens hp
    simp only [modulePath, hens, hp]

end NunavutVerif.PyReflect
