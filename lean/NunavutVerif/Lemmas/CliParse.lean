import NunavutVerif.Model.CliParse
/-!
Helper lemmas about the argument-parser model (`Model/CliParse.lean`): every action that is ever taken belongs to the
parser's table; the namespace stays typed by the table (a `store_true` dest always holds a `bool`, a converted value has the
type its `type=` callable produces, a value restricted by `choices` is one of them); a `store_true` dest is `True` exactly
when its action was taken.  No Mathlib.
-/
namespace NunavutVerif.CliParse
open NunavutVerif.Gen.CliArgs

/-! ## Namespace as an association list -/

theorem lookup_nsSet_self (ns : Namespace) (d : String) (v : Val) : (nsSet ns d v).lookup d = some v := by
  induction ns with
  | nil => simp [nsSet, List.lookup]
  | cons kx r ih =>
    obtain ⟨k, x⟩ := kx
    by_cases h : k = d
    · subst h; simp [nsSet, List.lookup]
    · have h' : (d == k) = false := by simpa using fun e => h e.symm
      simp [nsSet, h, List.lookup, h', ih]

theorem lookup_nsSet_other (ns : Namespace) (d d' : String) (v : Val) (h : d' ≠ d) :
    (nsSet ns d v).lookup d' = ns.lookup d' := by
  induction ns with
  | nil =>
    have : (d' == d) = false := by simpa using h
    simp [nsSet, List.lookup, this]
  | cons kx r ih =>
    obtain ⟨k, x⟩ := kx
    by_cases hk : k = d
    · subst hk
      have : (d' == k) = false := by simpa using h
      simp [nsSet, List.lookup, this]
    · by_cases hd : d' = k
      · subst hd; simp [nsSet, hk, List.lookup]
      · have : (d' == k) = false := by simpa using hd
        simp [nsSet, hk, List.lookup, this, ih]

/-! ## What the table must satisfy (checked by `decide` on the generated table) -/

def scalarOk (sp : OptSpec) : Scalar → Bool
  | .int _ => (sp.type = .intAuto || sp.type = .intDec) && sp.choices.isEmpty
  | .str s => (sp.type = .str || sp.type = .ext || sp.type = .path) && (sp.choices.isEmpty || sp.choices.contains s)

/-- The values a dest can hold, by the kind of the action that owns it. -/
def valOkK (sp : OptSpec) : ActKind → Val → Bool
  | .storeTrue, .bool _ => true
  | .storeTrue, _ => false
  | .count, .none => true
  | .count, .sc (.int _) => true
  | .count, _ => false
  | .append, .none => true
  | .append, .list _ => true
  | .append, _ => false
  | .store, .sc x => Val.sc x = sp.dflt || scalarOk sp x
  | .store, .list l => Val.list l = sp.dflt || l.all (scalarOk sp)
  | .store, v => v = sp.dflt
  | .help, _ => true
  | .version, _ => true

def valOk (sp : OptSpec) (v : Val) : Bool := valOkK sp sp.kind v

/-- Well-formedness of a table: distinct dests, only help/version without a dest, typed defaults, `store_true` starts
`False`. -/
def tableOk (tbl : List OptSpec) : Bool :=
  ((tbl.filter fun sp => sp.dest ≠ "").map (·.dest)).Nodup &&
  tbl.all fun sp =>
    (sp.dest ≠ "" || sp.kind = .help || sp.kind = .version) &&
    valOk sp sp.dflt &&
    (sp.kind ≠ .storeTrue || sp.dflt = .bool false) &&
    (sp.kind ≠ .help && sp.kind ≠ .version || sp.dest = "") &&
    (match sp.dflt with | .sc (.str _) => sp.type = .str || sp.type = .path | _ => true)

theorem tableOk_actions : tableOk actions = true := by decide

theorem nodup_map_inj {α β : Type} (f : α → β) : ∀ (l : List α), (l.map f).Nodup →
    ∀ a ∈ l, ∀ b ∈ l, f a = f b → a = b := by
  intro l
  induction l with
  | nil => intro _ a ha; cases ha
  | cons x r ih =>
    intro hn a ha b hb hab
    rw [List.map_cons, List.nodup_cons] at hn
    rcases List.mem_cons.1 ha with rfl | ha' <;> rcases List.mem_cons.1 hb with rfl | hb'
    · rfl
    · exact absurd (List.mem_map.2 ⟨b, hb', hab.symm⟩) hn.1
    · exact absurd (List.mem_map.2 ⟨a, ha', hab⟩) hn.1
    · exact ih hn.2 a ha' b hb' hab

theorem tableOk_unique {tbl : List OptSpec} (h : tableOk tbl = true) {a b : OptSpec} (ha : a ∈ tbl) (hb : b ∈ tbl)
    (hd : a.dest = b.dest) (hne : a.dest ≠ "") : a = b := by
  have hn : ((tbl.filter fun sp => sp.dest ≠ "").map (·.dest)).Nodup := by
    unfold tableOk at h
    exact of_decide_eq_true (Bool.and_eq_true_iff.1 h).1
  exact nodup_map_inj (·.dest) _ hn a (List.mem_filter.2 ⟨ha, by simpa using hne⟩) b
    (List.mem_filter.2 ⟨hb, by simpa [← hd] using hne⟩) hd

theorem tableOk_row {tbl : List OptSpec} (h : tableOk tbl = true) {sp : OptSpec} (hs : sp ∈ tbl) :
    (sp.dest ≠ "" ∨ sp.kind = .help ∨ sp.kind = .version) ∧ valOk sp sp.dflt = true ∧
    (sp.kind = .storeTrue → sp.dflt = .bool false) ∧ ((sp.kind = .help ∨ sp.kind = .version) → sp.dest = "") ∧
    (∀ d, sp.dflt = .sc (.str d) → sp.type = .str ∨ sp.type = .path) := by
  simp only [tableOk, Bool.and_eq_true, List.all_eq_true] at h
  have := h.2 sp hs
  simp only [Bool.and_eq_true, Bool.or_eq_true, decide_eq_true_eq, ne_eq] at this
  obtain ⟨⟨⟨⟨h1, h2⟩, h3⟩, h4⟩, h5⟩ := this
  refine ⟨?_, h2, ?_, ?_, ?_⟩
  · rcases h1 with (h1 | h1) | h1
    · exact .inl (by simpa using h1)
    · exact .inr (.inl h1)
    · exact .inr (.inr h1)
  · intro hk; rcases h3 with h3 | h3
    · exact absurd hk (by simpa using h3)
    · exact h3
  · intro hk; rcases h4 with h4 | h4
    · rcases hk with hk | hk
      · exact absurd hk (by simpa using h4.1)
      · exact absurd hk (by simpa using h4.2)
    · exact h4
  · intro d hd; rw [hd] at h5; simpa using h5

/-! ## Every action taken is an action of the table -/

theorem lookupFlag_mem {tbl : List OptSpec} {f : String} {sp : OptSpec} (h : lookupFlag tbl f = some sp) : sp ∈ tbl := by
  unfold lookupFlag at h
  cases hf : (optionStrings tbl).find? (fun x => x.1 = f) with
  | none => simp [hf] at h
  | some x =>
    simp only [hf, Option.map_some, Option.some.injEq] at h
    have hm := List.mem_of_find?_eq_some hf
    simp only [optionStrings, List.mem_flatMap, List.mem_map] at hm
    obtain ⟨sp', hs', f', _, rfl⟩ := hm
    simpa [← h] using hs'

theorem optionStrings_mem {tbl : List OptSpec} {x : String × OptSpec} (h : x ∈ optionStrings tbl) : x.2 ∈ tbl := by
  simp only [optionStrings, List.mem_flatMap, List.mem_map] at h
  obtain ⟨sp', hs', f', _, rfl⟩ := h
  exact hs'

theorem optionTuples_mem {tbl : List OptSpec} {cs : List Char} {t : OptSpec × String × Option String}
    (h : t ∈ optionTuples tbl cs) : t.1 ∈ tbl := by
  unfold optionTuples at h
  split at h
  · simp only [List.mem_filterMap] at h
    obtain ⟨x, hx, hx2⟩ := h
    repeat' split at hx2
    all_goals first
      | (cases hx2; done)
      | (simp only [Option.some.injEq] at hx2; rw [← hx2]; exact optionStrings_mem hx)
  · simp only [List.mem_filterMap] at h
    obtain ⟨x, hx, hx2⟩ := h
    repeat' split at hx2
    all_goals first
      | (cases hx2; done)
      | (simp only [Option.some.injEq] at hx2; rw [← hx2]; exact optionStrings_mem hx)
  · cases h

def TokIn (tbl : List OptSpec) : Tok → Prop
  | .opt _ (some sp) _ _ => sp ∈ tbl
  | _ => True

def StepIn (tbl : List OptSpec) : Step → Prop
  | .act sp _ => sp ∈ tbl
  | _ => True

def PendIn (tbl : List OptSpec) : Pend → Prop
  | .one pre sp => sp ∈ tbl ∧ ∀ st ∈ pre, StepIn tbl st
  | .star sp _ => sp ∈ tbl
  | .posDash p => p ∈ tbl
  | _ => True

theorem parseOptional_mem {tbl : List OptSpec} {s : String} {t : Tok} (h : parseOptional tbl s = .ok (some t)) :
    TokIn tbl t := by
  unfold parseOptional at h
  simp only at h
  split at h
  · cases h
  · split at h
    · cases h
    · split at h
      · rename_i sp hl
        simp only [Except.ok.injEq, Option.some.injEq] at h
        subst h; exact lookupFlag_mem hl
      · split at h
        · cases h
        · split at h
          · rename_i t' ht'
            simp only [Except.ok.injEq, Option.some.injEq] at h
            subst h
            split at ht'
            · rename_i a b _
              cases hl : lookupFlag tbl (String.ofList a) with
              | none => simp [hl] at ht'
              | some sp =>
                simp only [hl, Option.map_some, Option.some.injEq] at ht'
                subst ht'; exact lookupFlag_mem hl
            · cases ht'
          · split at h
            · cases h
            · rename_i sp f e heq
              simp only [Except.ok.injEq, Option.some.injEq] at h
              subst h
              have : (sp, f, e) ∈ optionTuples tbl s.toList := by rw [heq]; exact List.mem_singleton.2 rfl
              exact optionTuples_mem this
            · split at h
              · cases h
              · split at h
                · cases h
                · split at h
                  · cases h
                  · simp only [Except.ok.injEq, Option.some.injEq] at h
                    subst h; trivial

theorem classify_mem {tbl : List OptSpec} : ∀ {argv : List String} {toks : List Tok},
    classify tbl argv = .ok toks → ∀ t ∈ toks, TokIn tbl t := by
  intro argv
  induction argv with
  | nil => intro toks h t ht; simp [classify] at h; subst h; cases ht
  | cons s r ih =>
    intro toks h t ht
    unfold classify at h
    split at h
    · simp only [Except.ok.injEq] at h
      subst h
      rcases List.mem_cons.1 ht with rfl | ht
      · trivial
      · obtain ⟨x, _, rfl⟩ := List.mem_map.1 ht; trivial
    · split at h
      · cases h
      · rename_i t' ht'
        split at h
        · cases h
        · rename_i ts hts
          simp only [Except.ok.injEq] at h
          subst h
          rcases List.mem_cons.1 ht with rfl | ht
          · cases t' with
            | none => trivial
            | some t'' => exact parseOptional_mem ht'
          · exact ih hts t ht

theorem chain_mem {tbl : List OptSpec} : ∀ (e : List Char) (sp : OptSpec) (flag : String) (acc : List Step),
    sp ∈ tbl → (∀ st ∈ acc, StepIn tbl st) →
    (∀ st ∈ (chain tbl sp flag e acc).1, StepIn tbl st) ∧ (∀ sp', (chain tbl sp flag e acc).2 = some sp' → sp' ∈ tbl) := by
  intro e
  induction e with
  | nil =>
    intro sp flag acc hs hacc
    unfold chain
    split
    · refine ⟨?_, by simp⟩
      intro st hst
      rcases List.mem_append.1 hst with h | h
      · exact hacc st h
      · simp only [List.mem_singleton] at h; subst h; exact hs
    · refine ⟨?_, by simp⟩
      intro st hst; simp only [List.mem_singleton] at hst; subst hst; trivial
  | cons c e ih =>
    intro sp flag acc hs hacc
    unfold chain
    split
    · refine ⟨?_, by simp⟩
      intro st hst
      rcases List.mem_append.1 hst with h | h
      · exact hacc st h
      · simp only [List.mem_singleton] at h; subst h; exact hs
    · split
      · split
        · refine ⟨?_, by simp⟩
          intro st hst; simp only [List.mem_singleton] at hst; subst hst; trivial
        · rename_i sp' hl
          have hs' := lookupFlag_mem hl
          have hacc' : ∀ st ∈ acc ++ [Step.act sp []], StepIn tbl st := by
            intro st hst
            rcases List.mem_append.1 hst with h | h
            · exact hacc st h
            · simp only [List.mem_singleton] at h; subst h; exact hs
          split
          · exact ⟨hacc', by intro sp'' h; simp only [Option.some.injEq] at h; subst h; exact hs'⟩
          · exact ih sp' _ _ hs' hacc'
      · refine ⟨?_, by simp⟩
        intro st hst; simp only [List.mem_singleton] at hst; subst hst; trivial

theorem pendOf_mem {tbl : List OptSpec} {sp : OptSpec} (hs : sp ∈ tbl) {pre : List Step}
    (hpre : ∀ st ∈ pre, StepIn tbl st) :
    (∀ st ∈ (pendOf pre sp).1, StepIn tbl st) ∧ PendIn tbl (pendOf pre sp).2 := by
  unfold pendOf
  cases sp.nargs
  · refine ⟨?_, trivial⟩
    intro st hst
    rcases List.mem_append.1 hst with h | h
    · exact hpre st h
    · simp only [List.mem_singleton] at h; subst h; exact hs
  · exact ⟨(by intro st h; cases h), hs, hpre⟩
  · exact ⟨(by intro st h; cases h), hs, hpre⟩
  · exact ⟨hpre, hs⟩

theorem flush_mem {tbl : List OptSpec} {pend : Pend} (hpend : PendIn tbl pend) :
    ∀ st ∈ (match pend with | Pend.star sp acc => [Step.act sp acc] | _ => ([] : List Step)), StepIn tbl st := by
  intro st hst
  cases pend <;> simp at hst
  subst hst; exact hpend

theorem sched_mem {tbl : List OptSpec} (pos : Option OptSpec) (pend : Pend) (toks : List Tok) :
    (∀ p, pos = some p → p ∈ tbl) → PendIn tbl pend → (∀ t ∈ toks, TokIn tbl t) →
    ∀ st ∈ sched tbl pos pend toks, StepIn tbl st := by
  have hnil : ∀ st ∈ ([] : List Step), StepIn tbl st := by intro st h; cases h
  fun_induction sched tbl pos pend toks
  all_goals intro hpos hpend htoks
  all_goals try simp only [List.forall_mem_cons] at htoks
  all_goals try simp only [List.forall_mem_append, List.forall_mem_cons]
  all_goals repeat' apply And.intro
  all_goals first
    | exact flush_mem hpend
    | (intro st hst; cases hst; done)
    | trivial
    | exact hpos _ rfl
    | exact hpend
    | exact hpend.1
    | exact hpend.2
    | exact htoks.1
    | exact (pendOf_mem htoks.1 hnil).1
    | (intro x hx; split at hx <;> simp at hx; subst hx; exact hpos _ rfl)
    | exact (chain_mem _ _ _ [] htoks.1 hnil).1
    | exact (pendOf_mem ((chain_mem _ _ _ [] htoks.1 hnil).2 _ (by assumption)) (chain_mem _ _ _ [] htoks.1 hnil).1).1
    | (apply_assumption
       · first | exact hpos | (intro p h; cases h)
       · first
         | trivial | exact hpend | exact hpos _ rfl | exact (pendOf_mem htoks.1 hnil).2
         | exact (pendOf_mem ((chain_mem _ _ _ [] htoks.1 hnil).2 _ (by assumption)) (chain_mem _ _ _ [] htoks.1 hnil).1).2
       · exact htoks.2)
    | trace_state

/-! ## Typed values -/

theorem convert_shape {sp : OptSpec} {s : String} {x : Scalar} (h : convert sp s = .ok x) :
    (∃ t, x = .str t ∧ (sp.type = .str ∨ sp.type = .ext ∨ sp.type = .path)) ∨
    (∃ i, x = .int i ∧ (sp.type = .intAuto ∨ sp.type = .intDec)) := by
  unfold convert at h
  split at h
  · exact .inl ⟨s, by simpa using h.symm, .inl ‹_›⟩
  · exact .inl ⟨s, by simpa using h.symm, .inr (.inr ‹_›)⟩
  · exact .inl ⟨_, by simpa using h.symm, .inr (.inl ‹_›)⟩
  · split at h
    · exact .inr ⟨_, by simpa using h.symm, .inl ‹_›⟩
    · cases h
    · cases h
  · split at h
    · exact .inr ⟨_, by simpa using h.symm, .inr ‹_›⟩
    · cases h
    · cases h

theorem convertChecked_ok {sp : OptSpec} {s : String} {x : Scalar} (h : convertChecked sp s = .ok x) :
    scalarOk sp x = true := by
  unfold convertChecked at h
  split at h
  · cases h
  · rename_i v hv
    split at h
    · cases h
    · rename_i hc
      simp only [Except.ok.injEq] at h
      subst h
      rcases convert_shape hv with ⟨t, rfl, ht⟩ | ⟨i, rfl, hi⟩
      · simp only [scalarOk, Bool.and_eq_true, Bool.or_eq_true, decide_eq_true_eq]
        refine ⟨by rcases ht with h | h | h <;> simp [h], ?_⟩
        by_cases he : sp.choices.isEmpty = true
        · exact .inl he
        · by_cases hcs : sp.choices.contains t = true
          · exact .inr hcs
          · simp [checkChoice, he, hcs] at hc
            exact absurd (by simpa using hc) hcs
      · simp only [scalarOk, Bool.and_eq_true, Bool.or_eq_true, decide_eq_true_eq]
        refine ⟨by rcases hi with h | h <;> simp [h], ?_⟩
        by_cases he : sp.choices.isEmpty = true
        · exact he
        · simp [checkChoice, he] at hc

theorem convertAll_ok {sp : OptSpec} : ∀ {l : List String} {vs : List Scalar}, convertAll sp l = .ok vs →
    vs.all (scalarOk sp) = true := by
  intro l
  induction l with
  | nil => intro vs h; simp [convertAll] at h; subst h; rfl
  | cons s r ih =>
    intro vs h
    unfold convertAll at h
    split at h
    · cases h
    · rename_i v hv
      split at h
      · cases h
      · rename_i vs' hvs
        simp only [Except.ok.injEq] at h
        subst h
        simp only [List.all_cons, Bool.and_eq_true]
        exact ⟨convertChecked_ok hv, ih hvs⟩

theorem valOk_store_self {sp : OptSpec} (hk : sp.kind = .store) (v : Val) (hv : v = sp.dflt) : valOk sp v = true := by
  subst hv
  unfold valOk
  rw [hk]
  cases hd : sp.dflt with
  | none => simp [valOkK, hd]
  | bool b => simp [valOkK, hd]
  | sc x => simp [valOkK, hd]
  | list l => simp [valOkK, hd]

/-- What `_get_values` hands to a `store` action is typed by the action. -/
theorem getValues_ok {sp : OptSpec} {args : List String} {v : Val} (hk : sp.kind = .store)
    (h : getValues sp args = .ok v) : valOk sp v = true := by
  unfold getValues at h
  simp only at h
  have fin : ∀ x : Scalar, scalarOk sp x = true → valOk sp (.sc x) = true := by
    intro x hx; simp [valOk, valOkK, hk, hx]
  split at h
  · split at h
    · split at h
      · cases h
      · rename_i hv; simp only [Except.ok.injEq] at h; subst h; exact fin _ (convertChecked_ok hv)
    · simp only [Except.ok.injEq] at h; subst h; exact valOk_store_self hk _ rfl
  · split at h
    · cases h
    · rename_i hv; simp only [Except.ok.injEq] at h; subst h; exact fin _ (convertChecked_ok hv)
  · split at h
    · cases h
    · rename_i hv; simp only [Except.ok.injEq] at h; subst h; exact fin _ (convertChecked_ok hv)
  · split at h
    · cases h
    · rename_i hv; simp only [Except.ok.injEq] at h; subst h
      simp [valOk, valOkK, hk, convertAll_ok hv]

/-! ## The invariant of `exec` -/

structure Inv (tbl : List OptSpec) (st : St) : Prop where
  typed : ∀ sp ∈ tbl, sp.dest ≠ "" → ∃ v, st.ns.lookup sp.dest = some v ∧ valOk sp v = true
  flags : ∀ sp ∈ tbl, sp.kind = .storeTrue → st.ns.lookup sp.dest = some (.bool (st.seen.contains sp.dest))

theorem lookup_init_aux : ∀ (l : List OptSpec), (l.map (·.dest)).Nodup → ∀ sp ∈ l,
    (l.map fun sp => (sp.dest, sp.dflt)).lookup sp.dest = some sp.dflt := by
  intro l
  induction l with
  | nil => intro _ sp h; cases h
  | cons x r ih =>
    intro hn sp hs
    rw [List.map_cons, List.nodup_cons] at hn
    rcases List.mem_cons.1 hs with rfl | hs'
    · simp [List.lookup]
    · have hne : sp.dest ≠ x.dest := by
        intro e; exact hn.1 (List.mem_map.2 ⟨sp, hs', e⟩)
      have : (sp.dest == x.dest) = false := by simpa using hne
      simp only [List.map_cons, List.lookup, this]
      exact ih hn.2 sp hs'

theorem lookup_init {tbl : List OptSpec} (h : tableOk tbl = true) {sp : OptSpec} (hs : sp ∈ tbl) (hd : sp.dest ≠ "") :
    (initNs tbl).lookup sp.dest = some sp.dflt := by
  have hn : ((tbl.filter fun sp => sp.dest ≠ "").map (·.dest)).Nodup := by
    unfold tableOk at h
    exact of_decide_eq_true (Bool.and_eq_true_iff.1 h).1
  exact lookup_init_aux _ hn sp (List.mem_filter.2 ⟨hs, by simpa using hd⟩)

theorem storeTrue_dest_ne {tbl : List OptSpec} (h : tableOk tbl = true) {sp : OptSpec} (hs : sp ∈ tbl)
    (hk : sp.kind = .storeTrue) : sp.dest ≠ "" := by
  rcases (tableOk_row h hs).1 with h1 | h1 | h1
  · exact h1
  · rw [hk] at h1; cases h1
  · rw [hk] at h1; cases h1

theorem inv_init {tbl : List OptSpec} (h : tableOk tbl = true) : Inv tbl ⟨initNs tbl, [], []⟩ := by
  constructor
  · intro sp hs hd
    exact ⟨sp.dflt, lookup_init h hs hd, (tableOk_row h hs).2.1⟩
  · intro sp hs hk
    rw [lookup_init h hs (storeTrue_dest_ne h hs hk), (tableOk_row h hs).2.2.1 hk]
    rfl

/-- Setting the dest of an action of the table to a value typed by that action keeps the invariant; `taken`: the action
is recorded as seen. -/
theorem inv_set {tbl : List OptSpec} (h : tableOk tbl = true) {sp : OptSpec} (hs : sp ∈ tbl) (hd : sp.dest ≠ "")
    {st : St} (hi : Inv tbl st) (v : Val) (hv : valOk sp v = true) (seen' : List String)
    (hseen : ∀ d, d ≠ sp.dest → seen'.contains d = st.seen.contains d)
    (hflag : sp.kind = .storeTrue → v = .bool (seen'.contains sp.dest)) (extras : List String) :
    Inv tbl ⟨nsSet st.ns sp.dest v, extras, seen'⟩ := by
  constructor
  · intro sp' hs' hd'
    by_cases he : sp'.dest = sp.dest
    · have := tableOk_unique h hs' hs he hd'
      subst this
      exact ⟨v, lookup_nsSet_self _ _ _, hv⟩
    · simp only [lookup_nsSet_other _ _ _ _ he]
      exact hi.typed sp' hs' hd'
  · intro sp' hs' hk'
    have hd' := storeTrue_dest_ne h hs' hk'
    by_cases he : sp'.dest = sp.dest
    · have := tableOk_unique h hs' hs he hd'
      subst this
      simp only [lookup_nsSet_self]
      rw [hflag hk']
    · simp only [lookup_nsSet_other _ _ _ _ he, hseen _ he]
      exact hi.flags sp' hs' hk'

theorem contains_cons_ne {d e : String} {l : List String} (h : d ≠ e) : (e :: l).contains d = l.contains d := by
  have : (d == e) = false := by simpa using h
  simp [List.contains_cons, this, h]

theorem takeAction_inv {tbl : List OptSpec} (h : tableOk tbl = true) {sp : OptSpec} (hs : sp ∈ tbl)
    {args : List String} {st st' : St} (hi : Inv tbl st) (ht : takeAction sp args st = .ok st') : Inv tbl st' := by
  unfold takeAction at ht
  split at ht
  · cases ht
  · rename_i v hv
    simp only at ht
    have hseen : ∀ d, d ≠ sp.dest → (sp.dest :: st.seen).contains d = st.seen.contains d :=
      fun d hd => contains_cons_ne hd
    have hrow := tableOk_row h hs
    have hdest : sp.kind ≠ .help → sp.kind ≠ .version → sp.dest ≠ "" := by
      intro h1 h2; rcases hrow.1 with h0 | h0 | h0
      · exact h0
      · exact absurd h0 h1
      · exact absurd h0 h2
    split at ht
    · -- store
      rename_i hk
      simp only [Except.ok.injEq] at ht; subst ht
      exact inv_set h hs (hdest (by simp [hk]) (by simp [hk])) hi v (getValues_ok hk hv) _ hseen (by simp [hk]) _
    · rename_i hk
      simp only [Except.ok.injEq] at ht; subst ht
      exact inv_set h hs (hdest (by simp [hk]) (by simp [hk])) hi _ (by simp [valOk, valOkK, hk]) _ hseen
        (by intro _; simp [List.contains_cons]) _
    · rename_i hk
      split at ht
      · simp only [Except.ok.injEq] at ht; subst ht
        exact inv_set h hs (hdest (by simp [hk]) (by simp [hk])) hi _ (by simp [valOk, valOkK, hk]) _ hseen (by simp [hk]) _
      · simp only [Except.ok.injEq] at ht; subst ht
        exact inv_set h hs (hdest (by simp [hk]) (by simp [hk])) hi _ (by simp [valOk, valOkK, hk]) _ hseen (by simp [hk]) _
      · cases ht
    · rename_i hk
      split at ht
      · simp only [Except.ok.injEq] at ht; subst ht
        exact inv_set h hs (hdest (by simp [hk]) (by simp [hk])) hi _ (by simp [valOk, valOkK, hk]) _ hseen (by simp [hk]) _
      · simp only [Except.ok.injEq] at ht; subst ht
        exact inv_set h hs (hdest (by simp [hk]) (by simp [hk])) hi _ (by simp [valOk, valOkK, hk]) _ hseen (by simp [hk]) _
      · cases ht
    · cases ht
    · cases ht

theorem exec_inv {tbl : List OptSpec} (h : tableOk tbl = true) : ∀ (steps : List Step) (st st' : St),
    (∀ s ∈ steps, StepIn tbl s) → Inv tbl st → exec steps st = .ok st' → Inv tbl st' := by
  intro steps
  induction steps with
  | nil => intro st st' _ hi he; simp [exec] at he; subst he; exact hi
  | cons s r ih =>
    intro st st' hin hi he
    have hr : ∀ s ∈ r, StepIn tbl s := fun s hs => hin s (List.mem_cons_of_mem _ hs)
    cases s with
    | act sp args =>
      unfold exec at he
      split at he
      · cases he
      · rename_i st1 h1
        exact ih st1 st' hr (takeAction_inv h (hin _ (List.mem_cons_self ..)) hi h1) he
    | extra x =>
      unfold exec at he
      exact ih ⟨st.ns, st.extras ++ [x], st.seen⟩ st' hr ⟨hi.typed, hi.flags⟩ he
    | fail e => simp [exec] at he

theorem convertDefaults_inv {tbl : List OptSpec} (h : tableOk tbl = true) : ∀ (l : List OptSpec) (st st' : St),
    (∀ sp ∈ l, sp ∈ tbl) → Inv tbl st → convertDefaults l st = .ok st' →
    Inv tbl st' ∧ st'.seen = st.seen ∧ st'.extras = st.extras := by
  intro l
  induction l with
  | nil => intro st st' _ hi he; simp [convertDefaults] at he; subst he; exact ⟨hi, rfl, rfl⟩
  | cons sp r ih =>
    intro st st' hin hi he
    have hr : ∀ sp ∈ r, sp ∈ tbl := fun s hs => hin s (List.mem_cons_of_mem _ hs)
    have hs : sp ∈ tbl := hin sp (List.mem_cons_self ..)
    unfold convertDefaults at he
    split at he
    · exact ih st st' hr hi he
    · rename_i hcond
      split at he
      · rename_i d hd
        split at he
        · cases he
        · rename_i v hv
          have hdest : sp.dest ≠ "" := by
            intro e; apply hcond; simp [e]
          have hty := (tableOk_row h hs).2.2.2.2 d hd
          have hveq : v = .str d := by
            unfold convert at hv
            rcases hty with ht | ht <;> simp [ht] at hv <;> exact hv.symm
          have hk : sp.kind ≠ .storeTrue := by
            intro hk; have := (tableOk_row h hs).2.2.1 hk; rw [hd] at this; cases this
          have hi' : Inv tbl ⟨nsSet st.ns sp.dest (.sc v), st.extras, st.seen⟩ := by
            apply inv_set h hs hdest hi (.sc v) _ st.seen (fun _ _ => rfl) (fun hk' => absurd hk' hk)
            rw [hveq, ← hd]; exact (tableOk_row h hs).2.1
          obtain ⟨a, b, c⟩ := ih _ st' hr hi' he
          exact ⟨a, b, c⟩
      · exact ih st st' hr hi he

/-! ## `seen` records exactly the actions taken -/

theorem takeAction_seen {sp : OptSpec} {args : List String} {st st' : St} (ht : takeAction sp args st = .ok st') :
    st'.seen = sp.dest :: st.seen ∧ st'.extras = st.extras := by
  unfold takeAction at ht
  split at ht
  · cases ht
  · simp only at ht
    repeat' split at ht
    all_goals first
      | (cases ht; done)
      | (simp only [Except.ok.injEq] at ht; subst ht; exact ⟨rfl, rfl⟩)

theorem exec_seen : ∀ (steps : List Step) (st st' : St), exec steps st = .ok st' →
    ∀ d, st'.seen.contains d = (st.seen.contains d || steps.any (Step.takes d)) := by
  intro steps
  induction steps with
  | nil => intro st st' he d; simp [exec] at he; subst he; simp
  | cons s r ih =>
    intro st st' he d
    cases s with
    | act sp args =>
      unfold exec at he
      split at he
      · cases he
      · rename_i st1 h1
        rw [ih st1 st' he d, (takeAction_seen h1).1]
        simp only [List.contains_cons, List.any_cons, Step.takes]
        by_cases hd : sp.dest = d
        · subst hd; simp
        · have : (d == sp.dest) = false := by simpa using fun e => hd e.symm
          simp [this, hd]
    | extra x =>
      unfold exec at he
      rw [ih _ st' he d]
      simp [Step.takes]
    | fail e => simp [exec] at he

/-! ## What an accepted command line yields -/

theorem find_mem {tbl : List OptSpec} {p : OptSpec → Bool} {sp : OptSpec} (h : tbl.find? p = some sp) : sp ∈ tbl :=
  List.mem_of_find?_eq_some h

/-- Everything the property theorems use about an accepted argument vector. -/
theorem parse_ok {tbl : List OptSpec} (h : tableOk tbl = true) {rules : List Rejection} {argv : List String}
    {ns : Namespace} (hp : parse tbl rules argv = .ok ns) :
    ∃ steps, stepsOf tbl argv = some steps ∧ rejected rules ns = false ∧
      (∀ sp ∈ tbl, sp.dest ≠ "" → ∃ v, ns.lookup sp.dest = some v ∧ valOk sp v = true) ∧
      (∀ sp ∈ tbl, sp.kind = .storeTrue → ns.lookup sp.dest = some (.bool (steps.any (Step.takes sp.dest)))) := by
  unfold parse at hp
  split at hp
  · cases hp
  · rename_i toks hc
    simp only at hp
    split at hp
    · cases hp
    · cases hp
    · rename_i st he
      split at hp
      · cases hp
      · rename_i st2 hcd
        split at hp
        · cases hp
        · split at hp
          · cases hp
          · rename_i hrej _
            simp only [Outcome.ok.injEq] at hp
            subst hp
            have hin : ∀ s ∈ sched tbl (tbl.find? fun sp => sp.flags.isEmpty) .none toks, StepIn tbl s :=
              sched_mem _ _ _ (fun p hp => find_mem hp) trivial (classify_mem hc)
            have hi := exec_inv h _ _ _ hin (inv_init h) he
            obtain ⟨hi2, hseen, _⟩ := convertDefaults_inv h tbl st st2 (fun _ hs => hs) hi hcd
            refine ⟨sched tbl (tbl.find? fun sp => sp.flags.isEmpty) .none toks, by simp [stepsOf, hc], by simpa using hrej,
              hi2.typed, ?_⟩
            intro sp hs hk
            rw [hi2.flags sp hs hk, hseen, exec_seen _ _ _ he]
            simp

/-! ## The runner glue -/

open NunavutVerif.Cli in
theorem toArgs_fields {env : Environ} {ns : Namespace} {a : Args} (h : toArgs env ns = some a) :
    (∃ v, ns.lookup "omit_serialization_support" = some v ∧ a.omitSer = truthy v) ∧
    (∃ v, ns.lookup "generate_support" = some v ∧ a.genSupport = genSupportOf v) ∧
    (∃ v, ns.lookup "generate_namespace_types" = some v ∧ a.gnt = truthy v) := by
  unfold toArgs at h
  split at h
  · rename_i row outdir ext stem tpl stpl gs om gnt incl _ _ _ _ _ _ hgs hom hgnt _
    simp only [Option.some.injEq] at h
    subst h
    exact ⟨⟨om, hom, rfl⟩, ⟨gs, hgs, rfl⟩, ⟨gnt, hgnt, rfl⟩⟩
  · cases h

/-- The `store_true` flags the runner reads are actions of the generated table. -/
theorem flag_specs : ∀ d ∈ ["list_outputs", "list_inputs", "list_configuration", "dry_run", "no_overwrite",
      "omit_serialization_support", "embed_auditing_info", "generate_namespace_types", "pp_trim_trailing_whitespace"],
    ∃ sp ∈ actions, sp.dest = d ∧ sp.kind = .storeTrue := by
  decide

/-- A `store_true` flag of an accepted command line: a `bool`, `True` exactly when its action was taken. -/
theorem parsed_flag {argv : List String} {ns : Namespace} (hp : parseArgv argv = .ok ns) {steps : List Step}
    (hs : stepsOf actions argv = some steps) {d : String}
    (hd : d ∈ ["list_outputs", "list_inputs", "list_configuration", "dry_run", "no_overwrite",
      "omit_serialization_support", "embed_auditing_info", "generate_namespace_types", "pp_trim_trailing_whitespace"]) :
    ns.lookup d = some (.bool (steps.any (Step.takes d))) := by
  obtain ⟨steps', hs', _, _, hflags⟩ := parse_ok tableOk_actions hp
  rw [hs] at hs'
  simp only [Option.some.injEq] at hs'
  subst hs'
  obtain ⟨sp, hsp, rfl, hk⟩ := flag_specs d hd
  exact hflags sp hsp hk
