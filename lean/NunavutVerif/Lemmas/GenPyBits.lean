import NunavutVerif.Model.GenPy
import NunavutVerif.Lemmas.BitsPy
import NunavutVerif.Lemmas.DsdlBytes
import NunavutVerif.Lemmas.DsdlLen
/-!
Bridge between the two vocabularies the refinement proof joins:
* C14 / `Model/BitsPy.lean`: buffers of bytes, `bitAt`, `fieldOf`, `Appends` (functions `Nat → Bool`);
* the specification `Model/Dsdl.lean`: bit lists, `natToBits`, `readNat`, `packBytes`, `unpackBytes`.
-/
namespace NunavutVerif.GenPy
open NunavutVerif.Dsdl
open NunavutVerif.Bits (Buf Err bitAt WF)
open NunavutVerif.Bits.Py

/-! ### `bitOf` on the lists the specification builds -/

@[simp] theorem bitOf_nil (i : Nat) : bitOf [] i = false := by simp [bitOf]

theorem bitOf_cons_zero (b : Bool) (bs : List Bool) : bitOf (b :: bs) 0 = b := by simp [bitOf]

theorem bitOf_cons_succ (b : Bool) (bs : List Bool) (i : Nat) : bitOf (b :: bs) (i + 1) = bitOf bs i := by
  simp [bitOf]

theorem bitOf_append (a b : List Bool) (i : Nat) :
    bitOf (a ++ b) i = if i < a.length then bitOf a i else bitOf b (i - a.length) := by
  unfold bitOf
  by_cases h : i < a.length
  · rw [if_pos h, List.getElem?_append_left h]
  · rw [if_neg h, List.getElem?_append_right (by omega)]

theorem bitOf_zeros (n i : Nat) : bitOf (zeros n) i = false := by
  unfold bitOf zeros
  by_cases h : i < n
  · simp [h]
  · simp [h]

theorem bitOf_natToBits (n : Nat) : ∀ (x i : Nat), bitOf (natToBits n x) i = (decide (i < n) && x.testBit i) := by
  induction n with
  | zero => intro x i; simp [natToBits]
  | succ n ih =>
    intro x i
    cases i with
    | zero =>
      simp only [natToBits, bitOf_cons_zero, Nat.testBit_zero]
      by_cases h : x % 2 = 1 <;> simp [h]
    | succ i =>
      simp only [natToBits, bitOf_cons_succ, ih, Nat.testBit_succ]
      simp

theorem bitOf_of_ge (x : List Bool) (i : Nat) (h : x.length ≤ i) : bitOf x i = false := bitOf_ge x i h

/-- a list is determined by its length and `bitOf` -/
theorem eq_of_bitOf {a b : List Bool} (hl : a.length = b.length) (h : ∀ i, i < a.length → bitOf a i = bitOf b i) :
    a = b := by
  apply List.ext_getElem hl
  intro i h1 h2
  have := h i h1
  unfold bitOf at this
  rw [List.getElem?_eq_getElem h1, List.getElem?_eq_getElem h2] at this
  simpa using this

/-! ### bytes ↔ bit lists -/

theorem bitAt_eq_bitOf_unpack (buf : Buf) (hw : WF buf) : ∀ i, bitAt buf i = bitOf (unpackBytes buf) i := by
  induction buf with
  | nil => intro i; simp [Bits.bitAt_nil, unpackBytes]
  | cons x xs ih =>
    intro i
    have hx : x < 256 := hw x (by simp)
    have hxs : WF xs := Bits.WF_tail hw
    rw [Bits.bitAt_cons]
    simp only [unpackBytes, bitOf_append, natToBits_length]
    by_cases h : i < 8
    · rw [if_pos h, if_pos h, bitOf_natToBits]; simp [h]
    · rw [if_neg h, if_neg h, ih hxs]

theorem WF_packBytes (bs : List Bool) : WF (packBytes bs) := by
  fun_induction packBytes bs with
  | case1 => intro x hx; simp at hx
  | case2 b0 b1 b2 b3 b4 b5 b6 b7 rest ih =>
    intro x hx
    simp only [List.mem_cons] at hx
    rcases hx with rfl | hx
    · have := bitsToNat_lt [b0, b1, b2, b3, b4, b5, b6, b7]
      simpa using this
    · exact ih x hx
  | case3 bs h0 h8 =>
    have hlen : bs.length < 8 := by
      rcases bs with _ | ⟨b0, _ | ⟨b1, _ | ⟨b2, _ | ⟨b3, _ | ⟨b4, _ | ⟨b5, _ | ⟨b6, _ | ⟨b7, r⟩⟩⟩⟩⟩⟩⟩⟩
      all_goals first | (simp; done) | exact absurd rfl (h8 _ _ _ _ _ _ _ _ _)
    intro x hx
    simp only [List.mem_singleton] at hx
    subst hx
    have := bitsToNat_lt bs
    have h2 : 2 ^ bs.length ≤ 2 ^ 8 := Nat.pow_le_pow_right (by omega) (by omega)
    omega

theorem bitAt_packBytes (bs : List Bool) (i : Nat) : bitAt (packBytes bs) i = bitOf bs i := by
  rw [bitAt_eq_bitOf_unpack _ (WF_packBytes bs), unpack_pack, bitOf_append]
  by_cases h : i < bs.length
  · rw [if_pos h]
  · rw [if_neg h, bitOf_zeros, bitOf_of_ge _ _ (by omega)]

/-! ### `AppL`: the serializer appended exactly the bits of a list -/

/-- `s'` is `s` with exactly the bits `bs` appended at the cursor (C14's `Appends` on a bit list). -/
def AppL (s s' : Ser) (bs : List Bool) : Prop := Appends s s' bs.length (bitOf bs)

theorem AppL.refl {s : Ser} (h : s.Inv) : AppL s s [] := by
  refine ⟨rfl, rfl, h, fun i => ?_⟩
  by_cases hi : i < s.off
  · simp [hi]
  · simp [hi, Inv_bit h (by omega : s.off ≤ i)]

theorem AppL.trans {s s1 s2 : Ser} {a b : List Bool} (h1 : AppL s s1 a) (h2 : AppL s1 s2 b) :
    AppL s s2 (a ++ b) := by
  have h := Appends_trans h1 h2
  unfold AppL
  rw [List.length_append]
  exact Appends_congr (fun i _ => by rw [bitOf_append]) h

theorem AppL.of_appends {s s' : Ser} {n : Nat} {f : Nat → Bool} {bs : List Bool} (h : Appends s s' n f)
    (hl : bs.length = n) (hf : ∀ i, i < n → f i = bitOf bs i) : AppL s s' bs := by
  unfold AppL; rw [hl]; exact Appends_congr hf h

theorem AppL.inv {s s' : Ser} {bs : List Bool} (h : AppL s s' bs) : s'.Inv := h.2.2.1
theorem AppL.off {s s' : Ser} {bs : List Bool} (h : AppL s s' bs) : s'.off = s.off + bs.length := h.1
theorem AppL.len {s s' : Ser} {bs : List Bool} (h : AppL s s' bs) : s'.buf.length = s.buf.length := h.2.1

theorem AppL.congr {s s' : Ser} {a b : List Bool} (h : AppL s s' a) (e : a = b) : AppL s s' b := e ▸ h

/-- `skip_bits(n)` on a serializer whose tail is zero "appends" `n` zero bits (no buffer access at all) -/
theorem skipBits_appL {s : Ser} (h : s.Inv) (n : Nat) : AppL s (skipBits s n) (zeros n) := by
  refine ⟨by simp [skipBits], rfl, ⟨h.1, fun i hi => Inv_bit h (by simp [skipBits] at hi; omega)⟩, fun i => ?_⟩
  simp only [skipBits, bitOf_zeros, Bool.and_false]
  by_cases hi : i < s.off
  · simp [hi]
  · simp [hi, Inv_bit h (by omega : s.off ≤ i)]

/-- room: beyond the cursor the buffer has `n` bits plus the spare byte of `Serializer.new` -/
def Room (s : Ser) (n : Nat) : Prop := s.off + n + 8 ≤ 8 * s.buf.length

theorem Room.mono {s : Ser} {n m : Nat} (h : Room s n) (hm : m ≤ n) : Room s m := by unfold Room at *; omega

theorem Room.after {s s' : Ser} {bs : List Bool} {n : Nat} (h : Room s n) (ha : AppL s s' bs)
    {m : Nat} (hm : bs.length + m ≤ n) : Room s' m := by
  unfold Room at *; rw [ha.off, ha.len]; omega

/-! ### padding -/

theorem padBits_eq_padLen (a off : Nat) : padBits off a = padLen a off := rfl

theorem padLen_add_base {a : Nat} (ha : a = 1 ∨ a = 8) {base : Nat} (hb : base % 8 = 0) (off : Nat) :
    padLen a (base + off) = padLen a off := by
  rcases ha with rfl | rfl <;> simp only [padLen] <;> omega

theorem serPad_spec (a : Nat) (ha : a = 1 ∨ a = 8) (s : Ser) (hinv : s.Inv) (hroom : Room s (padLen a s.off)) :
    ∃ s', serPad a s = .ok s' ∧ AppL s s' (zeros (padLen a s.off)) ∧ s'.off % a = 0 := by
  rcases ha with rfl | rfl
  · refine ⟨s, by simp [serPad], ?_, Nat.mod_one _⟩
    have : padLen 1 s.off = 0 := by simp [padLen]; omega
    rw [this]; exact AppL.refl hinv
  · obtain ⟨s', h1, h2, h3⟩ := padToAlignment_spec s 8 (by omega) hinv (by
      intro hne; unfold Room at hroom; rw [padBits_eq_padLen] at hne ⊢; omega)
    refine ⟨s', by simp [serPad, h1, lift], ?_, h3⟩
    exact AppL.of_appends h2 (by simp [padBits_eq_padLen]) (fun i _ => by rw [bitOf_zeros])

end NunavutVerif.GenPy
