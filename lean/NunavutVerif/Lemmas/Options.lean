import NunavutVerif.Model.Options
import NunavutVerif.Gen.OptionDomain
/-!
Helper lemmas for C17 (option guards).  Property theorems live in `Properties/C17.lean`.
-/
namespace NunavutVerif.Crc32

theorem step_lt {c : Nat} (h : c < 2 ^ 32) : step c < 2 ^ 32 := by
  unfold step
  have h1 : c >>> 1 < 2 ^ 32 := by rw [Nat.shiftRight_eq_div_pow]; omega
  split
  · exact Nat.xor_lt_two_pow h1 (by decide)
  · exact h1

theorem feed_lt {c b : Nat} (hc : c < 2 ^ 32) (hb : b < 2 ^ 32) : feed c b < 2 ^ 32 := by
  unfold feed
  have h0 : c ^^^ b < 2 ^ 32 := Nat.xor_lt_two_pow hc hb
  exact step_lt (step_lt (step_lt (step_lt (step_lt (step_lt (step_lt (step_lt h0)))))))

theorem foldl_feed_lt (bs : List Nat) (hb : ∀ b ∈ bs, b < 2 ^ 32) :
    ∀ c, c < 2 ^ 32 → bs.foldl feed c < 2 ^ 32 := by
  induction bs with
  | nil => intro c hc; simpa using hc
  | cons b r ih =>
    intro c hc
    simp only [List.foldl_cons]
    exact ih (fun x hx => hb x (List.mem_cons_of_mem _ hx)) _ (feed_lt hc (hb b List.mem_cons_self))

theorem crc32_lt (bs : List Nat) (hb : ∀ b ∈ bs, b < 2 ^ 32) : crc32 bs < 2 ^ 32 := by
  unfold crc32
  exact Nat.xor_lt_two_pow (foldl_feed_lt bs hb _ (by decide)) (by decide)

theorem utf8Char_lt {c : Nat} (hc : c < 0x110000) : ∀ b ∈ utf8Char c, b < 256 := by
  intro b hb
  unfold utf8Char at hb
  split at hb
  · simp at hb; omega
  · split at hb
    · simp at hb; omega
    · split at hb
      · simp at hb; omega
      · simp at hb; omega

theorem utf8_lt (s : String) : ∀ b ∈ utf8 s, b < 256 := by
  intro b hb
  unfold utf8 at hb
  rw [List.mem_flatMap] at hb
  obtain ⟨ch, _, hb⟩ := hb
  have hv : ch.toNat < 0x110000 := by
    have h := ch.valid
    unfold UInt32.isValidChar Nat.isValidChar at h
    show ch.val.toNat < 0x110000
    omega
  exact utf8Char_lt hv b hb

theorem crc32Str_lt (s : String) : crc32Str s < 2 ^ 32 := by
  unfold crc32Str
  exact crc32_lt _ (fun b hb => by have := utf8_lt s b hb; omega)

end NunavutVerif.Crc32

namespace NunavutVerif.Options
open NunavutVerif.Crc32

/-! ## the comparison -/

theorem cmp_iff_eq (lang : Lang) {a b : Int} (ha : 0 ≤ a ∧ a < 4294967296) (hb : 0 ≤ b ∧ b < 4294967296) :
    cmp lang a b = true ↔ a = b := by
  cases lang
  · simp [cmp, stored]
  · have h1 : a % 4294967296 = a := Int.emod_eq_of_lt ha.1 ha.2
    have h2 : b % 4294967296 = b := Int.emod_eq_of_lt hb.1 hb.2
    simp only [cmp, stored, h1, h2]
    split <;> simp

theorem encFits_iff {v : OptVal} : encFits v = true ↔ ∃ n, enc v = some n ∧ 0 ≤ n ∧ n < 4294967296 := by
  unfold encFits
  cases h : enc v with
  | none => simp
  | some n => simp

theorem encFits_bool (b : Bool) : encFits (.bool b) = true := by cases b <;> decide

theorem encFits_str (s : String) : encFits (.str s) = true := by
  rw [encFits_iff]
  refine ⟨_, rfl, Int.natCast_nonneg _, ?_⟩
  have := crc32Str_lt s
  simp only [Int.ofNat_eq_natCast]
  omega

/-! ## rendering and lookup -/

theorem render_cons_some {name : String → String} {k : String} {v : OptVal} {r : OptSet}
    {out : List (String × Int)} (h : render name ((k, v) :: r) = some out) :
    ∃ n rest, enc v = some n ∧ render name r = some rest ∧ out = (name k, n) :: rest := by
  simp only [render] at h
  split at h
  · rename_i n rest hn hr
    exact ⟨n, rest, hn, hr, by simpa using h.symm⟩
  · simp at h

/-- Every value encodes ⇒ the header can be generated. -/
theorem render_isSome (name : String → String) (o : OptSet) (h : ∀ kv ∈ o, (enc kv.2).isSome) :
    ∃ out, render name o = some out := by
  induction o with
  | nil => exact ⟨[], rfl⟩
  | cons kv r ih =>
    obtain ⟨k, v⟩ := kv
    obtain ⟨rest, hr⟩ := ih (fun x hx => h x (List.mem_cons_of_mem _ hx))
    have hv := h (k, v) List.mem_cons_self
    obtain ⟨n, hn⟩ := Option.isSome_iff_exists.mp hv
    exact ⟨(name k, n) :: rest, by simp [render, hn, hr]⟩

/-- Looking a rendered name up in the rendered definitions is looking the key up in the option set — provided
no *other* key of the set renders to the same name. -/
theorem lookup_render (name : String → String) (k : String) :
    ∀ (o : OptSet) (d : List (String × Int)), render name o = some d →
      (∀ k' ∈ keys o, name k' = name k → k' = k) →
      d.lookup (name k) = (o.lookup k).bind enc := by
  intro o
  induction o with
  | nil => intro d h _; simp [render] at h; subst h; simp
  | cons kv r ih =>
    intro d h hinj
    obtain ⟨k', v'⟩ := kv
    obtain ⟨n, rest, hn, hr, hd⟩ := render_cons_some h
    subst hd
    have hrec := ih rest hr (fun x hx => hinj x (by simp [keys] at hx ⊢; exact Or.inr hx))
    by_cases hk : k = k'
    · subst hk; simp [List.lookup, hn]
    · have hne : name k ≠ name k' := fun e => hk ((hinj k' (by simp [keys]) e.symm).symm)
      have b1 : (name k == name k') = false := by simpa using hne
      have b2 : (k == k') = false := by simpa using hk
      simp only [List.lookup, b1, b2]
      exact hrec

theorem lookup_of_mem_nodup : ∀ (o : OptSet), (keys o).Nodup → ∀ kv ∈ o, o.lookup kv.1 = some kv.2 := by
  intro o
  induction o with
  | nil => intro _ kv h; simp at h
  | cons x r ih =>
    intro hnd kv hkv
    obtain ⟨k', v'⟩ := x
    simp only [keys, List.map_cons, List.nodup_cons] at hnd
    rcases List.mem_cons.mp hkv with h | h
    · subst h; simp [List.lookup]
    · have hne : kv.1 ≠ k' := by
        intro e
        exact hnd.1 (e ▸ List.mem_map_of_mem (f := Prod.fst) h)
      have b : (kv.1 == k') = false := by simpa using hne
      simp only [List.lookup, b]
      exact ih hnd.2 kv h

/-! ## the guard against the key-level specification -/

/-- The side conditions under which the compiler's comparison of two encoded numbers decides equality of the two
option values: both encode into the `uint32` range and do not collide. -/
def Faithful (o₁ o₂ : OptSet) : Prop :=
  (∀ kv ∈ o₁, encFits kv.2 = true) ∧ (∀ kv ∈ o₂, encFits kv.2 = true) ∧
  (∀ kv₂ ∈ o₂, ∀ v₁, o₁.lookup kv₂.1 = some v₁ → enc v₁ = enc kv₂.2 → v₁ = kv₂.2)

theorem lookup_mem {k : String} {v : OptVal} : ∀ {o : OptSet}, o.lookup k = some v → (k, v) ∈ o := by
  intro o
  induction o with
  | nil => intro h; simp at h
  | cons x r ih =>
    intro h
    obtain ⟨k', v'⟩ := x
    by_cases hk : k = k'
    · subst hk; simp [List.lookup] at h; subst h; exact List.mem_cons_self
    · have b : (k == k') = false := by simpa using hk
      simp only [List.lookup, b] at h
      exact List.mem_cons_of_mem _ (ih h)

theorem diagnostics_eq_expected (lang : Lang) (name : String → String) (o₁ : OptSet) (d : List (String × Int))
    (hd : render name o₁ = some d) (h₁ : ∀ kv ∈ o₁, encFits kv.2 = true) :
    ∀ (o₂ : OptSet),
      (∀ kv ∈ o₂, encFits kv.2 = true) →
      (∀ kv₂ ∈ o₂, ∀ v₁, o₁.lookup kv₂.1 = some v₁ → enc v₁ = enc kv₂.2 → v₁ = kv₂.2) →
      (∀ k₂ ∈ keys o₂, ∀ k' ∈ keys o₁, name k' = name k₂ → k' = k₂) →
      ∃ a, render name o₂ = some a ∧ diagnostics lang d a = expected name o₁ o₂ := by
  intro o₂
  induction o₂ with
  | nil => intro _ _ _; exact ⟨[], rfl, rfl⟩
  | cons kv r ih =>
    intro h₂ hcol hinj
    obtain ⟨k, v₂⟩ := kv
    obtain ⟨a', ha', hda'⟩ := ih (fun x hx => h₂ x (List.mem_cons_of_mem _ hx))
      (fun x hx => hcol x (List.mem_cons_of_mem _ hx))
      (fun x hx => hinj x (by simp [keys] at hx ⊢; exact Or.inr hx))
    obtain ⟨n₂, hn₂, hn₂0, hn₂1⟩ := encFits_iff.mp (h₂ (k, v₂) List.mem_cons_self)
    refine ⟨(name k, n₂) :: a', by simp [render, hn₂, ha'], ?_⟩
    have hl := lookup_render name k o₁ d hd (fun k' hk' => hinj k (by simp [keys]) k' hk')
    simp only [diagnostics, expected, List.filterMap_cons] at hda' ⊢
    cases hlk : o₁.lookup k with
    | none =>
      have : d.lookup (name k) = none := by rw [hl, hlk]; rfl
      simp only [checkOne, this, hda']
    | some v₁ =>
      obtain ⟨n₁, hn₁, hn₁0, hn₁1⟩ := encFits_iff.mp (h₁ (k, v₁) (lookup_mem hlk))
      have hdl : d.lookup (name k) = some n₁ := by rw [hl, hlk]; simpa using hn₁
      have hc := cmp_iff_eq lang (a := n₁) (b := n₂) ⟨hn₁0, hn₁1⟩ ⟨hn₂0, hn₂1⟩
      by_cases hv : v₁ = v₂
      · subst hv
        have : n₁ = n₂ := by rw [hn₁] at hn₂; exact Option.some.inj hn₂
        have hct : cmp lang n₁ n₂ = true := hc.mpr this
        simp only [checkOne, hdl, hct, if_true, hda']
      · have hne : n₁ ≠ n₂ := by
          intro e
          apply hv
          exact hcol (k, v₂) List.mem_cons_self v₁ hlk (by rw [hn₁, hn₂, e])
        have hcf : cmp lang n₁ n₂ = false := by
          cases hh : cmp lang n₁ n₂ with
          | false => rfl
          | true => exact absurd (hc.mp hh) hne
        simp only [checkOne, hdl, hcf, hv, if_false, hda']
        simp

/-! ## documented option sets -/

theorem documented_mem : ∀ (dom : List DocOpt) (o : OptSet), Documented dom o →
    ∀ kv ∈ o, ∃ e ∈ dom, e.key = kv.1 ∧ kv.2 ∈ e.values := by
  intro dom
  induction dom with
  | nil =>
    intro o h kv hkv
    cases o with
    | nil => simp at hkv
    | cons _ _ => simp [Documented] at h
  | cons e dom ih =>
    intro o h kv hkv
    cases o with
    | nil => simp at hkv
    | cons x r =>
      obtain ⟨k, v⟩ := x
      simp only [Documented] at h
      rcases h with ⟨hk, hv, hr⟩ | ⟨_, hr⟩
      · rcases List.mem_cons.mp hkv with h1 | h1
        · subst h1; exact ⟨e, List.mem_cons_self, hk.symm, hv⟩
        · obtain ⟨e', he', h2⟩ := ih r hr kv h1
          exact ⟨e', List.mem_cons_of_mem _ he', h2⟩
      · obtain ⟨e', he', h2⟩ := ih _ hr kv hkv
        exact ⟨e', List.mem_cons_of_mem _ he', h2⟩

theorem documented_keys_sublist : ∀ (dom : List DocOpt) (o : OptSet), Documented dom o →
    (keys o).Sublist (dom.map (·.key)) := by
  intro dom
  induction dom with
  | nil =>
    intro o h
    cases o with
    | nil => simp [keys]
    | cons _ _ => simp [Documented] at h
  | cons e dom ih =>
    intro o h
    cases o with
    | nil => simp [keys]
    | cons x r =>
      obtain ⟨k, v⟩ := x
      simp only [Documented] at h
      rcases h with ⟨hk, _, hr⟩ | ⟨_, hr⟩
      · subst hk
        simpa [keys] using (ih r hr)
      · exact List.Sublist.cons _ (ih _ hr)

/-- When every documented option has a built-in default, a documented option set has exactly the documented keys. -/
theorem documented_keys_eq : ∀ (dom : List DocOpt) (o : OptSet), (∀ e ∈ dom, e.always = true) → Documented dom o →
    keys o = dom.map (·.key) := by
  intro dom
  induction dom with
  | nil =>
    intro o _ h
    cases o with
    | nil => simp [keys]
    | cons _ _ => simp [Documented] at h
  | cons e dom ih =>
    intro o hal h
    have hale := hal e List.mem_cons_self
    cases o with
    | nil => simp [Documented, hale] at h
    | cons x r =>
      obtain ⟨k, v⟩ := x
      simp only [Documented, hale] at h
      rcases h with ⟨hk, _, hr⟩ | ⟨hf, _⟩
      · subst hk
        have := ih r (fun e' he' => hal e' (List.mem_cons_of_mem _ he')) hr
        simp [keys] at this ⊢
        exact this
      · simp at hf

/-- Two association lists with the same key list that agree under `lookup` on every entry are equal. -/
theorem eq_of_keys_eq_of_lookup : ∀ (o₁ o₂ : OptSet), keys o₁ = keys o₂ → (keys o₂).Nodup →
    (∀ kv ∈ o₂, o₁.lookup kv.1 = some kv.2) → o₁ = o₂ := by
  intro o₁
  induction o₁ with
  | nil => intro o₂ hk _ _; cases o₂ with
    | nil => rfl
    | cons _ _ => simp [keys] at hk
  | cons x r ih =>
    intro o₂ hk hnd hl
    cases o₂ with
    | nil => simp [keys] at hk
    | cons y s =>
      obtain ⟨k₁, v₁⟩ := x
      obtain ⟨k₂, v₂⟩ := y
      simp only [keys, List.map_cons, List.cons.injEq] at hk
      obtain ⟨hk1, hk2⟩ := hk
      subst hk1
      have h0 := hl (k₁, v₂) List.mem_cons_self
      simp [List.lookup] at h0
      subst h0
      simp only [keys, List.map_cons, List.nodup_cons] at hnd
      congr 1
      apply ih s hk2 hnd.2
      intro kv hkv
      have h1 := hl kv (List.mem_cons_of_mem _ hkv)
      have hne : kv.1 ≠ k₁ := by
        intro e
        exact hnd.1 (e ▸ List.mem_map_of_mem (f := Prod.fst) hkv)
      have b : (kv.1 == k₁) = false := by simpa using hne
      simpa [List.lookup, b] using h1

theorem expected_self (name : String → String) (o : OptSet) (hnd : (keys o).Nodup) : expected name o o = [] := by
  unfold expected
  rw [List.filterMap_eq_nil_iff]
  intro kv hkv
  simp [lookup_of_mem_nodup o hnd kv hkv]

/-- `expected` is empty only if the support set agrees with the type set on every entry of the latter. -/
theorem expected_nil_lookup (name : String → String) (o₁ o₂ : OptSet) (h : expected name o₁ o₂ = []) :
    ∀ kv ∈ o₂, o₁.lookup kv.1 = some kv.2 := by
  unfold expected at h
  rw [List.filterMap_eq_nil_iff] at h
  intro kv hkv
  have := h kv hkv
  cases hl : o₁.lookup kv.1 with
  | none => simp [hl] at this
  | some v₁ =>
    simp only [hl] at this
    by_cases hv : v₁ = kv.2
    · rw [hv]
    · simp [hv] at this

/-! ## facts about a generated table, as Boolean checks (evaluated by the kernel in `Properties/C17.lean`) -/

/-- keys pairwise distinct, rendered names pairwise distinct. -/
def tableNamesOK (dom : List DocOpt) : Bool :=
  dom.all fun e => dom.all fun e' => (e.key == e'.key) == (e.name == e'.name) && ((e.key == e'.key) == (nameOf dom e.key == nameOf dom e'.key))

def keysNodup (dom : List DocOpt) : Bool := decide (dom.map (·.key)).Nodup

/-- every documented value encodes into the `uint32` range. -/
def tableFitsOK (dom : List DocOpt) : Bool := dom.all fun e => e.values.all encFits

/-- no two documented values of one key (across entries with the same key) collide under `enc`. -/
def tableInjOK (dom : List DocOpt) : Bool :=
  dom.all fun e => dom.all fun e' => e.key != e'.key ||
    e.values.all fun a => e'.values.all fun b => enc a != enc b || a == b

theorem nameOf_inj_of_table {dom : List DocOpt} (h : tableNamesOK dom = true) :
    ∀ e ∈ dom, ∀ e' ∈ dom, nameOf dom e.key = nameOf dom e'.key → e.key = e'.key := by
  intro e he e' he' hn
  simp only [tableNamesOK, List.all_eq_true, Bool.and_eq_true, beq_iff_eq] at h
  have := (h e he e' he').2
  rw [hn] at this
  simpa using this

theorem faithful_of_documented {dom : List DocOpt} (hf : tableFitsOK dom = true) (hi : tableInjOK dom = true)
    {o₁ o₂ : OptSet} (h₁ : Documented dom o₁) (h₂ : Documented dom o₂) : Faithful o₁ o₂ := by
  simp only [tableFitsOK, List.all_eq_true] at hf
  refine ⟨?_, ?_, ?_⟩
  · intro kv hkv
    obtain ⟨e, he, _, hv⟩ := documented_mem dom o₁ h₁ kv hkv
    exact hf e he kv.2 hv
  · intro kv hkv
    obtain ⟨e, he, _, hv⟩ := documented_mem dom o₂ h₂ kv hkv
    exact hf e he kv.2 hv
  · intro kv₂ hkv₂ v₁ hl henc
    obtain ⟨e₂, he₂, hk₂, hv₂⟩ := documented_mem dom o₂ h₂ kv₂ hkv₂
    obtain ⟨e₁, he₁, hk₁, hv₁⟩ := documented_mem dom o₁ h₁ (kv₂.1, v₁) (lookup_mem hl)
    simp only [tableInjOK, List.all_eq_true, Bool.or_eq_true, bne_iff_ne, ne_eq, beq_iff_eq] at hi
    rcases hi e₁ he₁ e₂ he₂ with h | h
    · exact absurd (hk₁.trans hk₂.symm) h
    · rcases h v₁ hv₁ kv₂.2 hv₂ with h | h
      · exact absurd henc h
      · exact h

theorem documented_keys_mem {dom : List DocOpt} {o : OptSet} (h : Documented dom o) :
    ∀ k ∈ keys o, ∃ e ∈ dom, e.key = k := by
  intro k hk
  simp only [keys, List.mem_map] at hk
  obtain ⟨kv, hkv, rfl⟩ := hk
  obtain ⟨e, he, hke, _⟩ := documented_mem dom o h kv hkv
  exact ⟨e, he, hke⟩

/-- Main lemma: for documented option sets of a table whose Boolean checks hold, the compiled translation unit
reports exactly `expected`. -/
theorem together_documented {dom : List DocOpt} (hn : tableNamesOK dom = true) (hf : tableFitsOK dom = true)
    (hi : tableInjOK dom = true) (lang : Lang) {o₁ o₂ : OptSet}
    (h₁ : Documented dom o₁) (h₂ : Documented dom o₂) :
    together lang false (nameOf dom) o₁ o₂ = some (expected (nameOf dom) o₁ o₂) := by
  obtain ⟨f₁, f₂, f₃⟩ := faithful_of_documented hf hi h₁ h₂
  obtain ⟨d, hd⟩ := render_isSome (nameOf dom) o₁ (fun kv hkv => by
    obtain ⟨n, hn, _⟩ := encFits_iff.mp (f₁ kv hkv); simp [hn])
  have hinj : ∀ k₂ ∈ keys o₂, ∀ k' ∈ keys o₁, nameOf dom k' = nameOf dom k₂ → k' = k₂ := by
    intro k₂ hk₂ k' hk' e
    obtain ⟨e₂, he₂, rfl⟩ := documented_keys_mem h₂ k₂ hk₂
    obtain ⟨e₁, he₁, rfl⟩ := documented_keys_mem h₁ k' hk'
    exact nameOf_inj_of_table hn e₁ he₁ e₂ he₂ e
  obtain ⟨a, ha, hda⟩ := diagnostics_eq_expected lang (nameOf dom) o₁ d hd f₁ o₂ f₂ f₃ hinj
  have hasrt : asserts lang false (nameOf dom) o₂ = some a := by
    cases lang <;> simp [asserts, ha]
  simp [together, defines, hd, hasrt, hda]

end NunavutVerif.Options
