import NunavutVerif.Lemmas.DsdlBits
/-!
Laws of the DSDL decoder: implicit zero extension, implicit truncation (only the consumed prefix
matters), where errors can come from.
-/
namespace NunavutVerif.Dsdl

/-! ### Implicit zero extension -/

/-- Appending zeros to the data never changes a successful decoding. -/
def ZxOK (t : Ty) : Prop :=
  ∀ bs v n k, deBits t bs = .ok (v, n) → deBits t (bs ++ zeros k) = .ok (v, n)

theorem deAll_zx {t : Ty} (h : ZxOK t) :
    ∀ c bs vs n k, deAllWith (deBits t) c bs = .ok (vs, n) → deAllWith (deBits t) c (bs ++ zeros k) = .ok (vs, n) := by
  intro c
  induction c with
  | zero => intro bs vs n k hd; simpa [deAllWith] using hd
  | succ c ih =>
    intro bs vs n k hd
    simp only [deAllWith] at hd ⊢
    split at hd
    · cases hd
    · rename_i v n1 h1
      split at hd
      · cases hd
      · rename_i vs' m h2
        cases hd
        obtain ⟨j, hj⟩ := drop_append_zeros n1 k bs
        rw [h _ _ _ k h1]
        simp only [hj, ih _ _ _ j h2]

theorem deFields_zx {fs : List Ty} (ih : ∀ f ∈ fs, ZxOK f) :
    ∀ bs off vs e k, deFields fs bs off = .ok (vs, e) →
      deFields fs (bs ++ zeros k) off = .ok (vs, e) := by
  induction fs with
  | nil => intro bs off vs e k hd; simpa [deFields] using hd
  | cons f fs ihf =>
    intro bs off vs e k hd
    simp only [deFields] at hd ⊢
    split at hd
    · cases hd
    · rename_i v n1 h1
      split at hd
      · cases hd
      · rename_i vs' e' h2
        cases hd
        obtain ⟨j, hj⟩ := drop_append_zeros (padTo (align f) off) k bs
        rw [hj, ih f (List.mem_cons_self ..) _ _ _ j h1]
        simp only [ihf (fun g hg => ih g (List.mem_cons_of_mem _ hg)) _ _ _ _ k h2]

theorem deNth_zx {fs : List Ty} (ih : ∀ f ∈ fs, ZxOK f) :
    ∀ i bs v n k, deNth fs i bs = .ok (v, n) → deNth fs i (bs ++ zeros k) = .ok (v, n) := by
  induction fs with
  | nil => intro i bs v n k hd; simp [deNth] at hd
  | cons f fs ihf =>
    intro i bs v n k hd
    cases i with
    | zero => simp only [deNth] at hd ⊢; exact ih f (List.mem_cons_self ..) _ _ _ k hd
    | succ i =>
      simp only [deNth] at hd ⊢
      exact ihf (fun g hg => ih g (List.mem_cons_of_mem _ hg)) i _ _ _ k hd

theorem zxOK (t : Ty) : ZxOK t := by
  refine Ty.ind (P := ZxOK) ?_ ?_ ?_ ?_ ?_ ?_ ?_ ?_ ?_ ?_ t
  · intro n m bs v c k h; simpa [deBits, readNat_append_zeros] using h
  · intro n m bs v c k h; simpa [deBits, readNat_append_zeros] using h
  · intro n m bs v c k h; simpa [deBits, readNat_append_zeros] using h
  · intro bs v c k h; simpa [deBits, readNat_append_zeros] using h
  · intro n bs v c k h; simpa [deBits] using h
  · intro t n ih bs v c k h
    simp only [deBits] at h ⊢
    split at h
    · cases h
    · rename_i vs used h1
      cases h
      simp only [deAll_zx ih _ _ _ _ k h1]
  · intro t cap ih bs v c k h
    simp only [deBits, readNat_append_zeros] at h ⊢
    split at h
    · cases h
    · rename_i hk
      rw [if_neg hk]
      split at h
      · cases h
      · rename_i vs used h1
        cases h
        obtain ⟨j, hj⟩ := drop_append_zeros (prefixBits cap) k bs
        simp only [hj, deAll_zx ih _ _ _ _ j h1]
  · intro fs ih bs v c k h
    simp only [deBits] at h ⊢
    split at h
    · cases h
    · rename_i vs off h1
      cases h
      simp only [deFields_zx ih _ _ _ _ k h1]
  · intro fs ih bs v c k h
    simp only [deBits, readNat_append_zeros] at h ⊢
    split at h
    · cases h
    · rename_i hk
      rw [if_neg hk]
      split at h
      · cases h
      · rename_i v' used h1
        cases h
        obtain ⟨j, hj⟩ := drop_append_zeros (tagBits fs.length) k bs
        simp only [hj, deNth_zx ih _ _ _ _ j h1]
  · intro e t _ bs v c k h
    simp only [deBits, readNat_append_zeros] at h ⊢
    split at h
    · cases h
    · rename_i hk
      obtain ⟨j, hj⟩ := drop_append_zeros headerBits k bs
      rw [hj, if_neg (by simp only [List.length_append]; omega),
        List.take_append_of_le_length (by omega)]
      exact h

/-! ### Implicit truncation: only the consumed prefix matters -/

/-- A decoding that stayed inside the data depends only on the bits it consumed. -/
def PfOK (t : Ty) : Prop :=
  ∀ bs bs' v n, deBits t bs = .ok (v, n) → n ≤ bs.length → n ≤ bs'.length →
    bs'.take n = bs.take n → deBits t bs' = .ok (v, n)

theorem take_eq_of_le {α : Type} {a b : List α} {i n : Nat} (hi : i ≤ n) (h : a.take n = b.take n) :
    a.take i = b.take i := by
  have ha : a.take i = (a.take n).take i := by rw [List.take_take, Nat.min_eq_left hi]
  have hb : b.take i = (b.take n).take i := by rw [List.take_take, Nat.min_eq_left hi]
  rw [ha, hb, h]

theorem take_drop_eq {α : Type} {a b : List α} {o i n : Nat} (hi : o + i ≤ n)
    (h : a.take n = b.take n) : (a.drop o).take i = (b.drop o).take i := by
  rw [List.take_drop, List.take_drop, take_eq_of_le hi h]

theorem deAll_pf {t : Ty} (h : PfOK t) :
    ∀ c bs bs' vs n, deAllWith (deBits t) c bs = .ok (vs, n) → n ≤ bs.length → n ≤ bs'.length →
      bs'.take n = bs.take n → deAllWith (deBits t) c bs' = .ok (vs, n) := by
  intro c
  induction c with
  | zero => intro bs bs' vs n hd _ _ _; simpa [deAllWith] using hd
  | succ c ih =>
    intro bs bs' vs n hd hl hl' ht
    simp only [deAllWith] at hd ⊢
    split at hd
    · cases hd
    · rename_i v n1 h1
      split at hd
      · cases hd
      · rename_i vs' m h2
        cases hd
        rw [h bs bs' v n1 h1 (by omega) (by omega) (take_eq_of_le (by omega) ht)]
        have := ih (bs.drop n1) (bs'.drop n1) vs' m h2 (by simp; omega) (by simp; omega)
          (by
            have := take_drop_eq (o := n1) (i := m) (Nat.le_refl _) ht
            simpa using this)
        simp only [this]

theorem deFields_off_le {fs : List Ty} :
    ∀ bs off vs e, deFields fs bs off = .ok (vs, e) → off ≤ e := by
  induction fs with
  | nil => intro bs off vs e hd; simp [deFields] at hd; omega
  | cons f fs ihf =>
    intro bs off vs e hd
    simp only [deFields] at hd
    split at hd
    · cases hd
    · rename_i v n1 h1
      split at hd
      · cases hd
      · rename_i vs' e' h2
        cases hd
        have := ihf _ _ _ _ h2
        have := padTo_ge (align f) off
        omega

theorem deFields_pf {fs : List Ty} (ih : ∀ f ∈ fs, PfOK f) :
    ∀ bs bs' off vs e L, deFields fs bs off = .ok (vs, e) → e ≤ L → L ≤ bs.length → L ≤ bs'.length →
      bs'.take L = bs.take L → deFields fs bs' off = .ok (vs, e) := by
  induction fs with
  | nil => intro bs bs' off vs e L hd _ _ _ _; simpa [deFields] using hd
  | cons f fs ihf =>
    intro bs bs' off vs e L hd hL hl hl' ht
    simp only [deFields] at hd ⊢
    split at hd
    · cases hd
    · rename_i v n1 h1
      split at hd
      · cases hd
      · rename_i vs' e' h2
        cases hd
        have hmono := deFields_off_le _ _ _ _ h2
        rw [ih f (List.mem_cons_self ..) (bs.drop (padTo (align f) off))
          (bs'.drop (padTo (align f) off)) v n1 h1 (by simp; omega) (by simp; omega)
          (take_drop_eq (by omega) ht)]
        simp only [ihf (fun g hg => ih g (List.mem_cons_of_mem _ hg)) bs bs' _ _ _ L h2 hL hl hl' ht]

theorem deNth_pf {fs : List Ty} (ih : ∀ f ∈ fs, PfOK f) :
    ∀ i bs bs' v n, deNth fs i bs = .ok (v, n) → n ≤ bs.length → n ≤ bs'.length →
      bs'.take n = bs.take n → deNth fs i bs' = .ok (v, n) := by
  induction fs with
  | nil => intro i bs bs' v n hd; simp [deNth] at hd
  | cons f fs ihf =>
    intro i bs bs' v n hd hl hl' ht
    cases i with
    | zero => simp only [deNth] at hd ⊢; exact ih f (List.mem_cons_self ..) _ _ _ _ hd hl hl' ht
    | succ i =>
      simp only [deNth] at hd ⊢
      exact ihf (fun g hg => ih g (List.mem_cons_of_mem _ hg)) i _ _ _ _ hd hl hl' ht

theorem pfOK (t : Ty) : PfOK t := by
  refine Ty.ind (P := PfOK) ?_ ?_ ?_ ?_ ?_ ?_ ?_ ?_ ?_ ?_ t
  · intro n m bs bs' v c h _ _ ht
    simp only [deBits] at h ⊢
    cases h; rw [readNat_congr ht]
  · intro n m bs bs' v c h _ _ ht
    simp only [deBits] at h ⊢
    cases h; rw [readNat_congr ht]
  · intro n m bs bs' v c h _ _ ht
    simp only [deBits] at h ⊢
    cases h; rw [readNat_congr ht]
  · intro bs bs' v c h _ _ ht
    simp only [deBits] at h ⊢
    cases h; rw [readNat_congr ht]
  · intro n bs bs' v c h _ _ _; simpa [deBits] using h
  · intro t n ih bs bs' v c h hl hl' ht
    simp only [deBits] at h ⊢
    split at h
    · cases h
    · rename_i vs used h1
      cases h
      simp only [deAll_pf ih _ _ _ _ _ h1 hl hl' ht]
  · intro t cap ih bs bs' v c h hl hl' ht
    simp only [deBits] at h ⊢
    split at h
    · cases h
    · rename_i hk
      split at h
      · cases h
      · rename_i vs used h1
        cases h
        rw [readNat_congr (take_eq_of_le (by omega) ht), if_neg hk]
        have := deAll_pf ih _ (bs.drop (prefixBits cap)) (bs'.drop (prefixBits cap)) vs used h1
          (by simp; omega) (by simp; omega) (take_drop_eq (Nat.le_refl _) ht)
        simp only [this]
  · intro fs ih bs bs' v c h hl hl' ht
    simp only [deBits] at h ⊢
    split at h
    · cases h
    · rename_i vs off h1
      cases h
      simp only [deFields_pf ih bs bs' 0 vs off _ h1 (padTo_ge 8 off) hl hl' ht]
  · intro fs ih bs bs' v c h hl hl' ht
    simp only [deBits] at h ⊢
    split at h
    · cases h
    · rename_i hk
      split at h
      · cases h
      · rename_i v' used h1
        cases h
        have hge := padTo_ge 8 (tagBits fs.length + used)
        rw [readNat_congr (take_eq_of_le (by omega) ht), if_neg hk]
        have := deNth_pf ih _ (bs.drop (tagBits fs.length)) (bs'.drop (tagBits fs.length)) v' used h1
          (by simp; omega) (by simp; omega) (take_drop_eq (by omega) ht)
        simp only [this]
  · intro e t _ bs bs' v c h hl hl' ht
    simp only [deBits] at h ⊢
    split at h
    · cases h
    · rename_i hk
      split at h
      · cases h
      · rename_i v' used h1
        cases h
        have hh : readNat headerBits bs' = readNat headerBits bs :=
          readNat_congr (take_eq_of_le (by omega) ht)
        rw [hh, if_neg (by simp only [List.length_drop]; omega),
          take_drop_eq (Nat.le_refl _) ht, h1]

/-! ### Where errors come from -/

mutual
def hasVarr : Ty → Bool
  | .arr t _ => hasVarr t
  | .varr _ _ => true
  | .struct fs => anyVarr fs
  | .union fs => anyVarr fs
  | .delim _ t => hasVarr t
  | _ => false
def anyVarr : List Ty → Bool
  | [] => false
  | f :: fs => hasVarr f || anyVarr fs
end

mutual
def hasUnion : Ty → Bool
  | .arr t _ => hasUnion t
  | .varr t _ => hasUnion t
  | .struct fs => anyUnion fs
  | .union _ => true
  | .delim _ t => hasUnion t
  | _ => false
def anyUnion : List Ty → Bool
  | [] => false
  | f :: fs => hasUnion f || anyUnion fs
end

mutual
def hasDelim : Ty → Bool
  | .arr t _ => hasDelim t
  | .varr t _ => hasDelim t
  | .struct fs => anyDelim fs
  | .union fs => anyDelim fs
  | .delim _ _ => true
  | _ => false
def anyDelim : List Ty → Bool
  | [] => false
  | f :: fs => hasDelim f || anyDelim fs
end

/-- Which constructor an error needs. -/
def needs : DeErr → Ty → Bool
  | .badArrayLength, t => hasVarr t
  | .badUnionTag, t => hasUnion t
  | .badDelimiterHeader, t => hasDelim t

def needsAny : DeErr → List Ty → Bool
  | .badArrayLength, fs => anyVarr fs
  | .badUnionTag, fs => anyUnion fs
  | .badDelimiterHeader, fs => anyDelim fs

theorem needsAny_cons (e : DeErr) (f : Ty) (fs : List Ty) :
    needsAny e (f :: fs) = (needs e f || needsAny e fs) := by
  cases e <;> simp [needsAny, needs, anyVarr, anyUnion, anyDelim]

/-- An error of kind `e` can only come out of a type that contains the matching constructor. -/
def OriginOK (t : Ty) : Prop := ∀ bs e, deBits t bs = .error e → needs e t = true

theorem deAll_origin {t : Ty} (h : OriginOK t) :
    ∀ c bs e, deAllWith (deBits t) c bs = .error e → needs e t = true := by
  intro c
  induction c with
  | zero => intro bs e hd; simp [deAllWith] at hd
  | succ c ih =>
    intro bs e hd
    simp only [deAllWith] at hd
    split at hd
    · rename_i e' h1; cases hd; exact h _ _ h1
    · split at hd
      · rename_i e' h2; cases hd; exact ih _ _ h2
      · cases hd

theorem deFields_origin {fs : List Ty} (ih : ∀ f ∈ fs, OriginOK f) :
    ∀ bs off e, deFields fs bs off = .error e → needsAny e fs = true := by
  induction fs with
  | nil => intro bs off e hd; simp [deFields] at hd
  | cons f fs ihf =>
    intro bs off e hd
    simp only [deFields] at hd
    rw [needsAny_cons, Bool.or_eq_true]
    split at hd
    · rename_i e' h1; cases hd; exact Or.inl (ih f (List.mem_cons_self ..) _ _ h1)
    · split at hd
      · rename_i e' h2; cases hd
        exact Or.inr (ihf (fun g hg => ih g (List.mem_cons_of_mem _ hg)) _ _ _ h2)
      · cases hd

theorem deNth_origin {fs : List Ty} (ih : ∀ f ∈ fs, OriginOK f) :
    ∀ i bs e, deNth fs i bs = .error e → e = .badUnionTag ∨ needsAny e fs = true := by
  induction fs with
  | nil => intro i bs e hd; simp [deNth] at hd; exact Or.inl hd.symm
  | cons f fs ihf =>
    intro i bs e hd
    rw [needsAny_cons, Bool.or_eq_true]
    cases i with
    | zero =>
      simp only [deNth] at hd
      exact Or.inr (Or.inl (ih f (List.mem_cons_self ..) _ _ hd))
    | succ i =>
      simp only [deNth] at hd
      rcases ihf (fun g hg => ih g (List.mem_cons_of_mem _ hg)) i _ _ hd with h | h
      · exact Or.inl h
      · exact Or.inr (Or.inr h)

theorem originOK (t : Ty) : OriginOK t := by
  refine Ty.ind (P := OriginOK) ?_ ?_ ?_ ?_ ?_ ?_ ?_ ?_ ?_ ?_ t
  · intro n m bs e h; simp [deBits] at h
  · intro n m bs e h; simp [deBits] at h
  · intro n m bs e h; simp [deBits] at h
  · intro bs e h; simp [deBits] at h
  · intro n bs e h; simp [deBits] at h
  · intro t n ih bs e h
    simp only [deBits] at h
    split at h
    · rename_i e' h1; cases h
      have := deAll_origin ih _ _ _ h1
      cases e <;> simpa [needs, hasVarr, hasUnion, hasDelim] using this
    · cases h
  · intro t cap ih bs e h
    simp only [deBits] at h
    split at h
    · cases h; simp [needs, hasVarr]
    · split at h
      · rename_i e' h1; cases h
        have := deAll_origin ih _ _ _ h1
        cases e <;> simp_all [needs, hasVarr, hasUnion, hasDelim]
      · cases h
  · intro fs ih bs e h
    simp only [deBits] at h
    split at h
    · rename_i e' h1; cases h
      have := deFields_origin ih _ _ _ h1
      cases e <;> simpa [needs, needsAny, hasVarr, hasUnion, hasDelim] using this
    · cases h
  · intro fs ih bs e h
    simp only [deBits] at h
    split at h
    · cases h; simp [needs, hasUnion]
    · split at h
      · rename_i e' h1; cases h
        rcases deNth_origin ih _ _ _ h1 with h2 | h2
        · subst h2; simp [needs, hasUnion]
        · cases e <;> simp_all [needs, needsAny, hasVarr, hasUnion, hasDelim]
      · cases h
  · intro ext t ih bs e h
    simp only [deBits] at h
    split at h
    · cases h; simp [needs, hasDelim]
    · split at h
      · rename_i e' h1; cases h
        have := ih _ _ h1
        cases e <;> simp_all [needs, hasVarr, hasUnion, hasDelim]
      · cases h

end NunavutVerif.Dsdl
