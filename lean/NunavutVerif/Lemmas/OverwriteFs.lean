import NunavutVerif.Model.OverwriteFs
import NunavutVerif.Lemmas.Overwrite
/-! Helper lemmas for the extended file-system model of C12 (`Model/OverwriteFs.lean`).  No Mathlib. -/
namespace NunavutVerif.OverwriteFs
open NunavutVerif.Overwrite (Content Mode File FilePP Env permBits ownerWrite addWriteBits applyPPs)

/-! ### basic facts -/

theorem FS.set_same (fs : FS) (p : P) (n : Node) : (fs.set p n) p = some n := by simp [FS.set]

theorem FS.set_other (fs : FS) (p q : P) (n : Node) (h : q ≠ p) : (fs.set p n) q = fs q := by simp [FS.set, h]

theorem Pres.refl (fs : FS) : Pres fs fs := fun _ _ h => h

theorem Pres.trans {a b c : FS} (h₁ : Pres a b) (h₂ : Pres b c) : Pres a c := fun p n h => h₂ p n (h₁ p n h)

theorem Pres.set_new {fs fs' : FS} (h : Pres fs fs') {q : P} (hq : fs q = none) (n : Node) : Pres fs (fs'.set q n) := by
  intro p m hp
  have : p ≠ q := by intro e; rw [e, hq] at hp; cases hp
  rw [FS.set_other _ _ _ _ this]; exact h p m hp

/-- `fs'` is `fs` plus directories at places where `fs` had nothing. -/
def AddDirs (fs fs' : FS) : Prop :=
  Pres fs fs' ∧ ∀ q, fs q = none → fs' q = none ∨ ∃ m, fs' q = some (.dir m)

theorem AddDirs.refl (fs : FS) : AddDirs fs fs := ⟨Pres.refl fs, fun _ h => .inl h⟩

theorem AddDirs.trans {a b c : FS} (h₁ : AddDirs a b) (h₂ : AddDirs b c) : AddDirs a c := by
  refine ⟨h₁.1.trans h₂.1, ?_⟩
  intro q hq
  rcases h₁.2 q hq with hb | ⟨m, hb⟩
  · exact h₂.2 q hb
  · exact .inr ⟨m, h₂.1 q _ hb⟩

theorem AddDirs.set_dir {fs fs' : FS} (h : AddDirs fs fs') {q : P} (hq : fs' q = none) (m : Mode) :
    AddDirs fs (fs'.set q (.dir m)) := by
  have hq0 : fs q = none := by
    cases hf : fs q with
    | none => rfl
    | some n => rw [h.1 q n hf] at hq; cases hq
  refine ⟨h.1.set_new hq0 _, ?_⟩
  intro x hx
  by_cases e : x = q
  · subst e; exact .inr ⟨m, FS.set_same _ _ _⟩
  · rw [FS.set_other _ _ _ _ e]; exact h.2 x hx

/-- An old entry of an `AddDirs` extension that is not a directory was there before. -/
theorem AddDirs.old_of_not_dir {fs fs' : FS} (h : AddDirs fs fs') {q : P} {n : Node} (hq : fs' q = some n)
    (hn : ∀ m, n ≠ .dir m) : fs q = some n := by
  cases hf : fs q with
  | some n' => have := h.1 q n' hf; rw [hq] at this; simp only [Option.some.injEq] at this; rw [this]
  | none =>
    rcases h.2 q hf with h' | ⟨m, h'⟩
    · rw [hq] at h'; cases h'
    · rw [hq] at h'; simp only [Option.some.injEq] at h'; exact absurd h' (hn m)

/-! ### tree shape -/

theorem isRealDir_root (fs : FS) : isRealDir fs [] = true := by simp [isRealDir]

theorem isRealDir_iff {fs : FS} {d : P} : isRealDir fs d = true ↔ d = [] ∨ ∃ m, fs d = some (.dir m) := by
  unfold isRealDir
  constructor
  · intro h
    simp only [Bool.or_eq_true, decide_eq_true_eq] at h
    rcases h with h | h
    · exact .inl h
    · split at h
      · rename_i m hm; exact .inr ⟨m, hm⟩
      · cases h
  · intro h
    rcases h with h | ⟨m, h⟩
    · simp [h]
    · simp [h]

/-- Below a place where a well-formed tree has nothing there is nothing. -/
theorem WF.none_below {fs : FS} (hw : WF fs) {d : P} (hd : fs d = none) (hne : d ≠ []) :
    ∀ (ext : List String), fs (d ++ ext) = none := by
  suffices h : ∀ (n : Nat) (ext : List String), ext.length = n → fs (d ++ ext) = none from fun ext => h _ ext rfl
  intro n
  induction n with
  | zero =>
    intro ext he
    have : ext = [] := List.eq_nil_of_length_eq_zero he
    subst this; simpa using hd
  | succ k ih =>
    intro ext he
    have hne' : ext ≠ [] := by intro e; subst e; simp at he
    have hsplit : ext.dropLast ++ [ext.getLast hne'] = ext := List.dropLast_concat_getLast hne'
    cases hx : fs (d ++ ext) with
    | none => rfl
    | some n =>
      obtain ⟨_, hp⟩ := hw _ _ hx
      have hdl : (d ++ ext).dropLast = d ++ ext.dropLast := by
        conv => lhs; rw [← hsplit, ← List.append_assoc, List.dropLast_concat]
      rw [hdl] at hp
      rcases isRealDir_iff.1 hp with h0 | ⟨m, hm⟩
      · exact absurd (List.append_eq_nil_iff.1 h0).1 hne
      · rw [ih ext.dropLast (by simp [he])] at hm; cases hm

theorem WF.set_file_existing {fs : FS} (hw : WF fs) {q : P} {f : File} (hq : fs q = some (.file f)) (f' : File) :
    WF (fs.set q (.file f')) := by
  intro p n hp
  by_cases e : p = q
  · subst e
    obtain ⟨h1, h2⟩ := hw _ _ hq
    refine ⟨h1, ?_⟩
    rcases isRealDir_iff.1 h2 with h0 | ⟨m, hm⟩
    · exact isRealDir_iff.2 (.inl h0)
    · have : p.dropLast ≠ p := by
        intro e2; rw [e2, hq] at hm; cases hm
      exact isRealDir_iff.2 (.inr ⟨m, by rw [FS.set_other _ _ _ _ this]; exact hm⟩)
  · rw [FS.set_other _ _ _ _ e] at hp
    obtain ⟨h1, h2⟩ := hw _ _ hp
    refine ⟨h1, ?_⟩
    rcases isRealDir_iff.1 h2 with h0 | ⟨m, hm⟩
    · exact isRealDir_iff.2 (.inl h0)
    · have : p.dropLast ≠ q := by
        intro e2; rw [e2, hq] at hm; cases hm
      exact isRealDir_iff.2 (.inr ⟨m, by rw [FS.set_other _ _ _ _ this]; exact hm⟩)

/-- A new entry in an existing (real) directory keeps the tree shape. -/
theorem WF.set_new {fs : FS} (hw : WF fs) {q : P} (hq : fs q = none) (hne : q ≠ []) (hp : isRealDir fs q.dropLast = true)
    (n : Node) : WF (fs.set q n) := by
  have keep : ∀ d, isRealDir fs d = true → isRealDir (fs.set q n) d = true := by
    intro d hd
    rcases isRealDir_iff.1 hd with h0 | ⟨m, hm⟩
    · exact isRealDir_iff.2 (.inl h0)
    · have : d ≠ q := by intro e; rw [e, hq] at hm; cases hm
      exact isRealDir_iff.2 (.inr ⟨m, by rw [FS.set_other _ _ _ _ this]; exact hm⟩)
  intro p m hpm
  by_cases e : p = q
  · subst e; exact ⟨hne, keep _ hp⟩
  · rw [FS.set_other _ _ _ _ e] at hpm
    obtain ⟨h1, h2⟩ := hw _ _ hpm
    exact ⟨h1, keep _ h2⟩

/-! ### resolution -/

theorem dropLast_append_singleton (xs : P) (x : String) : (xs ++ [x]).dropLast = xs := List.dropLast_concat

/-- What the two positive outcomes of a resolution say about the tree. -/
theorem walk_facts (fs : FS) (cur : P) (rest : List String) :
    isRealDir fs cur = true →
    (∀ q, walk fs cur rest = .missing q → fs q = none ∧ q ≠ [] ∧ isRealDir fs q.dropLast = true) ∧
    (∀ q n, walk fs cur rest = .found q n →
      (rest = [] ∧ q = cur) ∨ (fs q = some n ∧ ∀ t, n ≠ .link t)) := by
  fun_induction walk fs cur rest
  all_goals intro hcur
  all_goals try (simp_all [walk]; done)
  all_goals
    rename_i ih
    have h := ih (isRealDir_iff.2 (.inr ⟨_, by assumption⟩))
    refine ⟨h.1, ?_⟩
    intro q n hq
    rcases h.2 q n hq with ⟨h0, _⟩ | h2
    · exact absurd h0 (by assumption)
    · exact .inr h2

/-- Below a place where the old tree has nothing, a tree that only gained directories never resolves to a file. -/
theorem walk_below_new {fs fs2 : FS} (h : AddDirs fs fs2) (cur : P) (rest : List String) :
    (∀ ext, fs (cur ++ ext) = none) → ∀ q f, walk fs2 cur rest ≠ .found q (.file f) := by
  fun_induction walk fs2 cur rest
  all_goals intro hb q f
  all_goals try (simp [walk]; done)
  all_goals
    have key : ∀ x : String, fs2 (_ ++ [x]) = none ∨ ∃ m, fs2 (_ ++ [x]) = some (.dir m) := fun x => h.2 _ (hb [x])
    have k := key (by assumption)
    first
      | (rcases k with k | ⟨m, k⟩ <;> simp_all [walk]; done)
      | (rename_i hn; rcases k with k | ⟨m, k⟩
         · rw [k] at hn; cases hn
         · rw [k] at hn; simp only [Option.some.injEq] at hn; subst hn; intro hc; cases hc)
      | (rename_i ih; apply ih; intro ext; have := hb ([_] ++ ext); simpa [List.append_assoc] using this)

/-- If a tree that only gained directories resolves a path to a file, the old tree resolved it to the same file. -/
theorem walk_old_file {fs fs2 : FS} (hw : WF fs) (hw2 : WF fs2) (h : AddDirs fs fs2) (cur : P) (rest : List String) :
    ∀ q f, walk fs2 cur rest = .found q (.file f) → walk fs cur rest = .found q (.file f) := by
  fun_induction walk fs2 cur rest
  all_goals intro q f hf
  all_goals try (simp [walk] at hf; done)
  · -- the last component is a link to an existing entry
    rename_i cur name t hl n hn ht
    simp only [Res.found.injEq] at hf
    obtain ⟨rfl, rfl⟩ := hf
    have hl' := h.old_of_not_dir hl (by intro m hc; cases hc)
    have ht' := h.old_of_not_dir ht (by intro m hc; cases hc)
    simp [walk, hl', ht']
  · rename_i cur name n hn hx
    simp only [Res.found.injEq] at hf
    obtain ⟨rfl, rfl⟩ := hf
    have hx' := h.old_of_not_dir hx (by intro m hc; cases hc)
    simp [walk, hx']
  · -- a directory on the way: old, or new (then nothing old is below it)
    rename_i cur name rest hne mode hd ih
    cases ho : fs (cur ++ [name]) with
    | some n =>
      have := h.1 _ _ ho
      rw [hd] at this; simp only [Option.some.injEq] at this; subst this
      rw [walk.eq_3 _ _ _ _ hne, ho]
      exact ih q f hf
    | none =>
      exfalso
      have hnn : cur ++ [name] ≠ [] := by simp
      exact walk_below_new h (cur ++ [name]) rest (hw.none_below ho hnn) q f hf
  · -- a link to a directory on the way
    rename_i cur name rest hne t hl mode ht ih
    have hl' := h.old_of_not_dir hl (by intro m hc; cases hc)
    cases ho : fs t with
    | some n =>
      have := h.1 _ _ ho
      rw [ht] at this; simp only [Option.some.injEq] at this; subst this
      rw [walk.eq_3 _ _ _ _ hne, hl']
      simp only [ho]
      exact ih q f hf
    | none =>
      exfalso
      have hnn : t ≠ [] := by
        intro e; subst e; exact (hw2 _ _ ht).1 rfl
      exact walk_below_new h t rest (hw.none_below ho hnn) q f hf

/-- Replace the node a resolution ends at. -/
def Res.upd (q : P) (n' : Node) : Res → Res
  | .found r n => .found r (if r = q then n' else n)
  | x => x

theorem isRealDir_set_file {fs : FS} {q : P} {f f' : File} (hq : fs q = some (.file f)) (d : P) :
    isRealDir (fs.set q (.file f')) d = isRealDir fs d := by
  unfold isRealDir FS.set
  by_cases e : d = q
  · subst e; simp [hq]
  · simp [e]

theorem set_file_none {fs : FS} {q : P} {f : File} (hq : fs q = some (.file f)) (f' : File) {x : P} (hx : fs x = none) :
    (fs.set q (.file f')) x = none := by
  have : x ≠ q := by intro e; rw [e, hq] at hx; cases hx
  rw [FS.set_other _ _ _ _ this]; exact hx

theorem set_file_link {fs : FS} {q : P} {f : File} (hq : fs q = some (.file f)) (f' : File) {x t : P}
    (hx : fs x = some (.link t)) : (fs.set q (.file f')) x = some (.link t) := by
  have : x ≠ q := by intro e; rw [e, hq] at hx; cases hx
  rw [FS.set_other _ _ _ _ this]; exact hx

theorem set_file_dir {fs : FS} {q : P} {f : File} (hq : fs q = some (.file f)) (f' : File) {x : P} {m : Mode}
    (hx : fs x = some (.dir m)) : (fs.set q (.file f')) x = some (.dir m) := by
  have : x ≠ q := by intro e; rw [e, hq] at hx; cases hx
  rw [FS.set_other _ _ _ _ this]; exact hx

theorem set_file_file {fs : FS} {q : P} (f' : File) {x : P} {g : File}
    (hx : fs x = some (.file g)) : (fs.set q (.file f')) x = some (.file (if x = q then f' else g)) := by
  by_cases e : x = q
  · subst e; simp [FS.set]
  · simp [FS.set, e, hx]

/-- Changing content / mode of a file does not change how any path resolves, only what is found at that file. -/
theorem walk_set_file {fs : FS} {q : P} {f f' : File} (hq : fs q = some (.file f)) (cur : P) (rest : List String)
    (hne : rest ≠ []) : walk (fs.set q (.file f')) cur rest = (walk fs cur rest).upd q (.file f') := by
  fun_induction walk fs cur rest
  all_goals try (exact absurd rfl hne)
  -- `[name]`
  · rename_i cur name h1
    rw [walk.eq_2, set_file_none hq f' h1]; rfl
  · rename_i cur name t h1 t2 h2
    rw [walk.eq_2, set_file_link hq f' h1]; simp only [set_file_link hq f' h2]; rfl
  · rename_i cur name t h1 n hn h2
    rw [walk.eq_2, set_file_link hq f' h1]
    cases n with
    | link t' => exact absurd rfl (hn t')
    | dir m => simp only [set_file_dir hq f' h2, Res.upd]; have : t ≠ q := by intro e; rw [e, hq] at h2; cases h2
               simp [this]
    | file g => simp only [set_file_file f' h2, Res.upd]; by_cases e : t = q <;> simp [e]
  · rename_i cur name t h1 h2 h3
    rw [walk.eq_2, set_file_link hq f' h1]; simp only [set_file_none hq f' h2, isRealDir_set_file hq, h3]; rfl
  · rename_i cur name h1 h2 h3
    rw [walk.eq_2, set_file_link hq f' h1]; simp only [set_file_none hq f' h2, isRealDir_set_file hq]; simp [Res.upd]
  · rename_i cur name t h1 h2 h3 h4
    rw [walk.eq_2, set_file_link hq f' h1]; simp only [set_file_none hq f' h2, isRealDir_set_file hq, h3, h4]; simp [Res.upd]
  · rename_i cur name n hn h1
    rw [walk.eq_2]
    cases n with
    | link t' => exact absurd rfl (hn t')
    | dir m => simp only [set_file_dir hq f' h1, Res.upd]; have : cur ++ [name] ≠ q := by intro e; rw [e, hq] at h1; cases h1
               simp [this]
    | file g => simp only [set_file_file f' h1, Res.upd]; by_cases e : cur ++ [name] = q <;> simp [e]
  -- `name :: rest`
  · rename_i cur name rest hr h1
    rw [walk.eq_3 _ _ _ _ hr, set_file_none hq f' h1]; rfl
  · rename_i cur name rest hr m h1 ih
    rw [walk.eq_3 _ _ _ _ hr, set_file_dir hq f' h1]; exact ih (fun e => hr e)
  · rename_i cur name rest hr g h1
    rw [walk.eq_3 _ _ _ _ hr, set_file_file f' h1]; rfl
  · rename_i cur name rest hr t h1 m h2 ih
    rw [walk.eq_3 _ _ _ _ hr, set_file_link hq f' h1]; simp only [set_file_dir hq f' h2]; exact ih (fun e => hr e)
  · rename_i cur name rest hr t h1 g h2
    rw [walk.eq_3 _ _ _ _ hr, set_file_link hq f' h1]; simp only [set_file_file f' h2]; rfl
  · rename_i cur name rest hr t h1 t2 h2
    rw [walk.eq_3 _ _ _ _ hr, set_file_link hq f' h1]; simp only [set_file_link hq f' h2]; rfl
  · rename_i cur name rest hr h1 h2
    rw [walk.eq_3 _ _ _ _ hr, set_file_link hq f' h1]; simp only [set_file_none hq f' h2]; rfl
  · rename_i cur name rest hr t h1 h2 h3
    rw [walk.eq_3 _ _ _ _ hr, set_file_link hq f' h1]; simp only [set_file_none hq f' h2, h3]; rfl

theorem set_new_some {fs : FS} {q : P} (hq : fs q = none) (n : Node) {x : P} {k : Node} (hx : fs x = some k) :
    (fs.set q n) x = some k := by
  have : x ≠ q := by intro e; rw [e, hq] at hx; cases hx
  rw [FS.set_other _ _ _ _ this]; exact hx

/-- Creating the file a resolution reported as creatable makes the path resolve to it. -/
theorem walk_set_new_missing {fs : FS} (cur : P) (rest : List String) (q : P) (f' : File) (hq : fs q = none) :
    walk fs cur rest = .missing q → walk (fs.set q (.file f')) cur rest = .found q (.file f') := by
  fun_induction walk fs cur rest
  all_goals intro hm
  all_goals try (simp at hm; done)
  · rename_i cur name h1
    simp only [Res.missing.injEq] at hm; subst hm
    rw [walk.eq_2, FS.set_same]
  · rename_i cur name t h1 h2 h3
    simp only [Res.missing.injEq] at hm; subst hm
    rw [walk.eq_2, set_new_some hq _ h1]; simp only [FS.set_same]
  · rename_i cur name rest hr m h1 ih
    rw [walk.eq_3 _ _ _ _ hr, set_new_some hq _ h1]; exact ih hm
  · rename_i cur name rest hr t h1 m h2 ih
    rw [walk.eq_3 _ _ _ _ hr, set_new_some hq _ h1]; simp only [set_new_some hq _ h2]; exact ih hm

/-- A new entry does not change the resolution of a path that resolved to something. -/
theorem walk_set_new_found {fs : FS} (cur : P) (rest : List String) (q : P) (x : Node) (hq : fs q = none) :
    ∀ r n, walk fs cur rest = .found r n → walk (fs.set q x) cur rest = .found r n := by
  fun_induction walk fs cur rest
  all_goals intro r n hf
  all_goals try (simp at hf; done)
  · simp only [walk] at hf ⊢; exact hf
  · rename_i cur name t h1 n' hn h2
    rw [walk.eq_2, set_new_some hq _ h1]; simp only [set_new_some hq _ h2]
    cases n' with
    | link t' => exact absurd rfl (hn t')
    | dir m => exact hf
    | file g => exact hf
  · rename_i cur name n' hn h1
    rw [walk.eq_2, set_new_some hq _ h1]
    cases n' with
    | link t' => exact absurd rfl (hn t')
    | dir m => exact hf
    | file g => exact hf
  · rename_i cur name rest hr m h1 ih
    rw [walk.eq_3 _ _ _ _ hr, set_new_some hq _ h1]; exact ih r n hf
  · rename_i cur name rest hr t h1 m h2 ih
    rw [walk.eq_3 _ _ _ _ hr, set_new_some hq _ h1]; simp only [set_new_some hq _ h2]; exact ih r n hf

/-! ### `mkdir` -/

theorem resolve_found_dir_real {fs : FS} {p q : P} {m : Mode} (h : resolve fs p = .found q (.dir m)) :
    isRealDir fs q = true := by
  rcases (walk_facts fs [] p (isRealDir_root fs)).2 q _ h with ⟨_, hq⟩ | ⟨hq, _⟩
  · rw [hq]; exact isRealDir_root fs
  · exact isRealDir_iff.2 (.inr ⟨m, hq⟩)

theorem mkdir1_ok {env : EnvFs} {fs fs' : FS} {rp : List String} (h : mkdir1 env fs rp = .ok fs') :
    AddDirs fs fs' ∧ (WF fs → WF fs') := by
  unfold mkdir1 at h
  split at h
  · cases h
  · rename_i name revParent
    simp only at h
    split at h
    · rename_i q m hres
      split at h
      · cases h
      · rename_i hnone
        split at h
        · simp only [MkRes.ok.injEq] at h
          subst h
          exact ⟨(AddDirs.refl fs).set_dir hnone _, fun hw => hw.set_new hnone (by simp)
            (by rw [dropLast_append_singleton]; exact resolve_found_dir_real hres) _⟩
        · cases h
    all_goals cases h

theorem mkdirP_addDirs (env : EnvFs) : ∀ (rp : List String) (fs : FS),
    AddDirs fs (mkdirP env fs rp).fs ∧ (WF fs → WF (mkdirP env fs rp).fs) := by
  intro rp
  induction rp with
  | nil => intro fs; exact ⟨AddDirs.refl fs, id⟩
  | cons name revParent ih =>
    intro fs
    unfold mkdirP
    simp only
    split
    · rename_i fs' h1; exact mkdir1_ok h1
    · split <;> exact ⟨AddDirs.refl fs, id⟩
    · have hup := ih fs
      split
      · exact hup
      · split
        · rename_i fs' h2
          have := mkdir1_ok h2
          exact ⟨hup.1.trans this.1, fun hw => this.2 (hup.2 hw)⟩
        · exact hup
        · split <;> exact hup

/-- Whatever a path resolved to, it still resolves to in a tree that kept every old entry. -/
theorem walk_pres_found {fs fs2 : FS} (h : Pres fs fs2) (cur : P) (rest : List String) :
    ∀ r n, walk fs cur rest = .found r n → walk fs2 cur rest = .found r n := by
  fun_induction walk fs cur rest
  all_goals intro r n hf
  all_goals try (simp at hf; done)
  · simp only [walk] at hf ⊢; exact hf
  · rename_i cur name t h1 n' hn h2
    rw [walk.eq_2, h _ _ h1]; simp only [h _ _ h2]
    cases n' with
    | link t' => exact absurd rfl (hn t')
    | dir m => exact hf
    | file g => exact hf
  · rename_i cur name n' hn h1
    rw [walk.eq_2, h _ _ h1]
    cases n' with
    | link t' => exact absurd rfl (hn t')
    | dir m => exact hf
    | file g => exact hf
  · rename_i cur name rest hr m h1 ih
    rw [walk.eq_3 _ _ _ _ hr, h _ _ h1]; exact ih r n hf
  · rename_i cur name rest hr t h1 m h2 ih
    rw [walk.eq_3 _ _ _ _ hr, h _ _ h1]; simp only [h _ _ h2]; exact ih r n hf

theorem set_dir_none {fs : FS} {q : P} {m : Mode} (hq : fs q = some (.dir m)) (m' : Mode) {x : P} (hx : fs x = none) :
    (fs.set q (.dir m')) x = none := by
  have : x ≠ q := by intro e; rw [e, hq] at hx; cases hx
  rw [FS.set_other _ _ _ _ this]; exact hx

theorem set_dir_link {fs : FS} {q : P} {m : Mode} (hq : fs q = some (.dir m)) (m' : Mode) {x t : P}
    (hx : fs x = some (.link t)) : (fs.set q (.dir m')) x = some (.link t) := by
  have : x ≠ q := by intro e; rw [e, hq] at hx; cases hx
  rw [FS.set_other _ _ _ _ this]; exact hx

theorem set_dir_file {fs : FS} {q : P} {m : Mode} (hq : fs q = some (.dir m)) (m' : Mode) {x : P} {g : File}
    (hx : fs x = some (.file g)) : (fs.set q (.dir m')) x = some (.file g) := by
  have : x ≠ q := by intro e; rw [e, hq] at hx; cases hx
  rw [FS.set_other _ _ _ _ this]; exact hx

theorem set_dir_dir {fs : FS} {q : P} (m' : Mode) {x : P} {k : Mode}
    (hx : fs x = some (.dir k)) : (fs.set q (.dir m')) x = some (.dir (if x = q then m' else k)) := by
  by_cases e : x = q
  · subst e; simp [FS.set]
  · simp [FS.set, e, hx]

theorem isRealDir_set_dir {fs : FS} {q : P} {m m' : Mode} (hq : fs q = some (.dir m)) (d : P) :
    isRealDir (fs.set q (.dir m')) d = isRealDir fs d := by
  unfold isRealDir FS.set
  by_cases e : d = q
  · subst e; simp [hq]
  · simp [e]

/-- Changing the mode of a directory does not change how any path resolves, only what is found at that directory. -/
theorem walk_set_dir {fs : FS} {q : P} {m m' : Mode} (hq : fs q = some (.dir m)) (cur : P) (rest : List String)
    (hne : rest ≠ []) : walk (fs.set q (.dir m')) cur rest = (walk fs cur rest).upd q (.dir m') := by
  fun_induction walk fs cur rest
  all_goals try (exact absurd rfl hne)
  · rename_i cur name h1
    rw [walk.eq_2, set_dir_none hq m' h1]; rfl
  · rename_i cur name t h1 t2 h2
    rw [walk.eq_2, set_dir_link hq m' h1]; simp only [set_dir_link hq m' h2]; rfl
  · rename_i cur name t h1 n hn h2
    rw [walk.eq_2, set_dir_link hq m' h1]
    cases n with
    | link t' => exact absurd rfl (hn t')
    | file g => simp only [set_dir_file hq m' h2, Res.upd]; have : t ≠ q := by intro e; rw [e, hq] at h2; cases h2
                simp [this]
    | dir k => simp only [set_dir_dir m' h2, Res.upd]; by_cases e : t = q <;> simp [e]
  · rename_i cur name t h1 h2 h3
    rw [walk.eq_2, set_dir_link hq m' h1]; simp only [set_dir_none hq m' h2, isRealDir_set_dir hq, h3]; rfl
  · rename_i cur name h1 h2 h3
    rw [walk.eq_2, set_dir_link hq m' h1]; simp only [set_dir_none hq m' h2, isRealDir_set_dir hq]; simp [Res.upd]
  · rename_i cur name t h1 h2 h3 h4
    rw [walk.eq_2, set_dir_link hq m' h1]; simp only [set_dir_none hq m' h2, isRealDir_set_dir hq, h3, h4]; simp [Res.upd]
  · rename_i cur name n hn h1
    rw [walk.eq_2]
    cases n with
    | link t' => exact absurd rfl (hn t')
    | file g => simp only [set_dir_file hq m' h1, Res.upd]; have : cur ++ [name] ≠ q := by intro e; rw [e, hq] at h1; cases h1
                simp [this]
    | dir k => simp only [set_dir_dir m' h1, Res.upd]; by_cases e : cur ++ [name] = q <;> simp [e]
  · rename_i cur name rest hr h1
    rw [walk.eq_3 _ _ _ _ hr, set_dir_none hq m' h1]; rfl
  · rename_i cur name rest hr k h1 ih
    rw [walk.eq_3 _ _ _ _ hr, set_dir_dir m' h1]; exact ih (fun e => hr e)
  · rename_i cur name rest hr g h1
    rw [walk.eq_3 _ _ _ _ hr, set_dir_file hq m' h1]; rfl
  · rename_i cur name rest hr t h1 k h2 ih
    rw [walk.eq_3 _ _ _ _ hr, set_dir_link hq m' h1]; simp only [set_dir_dir m' h2]; exact ih (fun e => hr e)
  · rename_i cur name rest hr t h1 g h2
    rw [walk.eq_3 _ _ _ _ hr, set_dir_link hq m' h1]; simp only [set_dir_file hq m' h2]; rfl
  · rename_i cur name rest hr t h1 t2 h2
    rw [walk.eq_3 _ _ _ _ hr, set_dir_link hq m' h1]; simp only [set_dir_link hq m' h2]; rfl
  · rename_i cur name rest hr h1 h2
    rw [walk.eq_3 _ _ _ _ hr, set_dir_link hq m' h1]; simp only [set_dir_none hq m' h2]; rfl
  · rename_i cur name rest hr t h1 h2 h3
    rw [walk.eq_3 _ _ _ _ hr, set_dir_link hq m' h1]; simp only [set_dir_none hq m' h2, h3]; rfl

/-! ### one file -/

theorem FS.set_set (fs : FS) (q : P) (a b : Node) : (fs.set q a).set q b = fs.set q b := by
  funext x; simp only [FS.set]; split <;> rfl

theorem WF.set_dir_existing {fs : FS} (hw : WF fs) {q : P} {m : Mode} (hq : fs q = some (.dir m)) (m' : Mode) :
    WF (fs.set q (.dir m')) := by
  have keep : ∀ d, isRealDir fs d = true → isRealDir (fs.set q (.dir m')) d = true := by
    intro d hd; rw [isRealDir_set_dir hq]; exact hd
  intro p n hp
  by_cases e : p = q
  · subst e
    obtain ⟨h1, h2⟩ := hw _ _ hq
    exact ⟨h1, keep _ h2⟩
  · rw [FS.set_other _ _ _ _ e] at hp
    obtain ⟨h1, h2⟩ := hw _ _ hp
    exact ⟨h1, keep _ h2⟩

/-- What `open(…, "w")` did when it succeeded. -/
theorem openTrunc_ok {env : EnvFs} {p q : P} {fs fs3 : FS} {m : Mode} (h : openTrunc env p fs = .ok (fs3, q, m)) :
    (∃ f, resolve fs p = .found q (.file f) ∧ fs q = some (.file f) ∧ m = f.mode ∧ fs3 = fs.set q (.file ⟨"", f.mode⟩)) ∨
    (resolve fs p = .missing q ∧ fs q = none ∧ q ≠ [] ∧ isRealDir fs q.dropLast = true ∧ m = env.createMode ∧
      fs3 = fs.set q (.file ⟨"", env.createMode⟩)) := by
  unfold openTrunc at h
  split at h
  · rename_i q' f hres
    split at h
    · simp only [Except.ok.injEq, Prod.mk.injEq] at h
      obtain ⟨rfl, rfl, rfl⟩ := h
      left
      have hf := (walk_facts fs [] p (isRealDir_root fs)).2 _ _ hres
      rcases hf with ⟨hp, hq⟩ | ⟨hq, _⟩
      · subst hp; simp [resolve, walk] at hres
      · exact ⟨f, hres, hq, rfl, rfl⟩
    · cases h
  · cases h
  · cases h
  · rename_i q' hres
    split at h
    · simp only [Except.ok.injEq, Prod.mk.injEq] at h
      obtain ⟨rfl, rfl, rfl⟩ := h
      right
      obtain ⟨h1, h2, h3⟩ := (walk_facts fs [] p (isRealDir_root fs)).1 _ hres
      exact ⟨hres, h1, h2, h3, rfl, rfl⟩
    · cases h
  · cases h
  · cases h
  · cases h

theorem afterOpen_fs (pps : List FilePP) (w : Write) (q : P) (m : Mode) (fs : FS) (ops : List Op) :
    ∃ f, (afterOpen pps w q m fs ops).fs = fs.set q (.file f) := by
  unfold afterOpen; split <;> exact ⟨_, rfl⟩

/-- `--no-overwrite`: one file.  Nothing that was there changes — no file, no directory, no link — and the tree keeps its
shape. -/
theorem writeFile_noow (env : EnvFs) (pps : List FilePP) (w : Write) (fs : FS) (hw : WF fs) :
    Pres fs (writeFile env false pps w fs).fs ∧ WF (writeFile env false pps w fs).fs := by
  unfold writeFile gate
  cases hres : resolve fs w.path with
  | found q n => simp only [Bool.false_eq_true, if_false]; exact ⟨Pres.refl fs, hw⟩
  | missing _ | noent | notdir | loop =>
    simp only
    have hmk := mkdirP_addDirs env w.path.dropLast.reverse fs
    generalize mkdirP env fs w.path.dropLast.reverse = mk at hmk ⊢
    cases hme : mk.err with
    | some e => simp only; exact ⟨hmk.1.1, hmk.2 hw⟩
    | none =>
      simp only
      cases hop : openTrunc env w.path mk.fs with
      | error e => simp only; exact ⟨hmk.1.1, hmk.2 hw⟩
      | ok r =>
        obtain ⟨fs3, q, m⟩ := r
        simp only
        obtain ⟨f', hfs⟩ := afterOpen_fs pps w q m fs3 ([] ++ mk.ops ++ [Op.openW w.path])
        rw [hfs]
        rcases openTrunc_ok hop with ⟨f, hr, _, _, _⟩ | ⟨hr, hq, hne, hpar, _, rfl⟩
        · -- would truncate an old file: the old tree then resolved the path too
          have := walk_old_file hw (hmk.2 hw) hmk.1 [] w.path q f hr
          unfold resolve at hres; rw [hres] at this; cases this
        · rw [FS.set_set]
          have hq0 : fs q = none := by
            cases hf : fs q with
            | none => rfl
            | some n => rw [hmk.1.1 q n hf] at hq; cases hq
          exact ⟨hmk.1.1.set_new hq0 _, (hmk.2 hw).set_new hq hne hpar _⟩

theorem afterOpen_ok {pps : List FilePP} {w : Write} {q : P} {m : Mode} {fs : FS} {ops : List Op}
    (h : (afterOpen pps w q m fs ops).err = none) :
    w.renderOk = true ∧ (applyPPs (pathStr w.path) pps 0 ⟨w.content, startMode w m⟩).err = none ∧
    (afterOpen pps w q m fs ops).fs = fs.set q (.file (applyPPs (pathStr w.path) pps 0 ⟨w.content, startMode w m⟩).file) := by
  unfold afterOpen at h ⊢
  split
  · rename_i hr
    simp only [hr, if_true] at h
    refine ⟨hr, ?_, rfl⟩
    cases he : (applyPPs (pathStr w.path) pps 0 ⟨w.content, startMode w m⟩).err with
    | none => rfl
    | some e => rw [he] at h; cases h
  · rename_i hr; simp [hr] at h

theorem resolve_file_nonempty {fs : FS} {p q : P} {f : File} (h : resolve fs p = .found q (.file f)) : p ≠ [] := by
  intro e; subst e; simp [resolve, walk] at h

/-- Overwriting allowed, one file written successfully: the path now resolves — through whatever links — to a file
holding what this write produced; every other entry of the tree is what it was (links stay links, directories keep their
mode); the entry that changed was a regular file or did not exist. -/
theorem writeFile_allow_ok (env : EnvFs) (pps : List FilePP) (w : Write) (fs : FS) (hw : WF fs) (hp : w.path ≠ [])
    (hok : (writeFile env true pps w fs).err = none) :
    ∃ q m, w.renderOk = true ∧ (applyPPs (pathStr w.path) pps 0 ⟨w.content, startMode w m⟩).err = none ∧
      resolve (writeFile env true pps w fs).fs w.path =
        .found q (.file (applyPPs (pathStr w.path) pps 0 ⟨w.content, startMode w m⟩).file) ∧
      (∀ x n, fs x = some n → x ≠ q → (writeFile env true pps w fs).fs x = some n) ∧
      ((∃ f, fs q = some (.file f)) ∨ fs q = none) := by
  unfold writeFile gate at hok ⊢
  cases hres : resolve fs w.path with
  | found q0 n0 =>
    simp only [hres, if_true] at hok ⊢
    have hq0 : fs q0 = some n0 := by
      rcases (walk_facts fs [] w.path (isRealDir_root fs)).2 _ _ hres with ⟨hp', _⟩ | ⟨hq, _⟩
      · exact absurd hp' hp
      · exact hq
    cases n0 with
    | link t => simp at hok
    | dir m0 =>
      -- a directory at the output path: the open fails
      exfalso
      simp only at hok
      have hmk := mkdirP_addDirs env w.path.dropLast.reverse (fs.set q0 (.dir (addWriteBits m0)))
      generalize mkdirP env (fs.set q0 (.dir (addWriteBits m0))) w.path.dropLast.reverse = mk at hmk hok
      have hr1 : resolve (fs.set q0 (.dir (addWriteBits m0))) w.path = .found q0 (.dir (addWriteBits m0)) := by
        unfold resolve at hres ⊢
        rw [walk_set_dir hq0 [] w.path hp, hres]; simp [Res.upd]
      have hr2 : resolve mk.fs w.path = .found q0 (.dir (addWriteBits m0)) := walk_pres_found hmk.1.1 [] w.path _ _ hr1
      cases hme : mk.err with
      | some e => simp [hme] at hok
      | none =>
        simp only [hme] at hok
        simp only [openTrunc, hr2] at hok
        cases hok
    | file f0 =>
      simp only at hok ⊢
      have hmk := mkdirP_addDirs env w.path.dropLast.reverse (fs.set q0 (.file { f0 with mode := addWriteBits f0.mode }))
      generalize mkdirP env (fs.set q0 (.file { f0 with mode := addWriteBits f0.mode })) w.path.dropLast.reverse = mk at hmk hok ⊢
      have hr1 : resolve (fs.set q0 (.file { f0 with mode := addWriteBits f0.mode })) w.path =
          .found q0 (.file { f0 with mode := addWriteBits f0.mode }) := by
        unfold resolve at hres ⊢
        rw [walk_set_file hq0 [] w.path hp, hres]; simp [Res.upd]
      have hr2 := walk_pres_found hmk.1.1 [] w.path _ _ hr1
      have hmq : mk.fs q0 = some (.file { f0 with mode := addWriteBits f0.mode }) := hmk.1.1 _ _ (FS.set_same _ _ _)
      cases hme : mk.err with
      | some e => simp [hme] at hok
      | none =>
        simp only [hme] at hok ⊢
        have hopen : openTrunc env w.path mk.fs =
            .ok (mk.fs.set q0 (.file ⟨"", addWriteBits f0.mode⟩), q0, addWriteBits f0.mode) := by
          unfold openTrunc resolve; unfold resolve at hr2
          rw [hr2]; simp [Overwrite.ownerWrite_addWriteBits]
        rw [hopen] at hok ⊢
        simp only at hok ⊢
        obtain ⟨hr, he, hfs⟩ := afterOpen_ok hok
        refine ⟨q0, addWriteBits f0.mode, hr, he, ?_, ?_, .inl ⟨f0, hq0⟩⟩
        · rw [hfs, FS.set_set]
          unfold resolve at hr2 ⊢
          rw [walk_set_file hmq [] w.path hp, hr2]; simp [Res.upd]
        · intro x n hx hne
          rw [hfs, FS.set_set, FS.set_other _ _ _ _ hne]
          exact hmk.1.1 x n (by rw [FS.set_other _ _ _ _ hne]; exact hx)
  | missing _ | noent | notdir | loop =>
    simp only [hres] at hok ⊢
    have hmk := mkdirP_addDirs env w.path.dropLast.reverse fs
    generalize mkdirP env fs w.path.dropLast.reverse = mk at hmk hok ⊢
    cases hme : mk.err with
    | some e => simp [hme] at hok
    | none =>
      simp only [hme] at hok ⊢
      cases hop : openTrunc env w.path mk.fs with
      | error e => simp [hop] at hok
      | ok r =>
        obtain ⟨fs3, q, m⟩ := r
        simp only [hop] at hok ⊢
        obtain ⟨hr, he, hfs⟩ := afterOpen_ok hok
        rcases openTrunc_ok hop with ⟨f, hrf, _, _, _⟩ | ⟨hrm, hq, hne, hpar, rfl, rfl⟩
        · have := walk_old_file hw (hmk.2 hw) hmk.1 [] w.path q f hrf
          unfold resolve at hres; rw [hres] at this; cases this
        · have hq0 : fs q = none := by
            cases hf : fs q with
            | none => rfl
            | some n => rw [hmk.1.1 q n hf] at hq; cases hq
          refine ⟨q, env.createMode, hr, he, ?_, ?_, .inr hq0⟩
          · rw [hfs, FS.set_set]
            exact walk_set_new_missing [] w.path q _ hq hrm
          · intro x n hx hne'
            rw [hfs, FS.set_set, FS.set_other _ _ _ _ hne']
            exact hmk.1.1 x n hx

/-- Every write keeps the tree a tree. -/
theorem writeFile_wf (env : EnvFs) (allow : Bool) (pps : List FilePP) (w : Write) (fs : FS) (hw : WF fs)
    (hp : w.path ≠ []) : WF (writeFile env allow pps w fs).fs := by
  cases allow with
  | false => exact (writeFile_noow env pps w fs hw).2
  | true =>
    unfold writeFile
    cases hg : gate true w.path fs with
    | error e => exact hw
    | ok r =>
      obtain ⟨fs1, ops1⟩ := r
      have hw1 : WF fs1 := by
        unfold gate at hg
        split at hg
        · rename_i q n hres
          have hq : fs q = some n := by
            rcases (walk_facts fs [] w.path (isRealDir_root fs)).2 _ _ hres with ⟨hp', _⟩ | ⟨hq, _⟩
            · exact absurd hp' hp
            · exact hq
          simp only [if_true] at hg
          cases n with
          | file f => simp only [Except.ok.injEq, Prod.mk.injEq] at hg; rw [← hg.1]; exact hw.set_file_existing hq _
          | dir m => simp only [Except.ok.injEq, Prod.mk.injEq] at hg; rw [← hg.1]; exact hw.set_dir_existing hq _
          | link t => cases hg
        · simp only [Except.ok.injEq, Prod.mk.injEq] at hg; rw [← hg.1]; exact hw
      simp only
      have hmk := mkdirP_addDirs env w.path.dropLast.reverse fs1
      generalize mkdirP env fs1 w.path.dropLast.reverse = mk at hmk ⊢
      cases hme : mk.err with
      | some e => exact hmk.2 hw1
      | none =>
        simp only
        cases hop : openTrunc env w.path mk.fs with
        | error e => exact hmk.2 hw1
        | ok r =>
          obtain ⟨fs3, q, m⟩ := r
          simp only
          obtain ⟨f', hfs⟩ := afterOpen_fs pps w q m fs3 (ops1 ++ mk.ops ++ [Op.openW w.path])
          rw [hfs]
          rcases openTrunc_ok hop with ⟨f, _, hq, _, rfl⟩ | ⟨_, hq, hne, hpar, _, rfl⟩
          · rw [FS.set_set]; exact (hmk.2 hw1).set_file_existing hq _
          · rw [FS.set_set]; exact (hmk.2 hw1).set_new hq hne hpar _

theorem runWrites_wf (env : EnvFs) (allow : Bool) (pps : List FilePP) : ∀ (ws : List Write) (fs : FS), WF fs →
    (∀ w ∈ ws, w.path ≠ []) → WF (runWrites env allow pps ws fs).fs := by
  intro ws
  induction ws with
  | nil => intro fs hw _; exact hw
  | cons w ws ih =>
    intro fs hw hp
    have h1 := writeFile_wf env allow pps w fs hw (hp w (List.mem_cons_self ..))
    unfold runWrites
    simp only
    cases he : (writeFile env allow pps w fs).err with
    | some e => exact h1
    | none => exact ih _ h1 (fun w' hw' => hp w' (List.mem_cons_of_mem _ hw'))

/-- `--no-overwrite`, a whole run: nothing that was there changes. -/
theorem runWrites_noow (env : EnvFs) (pps : List FilePP) : ∀ (ws : List Write) (fs : FS), WF fs →
    Pres fs (runWrites env false pps ws fs).fs := by
  intro ws
  induction ws with
  | nil => intro fs _; exact Pres.refl fs
  | cons w ws ih =>
    intro fs hw
    obtain ⟨h1, h2⟩ := writeFile_noow env pps w fs hw
    unfold runWrites
    simp only
    cases he : (writeFile env false pps w fs).err with
    | some e => exact h1
    | none => exact h1.trans (ih _ h2)

theorem pathExists_pres {fs fs2 : FS} (h : Pres fs fs2) {p : P} (he : pathExists fs p = true) : pathExists fs2 p = true := by
  unfold pathExists at he ⊢
  cases hr : resolve fs p with
  | found q n => unfold resolve at hr ⊢; rw [walk_pres_found h [] p q n hr]
  | missing _ | noent | notdir | loop => rw [hr] at he; cases he

/-- `--no-overwrite`: an output that exists — also as a directory, also through a link — stops the run. -/
theorem writeFile_noow_conflict (env : EnvFs) (pps : List FilePP) (w : Write) (fs : FS) (he : pathExists fs w.path = true) :
    (writeFile env false pps w fs).err = some (.conflict w.path) := by
  unfold pathExists at he
  unfold writeFile gate
  cases hr : resolve fs w.path with
  | found q n => simp
  | missing _ | noent | notdir | loop => rw [hr] at he; cases he

theorem runWrites_noow_conflict_fails (env : EnvFs) (pps : List FilePP) : ∀ (ws : List Write) (fs : FS), WF fs →
    (∃ w ∈ ws, pathExists fs w.path = true) → (runWrites env false pps ws fs).err ≠ none := by
  intro ws
  induction ws with
  | nil => intro fs _ h; obtain ⟨w, hw, _⟩ := h; cases hw
  | cons w ws ih =>
    intro fs hw h
    unfold runWrites
    simp only
    cases he : (writeFile env false pps w fs).err with
    | some e => simp
    | none =>
      simp only
      obtain ⟨w', hw', hex⟩ := h
      rcases List.mem_cons.1 hw' with rfl | hw''
      · rw [writeFile_noow_conflict env pps _ fs hex] at he; cases he
      · obtain ⟨h1, h2⟩ := writeFile_noow env pps w fs hw
        exact ih _ h2 ⟨w', hw'', pathExists_pres h1 hex⟩

/-- If only the file `q` changed (or was created) and everything else stayed, every path that resolved still resolves to
the same real path, and to the same node unless that is `q`. -/
theorem stable_of_frame {fs fs' : FS} {q : P} {F : File}
    (hframe : ∀ x n, fs x = some n → x ≠ q → fs' x = some n) (hq' : fs' q = some (.file F))
    (hq : (∃ f, fs q = some (.file f)) ∨ fs q = none) :
    ∀ p r n, p ≠ [] → resolve fs p = .found r n → ∃ n', resolve fs' p = .found r n' ∧ (r ≠ q → n' = n) := by
  intro p r n hp hr
  rcases hq with ⟨f, hf⟩ | hn
  · have hpres : Pres (fs.set q (.file F)) fs' := by
      intro x k hx
      by_cases e : x = q
      · subst e; rw [FS.set_same] at hx; rw [← hx]; exact hq'
      · rw [FS.set_other _ _ _ _ e] at hx; exact hframe x k hx e
    have h1 : walk (fs.set q (.file F)) [] p = .found r (if r = q then .file F else n) := by
      unfold resolve at hr
      rw [walk_set_file hf [] p hp, hr]; rfl
    refine ⟨_, walk_pres_found hpres [] p _ _ h1, ?_⟩
    intro hne; simp [hne]
  · have hpres : Pres fs fs' := by
      intro x k hx
      have : x ≠ q := by intro e; rw [e, hn] at hx; cases hx
      exact hframe x k hx this
    exact ⟨n, walk_pres_found hpres [] p r n hr, fun _ => rfl⟩

theorem resolve_found_at {fs : FS} {p q : P} {n : Node} (hp : p ≠ []) (h : resolve fs p = .found q n) : fs q = some n := by
  rcases (walk_facts fs [] p (isRealDir_root fs)).2 _ _ h with ⟨hp', _⟩ | ⟨hq, _⟩
  · exact absurd hp' hp
  · exact hq

/-- A successful overwriting run: every path that resolved before it still resolves to the same real path, and to the same
node unless one of the run's outputs ends up at that real path. -/
theorem runWrites_allow_stable (env : EnvFs) (pps : List FilePP) : ∀ (ws : List Write) (fs : FS), WF fs →
    (∀ w ∈ ws, w.path ≠ []) → (runWrites env true pps ws fs).err = none →
    ∀ p r n, p ≠ [] → resolve fs p = .found r n →
      ∃ n', resolve (runWrites env true pps ws fs).fs p = .found r n' ∧
        ((∀ w ∈ ws, realOf (runWrites env true pps ws fs).fs w.path ≠ some r) → n' = n) := by
  intro ws
  induction ws with
  | nil => intro fs _ _ _ p r n _ hr; exact ⟨n, hr, fun _ => rfl⟩
  | cons w ws ih =>
    intro fs hw hps hok p r n hp hr
    have hpw := hps w (List.mem_cons_self ..)
    unfold runWrites at hok ⊢
    simp only at hok ⊢
    cases he : (writeFile env true pps w fs).err with
    | some e => simp [he] at hok
    | none =>
      simp only [he] at hok ⊢
      obtain ⟨q, m, _, _, hres, hframe, hq⟩ := writeFile_allow_ok env pps w fs hw hpw he
      have hw1 := writeFile_wf env true pps w fs hw hpw
      have hq' := resolve_found_at hpw hres
      obtain ⟨n1, hr1, hn1⟩ := stable_of_frame hframe hq' hq p r n hp hr
      have hps' : ∀ w' ∈ ws, w'.path ≠ [] := fun w' h' => hps w' (List.mem_cons_of_mem _ h')
      obtain ⟨n2, hr2, hn2⟩ := ih _ hw1 hps' hok p r n1 hp hr1
      refine ⟨n2, hr2, ?_⟩
      intro hall
      -- the head's own target in the final tree is `q`
      obtain ⟨nq, hrq, _⟩ := ih _ hw1 hps' hok w.path q _ hpw hres
      have hrealq : realOf (runWrites env true pps ws (writeFile env true pps w fs).fs).fs w.path = some q := by
        unfold realOf; rw [hrq]
      have hne : r ≠ q := by
        intro e; subst e
        exact hall w (List.mem_cons_self ..) hrealq
      rw [hn2 (fun w' h' => hall w' (List.mem_cons_of_mem _ h')), hn1 hne]

theorem runWrites_cons_err (env : EnvFs) (allow : Bool) (pps : List FilePP) (w : Write) (ws : List Write) (fs : FS) (e : Err)
    (h : (writeFile env allow pps w fs).err = some e) :
    runWrites env allow pps (w :: ws) fs =
      ⟨(writeFile env allow pps w fs).fs, (writeFile env allow pps w fs).ops, some e⟩ := by
  simp [runWrites, h]

theorem runWrites_cons_ok (env : EnvFs) (allow : Bool) (pps : List FilePP) (w : Write) (ws : List Write) (fs : FS)
    (h : (writeFile env allow pps w fs).err = none) :
    runWrites env allow pps (w :: ws) fs =
      ⟨(runWrites env allow pps ws (writeFile env allow pps w fs).fs).fs,
       (writeFile env allow pps w fs).ops ++ (runWrites env allow pps ws (writeFile env allow pps w fs).fs).ops,
       (runWrites env allow pps ws (writeFile env allow pps w fs).fs).err⟩ := by
  simp [runWrites, h]

/-- A successful overwriting run whose outputs end up in pairwise different real files: every output path resolves to a file
holding what its own write produced. -/
theorem runWrites_allow_reads (env : EnvFs) (pps : List FilePP) : ∀ (ws : List Write) (fs : FS), WF fs →
    (∀ w ∈ ws, w.path ≠ []) → (runWrites env true pps ws fs).err = none →
    ws.Pairwise (fun a b => realOf (runWrites env true pps ws fs).fs a.path ≠ realOf (runWrites env true pps ws fs).fs b.path) →
    ∀ w ∈ ws, ∃ q m, w.renderOk = true ∧ (applyPPs (pathStr w.path) pps 0 ⟨w.content, startMode w m⟩).err = none ∧
      resolve (runWrites env true pps ws fs).fs w.path =
        .found q (.file (applyPPs (pathStr w.path) pps 0 ⟨w.content, startMode w m⟩).file) := by
  intro ws
  induction ws with
  | nil => intro fs _ _ _ _ w hw; cases hw
  | cons w ws ih =>
    intro fs hw hps hok hpair w0 hw0
    have hpw := hps w (List.mem_cons_self ..)
    have hps' : ∀ w' ∈ ws, w'.path ≠ [] := fun w' h' => hps w' (List.mem_cons_of_mem _ h')
    have hfin : (runWrites env true pps (w :: ws) fs).err = none → (writeFile env true pps w fs).err = none ∧
        (runWrites env true pps (w :: ws) fs).fs = (runWrites env true pps ws (writeFile env true pps w fs).fs).fs ∧
        (runWrites env true pps ws (writeFile env true pps w fs).fs).err = none := by
      intro h
      cases he : (writeFile env true pps w fs).err with
      | some e => rw [runWrites_cons_err _ _ _ _ _ _ e he] at h; cases h
      | none => rw [runWrites_cons_ok _ _ _ _ _ _ he] at h ⊢; exact ⟨rfl, rfl, h⟩
    obtain ⟨he, hfs, hok'⟩ := hfin hok
    rw [hfs] at hpair ⊢
    obtain ⟨q, m, hr, hpe, hres, _, _⟩ := writeFile_allow_ok env pps w fs hw hpw he
    have hw1 := writeFile_wf env true pps w fs hw hpw
    rw [List.pairwise_cons] at hpair
    rcases List.mem_cons.1 hw0 with rfl | hw0'
    · obtain ⟨n', hrn, hcond⟩ := runWrites_allow_stable env pps ws _ hw1 hps' hok' w0.path q _ hpw hres
      have hreal : realOf (runWrites env true pps ws (writeFile env true pps w0 fs).fs).fs w0.path = some q := by
        unfold realOf; rw [hrn]
      have := hcond (fun w' h' => by
        have := hpair.1 w' h'
        rw [hreal] at this
        exact fun e => this e.symm)
      exact ⟨q, m, hr, hpe, by rw [hrn, this]⟩
    · exact ih _ hw1 hps' hok' hpair.2 w0 hw0'

/-- A successful overwriting write leaves every link and every directory entry as it was. -/
theorem writeFile_allow_keeps (env : EnvFs) (pps : List FilePP) (w : Write) (fs : FS) (hw : WF fs) (hp : w.path ≠ [])
    (hok : (writeFile env true pps w fs).err = none) :
    (∀ x t, fs x = some (.link t) → (writeFile env true pps w fs).fs x = some (.link t)) ∧
    (∀ x m, fs x = some (.dir m) → (writeFile env true pps w fs).fs x = some (.dir m)) := by
  obtain ⟨q, m, _, _, _, hframe, hq⟩ := writeFile_allow_ok env pps w fs hw hp hok
  constructor
  · intro x t hx
    apply hframe x _ hx
    intro e; subst e
    rcases hq with ⟨f, hf⟩ | hn
    · rw [hf] at hx; cases hx
    · rw [hn] at hx; cases hx
  · intro x m' hx
    apply hframe x _ hx
    intro e; subst e
    rcases hq with ⟨f, hf⟩ | hn
    · rw [hf] at hx; cases hx
    · rw [hn] at hx; cases hx

theorem runWrites_allow_keeps (env : EnvFs) (pps : List FilePP) : ∀ (ws : List Write) (fs : FS), WF fs →
    (∀ w ∈ ws, w.path ≠ []) → (runWrites env true pps ws fs).err = none →
    (∀ x t, fs x = some (.link t) → (runWrites env true pps ws fs).fs x = some (.link t)) ∧
    (∀ x m, fs x = some (.dir m) → (runWrites env true pps ws fs).fs x = some (.dir m)) := by
  intro ws
  induction ws with
  | nil => intro fs _ _ _; exact ⟨fun _ _ h => h, fun _ _ h => h⟩
  | cons w ws ih =>
    intro fs hw hps hok
    have hpw := hps w (List.mem_cons_self ..)
    cases he : (writeFile env true pps w fs).err with
    | some e => rw [runWrites_cons_err _ _ _ _ _ _ e he] at hok; cases hok
    | none =>
      rw [runWrites_cons_ok _ _ _ _ _ _ he] at hok ⊢
      obtain ⟨k1, k2⟩ := writeFile_allow_keeps env pps w fs hw hpw he
      obtain ⟨i1, i2⟩ := ih _ (writeFile_wf env true pps w fs hw hpw) (fun w' h' => hps w' (List.mem_cons_of_mem _ h')) hok
      exact ⟨fun x t hx => i1 x t (k1 x t hx), fun x m hx => i2 x m (k2 x m hx)⟩

/-- Along a history the tree stays a tree, and every step starts from what the previous one left. -/
theorem runHistory_wf (env : EnvFs) : ∀ (hist : List Run) (fs : FS), WF fs →
    (∀ r ∈ hist, ∀ w ∈ r.writes, w.path ≠ []) →
    ∀ s ∈ runHistory env hist fs, WF s.1 ∧ s.2.1 ∈ hist ∧ s.2.2 = runRun env s.2.1 s.1 := by
  intro hist
  induction hist with
  | nil => intro fs _ _ s hs; cases hs
  | cons r rs ih =>
    intro fs hw hps s hs
    unfold runHistory at hs
    simp only [List.mem_cons] at hs
    rcases hs with rfl | hs
    · exact ⟨hw, List.mem_cons_self .., rfl⟩
    · have hw' : WF (runRun env r fs).fs :=
        runWrites_wf env _ _ _ _ hw (hps r (List.mem_cons_self ..))
      obtain ⟨a, b, c⟩ := ih _ hw' (fun r' h' => hps r' (List.mem_cons_of_mem _ h')) s hs
      exact ⟨a, List.mem_cons_of_mem _ b, c⟩

end NunavutVerif.OverwriteFs
