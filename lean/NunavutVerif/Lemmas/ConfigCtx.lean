import NunavutVerif.Model.ConfigCtx
import NunavutVerif.Lemmas.Config
/-!
Helper lemmas for the access-path / process layer of C13 (`Model/ConfigCtx.lean`).
-/
namespace NunavutVerif.Config

variable {κ σ : Type} [DecidableEq κ]

set_option linter.unusedSectionVars false

/-! ### association lists -/

theorem alook_aset {α : Type} : ∀ (l : List (Nat × α)) (k k' : Nat) (v : α),
    alook (aset l k v) k' = if k = k' then some v else alook l k'
  | [], k, k', v => by simp [aset, alook]
  | (k0, v0) :: r, k, k', v => by
    have ih := alook_aset r k k' v
    by_cases h : k0 = k <;> by_cases hk : k0 = k' <;> simp_all [aset, alook]
    · intro h'; exact absurd h'.symm h

theorem alook_aset_self {α : Type} (l : List (Nat × α)) (k : Nat) (v : α) : alook (aset l k v) k = some v := by
  simp [alook_aset]

theorem alook_aset_ne {α : Type} (l : List (Nat × α)) {k k' : Nat} (v : α) (h : k ≠ k') :
    alook (aset l k v) k' = alook l k' := by
  simp [alook_aset, h]

/-! ### keys -/

theorem mem_keys : ∀ (m : M κ σ) (k : κ), k ∈ m.keys ↔ (m.get k).isSome
  | .nil, k => by simp [M.keys, M.get]
  | .cons k0 v rest, k => by
    have ih := mem_keys rest k
    by_cases h : k0 = k
    · subst h; simp [M.keys, M.get]
    · simp [M.keys, M.get, h, ih]
      intro h'; exact absurd h'.symm h

theorem keys_nodup : ∀ (m : M κ σ), m.NoDupKeys → m.keys.Nodup
  | .nil, _ => by simp [M.keys]
  | .cons k v rest, h => by
    simp only [M.keys, List.nodup_cons]
    refine ⟨?_, keys_nodup rest h.2⟩
    intro hm
    have := (mem_keys rest k).mp hm
    rw [h.1] at this
    simp at this

/-! ### the process: histories of other builders are invisible -/

/-- Two processes look the same from builder `b`: same file system, same state of `b`. -/
def Proc.Agree (b : Nat) (p q : Proc κ σ) : Prop := p.fs = q.fs ∧ alook p.bs b = alook q.bs b

theorem Proc.Agree.refl (b : Nat) (p : Proc κ σ) : Proc.Agree b p p := ⟨rfl, rfl⟩

theorem onBuilder_same (p q : Proc κ σ) (b : Nat) (f : BS κ σ → Except CErr (BS κ σ × Ans κ σ))
    (h : alook p.bs b = alook q.bs b) :
    alook (p.onBuilder b f).1.bs b = alook (q.onBuilder b f).1.bs b ∧ (p.onBuilder b f).2 = (q.onBuilder b f).2 ∧
      (p.onBuilder b f).1.fs = p.fs ∧ (q.onBuilder b f).1.fs = q.fs := by
  unfold Proc.onBuilder
  rw [← h]
  cases alook p.bs b with
  | none => simpa using h
  | some s =>
    simp only
    by_cases hd : s.dead
    · simpa [hd] using h
    · simp only [hd]
      cases f s with
      | ok r => simp [alook_aset_self]
      | error e => simp [alook_aset_self]

theorem onBuilder_other (p : Proc κ σ) (b b' : Nat) (f : BS κ σ → Except CErr (BS κ σ × Ans κ σ)) (hb : b' ≠ b) :
    alook (p.onBuilder b' f).1.bs b = alook p.bs b ∧ (p.onBuilder b' f).1.fs = p.fs := by
  unfold Proc.onBuilder
  cases alook p.bs b' with
  | none => simp
  | some s =>
    simp only
    by_cases hd : s.dead
    · simp [hd]
    · simp only [hd]
      cases f s with
      | ok r => simp [alook_aset_ne _ _ hb]
      | error e => simp [alook_aset_ne _ _ hb]

/-- An op that concerns `b` acts alike on processes that agree on `b`. -/
theorem step_concerns (P : PEnv κ σ) (b : Nat) (p q : Proc κ σ) (op : POp κ σ) (ha : Proc.Agree b p q)
    (hc : op.concerns b = true) :
    Proc.Agree b (p.step P op).1 (q.step P op).1 ∧ (p.step P op).2 = (q.step P op).2 := by
  obtain ⟨hfs, hb⟩ := ha
  cases op with
  | write path doc => exact ⟨⟨by simp [Proc.step, hfs], by simpa [Proc.step] using hb⟩, rfl⟩
  | newBuilder b' exp =>
    have : b' = b := by simpa [POp.concerns, POp.builder] using hc
    subst this
    exact ⟨⟨by simpa [Proc.step] using hfs, by simp [Proc.step, alook_aset_self]⟩, rfl⟩
  | addFiles b' paths =>
    have : b' = b := by simpa [POp.concerns, POp.builder] using hc
    subst this
    simp only [Proc.step, hfs]
    obtain ⟨h1, h2, h3, h4⟩ := onBuilder_same p q b' _ hb
    exact ⟨⟨by rw [h3, h4, hfs], h1⟩, h2⟩
  | setOverride b' k v =>
    have : b' = b := by simpa [POp.concerns, POp.builder] using hc
    subst this
    simp only [Proc.step]
    obtain ⟨h1, h2, h3, h4⟩ := onBuilder_same p q b' _ hb
    exact ⟨⟨by rw [h3, h4, hfs], h1⟩, h2⟩
  | setLanguage b' l =>
    have : b' = b := by simpa [POp.concerns, POp.builder] using hc
    subst this
    simp only [Proc.step]
    obtain ⟨h1, h2, h3, h4⟩ := onBuilder_same p q b' _ hb
    exact ⟨⟨by rw [h3, h4, hfs], h1⟩, h2⟩
  | create b' j =>
    have : b' = b := by simpa [POp.concerns, POp.builder] using hc
    subst this
    simp only [Proc.step]
    obtain ⟨h1, h2, h3, h4⟩ := onBuilder_same p q b' _ hb
    exact ⟨⟨by rw [h3, h4, hfs], h1⟩, h2⟩
  | read b' j a =>
    have : b' = b := by simpa [POp.concerns, POp.builder] using hc
    subst this
    simp only [Proc.step]
    obtain ⟨h1, h2, h3, h4⟩ := onBuilder_same p q b' _ hb
    exact ⟨⟨by rw [h3, h4, hfs], h1⟩, h2⟩

/-- An op that does not concern `b` is invisible from `b`. -/
theorem step_other (P : PEnv κ σ) (b : Nat) (p : Proc κ σ) (op : POp κ σ) (hc : op.concerns b = false) :
    Proc.Agree b (p.step P op).1 p := by
  cases op with
  | write path doc => simp [POp.concerns, POp.builder] at hc
  | newBuilder b' exp =>
    have hb : b' ≠ b := by simpa [POp.concerns, POp.builder] using hc
    exact ⟨rfl, by simp [Proc.step, alook_aset_ne _ _ hb]⟩
  | addFiles b' paths =>
    have hb : b' ≠ b := by simpa [POp.concerns, POp.builder] using hc
    obtain ⟨h1, h2⟩ := onBuilder_other p b b' (fun s =>
      match readFiles P.valid s.b.config (paths.map (alook p.fs)) with
      | .ok c => .ok ({ s with b := { s.b with config := c } }, .unit)
      | .error e => .error e) hb
    exact ⟨h2, h1⟩
  | setOverride b' k v =>
    have hb : b' ≠ b := by simpa [POp.concerns, POp.builder] using hc
    obtain ⟨h1, h2⟩ := onBuilder_other p b b' (fun s =>
      match s.b.apply P.valid P.dflt (.setOverride k v) with
      | .ok b' => .ok ({ s with b := b' }, .unit)
      | .error e => .error (.cfg e)) hb
    exact ⟨h2, h1⟩
  | setLanguage b' l =>
    have hb : b' ≠ b := by simpa [POp.concerns, POp.builder] using hc
    obtain ⟨h1, h2⟩ := onBuilder_other p b b' (fun s =>
      match s.b.apply P.valid P.dflt (.setLanguage l) with
      | .ok b' => .ok ({ s with b := b' }, .unit)
      | .error e => .error (.cfg e)) hb
    exact ⟨h2, h1⟩
  | create b' j =>
    have hb : b' ≠ b := by simpa [POp.concerns, POp.builder] using hc
    obtain ⟨h1, h2⟩ := onBuilder_other p b b' (fun s =>
      match s.create P j with
      | .ok s' => .ok (s', .unit)
      | .error e => .error e) hb
    exact ⟨h2, h1⟩
  | read b' j a =>
    have hb : b' ≠ b := by simpa [POp.concerns, POp.builder] using hc
    obtain ⟨h1, h2⟩ := onBuilder_other p b b' (fun s => s.read P j a) hb
    exact ⟨h2, h1⟩

/-- The answers the ops that concern `b` get inside a whole history. -/
def Proc.answersFor (P : PEnv κ σ) (b : Nat) : Proc κ σ → List (POp κ σ) → List (Ans κ σ)
  | _, [] => []
  | p, op :: ops =>
    if op.concerns b then (p.step P op).2 :: Proc.answersFor P b (p.step P op).1 ops
    else Proc.answersFor P b (p.step P op).1 ops

theorem Proc.Agree.trans {b : Nat} {p q r : Proc κ σ} (h1 : Proc.Agree b p q) (h2 : Proc.Agree b q r) :
    Proc.Agree b p r := ⟨h1.1.trans h2.1, h1.2.trans h2.2⟩

theorem history_independent (P : PEnv κ σ) (b : Nat) : ∀ (ops : List (POp κ σ)) (p q : Proc κ σ),
    Proc.Agree b p q →
    Proc.Agree b (Proc.run P p ops).1 (Proc.run P q (ops.filter (POp.concerns b))).1 ∧
      Proc.answersFor P b p ops = (Proc.run P q (ops.filter (POp.concerns b))).2
  | [], p, q, h => by simpa [Proc.run, Proc.answersFor] using h
  | op :: ops, p, q, h => by
    by_cases hc : op.concerns b = true
    · obtain ⟨ha, he⟩ := step_concerns P b p q op h hc
      obtain ⟨ih1, ih2⟩ := history_independent P b ops _ _ ha
      simp only [List.filter_cons, hc, if_true, Proc.run, Proc.answersFor]
      exact ⟨ih1, by rw [ih2, he]⟩
    · have hc' : op.concerns b = false := by simpa using hc
      have ha := (step_other P b p op hc').trans h
      obtain ⟨ih1, ih2⟩ := history_independent P b ops _ _ ha
      simp only [List.filter_cons, hc', Proc.run, Proc.answersFor]
      exact ⟨ih1, by simpa using ih2⟩

/-! ### what building the language map does to the configuration -/

theorem newLanguage_spec (E : LangEnv κ σ) (exp : Bool) (c c' : M κ σ) (l : κ) (obj : LangObj κ σ) (keep : Bool)
    (h : newLanguage E exp c l = .ok (c', obj, keep)) :
    ∃ sec sec', c.get l = some (.map sec) ∧ initSection E l sec = .ok (sec', obj.own) ∧ obj.sect = l ∧
      c' = c.set l (.map sec') ∧ keep = (E.stable sec' || exp) := by
  unfold newLanguage at h
  by_cases hk : E.known l = true
  · simp only [hk, if_true] at h
    cases hg : c.get l with
    | none => simp [hg] at h
    | some v =>
      cases v with
      | map sec =>
        simp only [hg] at h
        cases hi : initSection E l sec with
        | error e => simp [hi] at h
        | ok r =>
          obtain ⟨sec', own⟩ := r
          simp only [hi, Except.ok.injEq, Prod.mk.injEq] at h
          obtain ⟨h1, h2, h3⟩ := h
          subst h2
          exact ⟨sec, sec', rfl, by simpa using hi, rfl, h1.symm, h3.symm⟩
      | scalar _ => simp [hg] at h
      | dflt _ => simp [hg] at h
      | list _ => simp [hg] at h
  · simp [hk] at h

/-- What `_new_language_map` leaves behind, for any list of names without repetition. -/
theorem buildMap_spec (E : LangEnv κ σ) (exp : Bool) (t : κ) : ∀ (ls : List κ) (c c' : M κ σ) (os : List (LangObj κ σ)),
    ls.Nodup → buildMap E exp t c ls = .ok (c', os) →
    (∀ l, (l ∉ ls ∨ l = t) → c'.get l = c.get l) ∧
    (∀ obj ∈ os, obj.sect ∈ ls ∧ obj.sect ≠ t ∧ ∃ sec sec', c.get obj.sect = some (.map sec) ∧
        initSection E obj.sect sec = .ok (sec', obj.own) ∧ c'.get obj.sect = some (.map sec')) ∧
    (∀ l ∈ ls, l ≠ t → ∃ sec sec' own, c.get l = some (.map sec) ∧ initSection E l sec = .ok (sec', own) ∧
        c'.get l = some (.map sec') ∧ ((E.stable sec' || exp) = true → (⟨l, own⟩ : LangObj κ σ) ∈ os))
  | [], c, c', os, _, h => by
    simp only [buildMap, Except.ok.injEq, Prod.mk.injEq] at h
    obtain ⟨rfl, rfl⟩ := h
    simp
  | l :: ls, c, c', os, hn, h => by
    have hn' := (List.nodup_cons.mp hn)
    by_cases hlt : l = t
    · simp only [buildMap, hlt, if_true] at h
      obtain ⟨i1, i2, i3⟩ := buildMap_spec E exp t ls c c' os hn'.2 h
      refine ⟨?_, ?_, ?_⟩
      · intro l' hl'
        apply i1
        rcases hl' with hl' | hl'
        · exact .inl (fun hm => hl' (List.mem_cons_of_mem _ hm))
        · exact .inr hl'
      · intro obj ho
        obtain ⟨a, b, c⟩ := i2 obj ho
        exact ⟨List.mem_cons_of_mem _ a, b, c⟩
      · intro l' hl' hne
        rcases List.mem_cons.mp hl' with rfl | hm
        · exact absurd hlt hne
        · exact i3 l' hm hne
    · simp only [buildMap, hlt, if_false] at h
      cases hnl : newLanguage E exp c l with
      | error e => simp [hnl] at h
      | ok r =>
        obtain ⟨c1, obj, keep⟩ := r
        simp only [hnl] at h
        cases hb : buildMap E exp t c1 ls with
        | error e => simp [hb] at h
        | ok r2 =>
          obtain ⟨c2, os2⟩ := r2
          simp only [hb, Except.ok.injEq, Prod.mk.injEq] at h
          obtain ⟨rfl, hos⟩ := h
          obtain ⟨sec, sec', hg, hi, hsect, hc1, hkeep⟩ := newLanguage_spec E exp c c1 l obj keep hnl
          obtain ⟨i1, i2, i3⟩ := buildMap_spec E exp t ls c1 c2 os2 hn'.2 hb
          have hget : ∀ l', l' ≠ l → c1.get l' = c.get l' := by
            intro l' hne
            rw [hc1, M.get_set_ne _ _ (fun h => hne h.symm)]
          have hl1 : c2.get l = some (.map sec') := by
            rw [i1 l (.inl hn'.1), hc1, M.get_set_self]
          refine ⟨?_, ?_, ?_⟩
          · intro l' hl'
            rcases hl' with hl' | hl'
            · have hne : l' ≠ l := fun h => hl' (h ▸ List.mem_cons_self)
              rw [i1 l' (.inl (fun hm => hl' (List.mem_cons_of_mem _ hm))), hget l' hne]
            · subst hl'
              rw [i1 l' (.inr rfl), hget l' (fun h => hlt h.symm)]
          · intro o ho
            have ho' : o = obj ∧ keep = true ∨ o ∈ os2 := by
              subst hos
              by_cases hk : keep = true
              · simp only [hk, if_true, List.mem_cons] at ho
                rcases ho with rfl | ho
                · exact .inl ⟨rfl, hk⟩
                · exact .inr ho
              · simp only [hk] at ho
                exact .inr ho
            rcases ho' with ⟨rfl, _⟩ | ho'
            · exact ⟨by rw [hsect]; exact List.mem_cons_self, by rw [hsect]; exact hlt, sec, sec',
                by rw [hsect]; exact hg, by rw [hsect]; exact hi, by rw [hsect]; exact hl1⟩
            · obtain ⟨a, b, sec2, sec2', g2, ini2, fin2⟩ := i2 o ho'
              have hne : o.sect ≠ l := fun h => hn'.1 (h ▸ a)
              exact ⟨List.mem_cons_of_mem _ a, b, sec2, sec2', by rw [← hget _ hne]; exact g2, ini2, fin2⟩
          · intro l' hl' hne
            rcases List.mem_cons.mp hl' with rfl | hm
            · refine ⟨sec, sec', obj.own, hg, hi, hl1, ?_⟩
              intro hst
              have hk : keep = true := by rw [hkeep]; exact hst
              subst hos
              simp only [hk, if_true]
              have : obj = ⟨l', obj.own⟩ := by cases obj; simp_all
              rw [← this]
              exact List.mem_cons_self
            · obtain ⟨sec2, sec2', own2, g2, ini2, fin2, mem2⟩ := i3 l' hm hne
              have hne' : l' ≠ l := fun h => hn'.1 (h ▸ hm)
              refine ⟨sec2, sec2', own2, by rw [← hget _ hne']; exact g2, ini2, fin2, ?_⟩
              intro hst
              subst hos
              by_cases hk : keep = true
              · simp only [hk, if_true]; exact List.mem_cons_of_mem _ (mem2 hst)
              · simp only [hk]; exact mem2 hst

/-- The option a language object reports after its construction = the validated options of its section. -/
theorem option_after_init (E : LangEnv κ σ) (c : M κ σ) (l : κ) (sec sec' : M κ σ) (own : Option (M κ σ))
    (hi : initSection E l sec = .ok (sec', own)) (hc : c.get l = some (.map sec')) (key : κ) :
    ∃ o', E.validateOptions l ((dictOr sec E.defaults).getD .nil) ((dictOr sec E.options).getD .nil) = .ok o' ∧
      (⟨l, own⟩ : LangObj κ σ).option E c key = o'.get key := by
  unfold initSection at hi
  cases ho : dictOr sec E.options with
  | some o =>
    simp only [ho] at hi
    cases hv : E.validateOptions l ((dictOr sec E.defaults).getD .nil) o with
    | error e => simp [hv] at hi
    | ok o' =>
      simp only [hv, Except.ok.injEq, Prod.mk.injEq] at hi
      obtain ⟨rfl, rfl⟩ := hi
      refine ⟨o', by simpa using hv, ?_⟩
      simp [LangObj.option, optionOf, hc, dictOr, M.get_set_self]
  | none =>
    simp only [ho] at hi
    cases hv : E.validateOptions l ((dictOr sec E.defaults).getD .nil) .nil with
    | error e => simp [hv] at hi
    | ok o' =>
      simp only [hv, Except.ok.injEq, Prod.mk.injEq] at hi
      obtain ⟨rfl, rfl⟩ := hi
      exact ⟨o', by simpa using hv, by simp [LangObj.option]⟩

/-! ### YAML constructor -/

theorem get_normM : ∀ (m acc : M κ σ) (k : κ),
    (normM acc m).get k = match m.getLast k with
      | some v => some (normV v)
      | none => acc.get k
  | .nil, acc, k => by simp [normM, M.getLast]
  | .cons k0 v rest, acc, k => by
    rw [normM, get_normM rest _ k]
    cases hr : rest.getLast k with
    | some w => simp [M.getLast, hr]
    | none =>
      by_cases hk : k0 = k
      · subst hk; simp [M.getLast, hr, M.get_set_self]
      · simp [M.getLast, hr, hk, M.get_set_ne _ _ hk]

mutual
theorem normV_WF : ∀ (v : V κ σ), (normV v).WF
  | .map m => by
    rw [normV]
    exact normM_WF m .nil (by simp [M.WF])
  | .scalar _ => by simp [normV, V.WF]
  | .dflt _ => by simp [normV, V.WF]
  | .list _ => by simp [normV, V.WF]
theorem normM_WF : ∀ (m acc : M κ σ), acc.WF → (normM acc m).WF
  | .nil, acc, h => by simpa [normM] using h
  | .cons k v rest, acc, h => by
    rw [normM]
    exact normM_WF rest _ (WF.set k h (normV_WF v))
end

/-- `acc ++ m` when the keys of `m` are new and distinct: the constructor appends. -/
theorem normM_append : ∀ (n : Nat) (m acc : M κ σ), m.size ≤ n → m.WF → (∀ k, (m.get k).isSome → acc.get k = none) →
    normM acc m = acc.append m
  | 0, .nil, acc, _, _, _ => by simp [normM, M.append_nil]
  | 0, .cons _ v _, _, hs, _, _ => by
    have : 0 < v.size := by cases v <;> simp [V.size]
    simp [M.size] at hs
  | n + 1, .nil, acc, _, _, _ => by simp [normM, M.append_nil]
  | n + 1, .cons k v rest, acc, hs, hw, hd => by
    obtain ⟨hk, hv, hr⟩ := hw
    have hvn : normV v = v := by
      cases v with
      | map m' =>
        have hsz : m'.size ≤ n := by simp [M.size, V.size] at hs; omega
        have := normM_append n m' .nil hsz hv (by intro k _; simp [M.get])
        rw [normV, this]
        rfl
      | scalar _ => rfl
      | dflt _ => rfl
      | list _ => rfl
    rw [normM, hvn]
    have hsz : rest.size ≤ n := by simp [M.size] at hs; omega
    have hacc : acc.get k = none := hd k (by simp [M.get])
    rw [normM_append n rest _ hsz hr, M.set_absent acc k v hacc, M.append_assoc]
    · simp [M.append]
    · intro k' hk'
      have hne : k ≠ k' := by
        intro h; subst h; rw [hk] at hk'; simp at hk'
      rw [M.get_set_ne _ _ hne]
      apply hd
      simp [M.get, hne, hk']

end NunavutVerif.Config
