import NunavutVerif.Model.Autoindent
import NunavutVerif.Lemmas.Lexer
/-!
Helper lemmas for the `subparse` / `lineprefix` composition part of C19 (core Lean only).
-/
namespace NunavutVerif.Lexer

theorem not_cr_of_not_break {c : Char} (h : isBreak c = false) : c ≠ '\r' := by
  intro hc; subst hc; simp [isBreak] at h

theorem linesT_line_nl (l rest : Str) (hl : breakFree l) :
    linesT (l ++ '\n' :: rest) = (l, ['\n']) :: linesT rest := by
  induction l with
  | nil => simp [linesT, isBreak]
  | cons c l ih =>
    have hc : isBreak c = false := hl c (by simp)
    have hl' : breakFree l := fun x hx => hl x (by simp [hx])
    simp only [List.cons_append, linesT, not_cr_of_not_break hc, if_false, hc, Bool.false_eq_true]
    rw [ih hl']; rfl

theorem linesT_line (l : Str) (hl : breakFree l) (hne : l ≠ []) : linesT l = [(l, [])] := by
  induction l with
  | nil => exact absurd rfl hne
  | cons c l ih =>
    have hc : isBreak c = false := hl c (by simp)
    have hl' : breakFree l := fun x hx => hl x (by simp [hx])
    simp only [linesT, not_cr_of_not_break hc, if_false, hc, Bool.false_eq_true]
    by_cases h : l = []
    · subst h; simp [linesT, consHead]
    · rw [ih hl' h]; rfl

theorem splitlines_joinNl (ls : List Str) (h : ∀ l ∈ ls, breakFree l) :
    splitlines (joinNl ls) = dropTrailingEmpty ls := by
  match ls with
  | [] => simp [joinNl, splitlines, linesT, dropTrailingEmpty]
  | [l] =>
    simp only [joinNl, dropTrailingEmpty]
    by_cases hl : l = []
    · subst hl; simp [splitlines, linesT]
    · have : l.isEmpty = false := by cases l <;> simp_all
      simp only [this, Bool.false_eq_true, if_false, splitlines]
      rw [linesT_line l (h l (by simp)) hl]; rfl
  | l :: l' :: ls =>
    simp only [joinNl, dropTrailingEmpty, splitlines]
    rw [linesT_line_nl l _ (h l (by simp))]
    have ih := splitlines_joinNl (l' :: ls) (fun x hx => h x (by simp [hx]))
    simp only [splitlines] at ih
    simp [ih]

theorem pre_eq_nil_iff (p l : Str) : pre p l = [] ↔ l = [] := by
  unfold pre
  cases l with
  | nil => simp
  | cons a l => simp

theorem dropTrailingEmpty_map_pre (p : Str) (ls : List Str) :
    dropTrailingEmpty (ls.map (pre p)) = (dropTrailingEmpty ls).map (pre p) := by
  match ls with
  | [] => rfl
  | [l] =>
    simp only [List.map_cons, List.map_nil, dropTrailingEmpty]
    cases l with
    | nil => simp [pre]
    | cons a l => simp [pre]
  | l :: l' :: ls =>
    simp only [List.map_cons, dropTrailingEmpty]
    have := dropTrailingEmpty_map_pre p (l' :: ls)
    simp only [List.map_cons] at this
    rw [this]

theorem pre_pre (p1 p2 l : Str) : pre p1 (pre p2 l) = pre (p1 ++ p2) l := by
  unfold pre
  cases l with
  | nil => simp
  | cons a l => cases p2 <;> simp

theorem pre_nil (l : Str) : pre [] l = l := by simp [pre]

theorem breakFree_pre {p l : Str} (hp : breakFree p) (hl : breakFree l) : breakFree (pre p l) := by
  unfold pre
  split
  · exact hl
  · intro c hc
    rcases List.mem_append.1 hc with h | h
    · exact hp c h
    · exact hl c h

/-! every line `splitlines` returns is break-free -/

theorem breakFree_fst_consHead {c : Char} {L : List (Str × Str)} (hc : isBreak c = false)
    (h : ∀ lt ∈ L, breakFree lt.1) : ∀ lt ∈ consHead c L, breakFree lt.1 := by
  cases L with
  | nil =>
    intro lt hlt
    simp only [consHead, List.mem_singleton] at hlt
    subst hlt
    intro x hx
    simp only [List.mem_singleton] at hx
    subst hx; exact hc
  | cons a L =>
    obtain ⟨l, t⟩ := a
    intro lt hlt
    simp only [consHead, List.mem_cons] at hlt
    rcases hlt with rfl | hlt
    · intro x hx
      simp only [List.mem_cons] at hx
      rcases hx with rfl | hx
      · exact hc
      · exact h (l, t) (by simp) x hx
    · exact h lt (by simp [hlt])

theorem breakFree_linesT (s : Str) : ∀ lt ∈ linesT s, breakFree lt.1 := by
  induction s with
  | nil => simp [linesT]
  | cons c cs ih =>
    simp only [linesT]
    split
    · split
      · cases hL : linesT cs with
        | nil => simp [mergeCR, breakFree]
        | cons a L =>
          rw [hL] at ih
          intro lt hlt
          simp only [mergeCR, List.mem_cons] at hlt
          rcases hlt with rfl | hlt
          · simp [breakFree]
          · exact ih lt (by simp [hlt])
      · intro lt hlt
        simp only [List.mem_cons] at hlt
        rcases hlt with rfl | hlt
        · simp [breakFree]
        · exact ih lt hlt
    · split
      · intro lt hlt
        simp only [List.mem_cons] at hlt
        rcases hlt with rfl | hlt
        · simp [breakFree]
        · exact ih lt hlt
      · rename_i hb
        exact breakFree_fst_consHead (by simpa using hb) ih

theorem breakFree_splitlines (s : Str) : ∀ l ∈ splitlines s, breakFree l := by
  intro l hl
  unfold splitlines at hl
  rw [List.mem_map] at hl
  obtain ⟨lt, hlt, rfl⟩ := hl
  exact breakFree_linesT s lt hlt

/-- `lineprefix` on a text given by its (break-free) lines -/
theorem lineprefix_joinNl (p : Str) (ls : List Str) (h : ∀ l ∈ ls, breakFree l) :
    lineprefix p (joinNl ls) = joinNl ((dropTrailingEmpty ls).map (pre p)) := by
  unfold lineprefix
  rw [splitlines_joinNl ls h]

/-- nested auto-indent: the prefixes accumulate; each application drops one final line terminator -/
theorem lineprefix_lineprefix (p1 p2 x : Str) (hp : breakFree p2) :
    lineprefix p1 (lineprefix p2 x) = lineprefix (p1 ++ p2) (lineprefix [] x) := by
  have hL := breakFree_splitlines x
  have h2 : ∀ l ∈ (splitlines x).map (pre p2), breakFree l := by
    intro l hl
    rw [List.mem_map] at hl
    obtain ⟨l0, hl0, rfl⟩ := hl
    exact breakFree_pre hp (hL l0 hl0)
  have h0 : (splitlines x).map (pre []) = splitlines x := by
    rw [List.map_congr_left (fun l _ => pre_nil l)]; simp
  conv => lhs; arg 2; unfold lineprefix
  conv => rhs; arg 2; unfold lineprefix
  rw [lineprefix_joinNl p1 _ h2, h0, lineprefix_joinNl (p1 ++ p2) _ hL, dropTrailingEmpty_map_pre, List.map_map]
  congr 1
  apply List.map_congr_left
  intro l _
  exact pre_pre p1 p2 l



/-! ### a final line terminator -/

def consHeadS (a : Char) : List Str → List Str
  | [] => [[a]]
  | l :: r => (a :: l) :: r

def mergeS : List Str → List Str
  | _ :: r => [] :: r
  | [] => [[]]

theorem fst_consHead (a : Char) (L : List (Str × Str)) : (consHead a L).map (·.1) = consHeadS a (L.map (·.1)) := by
  cases L with
  | nil => rfl
  | cons x L => obtain ⟨l, t⟩ := x; rfl

theorem fst_mergeCR (L : List (Str × Str)) : (mergeCR L).map (·.1) = mergeS (L.map (·.1)) := by
  cases L with
  | nil => rfl
  | cons x L => obtain ⟨l, t⟩ := x; rfl

theorem head?_append_of_ne_nil {x y : Str} (h : x ≠ []) : (x ++ y).head? = x.head? := by
  cases x with
  | nil => exact absurd rfl h
  | cons a x => rfl

/-- a line terminator appended to a text that does not end in one adds no line -/
theorem splitlines_snoc_break (x : Str) (c : Char) (hc : isBreak c = true) (hne : x ≠ [])
    (hlast : ∀ y, x.getLast? = some y → isBreak y = false) :
    splitlines (x ++ [c]) = splitlines x := by
  unfold splitlines
  induction x with
  | nil => exact absurd rfl hne
  | cons a x ih =>
    by_cases hx : x = []
    · subst hx
      have ha : isBreak a = false := hlast a (by simp)
      have h1 : linesT [c] = [([], [c])] := by
        simp only [linesT]
        split
        · rename_i h; subst h; simp [linesT]
        · simp [hc, linesT]
      have h2 : linesT [a, c] = consHead a (linesT [c]) := by
        simp only [linesT, not_cr_of_not_break ha, if_false, ha, Bool.false_eq_true]
      have h3 : linesT [a] = consHead a [] := by
        simp only [linesT, not_cr_of_not_break ha, if_false, ha, Bool.false_eq_true]
      show List.map (·.1) (linesT [a, c]) = List.map (·.1) (linesT [a])
      rw [h2, h3, h1]; rfl
    · have hl' : ∀ y, x.getLast? = some y → isBreak y = false := by
        intro y hy; apply hlast y; rw [List.getLast?_cons_of_ne_nil hx] <;> exact hy
      have ih' := ih hx hl'
      simp only [List.cons_append, linesT]
      rw [head?_append_of_ne_nil hx]
      split
      · split
        · rw [fst_mergeCR, fst_mergeCR, ih']
        · simp [ih']
      · split
        · simp [ih']
        · rw [fst_consHead, fst_consHead, ih']

theorem lineprefix_snoc_break (p x : Str) (c : Char) (hc : isBreak c = true)
    (hlast : ∀ y, x.getLast? = some y → isBreak y = false) :
    lineprefix p (x ++ [c]) = lineprefix p x := by
  by_cases hne : x = []
  · subst hne
    have h1 : linesT [c] = [([], [c])] := by
      simp only [linesT]
      split
      · rename_i h; subst h; simp [linesT]
      · simp [hc, linesT]
    simp [lineprefix, splitlines, h1, linesT, joinNl, pre]
  · unfold lineprefix
    rw [splitlines_snoc_break x c hc hne hlast]

/-! ### lines in context, empty lines -/

theorem dropTrailingEmpty_of_last (ls : List Str) (h : ls.getLast? ≠ some []) : dropTrailingEmpty ls = ls := by
  match ls with
  | [] => rfl
  | [l] =>
    simp only [dropTrailingEmpty]
    cases l with
    | nil => simp at h
    | cons a l => simp
  | l :: l' :: ls =>
    simp only [dropTrailingEmpty]
    rw [dropTrailingEmpty_of_last (l' :: ls) (by simpa [List.getLast?_cons_cons] using h)]

/-- prefix accumulation in context: an inner marked construct at indentation `p2` contributes the lines
`lx.map (pre p2)` to the body of an outer marked block at indentation `p1`; in the outer output they carry
`p1 ++ p2`, the other lines of the body `p1`, empty lines nothing. -/
theorem lineprefix_context (p1 p2 : Str) (la lx lb : List Str) (hp : breakFree p2)
    (ha : ∀ l ∈ la, breakFree l) (hx : ∀ l ∈ lx, breakFree l) (hb : ∀ l ∈ lb, breakFree l)
    (hlast : (la ++ lx ++ lb).getLast? ≠ some []) :
    lineprefix p1 (joinNl (la ++ lx.map (pre p2) ++ lb)) =
      joinNl (la.map (pre p1) ++ lx.map (pre (p1 ++ p2)) ++ lb.map (pre p1)) := by
  have hall : ∀ l ∈ la ++ lx.map (pre p2) ++ lb, breakFree l := by
    intro l hl
    simp only [List.mem_append, List.mem_map] at hl
    rcases hl with (hl | ⟨l0, hl0, rfl⟩) | hl
    · exact ha l hl
    · exact breakFree_pre hp (hx l0 hl0)
    · exact hb l hl
  have hl2 : (la ++ lx.map (pre p2) ++ lb).getLast? ≠ some [] := by
    intro h
    apply hlast
    have e : la ++ lx.map (pre p2) ++ lb = (la.map id ++ lx.map (pre p2) ++ lb.map id) := by simp
    -- the last line is empty iff it was empty before prefixing
    rcases List.eq_nil_or_concat lb with hlb | ⟨lb', z, hlb⟩
    · subst hlb
      rcases List.eq_nil_or_concat lx with hlx | ⟨lx', z, hlx⟩
      · subst hlx; simpa using h
      · subst hlx
        have e1 : la ++ List.map (pre p2) (lx'.concat z) ++ [] = (la ++ List.map (pre p2) lx') ++ [pre p2 z] := by simp
        have e2 : la ++ lx'.concat z ++ [] = (la ++ lx') ++ [z] := by simp
        rw [e1, List.getLast?_concat] at h
        rw [e2, List.getLast?_concat]
        simp only [Option.some.injEq] at h ⊢
        exact (pre_eq_nil_iff p2 z).1 h
    · subst hlb
      have e1 : la ++ List.map (pre p2) lx ++ lb'.concat z = (la ++ List.map (pre p2) lx ++ lb') ++ [z] := by simp
      have e2 : la ++ lx ++ lb'.concat z = (la ++ lx ++ lb') ++ [z] := by simp
      rw [e1, List.getLast?_concat] at h
      rw [e2, List.getLast?_concat]
      exact h
  rw [lineprefix_joinNl p1 _ hall, dropTrailingEmpty_of_last _ hl2]
  have hc : List.map (pre p1 ∘ pre p2) lx = List.map (pre (p1 ++ p2)) lx :=
    List.map_congr_left (fun l _ => pre_pre p1 p2 l)
  simp only [List.map_append, List.map_map, hc]

/-- a construct whose output has no non-empty line gets no prefix anywhere -/
theorem lineprefix_all_empty (p x : Str) (h : ∀ l ∈ splitlines x, l = []) : lineprefix p x = lineprefix [] x := by
  unfold lineprefix
  congr 1
  apply List.map_congr_left
  intro l hl
  rw [h l hl]; rfl

end NunavutVerif.Lexer

namespace NunavutVerif.Lexer

/-! ## the wrappers `subparse` builds -/

theorem autoindentPrefix_marker (w : Str) (c : Char) : autoindentPrefix (w ++ ['{', c, '*']) = w := by
  simp [autoindentPrefix]

theorem endsStar_marker (w : Str) (c : Char) : endsStar (w ++ ['{', c, '*']) = true := by
  simp [endsStar]

theorem endsWith3_marker (w : Str) (a b c : Char) : endsWith3 a b c (w ++ [a, b, c]) = true := by
  simp [endsWith3]

theorem markerTest_variable (w : Str) : markerTest true (w ++ ['{', '{', '*']) = true := by
  simp [markerTest, isVariableMarker, endsWith3_marker]

theorem markerTest_block (w : Str) : markerTest false (w ++ ['{', '%', '*']) = true := by
  simp [markerTest, isBlockMarker, endsWith3_marker]

theorem renderNodes_singleton (V : Val) (n : Node) : renderNodes V [n] = renderNode V n := by
  simp [renderNodes]

end NunavutVerif.Lexer

/-! ## a token stream without starred begin token parses to a tree without wrapper -/

namespace NunavutVerif.Lexer

theorem consItem_some {i : Item} {o : Option (List Item)} {items : List Item} (h : consItem i o = some items) :
    ∃ rest, o = some rest ∧ items = i :: rest := by
  cases o with
  | none => simp [consItem] at h
  | some rest => simp only [consItem, Option.some.injEq] at h; exact ⟨rest, rfl, h.symm⟩

theorem mkTag_noStar (v : Str) (texts : List Str) (h : markerTest false v = false) : (mkTag v texts).noStar = true := by
  unfold mkTag; split <;> simp [Item.noStar, h]

theorem groupItems_noStar (cur : Option (Bool × Str × List Str)) (toks : List PTok) (items : List Item)
    (hg : groupItems cur toks = some items) (ht : ∀ p ∈ toks, parserWraps p = false)
    (hc : ∀ b v acc, cur = some (b, v, acc) → markerTest b v = false) : ∀ i ∈ items, i.noStar = true := by
  induction toks generalizing cur items with
  | nil =>
    cases cur with
    | none => simp [groupItems] at hg; subst hg; simp
    | some c => simp [groupItems] at hg
  | cons p ps ih =>
    have hps : ∀ q ∈ ps, parserWraps q = false := fun q hq => ht q (by simp [hq])
    have hp := ht p (by simp)
    cases p with
    | err l e => cases cur <;> simp [groupItems] at hg
    | outOfFuel => cases cur <;> simp [groupItems] at hg
    | tok l ty v =>
      cases cur with
      | none =>
        simp only [groupItems] at hg
        split at hg
        · obtain ⟨rest, hr, rfl⟩ := consItem_some hg
          intro i hi
          rcases List.mem_cons.1 hi with rfl | hi
          · rfl
          · exact ih none rest hr hps (by intro b v acc h; cases h) i hi
        · split at hg
          · rename_i hty
            refine ih _ items hg hps ?_
            intro b v' acc h'
            simp only [Option.some.injEq, Prod.mk.injEq] at h'
            obtain ⟨rfl, rfl, _⟩ := h'
            simp only [parserWraps, hty] at hp
            simpa [markerTest] using hp
          · split at hg
            · rename_i hty
              refine ih _ items hg hps ?_
              intro b v' acc h'
              simp only [Option.some.injEq, Prod.mk.injEq] at h'
              obtain ⟨rfl, rfl, _⟩ := h'
              simp only [parserWraps, hty] at hp
              simpa [markerTest] using hp
            · simp at hg
      | some c =>
        obtain ⟨isVar, bv, acc⟩ := c
        have hbv : markerTest isVar bv = false := hc isVar bv acc rfl
        simp only [groupItems] at hg
        split at hg
        · rename_i hcond
          have hiv : isVar = true := by
            simp only [Bool.and_eq_true] at hcond; exact hcond.1
          subst hiv
          obtain ⟨rest, hr, rfl⟩ := consItem_some hg
          intro i hi
          rcases List.mem_cons.1 hi with rfl | hi
          · simp [Item.noStar, hbv]
          · exact ih none rest hr hps (by intro b v acc h; cases h) i hi
        · split at hg
          · rename_i hcond
            have hiv : isVar = false := by
              simp only [Bool.and_eq_true, Bool.not_eq_true'] at hcond; exact hcond.1
            subst hiv
            obtain ⟨rest, hr, rfl⟩ := consItem_some hg
            intro i hi
            rcases List.mem_cons.1 hi with rfl | hi
            · exact mkTag_noStar bv _ hbv
            · exact ih none rest hr hps (by intro b v acc h; cases h) i hi
          · refine ih _ items hg hps ?_
            intro b v' acc' h'
            simp only [Option.some.injEq, Prod.mk.injEq] at h'
            obtain ⟨rfl, rfl, _⟩ := h'
            exact hbv



theorem wrapStmt_noStar {bo : Str → Option (List Str × Str)} {v : Str} (n : Node) (h : markerTest false v = false) :
    wrapStmt (repaired bo) v n = n := by
  simp [wrapStmt, repaired, h]

theorem subparse_wrapperFree (bo : Str → Option (List Str × Str)) (fuel : Nat) (ends : List Str) (items : List Item)
    (h : ∀ i ∈ items, i.noStar = true) :
    ∀ ns e r, subparse (repaired bo) fuel ends items = .ok (ns, e, r) → wrapperFreeL ns = true ∧ ∀ i ∈ r, i.noStar = true := by
  induction fuel generalizing ends items with
  | zero => intro ns e r hs; simp [subparse] at hs
  | succ fuel ih =>
    intro ns e r hs
    match items, h with
    | [], _ =>
      simp only [subparse, Except.ok.injEq, Prod.mk.injEq] at hs
      obtain ⟨rfl, _, rfl⟩ := hs
      exact ⟨rfl, by simp⟩
    | .data s :: is, h =>
      have his : ∀ i ∈ is, i.noStar = true := fun i hi => h i (by simp [hi])
      simp only [subparse] at hs
      split at hs
      · rename_i ns' e' r' hrec
        simp only [Except.ok.injEq, Prod.mk.injEq] at hs
        obtain ⟨rfl, _, rfl⟩ := hs
        obtain ⟨h1, h2⟩ := ih ends is his ns' e' r' hrec
        exact ⟨by simp [wrapperFreeL, Node.wrapperFree, h1], h2⟩
      · simp at hs
    | .var v ex :: is, h =>
      have his : ∀ i ∈ is, i.noStar = true := fun i hi => h i (by simp [hi])
      have hv : markerTest true v = false := by simpa [Item.noStar] using h (.var v ex) (by simp)
      simp only [subparse, repaired, hv, Bool.false_eq_true, if_false] at hs
      split at hs
      · rename_i ns' e' r' hrec
        simp only [Except.ok.injEq, Prod.mk.injEq] at hs
        obtain ⟨rfl, _, rfl⟩ := hs
        obtain ⟨h1, h2⟩ := ih ends is his ns' e' r' hrec
        exact ⟨by simp [wrapperFreeL, Node.wrapperFree, h1], h2⟩
      · simp at hs
    | .tag v name arg :: is, h =>
      have his : ∀ i ∈ is, i.noStar = true := fun i hi => h i (by simp [hi])
      have hv : markerTest false v = false := by simpa [Item.noStar] using h (.tag v name arg) (by simp)
      simp only [subparse] at hs
      split at hs
      · simp only [Except.ok.injEq, Prod.mk.injEq] at hs
        obtain ⟨rfl, _, rfl⟩ := hs
        exact ⟨rfl, his⟩
      · split at hs
        · -- statement without body
          split at hs
          · rename_i ns' e' r' hrec
            simp only [Except.ok.injEq, Prod.mk.injEq] at hs
            obtain ⟨rfl, _, rfl⟩ := hs
            obtain ⟨h1, h2⟩ := ih ends is his ns' e' r' hrec
            rw [wrapStmt_noStar _ hv]
            exact ⟨by simp [wrapperFreeL, Node.wrapperFree, h1], h2⟩
          · simp at hs
        · -- block statement
          rename_i mids endName hblk
          split at hs
          · simp at hs
          · simp at hs
          · rename_i body stop r1 hbody
            obtain ⟨hb1, hb2⟩ := ih _ is his body (some stop) r1 hbody
            split at hs
            · split at hs
              · rename_i ns' e' r' hrec
                simp only [Except.ok.injEq, Prod.mk.injEq] at hs
                obtain ⟨rfl, _, rfl⟩ := hs
                obtain ⟨h1, h2⟩ := ih ends r1 hb2 ns' e' r' hrec
                rw [wrapStmt_noStar _ hv]
                exact ⟨by simp [wrapperFreeL, Node.wrapperFree, h1, hb1], h2⟩
              · simp at hs
            · split at hs
              · simp at hs
              · simp at hs
              · rename_i alt stop2 r2 halt
                obtain ⟨ha1, ha2⟩ := ih _ r1 hb2 alt (some stop2) r2 halt
                split at hs
                · rename_i ns' e' r' hrec
                  simp only [Except.ok.injEq, Prod.mk.injEq] at hs
                  obtain ⟨rfl, _, rfl⟩ := hs
                  obtain ⟨h1, h2⟩ := ih ends r2 ha2 ns' e' r' hrec
                  rw [wrapStmt_noStar _ hv]
                  exact ⟨by simp [wrapperFreeL, Node.wrapperFree, h1, hb1, ha1], h2⟩
                · simp at hs

theorem parseItems_wrapperFree (bo : Str → Option (List Str × Str)) (items : List Item) (h : ∀ i ∈ items, i.noStar = true)
    (ns : List Node) (hp : parseItems (repaired bo) items = .ok ns) : wrapperFreeL ns = true := by
  unfold parseItems at hp
  split at hp
  · rename_i ns' e r hs
    simp only [Except.ok.injEq] at hp; subst hp
    exact (subparse_wrapperFree bo _ [] items h ns' e r hs).1
  · simp at hp

end NunavutVerif.Lexer
