import NunavutVerif.Model.Lexer
/-!
Helper lemmas for C19 (core Lean only).
-/
namespace NunavutVerif.Lexer

/-! ## `spanLen` / `skipLit` -/

theorem skipLit_nil (cls : Char → Bool) (lit : Str) (h : lit ≠ []) : skipLit cls lit [] = none := by
  cases lit with
  | nil => exact absurd rfl h
  | cons a l => simp [skipLit, spanLen]

theorem skipLit_cons_skip {cls : Char → Bool} {lit : Str} {x : Char} {t : Str} (h : cls x = true) :
    skipLit cls lit (x :: t) = (skipLit cls lit t).map (· + 1) := by
  simp only [skipLit, spanLen, h, if_true, List.drop_succ_cons]
  split <;> simp <;> omega

theorem skipLit_cons_stop {cls : Char → Bool} {lit : Str} {x : Char} {t : Str} (h : cls x = false) :
    skipLit cls lit (x :: t) = if lit.isPrefixOf (x :: t) then some lit.length else none := by
  simp [skipLit, spanLen, h]

/-- a literal that starts with another character than `x` does not match at `x :: t` -/
theorem skipLit_cons_none {cls : Char → Bool} {a : Char} {l : Str} {x : Char} {t : Str}
    (h : cls x = false) (hx : a ≠ x) : skipLit cls (a :: l) (x :: t) = none := by
  rw [skipLit_cons_stop h]
  simp [List.isPrefixOf, hx]

/-- skipping a run of class characters in front of a character outside the class -/
theorem skipLit_run {cls : Char → Bool} {lit : Str} (w : Str) (y : Char) (t : Str)
    (hw : ∀ x ∈ w, cls x = true) (hy : cls y = false) :
    skipLit cls lit (w ++ y :: t) =
      if lit.isPrefixOf (y :: t) then some (w.length + lit.length) else none := by
  induction w with
  | nil => simp [skipLit_cons_stop hy]
  | cons a w ih =>
    have ha : cls a = true := hw a (by simp)
    have hw' : ∀ x ∈ w, cls x = true := fun x hx => hw x (by simp [hx])
    rw [List.cons_append, skipLit_cons_skip ha, ih hw']
    split <;> simp <;> omega

/-! ## T1: without a marker Nunavut's alternative never matches -/

/-- the configuration with Nunavut's alternatives removed -/
def Cfg.upstream (cfg : Cfg) : Cfg := ⟨false, false, cfg.lstrip⟩

theorem hasMarker_cons_false {cfg : Cfg} {c : Char} {cs : Str} (h : hasMarker cfg (c :: cs) = false) :
    startsMarker cfg (c :: cs) = false ∧ hasMarker cfg cs = false := by
  simpa [hasMarker] using h

theorem hasMarker_drop {cfg : Cfg} (n : Nat) (s : Str) (h : hasMarker cfg s = false) :
    hasMarker cfg (s.drop n) = false := by
  induction n generalizing s with
  | zero => simpa using h
  | succ n ih =>
    cases s with
    | nil => simp [hasMarker]
    | cons c cs => simpa using ih cs (hasMarker_cons_false h).2

/-- Nunavut's alternative matches only in front of a marker sequence. -/
theorem altStar_none_of_noMarker (cfg : Cfg) (k : Kind) (s : Str) (hk : cfg.starFor k = true)
    (h : hasMarker cfg s = false) : altStar k.start s = none := by
  unfold altStar
  induction s with
  | nil => exact skipLit_nil _ _ (by cases k <;> simp [Kind.start])
  | cons x t ih =>
    have ⟨h1, h2⟩ := hasMarker_cons_false h
    by_cases hb : isBlank x = true
    · rw [skipLit_cons_skip hb, ih h2]; rfl
    · have hb' : isBlank x = false := by simpa using hb
      rw [skipLit_cons_stop hb']
      split
      · rename_i hp
        exfalso
        cases k <;> simp [Kind.start] at hp <;>
          (match t, hp with
           | c :: d :: _, hp =>
             simp at hp
             obtain ⟨rfl, rfl, rfl⟩ := hp
             simp [startsMarker, Cfg.starFor] at h1 hk
             simp [hk] at h1)
      · rfl

theorem thenTail_none (s : Str) : thenTail none s = none := rfl

theorem tagBegin_upstream (cfg : Cfg) (k : Kind) (bol : Bool) (s : Str) (h : hasMarker cfg s = false) :
    tagBegin cfg k bol s = tagBegin cfg.upstream k bol s := by
  have hr : altRest cfg k bol s = altRest cfg.upstream k bol s := by
    cases k <;> rfl
  unfold tagBegin
  rw [hr]
  by_cases hk : cfg.starFor k = true
  · rw [if_pos hk, altStar_none_of_noMarker cfg k s hk h]
    cases k <;> simp [Cfg.upstream, Cfg.starFor]
  · have : cfg.upstream.starFor k = false := by cases k <;> simp [Cfg.upstream, Cfg.starFor]
    simp [hk, this]

theorem rawBegin_upstream (cfg : Cfg) (bol : Bool) (s : Str) (h : hasMarker cfg s = false) :
    rawBegin cfg bol s = rawBegin cfg.upstream bol s := by
  unfold rawBegin
  by_cases hk : cfg.star = true
  · have := altStar_none_of_noMarker cfg .raw s (by simpa [Cfg.starFor] using hk) h
    simp only [hk, this, thenTail_none, if_true, Option.none_or]
    rfl
  · have hk' : cfg.star = false := by simpa using hk
    simp only [hk']
    rfl

theorem matchAt_upstream (cfg : Cfg) (bol : Bool) (s : Str) (h : hasMarker cfg s = false) :
    matchAt cfg bol s = matchAt cfg.upstream bol s := by
  unfold matchAt
  rw [rawBegin_upstream cfg bol s h, tagBegin_upstream cfg .variable bol s h,
    tagBegin_upstream cfg .comment bol s h, tagBegin_upstream cfg .block bol s h]

theorem findBegin_upstream (cfg : Cfg) (bol : Bool) (s : Str) (h : hasMarker cfg s = false) :
    findBegin cfg bol s = findBegin cfg.upstream bol s := by
  induction s generalizing bol with
  | nil => simp [findBegin]
  | cons c cs ih =>
    have ⟨_, h2⟩ := hasMarker_cons_false h
    simp only [findBegin]
    rw [matchAt_upstream cfg bol (c :: cs) h, ih _ h2]

theorem rootStep_upstream (cfg : Cfg) (bol : Bool) (s : Str) (h : hasMarker cfg s = false) :
    rootStep cfg bol s = rootStep cfg.upstream bol s := by
  unfold rootStep
  rw [findBegin_upstream cfg bol s h]

/-- the rest after a root step is a suffix of the source -/
theorem rootStep_rest {cfg : Cfg} {bol : Bool} {s : Str} {st : Step} (h : rootStep cfg bol s = some st) :
    ∃ n, st.rest = s.drop n := by
  unfold rootStep at h
  split at h
  · rename_i o k n _
    simp at h
    exact ⟨o + n, by rw [← h]⟩
  · simp at h

theorem scan_upstream (cfg : Cfg) (inner : Kind → Str → Option Nat) (fuel : Nat) (bol : Bool) (s : Str)
    (h : hasMarker cfg s = false) :
    scan cfg inner fuel bol s = scan cfg.upstream inner fuel bol s := by
  induction fuel generalizing bol s with
  | zero => rfl
  | succ fuel ih =>
    simp only [scan]
    rw [rootStep_upstream cfg bol s h]
    cases hst : rootStep cfg.upstream bol s with
    | none => rfl
    | some st =>
      simp only
      cases hin : inner st.kind st.rest with
      | none => rfl
      | some n =>
        simp only
        congr 1
        apply ih
        have hst' : rootStep cfg bol s = some st := by rw [rootStep_upstream cfg bol s h]; exact hst
        obtain ⟨m, hm⟩ := rootStep_rest hst'
        rw [hm, List.drop_drop]
        exact hasMarker_drop _ _ h

/-! ## T2: the blanks in front of a marker are captured by the begin token -/

theorem isSpace_of_isBlank {x : Char} (h : isBlank x = true) : isSpace x = true := by
  simp only [isBlank, Bool.or_eq_true, decide_eq_true_eq] at h
  rcases h with rfl | rfl <;> decide

theorem ne_brace_of_isBlank {x : Char} (h : isBlank x = true) : '{' ≠ x := by
  intro hx; subst hx; simp [isBlank] at h

/-- `\s*<start>\-` cannot match anywhere in `d ++ w ++ "{c*"…` when `d` has no `{` and `w` is blank. -/
theorem altMinus_none_before_marker (a c : Char) (d w rest : Str) (hd : ∀ x ∈ d, x ≠ '{')
    (hw : ∀ x ∈ w, isBlank x = true) :
    altMinus ['{', a] (d ++ (w ++ '{' :: c :: '*' :: rest)) = none := by
  unfold altMinus
  induction d with
  | nil =>
    rw [List.nil_append, skipLit_run w '{' _ (fun x hx => isSpace_of_isBlank (hw x hx)) (by decide)]
    simp [List.isPrefixOf]
  | cons x d ih =>
    have hx : x ≠ '{' := hd x (by simp)
    have hd' : ∀ y ∈ d, y ≠ '{' := fun y hy => hd y (by simp [hy])
    by_cases hs : isSpace x = true
    · show skipLit isSpace _ (x :: (d ++ _)) = none
      rw [skipLit_cons_skip hs, ih hd']; rfl
    · have hs' : isSpace x = false := by simpa using hs
      exact skipLit_cons_none hs' (Ne.symm hx)

/-- `[ \t]*{…` cannot match inside data that has no `{` and does not end in a blank. -/
theorem skipBlank_none_in_data (l : Str) (d t : Str) (hne : d ≠ []) (hd : ∀ x ∈ d, x ≠ '{')
    (hlast : ∀ x, d.getLast? = some x → isBlank x = false) :
    skipLit isBlank ('{' :: l) (d ++ t) = none := by
  induction d with
  | nil => exact absurd rfl hne
  | cons x d ih =>
    have hx : x ≠ '{' := hd x (by simp)
    by_cases hb : isBlank x = true
    · have hne' : d ≠ [] := by
        intro h; subst h
        have := hlast x (by simp)
        simp [hb] at this
      have hl' : ∀ y, d.getLast? = some y → isBlank y = false := by
        intro y hy
        apply hlast y
        rw [List.getLast?_cons_of_ne_nil hne'] <;> exact hy
      show skipLit isBlank _ (x :: (d ++ t)) = none
      rw [skipLit_cons_skip hb, ih hne' (fun y hy => hd y (by simp [hy])) hl']; rfl
    · have hb' : isBlank x = false := by simpa using hb
      exact skipLit_cons_none hb' (Ne.symm hx)

theorem skipNone_none_in_data (l : Str) (x : Char) (t : Str) (hx : x ≠ '{') :
    skipLit noSkip ('{' :: l) (x :: t) = none :=
  skipLit_cons_none rfl (Ne.symm hx)

/-- No alternative of the root rule matches at an offset inside the data. -/
theorem matchAt_none_in_data (cfg : Cfg) (bol : Bool) (c : Char) (d w rest : Str) (hne : d ≠ [])
    (hd : ∀ x ∈ d, x ≠ '{') (hlast : ∀ x, d.getLast? = some x → isBlank x = false)
    (hw : ∀ x ∈ w, isBlank x = true) :
    matchAt cfg bol (d ++ (w ++ '{' :: c :: '*' :: rest)) = none := by
  have hm : ∀ a, altMinus ['{', a] (d ++ (w ++ '{' :: c :: '*' :: rest)) = none :=
    fun a => altMinus_none_before_marker a c d w rest hd hw
  have hb : ∀ l, skipLit isBlank ('{' :: l) (d ++ (w ++ '{' :: c :: '*' :: rest)) = none :=
    fun l => skipBlank_none_in_data l d _ hne hd hlast
  have hn : ∀ l, skipLit noSkip ('{' :: l) (d ++ (w ++ '{' :: c :: '*' :: rest)) = none := by
    intro l
    cases d with
    | nil => exact absurd rfl hne
    | cons x d => exact skipNone_none_in_data l x _ (hd x (by simp))
  have hm' : ∀ a, skipLit isSpace ['{', a, '-'] (d ++ (w ++ '{' :: c :: '*' :: rest)) = none :=
    fun a => by simpa [altMinus] using hm a
  have hrest : ∀ k, altRest cfg k bol (d ++ (w ++ '{' :: c :: '*' :: rest)) = none := by
    intro k
    cases k <;> simp only [altRest, altLstrip, altPlusOpt, altPlain, Kind.start, hb, hn] <;>
      (repeat' split) <;> simp
  have htag : ∀ k, tagBegin cfg k bol (d ++ (w ++ '{' :: c :: '*' :: rest)) = none := by
    intro k
    cases k <;>
      simp [tagBegin, altStar, altMinus, Kind.start, hb, hm', hrest]
  have hraw : rawBegin cfg bol (d ++ (w ++ '{' :: c :: '*' :: rest)) = none := by
    simp only [rawBegin, altStar, altMinus, altLstrip, altPlusOpt, altPlain, Kind.start, List.cons_append,
      List.nil_append, hb, hn, hm', thenTail]
    (repeat' split) <;> simp_all
  simp [matchAt, htag, hraw]

theorem findBegin_skip_data (cfg : Cfg) (c : Char) (d w rest : Str)
    (hd : ∀ x ∈ d, x ≠ '{') (hlast : ∀ x, d.getLast? = some x → isBlank x = false)
    (hw : ∀ x ∈ w, isBlank x = true) (bol : Bool) :
    findBegin cfg bol (d ++ (w ++ '{' :: c :: '*' :: rest)) =
      (findBegin cfg (bolAfter bol d) (w ++ '{' :: c :: '*' :: rest)).map
        fun r => (r.1 + d.length, r.2) := by
  induction d generalizing bol with
  | nil =>
    simp only [List.nil_append, bolAfter, List.getLast?_nil, List.length_nil, Nat.add_zero]
    cases findBegin cfg bol (w ++ '{' :: c :: '*' :: rest) <;> rfl
  | cons x d ih =>
    have hnone := matchAt_none_in_data cfg bol c (x :: d) w rest (by simp) hd hlast hw
    rw [List.cons_append] at hnone ⊢
    rw [findBegin, hnone]
    by_cases hne : d = []
    · subst hne
      simp only [List.nil_append, bolAfter, List.getLast?_singleton, List.length_cons, List.length_nil]
      cases findBegin cfg (x == '\n') (w ++ '{' :: c :: '*' :: rest) with
      | none => rfl
      | some r => obtain ⟨o, k, n⟩ := r; simp [pick]
    · have hl' : ∀ y, d.getLast? = some y → isBlank y = false := by
        intro y hy
        apply hlast y
        rw [List.getLast?_cons_of_ne_nil hne] <;> exact hy
      rw [ih (fun y hy => hd y (by simp [hy])) hl']
      have hb : bolAfter (x == '\n') d = bolAfter bol (x :: d) := by
        simp only [bolAfter, List.getLast?_cons_of_ne_nil hne]
        cases hg : d.getLast? with
        | none => simp [List.getLast?_eq_none_iff] at hg; exact absurd hg hne
        | some y => rfl
      rw [hb]
      cases findBegin cfg (bolAfter bol (x :: d)) (w ++ '{' :: c :: '*' :: rest) with
      | none => rfl
      | some r => obtain ⟨o, k, n⟩ := r; simp [pick]; omega

/-! ### the alternation at the marker itself -/

theorem skipSpace_at (lit w t : Str) (hw : ∀ x ∈ w, isBlank x = true) :
    skipLit isSpace lit (w ++ '{' :: t) =
      if lit.isPrefixOf ('{' :: t) then some (w.length + lit.length) else none :=
  skipLit_run w '{' t (fun x hx => isSpace_of_isBlank (hw x hx)) (by decide)

theorem skipBlank_at (lit w t : Str) (hw : ∀ x ∈ w, isBlank x = true) :
    skipLit isBlank lit (w ++ '{' :: t) =
      if lit.isPrefixOf ('{' :: t) then some (w.length + lit.length) else none :=
  skipLit_run w '{' t hw (by decide)

theorem skipNone_at (l w t : Str) (hw : ∀ x ∈ w, isBlank x = true) :
    skipLit noSkip ('{' :: l) (w ++ '{' :: t) =
      if w = [] ∧ l.isPrefixOf t then some (l.length + 1) else none := by
  cases w with
  | nil =>
    rw [List.nil_append, skipLit_cons_stop rfl]
    simp [List.isPrefixOf]
  | cons b w =>
    rw [List.cons_append, skipLit_cons_none rfl (ne_brace_of_isBlank (hw b (by simp)))]
    simp

theorem rawTail_star (rest : Str) : rawTail ('*' :: rest) = none := by
  simp [rawTail, spanLen, show isSpace '*' = false by decide]

theorem drop_blank_marker (w t : Str) (n : Nat) : (w ++ t).drop (w.length + n) = t.drop n := by
  induction w with
  | nil => simp
  | cons a w ih => simp [Nat.succ_add]

theorem take_blank_marker (w t : Str) (n : Nat) : (w ++ t).take (w.length + n) = w ++ t.take n := by
  induction w with
  | nil => simp
  | cons a w ih => simp [Nat.succ_add, ih]

/-- `w{{*` is a variable begin whose token text is exactly `w{{*`. -/
theorem matchAt_variable_marker (cfg : Cfg) (hs : cfg.star = true) (bol : Bool) (w rest : Str)
    (hw : ∀ x ∈ w, isBlank x = true) :
    matchAt cfg bol (w ++ '{' :: '{' :: '*' :: rest) = some (Kind.variable, w.length + 3) := by
  have hraw : rawBegin cfg bol (w ++ '{' :: '{' :: '*' :: rest) = none := by
    simp only [rawBegin, altStar, altMinus, altLstrip, altPlusOpt, altPlain, Kind.start, List.cons_append,
      List.nil_append, skipSpace_at _ w _ hw, skipBlank_at _ w _ hw, skipNone_at _ w _ hw, thenTail]
    (repeat' split) <;> simp_all [List.isPrefixOf]
  have hvar : tagBegin cfg .variable bol (w ++ '{' :: '{' :: '*' :: rest) = some (w.length + 3) := by
    simp [tagBegin, altStar, altMinus, Kind.start, Cfg.starFor, hs, skipSpace_at _ w _ hw,
      skipBlank_at _ w _ hw, List.isPrefixOf]
  simp [matchAt, hraw, hvar]

/-- `w{%*` is a block begin whose token text is exactly `w{%*`, unless a raw block starts there. -/
theorem matchAt_block_marker (cfg : Cfg) (hs : cfg.star = true) (bol : Bool) (w rest : Str)
    (hw : ∀ x ∈ w, isBlank x = true) (hraw : rawTail rest = none) :
    matchAt cfg bol (w ++ '{' :: '%' :: '*' :: rest) = some (Kind.block, w.length + 3) := by
  have hd3 : List.drop (w.length + 3) (w ++ '{' :: '%' :: '*' :: rest) = rest := by
    rw [drop_blank_marker]; rfl
  have hd2 : List.drop (w.length + 2) (w ++ '{' :: '%' :: '*' :: rest) = '*' :: rest := by
    rw [drop_blank_marker]; rfl
  have hA : altMinus ['{', '%'] (w ++ '{' :: '%' :: '*' :: rest) = none := by
    simp [altMinus, skipSpace_at _ w _ hw, List.isPrefixOf]
  have hS : altStar ['{', '%'] (w ++ '{' :: '%' :: '*' :: rest) = some (w.length + 3) := by
    simp [altStar, skipBlank_at _ w _ hw, List.isPrefixOf]
  have hL : altLstrip ['{', '%'] true bol (w ++ '{' :: '%' :: '*' :: rest) =
      if bol then some (w.length + 2) else none := by
    simp [altLstrip, skipBlank_at _ w _ hw, List.isPrefixOf, hd2, nextIsPlus]
  have h0 : skipLit noSkip ['{', '%'] ('{' :: '%' :: '*' :: rest) = some 2 := by
    have := skipNone_at ['%'] [] ('%' :: '*' :: rest) (by simp)
    simpa [List.isPrefixOf] using this
  have hP : altPlusOpt ['{', '%'] (w ++ '{' :: '%' :: '*' :: rest) = if w = [] then some 2 else none := by
    by_cases hwn : w = []
    · subst hwn; simp [altPlusOpt, h0, nextIsPlus]
    · simp [altPlusOpt, skipNone_at _ w _ hw, hwn]
  have hQ : altPlain ['{', '%'] (w ++ '{' :: '%' :: '*' :: rest) = if w = [] then some 2 else none := by
    by_cases hwn : w = []
    · subst hwn; simp [altPlain, h0]
    · simp [altPlain, skipNone_at _ w _ hw, hwn]
  have hTS : thenTail (some (w.length + 3)) (w ++ '{' :: '%' :: '*' :: rest) = none := by
    simp [thenTail, hd3, hraw]
  have hTL : thenTail (if bol then some (w.length + 2) else none) (w ++ '{' :: '%' :: '*' :: rest) = none := by
    cases bol <;> simp [thenTail, hd2, rawTail_star]
  have hTP : thenTail (if w = [] then some 2 else none) (w ++ '{' :: '%' :: '*' :: rest) = none := by
    by_cases hwn : w = []
    · subst hwn; simp [thenTail, rawTail_star]
    · simp [thenTail, hwn]
  have hrawB : rawBegin cfg bol (w ++ '{' :: '%' :: '*' :: rest) = none := by
    simp only [rawBegin, Kind.start, hA, hS, hL, hP, hQ, hTS, hTL, hTP, thenTail_none]
    (repeat' split) <;> simp
  have hvar : tagBegin cfg .variable bol (w ++ '{' :: '%' :: '*' :: rest) = none := by
    simp [tagBegin, altStar, altMinus, altRest, altPlain, Kind.start, Cfg.starFor, hs, skipSpace_at _ w _ hw,
      skipBlank_at _ w _ hw, skipNone_at _ w _ hw, List.isPrefixOf]
  have hcom : tagBegin cfg .comment bol (w ++ '{' :: '%' :: '*' :: rest) = none := by
    simp only [tagBegin, altStar, altMinus, altRest, altPlain, altLstrip, altPlusOpt, Kind.start, Cfg.starFor,
      List.cons_append, List.nil_append, skipSpace_at _ w _ hw, skipBlank_at _ w _ hw, skipNone_at _ w _ hw]
    (repeat' split) <;> simp_all [List.isPrefixOf]
  have hblk : tagBegin cfg .block bol (w ++ '{' :: '%' :: '*' :: rest) = some (w.length + 3) := by
    simp [tagBegin, altStar, altMinus, Kind.start, Cfg.starFor, hs, skipSpace_at _ w _ hw,
      skipBlank_at _ w _ hw, List.isPrefixOf]
  simp [matchAt, hrawB, hvar, hcom, hblk]

theorem findBegin_of_matchAt {cfg : Cfg} {bol : Bool} {s : Str} {k : Kind} {n : Nat}
    (h : matchAt cfg bol s = some (k, n)) (hne : s ≠ []) : findBegin cfg bol s = some (0, k, n) := by
  cases s with
  | nil => exact absurd rfl hne
  | cons c cs => rw [findBegin, h]; rfl

/-! ## `lineprefix` -/

def glue (lt : Str × Str) : Str := lt.1 ++ lt.2

theorem flatten_consHead (c : Char) (L : List (Str × Str)) :
    ((consHead c L).map glue).flatten = c :: (L.map glue).flatten := by
  cases L with
  | nil => simp [consHead, glue]
  | cons lt rest => obtain ⟨l, t⟩ := lt; simp [consHead, glue]

/-- `splitlines(keepends=True)` loses nothing: the pieces concatenate to the string. -/
theorem linesT_flatten (s : Str) : ((linesT s).map glue).flatten = s := by
  induction s with
  | nil => simp [linesT]
  | cons c cs ih =>
    simp only [linesT]
    split
    · rename_i hc
      subst hc
      split
      · rename_i hh
        cases cs with
        | nil => simp at hh
        | cons d ds =>
          simp at hh; subst hh
          have hl : linesT ('\n' :: ds) = ([], ['\n']) :: linesT ds := by
            simp [linesT, isBreak]
          rw [hl] at ih ⊢
          simp [mergeCR, glue] at ih ⊢
          exact ih
      · simp [glue, ih]
    · split
      · simp [glue, ih]
      · rw [flatten_consHead, ih]

theorem linesT_ne_nil {s : Str} (h : s ≠ []) : linesT s ≠ [] := by
  cases s with
  | nil => exact absurd rfl h
  | cons c cs =>
    simp only [linesT]
    split
    · split
      · cases linesT cs <;> simp [mergeCR]
      · simp
    · split
      · simp
      · cases linesT cs <;> simp [consHead]

/-- the join of the (prefixed) contents is the concatenation with normalised terminators -/
theorem joinNl_eq_normTerms (f : Str → Str) (L : List (Str × Str)) :
    joinNl (L.map fun lt => f lt.1) = ((normTerms L).map fun lt => f lt.1 ++ lt.2).flatten := by
  induction L with
  | nil => simp [joinNl, normTerms]
  | cons a L ih =>
    cases L with
    | nil => obtain ⟨l, t⟩ := a; simp [joinNl, normTerms]
    | cons b L =>
      obtain ⟨l, t⟩ := a
      simp only [List.map_cons, joinNl, normTerms, List.flatten_cons] at ih ⊢
      rw [ih]
      simp

theorem normTerms_consHead (c : Char) (L : List (Str × Str)) (h : normTerms L = L) :
    normTerms (consHead c L) = consHead c L := by
  cases L with
  | nil => simp [consHead, normTerms]
  | cons a L =>
    obtain ⟨l, t⟩ := a
    cases L with
    | nil => simp [consHead, normTerms] at h ⊢; exact h
    | cons b L =>
      simp only [consHead, normTerms, List.cons.injEq, Prod.mk.injEq, true_and] at h ⊢
      exact h

/-- On text whose only line boundary is `\n` and that does not end in one, the terminators survive. -/
theorem normTerms_linesT_plain (s : Str) (hb : ∀ c ∈ s, isBreak c = true → c = '\n')
    (hl : s.getLast? ≠ some '\n') : normTerms (linesT s) = linesT s := by
  induction s with
  | nil => simp [linesT, normTerms]
  | cons c cs ih =>
    have hb' : ∀ x ∈ cs, isBreak x = true → x = '\n' := fun x hx => hb x (by simp [hx])
    have hcr : c ≠ '\r' := by
      intro h; subst h
      have := hb '\r' (by simp) (by decide)
      exact absurd this (by decide)
    simp only [linesT, hcr, if_false]
    by_cases hcs : cs = []
    · subst hcs
      split
      · rename_i hbr
        have := hb c (by simp) hbr
        subst this
        simp at hl
      · simp [linesT, consHead, normTerms]
    · have hl' : cs.getLast? ≠ some '\n' := by
        rw [List.getLast?_cons_of_ne_nil hcs] at hl <;> exact hl
      have ih' := ih hb' hl'
      split
      · rename_i hbr
        have := hb c (by simp) hbr
        subst this
        have hne := linesT_ne_nil hcs
        cases hL : linesT cs with
        | nil => exact absurd hL hne
        | cons a L =>
          rw [hL] at ih'
          simp only [normTerms, List.cons.injEq, true_and]
          exact ih'
      · exact normTerms_consHead c _ ih'

/-! ## source normalisation -/

theorem joinNl_cons_cons_head (c : Char) (l : Str) (ls : List Str) :
    joinNl ((c :: l) :: ls) = c :: joinNl (l :: ls) := by
  cases ls <;> simp [joinNl]

theorem joinNl_nil_cons (ls : List Str) (h : ls ≠ []) : joinNl ([] :: ls) = '\n' :: joinNl ls := by
  cases ls with
  | nil => exact absurd rfl h
  | cons a ls => simp [joinNl]

theorem joinNl_snoc_nil (ls : List Str) (h : ls ≠ []) : joinNl (ls ++ [[]]) = joinNl ls ++ ['\n'] := by
  induction ls with
  | nil => exact absurd rfl h
  | cons a ls ih =>
    cases ls with
    | nil => simp [joinNl]
    | cons b ls =>
      have := ih (by simp)
      simp only [List.cons_append, joinNl] at this ⊢
      rw [this]; simp

theorem map_fst_consHead (c : Char) (L : List (Str × Str)) (h : L ≠ []) :
    ∃ l rest, L.map (·.1) = l :: rest ∧ (consHead c L).map (·.1) = (c :: l) :: rest := by
  cases L with
  | nil => exact absurd rfl h
  | cons a L => obtain ⟨l, t⟩ := a; exact ⟨l, L.map (·.1), rfl, rfl⟩

/-- On text whose only line boundary is `\n`, split-and-join removes exactly one final `\n`. -/
theorem joinNl_splitlines_snoc_nl (t : Str) (hb : ∀ c ∈ t, isBreak c = true → c = '\n') :
    joinNl (splitlines (t ++ ['\n'])) = t := by
  induction t with
  | nil => simp [splitlines, linesT, isBreak, joinNl]
  | cons c t ih =>
    have ih' := ih (fun x hx => hb x (by simp [hx]))
    have hne : linesT (t ++ ['\n']) ≠ [] := linesT_ne_nil (by simp)
    have hcr : c ≠ '\r' := by
      intro h; subst h
      exact absurd (hb '\r' (by simp) (by decide)) (by decide)
    unfold splitlines at ih' ⊢
    simp only [List.cons_append, linesT, hcr, if_false]
    split
    · rename_i hbr
      have := hb c (by simp) hbr
      subst this
      simp only [List.map_cons]
      rw [joinNl_nil_cons _ (by simpa using hne), ih']
    · obtain ⟨l, rest, h1, h2⟩ := map_fst_consHead c _ hne
      rw [h2, joinNl_cons_cons_head, ← h1, ih']

/-! ## `ifuses` -/

theorem parseLoop_ok {negate : Bool} {name body : Str} {segs : List Seg}
    {cs : List (Bool × Str × Str)} {e : Str} (h : parseLoop negate name body segs = .ok (cs, e)) :
    cs = clausesOf negate name body segs ∧ e = elseOf segs := by
  induction segs generalizing negate name body cs e with
  | nil => simp [parseLoop] at h
  | cons sg rest ih =>
    obtain ⟨tg, n, b⟩ := sg
    cases tg with
    | elifuses =>
      simp only [parseLoop] at h
      split at h
      · rename_i cs' e' hrec
        simp at h
        obtain ⟨h1, h2⟩ := ih hrec
        simp [clausesOf, elseOf, ← h.1, ← h.2, h1, h2]
      · simp at h
    | elifnuses =>
      simp only [parseLoop] at h
      split at h
      · rename_i cs' e' hrec
        simp at h
        obtain ⟨h1, h2⟩ := ih hrec
        simp [clausesOf, elseOf, ← h.1, ← h.2, h1, h2]
      · simp at h
    | else_ =>
      simp only [parseLoop] at h
      split at h
      · simp at h
        simp [clausesOf, elseOf, ← h.1, ← h.2]
      · simp at h
    | end_ =>
      simp [parseLoop] at h
      simp [clausesOf, elseOf, ← h.1, ← h.2]

theorem evalClauses_eq_ifElifElse (q : Str → Option Bool) (cs : List (Bool × Str × Str)) (e : Str) :
    evalClauses q cs e = ifElifElse (cs.map fun c => (useQuery q c.1 c.2.1, c.2.2)) e := by
  induction cs with
  | nil => rfl
  | cons c cs ih =>
    obtain ⟨ng, n, b⟩ := c
    simp only [evalClauses, List.map_cons]
    cases hq : useQuery q ng n with
    | error x => simp [ifElifElse]
    | ok v => cases v <;> simp [ifElifElse, ih]

end NunavutVerif.Lexer
