import NunavutVerif.Lemmas.GenCDeA
import NunavutVerif.Lemmas.GenCSer
/-!
GenC refinement, part 9: the generated deserializer refines `deBits`, for every type — loops, struct fields, union
options, and the structural induction over `Ty`.
-/
namespace NunavutVerif.GenC
open NunavutVerif.Dsdl NunavutVerif.Bits
open AOff

/-- `_deserialize_any` for type `t` refines the specification at every position. -/
def DeOKC (o : Opts) (t : Ty) : Prop :=
  wf t = true → wfC t = true → ∀ d buf cap off, WF buf → cap ≤ buf.length → Adm d off → off % align t = 0 →
    DeRefines (deAny o t d buf cap off) (deBits t ((bitsOf buf cap).drop off)) cap off

/-- the generated function of a composite `t` refines the specification -/
def DeFnOKC (o : Opts) (t : Ty) : Prop :=
  wf t = true → wfC t = true → isComposite t = true → DeFnOK (deFn o t) t

def DeP (o : Opts) (t : Ty) : Prop := DeOKC o t ∧ DeFnOKC o t

theorem mod_align_of_rel {t : Ty} {cap c s : Nat} (h : Rel cap c s) (hs : s % align t = 0) : c % align t = 0 := by
  obtain ⟨_, h2, _⟩ := h
  rcases align_cases t with e | e <;> rw [e] at hs ⊢ <;> omega

section
set_option linter.unusedSectionVars false
variable (o : Opts) (hs : o.Sound)
include hs

/-! ### the element loop -/

theorem deLoop_refines (t : Ty) (hT : DeOKC o t) (hw : wf t = true) (hwC : wfC t = true) (buf : Buf) (cap : Nat)
    (hwf : WF buf) (hcap : cap ≤ buf.length)
    (d0 R : AOff) (off0 K : Nat) (hd0 : Adm d0 off0) (hR : ∀ x, Sums (resBits t) K x → Adm R x) :
    ∀ (k offC offS j x : Nat), Rel cap offC offS → offS = off0 + x → Sums (resBits t) j x → j + k ≤ K + 1 →
      offS % align t = 0 →
      match deAllWith (deBits t) k ((bitsOf buf cap).drop offS) with
      | .ok (vs, used) => ∃ off', deLoop (fun f => anyGuard o t none (d0.add R) f (deAny o t (d0.add R) buf cap f)) k offC
            = .ok (vs, off') ∧ Rel cap off' (offS + used)
      | .error e => deLoop (fun f => anyGuard o t none (d0.add R) f (deAny o t (d0.add R) buf cap f)) k offC
            = .error (embedD e) := by
  intro k
  induction k with
  | zero =>
    intro offC offS j x hrel _ _ _ _
    simp only [deAllWith, deLoop]
    exact ⟨offC, rfl, by simpa using hrel⟩
  | succ k ih =>
    intro offC offS j x hrel hoff hsum hjk hal
    have hadmS : Adm (d0.add R) offS := by
      rw [hoff]; exact adm_add hd0 (hR x (sums_mono hsum (by omega)))
    have hadmC : Adm (d0.add R) offC := adm_congr hrel.2.1.symm hadmS
    have h1 := hT hw hwC (d0.add R) buf cap offC hwf hcap hadmC (mod_align_of_rel hrel hal)
    rw [Rel.drop hcap hrel] at h1
    simp only [deAllWith, deLoop]
    rw [anyGuard_ok o hs t none _ _ _ (mod_align_of_rel hrel hal) hadmC rfl]
    cases hsp : deBits t ((bitsOf buf cap).drop offS) with
    | error e =>
      rw [hsp] at h1
      simp only [DeRefines] at h1
      simp only [h1]
    | ok r =>
      obtain ⟨v, n⟩ := r
      rw [hsp] at h1
      simp only [DeRefines] at h1
      obtain ⟨off1, hd1, hrel1⟩ := h1
      have hres := resOKD t hw _ v n hsp
      have h2 := ih off1 (offS + n) (j + 1) (x + n) (Rel.trans hrel1 hrel) (by omega) (sums_step hsum hres.1)
        (by omega) (by rcases align_cases t with e | e <;> rw [e] at hal hres ⊢ <;> omega)
      simp only [hd1, List.drop_drop]
      cases hsa : deAllWith (deBits t) k ((bitsOf buf cap).drop (offS + n)) with
      | error e =>
        rw [hsa] at h2
        simp only [h2]
      | ok r2 =>
        obtain ⟨vs, m⟩ := r2
        rw [hsa] at h2
        obtain ⟨off2, hd2, hrel2⟩ := h2
        simp only [hd2]
        exact ⟨off2, rfl, by rw [← Nat.add_assoc]; exact hrel2⟩

theorem deElems_refines (t : Ty) (hT : DeOKC o t) (hw : wf t = true) (hwC : wfC t = true) (buf : Buf) (cap : Nat)
    (hwf : WF buf) (hcap : cap ≤ buf.length) (d0 R : AOff) (K : Nat)
    (hR : ∀ x, Sums (resBits t) K x → Adm R x) (count storN off : Nat) (hd0 : Adm d0 off)
    (hc : count ≤ storN) (hk : count ≤ K + 1) (hal : off % align t = 0) :
    DeRefines (deElems o t (fun f => anyGuard o t none (d0.add R) f (deAny o t (d0.add R) buf cap f)) count storN buf cap off)
      (deAllWith (deBits t) count ((bitsOf buf cap).drop off)) cap off := by
  by_cases hb : t = .bool
  · subst hb
    exact deElems_bool o _ count storN buf cap off hcap hc
  · by_cases hz : zeroCost o t = true
    · exact deElems_zeroCost o t hz hw _ count storN buf cap off hwf hcap hc
    · rw [deElems_nonbool o t hb]
      simp only [hz, Bool.false_eq_true, if_false]
      have := deLoop_refines o hs t hT hw hwC buf cap hwf hcap d0 R off K hd0 hR count off off 0 0 (Rel.refl _ _) rfl
        (sums_zero _ _) (by omega) hal
      cases hsa : deAllWith (deBits t) count ((bitsOf buf cap).drop off) with
      | error e => rw [hsa] at this; simpa [DeRefines] using this
      | ok r =>
        obtain ⟨vs, m⟩ := r
        rw [hsa] at this
        simpa [DeRefines] using this

/-! ### struct fields and union options -/

theorem deFields_refines : ∀ fs : List Ty, (∀ f ∈ fs, DeOKC o f) → wfAll fs = true → wfCAll fs = true →
    ∀ (first : Bool) (d : AOff) (buf : Buf) (cap offC offS : Nat), WF buf → cap ≤ buf.length → Rel cap offC offS →
      Adm d offS → (first = true → offS = 0 ∧ offC = 0) →
      match Dsdl.deFields fs (bitsOf buf cap) offS with
      | .ok (vs, e) => ∃ off', GenC.deFields o fs first d buf cap offC = .ok (vs, off') ∧ Rel cap off' e
      | .error e => GenC.deFields o fs first d buf cap offC = .error (embedD e) := by
  intro fs
  induction fs with
  | nil =>
    intro _ _ _ first d buf cap offC offS _ _ hrel _ _
    simp only [Dsdl.deFields, GenC.deFields]
    exact ⟨offC, rfl, hrel⟩
  | cons f fs ih =>
    intro hT hw hwC first d buf cap offC offS hwf hcap hrel hd hfirst
    simp only [wfAll, Bool.and_eq_true] at hw
    simp only [wfCAll, Bool.and_eq_true] at hwC
    -- alignment before the field
    have hrel1 : Rel cap (if first = true then offC else padDe (align f) offC) (padTo (align f) offS) := by
      cases first with
      | true =>
        obtain ⟨e1, e2⟩ := hfirst rfl
        subst e1 e2
        have : padTo (align f) 0 = 0 := by rcases align_cases f with e | e <;> rw [e] <;> rfl
        simp only [if_true, this]; exact Rel.refl _ _
      | false =>
        simp only [Bool.false_eq_true, if_false, padDe_eq _ _ (align_cases f)]
        exact Rel.pad (align_cases f) hrel
    simp only [Dsdl.deFields, GenC.deFields]
    generalize (if first = true then offC else padDe (align f) offC) = offC1 at hrel1 ⊢
    have hadmS := adm_pad (align_cases f) hd
    have hadmC : Adm (d.pad (align f)) offC1 := adm_congr hrel1.2.1.symm hadmS
    have h1 := hT f (by simp) hw.1 hwC.1 (d.pad (align f)) buf cap offC1 hwf hcap hadmC
      (mod_align_of_rel hrel1 (padTo_mod (align_cases f) offS))
    rw [Rel.drop hcap hrel1] at h1
    rw [anyGuard_ok o hs f none _ _ _ (mod_align_of_rel hrel1 (padTo_mod (align_cases f) offS)) hadmC rfl]
    cases hsp : deBits f ((bitsOf buf cap).drop (padTo (align f) offS)) with
    | error e =>
      rw [hsp] at h1
      simp only [DeRefines] at h1
      simp only [h1]
    | ok r =>
      obtain ⟨v, n⟩ := r
      rw [hsp] at h1
      simp only [DeRefines] at h1
      obtain ⟨off1, hd1, hr1⟩ := h1
      have hres := resOKD f hw.1 _ v n hsp
      have h2 := ih (fun g hg => hT g (List.mem_cons_of_mem _ hg)) hw.2 hwC.2 false
        ((d.pad (align f)).add (resBits f)) buf cap off1 (padTo (align f) offS + n) hwf hcap
        (Rel.trans hr1 hrel1) (adm_add hadmS hres.1) (by intro h; cases h)
      simp only [hd1]
      cases hsa : Dsdl.deFields fs (bitsOf buf cap) (padTo (align f) offS + n) with
      | error e =>
        rw [hsa] at h2
        simp only [h2]
      | ok r2 =>
        obtain ⟨vs, e⟩ := r2
        rw [hsa] at h2
        obtain ⟨off2, hd2, hr2⟩ := h2
        simp only [hd2]
        exact ⟨off2, rfl, hr2⟩

theorem deNth_bad : ∀ (fs : List Ty) (k : Nat) (d : AOff) (buf : Buf) (cap off : Nat),
    k ≥ fs.length → GenC.deNth o fs k d buf cap off = .error eBadUnionTag := by
  intro fs
  induction fs with
  | nil => intro k d buf cap off _; simp [GenC.deNth]
  | cons f fs ih =>
    intro k d buf cap off hk
    cases k with
    | zero => simp at hk
    | succ k =>
      simp only [GenC.deNth]
      exact ih k d buf cap off (by simpa using hk)

theorem deNth_refines : ∀ fs : List Ty, (∀ f ∈ fs, DeOKC o f) → wfAll fs = true → wfCAll fs = true →
    ∀ (k : Nat) (d : AOff) (buf : Buf) (cap off : Nat), WF buf → cap ≤ buf.length → Adm d off → off % 8 = 0 →
      DeRefines (GenC.deNth o fs k d buf cap off) (Dsdl.deNth fs k ((bitsOf buf cap).drop off)) cap off := by
  intro fs
  induction fs with
  | nil =>
    intro _ _ _ k d buf cap off _ _ _ _
    simp [GenC.deNth, Dsdl.deNth, DeRefines, embedD]
  | cons f fs ih =>
    intro hT hw hwC k d buf cap off hwf hcap hd hal
    simp only [wfAll, Bool.and_eq_true] at hw
    simp only [wfCAll, Bool.and_eq_true] at hwC
    cases k with
    | zero =>
      simp only [GenC.deNth, Dsdl.deNth]
      rw [anyGuard_ok o hs f none _ _ _ (align_mod_of_mod8 f hal) hd rfl]
      exact hT f (by simp) hw.1 hwC.1 d buf cap off hwf hcap hd (align_mod_of_mod8 f hal)
    | succ k =>
      simp only [GenC.deNth, Dsdl.deNth]
      exact ih (fun g hg => hT g (List.mem_cons_of_mem _ hg)) hw.2 hwC.2 k d buf cap off hwf hcap hd hal

/-! ### the induction over the type -/

theorem deFnOKC_noncomposite {t : Ty} (h : isComposite t = false) : DeFnOKC o t := by
  intro _ _ hc; rw [h] at hc; cases hc

theorem used_mod8 {t : Ty} (hw : wf t = true) (ha : align t = 8) :
    ∀ bs v u, deBits t bs = .ok (v, u) → u % 8 = 0 := by
  intro bs v u h
  have := (resOKD t hw bs v u h).2
  rwa [ha] at this

theorem deP_struct (fs : List Ty) (ih : ∀ f ∈ fs, DeP o f) : DeP o (.struct fs) := by
  have hfn : DeFnOKC o (.struct fs) := by
    intro hw hwC _
    have e : deFn o (.struct fs) = topDe o (maxBits (.struct fs)) (.struct (trivVals fs)) (fun b c =>
        match GenC.deFields o fs true AOff.zero b c 0 with
        | .error e => .error e
        | .ok (vs, f) => .ok (.struct vs, f)) := by
      funext b c; simp only [deFn] <;> rfl
    rw [e]
    apply topDe_fnOK o _ _ _ (.struct fs) (fun bs =>
      match Dsdl.deFields fs bs 0 with
      | .ok (vs, off) => .ok (.struct vs, off)
      | .error e => .error e)
    · intro bs
      simp only [deBits]
      cases Dsdl.deFields fs bs 0 with
      | error e => rfl
      | ok r => rfl
    · intro sub size hwf hsz
      simp only [wf] at hw
      simp only [wfC] at hwC
      have := deFields_refines o hs fs (fun f hf => (ih f hf).1) hw hwC true AOff.zero sub size 0 0 hwf hsz
        (Rel.refl _ _) (adm_zero rfl) (fun _ => ⟨rfl, rfl⟩)
      cases hsp : Dsdl.deFields fs (bitsOf sub size) 0 with
      | error e =>
        rw [hsp] at this
        simp only [DeRefines, this]
      | ok r =>
        obtain ⟨vs, e⟩ := r
        rw [hsp] at this
        obtain ⟨off', h1, h2⟩ := this
        simp only [DeRefines, h1]
        exact ⟨off', rfl, by simpa using h2⟩
    · intro h0 bs
      have := deTrivOK (.struct fs) hw hwC h0 bs
      simpa [trivVal] using this
  refine ⟨?_, hfn⟩
  intro hw hwC d buf cap off hwf hcap hd hal
  have e : deAny o (.struct fs) d buf cap off = nestedDe o (deFn o (.struct fs)) false d buf cap off := by
    simp only [deAny, deFn]
  rw [e]
  simp only [align] at hal
  exact nestedDe_sealed o _ (.struct fs) (hfn hw hwC rfl) (used_mod8 o hs hw rfl) d buf cap off hwf hcap hal

theorem deP_union (fs : List Ty) (ih : ∀ f ∈ fs, DeP o f) : DeP o (.union fs) := by
  have hfn : DeFnOKC o (.union fs) := by
    intro hw hwC _
    have e : deFn o (.union fs) = topDe o (maxBits (.union fs)) (.union 0 (trivHead fs)) (fun b c =>
        match deUint o (tagBits fs.length) AOff.zero b c 0 with
        | .error e => .error e
        | .ok k =>
          match GenC.deNth o fs k (AOff.single (tagBits fs.length)) b c (tagBits fs.length) with
          | .error e => .error e
          | .ok (v, f) => .ok (.union k v, f)) := by
      funext b c; simp only [deFn] <;> rfl
    rw [e]
    simp only [wf, Bool.and_eq_true, decide_eq_true_eq] at hw
    simp only [wfC] at hwC
    have htb := tagBits_cases fs.length
    apply topDe_fnOK o _ _ _ (.union fs) (fun bs =>
      if readNat (tagBits fs.length) bs ≥ fs.length then .error .badUnionTag
      else
        match Dsdl.deNth fs (readNat (tagBits fs.length) bs) (bs.drop (tagBits fs.length)) with
        | .error e => .error e
        | .ok (v, used) => .ok (.union (readNat (tagBits fs.length) bs) v, tagBits fs.length + used))
    · intro bs
      simp only [deBits]
      by_cases hk : readNat (tagBits fs.length) bs ≥ fs.length
      · simp only [hk, if_true]
      · simp only [hk, if_false]
        cases Dsdl.deNth fs (readNat (tagBits fs.length) bs) (bs.drop (tagBits fs.length)) with
        | error e => rfl
        | ok r => rfl
    · intro sub size hwf hsz
      rw [deUint_spec o hs (tagBits fs.length) AOff.zero sub size 0 (by omega) (by omega) hwf hsz (adm_zero rfl)]
      simp only [List.drop_zero]
      generalize readNat (tagBits fs.length) (bitsOf sub size) = k
      by_cases hk : k ≥ fs.length
      · simp only [hk, if_true, DeRefines, deNth_bad o hs fs k _ _ _ _ hk]
        rfl
      · simp only [hk, if_false]
        have := deNth_refines o hs fs (fun f hf => (ih f hf).1) hw.2 hwC k (AOff.single (tagBits fs.length)) sub size
          (tagBits fs.length) hwf hsz (adm_single _) (by omega)
        cases hsp : Dsdl.deNth fs k ((bitsOf sub size).drop (tagBits fs.length)) with
        | error e =>
          rw [hsp] at this
          simp only [DeRefines] at this ⊢
          simp only [this]
        | ok r =>
          obtain ⟨v, used⟩ := r
          rw [hsp] at this
          simp only [DeRefines] at this ⊢
          obtain ⟨off', h1, h2⟩ := this
          simp only [h1]
          exact ⟨off', rfl, by simpa using h2⟩
    · intro h0
      simp only [maxBits] at h0
      have := padTo_ge 8 (tagBits fs.length + maxOpts fs)
      omega
  refine ⟨?_, hfn⟩
  intro hw hwC d buf cap off hwf hcap hd hal
  have e : deAny o (.union fs) d buf cap off = nestedDe o (deFn o (.union fs)) false d buf cap off := by
    simp only [deAny, deFn]
  rw [e]
  simp only [align] at hal
  exact nestedDe_sealed o _ (.union fs) (hfn hw hwC rfl) (used_mod8 o hs hw rfl) d buf cap off hwf hcap hal

theorem deP (t : Ty) : DeP o t := by
  refine Ty.ind (P := DeP o) ?_ ?_ ?_ ?_ ?_ ?_ ?_ ?_ ?_ ?_ t
  · -- uint
    intro n m
    refine ⟨?_, deFnOKC_noncomposite o hs rfl⟩
    intro hw hwC d buf cap off hwf hcap hd hal
    simp only [wf, decide_eq_true_eq] at hw
    simp only [deAny, deBits, deUint_spec o hs n d buf cap off hw.1 hw.2 hwf hcap hd, DeRefines]
    exact ⟨_, rfl, Rel.refl _ _⟩
  · -- sint
    intro n m
    refine ⟨?_, deFnOKC_noncomposite o hs rfl⟩
    intro hw hwC d buf cap off hwf hcap hd hal
    simp only [wf, decide_eq_true_eq] at hw
    simp only [deAny, deBits, deSint_spec o n buf cap off hw.1 hw.2 hwf hcap, DeRefines]
    exact ⟨_, rfl, Rel.refl _ _⟩
  · -- float
    intro n m
    refine ⟨?_, deFnOKC_noncomposite o hs rfl⟩
    intro hw hwC d buf cap off hwf hcap hd hal
    simp only [wf, decide_eq_true_eq] at hw
    simp only [deAny, deBits, deFloat_spec o n buf cap off hw hwf hcap, DeRefines]
    exact ⟨_, rfl, Rel.refl _ _⟩
  · -- bool
    refine ⟨?_, deFnOKC_noncomposite o hs rfl⟩
    intro hw hwC d buf cap off hwf hcap hd hal
    simp only [deAny, deBits, deBool_spec o hs d buf cap off hcap hd, DeRefines]
    exact ⟨_, rfl, Rel.refl _ _⟩
  · -- void
    intro n
    refine ⟨?_, deFnOKC_noncomposite o hs rfl⟩
    intro hw hwC d buf cap off hwf hcap hd hal
    simp only [deAny, deBits, DeRefines]
    exact ⟨_, rfl, Rel.refl _ _⟩
  · -- fixed array
    intro t n ih
    refine ⟨?_, deFnOKC_noncomposite o hs rfl⟩
    intro hw hwC d buf cap off hwf hcap hd hal
    simp only [wf] at hw
    simp only [wfC, Bool.and_eq_true] at hwC
    simp only [align] at hal
    have h2 := deElems_refines o hs t ih.1 hw hwC.2 buf cap hwf hcap d (AOff.rangeRep (resBits t) (n - 1) AOff.zero)
      (n - 1) (fun x hx => adm_rangeRep_zero hx) n n off hd (Nat.le_refl _) (by omega) hal
    simp only [deAny, deBits]
    cases hsa : deAllWith (deBits t) n ((bitsOf buf cap).drop off) with
    | error e =>
      rw [hsa] at h2
      simp only [DeRefines] at h2 ⊢
      simp only [h2]
    | ok r =>
      obtain ⟨vs, used⟩ := r
      rw [hsa] at h2
      simp only [DeRefines] at h2 ⊢
      obtain ⟨off', h3, h4⟩ := h2
      simp only [h3]
      exact ⟨off', rfl, h4⟩
  · -- variable array
    intro t c ih
    refine ⟨?_, deFnOKC_noncomposite o hs rfl⟩
    intro hw hwC d buf cap off hwf hcap hd hal
    simp only [wf, Bool.and_eq_true, decide_eq_true_eq] at hw
    simp only [wfC] at hwC
    simp only [align] at hal
    have hp := prefixBits_cases c
    simp only [deAny, deBits, deUint_spec o hs (prefixBits c) d buf cap off (by omega) (by omega) hwf hcap hd,
      List.drop_drop]
    generalize readNat (prefixBits c) ((bitsOf buf cap).drop off) = k
    by_cases hk : k > c
    · simp [hk, DeRefines, embedD]
    · simp only [hk, if_false]
      rw [assertC_ok o (fun ho => hs.aligned (adm_add hd (adm_single (prefixBits c))) ho)]
      have h2 := deElems_refines o hs t ih.1 hw.2 hwC buf cap hwf hcap d (resBits (.varr t c)) c
        (fun x hx => by simpa [resBits] using adm_rangeRep_zero hx) k c (off + prefixBits c)
        (adm_congr (by omega) hd) (by omega) (by omega)
        (by rcases align_cases t with e | e <;> rw [e] at hal ⊢ <;> omega)
      cases hsa : deAllWith (deBits t) k ((bitsOf buf cap).drop (off + prefixBits c)) with
      | error e =>
        rw [hsa] at h2
        simp only [DeRefines] at h2 ⊢
        simp only [h2]
      | ok r =>
        obtain ⟨vs, used⟩ := r
        rw [hsa] at h2
        simp only [DeRefines] at h2 ⊢
        obtain ⟨off', h3, h4⟩ := h2
        simp only [h3]
        exact ⟨off', rfl, by rw [← Nat.add_assoc]; exact h4⟩
  · exact fun fs ih => deP_struct o hs fs ih
  · exact fun fs ih => deP_union o hs fs ih
  · -- delimited
    intro ext inner ih
    refine ⟨?_, deFnOKC_noncomposite o hs rfl⟩
    intro hw hwC d buf cap off hwf hcap hd hal
    simp only [wf, Bool.and_eq_true, decide_eq_true_eq] at hw
    simp only [wfC] at hwC
    obtain ⟨⟨hcomp, _⟩, hwi⟩ := hw
    have e : deAny o (.delim ext inner) d buf cap off = nestedDe o (deFn o inner) true d buf cap off := by
      simp only [deAny]
    rw [e]
    simp only [align] at hal
    exact nestedDe_delim o hs _ inner (ih.2 hwi hwC hcomp) ext d buf cap off hwf hcap hal hd

/-! ### the generated deserializer, top level -/

theorem deserializeC_eq (t : Ty) (buf : Buf) (cap : Nat) :
    deserializeC o t buf cap = deFn o (topInner t) buf cap := by
  unfold deserializeC
  cases t <;> rfl

/-- (d) the generated deserializer returns exactly the specified object, consumed size and error. -/
theorem deserializeC_refines (t : Ty) (hw : wf t = true) (hwC : wfC t = true) (hc : isComposite (topInner t) = true)
    (buf : Buf) (cap : Nat) (hwf : WF buf) (hcap : cap ≤ buf.length) :
    deserializeC o t buf cap = (deBytes t (buf.take cap)).mapError embedD := by
  rw [deserializeC_eq o hs]
  have hf := (deP o hs (topInner t)).2 (wf_topInner hw) (wfC_topInner o hs hwC) hc buf cap hwf hcap
  have hlen : (unpackBytes (buf.take cap)).length = 8 * cap := bitsOf_length hcap
  simp only [deBytes, deTop, hlen]
  change match deBits (topInner t) (unpackBytes (buf.take cap)) with
    | .ok (v, used) => deFn o (topInner t) buf cap = .ok (v, min used (8 * cap) / 8)
    | .error e => deFn o (topInner t) buf cap = .error (embedD e) at hf
  cases hsp : deBits (topInner t) (unpackBytes (buf.take cap)) with
  | error e =>
    rw [hsp] at hf
    simp only [hf]; rfl
  | ok r =>
    obtain ⟨v, used⟩ := r
    rw [hsp] at hf
    have h8 := used_mod8 o hs (wf_topInner hw) (align_of_isComposite hc) _ v used hsp
    simp only [hf, Except.mapError]
    congr 2
    omega

end

end NunavutVerif.GenC
