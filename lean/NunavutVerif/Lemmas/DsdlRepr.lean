import NunavutVerif.Lemmas.DsdlLen
/-!
Which values the serializer accepts: exactly the well-typed values whose variable-length arrays fit their
capacity and whose union tags name an existing option, at any nesting depth; every other well-typed value
is rejected with `badArrayLength` or `badUnionTag` (and, being an `Except.error`, produces no bits).
-/
namespace NunavutVerif.Dsdl

mutual
/-- The value has a serialized representation: every variable-length array within capacity, every union
tag in range, recursively. -/
def representable : Ty → Val → Bool
  | .arr t _, .arr vs => vs.all (representable t)
  | .varr t cap, .arr vs => decide (vs.length ≤ cap) && vs.all (representable t)
  | .struct fs, .struct vs => reprFields fs vs
  | .union fs, .union k v => decide (k < fs.length) && reprNth fs k v
  | .delim _ t, v => representable t v
  | _, _ => true
def reprFields : List Ty → List Val → Bool
  | f :: fs, v :: vs => representable f v && reprFields fs vs
  | _, _ => true
def reprNth : List Ty → Nat → Val → Bool
  | [], _, _ => true
  | f :: _, 0, v => representable f v
  | _ :: fs, k + 1, v => reprNth fs k v
end

/-- Rejection errors of the serializer for well-typed values. -/
def IsReject (e : SerErr) : Prop := e = .badArrayLength ∨ e = .badUnionTag

/-- Outcome of serialization `r` matches representability `b`. -/
def Outcome (b : Bool) (r : Except SerErr (List Bool)) : Prop :=
  (b = true → ∃ bs, r = .ok bs) ∧ (b = false → ∃ e, r = .error e ∧ IsReject e)

def SerOK (t : Ty) : Prop := ∀ v, hasTy t v = true → Outcome (representable t v) (serBits t v)

theorem outcome_map {b : Bool} {r : Except SerErr (List Bool)} (f : List Bool → List Bool)
    (h : Outcome b r) : Outcome b (r.map f) := by
  constructor
  · intro hb; obtain ⟨bs, rfl⟩ := h.1 hb; exact ⟨f bs, rfl⟩
  · intro hb; obtain ⟨e, rfl, he⟩ := h.2 hb; exact ⟨e, rfl, he⟩

theorem serAll_outcome {t : Ty} (h : SerOK t) :
    ∀ vs, List.all vs (hasTy t) = true → Outcome (List.all vs (representable t)) (serAllWith (serBits t) vs) := by
  intro vs
  induction vs with
  | nil => intro _; simp [Outcome, serAllWith]
  | cons v vs ih =>
    intro ht
    simp only [List.all_cons, Bool.and_eq_true] at ht
    have h1 := h v ht.1
    have h2 := ih ht.2
    simp only [List.all_cons, serAllWith]
    constructor
    · intro hb
      simp only [Bool.and_eq_true] at hb
      obtain ⟨a, ha⟩ := h1.1 hb.1
      obtain ⟨b, hb'⟩ := h2.1 hb.2
      exact ⟨a ++ b, by simp [ha, hb']⟩
    · intro hb
      cases hr : representable t v with
      | false =>
        obtain ⟨e, he, hk⟩ := h1.2 hr
        exact ⟨e, by simp [he], hk⟩
      | true =>
        obtain ⟨a, ha⟩ := h1.1 hr
        rw [hr, Bool.true_and] at hb
        obtain ⟨e, he, hk⟩ := h2.2 hb
        exact ⟨e, by simp [ha, he], hk⟩

theorem serFields_outcome {fs : List Ty} (ih : ∀ f ∈ fs, SerOK f) :
    ∀ vs off, hasTyFields fs vs = true → Outcome (reprFields fs vs) (serFields fs vs off) := by
  induction fs with
  | nil =>
    intro vs off ht
    cases vs with
    | nil => simp [Outcome, reprFields, serFields]
    | cons => simp [hasTyFields] at ht
  | cons f fs ihf =>
    intro vs off ht
    cases vs with
    | nil => simp [hasTyFields] at ht
    | cons v vs =>
      simp only [hasTyFields, Bool.and_eq_true] at ht
      have h1 := ih f (List.mem_cons_self ..) v ht.1
      have h2 := fun o => ihf (fun g hg => ih g (List.mem_cons_of_mem _ hg)) vs o ht.2
      simp only [reprFields, serFields]
      constructor
      · intro hb
        simp only [Bool.and_eq_true] at hb
        obtain ⟨a, ha⟩ := h1.1 hb.1
        obtain ⟨b, hb'⟩ := (h2 (padTo (align f) off + a.length)).1 hb.2
        exact ⟨zeros (padLen (align f) off) ++ a ++ b, by simp only [ha, hb']⟩
      · intro hb
        cases hr : representable f v with
        | false =>
          obtain ⟨e, he, hk⟩ := h1.2 hr
          exact ⟨e, by simp [he], hk⟩
        | true =>
          obtain ⟨a, ha⟩ := h1.1 hr
          rw [hr, Bool.true_and] at hb
          obtain ⟨e, he, hk⟩ := (h2 (padTo (align f) off + a.length)).2 hb
          exact ⟨e, by simp only [ha, he], hk⟩

theorem serNth_outcome {fs : List Ty} (ih : ∀ f ∈ fs, SerOK f) :
    ∀ k v, k < fs.length → hasTyNth fs k v = true → Outcome (reprNth fs k v) (serNth fs k v) := by
  induction fs with
  | nil => intro k v hk; simp at hk
  | cons f fs ihf =>
    intro k v hk ht
    cases k with
    | zero =>
      simp only [hasTyNth] at ht
      simpa [reprNth, serNth] using ih f (List.mem_cons_self ..) v ht
    | succ k =>
      simp only [hasTyNth] at ht
      simp only [reprNth, serNth]
      exact ihf (fun g hg => ih g (List.mem_cons_of_mem _ hg)) k v (by simpa using hk) ht

theorem serOK (t : Ty) : SerOK t := by
  refine Ty.ind (P := SerOK) ?_ ?_ ?_ ?_ ?_ ?_ ?_ ?_ ?_ ?_ t
  · intro n m v ht
    cases v <;> simp [hasTy] at ht
    simp [Outcome, representable, serBits]
  · intro n m v ht
    cases v <;> simp [hasTy] at ht
    simp [Outcome, representable, serBits]
  · intro n m v ht
    cases v <;> simp [hasTy] at ht
    simp [Outcome, representable, serBits]
  · intro v ht
    cases v <;> simp [hasTy] at ht
    simp [Outcome, representable, serBits]
  · intro n v ht
    cases v <;> simp [hasTy] at ht
    simp [Outcome, representable, serBits]
  · intro t n ih v ht
    cases v with
    | arr vs =>
      simp only [hasTy, Bool.and_eq_true, beq_iff_eq] at ht
      simp only [representable, serBits, if_pos ht.1]
      exact serAll_outcome ih vs ht.2
    | _ => simp [hasTy] at ht
  · intro t cap ih v ht
    cases v with
    | arr vs =>
      simp only [hasTy] at ht
      simp only [representable, serBits]
      by_cases hc : vs.length > cap
      · rw [if_pos hc]
        have : decide (vs.length ≤ cap) = false := by simp; omega
        simp only [this, Bool.false_and]
        exact ⟨by simp, fun _ => ⟨_, rfl, Or.inl rfl⟩⟩
      · rw [if_neg hc]
        have : decide (vs.length ≤ cap) = true := by simp; omega
        simp only [this, Bool.true_and]
        exact outcome_map _ (serAll_outcome ih vs ht)
    | _ => simp [hasTy] at ht
  · intro fs ih v ht
    cases v with
    | struct vs =>
      simp only [hasTy] at ht
      simp only [representable, serBits]
      exact outcome_map _ (serFields_outcome ih vs 0 ht)
    | _ => simp [hasTy] at ht
  · intro fs ih v ht
    cases v with
    | union k v =>
      simp only [hasTy] at ht
      simp only [representable, serBits]
      by_cases hc : k ≥ fs.length
      · rw [if_pos hc]
        have : decide (k < fs.length) = false := by simp; omega
        simp only [this, Bool.false_and]
        exact ⟨by simp, fun _ => ⟨_, rfl, Or.inr rfl⟩⟩
      · rw [if_neg hc]
        have : decide (k < fs.length) = true := by simp; omega
        simp only [this, Bool.true_and]
        exact outcome_map _ (serNth_outcome ih k v (by omega) ht)
    | _ => simp [hasTy] at ht
  · intro e t ih v ht
    simp only [hasTy] at ht
    simp only [representable, serBits]
    exact outcome_map _ (ih v ht)

end NunavutVerif.Dsdl
