import NunavutVerif.Lemmas.Float16Tables
/-!
Assembly: the three regions of keys (zero / tabulated / affine) cover every finite binary32 magnitude;
monotonicity of `packKey` and `packMag`; the overflow boundary.
-/
namespace NunavutVerif.Float16

theorem packKey_facts (t : Nat) (ht : t < 292863) :
    packKey t < 31744 ∧ ∀ j, j < 4096 → Bracket (t * 4096 + j) (packKey t) := by
  by_cases h1 : t < 206848
  · rw [packKey_zero t h1]
    exact ⟨by omega, fun j hj => bracket_zero _ (by omega)⟩
  · by_cases h2 : t < 231424
    · have := chkKey_spec t (chkKey_all t (by omega) h2) (by omega)
      exact ⟨this.1, this.2.1⟩
    · exact ⟨(bracket_affine t 0 (by omega) ht (by omega)).2,
        fun j hj => (bracket_affine t j (by omega) ht hj).1⟩

theorem packKey_step (t : Nat) (ht : t + 1 < 522240) : packKey t ≤ packKey (t + 1) := by
  by_cases h1 : t < 206848
  · rw [packKey_zero t h1]; omega
  · by_cases h2 : t < 231424
    · exact (chkKey_spec t (chkKey_all t (by omega) h2) (by omega)).2.2
    · rw [packKey_affine t (by omega) (by omega), packKey_affine (t + 1) (by omega) ht]
      omega

theorem packKey_mono (s t : Nat) (hst : s ≤ t) (ht : t < 522240) : packKey s ≤ packKey t := by
  induction t with
  | zero => have : s = 0 := by omega
            subst this; exact Nat.le_refl _
  | succ n ih =>
    by_cases h : s = n + 1
    · subst h; exact Nat.le_refl _
    · exact Nat.le_trans (ih (by omega) (by omega)) (packKey_step n ht)

theorem packMag_inf : packMag 2139095040 = 31744 := by
  unfold packMag; rw [if_pos (Nat.le_refl _), if_pos (by decide)]

theorem packMag_fin (a : Nat) (h : a < 2139095040) : packMag a = packKey (a / 4096) := by
  unfold packMag; rw [if_neg (by omega)]

/-- `packMag` is monotone on the non-NaN magnitudes `0 .. 0x7F800000`. -/
theorem packMag_mono (a b : Nat) (hab : a ≤ b) (hb : b ≤ 2139095040) : packMag a ≤ packMag b := by
  by_cases h1 : b = 2139095040
  · subst h1
    rw [packMag_inf]
    by_cases h2 : a = 2139095040
    · subst h2; rw [packMag_inf]; exact Nat.le_refl _
    · rw [packMag_fin a (by omega)]; exact packKey_le _
  · rw [packMag_fin a (by omega), packMag_fin b (by omega)]
    exact packKey_mono _ _ (Nat.div_le_div_right hab) (by omega)

/-- The overflow boundary the code really has: a finite magnitude becomes infinity iff `|x| ≥ 65520`
(pattern `0x477FF000`). -/
theorem packMag_overflow (a : Nat) (ha : a < 2139095040) : packMag a = 31744 ↔ 1199566848 ≤ a := by
  rw [packMag_fin a ha]
  by_cases h : 1199566848 ≤ a
  · have := packKey_overflow (a / 4096) (by omega) (by omega)
    exact ⟨fun _ => h, fun _ => this⟩
  · have := (packKey_facts (a / 4096) (by omega)).1
    exact ⟨fun e => by omega, fun e => by omega⟩

theorem packMag_bracket (a : Nat) (ha : a < 1199566848) : packMag a < 31744 ∧ Bracket a (packMag a) := by
  rw [packMag_fin a (by omega)]
  have := packKey_facts (a / 4096) (by omega)
  refine ⟨this.1, ?_⟩
  have h2 := this.2 (a % 4096) (Nat.mod_lt _ (by omega))
  rw [Nat.div_add_mod' a 4096] at h2
  exact h2

theorem packMag_nan (a : Nat) (ha : a < 2147483648) : 31744 < packMag a ↔ 2139095040 < a := by
  unfold packMag
  by_cases h1 : 2139095040 ≤ a
  · rw [if_pos h1]
    by_cases h2 : a % 8388608 = 0
    · rw [if_pos h2]; omega
    · rw [if_neg h2]; omega
  · rw [if_neg h1]
    have := packKey_le (a / 4096)
    omega

/-! ### from patterns with sign to magnitudes -/

theorem F32.mag_mod (x : Nat) : F32.mag x = F32.mag (x % 2147483648) := by
  simp only [F32.mag, Nat.mod_mod]

theorem F16.mag_mod (h : Nat) : F16.mag h = F16.mag (h % 32768) := by
  simp only [F16.mag, Nat.mod_mod]

theorem pack_mod (x : Nat) (hx : x < 4294967296) : pack x % 32768 = packMag (x % 2147483648) := by
  have := packMag_lt (x % 2147483648)
  rw [pack_eq x hx]; omega

theorem pack_div (x : Nat) (hx : x < 4294967296) : pack x / 32768 = x / 2147483648 := by
  have := packMag_lt (x % 2147483648)
  rw [pack_eq x hx]; omega

theorem pack_lt (x : Nat) (hx : x < 4294967296) : pack x < 65536 := by
  have := packMag_lt (x % 2147483648)
  rw [pack_eq x hx]; omega

theorem F16.neg_pack (x : Nat) (hx : x < 4294967296) : F16.neg (pack x) = F32.neg x := by
  have h1 := pack_div x hx
  have h2 := pack_lt x hx
  unfold F16.neg F32.neg
  rw [Nat.mod_eq_of_lt h2, Nat.mod_eq_of_lt hx]
  by_cases hs : 2147483648 ≤ x
  · rw [ble_t hs, ble_t (by omega)]
  · rw [ble_f (by omega), ble_f (by omega)]

theorem F16.mag_pack (x : Nat) (hx : x < 4294967296) : F16.mag (pack x) = F16.mag (packMag (x % 2147483648)) := by
  rw [F16.mag_mod, pack_mod x hx]
theorem chkHalf_spec (h : Nat) (hc : chkHalf h = true) :
    unpack h < 4294967296 ∧ unpack h / 2147483648 = h / 32768 ∧
    (F16.isNaN h = true → F32.isNaN (unpack h) = true ∧ F16.isNaN (pack (unpack h)) = true ∧
      F16.isNaN (packRne (unpack h)) = true ∧ F16.isNaN (packRneC (unpack h)) = true) ∧
    (F16.isNaN h = false → pack (unpack h) = h ∧ packRne (unpack h) = h ∧ packRneC (unpack h) = h ∧
      (F16.isInf h = true → F32.isInf (unpack h) = true) ∧
      (F16.isInf h = false → F32.isFinite (unpack h) = true ∧ F32.mag (unpack h) = F16.mag h)) := by
  simp only [chkHalf, cond_eq_ite, Bool.and_eq_true, Nat.blt_eq, Nat.beq_eq] at hc
  obtain ⟨⟨h1, h2⟩, h3⟩ := hc
  refine ⟨h1, h2, ?_, ?_⟩
  · intro hn
    rw [if_pos hn] at h3
    simp only [Bool.and_eq_true] at h3
    exact ⟨h3.1.1.1, h3.1.1.2, h3.1.2, h3.2⟩
  · intro hn
    rw [if_neg (by rw [hn]; exact Bool.false_ne_true)] at h3
    simp only [Bool.and_eq_true, Nat.beq_eq] at h3
    refine ⟨h3.1.1.1, h3.1.1.2, h3.1.2, ?_, ?_⟩
    · intro hi; have := h3.2; rw [if_pos hi] at this; exact this
    · intro hi; have := h3.2; rw [if_neg (by rw [hi]; exact Bool.false_ne_true)] at this
      simp only [Bool.and_eq_true, Nat.beq_eq] at this
      exact this

/-! ### the Bool classifiers as arithmetic -/

theorem blt_false_iff (a b : Nat) : Nat.blt a b = false ↔ b ≤ a := by
  constructor
  · intro h; by_cases c : b ≤ a
    · exact c
    · rw [blt_t (by omega)] at h; exact absurd h (by decide)
  · intro h; exact blt_f h

theorem beq_false_iff (a b : Nat) : Nat.beq a b = false ↔ a ≠ b := by
  constructor
  · intro h c; rw [beq_t c] at h; exact absurd h (by decide)
  · intro h; exact beq_f h

theorem F16.isNaN_iff (h : Nat) : F16.isNaN h = true ↔ 31744 < h % 32768 := by
  unfold F16.isNaN; rw [Nat.blt_eq]
theorem F16.isNaN_false_iff (h : Nat) : F16.isNaN h = false ↔ h % 32768 ≤ 31744 := by
  unfold F16.isNaN; exact blt_false_iff _ _
theorem F16.isInf_iff (h : Nat) : F16.isInf h = true ↔ h % 32768 = 31744 := by
  unfold F16.isInf; rw [Nat.beq_eq]
theorem F16.isInf_false_iff (h : Nat) : F16.isInf h = false ↔ h % 32768 ≠ 31744 := by
  unfold F16.isInf; exact beq_false_iff _ _
theorem F16.isFinite_iff (h : Nat) : F16.isFinite h = true ↔ h % 32768 < 31744 := by
  unfold F16.isFinite; rw [Nat.blt_eq]
theorem F32.isNaN_iff (x : Nat) : F32.isNaN x = true ↔ 2139095040 < x % 2147483648 := by
  unfold F32.isNaN; rw [Nat.blt_eq]
theorem F32.isNaN_false_iff (x : Nat) : F32.isNaN x = false ↔ x % 2147483648 ≤ 2139095040 := by
  unfold F32.isNaN; exact blt_false_iff _ _
theorem F32.isInf_iff (x : Nat) : F32.isInf x = true ↔ x % 2147483648 = 2139095040 := by
  unfold F32.isInf; rw [Nat.beq_eq]
theorem F32.isInf_false_iff (x : Nat) : F32.isInf x = false ↔ x % 2147483648 ≠ 2139095040 := by
  unfold F32.isInf; exact beq_false_iff _ _
theorem F32.isFinite_iff (x : Nat) : F32.isFinite x = true ↔ x % 2147483648 < 2139095040 := by
  unfold F32.isFinite; rw [Nat.blt_eq]

theorem bool_eq_of_iff {a b : Bool} (h : a = true ↔ b = true) : a = b := by
  cases a <;> cases b <;> simp at h <;> rfl

theorem F32.neg_iff (x : Nat) (hx : x < 4294967296) : F32.neg x = true ↔ 2147483648 ≤ x := by
  unfold F32.neg; rw [Nat.mod_eq_of_lt hx, Nat.ble_eq]
theorem F16.neg_iff (h : Nat) (hh : h < 65536) : F16.neg h = true ↔ 32768 ≤ h := by
  unfold F16.neg; rw [Nat.mod_eq_of_lt hh, Nat.ble_eq]

theorem F32.val_eq (x : Nat) (hx : x < 4294967296) :
    F32.val x = if 2147483648 ≤ x then -(F32.mag x : Int) else (F32.mag x : Int) := by
  unfold F32.val
  by_cases h : 2147483648 ≤ x
  · rw [(F32.neg_iff x hx).2 h, if_pos h]; exact cond_true _ _
  · have : F32.neg x = false := by
      cases hn : F32.neg x
      · rfl
      · exact absurd ((F32.neg_iff x hx).1 hn) h
    rw [this, if_neg h]; exact cond_false _ _

theorem F16.val_eq (h : Nat) (hh : h < 65536) :
    F16.val h = if 32768 ≤ h then -(F16.mag h : Int) else (F16.mag h : Int) := by
  unfold F16.val
  by_cases c : 32768 ≤ h
  · rw [(F16.neg_iff h hh).2 c, if_pos c]; exact cond_true _ _
  · have : F16.neg h = false := by
      cases hn : F16.neg h
      · rfl
      · exact absurd ((F16.neg_iff h hh).1 hn) c
    rw [this, if_neg c]; exact cond_false _ _
end NunavutVerif.Float16
