import NunavutVerif.Lemmas.CLiteralEval
import NunavutVerif.Gen.CLiteralCfg
/-!
Floating-point lemmas: what the rendered quotient literals evaluate to, finiteness inside the range of the type.
Big powers of two stay symbolic: never let the elaborator or the kernel compare `2 ^ binary64.bias` with
`2 ^ 1074` by unfolding (rewrite with the field lemmas instead).
-/
namespace NunavutVerif.CLiteral

theorem b64_prec : binary64.prec = 53 := rfl
theorem b64_bias : binary64.bias = 1074 := rfl
theorem b64_emax : binary64.emax = 2045 := rfl
theorem b32_prec : binary32.prec = 24 := rfl
theorem b32_bias : binary32.bias = 149 := rfl
theorem b32_emax : binary32.emax = 253 := rfl

/-- The rational `f` rounded into the format (sign of the numerator; `f.den > 0`). -/
def roundFrac (g : Fmt) (f : Frac) : FVal :=
  roundTo g (decide (f.num < 0)) (f.num.natAbs * 2 ^ g.bias) f.den

/-- `int(float(x)) == x` below `2^1023`, on the magnitude. -/
def IsExactNat (n : Nat) : Prop :=
  n < 2 ^ 1023 ∧ (pyFloatOfNat n).1 * 2 ^ (pyFloatOfNat n).2 = n * 2 ^ 1074

theorem isExact_iff (x : Int) : isExact x = true ↔ IsExactNat x.natAbs := by
  unfold isExact IsExactNat
  simp only [Bool.and_eq_true, decide_eq_true_eq, beq_iff_eq]

/-- the binary64 value of an exactly representable natural number -/
def exactF (neg : Bool) (n : Nat) : FVal := .fin neg (pyFloatOfNat n).1 (pyFloatOfNat n).2

/-- canonical member of a format -/
def Canon (g : Fmt) (m E : Nat) : Prop := m < 2 ^ g.prec ∧ (E = 0 ∨ 2 ^ (g.prec - 1) ≤ m) ∧ E ≤ g.emax

theorem pow_split (a b c : Nat) (h : a = b + c) : 2 ^ a = 2 ^ b * 2 ^ c := by rw [h, Nat.pow_add]

theorem pyFloatOfNat_canon {n : Nat} (h : n < 2 ^ 1023) : Canon binary64 (pyFloatOfNat n).1 (pyFloatOfNat n).2 := by
  have hc := roundNat_canonical (p := 53) (N := n * 2 ^ 1074) (D := 1) (by decide) (by decide)
  refine ⟨hc.1, hc.2, ?_⟩
  apply roundNat_exp_le (p := 53) (a := 2 ^ 52) (F := 2045) (by decide) (by decide) (pow2_lt_iff.2 (by decide))
  have h1 : n * 2 ^ 1074 ≤ 2 ^ 1023 * 2 ^ 1074 := Nat.mul_le_mul_right _ (Nat.le_of_lt h)
  have h2 : 2 ^ 1023 * 2 ^ 1074 = 2 ^ 52 * 2 ^ 2045 := by
    rw [← pow_split 2097 1023 1074 (by decide), ← pow_split 2097 52 2045 (by decide)]
  rw [Nat.mul_one, ← h2]
  exact h1

/-- rounding a canonical member of a format into the same format -/
theorem roundTo_self {g : Fmt} (hp : 1 ≤ g.prec) {s : Bool} {m E K : Nat} (hK : 0 < K) (hc : Canon g m E) :
    roundTo g s (m * 2 ^ E * K) K = .fin s m E := by
  unfold roundTo
  rw [roundNat_exact hp hK hc.1 hc.2.1]
  simp only
  rw [if_neg (Nat.not_lt.2 hc.2.2)]

theorem convertF_self {g : Fmt} (hp : 1 ≤ g.prec) {s : Bool} {m E : Nat} (hc : Canon g m E) :
    convertF g g (.fin s m E) = .fin s m E := by
  simp only [convertF]
  exact roundTo_self hp (pow2_pos _) hc

theorem roundDec_neg1 (g : Fmt) (s : Bool) (mant : Nat) :
    roundDec g s mant (-1) = roundTo g s (mant * 2 ^ g.bias) (10 ^ (0 + 1)) := rfl

/-- the literal `<n>.0` denotes `n` exactly when `n` is exactly representable -/
theorem roundDec_dot0 {n : Nat} (h : IsExactNat n) (s : Bool) :
    roundDec binary64 s (10 * n) (-1) = exactF s n := by
  rw [roundDec_neg1]
  unfold roundTo exactF pyFloatOfNat
  rw [b64_prec, b64_bias, b64_emax]
  have e : roundNat 53 (10 * n * 2 ^ 1074) (10 ^ (0 + 1)) = roundNat 53 (n * 2 ^ 1074) 1 := by
    apply roundNat_congr (by decide) (by decide)
    rw [show (10 : Nat) ^ (0 + 1) = 10 by decide]
    generalize 2 ^ 1074 = P
    ac_rfl
  rw [e]
  have hc := (pyFloatOfNat_canon h.1).2.2
  unfold pyFloatOfNat at hc
  rw [b64_emax] at hc
  simp only
  rw [if_neg (Nat.not_lt.2 hc)]

theorem eval_flit_dot0 (d : Dialect) {n : Nat} (h : IsExactNat n) :
    eval d (.flit (10 * n) (-1) .none) = .ok (.flt .double (exactF false n)) := by
  rw [eval, roundDec_dot0 h false]
  simp only [exactF]

theorem exactF_canon {n : Nat} (h : IsExactNat n) : Canon binary64 (pyFloatOfNat n).1 (pyFloatOfNat n).2 :=
  pyFloatOfNat_canon h.1

/-- the numerator `n.0` / `-n.0` -/
theorem eval_numAst (d : Dialect) (num : Int) (h : IsExactNat num.natAbs) :
    eval d (numAst num) = .ok (.flt .double (exactF (decide (num < 0)) num.natAbs)) := by
  cases num with
  | ofNat n =>
    have : decide (Int.ofNat n < 0) = false := by simp
    rw [this]
    exact eval_flit_dot0 d h
  | negSucc k =>
    have : decide (Int.negSucc k < 0) = true := by simp [Int.negSucc_lt_zero]
    rw [this]
    have h' : IsExactNat (k + 1) := h
    have e := eval_flit_dot0 d h'
    show eval d (.neg (.flit (10 * (k + 1)) (-1) .none)) = _
    rw [eval, e]
    simp only [bind, Except.bind, CVal.promoted, exactF, fneg, pure, Except.pure, Bool.not_false, Int.natAbs_negSucc]
theorem roundFrac_den_one {num : Int} (h : IsExactNat num.natAbs) :
    roundFrac binary64 ⟨num, 1⟩ = exactF (decide (num < 0)) num.natAbs := by
  unfold roundFrac roundTo exactF pyFloatOfNat
  rw [b64_prec, b64_bias, b64_emax]
  have hc := (pyFloatOfNat_canon h.1).2.2
  unfold pyFloatOfNat at hc
  rw [b64_emax] at hc
  simp only
  rw [if_neg (Nat.not_lt.2 hc)]

theorem roundTo_congr (g : Fmt) (s : Bool) {N D N' D' : Nat} (hD : 0 < D) (hD' : 0 < D') (h : N * D' = N' * D) :
    roundTo g s N D = roundTo g s N' D' := by
  unfold roundTo
  rw [roundNat_congr hD hD' h]

theorem eval_quotAst (d : Dialect) (f : Frac) (hd : 0 < f.den) (hn : IsExactNat f.num.natAbs) (hden : IsExactNat f.den) :
    eval d (quotAst f.num f.den) = .ok (.flt .double (roundFrac binary64 f)) := by
  unfold quotAst
  by_cases h1 : f.den = 1
  · rw [if_pos h1, eval_numAst d _ hn]
    have : f = ⟨f.num, 1⟩ := by cases f; simp_all
    rw [this, roundFrac_den_one hn]
  · rw [if_neg h1, eval, eval_numAst d _ hn, eval_flit_dot0 d hden]
    have c1 := exactF_canon hn
    have c2 := exactF_canon hden
    have hm2 : (pyFloatOfNat f.den).1 ≠ 0 := by
      intro h0
      have := hden.2
      rw [h0, Nat.zero_mul] at this
      have hp : 0 < f.den * 2 ^ 1074 := Nat.mul_pos hd (pow2_pos _)
      omega
    simp only [bind, Except.bind, CVal.promoted, exactF]
    simp only [commonFloat, CVal.type, true_or, if_true]
    simp only [toFloating, CType.fmt]
    have hp : 1 ≤ binary64.prec := by rw [b64_prec]; decide
    have e1 := convertF_self (s := decide (f.num < 0)) hp c1
    have e2 := convertF_self (s := false) hp c2
    rw [e1, e2]
    rewrite [fdiv, if_neg hm2]
    show Except.ok _ = Except.ok _
    rewrite [Bool.bne_false]
    unfold roundFrac
    rewrite [b64_bias]
    have key : roundTo binary64 (decide (f.num < 0))
        ((pyFloatOfNat f.num.natAbs).fst * 2 ^ (pyFloatOfNat f.num.natAbs).snd * 2 ^ 1074)
        ((pyFloatOfNat f.den).fst * 2 ^ (pyFloatOfNat f.den).snd) =
        roundTo binary64 (decide (f.num < 0)) (f.num.natAbs * 2 ^ 1074) f.den := by
      apply roundTo_congr _ _ (Nat.mul_pos (Nat.pos_of_ne_zero hm2) (pow2_pos _)) hd
      rewrite [hn.2, hden.2]
      generalize 2 ^ 1074 = P
      ac_rfl
    rewrite [key]
    exact Eq.refl _

/-! ### finiteness inside the range of the type, and the casts -/

theorem roundFrac_canon {g : Fmt} (hp : 1 ≤ g.prec) (f : Frac) (hd : 0 < f.den) {a : Nat} (ha : a < 2 ^ g.prec)
    (hr : f.num.natAbs * 2 ^ g.bias ≤ a * 2 ^ g.emax * f.den) :
    ∃ m E, roundFrac g f = .fin (decide (f.num < 0)) m E ∧ Canon g m E ∧ m * 2 ^ E ≤ a * 2 ^ g.emax := by
  have hc := roundNat_canonical (p := g.prec) (N := f.num.natAbs * 2 ^ g.bias) (D := f.den) hp hd
  have he := roundNat_exp_le hp hd ha hr
  have hv := roundNat_le_repr hp hd ha hr
  refine ⟨_, _, ?_, ⟨hc.1, hc.2, he⟩, hv⟩
  unfold roundFrac roundTo
  simp only
  rewrite [if_neg (Nat.not_lt.2 he)]
  exact Eq.refl _

/-- largest finite binary64 magnitude, as the bound of a fraction: `|num| ≤ (2^53 - 1) * 2^971 * den` -/
def InRange64 (f : Frac) : Prop := f.num.natAbs ≤ (2 ^ 53 - 1) * 2 ^ 971 * f.den
/-- largest finite binary32 magnitude: `|num| ≤ (2^24 - 1) * 2^104 * den` -/
def InRange32 (f : Frac) : Prop := f.num.natAbs ≤ (2 ^ 24 - 1) * 2 ^ 104 * f.den

theorem roundFrac64_fin (f : Frac) (hd : 0 < f.den) (hr : InRange64 f) :
    ∃ m E, roundFrac binary64 f = .fin (decide (f.num < 0)) m E ∧ Canon binary64 m E := by
  have h : f.num.natAbs * 2 ^ binary64.bias ≤ (2 ^ 53 - 1) * 2 ^ binary64.emax * f.den := by
    rewrite [b64_bias, b64_emax, pow_split 2045 971 1074 (by decide)]
    have := Nat.mul_le_mul_right (2 ^ 1074) hr
    generalize 2 ^ 1074 = P at *
    generalize 2 ^ 971 = Q at *
    calc f.num.natAbs * P ≤ (2 ^ 53 - 1) * Q * f.den * P := this
      _ = (2 ^ 53 - 1) * (Q * P) * f.den := by ac_rfl
  obtain ⟨m, E, h1, h2, _⟩ := roundFrac_canon (g := binary64) (by rw [b64_prec]; decide) f hd
    (a := 2 ^ 53 - 1) (by rw [b64_prec]; exact Nat.sub_lt (pow2_pos _) (by decide)) h
  exact ⟨m, E, h1, h2⟩

theorem pow2_24_29 : (2 ^ 24 - 1) * 2 ^ 29 < 2 ^ 53 := by decide

/-- inside the binary32 range the binary64 rounding stays inside it, and the conversion to binary32 is finite -/
theorem roundFrac32_fin (f : Frac) (hd : 0 < f.den) (hr : InRange32 f) :
    ∃ m E m' E', roundFrac binary64 f = .fin (decide (f.num < 0)) m E ∧ Canon binary64 m E ∧
      convertF binary64 binary32 (.fin (decide (f.num < 0)) m E) = .fin (decide (f.num < 0)) m' E' ∧ Canon binary32 m' E' := by
  -- bound in binary64 units: (2^24 - 1) * 2^29 * 2^1149
  have hp64 : 1 ≤ binary64.prec := by rw [b64_prec]; decide
  have hc := roundNat_canonical (p := binary64.prec) (N := f.num.natAbs * 2 ^ binary64.bias) (D := f.den) hp64 hd
  have hN : f.num.natAbs * 2 ^ binary64.bias ≤ (2 ^ 24 - 1) * 2 ^ 29 * 2 ^ 1149 * f.den := by
    rewrite [b64_bias, pow_split 1149 75 1074 (by decide)]
    have := Nat.mul_le_mul_right (2 ^ 1074) hr
    rewrite [pow_split 104 29 75 (by decide)] at this
    generalize 2 ^ 1074 = P at *
    generalize 2 ^ 75 = Q at *
    calc f.num.natAbs * P ≤ (2 ^ 24 - 1) * (2 ^ 29 * Q) * f.den * P := this
      _ = (2 ^ 24 - 1) * 2 ^ 29 * (Q * P) * f.den := by ac_rfl
  have ha : (2 ^ 24 - 1) * 2 ^ 29 < 2 ^ binary64.prec := by rw [b64_prec]; exact pow2_24_29
  have he := roundNat_exp_le hp64 hd ha hN
  have hv := roundNat_le_repr hp64 hd ha hN
  have he' : (roundNat binary64.prec (f.num.natAbs * 2 ^ binary64.bias) f.den).2 ≤ binary64.emax := by
    rewrite [b64_emax]; omega
  generalize hr64 : roundNat binary64.prec (f.num.natAbs * 2 ^ binary64.bias) f.den = r at hc he hv he'
  have e64 : roundFrac binary64 f = .fin (decide (f.num < 0)) r.1 r.2 := by
    unfold roundFrac roundTo
    rewrite [hr64]
    simp only
    rewrite [if_neg (Nat.not_lt.2 he')]
    exact Eq.refl _
  -- the conversion
  have hp32 : 1 ≤ binary32.prec := by rw [b32_prec]; decide
  have hK : 0 < 2 ^ binary64.bias := pow2_pos _
  have hc32 := roundNat_canonical (p := binary32.prec) (N := r.1 * 2 ^ r.2 * 2 ^ binary32.bias) (D := 2 ^ binary64.bias) hp32 hK
  have hN32 : r.1 * 2 ^ r.2 * 2 ^ binary32.bias ≤ (2 ^ 24 - 1) * 2 ^ binary32.emax * 2 ^ binary64.bias := by
    rewrite [b32_bias, b32_emax, b64_bias]
    have := Nat.mul_le_mul_right (2 ^ 149) hv
    have e : (2 ^ 24 - 1) * 2 ^ 29 * 2 ^ 1149 * 2 ^ 149 = (2 ^ 24 - 1) * 2 ^ 253 * 2 ^ 1074 := by
      rewrite [Nat.mul_assoc, Nat.mul_assoc, Nat.mul_assoc, ← pow_split 1298 1149 149 (by decide), ← pow_split 1327 29 1298 (by decide),
        ← pow_split 1327 253 1074 (by decide)]
      exact Eq.refl _
    rewrite [e] at this
    exact this
  have ha32 : 2 ^ 24 - 1 < 2 ^ binary32.prec := by rw [b32_prec]; exact Nat.sub_lt (pow2_pos _) (by decide)
  have he32 := roundNat_exp_le hp32 hK ha32 hN32
  refine ⟨r.1, r.2, _, _, e64, ⟨hc.1, hc.2, he'⟩, ?_, ⟨hc32.1, hc32.2, he32⟩⟩
  simp only [convertF]
  unfold roundTo
  simp only
  rewrite [if_neg (Nat.not_lt.2 he32)]
  exact Eq.refl _


theorem toFloating_flt (t s : CType) (x : FVal) : toFloating t (.flt s x) = convertF s.fmt t.fmt x := by
  unfold toFloating; exact Eq.refl _
theorem fmt_double : CType.fmt .double = binary64 := by unfold CType.fmt; exact Eq.refl _
theorem fmt_float : CType.fmt .float = binary32 := by unfold CType.fmt; exact Eq.refl _
theorem bind_ok {ε α β : Type} (a : α) (f : α → Except ε β) : (Except.ok a >>= f) = f a := rfl

theorem eval_cast_double (d : Dialect) (e : CExpr) {s : Bool} {m E : Nat}
    (he : eval d e = .ok (.flt .double (.fin s m E))) (hc : Canon binary64 m E) :
    eval d (.cast .double e) = .ok (.flt .double (.fin s m E)) := by
  have hp : 1 ≤ binary64.prec := by rw [b64_prec]; decide
  rewrite [eval, he, bind_ok, toFloating_flt, fmt_double, convertF_self hp hc]
  exact Eq.refl _

theorem eval_cast_float (d : Dialect) (e : CExpr) {s s' : Bool} {m E m' E' : Nat}
    (he : eval d e = .ok (.flt .double (.fin s m E)))
    (hcv : convertF binary64 binary32 (.fin s m E) = .fin s' m' E') :
    eval d (.cast .float e) = .ok (.flt .float (.fin s' m' E')) := by
  rewrite [eval, he, bind_ok, toFloating_flt, fmt_double, fmt_float, hcv]
  exact Eq.refl _

/-! ### what the filter renders for exact operands -/

theorem floatLiteralExpression_exact (f : Frac) (h1 : isExact f.num = true) (h2 : isExact (f.den : Int) = true) :
    floatLiteralExpression f = .ok (quotExpr f.num f.den) := by
  unfold floatLiteralExpression quotExpr numStr
  rewrite [h1, h2]
  simp only [Bool.and_self, if_true]
  split
  · exact Eq.refl _
  · simp [List.append_assoc]

theorem cFloatTypeName_eq {w : Nat} (hw : w ≤ 64) :
    cFloatTypeName w = .ok (if w ≤ 32 then "float".toList else "double".toList) := by
  unfold cFloatTypeName bestFit
  by_cases h8 : w ≤ 8
  · have : w ≤ 32 := by omega
    simp [h8, this, bind, Except.bind, pure, Except.pure]
  · by_cases h16 : w ≤ 16
    · have : w ≤ 32 := by omega
      simp [h8, h16, this, bind, Except.bind, pure, Except.pure]
    · by_cases h32 : w ≤ 32
      · simp [h8, h16, h32, bind, Except.bind, pure, Except.pure]
      · simp [h8, h16, h32, hw, bind, Except.bind, pure, Except.pure]

/-- type name of a float constant of `w` bits -/
def floatTyStr (w : Nat) : Str := if w ≤ 32 then "float".toList else "double".toList

theorem floatTyStr_cases (w : Nat) : floatTyStr w = "float".toList ∨ floatTyStr w = "double".toList := by
  unfold floatTyStr; split <;> simp

theorem filterLiteral_c_exact (f : Frac) {w : Nat} (hw : w ≤ 64) (h1 : isExact f.num = true) (h2 : isExact (f.den : Int) = true) :
    filterLiteral Gen.cCfg (.frac f) (.float w) = .ok (cCast (floatTyStr w) (quotExpr f.num f.den)) := by
  unfold filterLiteral
  simp only [Gen.cCfg, asFrac]
  rewrite [floatLiteralExpression_exact f h1 h2, cFloatTypeName_eq hw]
  simp [bind, Except.bind, pure, Except.pure, formatCast, cCast, floatTyStr]


theorem staticCast_chars : "static_cast".toList = ['s', 't', 'a', 't', 'i', 'c', '_', 'c', 'a', 's', 't'] := by decide

theorem filterLiteral_cpp_exact (f : Frac) {w : Nat} (hw : w ≤ 64) (h1 : isExact f.num = true) (h2 : isExact (f.den : Int) = true) :
    filterLiteral Gen.cppCfg (.frac f) (.float w) = .ok (cppCast (floatTyStr w) (quotExpr f.num f.den)) := by
  unfold filterLiteral
  simp only [Gen.cppCfg, asFrac]
  rewrite [floatLiteralExpression_exact f h1 h2, cFloatTypeName_eq hw, bind_ok, bind_ok]
  show Except.ok _ = Except.ok _
  congr 1

theorem usesStaticCast_quotToks (num : Int) (den : Nat) (pre post : List Tok)
    (hpre : usesStaticCast pre = false) (hpost : usesStaticCast post = false) :
    usesStaticCast (pre ++ quotToks num den ++ post) = false := by
  unfold usesStaticCast at *
  unfold quotToks numToks
  cases num <;> (split <;> simp_all)

/-! ### the Python expressions -/

theorem sfx00 (rest : Str) : sfxStr false 0 ++ rest = rest := by simp [sfxStr]

/-- a bare decimal number followed by `rest` -/
theorem lex_nat_tok (g n : Nat) (rest : Str) (hr : safeEnd rest = true) :
    lex (g + 1) (natStr n ++ rest) = (lex g rest).map (Tok.int n (decide (n ≠ 0)) false 0 :: ·) := by
  have := lex_int_tok g n false 0 (by decide) rest hr
  rwa [sfx00] at this

def pyIntToks : Int → List Tok
  | .ofNat n => [.int n (decide (n ≠ 0)) false 0]
  | .negSucc k => [.minus, .int (k + 1) (decide (k + 1 ≠ 0)) false 0]

def pyIntSteps : Int → Nat
  | .ofNat _ => 1
  | .negSucc _ => 2

theorem lexesAs_intStr (v : Int) : LexesAs (intStr v) (pyIntToks v) (pyIntSteps v) := by
  cases v with
  | ofNat n => intro g rest hr; exact lex_nat_tok g n rest hr
  | negSucc k =>
    intro g rest hr
    show lex (g + 1 + 1) ('-' :: (natStr (k + 1) ++ rest)) = _
    rw [lex_minus, lex_nat_tok g (k + 1) rest hr]
    cases lex g rest <;> simp [pyIntToks]

theorem pyIntSteps_le (v : Int) : pyIntSteps v ≤ 2 := by cases v <;> simp [pyIntSteps]

def pyIntAst : Int → PyExpr
  | .ofNat n => .int n
  | .negSucc k => .neg (.int (k + 1))

theorem pyParse_int (v : Int) : pyParse (pyIntToks v) = some (pyIntAst v) := by cases v <;> rfl

theorem pyEval_int (v : Int) : pyEval (pyIntAst v) = .ok (.int v) := by
  cases v with
  | ofNat n => rfl
  | negSucc k => simp [pyIntAst, pyEval, bind, Except.bind, pure, Except.pure]; rfl

theorem pyEvalStr_of {s : Str} {ts : List Tok} {e : PyExpr} (hl : lexStr s = some ts) (hp : pyParse ts = some e) :
    pyEvalStr s = pyEval e := by
  unfold pyEvalStr; rw [hl]; simp only [hp]

theorem safeEnd_slash_sp (r : Str) : safeEnd (' ' :: '/' :: r) = true := rfl

/-- `n / d` as the Python template writes it -/
theorem lexStr_py_quot (num : Int) (den : Nat) :
    lexStr (intStr num ++ " / ".toList ++ natStr den) =
      some (pyIntToks num ++ [.slash, .int den (decide (den ≠ 0)) false 0]) := by
  unfold lexStr
  generalize (intStr num ++ " / ".toList ++ natStr den).length = L
  have hk := pyIntSteps_le num
  have h1 := lexesAs_intStr num (L + 32 - pyIntSteps num - 5 + 1 + 1 + 1 + 1 + 1) (' ' :: '/' :: ' ' :: natStr den) (safeEnd_slash_sp _)
  have h2 := lex_nat_tok (L + 32 - pyIntSteps num - 5 + 1) den [] rfl
  rw [List.append_nil] at h2
  have e : intStr num ++ " / ".toList ++ natStr den = intStr num ++ (' ' :: '/' :: ' ' :: natStr den) := by
    simp [List.append_assoc]
  rw [e, show L + 32 = L + 32 - pyIntSteps num - 5 + 1 + 1 + 1 + 1 + 1 + pyIntSteps num by omega, h1, lex_space, lex_slash,
    lex_space, h2, lex_nil]
  simp

theorem pyParse_quot (num : Int) (den : Nat) (dec : Bool) :
    pyParse (pyIntToks num ++ [.slash, .int den dec false 0]) = some (.div (pyIntAst num) (.int den)) := by
  cases num <;> rfl


theorem pyTrueDiv_eq (f : Frac) (hd : 0 < f.den) :
    pyTrueDiv f.num f.den = finiteOrOverflow (roundFrac binary64 f) := by
  unfold pyTrueDiv roundFrac
  have h0 : ¬ ((f.den : Int) = 0) := by omega
  have hs : (decide (f.num < 0) != decide ((f.den : Int) < 0)) = decide (f.num < 0) := by
    have : decide ((f.den : Int) < 0) = false := by simp
    rw [this, Bool.bne_false]
  rewrite [if_neg h0, hs, Int.natAbs_natCast, b64_bias]
  exact Eq.refl _

theorem finiteOrOverflow_fin (s : Bool) (m E : Nat) : finiteOrOverflow (.fin s m E) = .ok (.fin s m E) := rfl

theorem pyEval_quot (f : Frac) (hd : 0 < f.den) {s : Bool} {m E : Nat} (h : roundFrac binary64 f = .fin s m E) :
    pyEval (.div (pyIntAst f.num) (.int f.den)) = .ok (.float (.fin s m E)) := by
  rewrite [pyEval, pyEval_int, bind_ok, pyEval, bind_ok]
  have e : pyTrueDiv f.num (f.den : Int) = .ok (.fin s m E) := by
    rewrite [pyTrueDiv_eq f hd, h]; exact finiteOrOverflow_fin s m E
  simp only [pyAsInt]
  rewrite [e]
  exact Eq.refl _

/-! ### what `roundFrac` returns -/

theorem roundFrac_fin_inv {g : Fmt} {f : Frac} {s : Bool} {m E : Nat} (h : roundFrac g f = .fin s m E) :
    s = decide (f.num < 0) ∧ roundNat g.prec (f.num.natAbs * 2 ^ g.bias) f.den = (m, E) ∧ E ≤ g.emax := by
  unfold roundFrac roundTo at h
  generalize roundNat g.prec (f.num.natAbs * 2 ^ g.bias) f.den = r at h ⊢
  simp only at h
  split at h
  · cases h
  · rename_i hle
    injection h with h1 h2 h3
    refine ⟨h1.symm, ?_, ?_⟩
    · cases r; simp_all
    · subst h3; omega

/-- the tie condition in terms of the final exponent -/
theorem roundNat_tie_even' {p N D : Nat} (hp : 2 ≤ p) (hD : 0 < D) (k : Nat)
    (htie : 2 * N = (2 * k + 1) * (2 ^ (roundNat p N D).2 * D)) : (roundNat p N D).1 % 2 = 0 := by
  have hden : 0 < D * 2 ^ expOf p N D := Nat.mul_pos hD (pow2_pos _)
  by_cases hcarry : rneDiv N (D * 2 ^ expOf p N D) = 2 ^ p
  · -- carry: the significand is 2^(p-1)
    have : (roundNat p N D).1 = 2 ^ (p - 1) := by unfold roundNat; simp only [hcarry, if_true]
    rw [this]
    obtain ⟨j, rfl⟩ : ∃ j, p = j + 2 := ⟨p - 2, by omega⟩
    simp [Nat.pow_succ, Nat.mul_mod_left]
  · have hE : (roundNat p N D).2 = expOf p N D := by unfold roundNat; simp only [hcarry, if_false]
    rw [hE] at htie
    apply roundNat_tie_even hp hD
    -- 2N = (2k+1) * den: N = k * den + den / 2
    generalize hdd : D * 2 ^ expOf p N D = den at hden
    have htie' : 2 * N = (2 * k + 1) * den := by rw [htie, ← hdd]; ac_rfl
    -- den is even
    have hev : den % 2 = 0 := by
      have : (2 * k + 1) * den % 2 = 0 := by rw [← htie']; exact Nat.mul_mod_right 2 N
      rw [Nat.mul_mod, show (2 * k + 1) % 2 = 1 by omega, Nat.one_mul, Nat.mod_mod] at this
      exact this
    obtain ⟨h2, rfl⟩ : ∃ h2, den = 2 * h2 := ⟨den / 2, by omega⟩
    have hN : N = k * (2 * h2) + h2 := by
      have hexp : (2 * k + 1) * (2 * h2) = 2 * (k * (2 * h2) + h2) := by
        rw [Nat.add_mul, Nat.mul_add, Nat.one_mul, Nat.mul_assoc]
      rw [hexp] at htie'
      exact Nat.eq_of_mul_eq_mul_left (by decide) htie'
    have : N % (2 * h2) = h2 := by
      rw [hN, Nat.add_comm, Nat.add_mul_mod_self_right]
      exact Nat.mod_eq_of_lt (by omega)
    rw [this]


/-! ### double rounding -/

/-- the result is within half a unit of its own last place -/
theorem roundNat_half_ulp {p N D : Nat} (hp : 1 ≤ p) (hD : 0 < D) :
    2 * ((roundNat p N D).1 * 2 ^ (roundNat p N D).2 * D) ≤ 2 * N + 2 ^ (roundNat p N D).2 * D ∧
    2 * N ≤ 2 * ((roundNat p N D).1 * 2 ^ (roundNat p N D).2 * D) + 2 ^ (roundNat p N D).2 * D := by
  have hv := roundNat_value (N := N) (D := D) hp
  have hden : 0 < D * 2 ^ expOf p N D := Nat.mul_pos hD (pow2_pos _)
  have hb := rneDiv_bounds N _ hden
  have hE : 2 ^ expOf p N D * D ≤ 2 ^ (roundNat p N D).2 * D := by
    apply Nat.mul_le_mul_right
    apply pow2_le
    unfold roundNat; simp only; split <;> simp
  rw [hv]
  have e1 : rneDiv N (D * 2 ^ expOf p N D) * 2 ^ expOf p N D * D = rneDiv N (D * 2 ^ expOf p N D) * (D * 2 ^ expOf p N D) := by
    ac_rfl
  have e2 : 2 ^ expOf p N D * D = D * 2 ^ expOf p N D := Nat.mul_comm _ _
  rw [e1]
  rw [e2] at hE
  generalize rneDiv N (D * 2 ^ expOf p N D) * (D * 2 ^ expOf p N D) = X at hb ⊢
  generalize D * 2 ^ expOf p N D = Y at hb hE
  generalize 2 ^ (roundNat p N D).2 * D = Z at hE ⊢
  omega

theorem pow_prod3 (a b c : Nat) : 2 * (2 ^ a * 2 ^ b * 2 ^ c) = 2 ^ (b + (a + c + 1)) := by
  rw [show b + (a + c + 1) = 1 + (a + b + c) by omega, Nat.pow_add, Nat.pow_add, Nat.pow_add, Nat.pow_one]
theorem pow_prod2 (a b c : Nat) : 2 ^ a * (2 ^ b * 2 ^ c) = 2 ^ (b + (a + c)) := by
  rw [show b + (a + c) = a + (b + c) by omega, Nat.pow_add, Nat.pow_add]
theorem two_mul_add_one_mul (a X : Nat) : 2 * (a * X) + X = (2 * a + 1) * X := by
  rw [Nat.add_mul, Nat.one_mul, Nat.mul_assoc]

/-- exponent of the binary32 conversion of a canonical binary64 number -/
theorem convert_exp_gap {m E : Nat} (hc : E = 0 ∨ 2 ^ 52 ≤ m) :
    E + 149 < (roundNat 24 (m * 2 ^ E * 2 ^ 149) (2 ^ 1074)).2 + 1074 := by
  rcases hc with h | h
  · omega
  · have hK : 0 < 2 ^ 1074 := pow2_pos _
    have hb := (roundNat_half_ulp (p := 24) (N := m * 2 ^ E * 2 ^ 149) (D := 2 ^ 1074) (by decide) hK).2
    have hm' := (roundNat_canonical (p := 24) (N := m * 2 ^ E * 2 ^ 149) (D := 2 ^ 1074) (by decide) hK).1
    generalize (roundNat 24 (m * 2 ^ E * 2 ^ 149) (2 ^ 1074)).1 = m' at hb hm'
    generalize (roundNat 24 (m * 2 ^ E * 2 ^ 149) (2 ^ 1074)).2 = E' at hb ⊢
    -- 2 * 2^52 * 2^E * 2^149 ≤ (2 m' + 1) 2^E' 2^1074 < 2^25 * 2^E' * 2^1074
    have h1 : 2 ^ 52 * 2 ^ E * 2 ^ 149 ≤ m * 2 ^ E * 2 ^ 149 :=
      Nat.mul_le_mul_right _ (Nat.mul_le_mul_right _ h)
    have h2 : 2 * (m' * 2 ^ E' * 2 ^ 1074) + 2 ^ E' * 2 ^ 1074 = (2 * m' + 1) * (2 ^ E' * 2 ^ 1074) := by
      rewrite [Nat.mul_assoc m']; exact two_mul_add_one_mul m' _
    have h3 : (2 * m' + 1) * (2 ^ E' * 2 ^ 1074) < 2 ^ 25 * (2 ^ E' * 2 ^ 1074) := by
      apply Nat.mul_lt_mul_of_pos_right _ (Nat.mul_pos (pow2_pos _) hK)
      have : (2:Nat) ^ 25 = 2 * 2 ^ 24 := by decide
      omega
    have h4 : 2 * (2 ^ 52 * 2 ^ E * 2 ^ 149) < 2 ^ 25 * (2 ^ E' * 2 ^ 1074) := by
      generalize 2 ^ 1074 = P at *
      omega
    rewrite [pow_prod3, pow_prod2] at h4
    have := pow2_lt_iff.1 h4
    omega
theorem convertF_fin_inv {s : Bool} {m E : Nat} {s' : Bool} {m' E' : Nat}
    (h : convertF binary64 binary32 (.fin s m E) = .fin s' m' E') :
    roundNat 24 (m * 2 ^ E * 2 ^ 149) (2 ^ 1074) = (m', E') := by
  simp only [convertF] at h
  unfold roundTo at h
  rewrite [b32_prec, b32_bias, b64_bias] at h
  generalize roundNat 24 (m * 2 ^ E * 2 ^ 149) (2 ^ 1074) = r at h ⊢
  simp only at h
  split at h
  · cases h
  · injection h with _ h2 h3
    cases r; simp_all

/-- `float` constants: the double rounding (binary64 division, then the cast) stays strictly within one unit in the
last place of the result. -/
theorem float32_within_one_ulp (f : Frac) (hd : 0 < f.den) {s : Bool} {m' E' : Nat}
    (h : convertF binary64 binary32 (roundFrac binary64 f) = .fin s m' E') :
    m' * 2 ^ E' * f.den < f.num.natAbs * 2 ^ 149 + 2 ^ E' * f.den ∧
      f.num.natAbs * 2 ^ 149 < m' * 2 ^ E' * f.den + 2 ^ E' * f.den := by
  cases h64 : roundFrac binary64 f with
  | inf s0 => rw [h64] at h; simp [convertF] at h
  | nan => rw [h64] at h; simp [convertF] at h
  | fin s0 m E =>
    rw [h64] at h
    obtain ⟨_, hr, _⟩ := roundFrac_fin_inv h64
    rewrite [b64_prec, b64_bias] at hr
    have hr32 := convertF_fin_inv h
    have hc := roundNat_canonical (p := 53) (N := f.num.natAbs * 2 ^ 1074) (D := f.den) (by decide) hd
    have H1 := roundNat_half_ulp (p := 53) (N := f.num.natAbs * 2 ^ 1074) (D := f.den) (by decide) hd
    rw [hr] at hc H1
    simp only at hc H1
    have hK : 0 < 2 ^ 1074 := pow2_pos _
    have H2 := roundNat_half_ulp (p := 24) (N := m * 2 ^ E * 2 ^ 149) (D := 2 ^ 1074) (by decide) hK
    have H3 := convert_exp_gap (m := m) (E := E) (by rcases hc.2 with h | h; exact Or.inl h; exact Or.inr h)
    rw [hr32] at H2 H3
    simp only at H2 H3
    have H3' : 2 ^ E * 2 ^ 149 < 2 ^ E' * 2 ^ 1074 := by
      rw [← Nat.pow_add, ← Nat.pow_add]; exact pow2_lt_iff.2 H3
    -- scaled atoms
    generalize 2 ^ 1074 = P at *
    generalize 2 ^ 149 = Q at *
    generalize 2 ^ E = U at *
    generalize 2 ^ E' = U' at *
    generalize f.num.natAbs = n at *
    generalize f.den = D at *
    have x1 : 2 * (m' * U' * P * D) ≤ 2 * (m * U * D * Q) + U' * P * D ∧ 2 * (m * U * D * Q) ≤ 2 * (m' * U' * P * D) + U' * P * D := by
      have a := Nat.mul_le_mul_right D H2.1
      have b := Nat.mul_le_mul_right D H2.2
      constructor
      · calc 2 * (m' * U' * P * D) = 2 * (m' * U' * P) * D := by ac_rfl
          _ ≤ (2 * (m * U * Q) + U' * P) * D := a
          _ = 2 * (m * U * D * Q) + U' * P * D := by rw [Nat.add_mul]; ac_rfl
      · calc 2 * (m * U * D * Q) = 2 * (m * U * Q) * D := by ac_rfl
          _ ≤ (2 * (m' * U' * P) + U' * P) * D := b
          _ = 2 * (m' * U' * P * D) + U' * P * D := by rw [Nat.add_mul]; ac_rfl
    have x2 : 2 * (m * U * D * Q) ≤ 2 * (n * P * Q) + U * D * Q ∧ 2 * (n * P * Q) ≤ 2 * (m * U * D * Q) + U * D * Q := by
      have a := Nat.mul_le_mul_right Q H1.1
      have b := Nat.mul_le_mul_right Q H1.2
      constructor
      · calc 2 * (m * U * D * Q) = 2 * (m * U * D) * Q := by ac_rfl
          _ ≤ (2 * (n * P) + U * D) * Q := a
          _ = 2 * (n * P * Q) + U * D * Q := by rw [Nat.add_mul]; ac_rfl
      · calc 2 * (n * P * Q) = 2 * (n * P) * Q := by ac_rfl
          _ ≤ (2 * (m * U * D) + U * D) * Q := b
          _ = 2 * (m * U * D * Q) + U * D * Q := by rw [Nat.add_mul]; ac_rfl
    have x3 : U * D * Q < U' * P * D := by
      calc U * D * Q = U * Q * D := by ac_rfl
        _ < U' * P * D := Nat.mul_lt_mul_of_pos_right H3' hd
    have g1 : (m' * U' * D) * P < (n * Q + U' * D) * P := by
      rw [Nat.add_mul]
      have e1 : m' * U' * D * P = m' * U' * P * D := by ac_rfl
      have e2 : n * Q * P = n * P * Q := by ac_rfl
      have e3 : U' * D * P = U' * P * D := by ac_rfl
      rw [e1, e2, e3]
      omega
    have g2 : (n * Q) * P < (m' * U' * D + U' * D) * P := by
      rw [Nat.add_mul]
      have e1 : m' * U' * D * P = m' * U' * P * D := by ac_rfl
      have e2 : n * Q * P = n * P * Q := by ac_rfl
      have e3 : U' * D * P = U' * P * D := by ac_rfl
      rw [e1, e2, e3]
      omega
    exact ⟨Nat.lt_of_mul_lt_mul_right g1, Nat.lt_of_mul_lt_mul_right g2⟩


/-! ### the decimal fallback -/

/-- what `reprReadsBack` gives -/
theorem reprReadsBack_inv {m E : Nat} (h : reprReadsBack m E = true) :
    ∃ mant e10, (∃ c r, reprBody m E = c :: r ∧ c.isDigit = true) ∧ ppAll false (reprBody m E) = true ∧
      ppFlag false (reprBody m E) = false ∧ lexNumTok (reprBody m E) = some (.flt mant e10 .none) ∧
      roundDec binary64 false mant e10 = .fin false m E := by
  unfold reprReadsBack at h
  simp only [Bool.and_eq_true, Bool.not_eq_true'] at h
  obtain ⟨⟨⟨h1, h2⟩, h3⟩, h4⟩ := h
  cases hs : reprBody m E with
  | nil => rw [hs] at h1; simp at h1
  | cons c r =>
    rw [hs] at h1 h2 h3 h4
    cases ht : lexNumTok (c :: r) with
    | none => rw [ht] at h4; simp at h4
    | some t =>
      rw [ht] at h4
      cases t with
      | flt mant e10 suf =>
        cases suf with
        | none =>
          simp only [beq_iff_eq] at h4
          exact ⟨mant, e10, ⟨c, r, rfl, h1⟩, h2, h3, rfl, h4⟩
        | f => simp at h4
        | l => simp at h4
      | _ => simp at h4

theorem lexNumTok_raw {s : Str} {t : Tok} (h : lexNumTok s = some t) : lexNumRaw s = some (t, []) := by
  unfold lexNumTok at h
  split at h
  · injection h with h; subst h; assumption
  · cases h

/-- the decimal text of the fallback, with its sign, lexes to one floating literal (after an optional minus) -/
theorem lexesAs_repr {m E mant : Nat} {e10 : Int} (neg : Bool)
    (hd : ∃ c r, reprBody m E = c :: r ∧ c.isDigit = true) (hpp : ppAll false (reprBody m E) = true)
    (hfl : ppFlag false (reprBody m E) = false) (ht : lexNumTok (reprBody m E) = some (.flt mant e10 .none)) :
    LexesAs (pyFloatRepr (.fin neg m E)) (if neg then [.minus, .flt mant e10 .none] else [.flt mant e10 .none])
      (if neg then 2 else 1) := by
  have key : ∀ g rest, safeEnd rest = true →
      lex (g + 1) (reprBody m E ++ rest) = (lex g rest).map (Tok.flt mant e10 .none :: ·) := by
    intro g rest hr
    apply lex_num
    · obtain ⟨c, r, e, hc⟩ := hd
      exact ⟨c, r ++ rest, by rw [e]; rfl, hc⟩
    · exact lexNum_of_raw hpp hfl hr (lexNumTok_raw ht)
  intro g rest hr
  cases neg with
  | false =>
    simp only [pyFloatRepr, Bool.false_eq_true, if_false, List.nil_append]
    rw [key g rest hr]
    cases lex g rest <;> simp
  | true =>
    simp only [pyFloatRepr, if_true, List.cons_append, List.nil_append]
    rw [show g + 2 = g + 1 + 1 by omega, lex_minus, key g rest hr]
    cases lex g rest <;> simp

def fbToks (neg : Bool) (mant : Nat) (e10 : Int) : List Tok :=
  if neg then [.minus, .flt mant e10 .none] else [.flt mant e10 .none]
def fbAst (neg : Bool) (mant : Nat) (e10 : Int) : CExpr :=
  if neg then .neg (.flit mant e10 .none) else .flit mant e10 .none

theorem parse_cCast_fb {ty : Str} (hty : ty = "float".toList ∨ ty = "double".toList) (neg : Bool) (mant : Nat) (e10 : Int) :
    parseToks (.lp :: .lp :: .ident ty :: .rp :: (fbToks neg mant e10 ++ [.rp])) = some (.cast (tyOf ty) (fbAst neg mant e10)) := by
  rcases hty with h | h <;> subst h <;> cases neg <;> rfl

theorem parse_cCast_macro_fb {ty : Str} (hty : ty = "float".toList ∨ ty = "double".toList) (neg : Bool) (mant : Nat) (e10 : Int) :
    parseToks (.lp :: .lp :: .lp :: .ident ty :: .rp :: (fbToks neg mant e10 ++ [.rp, .rp])) =
      some (.cast (tyOf ty) (fbAst neg mant e10)) := by
  rcases hty with h | h <;> subst h <;> cases neg <;> rfl

theorem parse_cppCast_fb {ty : Str} (hty : ty = "float".toList ∨ ty = "double".toList) (neg : Bool) (mant : Nat) (e10 : Int) :
    parseToks (.ident "static_cast".toList :: .lt :: .ident ty :: .gt :: .lp :: (fbToks neg mant e10 ++ [.rp])) =
      some (.cast (tyOf ty) (fbAst neg mant e10)) := by
  rcases hty with h | h <;> subst h <;> cases neg <;> rfl

theorem eval_fbAst (d : Dialect) (neg : Bool) {mant : Nat} {e10 : Int} {m E : Nat}
    (h : roundDec binary64 false mant e10 = .fin false m E) :
    eval d (fbAst neg mant e10) = .ok (.flt .double (.fin neg m E)) := by
  have e0 : eval d (.flit mant e10 .none) = .ok (.flt .double (.fin false m E)) := by
    rewrite [eval, h]; exact Eq.refl _
  cases neg with
  | false => exact e0
  | true =>
    show eval d (.neg (.flit mant e10 .none)) = _
    rewrite [eval, e0, bind_ok]
    exact Eq.refl _

theorem usesStaticCast_fbToks (neg : Bool) (mant : Nat) (e10 : Int) (pre post : List Tok)
    (hpre : usesStaticCast pre = false) (hpost : usesStaticCast post = false) :
    usesStaticCast (pre ++ fbToks neg mant e10 ++ post) = false := by
  unfold usesStaticCast at *
  unfold fbToks
  cases neg <;> simp_all

theorem floatLiteralExpression_fallback (f : Frac) (hd : 0 < f.den) (hne : (isExact f.num && isExact (f.den : Int)) = false)
    {s : Bool} {m E : Nat} (h : roundFrac binary64 f = .fin s m E) :
    floatLiteralExpression f = .ok (pyFloatRepr (.fin s m E)) := by
  unfold floatLiteralExpression
  rewrite [hne]
  simp only [Bool.false_eq_true, if_false]
  rewrite [pyTrueDiv_eq f hd, h, finiteOrOverflow_fin, bind_ok]
  exact Eq.refl _

theorem filterLiteral_c_fallback (f : Frac) (hd : 0 < f.den) {w : Nat} (hw : w ≤ 64)
    (hne : (isExact f.num && isExact (f.den : Int)) = false) {s : Bool} {m E : Nat} (h : roundFrac binary64 f = .fin s m E) :
    filterLiteral Gen.cCfg (.frac f) (.float w) = .ok (cCast (floatTyStr w) (pyFloatRepr (.fin s m E))) := by
  unfold filterLiteral
  simp only [Gen.cCfg, asFrac]
  rewrite [floatLiteralExpression_fallback f hd hne h, cFloatTypeName_eq hw, bind_ok, bind_ok]
  show Except.ok _ = Except.ok _
  congr 1

theorem filterLiteral_cpp_fallback (f : Frac) (hd : 0 < f.den) {w : Nat} (hw : w ≤ 64)
    (hne : (isExact f.num && isExact (f.den : Int)) = false) {s : Bool} {m E : Nat} (h : roundFrac binary64 f = .fin s m E) :
    filterLiteral Gen.cppCfg (.frac f) (.float w) = .ok (cppCast (floatTyStr w) (pyFloatRepr (.fin s m E))) := by
  unfold filterLiteral
  simp only [Gen.cppCfg, asFrac]
  rewrite [floatLiteralExpression_fallback f hd hne h, cFloatTypeName_eq hw, bind_ok, bind_ok]
  show Except.ok _ = Except.ok _
  congr 1


/-! ### vocabulary of the property statements -/

/-- the C / C++ type of a floating constant of `w` bits (`_CFit.to_c_float`) -/
def floatCType (w : Nat) : CType := if w ≤ 32 then .float else .double

/-- What the rendered quotient denotes: the fraction rounded to nearest-even into binary64 by the division of the two
exactly represented operands, then (for `float`) converted to binary32 by the cast. -/
def floatDenotation (w : Nat) (f : Frac) : FVal :=
  if w ≤ 32 then convertF binary64 binary32 (roundFrac binary64 f) else roundFrac binary64 f

/-- the value lies inside the range of the C type (`|f| ≤ FLT_MAX` / `DBL_MAX`; PyDSDL's range check implies it) -/
def FloatInRange (w : Nat) (f : Frac) : Prop := if w ≤ 32 then InRange32 f else InRange64 f


end NunavutVerif.CLiteral
