import NunavutVerif.Lemmas.CLiteralEval
/-!
Floating-point lemmas: what the rendered quotient literals evaluate to, finiteness inside the range of the type.
Big powers of two stay symbolic: never let the elaborator or the kernel compare `2 ^ binary64.bias` with
`2 ^ 1074` by unfolding (rewrite with the field lemmas instead).
-/
namespace NunavutVerif.CLiteral

theorem b64_prec : binary64.prec = 53 := rfl
theorem b64_bias : binary64.bias = 1074 := rfl
theorem b64_emax : binary64.emax = 2045 := rfl
theorem b32_prec : binary32.prec = 24 := rfl
theorem b32_bias : binary32.bias = 149 := rfl
theorem b32_emax : binary32.emax = 253 := rfl

/-- The rational `f` rounded into the format (sign of the numerator; `f.den > 0`). -/
def roundFrac (g : Fmt) (f : Frac) : FVal :=
  roundTo g (decide (f.num < 0)) (f.num.natAbs * 2 ^ g.bias) f.den

/-- `int(float(x)) == x` below `2^1023`, on the magnitude. -/
def IsExactNat (n : Nat) : Prop :=
  n < 2 ^ 1023 ∧ (pyFloatOfNat n).1 * 2 ^ (pyFloatOfNat n).2 = n * 2 ^ 1074

theorem isExact_iff (x : Int) : isExact x = true ↔ IsExactNat x.natAbs := by
  unfold isExact IsExactNat
  simp only [Bool.and_eq_true, decide_eq_true_eq, beq_iff_eq]

/-- the binary64 value of an exactly representable natural number -/
def exactF (neg : Bool) (n : Nat) : FVal := .fin neg (pyFloatOfNat n).1 (pyFloatOfNat n).2

/-- canonical member of a format -/
def Canon (g : Fmt) (m E : Nat) : Prop := m < 2 ^ g.prec ∧ (E = 0 ∨ 2 ^ (g.prec - 1) ≤ m) ∧ E ≤ g.emax

theorem pow_split (a b c : Nat) (h : a = b + c) : 2 ^ a = 2 ^ b * 2 ^ c := by rw [h, Nat.pow_add]

theorem pyFloatOfNat_canon {n : Nat} (h : n < 2 ^ 1023) : Canon binary64 (pyFloatOfNat n).1 (pyFloatOfNat n).2 := by
  have hc := roundNat_canonical (p := 53) (N := n * 2 ^ 1074) (D := 1) (by decide) (by decide)
  refine ⟨hc.1, hc.2, ?_⟩
  apply roundNat_exp_le (p := 53) (a := 2 ^ 52) (F := 2045) (by decide) (by decide) (pow2_lt_iff.2 (by decide))
  have h1 : n * 2 ^ 1074 ≤ 2 ^ 1023 * 2 ^ 1074 := Nat.mul_le_mul_right _ (Nat.le_of_lt h)
  have h2 : 2 ^ 1023 * 2 ^ 1074 = 2 ^ 52 * 2 ^ 2045 := by
    rw [← pow_split 2097 1023 1074 (by decide), ← pow_split 2097 52 2045 (by decide)]
  rw [Nat.mul_one, ← h2]
  exact h1

/-- rounding a canonical member of a format into the same format -/
theorem roundTo_self {g : Fmt} (hp : 1 ≤ g.prec) {s : Bool} {m E K : Nat} (hK : 0 < K) (hc : Canon g m E) :
    roundTo g s (m * 2 ^ E * K) K = .fin s m E := by
  unfold roundTo
  rw [roundNat_exact hp hK hc.1 hc.2.1]
  simp only
  rw [if_neg (Nat.not_lt.2 hc.2.2)]

theorem convertF_self {g : Fmt} (hp : 1 ≤ g.prec) {s : Bool} {m E : Nat} (hc : Canon g m E) :
    convertF g g (.fin s m E) = .fin s m E := by
  simp only [convertF]
  exact roundTo_self hp (pow2_pos _) hc

theorem roundDec_neg1 (g : Fmt) (s : Bool) (mant : Nat) :
    roundDec g s mant (-1) = roundTo g s (mant * 2 ^ g.bias) (10 ^ (0 + 1)) := rfl

/-- the literal `<n>.0` denotes `n` exactly when `n` is exactly representable -/
theorem roundDec_dot0 {n : Nat} (h : IsExactNat n) (s : Bool) :
    roundDec binary64 s (10 * n) (-1) = exactF s n := by
  rw [roundDec_neg1]
  unfold roundTo exactF pyFloatOfNat
  rw [b64_prec, b64_bias, b64_emax]
  have e : roundNat 53 (10 * n * 2 ^ 1074) (10 ^ (0 + 1)) = roundNat 53 (n * 2 ^ 1074) 1 := by
    apply roundNat_congr (by decide) (by decide)
    rw [show (10 : Nat) ^ (0 + 1) = 10 by decide]
    generalize 2 ^ 1074 = P
    ac_rfl
  rw [e]
  have hc := (pyFloatOfNat_canon h.1).2.2
  unfold pyFloatOfNat at hc
  rw [b64_emax] at hc
  simp only
  rw [if_neg (Nat.not_lt.2 hc)]

end NunavutVerif.CLiteral
