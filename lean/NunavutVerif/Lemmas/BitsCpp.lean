import NunavutVerif.Model.BitsCpp
import NunavutVerif.Lemmas.Bits
/-!
Helper lemmas for C14 (C++ `bitspan`): `copyTo` is `copyBits` on the clamped length, so the C lemmas carry over;
bit-level specification of the repaired `setZeros`.
-/
namespace NunavutVerif.Bits.Cpp
open NunavutVerif.Bits

theorem size_eq (s : Span) : s.size = s.data.length * 8 - s.off := by
  unfold Span.size; simp only []; split <;> omega

theorem saturate_eq' (s : Span) (len : Nat) : s.saturate len = min len (s.data.length * 8 - s.off) := by
  unfold Span.saturate; simp only []; omega

/-- `copyTo` is the C `copyBits` applied to the length clamped to the size of the source. -/
theorem copyTo_eq (src dst : Span) (len : Nat) :
    copyTo src dst len = copyBits dst.data dst.off (min len src.size) src.data src.off := by
  unfold copyTo
  have hclamp : (if len > src.size then src.size else len) = min len src.size := by split <;> omega
  simp only [hclamp]
  generalize min len src.size = l
  by_cases h0 : l = 0
  · subst h0; simp [copyBits_zero]
  · unfold copyBits
    rw [if_neg h0]
    by_cases hal : src.off % 8 = 0 ∧ dst.off % 8 = 0
    · have e1 : (dst.off + l) / 8 = dst.off / 8 + l / 8 := by omega
      have e2 : (src.off + l) / 8 = src.off / 8 + l / 8 := by omega
      simp only [hal, and_self, if_true, memmove_guard, e1, e2]
    · simp only [hal, if_false]

theorem copyTo_spec (src dst : Span) (len : Nat)
    (hd : min len src.size ≠ 0 → dst.off + min len src.size ≤ dst.data.length * 8) :
    ∃ r, copyTo src dst len = .ok r ∧ r.length = dst.data.length ∧ (WF src.data → WF dst.data → WF r) ∧
      ∀ i, bitAt r i = if dst.off ≤ i ∧ i < dst.off + min len src.size
        then bitAt src.data (src.off + (i - dst.off)) else bitAt dst.data i := by
  rw [copyTo_eq]
  apply copyBits_spec' _ _ _ _ _ _ hd
  intro h
  have := size_eq src
  omega

theorem getBits_eq (src : Span) (out : Buf) (len : Nat) :
    getBits src out len = Bits.getBits out src.data src.data.length src.off len := by
  unfold getBits Bits.getBits
  simp only [saturate_eq', saturate_eq, copyTo_eq, size_eq]
  rw [show min (min len (src.data.length * 8 - src.off)) (src.data.length * 8 - src.off)
      = min len (src.data.length * 8 - src.off) by omega]

theorem setUxx_eq (sp : Span) (value len : Nat) :
    setUxx sp value len = Bits.setUxx false sp.data sp.data.length sp.off value len := by
  unfold setUxx Bits.setUxx
  simp only [copyTo_eq, size_eq, chooseMin_eq, Bool.false_eq_true, if_false]
  have : (u64Tmp value).length * 8 - 0 = 64 := by simp [u64Tmp]
  rw [this, show min (min len 64) 64 = min len 64 by omega]

theorem setBit_eq (sp : Span) (value : Bool) :
    setBit sp value = Bits.setBit sp.data sp.data.length sp.off value := by
  unfold setBit Bits.setBit
  simp only [copyTo_eq, size_eq]
  have : min 1 ([if value = true then 1 else 0].length * 8 - 0) = 1 := by simp
  rw [this]

theorem getU_spec (W : Nat) (sp : Span) (len : Nat) (hW : W % 8 = 0) (hw : WF sp.data) :
    getU W sp len = .ok (fieldOf (fun i => bitAt sp.data (sp.off + i)) (min len W)) := by
  unfold getU
  dsimp only
  rw [saturate_eq', copyTo_eq, size_eq]
  generalize hbits : min (min len W) (sp.data.length * 8 - sp.off) = bits
  rw [show min bits (sp.data.length * 8 - sp.off) = bits by omega]
  obtain ⟨r, hr, hlen, hwf, hb⟩ := copyBits_spec' (List.replicate (W / 8) 0) 0 bits sp.data sp.off
    (by omega) (by simp; omega)
  have hwr : WF r := hwf hw (WF_replicate _)
  simp only [hr, bind, Except.bind]
  congr 1
  apply Nat.eq_of_testBit_eq
  intro i
  rw [testBit_leLoad r i hwr, hb, testBit_fieldOf, bitAt_replicate_zero]
  by_cases hA : 0 ≤ i ∧ i < 0 + bits
  · have h1 : i < min len W := by omega
    rw [if_pos hA]
    simp [h1]
  · simp only [hA, if_false]
    by_cases h1 : i < min len W
    · have : sp.data.length ≤ (sp.off + i) / 8 := by omega
      simp [h1, bitAt_of_ge this]
    · simp [h1]

theorem getI_spec (W : Nat) (sp : Span) (len : Nat) (hW : W % 8 = 0) (hW0 : 0 < W) (hW64 : W ≤ 64)
    (hw : WF sp.data) :
    getI W sp len = .ok
      (let sat := min len W
       let u := fieldOf (fun i => bitAt sp.data (sp.off + i)) sat
       if sat > 0 ∧ u.testBit (sat - 1) then (u : Int) - 2 ^ sat else (u : Int)) := by
  unfold getI
  dsimp only
  rw [getU_spec W sp (min len W) hW hw, show min (min len W) W = min len W by omega]
  simp only [bind, Except.bind]
  exact signExtend_spec W _ _ hW0 hW64 (by omega) (fieldOf_lt _ _)

/-! ### setZeros (repaired) -/

theorem testBit_lowMask (m j : Nat) (hj : j < 8) (hm : m ≤ 8) :
    ((0xFF >>> (8 - m)) % 256).testBit j = decide (j < m) := by
  rw [testBit_mod_256, Nat.testBit_shiftRight, show (0xFF : Nat) = 2 ^ 8 - 1 from rfl, Nat.testBit_two_pow_sub_one]
  by_cases h : j < m
  · simp [h, hj]; omega
  · simp [h]; omega

theorem testBit_highMask (e j : Nat) (hj : j < 8) :
    ((0xFF <<< e) % 256).testBit j = decide (e ≤ j) := by
  rw [testBit_mod_256, Nat.testBit_shiftLeft, show (0xFF : Nat) = 2 ^ 8 - 1 from rfl, Nat.testBit_two_pow_sub_one]
  by_cases h : e ≤ j
  · simp [h, hj]; omega
  · simp [h]

theorem getElem?_of_get? {b : Buf} {i x : Nat} (h : b[i]? = some x) : get? b i = .ok x := get?_eq_ok.mpr h

theorem setZeros_small (sp : Span) (len : Nat) (h : len > sp.size) :
    setZeros sp len = .ok (errTooSmall, sp.data) := by
  simp [setZeros, h]

theorem setZeros_spec (sp : Span) (len : Nat) (h : ¬ len > sp.size) :
    ∃ r, setZeros sp len = .ok (0, r) ∧ r.length = sp.data.length ∧ (WF sp.data → WF r) ∧
      ∀ i, bitAt r i = if sp.off ≤ i ∧ i < sp.off + len then false else bitAt sp.data i := by
  unfold setZeros
  rw [if_neg h]
  by_cases h0 : len = 0
  · subst h0
    refine ⟨sp.data, by simp, rfl, id, fun i => ?_⟩
    rw [if_neg (by omega)]
  rw [if_neg h0]
  dsimp only
  have hsz := size_eq sp
  generalize hL : sp.data.length = L at *
  generalize hob : sp.off / 8 = ob
  generalize hm : sp.off % 8 = m
  generalize he : m + len = e
  generalize hnb : (e + 7) / 8 = nb
  generalize hem : e % 8 = em
  have hoff : sp.off = 8 * ob + m := by omega
  have hm8 : m < 8 := by omega
  have hfit : ob + nb ≤ L := by omega
  have hnb1 : 1 ≤ nb := by omega
  have hobL : ob < L := by omega
  generalize hlb : ob + nb - 1 = lb
  have hlbL : lb < L := by omega
  obtain ⟨d1, hd1, hlen1, hk1⟩ := memset0_spec nb sp.data ob (by omega)
  -- values read
  have hb : get? sp.data ob = .ok (sp.data[ob]'(by omega)) := get?_ok (by omega)
  have hl : get? sp.data lb = .ok (sp.data[lb]'(by omega)) := get?_ok (by omega)
  generalize sp.data[ob]'(by omega) = b at hb
  generalize sp.data[lb]'(by omega) = l at hl
  have hbl : lb = ob → l = b := by
    intro e; subst e; rw [hb] at hl; injection hl with hl; exact hl.symm
  have hbbit : ∀ i, i / 8 = ob → bitAt sp.data i = b.testBit (i % 8) := by
    intro i hi
    rw [bitAt_eq_getElem?, hi, get?_eq_ok.mp hb]
  have hlbit : ∀ i, i / 8 = lb → bitAt sp.data i = l.testBit (i % 8) := by
    intro i hi
    rw [bitAt_eq_getElem?, hi, get?_eq_ok.mp hl]
  generalize hfk : (b &&& ((0xFF >>> (8 - m)) % 256)) % 256 = fk
  have hfkbit : ∀ j, j < 8 → fk.testBit j = (b.testBit j && decide (j < m)) := by
    intro j hj
    rw [← hfk, testBit_mod_256, Nat.testBit_and, testBit_lowMask m j hj (by omega)]
    simp [hj]
  -- the kept bits of the last byte
  generalize hlkdef : (if em = 0 then (0 : Nat) else (l &&& ((0xFF <<< em) % 256)) % 256) = lk
  have hlkbit : ∀ j, j < 8 → lk.testBit j = (decide (em ≠ 0) && l.testBit j && decide (em ≤ j)) := by
    intro j hj
    rw [← hlkdef]
    by_cases hz : em = 0
    · simp [hz]
    · rw [if_neg hz, testBit_mod_256, Nat.testBit_and, testBit_highMask em j hj]
      simp [hj, hz]
  have hlkeq : lastByteKeepOf sp.data lb em = .ok lk := by
    unfold lastByteKeepOf
    rw [← hlkdef]
    by_cases hz : em = 0
    · simp [hz]
    · simp only [hz, if_false, hl, bind, Except.bind]
  -- after memset
  have hd1ob : get? d1 ob = .ok 0 := by
    apply getElem?_of_get?; rw [hk1]; simp; omega
  generalize hv1 : (0 ||| fk) % 256 = v1
  have hv1bit : ∀ j, j < 8 → v1.testBit j = (b.testBit j && decide (j < m)) := by
    intro j hj
    rw [← hv1, Nat.zero_or, testBit_mod_256, hfkbit j hj]; simp [hj]
  have hset1 : set? d1 ob v1 = .ok (d1.set ob v1) := set?_ok (by omega)
  generalize hx2 : (if lb = ob then v1 else 0) = x2
  have hd2lb : get? (d1.set ob v1) lb = .ok x2 := by
    apply getElem?_of_get?
    rw [List.getElem?_set, ← hx2]
    by_cases hq : lb = ob
    · subst hq; simp; omega
    · have hq' : ¬ ob = lb := fun e => hq e.symm
      rw [if_neg hq', if_neg hq, hk1]; simp; omega
  have hset2 : set? (d1.set ob v1) lb ((x2 ||| lk) % 256) = .ok ((d1.set ob v1).set lb ((x2 ||| lk) % 256)) :=
    set?_ok (by simp; omega)
  refine ⟨(d1.set ob v1).set lb ((x2 ||| lk) % 256), ?_, by simp; omega, ?_, ?_⟩
  · simp only [sub?, show 1 ≤ ob + nb by omega, if_true, hlb, bind, Except.bind, hb, hfk, hlkeq, hd1, hd1ob, hv1,
      hset1, hd2lb, hset2]
  · intro hw
    apply WF_set _ (Nat.mod_lt _ (by omega))
    apply WF_set _ (by rw [← hv1]; exact Nat.mod_lt _ (by omega))
    intro x hx
    obtain ⟨k, hk, rfl⟩ := List.getElem_of_mem hx
    have := hk1 k
    rw [List.getElem?_eq_getElem hk] at this
    split at this
    · simp at this; omega
    · exact hw _ (List.mem_of_getElem? this.symm)
  · intro i
    have hj : i % 8 < 8 := Nat.mod_lt _ (by omega)
    rw [bitAt_set, bitAt_set]
    have hd1bit : bitAt d1 i = if ob ≤ i / 8 ∧ i / 8 < ob + nb then false else bitAt sp.data i := by
      rw [bitAt_eq_getElem?, hk1]
      by_cases hq : ob ≤ i / 8 ∧ i / 8 < ob + nb
      · simp [hq]
      · simp only [hq, if_false, bitAt_eq_getElem?]
    rw [hd1bit]
    simp only [List.length_set]
    by_cases hA : i / 8 = lb
    · have hA' : i / 8 = lb ∧ lb < d1.length := ⟨hA, by omega⟩
      rw [if_pos hA', testBit_mod_256, Nat.testBit_or, hlkbit _ hj, ← hx2]
      by_cases hq : lb = ob
      · rw [if_pos hq, hv1bit _ hj, hbl hq, hbbit i (by omega)]
        by_cases hR : sp.off ≤ i ∧ i < sp.off + len
        · rw [if_pos hR]
          have h1 : ¬ i % 8 < m := by omega
          by_cases hz : em = 0
          · simp [hj, h1, hz]
          · have h2 : ¬ em ≤ i % 8 := by omega
            simp [hj, h1, h2]
        · rw [if_neg hR]
          by_cases h1 : i % 8 < m
          · simp [hj, h1]; intros; assumption
          · have hz : em ≠ 0 := by omega
            have h2 : em ≤ i % 8 := by omega
            simp [hj, h1, hz, h2]
      · rw [if_neg hq, hlbit i hA]
        by_cases hR : sp.off ≤ i ∧ i < sp.off + len
        · rw [if_pos hR]
          by_cases hz : em = 0
          · simp [hj, hz]
          · have h2 : ¬ em ≤ i % 8 := by omega
            simp [hj, h2]
        · rw [if_neg hR]
          have hz : em ≠ 0 := by omega
          have h2 : em ≤ i % 8 := by omega
          simp [hj, hz, h2]
    · have hA' : ¬ (i / 8 = lb ∧ lb < d1.length) := fun c => hA c.1
      rw [if_neg hA']
      by_cases hB : i / 8 = ob
      · have hB' : i / 8 = ob ∧ ob < d1.length := ⟨hB, by omega⟩
        rw [if_pos hB', hv1bit _ hj, hbbit i hB]
        by_cases hR : sp.off ≤ i ∧ i < sp.off + len
        · rw [if_pos hR]
          have h1 : ¬ i % 8 < m := by omega
          simp [h1]
        · rw [if_neg hR]
          have h1 : i % 8 < m := by omega
          simp [h1]
      · have hB' : ¬ (i / 8 = ob ∧ ob < d1.length) := fun c => hB c.1
        rw [if_neg hB']
        by_cases hq : ob ≤ i / 8 ∧ i / 8 < ob + nb
        · rw [if_pos hq, if_pos (by omega)]
        · rw [if_neg hq, if_neg (by omega)]


/-! ### padAndMoveToAlignment, subspan -/

/-- `padAndMoveToAlignment(n)` for the alignments a `uint8_t` padding can express (`0 < n < 256`; the generated
code uses 8, 16, 32, 64): an aligned offset is left alone; otherwise the `p = n - off % n` bits up to the next
multiple of `n` are zeroed (exactly those) and the offset moves there; if they do not fit, `-3` and no change. -/
theorem pad_spec (sp : Span) (n : Nat) (hn0 : 0 < n) (hn : n < 256) :
    (sp.off % n = 0 → padAndMoveToAlignment sp n = .ok (0, sp.data, sp.off)) ∧
    (sp.off % n ≠ 0 → n - sp.off % n > sp.size →
      padAndMoveToAlignment sp n = .ok (errTooSmall, sp.data, sp.off)) ∧
    (sp.off % n ≠ 0 → ¬ n - sp.off % n > sp.size →
      ∃ r, padAndMoveToAlignment sp n = .ok (0, r, sp.off + (n - sp.off % n)) ∧
        (sp.off + (n - sp.off % n)) % n = 0 ∧ r.length = sp.data.length ∧ (WF sp.data → WF r) ∧
        ∀ i, bitAt r i = if sp.off ≤ i ∧ i < sp.off + (n - sp.off % n) then false else bitAt sp.data i) := by
  have hlt : sp.off % n < n := Nat.mod_lt _ hn0
  have hp : (n - sp.off % n) % 256 = n - sp.off % n := Nat.mod_eq_of_lt (by omega)
  unfold padAndMoveToAlignment
  rw [if_neg (by omega)]
  simp only [hp]
  refine ⟨fun h => ?_, fun h hs => ?_, fun h hs => ?_⟩
  · rw [h]; simp
  · rw [if_pos (by omega), setZeros_small sp _ hs]
    simp [bind, Except.bind, errTooSmall]
  · obtain ⟨r, hr, hlen, hwf, hb⟩ := setZeros_spec sp _ hs
    refine ⟨r, ?_, ?_, hlen, hwf, hb⟩
    · rw [if_pos (by omega), hr]
      simp [bind, Except.bind]
    · have : sp.off + (n - sp.off % n) = n * (sp.off / n + 1) := by
        have := Nat.div_add_mod sp.off n
        rw [Nat.mul_add, Nat.mul_one]; omega
      rw [this, Nat.mul_mod_right]

/-- `subspan(bits_at, size_bits)`: error exactly when the requested window ends after the data; otherwise the
window `[first byte, first byte + size)` lies inside the data, starts at the addressed bit, and its byte count
is `(new offset + size_bits) / 8` rounded *down*. -/
theorem subspan_spec (sp : Span) (bitsAt sizeBits : Nat) :
    (sp.data.length * 8 < sp.off + bitsAt + sizeBits → subspan sp bitsAt sizeBits = (errTooSmall, 0, 0, 0)) ∧
    (¬ sp.data.length * 8 < sp.off + bitsAt + sizeBits →
      ∃ first nbytes noff, subspan sp bitsAt sizeBits = (0, first, nbytes, noff) ∧
        first * 8 + noff = sp.off + bitsAt ∧ noff < 8 ∧ first + nbytes ≤ sp.data.length ∧
        nbytes = (noff + sizeBits) / 8) := by
  unfold subspan
  dsimp only
  refine ⟨fun h => ?_, fun h => ?_⟩
  · by_cases h1 : (sp.off + bitsAt) / 8 > sp.data.length
    · rw [if_pos h1]
    · rw [if_neg h1, if_pos (by omega)]
  · rw [if_neg (by omega), if_neg (by omega)]
    exact ⟨_, _, _, rfl, by omega, by omega, by omega, rfl⟩


end NunavutVerif.Bits.Cpp
