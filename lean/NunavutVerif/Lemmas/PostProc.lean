import NunavutVerif.Lemmas.LineBuffer
import NunavutVerif.Model.PostProc
/-! Helper lemmas for C15, round 2 (processor objects, `_copy_header`, command line). -/
namespace NunavutVerif.LineBuffer

/-! ### file iteration -/

theorem fileLinesAux_flatten (cur t : Str) : (fileLinesAux cur t).flatten = cur ++ t := by
  fun_induction fileLinesAux cur t <;> simp_all

theorem fileLines_flatten (t : Str) : (fileLines t).flatten = t := by
  simp [fileLines, fileLinesAux_flatten]

/-! ### pipelines -/

theorem pipeLines_nil (ss : List Nat) (ls : List Line) : pipeLines [] ss ls = ls := by
  induction ls generalizing ss with
  | nil => rfl
  | cons l ls ih => simp [pipeLines, pipeLine, ih]

theorem linewise_nil (t : Str) : linewise [] t = t := by
  unfold linewise
  rw [pipeLines_nil]
  simpa [specLines] using write_scan [] t

/-! ### trimming -/

theorem trimStr_of_no_trailing_ws (s : Str) (h : ∀ c, s.getLast? = some c → isWs c = false) :
    trimStr s = s := by
  induction s with
  | nil => rfl
  | cons c rest ih =>
    unfold trimStr
    cases rest with
    | nil =>
      have hc : isWs c = false := h c (by simp)
      simp [trimStr, hc]
    | cons d r =>
      have h' : ∀ x, (d :: r).getLast? = some x → isWs x = false := by
        intro x hx; exact h x (by simpa [List.getLast?_cons_cons] using hx)
      rw [ih h']
      simp

/-! ### the limiter object -/

theorem limitObj_call_nat (n s : Nat) (l : Line) :
    LimitObj.call ⟨(n : Int), s⟩ l = ((limitStep n s l).1, ⟨(n : Int), (limitStep n s l).2⟩) := by
  unfold LimitObj.call limitStep
  by_cases h : l.content = []
  · simp [h]
    by_cases hc : n < s + 1
    · have : (n : Int) < (s : Int) + 1 := by omega
      simp [hc, this]
    · have : ¬ (n : Int) < (s : Int) + 1 := by omega
      simp [hc, this]
  · have hl : l.content.length ≠ 0 := by simpa using h
    simp [h, hl]
    have : ¬ (n : Int) < 0 := by omega
    simp [this]

/-! ### built-in objects simulate the `PP` pipeline -/

/-- States of the object list and of the `PP` pipeline agree where it matters (the limiters' counters). -/
def StRel : List PP → List Nat → List Nat → Prop
  | [], [], [] => True
  | .trim :: ps, _ :: ss, _ :: ss' => StRel ps ss ss'
  | .limit _ :: ps, s :: ss, s' :: ss' => s = s' ∧ StRel ps ss ss'
  | _, _, _ => False

theorem filterLine_sim (pps : List PP) (ss ss' : List Nat) (l : Line) (h : StRel pps ss ss') :
    (filterLine (pps.map PP.toProc) ss l).1 = some (pipeLine pps ss' l).1 ∧
    StRel pps (filterLine (pps.map PP.toProc) ss l).2 (pipeLine pps ss' l).2 := by
  induction pps generalizing ss ss' l with
  | nil =>
    cases ss <;> cases ss' <;> simp_all [StRel, filterLine, pipeLine]
  | cons p ps ih =>
    cases ss with
    | nil => cases p <;> simp [StRel] at h
    | cons s ss =>
      cases ss' with
      | nil => cases p <;> simp [StRel] at h
      | cons s' ss' =>
        cases p with
        | trim =>
          have hr : StRel ps ss ss' := by simpa [StRel] using h
          obtain ⟨h1, h2⟩ := ih ss ss' (trim l) hr
          simp [List.map_cons, PP.toProc, Proc.trim, filterLine, pipeLine, ppStep, h1, StRel, h2]
        | limit n =>
          obtain ⟨rfl, hr⟩ : s = s' ∧ StRel ps ss ss' := by simpa [StRel] using h
          obtain ⟨h1, h2⟩ := ih ss ss' (limitStep n s l).1 hr
          simp [List.map_cons, PP.toProc, Proc.limit, filterLine, pipeLine, ppStep, limitObj_call_nat, h1,
            StRel, h2]

theorem writeLines_sim (pps : List PP) (ss ss' : List Nat) (ls : List Line) (h : StRel pps ss ss') :
    (writeLines (pps.map PP.toProc) ss ls).1 = write (pipeLines pps ss' ls) ∧
    (writeLines (pps.map PP.toProc) ss ls).2.1 = false := by
  induction ls generalizing ss ss' with
  | nil => simp [writeLines, pipeLines, write]
  | cons l ls ih =>
    obtain ⟨h1, h2⟩ := filterLine_sim pps ss ss' l h
    obtain ⟨i1, i2⟩ := ih _ _ h2
    unfold writeLines
    generalize hf : filterLine (pps.map PP.toProc) ss l = r at h1 h2 i1 i2
    obtain ⟨r1, r2⟩ := r
    simp only at h1
    subst h1
    simp [pipeLines, write, i1, i2]

theorem resetProcs_rel (pps : List PP) (ss : List Nat) (h : ss.length = pps.length) :
    StRel pps (resetProcs (pps.map PP.toProc) ss) (List.replicate pps.length 0) := by
  induction pps generalizing ss with
  | nil =>
    cases ss with
    | nil => simp [resetProcs, StRel]
    | cons s ss => simp at h
  | cons p ps ih =>
    cases ss with
    | nil => simp at h
    | cons s ss =>
      have hl : ss.length = ps.length := by simpa using h
      cases p with
      | trim => simpa [resetProcs, PP.toProc, List.replicate_succ, StRel] using ih ss hl
      | limit n =>
        simpa [resetProcs, PP.toProc, Proc.limit, LimitObj.reset, List.replicate_succ, StRel] using ih ss hl

/-! ### generic processors: state bookkeeping -/

theorem filterLine_length (ps : List Proc) (ss : List Nat) (l : Line) :
    (filterLine ps ss l).2.length = ss.length := by
  induction ps generalizing ss l with
  | nil => simp [filterLine]
  | cons p ps ih =>
    cases ss with
    | nil => simp [filterLine]
    | cons s ss =>
      unfold filterLine
      rcases hc : p.call s l with ⟨_ | l', s'⟩ <;> simp [ih]

theorem writeLines_length (ps : List Proc) (ss : List Nat) (ls : List Line) :
    (writeLines ps ss ls).2.2.length = ss.length := by
  induction ls generalizing ss with
  | nil => simp [writeLines]
  | cons l ls ih =>
    unfold writeLines
    have hl := filterLine_length ps ss l
    rcases hf : filterLine ps ss l with ⟨_ | l', ss'⟩
    · simp [hf] at hl ⊢; exact hl
    · simp [hf] at hl ⊢; rw [ih]; exact hl

/-- every processor of the list returns to its initial state on `reset` -/
def ResetAllTo : List Proc → List Nat → Prop
  | [], [] => True
  | p :: ps, i :: is => p.ResetsTo i ∧ ResetAllTo ps is
  | _, _ => False

theorem resetProcs_of_contract (ps : List Proc) (inits ss : List Nat) (hc : ResetAllTo ps inits)
    (hl : ss.length = ps.length) : resetProcs ps ss = inits := by
  induction ps generalizing inits ss with
  | nil =>
    cases inits with
    | nil => cases ss with
      | nil => rfl
      | cons s ss => simp at hl
    | cons i is => simp [ResetAllTo] at hc
  | cons p ps ih =>
    cases inits with
    | nil => simp [ResetAllTo] at hc
    | cons i is =>
      cases ss with
      | nil => simp at hl
      | cons s ss =>
        obtain ⟨h1, h2⟩ : p.ResetsTo i ∧ ResetAllTo ps is := by simpa [ResetAllTo] using hc
        simp [resetProcs, h1 s, ih is ss h2 (by simpa using hl)]

theorem ResetAllTo_length (ps : List Proc) (inits : List Nat) (hc : ResetAllTo ps inits) :
    inits.length = ps.length := by
  induction ps generalizing inits with
  | nil => cases inits <;> simp_all [ResetAllTo]
  | cons p ps ih =>
    cases inits with
    | nil => simp [ResetAllTo] at hc
    | cons i is => simp [ih is (by simpa [ResetAllTo] using hc.2)]

/-! ### history of copies -/

theorem copyHistory_append (resource : Str) (dst : Option Str) (a b : List CopyRun) :
    (copyHistory resource dst (a ++ b)).2 = (copyHistory resource (copyHistory resource dst a).2 b).2 := by
  induction a generalizing dst with
  | nil => simp [copyHistory]
  | cons r rs ih => simp [copyHistory, ih]

end NunavutVerif.LineBuffer
