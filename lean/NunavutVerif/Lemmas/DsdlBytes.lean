import NunavutVerif.Lemmas.DsdlBits
/-!
Bytes ↔ bits: `packBytes` pads with zeros to a whole byte and `unpackBytes` gives the bits back.
-/
namespace NunavutVerif.Dsdl

theorem natToBits_bitsToNat_pad (bs : List Bool) :
    ∀ n, bs.length ≤ n → natToBits n (bitsToNat bs) = bs ++ zeros (n - bs.length) := by
  induction bs with
  | nil =>
    intro n _
    simp only [bitsToNat, List.length_nil, Nat.sub_zero, List.nil_append]
    induction n with
    | zero => rfl
    | succ n ih => simp [natToBits, ih, zeros, List.replicate_succ]
  | cons b bs ih =>
    intro n hn
    obtain ⟨k, rfl⟩ : ∃ k, n = k + 1 := ⟨n - 1, by simp at hn; omega⟩
    simp only [List.length_cons] at hn
    have h1 : (b.toNat + 2 * bitsToNat bs) % 2 = b.toNat := by cases b <;> simp <;> omega
    have h2 : (b.toNat + 2 * bitsToNat bs) / 2 = bitsToNat bs := by cases b <;> simp <;> omega
    simp only [natToBits, bitsToNat, h1, h2, ih k (by omega), List.length_cons]
    have : k + 1 - (bs.length + 1) = k - bs.length := by omega
    rw [this]
    cases b <;> simp

theorem unpackBytes_length (xs : List Nat) : (unpackBytes xs).length = 8 * xs.length := by
  induction xs with
  | nil => rfl
  | cons x xs ih => simp [unpackBytes, ih]; omega

theorem packBytes_short {bs : List Bool} (h0 : bs ≠ []) (h8 : bs.length < 8) :
    packBytes bs = [bitsToNat bs] := by
  rcases bs with _ | ⟨b0, _ | ⟨b1, _ | ⟨b2, _ | ⟨b3, _ | ⟨b4, _ | ⟨b5, _ | ⟨b6, _ | ⟨b7, r⟩⟩⟩⟩⟩⟩⟩⟩
  · exact absurd rfl h0
  all_goals first | (simp [packBytes]; done) | (simp at h8; omega)

theorem pack_spec (bs : List Bool) :
    (packBytes bs).length = (bs.length + 7) / 8 ∧
    unpackBytes (packBytes bs) = bs ++ zeros (padLen 8 bs.length) := by
  fun_induction packBytes bs with
  | case1 => simp [unpackBytes, padLen, zeros]
  | case2 b0 b1 b2 b3 b4 b5 b6 b7 rest ih =>
    obtain ⟨ih1, ih2⟩ := ih
    constructor
    · simp only [List.length_cons, ih1]; omega
    · have h := natToBits_bitsToNat_pad [b0, b1, b2, b3, b4, b5, b6, b7] 8 (by simp)
      simp only [unpackBytes, h, ih2]
      have : padLen 8 (b0 :: b1 :: b2 :: b3 :: b4 :: b5 :: b6 :: b7 :: rest).length
          = padLen 8 rest.length := by
        simp only [List.length_cons, padLen]; omega
      rw [this]
      simp [zeros]
  | case3 bs h0 h8 =>
    have hlen : bs.length < 8 := by
      rcases bs with _ | ⟨b0, _ | ⟨b1, _ | ⟨b2, _ | ⟨b3, _ | ⟨b4, _ | ⟨b5, _ | ⟨b6, _ | ⟨b7, r⟩⟩⟩⟩⟩⟩⟩⟩
      all_goals first | (simp; done) | exact absurd rfl (h8 _ _ _ _ _ _ _ _ _)
    have hne : bs ≠ [] := by intro h; exact h0 h
    have hpos : 0 < bs.length := List.length_pos_iff.2 hne
    constructor
    · simp only [List.length_cons, List.length_nil]; omega
    · have h := natToBits_bitsToNat_pad bs 8 (by omega)
      simp only [unpackBytes, h, List.append_nil]
      have : padLen 8 bs.length = 8 - bs.length := by simp only [padLen]; omega
      rw [this]

theorem packBytes_length (bs : List Bool) : (packBytes bs).length = (bs.length + 7) / 8 :=
  (pack_spec bs).1

theorem unpack_pack (bs : List Bool) :
    unpackBytes (packBytes bs) = bs ++ zeros (padLen 8 bs.length) := (pack_spec bs).2

end NunavutVerif.Dsdl

namespace NunavutVerif.Dsdl

theorem unpackBytes_append (a b : List Nat) :
    unpackBytes (a ++ b) = unpackBytes a ++ unpackBytes b := by
  induction a with
  | nil => rfl
  | cons x a ih => simp [unpackBytes, ih]

theorem unpackBytes_zeros (k : Nat) : unpackBytes (List.replicate k 0) = zeros (8 * k) := by
  induction k with
  | zero => rfl
  | succ k ih =>
    simp only [List.replicate_succ, unpackBytes, ih]
    have : natToBits 8 0 = zeros 8 := by decide
    rw [this]
    simp only [zeros, List.replicate_append_replicate]
    congr 1; omega

theorem wf_topInner {t : Ty} (h : wf t = true) : wf (topInner t) = true := by
  cases t <;> simp_all [topInner, wf]

theorem castAdjust_topInner (t : Ty) (v : Val) : castAdjust (topInner t) v = castAdjust t v := by
  cases t <;> simp [topInner, castAdjust]

theorem maxBits_topInner_le_extent {t : Ty} (h : wf t = true) : maxBits (topInner t) ≤ extent t := by
  cases t <;> simp_all [topInner, extent, wf]

end NunavutVerif.Dsdl
