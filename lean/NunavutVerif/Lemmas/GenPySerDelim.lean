import NunavutVerif.Lemmas.GenPySer
/-!
Refinement, stage 7 of the serializer: delimited nesting (constant header for a fixed-length inner type; otherwise
forked serializer on a view of the parent's buffer, header reserved, nested call, header back-patched), and the
induction over the type that puts all stages together.
-/
namespace NunavutVerif.GenPy
open NunavutVerif.Dsdl
open NunavutVerif.Bits (Buf Err bitAt WF)
open NunavutVerif.Bits.Py

/-! ### bits of sub-buffers -/

theorem bitAt_append (a b : Buf) (i : Nat) :
    bitAt (a ++ b) i = if i / 8 < a.length then bitAt a i else bitAt b (i - 8 * a.length) := by
  unfold bitAt
  by_cases h : i / 8 < a.length
  · rw [if_pos h, List.getElem?_append_left h]
  · rw [if_neg h, List.getElem?_append_right (by omega)]
    have e1 : (i - 8 * a.length) / 8 = i / 8 - a.length := by omega
    have e2 : (i - 8 * a.length) % 8 = i % 8 := by omega
    rw [e1, e2]

theorem bitAt_take (buf : Buf) (k i : Nat) : bitAt (buf.take k) i = if i / 8 < k then bitAt buf i else false := by
  unfold bitAt
  by_cases h : i / 8 < k
  · rw [if_pos h, List.getElem?_take_of_lt h]
  · rw [if_neg h, List.getElem?_take_eq_none (by omega)]

theorem bitAt_drop (buf : Buf) (k i : Nat) : bitAt (buf.drop k) i = bitAt buf (8 * k + i) := by
  unfold bitAt
  rw [List.getElem?_drop]
  have e1 : (8 * k + i) / 8 = k + i / 8 := by omega
  have e2 : (8 * k + i) % 8 = i % 8 := by omega
  rw [e1, e2]

theorem WF_take {b : Buf} (h : WF b) (k : Nat) : WF (b.take k) := fun x hx => h x (List.mem_of_mem_take hx)
theorem WF_drop {b : Buf} (h : WF b) (k : Nat) : WF (b.drop k) := fun x hx => h x (List.mem_of_mem_drop hx)
theorem WF_append {a b : Buf} (ha : WF a) (hb : WF b) : WF (a ++ b) := by
  intro x hx
  rcases List.mem_append.1 hx with h | h
  · exact ha x h
  · exact hb x h

/-! ### `add_aligned_u32` on a buffer whose tail is *not* zero (the back-patched header) -/

theorem addAlignedU8_raw (s : Ser) (v : Nat) (ha : s.off % 8 = 0) (hv : v < 256) (hroom : s.off / 8 < s.buf.length) :
    addAlignedU8 s (v : Int) = .ok ⟨s.buf.set (s.off / 8) v, s.off + 8⟩ := by
  have h1 : ¬ ((v : Int) < 0) := by omega
  simp [addAlignedU8, assertAligned, ha, ensureNotNegative, h1, Bits.set?, hroom, bind, Except.bind,
    show ¬ 256 ≤ v by omega]

theorem addAlignedU16_raw (s : Ser) (v : Nat) (ha : s.off % 8 = 0) (hroom : s.off / 8 + 1 < s.buf.length) :
    addAlignedU16 s (v : Int)
      = .ok ⟨(s.buf.set (s.off / 8) (v &&& 255)).set (s.off / 8 + 1) ((v >>> 8) &&& 255), s.off + 16⟩ := by
  have h1 : ¬ ((v : Int) < 0) := by omega
  have b0 : v &&& 255 < 256 := by have : v &&& 255 ≤ 255 := Nat.and_le_right; omega
  have b1 : (v >>> 8) &&& 255 < 256 := by have : (v >>> 8) &&& 255 ≤ 255 := Nat.and_le_right; omega
  have e1 := addAlignedU8_raw s (v &&& 255) ha b0 (by omega)
  have e2 := addAlignedU8_raw ⟨s.buf.set (s.off / 8) (v &&& 255), s.off + 8⟩ ((v >>> 8) &&& 255)
    (by simp; omega) b1 (by simp; omega)
  simp only [addAlignedU16, ensureNotNegative, h1, if_false, bind, Except.bind, Int.toNat_natCast, e1, e2]
  have : (s.off + 8) / 8 = s.off / 8 + 1 := by omega
  simp [this]

theorem natCast_shiftRight (v k : Nat) : ((v : Int) >>> k) = ((v >>> k : Nat) : Int) := by
  have h := toNat_shiftRight (v : Int) (by omega) k
  have := Int.toNat_of_nonneg h.1
  rw [← this, h.2]; simp

theorem addAlignedU32_raw (s : Ser) (v : Nat) (ha : s.off % 8 = 0) (hroom : s.off / 8 + 4 ≤ s.buf.length)
    (hwf : WF s.buf) :
    ∃ buf', addAlignedU32 s (v : Int) = .ok ⟨buf', s.off + 32⟩ ∧ buf'.length = s.buf.length ∧ WF buf' ∧
      ∀ i, bitAt buf' i = if s.off ≤ i ∧ i < s.off + 32 then v.testBit (i - s.off) else bitAt s.buf i := by
  have e1 := addAlignedU16_raw s v ha (by omega)
  have e2 := addAlignedU16_raw
    ⟨(s.buf.set (s.off / 8) (v &&& 255)).set (s.off / 8 + 1) ((v >>> 8) &&& 255), s.off + 16⟩ (v >>> 16)
    (by simp; omega) (by simp; omega)
  have hk : (s.off + 16) / 8 = s.off / 8 + 2 := by omega
  simp only [hk] at e2
  refine ⟨_, by
    simp only [addAlignedU32, bind, Except.bind, e1, natCast_shiftRight, e2]
    rfl, by simp, ?_, ?_⟩
  · have lt : ∀ x : Nat, x &&& 255 < 256 := fun x => by
      have : x &&& 255 ≤ 255 := Nat.and_le_right
      omega
    exact Bits.WF_set (Bits.WF_set (Bits.WF_set (Bits.WF_set hwf (lt _)) (lt _)) (lt _)) (lt _)
  · intro i
    simp only [Bits.bitAt_set, List.length_set, Bits.testBit_and_255, Nat.testBit_shiftRight]
    have hm : i % 8 < 8 := Nat.mod_lt _ (by omega)
    by_cases h3 : i / 8 = s.off / 8 + 2 + 1
    · rw [if_pos ⟨h3, by omega⟩, if_pos ⟨by omega, by omega⟩]
      simp only [hm, decide_true, Bool.and_true]
      congr 1; omega
    · rw [if_neg (by omega)]
      by_cases h2 : i / 8 = s.off / 8 + 2
      · rw [if_pos ⟨h2, by omega⟩, if_pos ⟨by omega, by omega⟩]
        simp only [hm, decide_true, Bool.and_true]
        congr 1; omega
      · rw [if_neg (by omega)]
        by_cases h1 : i / 8 = s.off / 8 + 1
        · rw [if_pos ⟨h1, by omega⟩, if_pos ⟨by omega, by omega⟩]
          simp only [hm, decide_true, Bool.and_true]
          congr 1; omega
        · rw [if_neg (by omega)]
          by_cases h0 : i / 8 = s.off / 8
          · rw [if_pos ⟨h0, by omega⟩, if_pos ⟨by omega, by omega⟩]
            simp only [hm, decide_true, Bool.and_true]
            congr 1; omega
          · rw [if_neg (by omega), if_neg (by omega)]

/-! ### the fork -/

theorem forkSer_ok (s : Ser) (cap : Nat) (ha : s.off % 8 = 0) (hroom : s.off / 8 + cap + 1 ≤ s.buf.length) :
    forkSer s cap = .ok ⟨(s.buf.drop (s.off / 8)).take (cap + 1), 0⟩ := by
  simp only [forkSer, ha, ne_eq, not_true_eq_false, if_false, List.length_drop]
  rw [if_neg (by omega)]

theorem joinSer_bits (s0 n2 : Ser) (k size : Nat) (hk : s0.off / 8 = k) (hn : n2.buf.length = size)
    (hle : k + size ≤ s0.buf.length) :
    (joinSer s0 n2).buf.length = s0.buf.length ∧
    ∀ i, bitAt (joinSer s0 n2).buf i =
      if i / 8 < k then bitAt s0.buf i
      else if i / 8 < k + size then bitAt n2.buf (i - 8 * k) else bitAt s0.buf i := by
  subst hk hn
  have htl : (s0.buf.take (s0.off / 8)).length = s0.off / 8 := by rw [List.length_take]; omega
  constructor
  · simp only [joinSer, List.length_append, List.length_take, List.length_drop]; omega
  · intro i
    simp only [joinSer]
    rw [bitAt_append]
    simp only [List.length_append, htl]
    by_cases h1 : i / 8 < s0.off / 8
    · rw [if_pos (by omega), if_pos h1, bitAt_append, htl, if_pos h1, bitAt_take, if_pos h1]
    · rw [if_neg h1]
      by_cases h2 : i / 8 < s0.off / 8 + n2.buf.length
      · rw [if_pos h2, if_pos h2, bitAt_append, htl, if_neg h1]
      · rw [if_neg h2, if_neg h2, bitAt_drop]
        congr 1; omega

theorem maxBits_composite_mod8 {t : Ty} (h : isComposite t = true) : maxBits t % 8 = 0 := by
  cases t with
  | struct fs => exact maxBits_struct_mod8 fs
  | union fs => exact maxBits_union_mod8 fs
  | _ => simp [isComposite] at h

theorem delim_spec (env : Env) (ext : Nat) (inner : Ty) (hw : wf (.delim ext inner) = true)
    (hobj : ObjRef env inner) : SerRef env (.delim ext inner) := by
  intro o s v b hinv _ hroom hdom
  simp only [wf, Bool.and_eq_true, decide_eq_true_eq] at hw
  obtain ⟨⟨hc, he8, hmax, _⟩, hwi⟩ := hw
  have hmx8 := maxBits_composite_mod8 hc
  have hali := align_of_isComposite hc
  simp only [inDom] at hdom
  simp only [align, maxBits, headerBits] at hroom ⊢
  obtain ⟨s0, h0, happ0, hal0⟩ := serPad_spec 8 (Or.inr rfl) s hinv (hroom.mono (by omega))
  have hroom0 : Room s0 (32 + ext) := hroom.after happ0 (by simp)
  simp only [serAny, serDelimWith, h0, bind, Except.bind, serBits, headerBits]
  by_cases hfix : minBits inner = maxBits inner
  · -- fixed-length inner type: constant header, in-place call
    simp only [hfix, ne_eq, not_true_eq_false, if_false]
    obtain ⟨s1, h1, happ1⟩ := addAlignedU32_spec s0 ((maxBits inner / 8 : Nat) : Int) happ0.inv hal0 (by omega)
      (by unfold Room at hroom0; omega)
    have happ1' : AppL s0 s1 (natToBits 32 (maxBits inner / 8)) :=
      AppL.of_appends happ1 (by simp) (fun i hi => by rw [Int.toNat_natCast, bitOf_natToBits]; simp [hi])
    have hoff1 : s1.off = s0.off + 32 := by simpa using happ1'.off
    have h2 := hobj s1 v b happ1'.inv (by omega) (hroom0.after happ1' (by simp; omega)) hdom
    simp only [h1, lift]
    cases hsv : serBits inner v with
    | error e =>
      rw [hsv] at h2
      simp only [Match, Except.map] at h2 ⊢
      rw [h2]
    | ok bits =>
      rw [hsv] at h2
      obtain ⟨s2, hr2, happ2⟩ := h2
      simp only [List.nil_append] at happ2
      have hl := lenOK inner hwi v bits hsv
      have hlen : bits.length = maxBits inner := by omega
      rw [hr2]
      have e1 : (s2.off - s1.off == maxBits inner) = true := by rw [happ2.off]; simp; omega
      have e2 : (s2.off % 8 == 0) = true := by rw [happ2.off, hoff1]; simp; omega
      simp only [e1, e2, assertThat_true, Except.map, pure, Except.pure]
      exact ⟨s2, rfl, by rw [hlen]; simpa [List.append_assoc] using (happ0.trans happ1').trans happ2⟩
  · -- variable-length inner type: fork, reserve, nested call, back-patch
    simp only [hfix, ne_eq, not_false_eq_true, if_true]
    have hcap : s0.off / 8 + (maxBits inner + 32) / 8 + 1 ≤ s0.buf.length := by
      unfold Room at hroom0; omega
    rw [forkSer_ok s0 _ hal0 hcap]
    simp only [skipBits, Nat.zero_add, beq_self_eq_true, assertThat_true]
    -- the forked serializer after `skip_bits(32)`
    have hk8 : 8 * (s0.off / 8) = s0.off := by omega
    have hcap' : s0.off / 8 + ((maxBits inner + 32) / 8 + 1) ≤ s0.buf.length := by omega
    have hsz : 8 * ((maxBits inner + 32) / 8 + 1) = maxBits inner + 32 + 8 := by omega
    generalize hkd : s0.off / 8 = k at *
    generalize hsd : (maxBits inner + 32) / 8 + 1 = size at *
    have hnb : ∀ i, bitAt ((s0.buf.drop k).take size) i = false := by
      intro i
      rw [bitAt_take]
      split
      · rw [bitAt_drop]; exact Inv_bit happ0.inv (by omega)
      · rfl
    have hnlen : ((s0.buf.drop k).take size).length = size := by
      rw [List.length_take, List.length_drop]; omega
    have hninv : (⟨(s0.buf.drop k).take size, 32⟩ : Ser).Inv :=
      ⟨WF_take (WF_drop happ0.inv.1 _) _, fun i _ => hnb i⟩
    have h2 := hobj ⟨(s0.buf.drop k).take size, 32⟩ v b hninv (by simp) (by
      unfold Room; simp only [hnlen]; omega) hdom
    cases hsv : serBits inner v with
    | error e =>
      rw [hsv] at h2
      simp only [Match, Except.map] at h2 ⊢
      rw [h2]
    | ok bits =>
      rw [hsv] at h2
      obtain ⟨n2, hr2, happ2⟩ := h2
      simp only [List.nil_append] at happ2
      have hl := lenOK inner hwi v bits hsv
      rw [hali] at hl
      rw [hr2]
      have hn2off : n2.off = 32 + bits.length := by simpa using happ2.off
      have hn2len : n2.buf.length = size := by rw [happ2.len]; exact hnlen
      simp only [hn2off, Nat.add_sub_cancel_left]
      rw [show decide (minBits inner ≤ bits.length ∧ bits.length ≤ maxBits inner) = true by
        simp only [decide_eq_true_eq]; omega]
      rw [show (bits.length % 8 == 0) = true by simp; omega]
      simp only [assertThat_true]
      -- the parent's buffer with the fork's bytes in it
      obtain ⟨hjlen, hjbits⟩ := joinSer_bits s0 n2 k size hkd hn2len hcap'
      have hjwf : WF (joinSer s0 n2).buf :=
        WF_append (WF_append (WF_take happ0.inv.1 _) happ2.inv.1) (WF_drop happ0.inv.1 _)
      have hjo : (joinSer s0 n2).off = s0.off := rfl
      obtain ⟨buf', h3, hlen3, hwf3, hbits3⟩ := addAlignedU32_raw (joinSer s0 n2) (bits.length / 8)
        (by rw [hjo]; omega) (by rw [hjlen, hjo, hkd]; omega) hjwf
      simp only [h3, lift, Except.map, pure, Except.pure]
      rw [hjo] at hbits3 ⊢
      have hfin : AppL s0 ⟨buf', s0.off + 32 + bits.length⟩ (natToBits 32 (bits.length / 8) ++ bits) := by
        have hb2 := happ2.2.2.2
        simp only [] at hb2
        have hz2 : ∀ i, n2.off ≤ i → bitAt n2.buf i = false := fun i hi => Inv_bit happ2.inv hi
        refine ⟨by simp; omega, by simp [hlen3, hjlen], ⟨hwf3, ?_⟩, ?_⟩
        · intro i hi
          simp only [] at hi
          rw [hbits3, if_neg (show ¬ (s0.off ≤ i ∧ i < s0.off + 32) by omega), hjbits,
            if_neg (show ¬ i / 8 < k by omega)]
          split
          · exact hz2 _ (by omega)
          · exact Inv_bit happ0.inv (by omega)
        · intro i
          simp only [List.length_append, natToBits_length]
          rw [hbits3]
          by_cases h1 : i < s0.off
          · rw [if_neg (show ¬ (s0.off ≤ i ∧ i < s0.off + 32) by omega), if_pos h1, hjbits,
              if_pos (show i / 8 < k by omega)]
          · rw [if_neg h1]
            by_cases h2 : i < s0.off + 32
            · rw [if_pos (show s0.off ≤ i ∧ i < s0.off + 32 from ⟨by omega, h2⟩), bitOf_append, natToBits_length,
                if_pos (show i - s0.off < 32 by omega), bitOf_natToBits]
              simp [show i < s0.off + (32 + bits.length) by omega, show i - s0.off < 32 by omega]
            · rw [if_neg (show ¬ (s0.off ≤ i ∧ i < s0.off + 32) by omega), hjbits,
                if_neg (show ¬ i / 8 < k by omega), bitOf_append, natToBits_length,
                if_neg (show ¬ i - s0.off < 32 by omega)]
              by_cases h3 : i / 8 < k + size
              · rw [if_pos h3, hb2, if_neg (show ¬ i - 8 * k < 32 by omega)]
                have e : i - 8 * k - 32 = i - s0.off - 32 := by omega
                rw [e]
                congr 1
                simp only [decide_eq_decide]
                omega
              · rw [if_neg h3, Inv_bit happ0.inv (by omega)]
                have : ¬ i < s0.off + (32 + bits.length) := by omega
                simp [this]
      have e2 : ((s0.off + 32 + bits.length) % 8 == 0) = true := by simp; omega
      simp only [e2, assertThat_true]
      exact ⟨_, rfl, by simpa [List.append_assoc] using happ0.trans hfin⟩

/-! ### all types -/

/-- **The serializer refinement**: for every well-formed type PyDSDL can produce, `_serialize_any` (at any cursor)
and the class method `_serialize_` (at a byte-aligned cursor) append exactly the specification's bits. -/
theorem serRef_all (env : Env) (hs : EnvSound env) (t : Ty) :
    wf t = true → pyWf t = true → SerRef env t ∧ (isComposite t = true → ObjRef env t) := by
  refine Ty.ind (P := fun t => wf t = true → pyWf t = true → SerRef env t ∧ (isComposite t = true → ObjRef env t))
    ?_ ?_ ?_ ?_ ?_ ?_ ?_ ?_ ?_ ?_ t
  · -- uint
    intro n m hw _
    simp only [wf, decide_eq_true_eq] at hw
    refine ⟨?_, by simp [isComposite]⟩
    intro o s v b hinv hsound hroom hdom
    simp only [align, padLen_one, Nat.add_zero, Nat.zero_add, maxBits, zeros_zero] at hsound hroom ⊢
    cases v with
    | int i =>
      simp only [inDom, decide_eq_true_eq] at hdom
      have hlt : i < (2 : Int) ^ storageBits n := by
        cases b with
        | true => simpa using hdom.2
        | false => have := pow_storage_le n hw.2; simp at hdom; omega
      obtain ⟨s', h1, h2⟩ := serInt_unsigned_spec o.isAligned n m s i hinv (fun h => hsound.aligned h) hw.1 hw.2
        hroom hdom.1 hlt
      exact ⟨s', by simpa [serAny] using h1, by simpa [serBits] using h2⟩
    | _ => simp [inDom] at hdom
  · -- sint
    intro n m hw hpw
    simp only [wf, decide_eq_true_eq] at hw
    refine ⟨?_, by simp [isComposite]⟩
    intro o s v b hinv hsound hroom hdom
    simp only [align, padLen_one, Nat.add_zero, Nat.zero_add, maxBits, zeros_zero] at hsound hroom ⊢
    cases m with
    | trunc => simp [pyWf] at hpw
    | sat =>
      simp only [pyWf, Bool.and_true, decide_eq_true_eq] at hpw
      cases v with
      | int i =>
        obtain ⟨s', h1, h2⟩ := serInt_signed_spec o.isAligned n s i hinv (fun h => hsound.aligned h) hpw hw.2 hroom
        exact ⟨s', by simpa [serAny] using h1, by simpa [serBits] using h2⟩
      | _ => simp [inDom] at hdom
  · -- float
    intro n m hw _
    simp only [wf, decide_eq_true_eq] at hw
    refine ⟨?_, by simp [isComposite]⟩
    intro o s v b hinv hsound hroom hdom
    simp only [align, padLen_one, Nat.add_zero, Nat.zero_add, maxBits, zeros_zero] at hsound hroom ⊢
    cases v with
    | float x =>
      simp only [inDom, Bool.and_eq_true, decide_eq_true_eq] at hdom
      obtain ⟨s', h1, h2⟩ := serFloat_spec env hs.fl o.isAligned n m s x hinv (fun h => hsound.aligned h) hw hdom.1
        hroom
      exact ⟨s', by simpa [serAny] using h1, by simpa [serBits] using h2⟩
    | _ => simp [inDom] at hdom
  · -- bool
    intro _ _
    refine ⟨?_, by simp [isComposite]⟩
    intro o s v b hinv hsound hroom hdom
    simp only [align, padLen_one, Nat.add_zero, Nat.zero_add, maxBits, zeros_zero] at hsound hroom ⊢
    cases v with
    | bool x =>
      obtain ⟨s', h1, h2⟩ := serBool_spec s x hinv hroom
      exact ⟨s', by simpa [serAny] using h1, by simpa [serBits] using h2⟩
    | _ => simp [inDom] at hdom
  · -- void
    intro n _ _
    refine ⟨?_, by simp [isComposite]⟩
    intro o s v b hinv hsound hroom hdom
    simp only [align, padLen_one, Nat.add_zero, Nat.zero_add, maxBits, zeros_zero] at hsound hroom ⊢
    cases v with
    | void => exact ⟨skipBits s n, by simp [serAny], by simpa [serBits] using skipBits_appL hinv n⟩
    | _ => simp [inDom] at hdom
  · -- fixed array
    intro t n ih hw hpw
    have hwt : wf t = true := by simpa [wf] using hw
    have hpt : pyWf t = true := by simpa [pyWf] using hpw
    exact ⟨fixedArr_spec env hs t n hwt (ih hwt hpt).1, by simp [isComposite]⟩
  · -- variable array
    intro t cap ih hw hpw
    have hwt : wf t = true := by simp only [wf, Bool.and_eq_true] at hw; exact hw.2
    have hpt : pyWf t = true := by simpa [pyWf] using hpw
    exact ⟨varArr_spec env hs t cap hw (ih hwt hpt).1, by simp [isComposite]⟩
  · -- struct
    intro fs ih hw hpw
    have hwa : wfAll fs = true := by simpa [wf] using hw
    have hpa : pyWfAll fs = true := by simpa [pyWf] using hpw
    have ihs : ∀ f ∈ fs, SerRef env f := fun f hf => (ih f hf (wfAll_mem hwa f hf) (pyWfAll_mem hpa f hf)).1
    have hobj := structObj_spec env hs fs ihs hw
    exact ⟨nested_spec env (.struct fs) rfl hw hobj (fun o s v => by simp only [serAny]; rfl), fun _ => hobj⟩
  · -- union
    intro fs ih hw hpw
    have hwa : wfAll fs = true := by simp only [wf, Bool.and_eq_true] at hw; exact hw.2
    have hpa : pyWfAll fs = true := by simpa [pyWf] using hpw
    have ihs : ∀ f ∈ fs, SerRef env f := fun f hf => (ih f hf (wfAll_mem hwa f hf) (pyWfAll_mem hpa f hf)).1
    have hobj := unionObj_spec env fs ihs hw
    exact ⟨nested_spec env (.union fs) rfl hw hobj (fun o s v => by simp only [serAny]; rfl), fun _ => hobj⟩
  · -- delimited
    intro e inner ih hw hpw
    have hw' := hw
    simp only [wf, Bool.and_eq_true, decide_eq_true_eq] at hw'
    have hpi : pyWf inner = true := by simpa [pyWf] using hpw
    exact ⟨delim_spec env e inner hw ((ih hw'.2 hpi).2 hw'.1.1), by simp [isComposite]⟩

end NunavutVerif.GenPy
