import NunavutVerif.Model.Bits
/-!
Helper lemmas for C14 (C primitives): checked accessors, `bitAt`, libc models, the one-byte merge lemma,
the loop invariant of the unaligned copy and the specification of `copyBits`.
-/
namespace NunavutVerif.Bits

/-! ### accessors -/

theorem get?_ok {b : Buf} {i : Nat} (h : i < b.length) : get? b i = .ok b[i] := by
  simp [get?, h]

theorem get?_eq_ok {b : Buf} {i x : Nat} : get? b i = .ok x ↔ b[i]? = some x := by
  unfold get?; cases h : b[i]? <;> simp

theorem set?_ok {b : Buf} {i v : Nat} (h : i < b.length) : set? b i v = .ok (b.set i v) := by
  simp [set?, h]

theorem bitAt_of_lt {b : Buf} {i : Nat} (h : i / 8 < b.length) : bitAt b i = b[i / 8].testBit (i % 8) := by
  simp [bitAt, h]

theorem bitAt_of_ge {b : Buf} {i : Nat} (h : b.length ≤ i / 8) : bitAt b i = false := by
  simp [bitAt, h]

theorem bitAt_set (b : Buf) (k v i : Nat) :
    bitAt (b.set k v) i = if i / 8 = k ∧ k < b.length then v.testBit (i % 8) else bitAt b i := by
  unfold bitAt
  by_cases h : i / 8 = k
  · subst h
    by_cases hl : i / 8 < b.length
    · simp [hl]
    · simp [hl]
  · have : ¬ k = i / 8 := fun e => h e.symm
    simp [h, this]

theorem WF_set {b : Buf} {k v : Nat} (hb : WF b) (hv : v < 256) : WF (b.set k v) := by
  intro x hx
  rcases List.mem_or_eq_of_mem_set hx with h | h
  · exact hb x h
  · exact h ▸ hv

theorem WF_getElem {b : Buf} (hb : WF b) {i : Nat} (h : i < b.length) : b[i] < 256 :=
  hb _ (List.getElem_mem h)

theorem WF_replicate (n : Nat) : WF (List.replicate n 0) := by
  intro x hx; simp [List.mem_replicate] at hx; omega

/-- two buffers of the same length whose bytes are bytes and whose bits agree are equal -/
theorem eq_of_bitAt {a b : Buf} (hl : a.length = b.length) (ha : WF a) (hb : WF b)
    (h : ∀ i, bitAt a i = bitAt b i) : a = b := by
  apply List.ext_getElem hl
  intro k h1 h2
  apply Nat.eq_of_testBit_eq
  intro j
  by_cases hj : j < 8
  · have := h (8 * k + j)
    have e1 : (8 * k + j) / 8 = k := by omega
    have e2 : (8 * k + j) % 8 = j := by omega
    simpa [bitAt, e1, e2, h1, h2] using this
  · have x1 := WF_getElem ha h1
    have x2 := WF_getElem hb h2
    have p : 2 ^ 8 ≤ 2 ^ j := Nat.pow_le_pow_right (by omega) (by omega)
    rw [Nat.testBit_lt_two_pow (by omega), Nat.testBit_lt_two_pow (by omega)]

/-! ### libc -/

theorem memmove_spec (n : Nat) : ∀ (dst : Buf) (pd : Nat) (src : Buf) (ps : Nat),
    ps + n ≤ src.length → pd + n ≤ dst.length →
    ∃ r, memmove dst pd src ps n = .ok r ∧ r.length = dst.length ∧
      ∀ k, r[k]? = if pd ≤ k ∧ k < pd + n then src[ps + (k - pd)]? else dst[k]? := by
  induction n with
  | zero => intro dst pd src ps _ _; exact ⟨dst, rfl, rfl, fun k => by simp; omega⟩
  | succ n ih =>
    intro dst pd src ps hs hd
    have h1 : ps < src.length := by omega
    have h2 : pd < dst.length := by omega
    obtain ⟨r, hr, hlen, hk⟩ := ih (dst.set pd src[ps]) (pd + 1) src (ps + 1) (by omega) (by simp; omega)
    refine ⟨r, ?_, by simpa using hlen, ?_⟩
    · simp [memmove, get?_ok h1, set?_ok h2, bind, Except.bind, hr]
    · intro k
      rw [hk k]
      by_cases hkp : k = pd
      · subst hkp
        have hn : ¬ (k + 1 ≤ k ∧ k < k + 1 + n) := by omega
        simp [hn, h1, h2]
      · have : ¬ pd = k := fun e => hkp e.symm
        by_cases hin : pd + 1 ≤ k ∧ k < pd + 1 + n
        · have hin' : pd ≤ k ∧ k < pd + (n + 1) := by omega
          have e : ps + 1 + (k - (pd + 1)) = ps + (k - pd) := by omega
          simp [hin, hin', e]
        · have hin' : ¬ (pd ≤ k ∧ k < pd + (n + 1)) := by omega
          simp [hin, hin', this]

theorem memset0_spec (n : Nat) : ∀ (dst : Buf) (p : Nat), p + n ≤ dst.length →
    ∃ r, memset0 dst p n = .ok r ∧ r.length = dst.length ∧
      ∀ k, r[k]? = if p ≤ k ∧ k < p + n then some 0 else dst[k]? := by
  induction n with
  | zero => intro dst p _; exact ⟨dst, rfl, rfl, fun k => by simp; omega⟩
  | succ n ih =>
    intro dst p hd
    have h2 : p < dst.length := by omega
    obtain ⟨r, hr, hlen, hk⟩ := ih (dst.set p 0) (p + 1) (by simp; omega)
    refine ⟨r, ?_, by simpa using hlen, ?_⟩
    · simp [memset0, set?_ok h2, bind, Except.bind, hr]
    · intro k
      rw [hk k]
      by_cases hkp : k = p
      · subst hkp
        have hn : ¬ (k + 1 ≤ k ∧ k < k + 1 + n) := by omega
        simp [hn, h2]
      · have : ¬ p = k := fun e => hkp e.symm
        by_cases hin : p + 1 ≤ k ∧ k < p + 1 + n
        · have hin' : p ≤ k ∧ k < p + (n + 1) := by omega
          simp [hin, hin']
        · have hin' : ¬ (p ≤ k ∧ k < p + (n + 1)) := by omega
          simp [hin, hin', this]

/-! ### the one-byte merge -/

theorem mergeByte_loop_testBit (d s sm dm size j : Nat) (hj : j < 8) (hd : dm + size ≤ 8) :
    (mergeByte d (((((s >>> sm) % 256) <<< dm) % 256) &&& 255)
        (((((1 <<< size) - 1) <<< dm) &&& 255) % 256)).testBit j
      = if dm ≤ j ∧ j < dm + size then s.testBit (sm + (j - dm)) else d.testBit j := by
  unfold mergeByte
  simp only [Nat.testBit_or, Nat.testBit_and, Nat.testBit_xor, Nat.testBit_mod_two_pow, Nat.testBit_shiftLeft,
    Nat.testBit_shiftRight, Nat.testBit_two_pow_sub_one, show 256 = 2 ^ 8 from rfl, show 255 = 2 ^ 8 - 1 from rfl,
    Nat.one_shiftLeft]
  by_cases h1 : dm ≤ j <;> by_cases h2 : j < dm + size
  · have a : j - dm < size := by omega
    have b : j - dm < 8 := by omega
    simp [h1, h2, hj, a, b]
  · have a : ¬ j - dm < size := by omega
    simp [h1, h2, hj, a]
  · simp [h1, h2, hj]
  · simp [h1, h2, hj]

/-! ### the unaligned loop -/

theorem chooseMin_eq (a b : Nat) : chooseMin a b = min a b := by
  unfold chooseMin; split <;> omega

theorem mergeByte_lt (d inp mask : Nat) (hd : d < 256) (hm : mask < 256) : mergeByte d inp mask < 256 := by
  unfold mergeByte
  have h1 : d &&& (mask ^^^ 255) < 2 ^ 8 := Nat.lt_of_le_of_lt Nat.and_le_left (by omega)
  have h2 : inp &&& mask < 2 ^ 8 := Nat.and_lt_two_pow (n := 8) inp (by omega)
  exact Nat.or_lt_two_pow (n := 8) h1 h2

theorem copyLoop_spec (fuel : Nat) : ∀ (dst : Buf) (dOff : Nat) (src : Buf) (sOff lastBit : Nat),
    lastBit - sOff ≤ fuel → lastBit ≤ src.length * 8 → dOff + (lastBit - sOff) ≤ dst.length * 8 →
    ∃ r, copyLoop fuel dst dOff src sOff lastBit = .ok r ∧ r.length = dst.length ∧ (WF dst → WF r) ∧
      ∀ i, bitAt r i =
        if dOff ≤ i ∧ i < dOff + (lastBit - sOff) then bitAt src (sOff + (i - dOff)) else bitAt dst i := by
  induction fuel with
  | zero =>
    intro dst dOff src sOff lastBit hf _ _
    have : ¬ lastBit > sOff := by omega
    refine ⟨dst, by simp [copyLoop, this], rfl, id, fun i => ?_⟩
    have : ¬ (dOff ≤ i ∧ i < dOff + (lastBit - sOff)) := by omega
    simp [this]
  | succ fuel ih =>
    intro dst dOff src sOff lastBit hf hs hd
    by_cases hgt : lastBit > sOff
    · have h1 : sOff / 8 < src.length := by omega
      have h2 : dOff / 8 < dst.length := by omega
      generalize hsize : chooseMin (8 - if sOff % 8 > dOff % 8 then sOff % 8 else dOff % 8) (lastBit - sOff) = size
      have hsz : 1 ≤ size ∧ size ≤ lastBit - sOff ∧ dOff % 8 + size ≤ 8 ∧ sOff % 8 + size ≤ 8 := by
        rw [chooseMin_eq] at hsize; split at hsize <;> omega
      generalize hv : mergeByte dst[dOff / 8]
        (((((src[sOff / 8] >>> (sOff % 8)) % 256) <<< (dOff % 8)) % 256) &&& 255)
        (((((1 <<< size) - 1) <<< (dOff % 8)) &&& 255) % 256) = v
      obtain ⟨r, hr, hlen, hwf, hbits⟩ := ih (dst.set (dOff / 8) v) (dOff + size) src (sOff + size) lastBit
        (by omega) hs (by simp; omega)
      refine ⟨r, ?_, by simpa using hlen, ?_, ?_⟩
      · rw [copyLoop]
        simp only [hgt, if_true, get?_ok h1, get?_ok h2, set?_ok h2, bind, Except.bind, hsize, hv, hr]
      · intro hw
        apply hwf
        apply WF_set hw
        rw [← hv]
        exact mergeByte_lt _ _ _ (WF_getElem hw h2) (Nat.mod_lt _ (by omega))
      · intro i
        rw [hbits i, bitAt_set]
        by_cases hA : dOff + size ≤ i ∧ i < dOff + size + (lastBit - (sOff + size))
        · have hB : dOff ≤ i ∧ i < dOff + (lastBit - sOff) := by omega
          have e : sOff + size + (i - (dOff + size)) = sOff + (i - dOff) := by omega
          simp [hA, hB, e]
        · simp only [hA, if_false]
          by_cases hC : i / 8 = dOff / 8 ∧ dOff / 8 < dst.length
          · simp only [hC, and_self, if_true]
            rw [← hv, mergeByte_loop_testBit _ _ _ _ _ _ (Nat.mod_lt _ (by omega)) hsz.2.2.1]
            by_cases hD : dOff % 8 ≤ i % 8 ∧ i % 8 < dOff % 8 + size
            · have hB : dOff ≤ i ∧ i < dOff + (lastBit - sOff) := by omega
              have e1 : (sOff + (i - dOff)) / 8 = sOff / 8 := by omega
              have e2 : (sOff + (i - dOff)) % 8 = sOff % 8 + (i % 8 - dOff % 8) := by omega
              simp [hD, hB, bitAt, e1, e2, h1]
            · have hB : ¬ (dOff ≤ i ∧ i < dOff + (lastBit - sOff)) := by omega
              simp [hD, hB, bitAt, hC.1, h2]
          · have hB : ¬ (dOff ≤ i ∧ i < dOff + (lastBit - sOff)) := by omega
            simp [hC, hB]
    · refine ⟨dst, by simp [copyLoop, hgt], rfl, id, fun i => ?_⟩
      have : ¬ (dOff ≤ i ∧ i < dOff + (lastBit - sOff)) := by omega
      simp [this]


/-! ### copyBits -/

theorem mergeByte_last_testBit (ld ls lm j : Nat) (hj : j < 8) :
    (mergeByte ld ls (((1 <<< lm) - 1) % 256)).testBit j = if j < lm then ls.testBit j else ld.testBit j := by
  unfold mergeByte
  simp only [Nat.testBit_or, Nat.testBit_and, Nat.testBit_xor, Nat.testBit_mod_two_pow,
    Nat.testBit_two_pow_sub_one, show 256 = 2 ^ 8 from rfl, show 255 = 2 ^ 8 - 1 from rfl, Nat.one_shiftLeft]
  by_cases h : j < lm <;> simp [h, hj]

theorem memmove_guard (dst : Buf) (pd : Nat) (src : Buf) (ps n : Nat) :
    memmoveIfNonzero dst pd src ps n = memmove dst pd src ps n := by
  cases n <;> simp [memmoveIfNonzero, memmove]

theorem bitAt_eq_getElem? (b : Buf) (i : Nat) :
    bitAt b i = match b[i / 8]? with | some x => x.testBit (i % 8) | none => false := rfl

theorem copyBits_spec (dst : Buf) (dOff len : Nat) (src : Buf) (sOff : Nat)
    (hs : sOff + len ≤ src.length * 8) (hd : dOff + len ≤ dst.length * 8) :
    ∃ r, copyBits dst dOff len src sOff = .ok r ∧ r.length = dst.length ∧ (WF src → WF dst → WF r) ∧
      ∀ i, bitAt r i = if dOff ≤ i ∧ i < dOff + len then bitAt src (sOff + (i - dOff)) else bitAt dst i := by
  unfold copyBits
  by_cases hal : sOff % 8 = 0 ∧ dOff % 8 = 0
  · simp only [hal, and_self, if_true, memmove_guard]
    obtain ⟨d1, hd1, hlen1, hk1⟩ := memmove_spec (len / 8) dst (dOff / 8) src (sOff / 8) (by omega) (by omega)
    have hwf1 : WF src → WF dst → WF d1 := by
      intro hsrc hdst x hx
      obtain ⟨k, hk, rfl⟩ := List.getElem_of_mem hx
      have := hk1 k
      rw [List.getElem?_eq_getElem hk] at this
      split at this
      · exact hsrc _ (List.mem_of_getElem? this.symm)
      · exact hdst _ (List.mem_of_getElem? this.symm)
    have hb1 : ∀ i, bitAt d1 i =
        if dOff ≤ i ∧ i < dOff + (len / 8) * 8 then bitAt src (sOff + (i - dOff)) else bitAt dst i := by
      intro i
      rw [bitAt_eq_getElem?, hk1]
      by_cases hA : dOff / 8 ≤ i / 8 ∧ i / 8 < dOff / 8 + len / 8
      · have hB : dOff ≤ i ∧ i < dOff + (len / 8) * 8 := by omega
        have e1 : (sOff + (i - dOff)) / 8 = sOff / 8 + (i / 8 - dOff / 8) := by omega
        have e2 : (sOff + (i - dOff)) % 8 = i % 8 := by omega
        simp only [hA, hB, and_self, if_true, bitAt_eq_getElem?, e1, e2]
      · have hB : ¬ (dOff ≤ i ∧ i < dOff + (len / 8) * 8) := by omega
        simp only [hA, hB, if_false, bitAt_eq_getElem?]
    by_cases hlm : len % 8 ≠ 0
    · have h1 : dOff / 8 + len / 8 < d1.length := by omega
      have h2 : sOff / 8 + len / 8 < src.length := by omega
      refine ⟨d1.set (dOff / 8 + len / 8) (mergeByte d1[dOff / 8 + len / 8] src[sOff / 8 + len / 8]
        (((1 <<< (len % 8)) - 1) % 256)), ?_, by simpa using hlen1, ?_, ?_⟩
      · simp only [hd1, bind, Except.bind, hlm, ne_eq, not_false_eq_true, if_true, get?_ok h1, get?_ok h2,
          set?_ok h1]
      · intro hsrc hdst
        exact WF_set (hwf1 hsrc hdst) (mergeByte_lt _ _ _ (WF_getElem (hwf1 hsrc hdst) h1) (Nat.mod_lt _ (by omega)))
      · intro i
        rw [bitAt_set]
        by_cases hC : i / 8 = dOff / 8 + len / 8 ∧ dOff / 8 + len / 8 < d1.length
        · simp only [hC, and_self, if_true]
          rw [mergeByte_last_testBit _ _ _ _ (Nat.mod_lt _ (by omega))]
          by_cases hD : i % 8 < len % 8
          · have hB : dOff ≤ i ∧ i < dOff + len := by omega
            have e1 : (sOff + (i - dOff)) / 8 = sOff / 8 + len / 8 := by omega
            have e2 : (sOff + (i - dOff)) % 8 = i % 8 := by omega
            simp [hD, hB, bitAt, e1, e2, h2]
          · have hB : ¬ (dOff ≤ i ∧ i < dOff + len) := by omega
            have hE : ¬ (dOff ≤ i ∧ i < dOff + (len / 8) * 8) := by omega
            have := hb1 i
            simp only [hE, if_false] at this
            simp only [hD, hB, if_false, ← this]
            simp [bitAt, hC.1, h1]
        · rw [hb1 i]
          by_cases hB : dOff ≤ i ∧ i < dOff + len
          · have hE : dOff ≤ i ∧ i < dOff + (len / 8) * 8 := by omega
            simp [hC, hB, hE]
          · have hE : ¬ (dOff ≤ i ∧ i < dOff + (len / 8) * 8) := by omega
            simp [hC, hB, hE]
    · refine ⟨d1, ?_, hlen1, hwf1, ?_⟩
      · simp only [hd1, bind, Except.bind, hlm, if_false]
      · intro i
        rw [hb1 i]
        have : len / 8 * 8 = len := by omega
        rw [this]
  · simp only [hal, if_false]
    obtain ⟨r, hr, hlen, hwf, hb⟩ := copyLoop_spec len dst dOff src sOff (sOff + len) (by omega) hs (by omega)
    refine ⟨r, hr, hlen, fun _ => hwf, fun i => ?_⟩
    rw [hb i]
    have : sOff + len - sOff = len := by omega
    rw [this]


/-! ### getBits -/

theorem copyBits_zero (dst : Buf) (dOff : Nat) (src : Buf) (sOff : Nat) :
    copyBits dst dOff 0 src sOff = .ok dst := by
  unfold copyBits
  by_cases hal : sOff % 8 = 0 ∧ dOff % 8 = 0
  · simp [hal, memmoveIfNonzero, bind, Except.bind]
  · simp [hal, copyLoop]

/-- `copyBits` under the documented size precondition (which is void for `len = 0`). -/
theorem copyBits_spec' (dst : Buf) (dOff len : Nat) (src : Buf) (sOff : Nat)
    (hs : len ≠ 0 → sOff + len ≤ src.length * 8) (hd : len ≠ 0 → dOff + len ≤ dst.length * 8) :
    ∃ r, copyBits dst dOff len src sOff = .ok r ∧ r.length = dst.length ∧ (WF src → WF dst → WF r) ∧
      ∀ i, bitAt r i = if dOff ≤ i ∧ i < dOff + len then bitAt src (sOff + (i - dOff)) else bitAt dst i := by
  by_cases h0 : len = 0
  · subst h0
    refine ⟨dst, copyBits_zero _ _ _ _, rfl, fun _ h => h, fun i => ?_⟩
    have : ¬ (dOff ≤ i ∧ i < dOff + 0) := by omega
    rw [if_neg this]
  · exact copyBits_spec dst dOff len src sOff (hs h0) (hd h0)

theorem saturate_eq (size off len : Nat) : saturate size off len = min len (size * 8 - off) := by
  unfold saturate; simp only [chooseMin_eq]; omega

theorem getBits_spec (out buf : Buf) (size off len : Nat) (hsize : size ≤ buf.length)
    (hout : (len + 7) / 8 ≤ out.length) :
    ∃ r, getBits out buf size off len = .ok r ∧ r.length = out.length ∧ (WF buf → WF out → WF r) ∧
      ∀ i, bitAt r i =
        if i < (len + 7) / 8 * 8 then (decide (i < len) && zbit buf size (off + i)) else bitAt out i := by
  unfold getBits
  rw [saturate_eq]
  generalize hsat : min len (size * 8 - off) = sat
  have hle : sat / 8 ≤ (len + 7) / 8 := by omega
  obtain ⟨o1, ho1, hlen1, hk1⟩ := memset0_spec ((len + 7) / 8 - sat / 8) out (sat / 8) (by omega)
  obtain ⟨r, hr, hlen, hwf, hb⟩ := copyBits_spec' o1 0 sat buf off (by omega) (by omega)
  refine ⟨r, ?_, by omega, ?_, ?_⟩
  · simp only [sub?, hle, if_true, bind, Except.bind, ho1, hr]
  · intro hbuf hout'
    apply hwf hbuf
    intro x hx
    obtain ⟨k, hk, rfl⟩ := List.getElem_of_mem hx
    have := hk1 k
    rw [List.getElem?_eq_getElem hk] at this
    split at this
    · simp at this; omega
    · exact hout' _ (List.mem_of_getElem? this.symm)
  · intro i
    rw [hb i]
    by_cases hA : 0 ≤ i ∧ i < 0 + sat
    · have hB : i < (len + 7) / 8 * 8 := by omega
      have h1 : i < len := by omega
      have h2 : off + i < size * 8 := by omega
      rw [if_pos hA, if_pos hB]
      simp [h1, h2, zbit]
    · simp only [hA, if_false]
      rw [bitAt_eq_getElem?, hk1]
      by_cases hB : i < (len + 7) / 8 * 8
      · have hC : sat / 8 ≤ i / 8 ∧ i / 8 < sat / 8 + ((len + 7) / 8 - sat / 8) := by omega
        have hD : ¬ (i < len ∧ off + i < size * 8) := by omega
        simp only [hC, and_self, if_true, hB, Nat.zero_testBit, zbit]
        by_cases h1 : i < len <;> by_cases h2 : off + i < size * 8 <;> simp [h1, h2] <;> omega
      · have hC : ¬ (sat / 8 ≤ i / 8 ∧ i / 8 < sat / 8 + ((len + 7) / 8 - sat / 8)) := by omega
        simp only [hC, if_false, hB, bitAt_eq_getElem?]


/-! ### setters -/

theorem bitAt_cons (x : Nat) (xs : Buf) (k : Nat) :
    bitAt (x :: xs) k = if k < 8 then x.testBit k else bitAt xs (k - 8) := by
  unfold bitAt
  by_cases h : k < 8
  · have e1 : k / 8 = 0 := by omega
    have e2 : k % 8 = k := by omega
    simp [h, e1, e2]
  · have e1 : k / 8 = (k - 8) / 8 + 1 := by omega
    have e2 : (k - 8) % 8 = k % 8 := by omega
    simp [h, e1, e2]

theorem testBit_mod_256 (v k : Nat) : (v % 256).testBit k = (decide (k < 8) && v.testBit k) := by
  rw [show 256 = 2 ^ 8 from rfl, Nat.testBit_mod_two_pow]

theorem testBit_and_255 (v k : Nat) : (v &&& 255).testBit k = (v.testBit k && decide (k < 8)) := by
  rw [show 255 = 2 ^ 8 - 1 from rfl, Nat.testBit_and, Nat.testBit_two_pow_sub_one]

theorem testBit_div_256 (v k : Nat) : (v / 256).testBit k = v.testBit (k + 8) := by
  rw [show 256 = 2 ^ 8 from rfl, Nat.testBit_div_two_pow]

theorem bitAt_nil (k : Nat) : bitAt [] k = false := by simp [bitAt]

theorem bitAt_objRepLE (n : Nat) : ∀ (v k : Nat), bitAt (objRepLE v n) k = (decide (k < 8 * n) && v.testBit k) := by
  induction n with
  | zero => intro v k; simp [objRepLE, bitAt_nil]
  | succ n ih =>
    intro v k
    rw [objRepLE, bitAt_cons]
    by_cases h : k < 8
    · have : k < 8 * (n + 1) := by omega
      simp [h, this, testBit_mod_256]
    · rw [if_neg h, ih, testBit_div_256]
      have e : k - 8 + 8 = k := by omega
      by_cases h2 : k < 8 * (n + 1)
      · have : k - 8 < 8 * n := by omega
        simp [this, h2, e]
      · have : ¬ k - 8 < 8 * n := by omega
        simp [this, h2]

theorem length_objRepLE (n : Nat) : ∀ v, (objRepLE v n).length = n := by
  induction n with
  | zero => intro v; rfl
  | succ n ih => intro v; simp [objRepLE, ih]

theorem WF_objRepLE (n : Nat) : ∀ v, WF (objRepLE v n) := by
  induction n with
  | zero => intro v x hx; simp [objRepLE] at hx
  | succ n ih =>
    intro v x hx
    simp only [objRepLE, List.mem_cons] at hx
    rcases hx with h | h
    · omega
    · exact ih _ x h

theorem objRepLE_zero (n : Nat) : objRepLE 0 n = List.replicate n 0 := by
  induction n with
  | zero => rfl
  | succ n ih => simp [objRepLE, ih, List.replicate_succ]

def byteOf (v m : Nat) : Nat := (v >>> m) &&& 255

theorem testBit_byteOf (v m j : Nat) : (byteOf v m).testBit j = (decide (j < 8) && v.testBit (m + j)) := by
  unfold byteOf
  rw [testBit_and_255, Nat.testBit_shiftRight, Bool.and_comm]

theorem bitAt_u64Tmp (v k : Nat) : bitAt (u64Tmp v) k = (decide (k < 64) && v.testBit k) := by
  show bitAt [byteOf v 0, byteOf v 8, byteOf v 16, byteOf v 24, byteOf v 32, byteOf v 40, byteOf v 48,
    byteOf v 56] k = _
  simp only [bitAt_cons, bitAt_nil, testBit_byteOf]
  by_cases h0 : k < 8
  · simp [h0, show k < 64 by omega]
  by_cases h1 : k - 8 < 8
  · simp [h0, h1, show k < 64 by omega, show 8 + (k - 8) = k by omega]
  by_cases h2 : k - 8 - 8 < 8
  · simp [h0, h1, h2, show k < 64 by omega, show 16 + (k - 8 - 8) = k by omega]
  by_cases h3 : k - 8 - 8 - 8 < 8
  · simp [h0, h1, h2, h3, show k < 64 by omega, show 24 + (k - 8 - 8 - 8) = k by omega]
  by_cases h4 : k - 8 - 8 - 8 - 8 < 8
  · simp [h0, h1, h2, h3, h4, show k < 64 by omega, show 32 + (k - 8 - 8 - 8 - 8) = k by omega]
  by_cases h5 : k - 8 - 8 - 8 - 8 - 8 < 8
  · simp [h0, h1, h2, h3, h4, h5, show k < 64 by omega, show 40 + (k - 8 - 8 - 8 - 8 - 8) = k by omega]
  by_cases h6 : k - 8 - 8 - 8 - 8 - 8 - 8 < 8
  · simp [h0, h1, h2, h3, h4, h5, h6, show k < 64 by omega,
      show 48 + (k - 8 - 8 - 8 - 8 - 8 - 8) = k by omega]
  by_cases h7 : k - 8 - 8 - 8 - 8 - 8 - 8 - 8 < 8
  · simp [h0, h1, h2, h3, h4, h5, h6, h7, show k < 64 by omega,
      show 56 + (k - 8 - 8 - 8 - 8 - 8 - 8 - 8) = k by omega]
  · simp [h0, h1, h2, h3, h4, h5, h6, h7, show ¬ k < 64 by omega]

/-- both renderings of the source of `nunavutSetUxx` carry the low 64 bits of the value -/
theorem bitAt_setSrc (little : Bool) (v k : Nat) :
    bitAt (if little then objRepLE (v % 2 ^ 64) 8 else u64Tmp v) k = (decide (k < 64) && v.testBit k) := by
  cases little
  · simp [bitAt_u64Tmp]
  · simp only [if_true, bitAt_objRepLE, Nat.testBit_mod_two_pow]
    by_cases h : k < 64 <;> simp [h]

theorem length_setSrc (little : Bool) (v : Nat) :
    (if little then objRepLE (v % 2 ^ 64) 8 else u64Tmp v).length = 8 := by
  cases little <;> simp [length_objRepLE, u64Tmp]

theorem setUxx_small (little : Bool) (buf : Buf) (size off value len : Nat) (h : size * 8 < off + len) :
    setUxx little buf size off value len = .ok (errTooSmall, buf) := by
  simp [setUxx, h]

theorem setUxx_spec (little : Bool) (buf : Buf) (size off value len : Nat) (hsize : size ≤ buf.length)
    (h : ¬ size * 8 < off + len) :
    ∃ r, setUxx little buf size off value len = .ok (0, r) ∧ r.length = buf.length ∧ (WF buf → WF r) ∧
      ∀ i, bitAt r i = if off ≤ i ∧ i < off + min len 64 then value.testBit (i - off) else bitAt buf i := by
  unfold setUxx
  rw [if_neg h, chooseMin_eq]
  obtain ⟨r, hr, hlen, hwf, hb⟩ := copyBits_spec' buf off (min len 64)
    (if little then objRepLE (value % 2 ^ 64) 8 else u64Tmp value) 0
    (by rw [length_setSrc]; omega) (by omega)
  refine ⟨r, by simp only [hr, bind, Except.bind], hlen, ?_, ?_⟩
  · intro hw
    apply hwf _ hw
    cases little
    · intro x hx
      simp only [Bool.false_eq_true, if_false, u64Tmp, List.mem_cons, List.not_mem_nil, or_false] at hx
      have : ∀ y : Nat, y &&& 255 < 256 := fun y => Nat.lt_of_le_of_lt Nat.and_le_right (by omega)
      rcases hx with h | h | h | h | h | h | h | h <;> (rw [h]; exact this _)
    · simpa using WF_objRepLE 8 _
  · intro i
    rw [hb i, bitAt_setSrc]
    by_cases hA : off ≤ i ∧ i < off + min len 64
    · have : i - off < 64 := by omega
      simp [hA, this]
    · simp [hA]


/-! ### setBit, unsigned getters -/

theorem setBit_small (buf : Buf) (size off : Nat) (value : Bool) (h : size * 8 ≤ off) :
    setBit buf size off value = .ok (errTooSmall, buf) := by
  simp [setBit, h]

theorem setBit_spec (buf : Buf) (size off : Nat) (value : Bool) (hsize : size ≤ buf.length)
    (h : ¬ size * 8 ≤ off) :
    ∃ r, setBit buf size off value = .ok (0, r) ∧ r.length = buf.length ∧ (WF buf → WF r) ∧
      ∀ i, bitAt r i = if i = off then value else bitAt buf i := by
  unfold setBit
  rw [if_neg h]
  obtain ⟨r, hr, hlen, hwf, hb⟩ := copyBits_spec' buf off 1 [if value then 1 else 0] 0
    (by simp) (by omega)
  refine ⟨r, by simp only [hr, bind, Except.bind], hlen, ?_, ?_⟩
  · intro hw
    apply hwf _ hw
    intro x hx
    cases value <;> simp at hx <;> omega
  · intro i
    rw [hb i]
    by_cases hA : i = off
    · subst hA
      have : i ≤ i ∧ i < i + 1 := by omega
      cases value <;> simp [this, bitAt]
    · have : ¬ (off ≤ i ∧ i < off + 1) := by omega
      simp [hA, this]

theorem bitAt_replicate_zero (n i : Nat) : bitAt (List.replicate n 0) i = false := by
  unfold bitAt
  by_cases h : i / 8 < n <;> simp [h]

theorem WF_tail {x : Nat} {xs : Buf} (h : WF (x :: xs)) : WF xs := fun y hy => h y (List.mem_cons_of_mem _ hy)

theorem testBit_leLoadAux (b : Buf) : ∀ (k i : Nat), WF b →
    (leLoadAux b k).testBit i = (decide (8 * k ≤ i) && bitAt b (i - 8 * k)) := by
  induction b with
  | nil => intro k i _; simp [leLoadAux, bitAt_nil]
  | cons x xs ih =>
    intro k i hw
    have hx : x < 2 ^ 8 := hw x (List.mem_cons_self)
    rw [leLoadAux, Nat.testBit_or, Nat.testBit_shiftLeft, ih (k + 1) i (WF_tail hw), bitAt_cons]
    by_cases h1 : 8 * k ≤ i
    · by_cases h2 : i - 8 * k < 8
      · have : ¬ 8 * (k + 1) ≤ i := by omega
        simp [h1, h2, this]
      · have h3 : 8 * (k + 1) ≤ i := by omega
        have h4 : x.testBit (i - 8 * k) = false :=
          Nat.testBit_lt_two_pow (Nat.lt_of_lt_of_le hx (Nat.pow_le_pow_right (by omega) (by omega)))
        have e : i - 8 * (k + 1) = i - 8 * k - 8 := by omega
        simp [h1, h2, h3, h4, e]
    · have : ¬ 8 * (k + 1) ≤ i := by omega
      simp [h1, this]

theorem testBit_leLoad (b : Buf) (i : Nat) (hw : WF b) : (leLoad b).testBit i = bitAt b i := by
  simp [leLoad, testBit_leLoadAux b 0 i hw]

theorem testBit_objValLE (b : Buf) : ∀ (i : Nat), WF b → (objValLE b).testBit i = bitAt b i := by
  induction b with
  | nil => intro i _; simp [objValLE, bitAt_nil]
  | cons x xs ih =>
    intro i hw
    have hx : x < 2 ^ 8 := hw x (List.mem_cons_self)
    rw [objValLE, show 256 = 2 ^ 8 from rfl, Nat.add_comm, Nat.testBit_two_pow_mul_add _ hx, bitAt_cons]
    by_cases h : i < 8
    · simp [h]
    · simp [h, ih _ (WF_tail hw)]

theorem testBit_fieldOf (bit : Nat → Bool) (n : Nat) : ∀ i,
    (fieldOf bit n).testBit i = (decide (i < n) && bit i) := by
  induction n with
  | zero => intro i; simp [fieldOf]
  | succ n ih =>
    intro i
    rw [fieldOf, Nat.testBit_or, ih]
    by_cases hb : bit n
    · simp only [hb, if_true, Nat.one_shiftLeft, Nat.testBit_two_pow]
      by_cases h1 : i < n
      · simp [h1, show i < n + 1 by omega, show ¬ n = i by omega]
      · by_cases h2 : n = i
        · subst h2; simp [hb]
        · simp [h1, h2, show ¬ i < n + 1 by omega]
    · simp only [hb, Bool.false_eq_true, if_false, Nat.zero_testBit, Bool.or_false]
      by_cases h1 : i < n
      · simp [h1, show i < n + 1 by omega]
      · by_cases h2 : n = i
        · subst h2; simp [hb]
        · simp [h1, show ¬ i < n + 1 by omega]

theorem fieldOf_lt (bit : Nat → Bool) (n : Nat) : fieldOf bit n < 2 ^ n := by
  apply Nat.lt_pow_two_of_testBit
  intro i hi
  rw [testBit_fieldOf]
  simp [show ¬ i < n by omega]

/-- `nunavutGetU8/16/32/64`, both renderings: the zero-extended field of `min len W` bits, no access out of bounds. -/
theorem getU_spec (little : Bool) (W : Nat) (buf : Buf) (size off len : Nat) (hW : W % 8 = 0)
    (hsize : size ≤ buf.length) (hw : WF buf) :
    getU little W buf size off len = .ok (fieldOf (fun i => zbit buf size (off + i)) (min len W)) := by
  unfold getU
  rw [saturate_eq, chooseMin_eq, objRepLE_zero]
  generalize hbits : min (min len W) (size * 8 - off) = bits
  obtain ⟨r, hr, hlen, hwf, hb⟩ := copyBits_spec' (List.replicate (W / 8) 0) 0 bits buf off
    (by omega) (by simp; omega)
  have hwr : WF r := hwf hw (WF_replicate _)
  have key : ∀ v : Nat, (∀ i, v.testBit i = bitAt r i) →
      v = fieldOf (fun i => zbit buf size (off + i)) (min len W) := by
    intro v hv
    apply Nat.eq_of_testBit_eq
    intro i
    rw [hv, hb, testBit_fieldOf, bitAt_replicate_zero]
    by_cases hA : 0 ≤ i ∧ i < 0 + bits
    · have h1 : i < min len W := by omega
      have h2 : off + i < size * 8 := by omega
      rw [if_pos hA]
      simp [h1, h2, zbit]
    · simp only [hA, if_false, zbit]
      by_cases h1 : i < min len W <;> by_cases h2 : off + i < size * 8 <;> simp [h1, h2] <;> omega
  by_cases hl : little = true ∨ W = 8
  · simp only [hl, if_true, hr, bind, Except.bind]
    rw [key _ (fun i => testBit_objValLE r i hwr)]
  · simp only [hl, if_false, hr, bind, Except.bind]
    rw [key _ (fun i => testBit_leLoad r i hwr)]


/-! ### signed getters -/

theorem and_two_pow_ne_zero (u k : Nat) : ((u &&& (1 <<< k)) != 0) = u.testBit k := by
  rw [Nat.one_shiftLeft]
  cases h : u.testBit k
  · have : u &&& 2 ^ k = 0 := by
      apply Nat.eq_of_testBit_eq
      intro i
      rw [Nat.testBit_and, Nat.testBit_two_pow, Nat.zero_testBit]
      by_cases hk : k = i
      · subst hk; simp [h]
      · simp [hk]
    simp [this]
  · have : (u &&& 2 ^ k).testBit k = true := by simp [Nat.testBit_and, h]
    have hne : u &&& 2 ^ k ≠ 0 := by
      intro e; rw [e, Nat.zero_testBit] at this; exact Bool.noConfusion this
    simp [hne]

theorem wrapS_id (W : Nat) (z : Int) (hW : 0 < W) (h1 : -(2 ^ (W - 1)) ≤ z) (h2 : z < 2 ^ (W - 1)) :
    wrapS W z = z := by
  unfold wrapS
  have hp : (2 : Int) ^ W = 2 * 2 ^ (W - 1) := by
    have : W = (W - 1) + 1 := by omega
    rw [this, Int.pow_succ, Nat.add_sub_cancel]; omega
  have hpos : (0 : Int) < 2 ^ (W - 1) := Int.pow_pos (by omega)
  by_cases hz : 0 ≤ z
  · have : z % 2 ^ W = z := Int.emod_eq_of_lt hz (by omega)
    simp only [this]
    rw [if_pos h2]
  · have : z % 2 ^ W = z + 2 ^ W := by
      rw [← Int.add_emod_right z (2 ^ W)]
      exact Int.emod_eq_of_lt (by omega) (by omega)
    simp only [this]
    rw [if_neg (by omega)]
    omega

theorem extWidth_ge (W : Nat) (h : W ≤ 64) : W ≤ extWidth W := by
  unfold extWidth; split <;> omega

/-- the shared sign-extension text: two's-complement value of a `sat`-bit field, no signed overflow -/
theorem signExtend_spec (W sat u : Nat) (hW0 : 0 < W) (hW64 : W ≤ 64) (hsW : sat ≤ W) (hult : u < 2 ^ sat) :
    signExtend W sat u = .ok (if sat > 0 ∧ u.testBit (sat - 1) then (u : Int) - 2 ^ sat else (u : Int)) := by
  unfold signExtend
  simp only [and_two_pow_ne_zero]
  have hCW := extWidth_ge W hW64
  generalize extWidth W = C at hCW
  have hpW : (2 : Int) ^ (W - 1) > 0 := Int.pow_pos (by omega)
  generalize hnb : (decide (sat > 0) && u.testBit (sat - 1)) = negb
  cases negb
  case true =>
    have hneg : sat > 0 ∧ u.testBit (sat - 1) = true := by simpa using hnb
    simp only [and_true, if_true, hneg, and_self]
    -- the complemented pattern is 2^sat - (u+1)
    have hx0 : ((if sat < W then (u ||| (((1 <<< sat) - 1) ^^^ (2 ^ C - 1))) % 2 ^ W else u) ^^^ (2 ^ W - 1))
        = 2 ^ sat - (u + 1) := by
      apply Nat.eq_of_testBit_eq
      intro i
      rw [Nat.testBit_two_pow_sub_succ hult, Nat.testBit_xor, Nat.testBit_two_pow_sub_one]
      by_cases hlt : sat < W
      · simp only [hlt, if_true, Nat.testBit_mod_two_pow, Nat.testBit_or, Nat.testBit_xor,
          Nat.testBit_two_pow_sub_one, Nat.one_shiftLeft]
        by_cases h1 : i < sat
        · simp [h1, show i < W by omega, show i < C by omega]
        · by_cases h2 : i < W
          · simp [h1, h2, show i < C by omega]
          · simp [h1, h2]
      · have hsw : sat = W := by omega
        simp only [hlt, if_false]
        by_cases h1 : i < W
        · simp [h1, hsw]
        · have : u.testBit i = false :=
            Nat.testBit_lt_two_pow (Nat.lt_of_lt_of_le hult (Nat.pow_le_pow_right (by omega) (by omega)))
          simp [h1, hsw, this]
    rw [hx0]
    have hge : u ≥ 2 ^ (sat - 1) := Nat.ge_two_pow_of_testBit hneg.2
    have hp2 : 2 ^ sat = 2 * 2 ^ (sat - 1) := by
      have : sat = (sat - 1) + 1 := by omega
      rw [this, Nat.pow_succ, Nat.add_sub_cancel]; omega
    have hmono : 2 ^ (sat - 1) ≤ 2 ^ (W - 1) := Nat.pow_le_pow_right (by omega) (by omega)
    have hcast : ((2 ^ sat - (u + 1) : Nat) : Int) = (2 : Int) ^ sat - (u : Int) - 1 := by
      rw [Int.natCast_sub (by omega)]; simp; omega
    have hpI : (2 : Int) ^ sat = 2 * 2 ^ (sat - 1) := by exact_mod_cast hp2
    have hmI : (2 : Int) ^ (sat - 1) ≤ 2 ^ (W - 1) := by exact_mod_cast hmono
    have hgeI : (u : Int) ≥ 2 ^ (sat - 1) := by exact_mod_cast hge
    have hltI : (u : Int) < 2 ^ sat := by exact_mod_cast hult
    rw [hcast]
    have hx : wrapS W ((2 : Int) ^ sat - (u : Int) - 1) = (2 : Int) ^ sat - (u : Int) - 1 :=
      wrapS_id W _ hW0 (by omega) (by omega)
    rw [hx]
    have hno : ¬ (W ≥ 32 ∧ ((2 : Int) ^ sat - (u : Int) - 1 = -(2 ^ (W - 1)) ∨
        -((2 : Int) ^ sat - (u : Int) - 1) - 1 < -(2 ^ (W - 1)))) := by omega
    rw [if_neg hno, wrapS_id W _ hW0 (by omega) (by omega)]
    congr 1; omega
  case false =>
    have hneg : ¬ (sat > 0 ∧ u.testBit (sat - 1) = true) := by
      intro h; simp [h.1, h.2] at hnb
    simp only [Bool.false_eq_true, and_false, if_false, hneg]
    have hsmall : u < 2 ^ (W - 1) := by
      by_cases h0 : sat > 0
      · have hb : u.testBit (sat - 1) = false := by
          cases h : u.testBit (sat - 1)
          · rfl
          · exact absurd ⟨h0, h⟩ hneg
        have : u < 2 ^ (sat - 1) := by
          apply Nat.lt_pow_two_of_testBit
          intro i hi
          by_cases hi2 : i = sat - 1
          · rw [hi2]; exact hb
          · exact Nat.testBit_lt_two_pow (Nat.lt_of_lt_of_le hult (Nat.pow_le_pow_right (by omega) (by omega)))
        exact Nat.lt_of_lt_of_le this (Nat.pow_le_pow_right (by omega) (by omega))
      · have : sat = 0 := by omega
        subst this
        have : u = 0 := by simpa using hult
        rw [this]; exact Nat.two_pow_pos _
    have hsI : (u : Int) < 2 ^ (W - 1) := by exact_mod_cast hsmall
    rw [wrapS_id W _ hW0 (by omega) hsI]

/-- `nunavutGetI8/16/32/64`, both renderings: two's-complement value of the zero-extended field of
`sat = min len W` bits; no out-of-bounds access, no signed overflow. -/
theorem getI_spec (little : Bool) (W : Nat) (buf : Buf) (size off len : Nat) (hW : W % 8 = 0) (hW0 : 0 < W)
    (hW64 : W ≤ 64) (hsize : size ≤ buf.length) (hw : WF buf) :
    getI little W buf size off len = .ok
      (let sat := min len W
       let u := fieldOf (fun i => zbit buf size (off + i)) sat
       if sat > 0 ∧ u.testBit (sat - 1) then (u : Int) - 2 ^ sat else (u : Int)) := by
  unfold getI
  dsimp only
  rw [chooseMin_eq, getU_spec little W buf size off (min len W) hW hsize hw]
  rw [show min (min len W) W = min len W by omega]
  simp only [bind, Except.bind]
  exact signExtend_spec W _ _ hW0 hW64 (by omega) (fieldOf_lt _ _)


/-! ### fuel sufficiency -/

theorem get?_ne_fuel (b : Buf) (i : Nat) : get? b i ≠ .error .fuel := by
  unfold get?; cases b[i]? <;> simp

theorem set?_ne_fuel (b : Buf) (i v : Nat) : set? b i v ≠ .error .fuel := by
  unfold set?; split <;> simp

/-- fuel sufficiency: with fuel ≥ the number of bits left the loop never runs out of fuel, whatever the buffers -/
theorem copyLoop_no_fuel (fuel : Nat) : ∀ (dst : Buf) (dOff : Nat) (src : Buf) (sOff lastBit : Nat),
    lastBit - sOff ≤ fuel → copyLoop fuel dst dOff src sOff lastBit ≠ .error .fuel := by
  induction fuel with
  | zero =>
    intro dst dOff src sOff lastBit h
    have : ¬ lastBit > sOff := by omega
    simp [copyLoop, this]
  | succ fuel ih =>
    intro dst dOff src sOff lastBit h
    rw [copyLoop]
    by_cases hgt : lastBit > sOff
    · rw [if_pos hgt]
      dsimp only
      generalize hsize : chooseMin (8 - if sOff % 8 > dOff % 8 then sOff % 8 else dOff % 8) (lastBit - sOff) = size
      have hsz : 1 ≤ size := by rw [chooseMin_eq] at hsize; split at hsize <;> omega
      simp only [bind, Except.bind]
      cases h1 : get? src (sOff / 8) with
      | error e => intro c; injection c with c; exact get?_ne_fuel _ _ (h1.trans (by rw [c]))
      | ok s =>
        simp only []
        cases h2 : get? dst (dOff / 8) with
        | error e => intro c; injection c with c; exact get?_ne_fuel _ _ (h2.trans (by rw [c]))
        | ok d =>
          simp only []
          cases h3 : set? dst (dOff / 8) (mergeByte d (((((s >>> (sOff % 8)) % 256) <<< (dOff % 8)) % 256) &&& 255)
              (((((1 <<< size) - 1) <<< (dOff % 8)) &&& 255) % 256)) with
          | error e => intro c; injection c with c; exact set?_ne_fuel _ _ _ (h3.trans (by rw [c]))
          | ok dst' => exact ih dst' _ src _ lastBit (by omega)
    · rw [if_neg hgt]; simp

theorem copyBits_no_fuel (dst : Buf) (dOff len : Nat) (src : Buf) (sOff : Nat) :
    copyBits dst dOff len src sOff ≠ .error .fuel := by
  unfold copyBits
  by_cases hal : sOff % 8 = 0 ∧ dOff % 8 = 0
  · rw [if_pos hal]
    intro c
    -- the aligned branch has no loop with fuel: every error comes from a checked access
    simp only [bind, Except.bind] at c
    have hm : ∀ n dst pd ps, memmove dst pd src ps n ≠ .error .fuel := by
      intro n
      induction n with
      | zero => intro dst pd ps; simp [memmove]
      | succ n ih =>
        intro dst pd ps
        rw [memmove]
        simp only [bind, Except.bind]
        cases h1 : get? src ps with
        | error e => intro c; injection c with c; exact get?_ne_fuel _ _ (h1.trans (by rw [c]))
        | ok b =>
          simp only []
          cases h2 : set? dst pd b with
          | error e => intro c; injection c with c; exact set?_ne_fuel _ _ _ (h2.trans (by rw [c]))
          | ok d => exact ih d _ _
    rw [memmove_guard] at c
    cases h1 : memmove dst (dOff / 8) src (sOff / 8) (len / 8) with
    | error e => rw [h1] at c; injection c with c; exact hm _ _ _ _ (h1.trans (by rw [c]))
    | ok d1 =>
      rw [h1] at c
      simp only [] at c
      by_cases hlm : len % 8 ≠ 0
      · rw [if_pos hlm] at c
        cases h2 : get? d1 (dOff / 8 + len / 8) with
        | error e => rw [h2] at c; injection c with c; exact get?_ne_fuel _ _ (h2.trans (by rw [c]))
        | ok ld =>
          rw [h2] at c
          simp only [] at c
          cases h3 : get? src (sOff / 8 + len / 8) with
          | error e => rw [h3] at c; injection c with c; exact get?_ne_fuel _ _ (h3.trans (by rw [c]))
          | ok ls =>
            rw [h3] at c
            exact set?_ne_fuel _ _ _ c
      · rw [if_neg hlm] at c; exact absurd c (by simp)
  · rw [if_neg hal]
    exact copyLoop_no_fuel len dst dOff src sOff (sOff + len) (by omega)


end NunavutVerif.Bits
