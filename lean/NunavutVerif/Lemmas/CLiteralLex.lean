import NunavutVerif.Model.CLiteral
/-!
Lexing lemmas for `Model/CLiteral.lean`: what `lexNum` / `lex` return on the strings the filters produce
(digit strings of arbitrary numbers followed by the fixed suffixes / punctuation).
-/
namespace NunavutVerif.CLiteral

/-! ### digit strings -/

def AllDigits (ds : Str) : Prop := ∀ c ∈ ds, c.isDigit = true

theorem natStr_allDigits (n : Nat) : AllDigits (natStr n) :=
  fun _ hc => Nat.isDigit_of_mem_toDigits (by decide) (by decide) hc

theorem natStr_ne_nil (n : Nat) : natStr n ≠ [] := Nat.toDigits_ne_nil

theorem digitsVal_natStr (n : Nat) : digitsVal (natStr n) = n := Nat.ofDigitChars_ten_toDigits

theorem natStr_inj {a b : Nat} (h : natStr a = natStr b) : a = b := by
  have := congrArg digitsVal h
  rwa [digitsVal_natStr, digitsVal_natStr] at this

theorem natStr_lt_ten {n : Nat} (h : n < 10) : natStr n = [Nat.digitChar n] := Nat.toDigits_of_lt_base h

theorem natStr_ge_ten {n : Nat} (h : 10 ≤ n) : natStr n = natStr (n / 10) ++ [Nat.digitChar (n % 10)] :=
  Nat.toDigits_of_base_le (by decide) h

/-- the leading digit of a positive number is not `0` -/
theorem natStr_head_ne_zero (n : Nat) (hn : n ≠ 0) : (natStr n).head? ≠ some '0' := by
  induction n using Nat.strongRecOn with
  | _ n ih =>
    by_cases h : n < 10
    · rw [natStr_lt_ten h]
      have : n = 1 ∨ n = 2 ∨ n = 3 ∨ n = 4 ∨ n = 5 ∨ n = 6 ∨ n = 7 ∨ n = 8 ∨ n = 9 := by omega
      rcases this with h | h | h | h | h | h | h | h | h <;> subst h <;> decide
    · rw [natStr_ge_ten (by omega)]
      have hq : n / 10 ≠ 0 := by omega
      have := ih (n / 10) (by omega) hq
      cases hs : natStr (n / 10) with
      | nil => exact absurd hs (natStr_ne_nil _)
      | cons c cs => rw [hs] at this; simpa using this

theorem natStr_eq_zero_iff (n : Nat) : natStr n = ['0'] ↔ n = 0 := by
  constructor
  · intro h
    have := congrArg digitsVal h
    rw [digitsVal_natStr] at this
    rw [this]; decide
  · intro h; subst h; decide

/-- `natStr n = c :: cs` with a digit `c` -/
theorem natStr_cons (n : Nat) : ∃ c cs, natStr n = c :: cs ∧ c.isDigit = true := by
  cases h : natStr n with
  | nil => exact absurd h (natStr_ne_nil n)
  | cons c cs => exact ⟨c, cs, rfl, natStr_allDigits n c (by rw [h]; exact List.mem_cons_self)⟩

/-! ### spans -/

/-- the rest does not continue a digit run -/
def NoDigitHead : Str → Prop
  | [] => True
  | c :: _ => c.isDigit = false

theorem spanDigits_append {ds rest : Str} (hd : AllDigits ds) (hr : NoDigitHead rest) :
    spanDigits (ds ++ rest) = (ds, rest) := by
  induction ds with
  | nil =>
    cases rest with
    | nil => rfl
    | cons c r => simp only [List.nil_append, spanDigits]; rw [if_neg (by simpa [NoDigitHead] using hr)]
  | cons d ds ih =>
    have hdd : d.isDigit = true := hd d List.mem_cons_self
    have ih' := ih (fun c hc => hd c (List.mem_cons_of_mem _ hc))
    simp only [List.cons_append, spanDigits, hdd, if_true, ih']

theorem safeEnd_noDigit {rest : Str} (h : safeEnd rest = true) : NoDigitHead rest := by
  cases rest with
  | nil => trivial
  | cons c r =>
    simp only [safeEnd, isIdChar, Char.isAlphanum, Bool.not_eq_true', Bool.or_eq_false_iff, decide_eq_false_iff_not] at h
    exact h.1.1.2

/-- a character that may follow a number token is none of the characters the number lexer looks for -/
theorem safeEnd_head {c : Char} {r : Str} (h : safeEnd (c :: r) = true) :
    c.isDigit = false ∧ c ≠ '.' ∧ c ≠ 'e' ∧ c ≠ 'E' ∧ c ≠ 'f' ∧ c ≠ 'F' ∧ c ≠ 'l' ∧ c ≠ 'L' ∧ c ≠ 'u' ∧ c ≠ 'U' := by
  simp only [safeEnd, isIdChar, Char.isAlphanum, Bool.not_eq_true', Bool.or_eq_false_iff, decide_eq_false_iff_not] at h
  obtain ⟨⟨⟨ha, hd⟩, _⟩, hdot⟩ := h
  refine ⟨hd, hdot, ?_, ?_, ?_, ?_, ?_, ?_, ?_, ?_⟩ <;> (intro e; subst e; revert ha; decide)

/-! ### number tokens -/

/-- the integer token of a digit string (octal literals other than `0` are outside the fragment) -/
def intTok (ip : Str) (u : Bool) (l : Nat) : Option Tok :=
  if ip = ['0'] then some (.int 0 false u l)
  else if ip.head? = some '0' then none else some (.int (digitsVal ip) true u l)

/-- the suffix the filter appends -/
def sfxStr (u : Bool) (l : Nat) : Str := (if u then ['U'] else []) ++ List.replicate l 'L'

theorem takeU_safe {rest : Str} (hr : safeEnd rest = true) : takeU rest = (false, rest) := by
  cases rest with
  | nil => rfl
  | cons c r =>
    obtain ⟨_, _, _, _, _, _, _, _, hu, hU⟩ := safeEnd_head hr
    simp [takeU, isU, hu, hU]

theorem takeL_safe {rest : Str} (hr : safeEnd rest = true) : takeL rest = (0, rest) := by
  match rest, hr with
  | [], _ => rfl
  | [c], hr =>
    obtain ⟨_, _, _, _, _, _, hl, hL, _, _⟩ := safeEnd_head hr
    simp [takeL, isL, hl, hL]
  | c :: c2 :: r, hr =>
    obtain ⟨_, _, _, _, _, _, hl, hL, _, _⟩ := safeEnd_head hr
    simp [takeL, isL, hl, hL]

theorem takeL_one {rest : Str} (hr : safeEnd rest = true) : takeL ('L' :: rest) = (1, rest) := by
  cases rest with
  | nil => rfl
  | cons c r =>
    obtain ⟨_, _, _, _, _, _, _, hL, _, _⟩ := safeEnd_head hr
    simp [takeL, isL, hL]

theorem takeL_two (rest : Str) : takeL ('L' :: 'L' :: rest) = (2, rest) := by simp [takeL]

theorem takeU_U (rest : Str) : takeU ('U' :: rest) = (true, rest) := by simp [takeU, isU]

theorem takeU_L (rest : Str) : takeU ('L' :: rest) = (false, 'L' :: rest) := by simp [takeU, isU]

theorem lexIntSuffix_sfx (ip : Str) (u : Bool) (l : Nat) (hl : l ≤ 2) (rest : Str) (hr : safeEnd rest = true) :
    lexIntSuffix ip (sfxStr u l ++ rest) = (intTok ip u l).map (fun t => (t, rest)) := by
  have hl' : l = 0 ∨ l = 1 ∨ l = 2 := by omega
  have fin : ∀ u l, (if (!safeEnd rest) = true then none
        else if ip = ['0'] then some (Tok.int 0 false u l, rest)
        else if ip.head? = some '0' then none else some (Tok.int (digitsVal ip) true u l, rest))
      = (intTok ip u l).map (fun t => (t, rest)) := by
    intro u l
    simp only [hr, Bool.not_true, Bool.false_eq_true, if_false, intTok]
    split
    · rfl
    · split <;> rfl
  rcases hl' with h | h | h <;> subst h <;> cases u
  · simp only [lexIntSuffix, sfxStr, List.replicate, List.nil_append, takeU_safe hr, takeL_safe hr,
      Bool.false_eq_true, if_false]
    exact fin false 0
  · simp only [lexIntSuffix, sfxStr, List.replicate, List.append_nil, List.cons_append, List.nil_append, if_true,
      takeU_U, takeL_safe hr]
    exact fin true 0
  · simp only [lexIntSuffix, sfxStr, List.replicate, List.nil_append, List.cons_append, takeU_L, takeL_one hr,
      takeU_safe hr, Bool.false_eq_true, if_false]
    exact fin false 1
  · simp only [lexIntSuffix, sfxStr, List.replicate, List.cons_append, List.nil_append, if_true, takeU_U,
      takeL_one hr]
    exact fin true 1
  · simp only [lexIntSuffix, sfxStr, List.replicate, List.nil_append, List.cons_append, takeU_L, takeL_two,
      takeU_safe hr, Bool.false_eq_true, if_false]
    exact fin false 2
  · simp only [lexIntSuffix, sfxStr, List.replicate, List.cons_append, List.nil_append, if_true, takeU_U,
      takeL_two]
    exact fin true 2

theorem intTok_natStr (n : Nat) (u : Bool) (l : Nat) : intTok (natStr n) u l = some (.int n (decide (n ≠ 0)) u l) := by
  unfold intTok
  by_cases h : n = 0
  · subst h; simp [show natStr 0 = ['0'] by decide]
  · have h1 : natStr n ≠ ['0'] := fun e => h ((natStr_eq_zero_iff n).1 e)
    rw [if_neg h1, if_neg (natStr_head_ne_zero n h), digitsVal_natStr]
    simp [h]

theorem lexNumRaw_int (n : Nat) (u : Bool) (l : Nat) (hl : l ≤ 2) (rest : Str) (hr : safeEnd rest = true) :
    lexNumRaw (natStr n ++ (sfxStr u l ++ rest)) = some (.int n (decide (n ≠ 0)) u l, rest) := by
  have hnd : NoDigitHead (sfxStr u l ++ rest) := by
    have hl' : l = 0 ∨ l = 1 ∨ l = 2 := by omega
    rcases hl' with h | h | h <;> subst h <;> cases u <;>
      simp [sfxStr, List.replicate, NoDigitHead] <;> first | exact safeEnd_noDigit hr | decide
  unfold lexNumRaw
  simp only [spanDigits_append (natStr_allDigits n) hnd]
  have key := lexIntSuffix_sfx (natStr n) u l hl rest hr
  rw [intTok_natStr] at key
  cases hs : sfxStr u l ++ rest with
  | nil => rw [hs] at key; simpa using key
  | cons c r =>
    rw [hs] at key
    have hc : c ≠ '.' ∧ c ≠ 'e' ∧ c ≠ 'E' := by
      have hl' : l = 0 ∨ l = 1 ∨ l = 2 := by omega
      rcases hl' with h | h | h <;> subst h <;> cases u <;> simp [sfxStr, List.replicate] at hs
      · subst hs; obtain ⟨_, h1, h2, h3, _⟩ := safeEnd_head hr; exact ⟨h1, h2, h3⟩
      all_goals (obtain ⟨rfl, _⟩ := hs; decide)
    simp only [hc.1, hc.2.1, hc.2.2, if_false, or_self]
    simpa using key

/-! ### floating tokens -/

theorem lexFSuf_safe (mant : Nat) (e10 : Int) {rest : Str} (hr : safeEnd rest = true) :
    lexFSuf mant e10 rest = some (.flt mant e10 .none, rest) := by
  cases rest with
  | nil => rfl
  | cons c r =>
    obtain ⟨_, _, _, _, hf, hF, hl, hL, _, _⟩ := safeEnd_head hr
    simp [lexFSuf, hf, hF, hl, hL, hr]

theorem lexExp_noexp (digs : Str) (nfrac : Nat) {rest : Str} (hr : safeEnd rest = true) :
    lexExp digs nfrac rest = some (.flt (digitsVal digs) (-(nfrac : Int)) .none, rest) := by
  cases rest with
  | nil => simp [lexExp, lexFSuf]
  | cons c r =>
    obtain ⟨_, _, he, hE, _⟩ := safeEnd_head hr
    simp only [lexExp, he, hE, or_self, if_false]
    exact lexFSuf_safe _ _ hr

theorem lexExp_exp (digs : Str) (nfrac : Nat) (neg : Bool) {ex : Str} (hex : AllDigits ex) (hne : ex ≠ [])
    {rest : Str} (hr : safeEnd rest = true) :
    lexExp digs nfrac ('e' :: (if neg then '-' else '+') :: (ex ++ rest)) =
      some (.flt (digitsVal digs) ((if neg then -(digitsVal ex : Int) else (digitsVal ex : Int)) - nfrac) .none, rest) := by
  have hs := spanDigits_append hex (safeEnd_noDigit hr)
  cases neg
  · simp only [lexExp, Bool.false_eq_true, if_false, true_or, if_true, show ('+' : Char) ≠ '-' by decide, hs, hne]
    exact lexFSuf_safe _ _ hr
  · simp only [lexExp, if_true, true_or, hs, hne, if_false]
    exact lexFSuf_safe _ _ hr

theorem lexNumRaw_frac {ip fp : Str} (hip : AllDigits ip) (hfp : AllDigits fp) {rest : Str} (hr : safeEnd rest = true) :
    lexNumRaw (ip ++ '.' :: (fp ++ rest)) = some (.flt (digitsVal (ip ++ fp)) (-(fp.length : Int)) .none, rest) := by
  unfold lexNumRaw
  have h1 : spanDigits (ip ++ '.' :: (fp ++ rest)) = (ip, '.' :: (fp ++ rest)) :=
    spanDigits_append hip (by simp [NoDigitHead])
  simp only [h1, if_true, spanDigits_append hfp (safeEnd_noDigit hr)]
  exact lexExp_noexp _ _ hr

theorem lexNumRaw_frac_exp {ip fp ex : Str} (hip : AllDigits ip) (hfp : AllDigits fp) (neg : Bool)
    (hex : AllDigits ex) (hne : ex ≠ []) {rest : Str} (hr : safeEnd rest = true) :
    lexNumRaw (ip ++ '.' :: (fp ++ 'e' :: (if neg then '-' else '+') :: (ex ++ rest))) =
      some (.flt (digitsVal (ip ++ fp)) ((if neg then -(digitsVal ex : Int) else (digitsVal ex : Int)) - fp.length) .none, rest) := by
  unfold lexNumRaw
  have h1 : spanDigits (ip ++ '.' :: (fp ++ 'e' :: (if neg then '-' else '+') :: (ex ++ rest))) =
      (ip, '.' :: (fp ++ 'e' :: (if neg then '-' else '+') :: (ex ++ rest))) :=
    spanDigits_append hip (by simp [NoDigitHead])
  have h2 : spanDigits (fp ++ 'e' :: (if neg then '-' else '+') :: (ex ++ rest)) =
      (fp, 'e' :: (if neg then '-' else '+') :: (ex ++ rest)) :=
    spanDigits_append hfp (by simp [NoDigitHead])
  simp only [h1, if_true, h2]
  exact lexExp_exp _ _ neg hex hne hr

theorem lexNumRaw_int_exp {ip ex : Str} (hip : AllDigits ip) (neg : Bool)
    (hex : AllDigits ex) (hne : ex ≠ []) {rest : Str} (hr : safeEnd rest = true) :
    lexNumRaw (ip ++ 'e' :: (if neg then '-' else '+') :: (ex ++ rest)) =
      some (.flt (digitsVal ip) ((if neg then -(digitsVal ex : Int) else (digitsVal ex : Int)) - (0 : Nat)) .none, rest) := by
  unfold lexNumRaw
  have h1 : spanDigits (ip ++ 'e' :: (if neg then '-' else '+') :: (ex ++ rest)) =
      (ip, 'e' :: (if neg then '-' else '+') :: (ex ++ rest)) :=
    spanDigits_append hip (by simp [NoDigitHead])
  simp only [h1, show ('e' : Char) ≠ '.' by decide, if_false, true_or, if_true]
  exact lexExp_exp _ _ neg hex hne hr


/-! ### preprocessing numbers -/

theorem spanPP_safe {rest : Str} (hr : safeEnd rest = true) : spanPP false rest = ([], rest) := by
  cases rest with
  | nil => rfl
  | cons c r =>
    have : (isIdChar c || c = '.') = false := by simpa [safeEnd] using hr
    simp [spanPP, this]

theorem spanPP_append (b : Bool) (s rest : Str) (h : ppAll b s = true) :
    spanPP b (s ++ rest) = (s ++ (spanPP (ppFlag b s) rest).1, (spanPP (ppFlag b s) rest).2) := by
  induction s generalizing b with
  | nil => simp [ppFlag]
  | cons c cs ih =>
    simp only [ppAll] at h
    simp only [List.cons_append, spanPP, ppFlag]
    cases hA : (isIdChar c || decide (c = '.')) with
    | true =>
      simp only [hA, if_true] at h ⊢
      rw [ih _ h]
    | false =>
      simp only [hA, Bool.false_eq_true, if_false] at h ⊢
      cases hB : (b && (decide (c = '+') || decide (c = '-'))) with
      | true =>
        simp only [hB, if_true] at h ⊢
        rw [ih _ h]
      | false => simp [hB] at h

theorem ppAll_append (b : Bool) (s t : Str) : ppAll b (s ++ t) = (ppAll b s && ppAll (ppFlag b s) t) := by
  induction s generalizing b with
  | nil => simp [ppAll, ppFlag]
  | cons c cs ih =>
    simp only [List.cons_append, ppAll, ppFlag]
    split
    · exact ih _
    · split
      · exact ih _
      · simp

theorem ppFlag_append (b : Bool) (s t : Str) (h : ppAll b s = true) : ppFlag b (s ++ t) = ppFlag (ppFlag b s) t := by
  induction s generalizing b with
  | nil => simp [ppFlag]
  | cons c cs ih =>
    simp only [ppAll] at h
    simp only [List.cons_append, ppFlag]
    split
    · rename_i h1; rw [if_pos h1] at h; exact ih _ h
    · rename_i h1; rw [if_neg h1] at h
      split
      · rename_i h2; rw [if_pos h2] at h; exact ih _ h
      · rename_i h2; rw [if_neg h2] at h; cases h

theorem digit_isIdChar {c : Char} (h : c.isDigit = true) : isIdChar c = true := by
  simp [isIdChar, Char.isAlphanum, h]

theorem digit_not_e {c : Char} (h : c.isDigit = true) : (c = 'e' || c = 'E') = false := by
  have h1 : c ≠ 'e' := by intro e; subst e; revert h; decide
  have h2 : c ≠ 'E' := by intro e; subst e; revert h; decide
  simp [h1, h2]

theorem ppAll_digits (b : Bool) {ds : Str} (h : AllDigits ds) : ppAll b ds = true := by
  induction ds generalizing b with
  | nil => rfl
  | cons c cs ih =>
    have hc := h c List.mem_cons_self
    simp only [ppAll, digit_isIdChar hc, Bool.true_or, if_true]
    exact ih _ (fun x hx => h x (List.mem_cons_of_mem _ hx))

theorem ppFlag_digits (b : Bool) {ds : Str} (h : AllDigits ds) (hne : ds ≠ []) : ppFlag b ds = false := by
  induction ds generalizing b with
  | nil => exact absurd rfl hne
  | cons c cs ih =>
    have hc := h c List.mem_cons_self
    simp only [ppFlag, digit_isIdChar hc, Bool.true_or, if_true, digit_not_e hc]
    cases cs with
    | nil => rfl
    | cons d ds => exact ih _ (fun x hx => h x (List.mem_cons_of_mem _ hx)) (by simp)

/-- A text `s` that is one whole preprocessing number, followed by something that cannot continue it. -/
theorem lexNum_of_raw {s rest : Str} {t : Tok} (hpp : ppAll false s = true) (hfl : ppFlag false s = false)
    (hr : safeEnd rest = true) (h : lexNumRaw s = some (t, [])) : lexNum (s ++ rest) = some (t, rest) := by
  unfold lexNum lexNumTok
  rw [spanPP_append false s rest hpp, hfl, spanPP_safe hr]
  simp only [List.append_nil, h]

theorem sfxStr_pp (u : Bool) (l : Nat) (hl : l ≤ 2) : ppAll false (sfxStr u l) = true ∧ ppFlag false (sfxStr u l) = false := by
  have hl' : l = 0 ∨ l = 1 ∨ l = 2 := by omega
  rcases hl' with h | h | h <;> subst h <;> cases u <;> decide

theorem lexNum_int (n : Nat) (u : Bool) (l : Nat) (hl : l ≤ 2) (rest : Str) (hr : safeEnd rest = true) :
    lexNum (natStr n ++ (sfxStr u l ++ rest)) = some (.int n (decide (n ≠ 0)) u l, rest) := by
  have hraw := lexNumRaw_int n u l hl [] rfl
  rw [List.append_nil] at hraw
  rw [← List.append_assoc]
  apply lexNum_of_raw _ _ hr hraw
  · rw [ppAll_append, ppAll_digits _ (natStr_allDigits n), ppFlag_digits _ (natStr_allDigits n) (natStr_ne_nil n)]
    simp [(sfxStr_pp u l hl).1]
  · rw [ppFlag_append _ _ _ (ppAll_digits _ (natStr_allDigits n)), ppFlag_digits _ (natStr_allDigits n) (natStr_ne_nil n)]
    exact (sfxStr_pp u l hl).2

theorem lexNum_frac {ip fp : Str} (hip : AllDigits ip) (hfp : AllDigits fp) (hne : fp ≠ []) {rest : Str}
    (hr : safeEnd rest = true) :
    lexNum (ip ++ '.' :: (fp ++ rest)) = some (.flt (digitsVal (ip ++ fp)) (-(fp.length : Int)) .none, rest) := by
  have hraw := lexNumRaw_frac hip hfp (rest := []) rfl
  rw [List.append_nil] at hraw
  have e : ip ++ '.' :: (fp ++ rest) = (ip ++ '.' :: fp) ++ rest := by simp
  rw [e]
  apply lexNum_of_raw _ _ hr hraw
  · rw [ppAll_append, ppAll_digits _ hip]
    simp only [Bool.true_and, ppAll]
    exact ppAll_digits _ hfp
  · rw [ppFlag_append _ _ _ (ppAll_digits _ hip)]
    simp only [ppFlag]
    exact ppFlag_digits _ hfp hne

/-! ### the token stream -/

theorem digit_not_punct {c : Char} (h : c.isDigit = true) :
    c ≠ ' ' ∧ c ≠ '(' ∧ c ≠ ')' ∧ c ≠ '-' ∧ c ≠ '/' ∧ c ≠ '<' ∧ c ≠ '>' := by
  refine ⟨?_, ?_, ?_, ?_, ?_, ?_, ?_⟩ <;> (intro e; subst e; revert h; decide)

/-- a number token at the head of the input -/
theorem lex_num {f : Nat} {cs : Str} {t : Tok} {rest : Str} (hd : ∃ c r, cs = c :: r ∧ c.isDigit = true)
    (h : lexNum cs = some (t, rest)) : lex (f + 1) cs = (lex f rest).map (t :: ·) := by
  obtain ⟨c, r, rfl, hc⟩ := hd
  obtain ⟨h1, h2, h3, h4, h5, h6, h7⟩ := digit_not_punct hc
  simp only [lex, h1, h2, h3, h4, h5, h6, h7, if_false, hc, if_true, h]

theorem lex_space (f : Nat) (cs : Str) : lex (f + 1) (' ' :: cs) = lex f cs := by simp [lex]
theorem lex_lp (f : Nat) (cs : Str) : lex (f + 1) ('(' :: cs) = (lex f cs).map (Tok.lp :: ·) := by simp [lex]
theorem lex_rp (f : Nat) (cs : Str) : lex (f + 1) (')' :: cs) = (lex f cs).map (Tok.rp :: ·) := by simp [lex]
theorem lex_minus (f : Nat) (cs : Str) : lex (f + 1) ('-' :: cs) = (lex f cs).map (Tok.minus :: ·) := by simp [lex]
theorem lex_slash (f : Nat) (cs : Str) : lex (f + 1) ('/' :: cs) = (lex f cs).map (Tok.slash :: ·) := by simp [lex]
theorem lex_lt (f : Nat) (cs : Str) : lex (f + 1) ('<' :: cs) = (lex f cs).map (Tok.lt :: ·) := by simp [lex]
theorem lex_gt (f : Nat) (cs : Str) : lex (f + 1) ('>' :: cs) = (lex f cs).map (Tok.gt :: ·) := by simp [lex]
theorem lex_nil (f : Nat) : lex (f + 1) [] = some [] := rfl

/-- a number token whose text starts with the digits of `n` -/
theorem lex_natStr {f : Nat} (n : Nat) (tail : Str) {t : Tok} {rest : Str}
    (h : lexNum (natStr n ++ tail) = some (t, rest)) :
    lex (f + 1) (natStr n ++ tail) = (lex f rest).map (t :: ·) := by
  apply lex_num _ h
  obtain ⟨c, cs, e, hc⟩ := natStr_cons n
  exact ⟨c, cs ++ tail, by rw [e]; rfl, hc⟩

end NunavutVerif.CLiteral
