import NunavutVerif.Lemmas.GenCppPrim
/-!
GenCpp refinement, part 2: the generated C++ serializer refines `serBits`, for every type — nested calls on
`subspan` windows, the delimiter header written after the nested call, the function skeleton, the element loop,
struct fields, union options, and the structural induction over `Ty`.
-/
namespace NunavutVerif.GenCpp
open NunavutVerif.Dsdl NunavutVerif.Bits
open NunavutVerif.GenC (AOff resBits W liftP eTooSmall eBadArrayLength eBadUnionTag eBadDelimiterHeader
  satInt isStd storW floatBits serLoop deLoop trivVal trivVals trivHead padDe
  Wrote SerStep SerRefines embedS gb bitsOf lowBits satV Rel storageOK storageOKFields storageOKNth wfC wfCAll
  map_ok' map_error')
open NunavutVerif.GenC.AOff (Adm Sums SumsEq adm_zero adm_single adm_add adm_congr adm_pad sums_zero sums_step
  sums_mono adm_rangeRep_zero)

/-- contract of a generated function `serialize(obj, out_buffer)` whose specification is `spec` and whose up-front
check is against `maxB`: on any span (cursor 0) that passes the check it writes `spec` from bit 0 and returns its
size in bytes -/
def FnOK (inner : Buf → Nat → Except Err W) (spec : Except SerErr (List Bool)) (maxB : Nat) : Prop :=
  ∀ sub, WF sub → maxB ≤ 8 * sub.length →
    match spec with
    | .ok bits => bits.length % 8 = 0 ∧ ∃ sub', inner sub 0 = .ok (sub', bits.length / 8) ∧ Wrote sub sub' 0 bits
    | .error e => inner sub 0 = .error (embedS e)

/-! ### `subspan` windows -/

theorem wrote_window {data sub' : Buf} {k nb : Nat} {bits : List Bool} (hk : k + nb ≤ data.length)
    (hb : bits.length ≤ 8 * nb) (h : Wrote ((data.drop k).take nb) sub' 0 bits) :
    Wrote data (data.take k ++ sub' ++ data.drop (k + nb)) (8 * k) bits := by
  have hlen := h.len
  simp only [List.length_take, List.length_drop] at hlen
  have hsl : sub'.length = nb := by omega
  have htl : (data.take k).length = k := by simp [List.length_take]; omega
  refine ⟨?_, ?_, ?_, ?_⟩
  · simp only [List.length_append, htl, hsl, List.length_drop]; omega
  · intro hw
    exact GenC.WF_append (GenC.WF_append (GenC.WF_take hw k) (h.wf (GenC.WF_take (GenC.WF_drop hw k) nb)))
      (GenC.WF_drop hw _)
  · intro i hi
    rw [GenC.bitAt_append, GenC.bitAt_append, htl]
    simp only [List.length_append, htl, hsl]
    rw [if_pos (by omega), if_pos hi, GenC.bitAt_take]
    have : i / 8 < k := by omega
    simp [this]
  · intro i hi
    rw [GenC.bitAt_append, GenC.bitAt_append, htl]
    simp only [List.length_append, htl, hsl]
    rw [if_pos (by omega), if_neg (by omega)]
    have e : 8 * k + i - 8 * k = i := by omega
    rw [e]
    simpa using h.new i hi

/-! ### `_serialize_composite` -/

theorem nestedSer_refines (o : Opts) (inner : Buf → Nat → Except Err W)
    (spec : Except SerErr (List Bool)) (isDelim : Bool) (minB maxB : Nat)
    (hfn : FnOK inner spec maxB) (hm : maxB % 8 = 0)
    (hlen : ∀ bits, spec = .ok bits → minB ≤ bits.length ∧ bits.length ≤ maxB)
    (data : Buf) (off : Nat) (hw : WF data) (hal : off % 8 = 0)
    (hroom : off + (if isDelim then 32 else 0) + maxB ≤ 8 * data.length) :
    SerRefines (nestedSer o inner isDelim minB maxB data off)
      (if isDelim then spec.map (fun bs => natToBits 32 (bs.length / 8) ++ bs) else spec) data off := by
  have hsz : (maxB + 7) / 8 * 8 = maxB := by omega
  generalize hB : (if isDelim = true then 32 else 0) = B at hroom
  have hB8 : B % 8 = 0 := by cases isDelim <;> simp at hB <;> omega
  obtain ⟨first, nbytes, noff, hsub, h1, h2, h3, h4⟩ :=
    (Cpp.subspan_spec ⟨data, off⟩ B ((maxB + 7) / 8 * 8)).2 (by simp only; omega)
  simp only at h1 h3 h4
  have hnoff : noff = 0 := by omega
  subst hnoff
  have hfirst : 8 * first = off + B := by omega
  have hnb : 8 * nbytes = maxB := by omega
  unfold nestedSer
  simp only [hB, hsub, ne_eq, not_true_eq_false, if_false]
  rw [assertX_ok o trivial]
  have hwl : ((data.drop first).take nbytes).length = nbytes := by
    simp only [List.length_take, List.length_drop]; omega
  have hsubc := hfn ((data.drop first).take nbytes) (GenC.WF_take (GenC.WF_drop hw _) _) (by rw [hwl]; omega)
  cases spec with
  | error e =>
    simp only at hsubc
    cases isDelim <;> simp only [SerRefines, map_error', if_true, Bool.false_eq_true, if_false, hsubc]
  | ok bits =>
    simp only at hsubc
    obtain ⟨h8, sub', hin, hwr⟩ := hsubc
    have hl := hlen bits rfl
    rw [hin]
    dsimp only
    rw [assertX_ok o (show minB ≤ bits.length / 8 * 8 ∧ bits.length / 8 * 8 ≤ maxB by omega)]
    have hwin := wrote_window (data := data) (k := first) (nb := nbytes) h3 (by omega) hwr
    rw [hfirst] at hwin
    cases isDelim with
    | false =>
      simp only [Bool.false_eq_true, if_false] at hB ⊢
      subst hB
      simp only [SerRefines]
      refine ⟨data.take first ++ sub' ++ data.drop (first + nbytes), ?_, by simpa using hwin⟩
      rw [show bits.length / 8 * 8 = bits.length by omega]
    | true =>
      simp only [if_true] at hB ⊢
      subst hB
      simp only [SerRefines, map_ok']
      have hd1 := hwin.len
      rw [Cpp.setUxx_eq]
      obtain ⟨r, hr, hl', hwf, hbits⟩ := setUxx_spec false (data.take first ++ sub' ++ data.drop (first + nbytes))
        (data.take first ++ sub' ++ data.drop (first + nbytes)).length off (bits.length / 8) 32 (Nat.le_refl _)
        (by rw [hd1]; omega)
      simp only [hr, chkX_ok]
      refine ⟨r, ?_, ?_⟩
      · simp only [List.length_append, natToBits_length]; congr 2; omega
      · apply GenC.patch_wrote (by simp) hwin hl' hwf
        intro i
        rw [hbits i]
        by_cases hA : off ≤ i ∧ i < off + 32
        · rw [if_pos (by omega), if_pos hA, GenC.gb_natToBits]
          have : i - off < 32 := by omega
          simp [this]
        · rw [if_neg (by omega), if_neg hA]

/-! ### the function skeleton -/

theorem topSer_fnOK (o : Opts) (minB maxB : Nat) (body : Buf → Nat → Except Err W)
    (specBody : Except SerErr (List Bool))
    (hbody : ∀ sub, WF sub → maxB ≤ 8 * sub.length → SerRefines (body sub 0) specBody sub 0)
    (hlen : ∀ bits, specBody = .ok bits → minB ≤ padTo 8 bits.length ∧ padTo 8 bits.length ≤ maxB)
    (h0 : maxB = 0 → specBody = .ok []) :
    FnOK (topSer o minB maxB body) (specBody.map fun bs => bs ++ zeros (padLen 8 bs.length)) maxB := by
  intro sub hw hmx
  unfold topSer
  by_cases hz : maxB = 0
  · rw [h0 hz]
    simp only [hz, if_true, map_ok']
    refine ⟨by simp [padLen, zeros], sub, ?_, ?_⟩
    · simp [padLen, zeros]
    · simpa [padLen, zeros] using Wrote.refl sub 0
  · have hsize : ¬ Cpp.Span.size ⟨sub, 0⟩ < maxB := by rw [Cpp.size_eq]; simp only; omega
    simp only [hz, if_false, hsize]
    rw [assertX_ok o trivial]
    have hb := hbody sub hw hmx
    cases specBody with
    | error e =>
      simp only [SerRefines] at hb
      simp only [map_error', hb]
    | ok bits =>
      simp only [SerRefines] at hb
      obtain ⟨b1, hb1, hw1⟩ := hb
      have hl := hlen bits rfl
      obtain ⟨b2, hb2, hw2⟩ := padSer_wrote 8 b1 (0 + bits.length) (Or.inr rfl)
        (by rw [hw1.len]; simp only [Nat.zero_add]; omega)
      have hp8 : (bits.length + padLen 8 bits.length) % 8 = 0 := by
        have := padTo_mod (a := 8) (Or.inr rfl) bits.length
        simpa [padTo] using this
      simp only [Nat.zero_add, zeros_length] at hb2
      simp only [map_ok', hb1, Nat.zero_add, hb2]
      rw [assertX_ok o (show minB ≤ bits.length + padLen 8 bits.length ∧ bits.length + padLen 8 bits.length ≤ maxB by
          simpa [padTo] using hl), assertX_ok o hp8]
      refine ⟨by simpa using hp8, b2, ?_, ?_⟩
      · simp only [List.length_append, zeros_length, offsetBytesCeil]
        congr 2; omega
      · have := hw1.trans hw2
        simpa using this

/-! ### the per-type statements -/

/-- `_serialize_any` for type `t` refines the specification at every position that has room for `t`. -/
def SerOKX (o : Opts) (t : Ty) : Prop :=
  wf t = true → wfC t = true → ∀ v d data off, hasTy t v = true → storageOK t v = true → WF data →
    off + maxBits t ≤ 8 * data.length → Adm d off → off % align t = 0 →
    SerRefines (serAny o t v d data off) (serBits t v) data off

/-- the generated function of a composite `t` refines the specification -/
def FnOKX (o : Opts) (t : Ty) : Prop :=
  wf t = true → wfC t = true → isComposite t = true → ∀ v, hasTy t v = true → storageOK t v = true →
    FnOK (serFn o t v) (serBits t v) (maxBits t)

def SerP (o : Opts) (t : Ty) : Prop := SerOKX o t ∧ FnOKX o t

theorem wfC_topInner {t : Ty} (h : wfC t = true) : wfC (topInner t) = true := by
  cases t <;> simp_all [topInner, wfC]

theorem hasTy_topInner {t : Ty} {v : Val} (h : hasTy t v = true) : hasTy (topInner t) v = true := by
  cases t <;> simp_all [topInner, hasTy]

theorem storageOK_topInner {t : Ty} {v : Val} (hw : wf t = true) (h : storageOK t v = true) :
    storageOK (topInner t) v = true := by
  cases t with
  | delim e inner =>
    simp only [wf, Bool.and_eq_true] at hw
    have hc := hw.1.1
    cases inner <;> simp [isComposite] at hc <;> simpa [topInner, storageOK] using h
  | _ => simpa [topInner] using h

section
set_option linter.unusedSectionVars false
variable (o : Opts) (hs : o.Sound)
include hs

/-! ### the element loop -/

theorem serLoop_refines (t : Ty) (hT : SerOKX o t) (hw : wf t = true) (hwC : wfC t = true)
    (d0 R : AOff) (off0 K : Nat) (hd0 : Adm d0 off0) (hR : ∀ x, Sums (resBits t) K x → Adm R x) :
    ∀ (vs : List Val) (data : Buf) (off j x : Nat), (∀ v ∈ vs, hasTy t v = true ∧ storageOK t v = true) → WF data →
      off + vs.length * maxBits t ≤ 8 * data.length → off % align t = 0 → off = off0 + x →
      Sums (resBits t) j x → j + vs.length ≤ K + 1 →
      SerRefines (serLoop (fun v b f => anyGuardS o t (d0.add R) b f (serAny o t v (d0.add R) b f)) vs data off)
        (serAllWith (serBits t) vs) data off := by
  intro vs
  induction vs with
  | nil =>
    intro data off j x _ _ _ _ _ _ _
    simp only [serLoop, serAllWith, SerRefines]
    exact ⟨data, by simp, Wrote.refl data off⟩
  | cons v vs ih =>
    intro data off j x hall hwf hroom hal hoff hsum hjk
    simp only [List.length_cons] at hroom hjk
    have hadm : Adm (d0.add R) off := by
      rw [hoff]; exact adm_add hd0 (hR x (sums_mono hsum (by omega)))
    have hv := hall v (by simp)
    have hroom1 : off + maxBits t ≤ 8 * data.length := by rw [Nat.succ_mul] at hroom; omega
    have h1 := hT hw hwC v (d0.add R) data off hv.1 hv.2 hwf hroom1 hadm hal
    simp only [serLoop, serAllWith]
    rw [anyGuardS_ok o hs t _ _ _ _ hal hadm hroom1]
    cases hsv : serBits t v with
    | error e =>
      rw [hsv] at h1
      simp only [SerRefines] at h1 ⊢
      rw [h1]
    | ok a =>
      rw [hsv] at h1
      simp only [SerRefines] at h1
      obtain ⟨b1, hb1, hw1⟩ := h1
      have hlen := lenOK t hw v a hsv
      have hres := GenC.resOK t hw v a hsv
      have h2 := ih b1 (off + a.length) (j + 1) (x + a.length) (fun w hw' => hall w (List.mem_cons_of_mem _ hw'))
        (hw1.wf hwf) (by rw [hw1.len]; rw [Nat.succ_mul] at hroom; omega)
        (by rcases align_cases t with e | e <;> rw [e] at hal hlen ⊢ <;> omega) (by omega)
        (sums_step hsum hres) (by omega)
      rw [hb1]
      dsimp only
      cases hsa : serAllWith (serBits t) vs with
      | error e =>
        rw [hsa] at h2
        simp only [SerRefines] at h2 ⊢
        rw [h2]
      | ok b =>
        rw [hsa] at h2
        simp only [SerRefines] at h2 ⊢
        exact SerStep.trans hw1 h2

/-! ### struct fields and union options -/

theorem serFields_refines : ∀ fs : List Ty, (∀ f ∈ fs, SerOKX o f) → wfAll fs = true → wfCAll fs = true →
    ∀ (vs : List Val) (first : Bool) (d : AOff) (data : Buf) (off : Nat),
      hasTyFields fs vs = true → storageOKFields fs vs = true → WF data →
      maxFields fs off ≤ 8 * data.length → Adm d off → (first = true → off = 0) →
      SerRefines (GenCpp.serFields o fs vs first d data off) (Dsdl.serFields fs vs off) data off := by
  intro fs
  induction fs with
  | nil =>
    intro _ _ _ vs first d data off ht _ _ _ _ _
    cases vs with
    | nil =>
      simp only [GenCpp.serFields, Dsdl.serFields, SerRefines]
      exact ⟨data, by simp, Wrote.refl data off⟩
    | cons v vs => simp [hasTyFields] at ht
  | cons f fs ih =>
    intro hT hw hwC vs first d data off ht hst hwf hroom hd hfirst
    cases vs with
    | nil => simp [hasTyFields] at ht
    | cons v vs =>
      simp only [hasTyFields, Bool.and_eq_true] at ht
      simp only [storageOKFields, Bool.and_eq_true] at hst
      simp only [wfAll, Bool.and_eq_true] at hw
      simp only [wfCAll, Bool.and_eq_true] at hwC
      simp only [maxFields] at hroom
      have hge := GenC.maxFields_ge fs (padTo (align f) off + maxBits f)
      -- padding before the field
      have hpad : ∃ b0, (if first = true then (Except.ok (data, off) : Except Err W) else padSer (align f) data off)
          = .ok (b0, padTo (align f) off) ∧ Wrote data b0 off (zeros (padLen (align f) off)) := by
        cases first with
        | true =>
          have h0 := hfirst rfl
          subst h0
          have : padLen (align f) 0 = 0 := by rcases align_cases f with e | e <;> rw [e] <;> rfl
          simp only [if_true, padTo, this, zeros, List.replicate_zero]
          exact ⟨data, rfl, Wrote.refl data 0⟩
        | false =>
          obtain ⟨b0, hb0, hw0⟩ := padSer_wrote (align f) data off (align_cases f) (by omega)
          simp only [zeros_length] at hb0
          exact ⟨b0, by simpa [padTo] using hb0, hw0⟩
      obtain ⟨b0, hb0, hw0⟩ := hpad
      have hroom1 : padTo (align f) off + maxBits f ≤ 8 * b0.length := by rw [hw0.len]; omega
      have h1 := hT f (by simp) hw.1 hwC.1 v (d.pad (align f)) b0 (padTo (align f) off) ht.1 hst.1 (hw0.wf hwf)
        hroom1 (adm_pad (align_cases f) hd) (padTo_mod (align_cases f) off)
      simp only [GenCpp.serFields, Dsdl.serFields, hb0]
      rw [anyGuardS_ok o hs f _ _ _ _ (padTo_mod (align_cases f) off) (adm_pad (align_cases f) hd) hroom1]
      cases hsv : serBits f v with
      | error e =>
        rw [hsv] at h1
        simp only [SerRefines] at h1 ⊢
        rw [h1]
      | ok a =>
        rw [hsv] at h1
        simp only [SerRefines] at h1
        obtain ⟨b1, hb1, hw1⟩ := h1
        have hlen := lenOK f hw.1 v a hsv
        have hres := GenC.resOK f hw.1 v a hsv
        have h2 := ih (fun g hg => hT g (List.mem_cons_of_mem _ hg)) hw.2 hwC.2 vs false
          ((d.pad (align f)).add (resBits f)) b1 (padTo (align f) off + a.length) ht.2 hst.2 (hw1.wf (hw0.wf hwf))
          (by
            rw [hw1.len, hw0.len]
            have := maxFields_mono fs (by omega : padTo (align f) off + a.length ≤ padTo (align f) off + maxBits f)
            omega)
          (adm_add (adm_pad (align_cases f) hd) hres) (by intro h; cases h)
        rw [hb1]
        dsimp only
        cases hsa : Dsdl.serFields fs vs (padTo (align f) off + a.length) with
        | error e =>
          rw [hsa] at h2
          simp only [SerRefines] at h2 ⊢
          rw [h2]
        | ok b =>
          rw [hsa] at h2
          simp only [SerRefines] at h2 ⊢
          have hw01 : Wrote data b1 off (zeros (padLen (align f) off) ++ a) := by
            apply hw0.trans
            simpa [padTo] using hw1
          generalize GenCpp.serFields o fs vs false ((d.pad (align f)).add (resBits f)) b1
            (padTo (align f) off + a.length) = r at h2 ⊢
          have e : padTo (align f) off + a.length = off + (zeros (padLen (align f) off) ++ a).length := by
            simp [padTo]; omega
          rw [e] at h2
          have := SerStep.trans hw01 h2
          simpa [List.append_assoc] using this

theorem serNth_bad : ∀ (fs : List Ty) (k : Nat) (v : Val) (d : AOff) (data : Buf) (off : Nat),
    k ≥ fs.length → GenCpp.serNth o fs k v d data off = .error eBadUnionTag := by
  intro fs
  induction fs with
  | nil => intro k v d data off _; simp [GenCpp.serNth]
  | cons f fs ih =>
    intro k v d data off hk
    cases k with
    | zero => simp at hk
    | succ k =>
      simp only [GenCpp.serNth]
      exact ih k v d data off (by simpa using hk)

theorem serNth_refines : ∀ fs : List Ty, (∀ f ∈ fs, SerOKX o f) → wfAll fs = true → wfCAll fs = true →
    ∀ (k : Nat) (v : Val) (d : AOff) (data : Buf) (off : Nat),
      hasTyNth fs k v = true → storageOKNth fs k v = true → WF data →
      off + maxOpts fs ≤ 8 * data.length → Adm d off → off % 8 = 0 →
      SerRefines (GenCpp.serNth o fs k v d data off) (Dsdl.serNth fs k v) data off := by
  intro fs
  induction fs with
  | nil =>
    intro _ _ _ k v d data off _ _ _ _ _ _
    simp [GenCpp.serNth, Dsdl.serNth, SerRefines, embedS]
  | cons f fs ih =>
    intro hT hw hwC k v d data off ht hst hwf hroom hd hal
    simp only [wfAll, Bool.and_eq_true] at hw
    simp only [wfCAll, Bool.and_eq_true] at hwC
    simp only [maxOpts] at hroom
    cases k with
    | zero =>
      simp only [hasTyNth] at ht
      simp only [storageOKNth] at hst
      simp only [GenCpp.serNth, Dsdl.serNth]
      rw [anyGuardS_ok o hs f _ _ _ _ (GenC.align_mod_of_mod8 f hal) hd (by omega)]
      exact hT f (by simp) hw.1 hwC.1 v d data off ht hst hwf (by omega) hd (GenC.align_mod_of_mod8 f hal)
    | succ k =>
      simp only [hasTyNth] at ht
      simp only [storageOKNth] at hst
      simp only [GenCpp.serNth, Dsdl.serNth]
      exact ih (fun g hg => hT g (List.mem_cons_of_mem _ hg)) hw.2 hwC.2 k v d data off ht hst hwf
        (by omega) hd hal

/-! ### the induction over the type -/

theorem fnOKX_noncomposite {t : Ty} (h : isComposite t = false) : FnOKX o t := by
  intro _ _ hc; rw [h] at hc; cases hc

theorem serP_struct (fs : List Ty) (ih : ∀ f ∈ fs, SerP o f) : SerP o (.struct fs) := by
  have hfn : FnOKX o (.struct fs) := by
    intro hw hwC _ v ht hst
    simp only [wf] at hw
    simp only [wfC] at hwC
    cases v with
    | struct vs =>
      simp only [hasTy] at ht
      simp only [storageOK] at hst
      have e : serFn o (.struct fs) (.struct vs) =
          topSer o (minBits (.struct fs)) (maxBits (.struct fs))
            (fun b f => GenCpp.serFields o fs vs true AOff.zero b f) := by
        funext b c; simp only [serFn]
      rw [e]
      have hspec : serBits (.struct fs) (.struct vs) =
          (Dsdl.serFields fs vs 0).map fun bs => bs ++ zeros (padLen 8 bs.length) := by simp only [serBits]
      rw [hspec]
      have hpg := padTo_ge 8 (maxFields fs 0)
      apply topSer_fnOK
      · intro sub hwf hmx
        simp only [maxBits] at hmx
        exact serFields_refines o hs fs (fun f hf => (ih f hf).1) hw hwC vs true AOff.zero sub 0 ht hst hwf
          (by omega) (adm_zero rfl) (fun _ => rfl)
      · intro bits hb
        have := lenOK (.struct fs) (by simpa [wf] using hw) (.struct vs) (bits ++ zeros (padLen 8 bits.length))
          (by simp only [serBits, hb, map_ok'])
        simp only [List.length_append, zeros_length] at this
        simp only [padTo]
        exact ⟨this.1, this.2.1⟩
      · intro h0
        simp only [maxBits] at h0
        exact GenC.serFields_triv fs (fun f _ => GenC.trivOK f) hw hwC vs 0 ht (by omega)
    | _ => simp [hasTy] at ht
  refine ⟨?_, hfn⟩
  intro hw hwC v d data off ht hst hwf hroom hd hal
  have hf := hfn hw hwC rfl v ht hst
  cases v with
  | struct vs =>
    have e : serAny o (.struct fs) (.struct vs) d data off =
        nestedSer o (serFn o (.struct fs) (.struct vs)) false (minBits (.struct fs))
          (maxBits (.struct fs)) data off := by
      simp only [serAny, serFn]
    rw [e]
    simp only [align] at hal
    exact nestedSer_refines o _ _ false _ _ hf (GenC.maxBits_composite_mod8 rfl)
      (fun bits hb => ⟨(lenOK _ hw _ bits hb).1, (lenOK _ hw _ bits hb).2.1⟩)
      data off hwf hal (by simpa using hroom)
  | _ => simp [hasTy] at ht

theorem serP_union (fs : List Ty) (ih : ∀ f ∈ fs, SerP o f) : SerP o (.union fs) := by
  have hfn : FnOKX o (.union fs) := by
    intro hw hwC _ v ht hst
    simp only [wf, Bool.and_eq_true, decide_eq_true_eq] at hw
    simp only [wfC] at hwC
    cases v with
    | union k v =>
      simp only [hasTy] at ht
      simp only [storageOK] at hst
      have e : serFn o (.union fs) (.union k v) =
          topSer o (minBits (.union fs)) (maxBits (.union fs)) (fun b f =>
            match serInt false (tagBits fs.length) false (k : Int) b f with
            | .error e => .error e
            | .ok (b, f) => GenCpp.serNth o fs k v (AOff.single (tagBits fs.length)) b f) := by
        funext b c; simp only [serFn] <;> rfl
      rw [e]
      have hspec : serBits (.union fs) (.union k v) =
          (if k ≥ fs.length then (.error .badUnionTag : Except SerErr (List Bool))
            else (Dsdl.serNth fs k v).map (natToBits (tagBits fs.length) k ++ ·)).map
            fun bs => bs ++ zeros (padLen 8 bs.length) := by
        simp only [serBits]
        by_cases hk : k ≥ fs.length
        · simp only [hk, if_true, map_error']
        · simp only [hk, if_false]
          cases Dsdl.serNth fs k v <;> rfl
      rw [hspec]
      have htb := GenC.tagBits_cases fs.length
      have hpg := padTo_ge 8 (tagBits fs.length + maxOpts fs)
      apply topSer_fnOK
      · intro sub hwf hmx
        simp only [maxBits] at hmx
        obtain ⟨b1, hb1, hw1⟩ := serInt_nat_wrote (tagBits fs.length) k sub 0 (by omega) (by omega)
        simp only [natToBits_length, Nat.zero_add] at hb1
        rw [hb1]
        dsimp only
        by_cases hk : k ≥ fs.length
        · simp only [hk, if_true, SerRefines]
          rw [serNth_bad o hs fs k v _ _ _ hk]; rfl
        · simp only [hk, if_false]
          have h2 := serNth_refines o hs fs (fun f hf => (ih f hf).1) hw.2 hwC k v (AOff.single (tagBits fs.length))
            b1 (tagBits fs.length) ht hst (hw1.wf hwf) (by rw [hw1.len]; omega) (adm_single _) (by omega)
          cases hsn : Dsdl.serNth fs k v with
          | error e =>
            rw [hsn] at h2
            simp only [SerRefines, map_error'] at h2 ⊢
            exact h2
          | ok bs =>
            rw [hsn] at h2
            simp only [SerRefines, map_ok'] at h2 ⊢
            have := SerStep.trans hw1 (by simpa using h2)
            exact this
      · intro bits hb
        have hwu : wf (.union fs) = true := by simpa [wf] using hw
        have := lenOK (.union fs) hwu (.union k v) (bits ++ zeros (padLen 8 bits.length))
          (by rw [hspec, hb, map_ok'])
        simp only [List.length_append, zeros_length] at this
        simp only [padTo]
        exact ⟨this.1, this.2.1⟩
      · intro h0
        simp only [maxBits] at h0
        omega
    | _ => simp [hasTy] at ht
  refine ⟨?_, hfn⟩
  intro hw hwC v d data off ht hst hwf hroom hd hal
  have hf := hfn hw hwC rfl v ht hst
  cases v with
  | union k v =>
    have e : serAny o (.union fs) (.union k v) d data off =
        nestedSer o (serFn o (.union fs) (.union k v)) false (minBits (.union fs))
          (maxBits (.union fs)) data off := by
      simp only [serAny, serFn]
    rw [e]
    simp only [align] at hal
    exact nestedSer_refines o _ _ false _ _ hf (GenC.maxBits_composite_mod8 rfl)
      (fun bits hb => ⟨(lenOK _ hw _ bits hb).1, (lenOK _ hw _ bits hb).2.1⟩)
      data off hwf hal (by simpa using hroom)
  | _ => simp [hasTy] at ht

theorem serP (t : Ty) : SerP o t := by
  refine Ty.ind (P := SerP o) ?_ ?_ ?_ ?_ ?_ ?_ ?_ ?_ ?_ ?_ t
  · -- uint
    intro n m
    refine ⟨?_, fnOKX_noncomposite o hs rfl⟩
    intro hw hwC v d data off ht hst hwf hroom hd hal
    simp only [wf, decide_eq_true_eq] at hw
    cases v <;> simp [hasTy] at ht
    rename_i i
    simp only [storageOK, decide_eq_true_eq] at hst
    simp only [maxBits] at hroom
    simp only [serAny, serBits, SerRefines]
    rw [GenC.castU_eq_lowBits n m i hst.1 hst.2]
    exact serInt_wrote false n (m == .sat) i data off hw.2 hroom
  · -- sint
    intro n m
    refine ⟨?_, fnOKX_noncomposite o hs rfl⟩
    intro hw hwC v d data off ht hst hwf hroom hd hal
    simp only [wf, decide_eq_true_eq] at hw
    cases v <;> simp [hasTy] at ht
    rename_i i
    simp only [storageOK, decide_eq_true_eq] at hst
    simp only [maxBits] at hroom
    simp only [serAny, serBits, SerRefines]
    rw [GenC.castS_eq_lowBits n m i hst.1 hst.2]
    exact serInt_wrote true n (m == .sat) i data off hw.2 hroom
  · -- float
    intro n m
    refine ⟨?_, fnOKX_noncomposite o hs rfl⟩
    intro hw hwC v d data off ht hst hwf hroom hd hal
    simp only [wf, decide_eq_true_eq] at hw
    cases v <;> simp [hasTy] at ht
    rename_i x
    simp only [storageOK, decide_eq_true_eq] at hst
    simp only [maxBits] at hroom
    simp only [serAny, serBits, SerRefines]
    rw [← GenC.floatBits_eq_narrow hw m x ht hst]
    exact serFloat_wrote n m x data off hw hroom
  · -- bool
    refine ⟨?_, fnOKX_noncomposite o hs rfl⟩
    intro hw hwC v d data off ht hst hwf hroom hd hal
    cases v <;> simp [hasTy] at ht
    rename_i b
    simp only [maxBits] at hroom
    simp only [serAny, serBits, SerRefines]
    exact serBool_wrote b data off hroom
  · -- void
    intro n
    refine ⟨?_, fnOKX_noncomposite o hs rfl⟩
    intro hw hwC v d data off ht hst hwf hroom hd hal
    cases v <;> simp [hasTy] at ht
    simp only [maxBits] at hroom
    simp only [serAny, serBits, SerRefines]
    exact serVoid_wrote n data off hroom
  · -- fixed array
    intro t n ih
    refine ⟨?_, fnOKX_noncomposite o hs rfl⟩
    intro hw hwC v d data off ht hst hwf hroom hd hal
    simp only [wf] at hw
    simp only [wfC, Bool.and_eq_true] at hwC
    cases v with
    | arr vs =>
      simp only [hasTy, Bool.and_eq_true, beq_iff_eq, List.all_eq_true] at ht
      simp only [storageOK, List.all_eq_true] at hst
      simp only [maxBits] at hroom
      simp only [align] at hal
      simp only [serAny, serBits, ht.1, if_true]
      have hl := serLoop_refines o hs t ih.1 hw hwC.2 d (AOff.rangeRep (resBits t) (n - 1) AOff.zero) off (n - 1) hd
        (fun x hx => adm_rangeRep_zero hx) vs data off 0 0 (fun v hv => ⟨ht.2 v hv, hst v hv⟩) hwf
        (by rw [ht.1]; exact hroom) hal rfl (sums_zero _ _) (by omega)
      cases hsa : serAllWith (serBits t) vs with
      | error e =>
        rw [hsa] at hl
        simp only [SerRefines] at hl ⊢
        rw [hl]
      | ok bits =>
        rw [hsa] at hl
        simp only [SerRefines] at hl ⊢
        obtain ⟨b1, hb1, hw1⟩ := hl
        rw [hb1]
        dsimp only
        have := serAll_len (fun v bs h => lenOK t hw v bs h) vs bits hsa
        rw [assertX_ok o (show n * minBits t ≤ off + bits.length - off ∧ off + bits.length - off ≤ n * maxBits t by
          rw [Nat.add_sub_cancel_left, ← ht.1]; exact ⟨this.1, this.2.1⟩)]
        exact ⟨b1, rfl, hw1⟩
    | _ => simp [hasTy] at ht
  · -- variable array
    intro t c ih
    refine ⟨?_, fnOKX_noncomposite o hs rfl⟩
    intro hw hwC v d data off ht hst hwf hroom hd hal
    simp only [wf, Bool.and_eq_true, decide_eq_true_eq] at hw
    simp only [wfC] at hwC
    cases v with
    | arr vs =>
      simp only [hasTy, List.all_eq_true] at ht
      simp only [storageOK, Bool.and_eq_true, decide_eq_true_eq, List.all_eq_true] at hst
      simp only [maxBits] at hroom
      simp only [align] at hal
      simp only [serAny, serBits]
      by_cases hlen : vs.length > c
      · simp [hlen, SerRefines, embedS]
      · simp only [hlen, if_false]
        have hp := GenC.prefixBits_cases c
        -- the length prefix
        obtain ⟨b1, hb1, hw1⟩ := serInt_nat_wrote (prefixBits c) vs.length data off (by omega) (by omega)
        simp only [natToBits_length] at hb1
        rw [hb1]
        dsimp only
        rw [assertX_ok o (fun ho => hs.aligned (adm_add hd (adm_single (prefixBits c))) ho)]
        have hmul : vs.length * maxBits t ≤ c * maxBits t := Nat.mul_le_mul_right _ (by omega)
        have h2 := serLoop_refines o hs t ih.1 hw.2 hwC d (resBits (.varr t c)) (off + prefixBits c) c
          (adm_congr (by omega) hd)
          (fun x hx => by simpa [resBits] using adm_rangeRep_zero hx) vs b1 (off + prefixBits c) 0 0
          (fun v hv => ⟨ht v hv, hst.2 v hv⟩) (hw1.wf hwf) (by rw [hw1.len]; omega)
          (by rcases align_cases t with e | e <;> rw [e] at hal ⊢ <;> omega) rfl
          (sums_zero _ _) (by omega)
        cases hsa : serAllWith (serBits t) vs with
        | error e =>
          rw [hsa] at h2
          simp only [SerRefines, map_error'] at h2 ⊢
          exact h2
        | ok bs =>
          rw [hsa] at h2
          simp only [SerRefines, map_ok'] at h2 ⊢
          exact SerStep.trans hw1 (by simpa using h2)
    | _ => simp [hasTy] at ht
  · exact fun fs ih => serP_struct o hs fs ih
  · exact fun fs ih => serP_union o hs fs ih
  · -- delimited
    intro ext inner ih
    refine ⟨?_, fnOKX_noncomposite o hs rfl⟩
    intro hw hwC v d data off ht hst hwf hroom hd hal
    simp only [wf, Bool.and_eq_true, decide_eq_true_eq] at hw
    simp only [wfC] at hwC
    obtain ⟨⟨hcomp, hext⟩, hwi⟩ := hw
    have hti : hasTy inner v = true := by simpa [hasTy] using ht
    have hsti : storageOK inner v = true := by
      cases inner <;> simp [isComposite] at hcomp <;> simpa [storageOK] using hst
    have hf := ih.2 hwi hwC hcomp v hti hsti
    have e : serAny o (.delim ext inner) v d data off =
        nestedSer o (serFn o inner v) true (minBits inner) (maxBits inner) data off := by
      cases inner <;> simp [isComposite] at hcomp <;> cases v <;> simp only [serAny]
    have hspec : serBits (.delim ext inner) v =
        (serBits inner v).map fun bs => natToBits 32 (bs.length / 8) ++ bs := by
      cases inner <;> simp [isComposite] at hcomp <;> cases v <;> simp only [serBits, headerBits]
    rw [e, hspec]
    simp only [align] at hal
    simp only [maxBits, headerBits] at hroom
    have := nestedSer_refines o _ _ true _ _ hf (GenC.maxBits_composite_mod8 hcomp)
      (fun bits hb => ⟨(lenOK _ hwi _ bits hb).1, (lenOK _ hwi _ bits hb).2.1⟩)
      data off hwf hal (by simp only [if_true]; omega)
    simpa using this

/-! ### the generated serializer, top level -/

theorem serializeCpp_eq (t : Ty) (v : Val) (buf : Buf) :
    serializeCpp o t v buf = serFn o (topInner t) v buf 0 := by
  unfold serializeCpp
  cases t <;> rfl

theorem serFn_tooSmall (T : Ty) (hc : isComposite T = true) (v : Val) (ht : hasTy T v = true) (buf : Buf)
    (h : 8 * buf.length < maxBits T) : serFn o T v buf 0 = .error eTooSmall := by
  have hsize : Cpp.Span.size ⟨buf, 0⟩ < maxBits T := by rw [Cpp.size_eq]; simp only; omega
  cases T <;> simp [isComposite] at hc
  · cases v <;> simp [hasTy] at ht
    simp only [serFn, topSer]
    rw [if_neg (by omega), if_pos hsize]
  · cases v <;> simp [hasTy] at ht
    simp only [serFn, topSer]
    rw [if_neg (by omega), if_pos hsize]

/-- (b) a buffer that cannot hold the longest representation is refused before anything is written. -/
theorem serializeCpp_tooSmall (t : Ty) (hc : isComposite (topInner t) = true) (v : Val) (ht : hasTy t v = true)
    (buf : Buf) (h : 8 * buf.length < maxBits (topInner t)) :
    serializeCpp o t v buf = .error eTooSmall := by
  rw [serializeCpp_eq o hs]
  exact serFn_tooSmall o hs _ hc v (hasTy_topInner ht) buf h

/-- (c) otherwise the generated serializer produces exactly the specified bytes, or the specified error. -/
theorem serializeCpp_refines (t : Ty) (hw : wf t = true) (hwC : wfC t = true) (hc : isComposite (topInner t) = true)
    (v : Val) (ht : hasTy t v = true) (hst : storageOK t v = true) (buf : Buf) (hwf : WF buf)
    (hroom : maxBits (topInner t) ≤ 8 * buf.length) :
    match serBytes t v with
    | .ok bytes => ∃ buf', serializeCpp o t v buf = .ok (buf', bytes.length) ∧ buf'.take bytes.length = bytes ∧
        buf'.length = buf.length ∧ WF buf'
    | .error e => serializeCpp o t v buf = .error (embedS e) := by
  rw [serializeCpp_eq o hs]
  have hf := (serP o hs (topInner t)).2 (wf_topInner hw) (wfC_topInner hwC) hc v (hasTy_topInner ht)
    (storageOK_topInner hw hst) buf hwf hroom
  simp only [serBytes, serTop]
  cases hsb : serBits (topInner t) v with
  | error e =>
    rw [hsb] at hf
    simpa [map_error'] using hf
  | ok bits =>
    rw [hsb] at hf
    simp only [map_ok']
    obtain ⟨h8, sub', hin, hwr⟩ := hf
    have hlen := lenOK (topInner t) (wf_topInner hw) v bits hsb
    have hbl : (packBytes bits).length = bits.length / 8 := by rw [packBytes_length]; omega
    refine ⟨sub', by rw [hin, hbl], ?_, hwr.len, hwr.wf hwf⟩
    rw [hbl]
    apply GenC.take_eq_packBytes (hwr.wf hwf) (by rw [hwr.len]; omega) (by omega)
    intro i hi
    simpa using hwr.new i hi

end

end NunavutVerif.GenCpp
