import NunavutVerif.Model.Overwrite
/-!
Helper lemmas for C12 (`Properties/C12.lean`): one-step normal forms of `writeFile`, the frame rule,
the two-file-system relation under `allow_overwrite = True`, the preservation order under `--no-overwrite`.
-/
namespace NunavutVerif.Overwrite

/-! ### bits -/

theorem ownerWrite_addWriteBits (m : Nat) : ownerWrite (addWriteBits m) = true := by
  unfold ownerWrite addWriteBits permBits
  rw [show (4096 : Nat) = 2 ^ 12 from rfl, Nat.testBit_mod_two_pow, Nat.testBit_or]
  have : Nat.testBit 0o220 7 = true := by decide
  simp [this]

theorem permBits_lt (m : Nat) : permBits m < 4096 := by
  exact Nat.mod_lt _ (by decide)

/-! ### the abstract file system -/

@[simp] theorem FS.set_same (fs : FS) (p : Path) (f : File) : (fs.set p f) p = some f := by
  simp [FS.set]

theorem FS.set_other (fs : FS) {p q : Path} (f : File) (h : q ≠ p) : (fs.set p f) q = fs q := by
  simp [FS.set, h]

theorem FS.preserved_refl (fs : FS) : FS.preserved fs fs := fun _ _ h => h

theorem FS.preserved_trans {a b c : FS} (h₁ : FS.preserved a b) (h₂ : FS.preserved b c) :
    FS.preserved a c := fun p f h => h₂ p f (h₁ p f h)

theorem FS.preserved_none {a b : FS} (h : FS.preserved a b) {p : Path} (hb : b p = none) : a p = none := by
  cases ha : a p with
  | none => rfl
  | some f => rw [h p f ha] at hb; cases hb

/-! ### file post-processors -/

theorem applyPPs_err_kind (p : Path) (pps : List FilePP) (i : Nat) (f : File) (e : Err)
    (h : (applyPPs p pps i f).err = some e) : ∃ j, e = .pp p j := by
  induction pps generalizing i f with
  | nil => simp [applyPPs] at h
  | cons pp rest ih =>
    cases pp with
    | setMode m => simp only [applyPPs] at h; exact ih _ _ h
    | edit g =>
      simp only [applyPPs] at h
      split at h
      · simp at h; exact ⟨i, h.symm⟩
      · exact ih _ _ h
    | raises => simp only [applyPPs, Option.some.injEq] at h; exact ⟨i, h.symm⟩

theorem applyPPs_ops_path (p : Path) (pps : List FilePP) (i : Nat) (f : File) :
    ∀ op ∈ (applyPPs p pps i f).ops, op.path = p := by
  induction pps generalizing i f with
  | nil => simp [applyPPs]
  | cons pp rest ih =>
    cases pp with
    | setMode m =>
      simp only [applyPPs]; intro op hop
      rcases List.mem_cons.mp hop with h | h
      · subst h; rfl
      · exact ih _ _ op h
    | edit g =>
      simp only [applyPPs]
      split
      · intro op hop; simp at hop; subst hop; rfl
      · intro op hop
        rcases List.mem_cons.mp hop with h | h
        · subst h; rfl
        · exact ih _ _ op h
    | raises => simp [applyPPs]

/-- Error, operations and resulting content do not depend on the mode the file had. -/
theorem applyPPs_mode_indep (p : Path) (pps : List FilePP) (i : Nat) (c : Content) (m₁ m₂ : Mode) :
    (applyPPs p pps i ⟨c, m₁⟩).err = (applyPPs p pps i ⟨c, m₂⟩).err ∧
    (applyPPs p pps i ⟨c, m₁⟩).ops = (applyPPs p pps i ⟨c, m₂⟩).ops ∧
    (applyPPs p pps i ⟨c, m₁⟩).file.content = (applyPPs p pps i ⟨c, m₂⟩).file.content ∧
    ((applyPPs p pps i ⟨c, m₁⟩).err = none → hasSetMode pps = true →
      (applyPPs p pps i ⟨c, m₁⟩).file.mode = (applyPPs p pps i ⟨c, m₂⟩).file.mode) := by
  induction pps generalizing i c m₁ m₂ with
  | nil => simp [applyPPs, hasSetMode]
  | cons pp rest ih =>
    cases pp with
    | setMode m => simp [applyPPs]
    | edit g =>
      simp only [applyPPs, hasSetMode]
      cases g c with
      | none => simp
      | some r => simpa using ih (i + 1) r.1 (editMode r.2 m₁) (editMode r.2 m₂)
    | raises => simp [applyPPs]

theorem applyPPs_err_none_iff (p : Path) (pps : List FilePP) (i : Nat) (f : File) :
    (applyPPs p pps i f).err = none ↔ (ppContent pps f.content).isSome = true := by
  induction pps generalizing i f with
  | nil => simp [applyPPs, ppContent]
  | cons pp rest ih =>
    cases pp with
    | setMode m => simp only [applyPPs, ppContent]; exact ih _ _
    | edit g =>
      simp only [applyPPs, ppContent]
      cases h : g f.content with
      | none => simp
      | some r => simpa using ih (i + 1) ⟨r.1, editMode r.2 f.mode⟩
    | raises => simp [applyPPs, ppContent]

theorem applyPPs_content (p : Path) (pps : List FilePP) (i : Nat) (f : File)
    (h : (applyPPs p pps i f).err = none) :
    ppContent pps f.content = some (applyPPs p pps i f).file.content := by
  induction pps generalizing i f with
  | nil => simp [applyPPs, ppContent]
  | cons pp rest ih =>
    cases pp with
    | setMode m => simp only [applyPPs, ppContent] at h ⊢; exact ih _ _ h
    | edit g =>
      simp only [applyPPs, ppContent] at h ⊢
      cases hg : g f.content with
      | none => simp [hg] at h
      | some r => simp only [hg] at h ⊢; simpa using ih (i + 1) ⟨r.1, editMode r.2 f.mode⟩ h
    | raises => simp [applyPPs] at h

/-- A `SetFileMode` in last position decides the mode, whatever the programs before it did to it. -/
theorem applyPPs_ends_setMode (p : Path) (pre : List FilePP) (m : Nat) (i : Nat) (f : File)
    (h : (applyPPs p (pre ++ [.setMode m]) i f).err = none) :
    (applyPPs p (pre ++ [.setMode m]) i f).file.mode = permBits m := by
  induction pre generalizing i f with
  | nil => simp [applyPPs]
  | cons pp rest ih =>
    cases pp with
    | setMode m' =>
      simp only [List.cons_append, applyPPs] at h ⊢
      exact ih _ _ h
    | edit g =>
      simp only [List.cons_append, applyPPs] at h ⊢
      cases hg : g f.content with
      | none => simp [hg] at h
      | some r => simp only [hg] at h ⊢; exact ih (i + 1) ⟨r.1, editMode r.2 f.mode⟩ h
    | raises => simp [applyPPs] at h

theorem requestedMode_eq_some {pps : List FilePP} {fm : Nat} (h : requestedMode pps = some fm) :
    ∃ pre, pps = pre ++ [.setMode fm] := by
  unfold requestedMode at h
  cases hl : pps.getLast? with
  | none => simp [hl] at h
  | some pp =>
    cases pp with
    | edit g => simp [hl] at h
    | raises => simp [hl] at h
    | setMode m =>
      simp only [hl, Option.some.injEq] at h
      subst h
      obtain ⟨pre, hpre⟩ := List.getLast?_eq_some_iff.mp hl
      exact ⟨pre, hpre⟩

/-! ### one file -/

/-- The file left at `w.path` once the open succeeded with mode `m`. -/
def afterFile (pps : List FilePP) (w : Write) (m : Mode) : File :=
  if w.renderOk then (applyPPs w.path pps 0 ⟨w.content, startMode w m⟩).file else ⟨w.content, m⟩

/-- The error raised after the open (it does not depend on the file system). -/
def afterErr (pps : List FilePP) (w : Write) : Option Err :=
  if w.renderOk then (applyPPs w.path pps 0 ⟨w.content, 0⟩).err else some (.render w.path)

theorem afterOpen_fs (pps : List FilePP) (w : Write) (m : Mode) (fs : FS) (ops : List Op) :
    (afterOpen pps w m fs ops).fs = fs.set w.path (afterFile pps w m) := by
  unfold afterOpen afterFile; split <;> rfl

theorem afterOpen_err (pps : List FilePP) (w : Write) (m : Mode) (fs : FS) (ops : List Op) :
    (afterOpen pps w m fs ops).err = afterErr pps w := by
  unfold afterOpen afterErr; split
  · exact (applyPPs_mode_indep w.path pps 0 w.content (startMode w m) 0).1
  · rfl

theorem afterOpen_ops_path (pps : List FilePP) (w : Write) (m : Mode) (fs : FS) (ops : List Op)
    (h : ∀ op ∈ ops, op.path = w.path) : ∀ op ∈ (afterOpen pps w m fs ops).ops, op.path = w.path := by
  unfold afterOpen; split
  · intro op hop
    simp only [List.mem_append] at hop
    rcases hop with (hop | hop) | hop
    · exact h op hop
    · unfold copyOps at hop; split at hop
      · simp at hop
      · simp at hop; subst hop; rfl
    · exact applyPPs_ops_path _ _ _ _ op hop
  · exact h

theorem afterErr_kind (pps : List FilePP) (w : Write) (e : Err) (h : afterErr pps w = some e) :
    e = .render w.path ∨ ∃ i, e = .pp w.path i := by
  unfold afterErr at h; split at h
  · exact Or.inr (applyPPs_err_kind _ _ _ _ _ h)
  · simp at h; exact Or.inl h.symm

theorem afterErr_none_iff (pps : List FilePP) (w : Write) :
    afterErr pps w = none ↔ (w.renderOk = true ∧ (ppContent pps w.content).isSome = true) := by
  unfold afterErr; split
  · rename_i h; simp [h, applyPPs_err_none_iff]
  · rename_i h; simp [h]

/-- A path that is not there yet: the gate passes whatever `allow` is, `open` creates. -/
theorem writeFile_new (env : Env) (allow : Bool) (pps : List FilePP) (w : Write) (fs : FS)
    (h : fs w.path = none) :
    writeFile env allow pps w fs =
      afterOpen pps w env.createMode (fs.set w.path ⟨"", env.createMode⟩) [.mkdirs w.path, .openW w.path] := by
  simp [writeFile, gate, openTrunc, h]

/-- A path that exists, overwriting allowed: `chmod(mode | 0o220)`, then the open succeeds — root or not. -/
theorem writeFile_allow_old (env : Env) (pps : List FilePP) (w : Write) (fs : FS) (f : File)
    (h : fs w.path = some f) :
    writeFile env true pps w fs =
      afterOpen pps w (addWriteBits f.mode)
        ((fs.set w.path { f with mode := addWriteBits f.mode }).set w.path ⟨"", addWriteBits f.mode⟩)
        [.chmod w.path (addWriteBits f.mode), .mkdirs w.path, .openW w.path] := by
  simp [writeFile, gate, openTrunc, h, ownerWrite_addWriteBits]

/-- A path that exists, `--no-overwrite`: `PermissionError` before anything is touched. -/
theorem writeFile_noow_old (env : Env) (pps : List FilePP) (w : Write) (fs : FS) (f : File)
    (h : fs w.path = some f) :
    writeFile env false pps w fs = ⟨fs, [], some (.conflict w.path)⟩ := by
  simp [writeFile, gate, h]

/-- Frame rule: writing one file leaves every other path alone (whatever the flags, failing or not). -/
theorem writeFile_frame (env : Env) (allow : Bool) (pps : List FilePP) (w : Write) (fs : FS) (q : Path)
    (hq : q ≠ w.path) : (writeFile env allow pps w fs).fs q = fs q := by
  cases h : fs w.path with
  | none => rw [writeFile_new _ _ _ _ _ h, afterOpen_fs, FS.set_other _ _ hq, FS.set_other _ _ hq]
  | some f =>
    cases allow with
    | true =>
      rw [writeFile_allow_old _ _ _ _ _ h, afterOpen_fs, FS.set_other _ _ hq, FS.set_other _ _ hq,
        FS.set_other _ _ hq]
    | false => rw [writeFile_noow_old _ _ _ _ _ h]

theorem writeFile_ops_path (env : Env) (allow : Bool) (pps : List FilePP) (w : Write) (fs : FS) :
    ∀ op ∈ (writeFile env allow pps w fs).ops, op.path = w.path := by
  cases h : fs w.path with
  | none =>
    rw [writeFile_new _ _ _ _ _ h]
    apply afterOpen_ops_path; intro op hop; simp at hop; rcases hop with rfl | rfl <;> rfl
  | some f =>
    cases allow with
    | true =>
      rw [writeFile_allow_old _ _ _ _ _ h]
      apply afterOpen_ops_path; intro op hop; simp at hop; rcases hop with rfl | rfl | rfl <;> rfl
    | false => rw [writeFile_noow_old _ _ _ _ _ h]; simp

/-- With overwriting allowed the only errors are a failing template or post-processor: never the gate,
never `open`. -/
theorem writeFile_allow_err (env : Env) (pps : List FilePP) (w : Write) (fs : FS) :
    (writeFile env true pps w fs).err = afterErr pps w := by
  cases h : fs w.path with
  | none => rw [writeFile_new _ _ _ _ _ h, afterOpen_err]
  | some f => rw [writeFile_allow_old _ _ _ _ _ h, afterOpen_err]

/-- The mode the freshly opened file has: created, or the old mode with the write bits added. -/
def openMode (env : Env) (old : Option File) : Mode :=
  match old with
  | none => env.createMode
  | some f => addWriteBits f.mode

theorem writeFile_allow_at (env : Env) (pps : List FilePP) (w : Write) (fs : FS) :
    (writeFile env true pps w fs).fs w.path = some (afterFile pps w (openMode env (fs w.path))) := by
  cases h : fs w.path with
  | none => rw [writeFile_new _ _ _ _ _ h, afterOpen_fs]; simp [openMode]
  | some f => rw [writeFile_allow_old _ _ _ _ _ h, afterOpen_fs]; simp [openMode]

/-- What is left at the path does not depend on what was there, except for the mode when nobody sets it. -/
theorem afterFile_rel (pps : List FilePP) (w : Write) (m₁ m₂ : Mode) (h : afterErr pps w = none) :
    (afterFile pps w m₁).content = (afterFile pps w m₂).content ∧
    (hasSetMode pps = true → (afterFile pps w m₁).mode = (afterFile pps w m₂).mode) := by
  unfold afterErr at h; unfold afterFile
  split at h
  · rename_i hr
    simp only [hr, if_true]
    have k := applyPPs_mode_indep w.path pps 0 w.content (startMode w m₁) (startMode w m₂)
    have e1 : (applyPPs w.path pps 0 ⟨w.content, startMode w m₁⟩).err = none := by
      rw [(applyPPs_mode_indep w.path pps 0 w.content (startMode w m₁) 0).1]; exact h
    exact ⟨k.2.2.1, k.2.2.2 e1⟩
  · simp at h

theorem afterFile_content (pps : List FilePP) (w : Write) (m : Mode) (h : afterErr pps w = none) :
    ppContent pps w.content = some (afterFile pps w m).content := by
  unfold afterErr at h; unfold afterFile
  split at h
  · rename_i hr
    simp only [hr, if_true]
    have e1 : (applyPPs w.path pps 0 ⟨w.content, startMode w m⟩).err = none := by
      rw [(applyPPs_mode_indep w.path pps 0 w.content (startMode w m) 0).1]; exact h
    exact applyPPs_content _ _ _ _ e1
  · simp at h

theorem afterFile_mode (pps : List FilePP) (w : Write) (m : Mode) (fm : Nat)
    (hfm : requestedMode pps = some fm) (h : afterErr pps w = none) :
    (afterFile pps w m).mode = permBits fm := by
  obtain ⟨pre, rfl⟩ := requestedMode_eq_some hfm
  unfold afterErr at h; unfold afterFile
  split at h
  · rename_i hr
    simp only [hr, if_true]
    have e1 : (applyPPs w.path (pre ++ [FilePP.setMode fm]) 0 ⟨w.content, startMode w m⟩).err = none := by
      rw [(applyPPs_mode_indep w.path (pre ++ [FilePP.setMode fm]) 0 w.content (startMode w m) 0).1]; exact h
    exact applyPPs_ends_setMode _ _ _ _ _ e1
  · simp at h

/-! ### one run -/

theorem runWrites_cons_err (env : Env) (allow : Bool) (pps : List FilePP) (w : Write) (ws : List Write)
    (fs : FS) (e : Err) (h : (writeFile env allow pps w fs).err = some e) :
    runWrites env allow pps (w :: ws) fs =
      ⟨(writeFile env allow pps w fs).fs, (writeFile env allow pps w fs).ops, some e⟩ := by
  simp [runWrites, h]

theorem runWrites_cons_ok (env : Env) (allow : Bool) (pps : List FilePP) (w : Write) (ws : List Write)
    (fs : FS) (h : (writeFile env allow pps w fs).err = none) :
    runWrites env allow pps (w :: ws) fs =
      ⟨(runWrites env allow pps ws (writeFile env allow pps w fs).fs).fs,
       (writeFile env allow pps w fs).ops ++ (runWrites env allow pps ws (writeFile env allow pps w fs).fs).ops,
       (runWrites env allow pps ws (writeFile env allow pps w fs).fs).err⟩ := by
  simp [runWrites, h]

/-- Frame rule for a whole run. -/
theorem runWrites_frame (env : Env) (allow : Bool) (pps : List FilePP) (ws : List Write) (fs : FS) (q : Path)
    (hq : q ∉ ws.map Write.path) : (runWrites env allow pps ws fs).fs q = fs q := by
  induction ws generalizing fs with
  | nil => rfl
  | cons w ws ih =>
    simp only [List.map_cons, List.mem_cons, not_or] at hq
    cases h : (writeFile env allow pps w fs).err with
    | some e => rw [runWrites_cons_err _ _ _ _ _ _ _ h]; exact writeFile_frame _ _ _ _ _ _ hq.1
    | none =>
      rw [runWrites_cons_ok _ _ _ _ _ _ h]
      show (runWrites env allow pps ws (writeFile env allow pps w fs).fs).fs q = fs q
      rw [ih _ hq.2]; exact writeFile_frame _ _ _ _ _ _ hq.1

theorem runWrites_ops_path (env : Env) (allow : Bool) (pps : List FilePP) (ws : List Write) (fs : FS) :
    ∀ op ∈ (runWrites env allow pps ws fs).ops, op.path ∈ ws.map Write.path := by
  induction ws generalizing fs with
  | nil => simp [runWrites]
  | cons w ws ih =>
    intro op hop
    cases h : (writeFile env allow pps w fs).err with
    | some e =>
      rw [runWrites_cons_err _ _ _ _ _ _ _ h] at hop
      simp [writeFile_ops_path _ _ _ _ _ op hop]
    | none =>
      rw [runWrites_cons_ok _ _ _ _ _ _ h] at hop
      rcases List.mem_append.mp hop with hop | hop
      · simp [writeFile_ops_path _ _ _ _ _ op hop]
      · simp [ih _ op hop]

/-- With overwriting allowed the outcome's error is a function of the run alone: the first template or
post-processor that fails.  In particular it is never `conflict`, never `eacces`. -/
theorem runWrites_allow_err (env : Env) (pps : List FilePP) (ws : List Write) (fs : FS) :
    (runWrites env true pps ws fs).err = ws.findSome? (afterErr pps) := by
  induction ws generalizing fs with
  | nil => rfl
  | cons w ws ih =>
    cases h : (writeFile env true pps w fs).err with
    | some e =>
      rw [runWrites_cons_err _ _ _ _ _ _ _ h]
      rw [writeFile_allow_err] at h
      simp [h]
    | none =>
      rw [runWrites_cons_ok _ _ _ _ _ _ h]
      rw [writeFile_allow_err] at h
      simp [h, ih]

theorem findSome_afterErr_kind (pps : List FilePP) (ws : List Write) (e : Err)
    (h : ws.findSome? (afterErr pps) = some e) : (∃ p, e = .render p) ∨ ∃ p i, e = .pp p i := by
  obtain ⟨w, _, hw⟩ := List.exists_of_findSome?_eq_some h
  rcases afterErr_kind _ _ _ hw with h | ⟨i, h⟩
  · exact Or.inl ⟨_, h⟩
  · exact Or.inr ⟨_, i, h⟩

theorem findSome_afterErr_none (pps : List FilePP) (ws : List Write) :
    ws.findSome? (afterErr pps) = none ↔ ∀ w ∈ ws, afterErr pps w = none := by
  simp [List.findSome?_eq_none_iff]

/-- The central relation for `allow_overwrite = True`: run the same writes over two arbitrary file systems;
both runs fail or succeed together, and on success they agree on every output path (and on every path
where they agreed before). -/
theorem runWrites_allow_rel (env : Env) (pps : List FilePP) (ws : List Write) :
    ∀ (fsA fsB : FS) (S : Path → Prop), (∀ p, S p → FS.agreeAt (hasSetMode pps) fsA fsB p) →
      (runWrites env true pps ws fsA).err = none →
      ∀ p, (S p ∨ p ∈ ws.map Write.path) →
        FS.agreeAt (hasSetMode pps) (runWrites env true pps ws fsA).fs (runWrites env true pps ws fsB).fs p := by
  induction ws with
  | nil =>
    intro fsA fsB S hS _ p hp
    rcases hp with hp | hp
    · exact hS p hp
    · simp at hp
  | cons w ws ih =>
    intro fsA fsB S hS herr p hp
    have hA : (writeFile env true pps w fsA).err = none := by
      cases h : (writeFile env true pps w fsA).err with
      | none => rfl
      | some e => rw [runWrites_cons_err _ _ _ _ _ _ _ h] at herr; simp at herr
    have hw : afterErr pps w = none := by rw [← writeFile_allow_err env pps w fsA]; exact hA
    have hB : (writeFile env true pps w fsB).err = none := by rw [writeFile_allow_err]; exact hw
    rw [runWrites_cons_ok _ _ _ _ _ _ hA] at herr ⊢
    rw [runWrites_cons_ok _ _ _ _ _ _ hB]
    simp only at herr ⊢
    apply ih (writeFile env true pps w fsA).fs (writeFile env true pps w fsB).fs
      (fun q => S q ∨ q = w.path) _ herr
    · rcases hp with hp | hp
      · exact Or.inl (Or.inl hp)
      · simp only [List.map_cons, List.mem_cons] at hp
        rcases hp with hp | hp
        · exact Or.inl (Or.inr hp)
        · exact Or.inr hp
    · intro q hq
      by_cases hqw : q = w.path
      · subst hqw
        refine ⟨_, _, writeFile_allow_at env pps w fsA, writeFile_allow_at env pps w fsB, ?_⟩
        exact afterFile_rel pps w _ _ hw
      · rcases hq with hq | hq
        · obtain ⟨f, g, h1, h2, h3⟩ := hS q hq
          exact ⟨f, g, by rw [writeFile_frame _ _ _ _ _ _ hqw]; exact h1,
            by rw [writeFile_frame _ _ _ _ _ _ hqw]; exact h2, h3⟩
        · exact absurd hq hqw

/-- On success every output carries the mode of the `SetFileMode` in last position. -/
theorem runWrites_allow_mode (env : Env) (pps : List FilePP) (fm : Nat) (hfm : requestedMode pps = some fm)
    (ws : List Write) :
    ∀ (fs : FS) (S : Path → Prop), (∀ p, S p → ∃ f, fs p = some f ∧ f.mode = permBits fm) →
      (runWrites env true pps ws fs).err = none →
      ∀ p, (S p ∨ p ∈ ws.map Write.path) →
        ∃ f, (runWrites env true pps ws fs).fs p = some f ∧ f.mode = permBits fm := by
  induction ws with
  | nil =>
    intro fs S hS _ p hp
    rcases hp with hp | hp
    · exact hS p hp
    · simp at hp
  | cons w ws ih =>
    intro fs S hS herr p hp
    have hA : (writeFile env true pps w fs).err = none := by
      cases h : (writeFile env true pps w fs).err with
      | none => rfl
      | some e => rw [runWrites_cons_err _ _ _ _ _ _ _ h] at herr; simp at herr
    have hw : afterErr pps w = none := by rw [← writeFile_allow_err env pps w fs]; exact hA
    rw [runWrites_cons_ok _ _ _ _ _ _ hA] at herr ⊢
    simp only at herr ⊢
    apply ih (writeFile env true pps w fs).fs (fun q => S q ∨ q = w.path) _ herr
    · rcases hp with hp | hp
      · exact Or.inl (Or.inl hp)
      · simp only [List.map_cons, List.mem_cons] at hp
        rcases hp with hp | hp
        · exact Or.inl (Or.inr hp)
        · exact Or.inr hp
    · intro q hq
      by_cases hqw : q = w.path
      · subst hqw
        refine ⟨_, writeFile_allow_at env pps w fs, ?_⟩
        exact afterFile_mode pps w _ fm hfm hw
      · rcases hq with hq | hq
        · obtain ⟨f, h1, h2⟩ := hS q hq
          exact ⟨f, by rw [writeFile_frame _ _ _ _ _ _ hqw]; exact h1, h2⟩
        · exact absurd hq hqw

/-- On success of a run whose paths are distinct every output holds the run's own content. -/
theorem runWrites_allow_content (env : Env) (pps : List FilePP) (ws : List Write) (fs : FS)
    (nodup : (ws.map Write.path).Nodup) (herr : (runWrites env true pps ws fs).err = none) :
    ∀ w ∈ ws, ∃ f, (runWrites env true pps ws fs).fs w.path = some f ∧
      ppContent pps w.content = some f.content := by
  induction ws generalizing fs with
  | nil => simp
  | cons w ws ih =>
    have hA : (writeFile env true pps w fs).err = none := by
      cases h : (writeFile env true pps w fs).err with
      | none => rfl
      | some e => rw [runWrites_cons_err _ _ _ _ _ _ _ h] at herr; simp at herr
    have hw : afterErr pps w = none := by rw [← writeFile_allow_err env pps w fs]; exact hA
    rw [runWrites_cons_ok _ _ _ _ _ _ hA] at herr ⊢
    simp only at herr ⊢
    simp only [List.map_cons, List.nodup_cons] at nodup
    intro w' hw'
    rcases List.mem_cons.mp hw' with rfl | hw'
    · rw [runWrites_frame _ _ _ _ _ _ nodup.1]
      exact ⟨_, writeFile_allow_at env pps w' fs, afterFile_content pps w' _ hw⟩
    · exact ih _ nodup.2 herr w' hw'

theorem applyPPs_not_denied (p : Path) (pps : List FilePP) (i : Nat) (f : File) :
    ∀ op ∈ (applyPPs p pps i f).ops, op.isDenied = false := by
  induction pps generalizing i f with
  | nil => simp [applyPPs]
  | cons pp rest ih =>
    cases pp with
    | setMode m =>
      simp only [applyPPs]; intro op hop
      rcases List.mem_cons.mp hop with h | h
      · subst h; rfl
      · exact ih _ _ op h
    | edit g =>
      simp only [applyPPs]
      split
      · intro op hop; simp at hop; subst hop; rfl
      · intro op hop
        rcases List.mem_cons.mp hop with h | h
        · subst h; rfl
        · exact ih _ _ op h
    | raises => simp [applyPPs]

theorem afterOpen_not_denied (pps : List FilePP) (w : Write) (m : Mode) (fs : FS) (ops : List Op)
    (h : ∀ op ∈ ops, op.isDenied = false) : ∀ op ∈ (afterOpen pps w m fs ops).ops, op.isDenied = false := by
  unfold afterOpen; split
  · intro op hop
    simp only [List.mem_append] at hop
    rcases hop with (hop | hop) | hop
    · exact h op hop
    · unfold copyOps at hop; split at hop
      · simp at hop
      · simp at hop; subst hop; rfl
    · exact applyPPs_not_denied _ _ _ _ op hop
  · exact h

theorem writeFile_allow_not_denied (env : Env) (pps : List FilePP) (w : Write) (fs : FS) :
    ∀ op ∈ (writeFile env true pps w fs).ops, op.isDenied = false := by
  cases h : fs w.path with
  | none =>
    rw [writeFile_new _ _ _ _ _ h]
    apply afterOpen_not_denied; intro op hop; simp at hop; rcases hop with rfl | rfl <;> rfl
  | some f =>
    rw [writeFile_allow_old _ _ _ _ _ h]
    apply afterOpen_not_denied; intro op hop; simp at hop; rcases hop with rfl | rfl | rfl <;> rfl

theorem runWrites_allow_not_denied (env : Env) (pps : List FilePP) (ws : List Write) (fs : FS) :
    ∀ op ∈ (runWrites env true pps ws fs).ops, op.isDenied = false := by
  induction ws generalizing fs with
  | nil => simp [runWrites]
  | cons w ws ih =>
    intro op hop
    cases h : (writeFile env true pps w fs).err with
    | some e =>
      rw [runWrites_cons_err _ _ _ _ _ _ _ h] at hop
      exact writeFile_allow_not_denied _ _ _ _ op hop
    | none =>
      rw [runWrites_cons_ok _ _ _ _ _ _ h] at hop
      rcases List.mem_append.mp hop with hop | hop
      · exact writeFile_allow_not_denied _ _ _ _ op hop
      · exact ih _ op hop

/-! ### `--no-overwrite` -/

theorem find?_congr' {α : Type} {p q : α → Bool} {l : List α} (h : ∀ a ∈ l, p a = q a) :
    l.find? p = l.find? q := by
  induction l with
  | nil => rfl
  | cons a l ih =>
    simp only [List.find?_cons, h a (List.mem_cons_self ..)]
    rw [ih (fun b hb => h b (List.mem_cons_of_mem _ hb))]

theorem writeFile_noow_preserved (env : Env) (pps : List FilePP) (w : Write) (fs : FS) :
    FS.preserved fs (writeFile env false pps w fs).fs := by
  intro q f hq
  cases h : fs w.path with
  | some g => rw [writeFile_noow_old _ _ _ _ _ h]; exact hq
  | none =>
    have hne : q ≠ w.path := by intro e; rw [e, h] at hq; cases hq
    rw [writeFile_frame _ _ _ _ _ _ hne]; exact hq

theorem runWrites_noow_preserved (env : Env) (pps : List FilePP) (ws : List Write) (fs : FS) :
    FS.preserved fs (runWrites env false pps ws fs).fs := by
  induction ws generalizing fs with
  | nil => exact FS.preserved_refl fs
  | cons w ws ih =>
    cases h : (writeFile env false pps w fs).err with
    | some e => rw [runWrites_cons_err _ _ _ _ _ _ _ h]; exact writeFile_noow_preserved _ _ _ _
    | none =>
      rw [runWrites_cons_ok _ _ _ _ _ _ h]
      exact FS.preserved_trans (writeFile_noow_preserved _ _ _ _) (ih _)

/-- Under `--no-overwrite` a file is only ever operated on if it was not there. -/
theorem writeFile_noow_ops (env : Env) (pps : List FilePP) (w : Write) (fs : FS) :
    ∀ op ∈ (writeFile env false pps w fs).ops, fs op.path = none := by
  cases h : fs w.path with
  | some g => rw [writeFile_noow_old _ _ _ _ _ h]; simp
  | none => intro op hop; rw [writeFile_ops_path _ _ _ _ _ op hop]; exact h

theorem runWrites_noow_ops (env : Env) (pps : List FilePP) (ws : List Write) (fs₀ fs : FS)
    (h₀ : FS.preserved fs₀ fs) : ∀ op ∈ (runWrites env false pps ws fs).ops, fs₀ op.path = none := by
  induction ws generalizing fs with
  | nil => simp [runWrites]
  | cons w ws ih =>
    intro op hop
    cases h : (writeFile env false pps w fs).err with
    | some e =>
      rw [runWrites_cons_err _ _ _ _ _ _ _ h] at hop
      exact FS.preserved_none h₀ (writeFile_noow_ops _ _ _ _ op hop)
    | none =>
      rw [runWrites_cons_ok _ _ _ _ _ _ h] at hop
      rcases List.mem_append.mp hop with hop | hop
      · exact FS.preserved_none h₀ (writeFile_noow_ops _ _ _ _ op hop)
      · exact ih _ (FS.preserved_trans h₀ (writeFile_noow_preserved _ _ _ _)) op hop

/-- Any output that is already there makes the run fail (whatever else happens first). -/
theorem runWrites_noow_conflict_fails (env : Env) (pps : List FilePP) (ws : List Write) (fs : FS)
    (h : ∃ w ∈ ws, (fs w.path).isSome = true) : (runWrites env false pps ws fs).err ≠ none := by
  induction ws generalizing fs with
  | nil => simp at h
  | cons w ws ih =>
    cases he : (writeFile env false pps w fs).err with
    | some e => rw [runWrites_cons_err _ _ _ _ _ _ _ he]; simp
    | none =>
      rw [runWrites_cons_ok _ _ _ _ _ _ he]
      apply ih
      obtain ⟨w', hw', hsome⟩ := h
      rcases List.mem_cons.mp hw' with rfl | hw'
      · -- the first file itself pre-exists: then `writeFile` raised
        obtain ⟨g, hg⟩ := Option.isSome_iff_exists.mp hsome
        rw [writeFile_noow_old _ _ _ _ _ hg] at he; simp at he
      · obtain ⟨g, hg⟩ := Option.isSome_iff_exists.mp hsome
        exact ⟨w', hw', by rw [writeFile_noow_preserved _ _ _ _ _ _ hg]; rfl⟩

/-- Under `--no-overwrite` the open never fails: what is opened is created. -/
theorem writeFile_noow_err_kind (env : Env) (pps : List FilePP) (w : Write) (fs : FS) :
    (writeFile env false pps w fs).err =
      match fs w.path with
      | some _ => some (.conflict w.path)
      | none => afterErr pps w := by
  cases h : fs w.path with
  | some g => rw [writeFile_noow_old _ _ _ _ _ h]
  | none => rw [writeFile_new _ _ _ _ _ h, afterOpen_err]

/-- The exact error of a `--no-overwrite` run whose paths are distinct and whose templates/programs do not
fail: the conflict on the first output (in generation order) that was already there. -/
theorem runWrites_noow_err (env : Env) (pps : List FilePP) (ws : List Write) (fs : FS)
    (nodup : (ws.map Write.path).Nodup) (total : ∀ w ∈ ws, afterErr pps w = none) :
    (runWrites env false pps ws fs).err =
      (ws.find? (fun w => (fs w.path).isSome)).map (fun w => Err.conflict w.path) := by
  induction ws generalizing fs with
  | nil => rfl
  | cons w ws ih =>
    simp only [List.map_cons, List.nodup_cons] at nodup
    cases h : fs w.path with
    | some g =>
      have he := writeFile_noow_err_kind env pps w fs
      rw [h] at he
      rw [runWrites_cons_err _ _ _ _ _ _ _ he]
      simp [h]
    | none =>
      have he := writeFile_noow_err_kind env pps w fs
      rw [h] at he; simp only at he
      rw [total w (List.mem_cons_self ..)] at he
      rw [runWrites_cons_ok _ _ _ _ _ _ he]
      simp only [List.find?_cons, h, Option.isSome_none]
      rw [ih _ nodup.2 (fun w' hw' => total w' (List.mem_cons_of_mem _ hw'))]
      congr 1
      apply find?_congr'
      intro w' hw'
      have hne : w'.path ≠ w.path := by
        intro e; apply nodup.1; rw [← e]; exact List.mem_map_of_mem hw'
      rw [writeFile_frame _ _ _ _ _ _ hne]

/-- A conflict reported by a run with distinct paths names an output that was there before the run. -/
theorem runWrites_noow_conflict_sound (env : Env) (pps : List FilePP) (ws : List Write) (fs : FS)
    (nodup : (ws.map Write.path).Nodup) (p : Path)
    (h : (runWrites env false pps ws fs).err = some (.conflict p)) :
    p ∈ ws.map Write.path ∧ (fs p).isSome = true := by
  induction ws generalizing fs with
  | nil => simp [runWrites] at h
  | cons w ws ih =>
    simp only [List.map_cons, List.nodup_cons] at nodup
    have hk := writeFile_noow_err_kind env pps w fs
    cases he : (writeFile env false pps w fs).err with
    | some e =>
      rw [runWrites_cons_err _ _ _ _ _ _ _ he] at h
      simp only [Option.some.injEq] at h
      subst h
      cases hf : fs w.path with
      | some g =>
        rw [hf] at hk; rw [hk] at he; simp only [Option.some.injEq, Err.conflict.injEq] at he
        subst he; simp [hf]
      | none =>
        rw [hf] at hk; simp only at hk; rw [hk] at he
        rcases afterErr_kind _ _ _ he with h1 | ⟨i, h1⟩ <;> cases h1
    | none =>
      rw [runWrites_cons_ok _ _ _ _ _ _ he] at h
      obtain ⟨hm, hs⟩ := ih _ nodup.2 h
      have hne : p ≠ w.path := by intro e; apply nodup.1; rw [← e]; exact hm
      rw [writeFile_frame _ _ _ _ _ _ hne] at hs
      exact ⟨List.mem_cons_of_mem _ hm, hs⟩

/-- When none of the (distinct) outputs is there yet, `--no-overwrite` changes nothing. -/
theorem runWrites_noow_eq_allow (env : Env) (pps : List FilePP) (ws : List Write) (fs : FS)
    (nodup : (ws.map Write.path).Nodup) (hnew : ∀ w ∈ ws, fs w.path = none) :
    runWrites env false pps ws fs = runWrites env true pps ws fs := by
  induction ws generalizing fs with
  | nil => rfl
  | cons w ws ih =>
    simp only [List.map_cons, List.nodup_cons] at nodup
    have hw : writeFile env false pps w fs = writeFile env true pps w fs := by
      rw [writeFile_new _ _ _ _ _ (hnew w (List.mem_cons_self ..)),
        writeFile_new _ _ _ _ _ (hnew w (List.mem_cons_self ..))]
    have hrest : ∀ w' ∈ ws, (writeFile env true pps w fs).fs w'.path = none := by
      intro w' hw'
      have hne : w'.path ≠ w.path := by
        intro e; apply nodup.1; rw [← e]; exact List.mem_map_of_mem hw'
      rw [writeFile_frame _ _ _ _ _ _ hne]; exact hnew w' (List.mem_cons_of_mem _ hw')
    simp only [runWrites, hw]
    cases (writeFile env true pps w fs).err with
    | some e => rfl
    | none => simp only; rw [ih _ nodup.2 hrest]

/-- A run is its prefix followed by the rest, unless the prefix fails. -/
theorem runWrites_append (env : Env) (allow : Bool) (pps : List FilePP) (xs ys : List Write) (fs : FS) :
    runWrites env allow pps (xs ++ ys) fs =
      match (runWrites env allow pps xs fs).err with
      | some _ => runWrites env allow pps xs fs
      | none =>
        ⟨(runWrites env allow pps ys (runWrites env allow pps xs fs).fs).fs,
         (runWrites env allow pps xs fs).ops ++ (runWrites env allow pps ys (runWrites env allow pps xs fs).fs).ops,
         (runWrites env allow pps ys (runWrites env allow pps xs fs).fs).err⟩ := by
  induction xs generalizing fs with
  | nil => simp [runWrites]
  | cons w xs ih =>
    cases h : (writeFile env allow pps w fs).err with
    | some e =>
      rw [List.cons_append, runWrites_cons_err _ _ _ _ _ _ _ h, runWrites_cons_err _ _ _ _ _ _ _ h]
    | none =>
      rw [List.cons_append, runWrites_cons_ok _ _ _ _ _ _ h, runWrites_cons_ok _ _ _ _ _ _ h, ih]
      simp only
      cases hx : (runWrites env allow pps xs (writeFile env allow pps w fs).fs).err <;>
        simp [hx, List.append_assoc]

/-! ### histories -/

/-- Every step of a history is a run from the state the previous step left. -/
theorem runHistory_step (env : Env) (hist : List Run) (fs₀ : FS) :
    ∀ s ∈ runHistory env hist fs₀, s.2.2 = runRun env s.2.1 s.1 := by
  induction hist generalizing fs₀ with
  | nil => simp [runHistory]
  | cons r rs ih =>
    intro s hs
    simp only [runHistory, List.mem_cons] at hs
    rcases hs with rfl | hs
    · rfl
    · exact ih _ s hs

end NunavutVerif.Overwrite
