import NunavutVerif.Model.CppObj
/-!
Refinement lemmas for C04 (prior-state independence): decoding into an object of the right layout, whatever it
holds, produces exactly the value, the size and the error of the specification `Dsdl.deBits`.
-/
namespace NunavutVerif.CppObj
open NunavutVerif.Dsdl

/-- `impl` (decoding into some destination) realises `spec`: same error, or same size and an object whose abstract
    value is the specified one and which still has the layout `S`. -/
def Ref {O V : Type} (a : O → Option V) (S : O → Bool) (spec : Except DeErr (V × Nat)) (impl : Except Err (O × Nat)) : Prop :=
  match spec with
  | .error e => impl = .error (.de e)
  | .ok (v, n) => ∃ o', impl = .ok (o', n) ∧ a o' = some v ∧ S o' = true

theorem intoElems_ref {f : List Bool → Except DeErr (Val × Nat)} {g : List Bool → Obj → Except Err (Obj × Nat)}
    {a : Obj → Option Val} {S : Obj → Bool} (H : ∀ bs o, S o = true → Ref a S (f bs) (g bs o)) :
    ∀ (k : Nat) (bs : List Bool) (elems : List Obj), k ≤ elems.length → elems.all S = true →
      Ref (fun es => absAll a (es.take k)) (fun es => decide (es.length = elems.length) && es.all S)
        (deAllWith f k bs) (intoElems g k bs elems)
  | 0, bs, elems, _, hs => by
    simp [Ref, deAllWith, intoElems, absAll]
    simpa using hs
  | k + 1, bs, [], hk, _ => by simp at hk
  | k + 1, bs, e :: rest, hk, hs => by
    simp only [List.all_cons, Bool.and_eq_true] at hs
    have h1 := H bs e hs.1
    simp only [deAllWith, intoElems]
    cases hf : f bs with
    | error x =>
      rw [hf] at h1; simp only [Ref] at h1
      simp [Ref, h1]
    | ok vn =>
      obtain ⟨v, n⟩ := vn
      rw [hf] at h1; simp only [Ref] at h1
      obtain ⟨e', he, ha, hS⟩ := h1
      have ih := intoElems_ref H k (bs.drop n) rest (by simpa using hk) hs.2
      rw [he]
      cases hd : deAllWith f k (bs.drop n) with
      | error x =>
        rw [hd] at ih; simp only [Ref] at ih
        simp [Ref, ih, hd]
      | ok vm =>
        obtain ⟨vs, m⟩ := vm
        rw [hd] at ih; simp only [Ref] at ih
        obtain ⟨es', hes, habs, hS'⟩ := ih
        simp only [Bool.and_eq_true, decide_eq_true_eq] at hS'
        simp only [Ref, hes, hd]
        refine ⟨e' :: es', rfl, ?_, ?_⟩
        · simp [List.take, absAll, ha, habs]
        · simp [hS, hS'.1, hS'.2]

theorem pushElems_ref {f : List Bool → Except DeErr (Val × Nat)} {g : List Bool → Obj → Except Err (Obj × Nat)}
    {a : Obj → Option Val} {S : Obj → Bool} (H : ∀ bs o, S o = true → Ref a S (f bs) (g bs o)) {d : Obj} (hd : S d = true) :
    ∀ (k : Nat) (bs : List Bool),
      Ref (absAll a) (fun es => es.all S) (deAllWith f k bs) (pushElems g d k bs)
  | 0, bs => by simp [Ref, deAllWith, pushElems, absAll]
  | k + 1, bs => by
    have h1 := H bs d hd
    simp only [deAllWith, pushElems]
    cases hf : f bs with
    | error x =>
      rw [hf] at h1; simp only [Ref] at h1
      simp [Ref, h1]
    | ok vn =>
      obtain ⟨v, n⟩ := vn
      rw [hf] at h1; simp only [Ref] at h1
      obtain ⟨e', he, ha, hS⟩ := h1
      have ih := pushElems_ref H hd k (bs.drop n)
      rw [he]
      cases hd' : deAllWith f k (bs.drop n) with
      | error x =>
        rw [hd'] at ih; simp only [Ref] at ih
        simp [Ref, ih, hd']
      | ok vm =>
        obtain ⟨vs, m⟩ := vm
        rw [hd'] at ih; simp only [Ref] at ih
        obtain ⟨es', hes, habs, hS'⟩ := ih
        simp only [Ref, hes, hd']
        exact ⟨e' :: es', rfl, by simp [absAll, ha, habs], by simp [hS, hS']⟩

theorem absAll_take_all {a : Obj → Option Val} (es : List Obj) : absAll a (es.take es.length) = absAll a es := by
  simp

mutual
theorem shape_default : ∀ (t : Ty), okTy t = true → shape t (defaultX t) = true
  | .arr t n, h => by
    have := shape_default t (by simpa [okTy] using h)
    simp [defaultX, shape, this]
  | .varr t cap, _ => by simp [defaultX, shape]
  | .struct fs, h => by
    simpa [defaultX, shape] using shape_defaults fs (by simpa [okTy] using h)
  | .union fs, h => by
    simp only [okTy, Bool.and_eq_true, Bool.not_eq_true', List.isEmpty_eq_false_iff] at h
    simpa [defaultX, shape] using shape_defaultHead fs h.2 h.1
  | .delim _ inner, h => by
    simpa [defaultX, shape] using shape_default inner (by simpa [okTy] using h)
  | .uint _ _, _ => by simp [defaultX, shape]
  | .sint _ _, _ => by simp [defaultX, shape]
  | .float _ _, _ => by simp [defaultX, shape]
  | .bool, _ => by simp [defaultX, shape]
  | .void _, _ => by simp [defaultX, shape]
theorem shape_defaults : ∀ (fs : List Ty), okAll fs = true → shapeFields fs (defaultXs fs) = true
  | [], _ => by simp [defaultXs, shapeFields]
  | f :: fs, h => by
    simp only [okAll, Bool.and_eq_true] at h
    simp [defaultXs, shapeFields, shape_default f h.1, shape_defaults fs h.2]
theorem shape_defaultHead : ∀ (fs : List Ty), okAll fs = true → fs ≠ [] → shapeNth fs 0 (defaultHead fs) = true
  | [], _, hne => by simp at hne
  | f :: fs, h, _ => by
    simp only [okAll, Bool.and_eq_true] at h
    simp [defaultHead, shapeNth, shape_default f h.1]
end

theorem ref_leaf (t : Ty) (bs : List Bool) (v : Val) (n : Nat) (hd : deBits t bs = .ok (v, n))
    (ha : abs t (.leaf v) = some v) (hs : shape t (.leaf v) = true) :
    Ref (abs t) (shape t) (deBits t bs) (liftSpec (deBits t bs)) := by
  rw [hd]; exact ⟨.leaf v, rfl, ha, hs⟩

mutual
/-- decoding into ANY object of the right layout realises the specification -/
theorem deInto_ref : ∀ (t : Ty) (bs : List Bool) (o : Obj), okTy t = true → shape t o = true →
    Ref (abs t) (shape t) (deBits t bs) (deIntoG true t bs o)
  | .arr t n, bs, o, hk, hs => by
    have hk' : okTy t = true := by simpa [okTy] using hk
    cases o with
    | arr elems =>
      simp only [shape, Bool.and_eq_true, decide_eq_true_eq] at hs
      have L := intoElems_ref (f := deBits t) (g := deIntoG true t) (a := abs t) (S := shape t)
        (fun bs o h => deInto_ref t bs o hk' h) n bs elems (by omega) hs.2
      simp only [deBits, deIntoG]
      cases hd : deAllWith (deBits t) n bs with
      | error e => rw [hd] at L; simp only [Ref] at L; simp [Ref, L]
      | ok vu =>
        obtain ⟨vs, used⟩ := vu
        rw [hd] at L; simp only [Ref] at L
        obtain ⟨es', he, ha, hS⟩ := L
        simp only [Bool.and_eq_true, decide_eq_true_eq] at hS
        have hl : es'.length = n := by omega
        simp only [Ref, he]
        refine ⟨.arr es', rfl, ?_, ?_⟩
        · rw [← hl, List.take_length] at ha
          simp [abs, hl, ha]
        · simp [shape, hl, hS.2]
    | _ => simp [shape] at hs
  | .varr t cap, bs, o, hk, hs => by
    have hk' : okTy t = true := by simpa [okTy] using hk
    cases o with
    | varr elems cnt =>
      simp only [shape, Bool.and_eq_true, decide_eq_true_eq] at hs
      simp only [deBits, deIntoG]
      by_cases hc : readNat (prefixBits cap) bs > cap
      · simp [Ref, hc]
      · simp only [hc, if_false]
        have L := intoElems_ref (f := deBits t) (g := deIntoG true t) (a := abs t) (S := shape t)
          (fun bs o h => deInto_ref t bs o hk' h) (readNat (prefixBits cap) bs) (bs.drop (prefixBits cap)) elems (by omega) hs.2
        cases hd : deAllWith (deBits t) (readNat (prefixBits cap) bs) (bs.drop (prefixBits cap)) with
        | error e => rw [hd] at L; simp only [Ref] at L; simp [Ref, L]
        | ok vu =>
          obtain ⟨vs, used⟩ := vu
          rw [hd] at L; simp only [Ref] at L
          obtain ⟨es', he, ha, hS⟩ := L
          simp only [Bool.and_eq_true, decide_eq_true_eq] at hS
          simp only [Ref, he]
          refine ⟨.varr es' (readNat (prefixBits cap) bs), rfl, ?_, ?_⟩
          · have : readNat (prefixBits cap) bs ≤ es'.length := by omega
            simp [abs, this, ha]
          · simp [shape, hS.1, hs.1, hS.2]
    | vec old =>
      simp only [shape] at hs
      simp only [deBits, deIntoG]
      by_cases hc : readNat (prefixBits cap) bs > cap
      · simp [Ref, hc]
      · simp only [hc, if_false]
        have L := pushElems_ref (f := deBits t) (g := deIntoG true t) (a := abs t) (S := shape t)
          (fun bs o h => deInto_ref t bs o hk' h) (shape_default t hk') (readNat (prefixBits cap) bs) (bs.drop (prefixBits cap))
        cases hd : deAllWith (deBits t) (readNat (prefixBits cap) bs) (bs.drop (prefixBits cap)) with
        | error e => rw [hd] at L; simp only [Ref] at L; simp [Ref, L]
        | ok vu =>
          obtain ⟨vs, used⟩ := vu
          rw [hd] at L; simp only [Ref] at L
          obtain ⟨es', he, ha, hS⟩ := L
          simp only [Ref, he]
          exact ⟨.vec es', rfl, by simp [abs, ha], by simp [shape, hS]⟩
    | _ => simp [shape] at hs
  | .struct fs, bs, o, hk, hs => by
    cases o with
    | struct os =>
      simp only [shape] at hs
      have L := deIntoFields_ref fs bs 0 os (by simpa [okTy] using hk) hs
      simp only [deBits, deIntoG]
      cases hd : deFields fs bs 0 with
      | error e => rw [hd] at L; simp only [Ref] at L; simp [Ref, L]
      | ok vu =>
        obtain ⟨vs, off⟩ := vu
        rw [hd] at L; simp only [Ref] at L
        obtain ⟨os', he, ha, hS⟩ := L
        simp only [Ref, he]
        exact ⟨.struct os', rfl, by simp [abs, ha], by simp [shape, hS]⟩
    | _ => simp [shape] at hs
  | .union fs, bs, o, hk, hs => by
    simp only [okTy, Bool.and_eq_true] at hk
    cases o with
    | cunion tg ms =>
      simp only [shape] at hs
      simp only [deBits, deIntoG]
      by_cases hc : readNat (tagBits fs.length) bs ≥ fs.length
      · simp [Ref, hc]
      · simp only [hc, if_false]
        have L := deIntoNthC_ref fs (readNat (tagBits fs.length) bs) (bs.drop (tagBits fs.length)) ms hk.2 hs
        cases hd : deNth fs (readNat (tagBits fs.length) bs) (bs.drop (tagBits fs.length)) with
        | error e => rw [hd] at L; simp only [Ref] at L; simp [Ref, L]
        | ok vu =>
          obtain ⟨v, used⟩ := vu
          rw [hd] at L; simp only [Ref] at L
          obtain ⟨ms', he, ha, hS⟩ := L
          simp only [Ref, he]
          exact ⟨.cunion _ ms', rfl, by simp [abs, ha], by simp [shape, hS]⟩
    | variant tg a =>
      simp only [deBits, deIntoG]
      by_cases hc : readNat (tagBits fs.length) bs ≥ fs.length
      · simp [Ref, hc]
      · simp only [hc, if_false]
        have L := deIntoNthX_ref fs (readNat (tagBits fs.length) bs) (bs.drop (tagBits fs.length)) hk.2
        cases hd : deNth fs (readNat (tagBits fs.length) bs) (bs.drop (tagBits fs.length)) with
        | error e => rw [hd] at L; simp only [Ref] at L; simp [Ref, L]
        | ok vu =>
          obtain ⟨v, used⟩ := vu
          rw [hd] at L; simp only [Ref] at L
          obtain ⟨a', he, ha, hS⟩ := L
          simp only [Ref, he]
          exact ⟨.variant _ a', rfl, by simp [abs, ha], by simp [shape, hS]⟩
    | _ => simp [shape] at hs
  | .delim ext inner, bs, o, hk, hs => by
    simp only [shape] at hs
    simp only [deBits, deIntoG]
    by_cases hc : 8 * readNat headerBits bs > (bs.drop headerBits).length
    · have hc2 : bs.length - headerBits < 8 * readNat headerBits bs := by simpa using hc
      simp [Ref, hc2]
    · simp only [hc, if_false]
      have L := deInto_ref inner ((bs.drop headerBits).take (8 * readNat headerBits bs)) o (by simpa [okTy] using hk) hs
      cases hd : deBits inner ((bs.drop headerBits).take (8 * readNat headerBits bs)) with
      | error e => rw [hd] at L; simp only [Ref] at L; simp [Ref, L]
      | ok vu =>
        obtain ⟨v, used⟩ := vu
        rw [hd] at L; simp only [Ref] at L
        obtain ⟨o', he, ha, hS⟩ := L
        simp only [Ref, he]
        exact ⟨o', rfl, by simp [abs, ha], by simp [shape, hS]⟩
  | .uint n m, bs, o, _, hs => by
    cases o with
    | leaf v0 => simp only [deIntoG]; exact ref_leaf _ bs (.int (readNat n bs)) n (by simp [deBits]) (by simp [abs]) (by simp [shape])
    | _ => simp [shape] at hs
  | .sint n m, bs, o, _, hs => by
    cases o with
    | leaf v0 => simp only [deIntoG]; exact ref_leaf _ bs (.int (signExtend n (readNat n bs))) n (by simp [deBits]) (by simp [abs]) (by simp [shape])
    | _ => simp [shape] at hs
  | .float n m, bs, o, _, hs => by
    cases o with
    | leaf v0 => simp only [deIntoG]; exact ref_leaf _ bs (.float (widen n (readNat n bs))) n (by simp [deBits]) (by simp [abs]) (by simp [shape])
    | _ => simp [shape] at hs
  | .bool, bs, o, _, hs => by
    cases o with
    | leaf v0 => simp only [deIntoG]; exact ref_leaf _ bs (.bool (readNat 1 bs == 1)) 1 (by simp [deBits]) (by simp [abs]) (by simp [shape])
    | _ => simp [shape] at hs
  | .void n, bs, o, _, hs => by
    cases o with
    | leaf v0 => simp only [deIntoG]; exact ref_leaf _ bs .void n (by simp [deBits]) (by simp [abs]) (by simp [shape])
    | _ => simp [shape] at hs
theorem deIntoFields_ref : ∀ (fs : List Ty) (bs : List Bool) (off : Nat) (os : List Obj), okAll fs = true →
    shapeFields fs os = true →
    Ref (absFields fs) (shapeFields fs) (deFields fs bs off) (deIntoFields true fs bs off os)
  | [], bs, off, os, _, hs => by
    cases os with
    | nil => simp [Ref, deFields, deIntoFields, absFields, shapeFields]
    | cons _ _ => simp [shapeFields] at hs
  | f :: fs, bs, off, os, hk, hs => by
    simp only [okAll, Bool.and_eq_true] at hk
    cases os with
    | nil => simp [shapeFields] at hs
    | cons o os =>
      simp only [shapeFields, Bool.and_eq_true] at hs
      have L1 := deInto_ref f (bs.drop (padTo (align f) off)) o hk.1 hs.1
      simp only [deFields, deIntoFields]
      cases hd : deBits f (bs.drop (padTo (align f) off)) with
      | error e => rw [hd] at L1; simp only [Ref] at L1; simp [Ref, L1]
      | ok vn =>
        obtain ⟨v, n⟩ := vn
        rw [hd] at L1; simp only [Ref] at L1
        obtain ⟨o', he, ha, hS⟩ := L1
        have L2 := deIntoFields_ref fs bs (padTo (align f) off + n) os hk.2 hs.2
        simp only [he]
        cases hd2 : deFields fs bs (padTo (align f) off + n) with
        | error e => rw [hd2] at L2; simp only [Ref] at L2; simp [Ref, L2]
        | ok vm =>
          obtain ⟨vs, e⟩ := vm
          rw [hd2] at L2; simp only [Ref] at L2
          obtain ⟨os', he2, ha2, hS2⟩ := L2
          simp only [Ref, he2]
          exact ⟨o' :: os', rfl, by simp [absFields, ha, ha2], by simp [shapeFields, hS, hS2]⟩
theorem deIntoNthC_ref : ∀ (fs : List Ty) (k : Nat) (bs : List Bool) (ms : List Obj), okAll fs = true →
    shapeFields fs ms = true →
    Ref (absNthC fs k) (shapeFields fs) (deNth fs k bs) (deIntoNthC true fs k bs ms)
  | [], k, bs, ms, _, _ => by simp [Ref, deNth, deIntoNthC]
  | f :: fs, 0, bs, ms, hk, hs => by
    simp only [okAll, Bool.and_eq_true] at hk
    cases ms with
    | nil => simp [shapeFields] at hs
    | cons m rest =>
      simp only [shapeFields, Bool.and_eq_true] at hs
      have L1 := deInto_ref f bs m hk.1 hs.1
      simp only [deNth, deIntoNthC]
      cases hd : deBits f bs with
      | error e => rw [hd] at L1; simp only [Ref] at L1; simp [Ref, L1]
      | ok vn =>
        obtain ⟨v, n⟩ := vn
        rw [hd] at L1; simp only [Ref] at L1
        obtain ⟨m', he, ha, hS⟩ := L1
        simp only [Ref, he]
        exact ⟨m' :: rest, rfl, by simp [absNthC, ha], by simp [shapeFields, hS, hs.2]⟩
  | f :: fs, k + 1, bs, ms, hk, hs => by
    simp only [okAll, Bool.and_eq_true] at hk
    cases ms with
    | nil => simp [shapeFields] at hs
    | cons m rest =>
      simp only [shapeFields, Bool.and_eq_true] at hs
      have L1 := deIntoNthC_ref fs k bs rest hk.2 hs.2
      simp only [deNth, deIntoNthC]
      cases hd : deNth fs k bs with
      | error e => rw [hd] at L1; simp only [Ref] at L1; simp [Ref, L1]
      | ok vn =>
        obtain ⟨v, n⟩ := vn
        rw [hd] at L1; simp only [Ref] at L1
        obtain ⟨rest', he, ha, hS⟩ := L1
        simp only [Ref, he]
        exact ⟨m :: rest', rfl, by simp [absNthC, ha], by simp [shapeFields, hS, hs.1]⟩
theorem deIntoNthX_ref : ∀ (fs : List Ty) (k : Nat) (bs : List Bool), okAll fs = true →
    Ref (absNthX fs k) (shapeNth fs k) (deNth fs k bs) (deIntoNthX true fs k bs)
  | [], k, bs, _ => by simp [Ref, deNth, deIntoNthX]
  | f :: fs, 0, bs, hk => by
    simp only [okAll, Bool.and_eq_true] at hk
    have L1 := deInto_ref f bs (defaultX f) hk.1 (shape_default f hk.1)
    simp only [deNth, deIntoNthX]
    cases hd : deBits f bs with
    | error e => rw [hd] at L1; simp only [Ref] at L1; simp [Ref, L1]
    | ok vn =>
      obtain ⟨v, n⟩ := vn
      rw [hd] at L1; simp only [Ref] at L1
      obtain ⟨a', he, ha, hS⟩ := L1
      simp only [Ref, he]
      exact ⟨a', rfl, by simp [absNthX, ha], by simp [shapeNth, hS]⟩
  | f :: fs, k + 1, bs, hk => by
    simp only [okAll, Bool.and_eq_true] at hk
    simpa [deNth, deIntoNthX, absNthX, shapeNth] using deIntoNthX_ref fs k bs hk.2
end

end NunavutVerif.CppObj
