import NunavutVerif.Model.CppObj
/-!
Refinement lemmas for C04 (prior-state independence): decoding into an object of the right layout, whatever it
holds, produces exactly the value, the size and the error of the specification `Dsdl.deBits`.
-/
namespace NunavutVerif.CppObj
open NunavutVerif.Dsdl

/-- `impl` (decoding into some destination) realises `spec`: same error, or same size and an object whose abstract
    value is the specified one and which still has the layout `S`. -/
def Ref {O V : Type} (a : O → Option V) (S : O → Bool) (spec : Except DeErr (V × Nat)) (impl : Except Err (O × Nat)) : Prop :=
  match spec with
  | .error e => impl = .error (.de e)
  | .ok (v, n) => ∃ o', impl = .ok (o', n) ∧ a o' = some v ∧ S o' = true

theorem intoElems_ref {f : List Bool → Except DeErr (Val × Nat)} {g : List Bool → Obj → Except Err (Obj × Nat)}
    {a : Obj → Option Val} {S : Obj → Bool} (H : ∀ bs o, S o = true → Ref a S (f bs) (g bs o)) :
    ∀ (k : Nat) (bs : List Bool) (elems : List Obj), k ≤ elems.length → elems.all S = true →
      Ref (fun es => absAll a (es.take k)) (fun es => decide (es.length = elems.length) && es.all S)
        (deAllWith f k bs) (intoElems g k bs elems)
  | 0, bs, elems, _, hs => by
    simp [Ref, deAllWith, intoElems, absAll]
    simpa using hs
  | k + 1, bs, [], hk, _ => by simp at hk
  | k + 1, bs, e :: rest, hk, hs => by
    simp only [List.all_cons, Bool.and_eq_true] at hs
    have h1 := H bs e hs.1
    simp only [deAllWith, intoElems]
    cases hf : f bs with
    | error x =>
      rw [hf] at h1; simp only [Ref] at h1
      simp [Ref, h1]
    | ok vn =>
      obtain ⟨v, n⟩ := vn
      rw [hf] at h1; simp only [Ref] at h1
      obtain ⟨e', he, ha, hS⟩ := h1
      have ih := intoElems_ref H k (bs.drop n) rest (by simpa using hk) hs.2
      rw [he]
      cases hd : deAllWith f k (bs.drop n) with
      | error x =>
        rw [hd] at ih; simp only [Ref] at ih
        simp [Ref, ih, hd]
      | ok vm =>
        obtain ⟨vs, m⟩ := vm
        rw [hd] at ih; simp only [Ref] at ih
        obtain ⟨es', hes, habs, hS'⟩ := ih
        simp only [Bool.and_eq_true, decide_eq_true_eq] at hS'
        simp only [Ref, hes, hd]
        refine ⟨e' :: es', rfl, ?_, ?_⟩
        · simp [List.take, absAll, ha, habs]
        · simp [hS, hS'.1, hS'.2]

theorem pushElems_ref {f : List Bool → Except DeErr (Val × Nat)} {g : List Bool → Obj → Except Err (Obj × Nat)}
    {a : Obj → Option Val} {S : Obj → Bool} (H : ∀ bs o, S o = true → Ref a S (f bs) (g bs o)) {d : Obj} (hd : S d = true) :
    ∀ (k : Nat) (bs : List Bool),
      Ref (absAll a) (fun es => es.all S) (deAllWith f k bs) (pushElems g d k bs)
  | 0, bs => by simp [Ref, deAllWith, pushElems, absAll]
  | k + 1, bs => by
    have h1 := H bs d hd
    simp only [deAllWith, pushElems]
    cases hf : f bs with
    | error x =>
      rw [hf] at h1; simp only [Ref] at h1
      simp [Ref, h1]
    | ok vn =>
      obtain ⟨v, n⟩ := vn
      rw [hf] at h1; simp only [Ref] at h1
      obtain ⟨e', he, ha, hS⟩ := h1
      have ih := pushElems_ref H hd k (bs.drop n)
      rw [he]
      cases hd' : deAllWith f k (bs.drop n) with
      | error x =>
        rw [hd'] at ih; simp only [Ref] at ih
        simp [Ref, ih, hd']
      | ok vm =>
        obtain ⟨vs, m⟩ := vm
        rw [hd'] at ih; simp only [Ref] at ih
        obtain ⟨es', hes, habs, hS'⟩ := ih
        simp only [Ref, hes, hd']
        exact ⟨e' :: es', rfl, by simp [absAll, ha, habs], by simp [hS, hS']⟩

theorem absAll_take_all {a : Obj → Option Val} (es : List Obj) : absAll a (es.take es.length) = absAll a es := by
  simp

mutual
theorem shape_default : ∀ (t : Ty), okTy t = true → shape t (defaultX t) = true
  | .arr t n, h => by
    have := shape_default t (by simpa [okTy] using h)
    simp [defaultX, shape, this]
  | .varr t cap, _ => by simp [defaultX, shape]
  | .struct fs, h => by
    simpa [defaultX, shape] using shape_defaults fs (by simpa [okTy] using h)
  | .union fs, h => by
    simp only [okTy, Bool.and_eq_true, Bool.not_eq_true', List.isEmpty_eq_false_iff] at h
    simpa [defaultX, shape] using shape_defaultHead fs h.2 h.1
  | .delim _ inner, h => by
    simpa [defaultX, shape] using shape_default inner (by simpa [okTy] using h)
  | .uint _ _, _ => by simp [defaultX, shape]
  | .sint _ _, _ => by simp [defaultX, shape]
  | .float _ _, _ => by simp [defaultX, shape]
  | .bool, _ => by simp [defaultX, shape]
  | .void _, _ => by simp [defaultX, shape]
theorem shape_defaults : ∀ (fs : List Ty), okAll fs = true → shapeFields fs (defaultXs fs) = true
  | [], _ => by simp [defaultXs, shapeFields]
  | f :: fs, h => by
    simp only [okAll, Bool.and_eq_true] at h
    simp [defaultXs, shapeFields, shape_default f h.1, shape_defaults fs h.2]
theorem shape_defaultHead : ∀ (fs : List Ty), okAll fs = true → fs ≠ [] → shapeNth fs 0 (defaultHead fs) = true
  | [], _, hne => by simp at hne
  | f :: fs, h, _ => by
    simp only [okAll, Bool.and_eq_true] at h
    simp [defaultHead, shapeNth, shape_default f h.1]
end

end NunavutVerif.CppObj
