import NunavutVerif.Gen.CliArgs
import NunavutVerif.Model.Cli
/-!
# The command line in front of the runner: `argv → argparse.Namespace → ArgparseRunner`

Two layers, both executable, core Lean only.

**1. `argparse`** (CPython 3.12 `ArgumentParser._parse_known_args`, `_parse_optional`, `_get_option_tuples`,
`consume_optional`, `consume_positionals`, `_get_values`, `_get_value`, `_check_value`, the actions `store`,
`store_true`, `append`, `count`, `help`, `version`), as far as the parser of `nunavut.cli._make_parser()` uses it:
prefix character `-`, abbreviations allowed, one positional with `nargs='?'`, optionals with `nargs` `None` / `0` / `'*'`,
no argument files, no mutually exclusive groups, nothing required (the translator `translate/cliargs.py` refuses
a parser outside this fragment).  The table of actions (`Gen.CliArgs.actions`) is regenerated from the real parser
object; the type callables (`extension_type`, `int(value, 0)`, `int`, `pathlib.Path`) are transcribed here and their source
shape is checked by the translator.  On top: `_NunavutArgumentParser.parse_known_args` / `_post_process_args` (rules from
`Gen.CliArgs.rejections`) and `parse_args` (left-over arguments are an error).

The parse is split like this: `classify` (every argument string becomes `A`, `O` or `--`; an ambiguous abbreviation is an
error *before* anything else happens), `sched` (which action receives which argument strings, in order — this does not
depend on any value), `exec` (convert, check, run the actions on the namespace in that order; the first error or
`--help`/`--version` ends it), then default conversion, `_post_process_args`, left-over check.

Not modelled: non-ASCII digits in numeric arguments and in negative-number-like strings (`unsupported`).

**2. The runner glue** (`nunavut.cli.main`, `ArgparseRunner.__init__/run/_generate/_list_*`,
`_build_post_processor_list_from_args`): which run method is chosen, which calls it makes on the two generators with which
keyword values (tables `Gen.CliArgs.runChain/calls/ppRules`, regenerated from cli/runners.py), the post-processor list both
generators receive, and the `Cli.Args` record / `Mode` the decision model of C08 starts from.
-/
namespace NunavutVerif.CliParse
open NunavutVerif.Gen.CliArgs
open NunavutVerif.Cli (Args Mode GenSupport TemplateFile)
open NunavutVerif.Gen.SupportFiles (LangRow)

/-! ## 1a. Values, namespace -/

abbrev Namespace := List (String × Val)

/-- `setattr(namespace, d, v)` -/
def nsSet : Namespace → String → Val → Namespace
  | [], d, v => [(d, v)]
  | (k, x) :: r, d, v => if k = d then (k, v) :: r else (k, x) :: nsSet r d v

/-- The defaults `parse_known_args` installs first: every action with a dest, in order. -/
def initNs (tbl : List OptSpec) : Namespace :=
  (tbl.filter fun sp => sp.dest ≠ "").map fun sp => (sp.dest, sp.dflt)

/-- `_get_action_name`: the option strings joined by `/`, or the dest of a positional. -/
def actName (sp : OptSpec) : String := if sp.flags.isEmpty then sp.dest else "/".intercalate sp.flags

inductive PErr
  | ambiguous (arg : String)            -- `ambiguous option: <arg> could match …`
  | expectedOneArg (name : String)      -- `argument <name>: expected one argument`
  | ignoredExplicit (name : String)     -- `argument <name>: ignored explicit argument …`
  | invalidChoice (name : String)       -- `argument <name>: invalid choice: …`
  | invalidValue (name : String)        -- `argument <name>: invalid <type> value: …`
  | logic                               -- `_post_process_args`: `Logic error: …`
  | unrecognized (extras : List String) -- `unrecognized arguments: …`
  | unsupported                         -- outside the modelled fragment (non-ASCII digits …)
  deriving DecidableEq, Repr

/-- How a parse ends: a namespace, `SystemExit(0)` after `--help` / `--version`, or `parser.error` (`SystemExit(2)`). -/
inductive Outcome
  | ok (ns : Namespace)
  | exit0 (what : String)
  | error (e : PErr)
  deriving DecidableEq, Repr

/-! ## 1b. The `type=` callables -/

/-- `Py_ISSPACE` on ASCII: space, `\t \n \v \f \r`. -/
def isWs (c : Char) : Bool := c = ' ' || (9 ≤ c.toNat && c.toNat ≤ 13)

def digitVal (c : Char) : Option Nat :=
  let n := c.toNat
  if 48 ≤ n && n ≤ 57 then some (n - 48)
  else if 97 ≤ n && n ≤ 122 then some (n - 87)
  else if 65 ≤ n && n ≤ 90 then some (n - 55)
  else none

/-- Digits of `PyLong_FromString`: single underscores between digits only.  `prev`: the previous character was a digit. -/
def parseDigits (base : Nat) : List Char → Nat → Bool → Option Nat
  | [], acc, prev => if prev then some acc else none
  | c :: r, acc, prev =>
    if c = '_' then (if prev then parseDigits base r acc false else none)
    else match digitVal c with
      | some d => if d < base then parseDigits base r (acc * base + d) true else none
      | none => none

inductive IntRes
  | ok (i : Int)
  | invalid      -- `ValueError`
  | nonAscii     -- a non-ASCII character: Unicode digits / spaces are not modelled
  deriving DecidableEq, Repr

/-- After sign and white space: base detection (`auto`: `int(s, 0)`; otherwise `int(s)`), the optional underscore
after a base prefix, no leading underscore, in base 0 a decimal literal with a leading zero must be zero. -/
def parseMagnitude (auto : Bool) (cs : List Char) : Option Nat :=
  if !auto then
    match cs with
    | '_' :: _ => none
    | _ => parseDigits 10 cs 0 false
  else
    match cs with
    | '0' :: x :: rest =>
      let pref (b : Nat) : Option Nat :=
        match rest with
        | '_' :: r => (match r with | '_' :: _ => none | _ => parseDigits b r 0 false)
        | _ => parseDigits b rest 0 false
      if x = 'x' || x = 'X' then pref 16
      else if x = 'o' || x = 'O' then pref 8
      else if x = 'b' || x = 'B' then pref 2
      else match parseDigits 10 cs 0 false with
        | some 0 => some 0
        | _ => none
    | '_' :: _ => none
    | _ => parseDigits 10 cs 0 false

/-- `int(s, 0)` (`auto`) / `int(s)` on an ASCII string. -/
def parsePyInt (auto : Bool) (s : String) : IntRes :=
  let cs := s.toList
  if cs.any (fun c => c.toNat ≥ 128) then .nonAscii else
  let body := ((cs.dropWhile isWs).reverse.dropWhile isWs).reverse
  match body with
  | '-' :: r => (match parseMagnitude auto r with | some n => .ok (-(n : Int)) | none => .invalid)
  | '+' :: r => (match parseMagnitude auto r with | some n => .ok n | none => .invalid)
  | r => (match parseMagnitude auto r with | some n => .ok n | none => .invalid)

/-- `_get_value`: the `type` callable; `ValueError` becomes `invalid <type> value`.  `pathlib.Path(s)` never raises; the
string is kept as typed. -/
def convert (sp : OptSpec) (s : String) : Except PErr Scalar :=
  match sp.type with
  | .str => .ok (.str s)
  | .path => .ok (.str s)
  | .ext => .ok (.str (Cli.extensionType s))
  | .intAuto =>
    (match parsePyInt true s with
     | .ok i => .ok (.int i) | .invalid => .error (.invalidValue (actName sp)) | .nonAscii => .error .unsupported)
  | .intDec =>
    (match parsePyInt false s with
     | .ok i => .ok (.int i) | .invalid => .error (.invalidValue (actName sp)) | .nonAscii => .error .unsupported)

/-- `_check_value` (choices are strings). -/
def checkChoice (sp : OptSpec) (v : Scalar) : Except PErr Unit :=
  if sp.choices.isEmpty then .ok () else
  match v with
  | .str s => if sp.choices.contains s then .ok () else .error (.invalidChoice (actName sp))
  | .int _ => .error (.invalidChoice (actName sp))

def convertChecked (sp : OptSpec) (s : String) : Except PErr Scalar :=
  match convert sp s with
  | .error e => .error e
  | .ok v => (match checkChoice sp v with | .error e => .error e | .ok _ => .ok v)

def convertAll (sp : OptSpec) : List String → Except PErr (List Scalar)
  | [] => .ok []
  | s :: r =>
    match convertChecked sp s with
    | .error e => .error e
    | .ok v => (match convertAll sp r with | .error e => .error e | .ok vs => .ok (v :: vs))

/-! ## 1c. `_parse_optional`: is an argument string an option? -/

def optionStrings (tbl : List OptSpec) : List (String × OptSpec) :=
  tbl.flatMap fun sp => sp.flags.map fun f => (f, sp)

/-- `self._option_string_actions[f]` -/
def lookupFlag (tbl : List OptSpec) (f : String) : Option OptSpec :=
  ((optionStrings tbl).find? fun x => x.1 = f).map (·.2)

/-- An argument string after classification. -/
inductive Tok
  | arg (s : String)                                                  -- `A`
  | dashdash                                                          -- `--` (`-` in the pattern)
  | opt (raw : String) (sp : Option OptSpec) (flag : String) (explicit : Option String)   -- `O`
  deriving DecidableEq, Repr

def splitAtEq : List Char → Option (List Char × List Char)
  | [] => none
  | c :: r => if c = '=' then some ([], r) else (splitAtEq r).map fun (a, b) => (c :: a, b)

/-- `_get_option_tuples` for a string that starts with `-` and has at least two characters. -/
def optionTuples (tbl : List OptSpec) (cs : List Char) : List (OptSpec × String × Option String) :=
  match cs with
  | _ :: '-' :: _ =>
    let (pre, explicit) := match splitAtEq cs with
      | some (a, b) => (a, some (String.ofList b))
      | none => (cs, none)
    (optionStrings tbl).filterMap fun (f, sp) => if pre.isPrefixOf f.toList then some (sp, f, explicit) else none
  | c0 :: c1 :: rest =>
    (optionStrings tbl).filterMap fun (f, sp) =>
      if f.toList = [c0, c1] then some (sp, f, some (String.ofList rest))
      else if cs.isPrefixOf f.toList then some (sp, f, none) else none
  | _ => []

def isAsciiDigit (c : Char) : Bool := 48 ≤ c.toNat && c.toNat ≤ 57

/-- `_negative_number_matcher`: `^-\d+$|^-\d*\.\d+$` (`$` also matches before one final newline). -/
def negNumberLike (cs : List Char) : Bool :=
  match cs with
  | '-' :: r =>
    let r := if r.getLast? = some '\n' then r.dropLast else r
    let (a, b) := r.span isAsciiDigit
    match b with
    | [] => !a.isEmpty
    | '.' :: d => !d.isEmpty && d.all isAsciiDigit
    | _ => false
  | _ => false

/-- `_parse_optional`: `ok none` = positional-like (`A`). -/
def parseOptional (tbl : List OptSpec) (s : String) : Except PErr (Option Tok) :=
  let cs := s.toList
  match cs with
  | [] => .ok none
  | c :: rest =>
    if c ≠ '-' then .ok none else
    match lookupFlag tbl s with
    | some sp => .ok (some (.opt s (some sp) s none))
    | none =>
      if rest.isEmpty then .ok none else
      let viaEq : Option Tok :=
        match splitAtEq cs with
        | some (a, b) => (lookupFlag tbl (String.ofList a)).map fun sp => .opt s (some sp) (String.ofList a) (some (String.ofList b))
        | none => none
      match viaEq with
      | some t => .ok (some t)
      | none =>
        match optionTuples tbl cs with
        | _ :: _ :: _ => .error (.ambiguous s)
        | [(sp, f, e)] => .ok (some (.opt s (some sp) f e))
        | [] =>
          if cs.any (fun c => c.toNat ≥ 128) && (cs.drop 1).all (fun c => c.toNat ≥ 128 || isAsciiDigit c || c = '.' || c = '\n') then
            .error .unsupported     -- might be a negative number written with non-ASCII digits
          else if negNumberLike cs then .ok none
          else if cs.contains ' ' then .ok none
          else .ok (some (.opt s none s none))

/-- The first loop of `_parse_known_args`: everything after `--` is an argument. -/
def classify (tbl : List OptSpec) : List String → Except PErr (List Tok)
  | [] => .ok []
  | s :: r =>
    if s = "--" then .ok (.dashdash :: r.map .arg) else
    match parseOptional tbl s with
    | .error e => .error e
    | .ok t =>
      match classify tbl r with
      | .error e => .error e
      | .ok ts => .ok ((t.getD (.arg s)) :: ts)

/-! ## 1d. `consume_optional` / `consume_positionals`: who gets which strings -/

inductive Step
  | act (sp : OptSpec) (args : List String)   -- `take_action(action, args)`
  | extra (s : String)                        -- `extras.append(s)`
  | fail (e : PErr)                           -- an `ArgumentError` raised by the matching itself
  deriving DecidableEq, Repr

/-- What the matching loop is in the middle of. -/
inductive Pend
  | none
  | one (pre : List Step) (sp : OptSpec)        -- an optional with `nargs=None`: exactly one `A` must follow; `pre`: the
                                                -- flags of the same cluster (`-vO x`), taken only once the match succeeded
  | star (sp : OptSpec) (acc : List String)     -- an optional with `nargs='*'`: every following `A`
  | swallow                                     -- the positional just took an `A`: a directly following `--` is its
  | posDash (p : OptSpec)                       -- the positional took the `--`: the next `A` (if any) is its value
  deriving Repr

def takesArg (sp : OptSpec) : Bool := sp.nargs ≠ .zero

/-- The `while True` loop of `consume_optional` for an option string with an explicit argument (`--opt=value`, `-Ovalue`,
`-vd`): a single-dash flag without argument passes the rest on as further single-dash flags.  Result: the actions so far,
and the optional still waiting for following strings (`-vO x`). -/
def chain (tbl : List OptSpec) : OptSpec → String → List Char → List Step → List Step × Option OptSpec
  | sp, _, [], acc =>
    -- explicit argument "" (`--opt=`)
    if takesArg sp then (acc ++ [.act sp [""]], none) else ([.fail (.ignoredExplicit (actName sp))], none)
  | sp, flag, c :: e, acc =>
    if takesArg sp then (acc ++ [.act sp [String.ofList (c :: e)]], none)
    else if (flag.toList.drop 1).head? ≠ some '-' then
      match lookupFlag tbl (String.ofList ['-', c]) with
      | none => ([.fail (.ignoredExplicit (actName sp))], none)
      | some sp' =>
        if e.isEmpty then (acc ++ [.act sp []], some sp')
        else chain tbl sp' (String.ofList ['-', c]) e (acc ++ [.act sp []])
    else ([.fail (.ignoredExplicit (actName sp))], none)

/-- An optional without explicit argument (`pre`: the flags in front of it in the same cluster): the actions to take now,
and what it waits for.  `consume_optional` takes the actions of a cluster only after the last one has matched its
argument strings. -/
def pendOf (pre : List Step) (sp : OptSpec) : List Step × Pend :=
  match sp.nargs with
  | .zero => (pre ++ [.act sp []], .none)
  | .one => ([], .one pre sp)
  | .optional => ([], .one pre sp)      -- not used by this parser (the translator refuses it)
  | .zeroOrMore => (pre, .star sp [])

def hasFail : List Step → Bool
  | [] => false
  | .fail _ :: _ => true
  | _ :: r => hasFail r

/-- The main loop of `_parse_known_args` over the classified strings.  `pos`: the positional (if still unconsumed).
Strings in front of a later option: the positional takes the first one, the others are extras.  After the last
option: the pattern `-*A?-*` of the positional — a `--` in front of its value is handed on with it (`_get_values` removes the
first `--`), a `--` right behind its value is swallowed (handing it on would change nothing: the value in front of the first
`--` of the command line is never `--`) — everything else is an extra (a left-over `--` too). -/
def sched (tbl : List OptSpec) : Option OptSpec → Pend → List Tok → List Step
  | pos, .none, [] => match pos with | some p => [.act p []] | none => []
  | pos, .swallow, [] => match pos with | some p => [.act p []] | none => []
  | _, .one _ sp, [] => [.fail (.expectedOneArg (actName sp))]
  | pos, .star sp acc, [] => .act sp acc :: (match pos with | some p => [.act p []] | none => [])
  | _, .posDash p, [] => [.act p ["--"]]
  | pos, .one pre sp, t :: rest =>
    (match t with
     | .arg s => pre ++ .act sp [s] :: sched tbl pos .none rest
     | _ => [.fail (.expectedOneArg (actName sp))])
  | _, .posDash p, t :: rest =>
    (match t with
     | .arg s => .act p ["--", s] :: sched tbl none .none rest
     | _ => [.act p ["--"], .fail .unsupported])     -- cannot happen: after `--` every string is an `A`
  | pos, .star sp acc, .arg s :: rest => sched tbl pos (.star sp (acc ++ [s])) rest
  | _, .swallow, .dashdash :: rest => sched tbl none .none rest
  | pos, pend, t :: rest =>
    let flush : List Step := match pend with | .star sp acc => [.act sp acc] | _ => []
    match t with
    | .arg s =>
      (match pos with
       | some p => flush ++ .act p [s] :: sched tbl none .swallow rest
       | none => flush ++ .extra s :: sched tbl none .none rest)
    | .dashdash =>
      (match pos with
       | some p => flush ++ sched tbl none (.posDash p) rest
       | none => flush ++ .extra "--" :: sched tbl none .none rest)
    | .opt raw none _ _ => flush ++ .extra raw :: sched tbl pos .none rest
    | .opt _ (some sp) flag (some e) =>
      let cr := chain tbl sp flag e.toList []
      if hasFail cr.1 then flush ++ cr.1 else
      (match cr.2 with
       | none => flush ++ cr.1 ++ sched tbl pos .none rest
       | some sp' => flush ++ (pendOf cr.1 sp').1 ++ sched tbl pos (pendOf cr.1 sp').2 rest)
    | .opt _ (some sp) _ none => flush ++ (pendOf [] sp).1 ++ sched tbl pos (pendOf [] sp).2 rest

/-! ## 1e. `take_action` -/

structure St where
  ns : Namespace
  extras : List String
  seen : List String      -- dest of every action taken (`seen_actions`)
  deriving Repr

inductive Stop
  | exit0 (what : String)
  | error (e : PErr)
  deriving DecidableEq, Repr

/-- `_get_values`: the first `--` among the strings is dropped (also from an explicit `--opt=--`), then by `nargs`. -/
def getValues (sp : OptSpec) (args : List String) : Except PErr Val :=
  let args := args.erase "--"
  match sp.nargs, args with
  | .optional, [] =>
    -- the positional: its default, passed through `type` and `choices` when it is a string
    (match sp.dflt with
     | .sc (.str d) => (match convertChecked sp d with | .error e => .error e | .ok v => .ok (.sc v))
     | d => .ok d)
  | .one, [s] => (match convertChecked sp s with | .error e => .error e | .ok v => .ok (.sc v))
  | .optional, [s] => (match convertChecked sp s with | .error e => .error e | .ok v => .ok (.sc v))
  | _, _ => (match convertAll sp args with | .error e => .error e | .ok vs => .ok (.list vs))

/-- `action(parser, namespace, values)` -/
def takeAction (sp : OptSpec) (args : List String) (st : St) : Except Stop St :=
  match getValues sp args with
  | .error e => .error (.error e)
  | .ok v =>
    let st := { st with seen := sp.dest :: st.seen }
    match sp.kind with
    | .store => .ok { st with ns := nsSet st.ns sp.dest v }
    | .storeTrue => .ok { st with ns := nsSet st.ns sp.dest (.bool true) }
    | .count =>
      (match st.ns.lookup sp.dest with
       | some .none => .ok { st with ns := nsSet st.ns sp.dest (.sc (.int 1)) }
       | some (.sc (.int n)) => .ok { st with ns := nsSet st.ns sp.dest (.sc (.int (n + 1))) }
       | _ => .error (.error .unsupported))
    | .append =>
      (match v, st.ns.lookup sp.dest with
       | .sc x, some .none => .ok { st with ns := nsSet st.ns sp.dest (.list [x]) }
       | .sc x, some (.list l) => .ok { st with ns := nsSet st.ns sp.dest (.list (l ++ [x])) }
       | _, _ => .error (.error .unsupported))
    | .help => .error (.exit0 "help")
    | .version => .error (.exit0 "version")

def exec : List Step → St → Except Stop St
  | [], st => .ok st
  | .act sp args :: r, st => (match takeAction sp args st with | .error e => .error e | .ok st' => exec r st')
  | .extra s :: r, st => exec r { st with extras := st.extras ++ [s] }
  | .fail e :: _, _ => .error (.error e)

/-- The end of `_parse_known_args`: a string default of an action that was not seen goes through its `type`. -/
def convertDefaults : List OptSpec → St → Except PErr St
  | [], st => .ok st
  | sp :: r, st =>
    if sp.dest = "" || st.seen.contains sp.dest then convertDefaults r st else
    match sp.dflt with
    | .sc (.str d) =>
      (match convert sp d with
       | .error e => .error e
       | .ok v => convertDefaults r { st with ns := nsSet st.ns sp.dest (.sc v) })
    | _ => convertDefaults r st

/-- Python truth value. -/
def truthy : Val → Bool
  | .none => false
  | .bool b => b
  | .sc (.int i) => i ≠ 0
  | .sc (.str s) => s ≠ ""
  | .list l => !l.isEmpty

/-- `_post_process_args` -/
def rejected (rules : List Rejection) (ns : Namespace) : Bool :=
  rules.any fun r =>
    (match ns.lookup r.flagDest with | some v => truthy v | none => false) &&
    ns.lookup r.strDest = some (.sc (.str r.value))

/-- `parser.parse_args(argv)` -/
def parse (tbl : List OptSpec) (rules : List Rejection) (argv : List String) : Outcome :=
  match classify tbl argv with
  | .error e => .error e
  | .ok toks =>
    let pos := tbl.find? fun sp => sp.flags.isEmpty
    match exec (sched tbl pos .none toks) ⟨initNs tbl, [], []⟩ with
    | .error (.exit0 w) => .exit0 w
    | .error (.error e) => .error e
    | .ok st =>
      match convertDefaults tbl st with
      | .error e => .error e
      | .ok st =>
        if rejected rules st.ns then .error .logic
        else if !st.extras.isEmpty then .error (.unrecognized st.extras)
        else .ok st.ns

/-- The actions the parser takes for an argument vector, in order, with the strings each one receives (`none`: an ambiguous
abbreviation ends the parse before any action). -/
def stepsOf (tbl : List OptSpec) (argv : List String) : Option (List Step) :=
  match classify tbl argv with
  | .error _ => none
  | .ok toks => some (sched tbl (tbl.find? fun sp => sp.flags.isEmpty) .none toks)

/-- The step is the action with dest `d`: some argument string was resolved to one of its option strings (exactly, as an
unambiguous abbreviation, as `--opt=value`, glued to a single-dash flag, or inside a cluster like `-vd`). -/
def Step.takes (d : String) : Step → Bool
  | .act sp _ => sp.dest = d
  | _ => false

/-- The parser of the tree under check. -/
def parseArgv (argv : List String) : Outcome := parse actions rejections argv

/-! ## 2. The runner glue -/

/-- `ArgparseRunner.run`: the first `self._args.<dest>` of the chain that is true selects the method.  `none`: the
attribute does not exist (`AttributeError`). -/
def runnerMethod (ns : Namespace) : List (String × String) → String → Option String
  | [], e => some e
  | (d, m) :: rest, e =>
    match ns.lookup d with
    | none => none
    | some v => if truthy v then some m else runnerMethod ns rest e

/-- The run method as a `Mode` of the decision model; `_generate` hands `self._args.dry_run` to both generators. -/
def modeOfMethod (m : String) (dry : Bool) : Option Mode :=
  if m = "_list_outputs_only" then some .listOutputs
  else if m = "_list_inputs_only" then some .listInputs
  else if m = "_list_configuration_only" then some .listConfiguration
  else if m = "_generate" then some (if dry then .dryRun else .generate)
  else none

def modeOfNs (ns : Namespace) : Option Mode :=
  match runnerMethod ns runChain runElse, ns.lookup "dry_run" with
  | some m, some d => modeOfMethod m (truthy d)
  | _, _ => none

/-- What the process finds around it: the languages of the package, where the package is, what lies below a
directory named on the command line. -/
structure Environ where
  langs : List LangRow
  pkgDir : String
  dirFiles : String → List TemplateFile
  /-- every `*.dsdl` / `*.uavcan` below the given directories, as `ArgparseRunner._lookup_dsdl_files` enumerates them -/
  dsdlBelow : List String → List String := fun _ => []
  /-- `DSDL_INCLUDE_PATH`, split at `os.pathsep` -/
  envIncludes : List String := []

/-- `generate_support` as the runner tests it: `== "as-needed"`, `in ("always", "only")`, `!= "only"`.  Any other value
behaves like `never`. -/
def genSupportOf : Val → GenSupport
  | .sc (.str s) =>
    if s = "always" then .always else if s = "only" then .only else if s = "as-needed" then .asNeeded else .never
  | _ => .never

/-- An attribute that must be a string (`pathlib.Path([])`, `str + []` … raise). -/
def strOf : Option Val → Option String
  | some (.sc (.str s)) => some s
  | _ => none

/-- An optional string attribute: `None` or a string. -/
def optStrOf : Option Val → Option (Option String)
  | some .none => some none
  | some (.sc (.str s)) => some (some s)
  | _ => none

def splitSlash (cs : List Char) : List String :=
  let rec go : List Char → List Char → List String
    | [], cur => [String.ofList cur.reverse]
    | c :: r, cur => if c = '/' then String.ofList cur.reverse :: go r [] else go r (c :: cur)
  go cs []

/-- `LanguageClassLoader.to_language_name`: a leading `nunavut.lang.` is dropped. -/
def toLanguageName (s : String) : String :=
  if "nunavut.lang.".toList.isPrefixOf s.toList then String.ofList (s.toList.drop 13) else s

/-- `LanguageContextBuilder.set_target_language(...).create()`: no `--target-language` means
`DEFAULT_TARGET_LANGUAGE` (`c`); a language of the package; an experimental one only with `--experimental-languages`. -/
def langOf (env : Environ) (ns : Namespace) : Option LangRow :=
  let named (l : String) (xl : Val) : Option LangRow :=
    match env.langs.find? fun r => r.name = toLanguageName l with
    | some row => if row.experimental && !truthy xl then none else some row
    | none => none
  match ns.lookup "target_language", ns.lookup "experimental_languages" with
  | some (.sc (.str l)), some xl => named l xl
  | some .none, some xl => named "c" xl
  | _, _ => none

/-- `main`: `extra_includes = args.lookup_dir or []`, then the sorted entries of `DSDL_INCLUDE_PATH`. -/
def extraIncludes (env : Environ) (ns : Namespace) : Option (List String) :=
  match ns.lookup "lookup_dir" with
  | some .none => some env.envIncludes
  | some (.list l) =>
    (l.mapM fun | Scalar.str s => some s | Scalar.int _ => none).map (· ++ env.envIncludes)
  | _ => none

/-- The `Cli.Args` record `ArgparseRunner.__init__` works from.  `none`: the runner raises before it reaches a generator
(unknown or missing target language, an experimental language without `--experimental-languages`, a list where a string is
needed). -/
def toArgs (env : Environ) (ns : Namespace) : Option Args :=
  match langOf env ns, strOf (ns.lookup "outdir"), optStrOf (ns.lookup "output_extension"),
        optStrOf (ns.lookup "namespace_output_stem"), optStrOf (ns.lookup "templates"),
        optStrOf (ns.lookup "support_templates"), ns.lookup "generate_support",
        ns.lookup "omit_serialization_support", ns.lookup "generate_namespace_types", extraIncludes env ns with
  | some row, some outdir, some ext, some stem, some tpl, some stpl, some gs, some om, some gnt, some incl =>
    some { lang := row, pkgDir := env.pkgDir, outdir := splitSlash outdir.toList, genSupport := genSupportOf gs,
           omitSer := truthy om, gnt := truthy gnt, extArg := ext, stemArg := stem,
           templates := tpl.map env.dirFiles, supportTemplates := stpl.map env.dirFiles,
           lookupFiles := env.dsdlBelow incl }
  | _, _, _, _, _, _, _, _, _, _ => none

/-- `main` + `ArgparseRunner.__init__` + `run`, from the argument vector. -/
inductive MainOut
  | parseError (e : PErr)          -- exit status 2, the runner is never constructed
  | exit0 (what : String)          -- `--help`, `--version`
  | crash                          -- the runner raises before a generator is called (see `toArgs`)
  | ran (m : Mode) (a : Args) (r : Cli.Run)
  deriving Repr

def cliMain (env : Environ) (argv : List String) (entries : List Cli.Entry) : MainOut :=
  match parseArgv argv with
  | .error e => .parseError e
  | .exit0 w => .exit0 w
  | .ok ns =>
    match toArgs env ns, modeOfNs ns with
    | some a, some m => .ran m a (Cli.run m a entries)
    | _, _ => .crash

/-! ### The calls on the generators -/

/-- One call: `self.<target>.<fn>(**kwargs)`. -/
structure Call where
  target : String
  fn : String
  kwargs : List (String × Val)
  deriving DecidableEq, Repr

def evalExpr (ns : Namespace) : Expr → Option Val
  | .arg d => ns.lookup d
  | .notArg d => (ns.lookup d).map fun v => .bool (!truthy v)
  | .const b => some (.bool b)

def evalKwargs (ns : Namespace) : List (String × Expr) → Option (List (String × Val))
  | [] => some []
  | (k, e) :: r => do
    let v ← evalExpr ns e
    let vs ← evalKwargs ns r
    pure ((k, v) :: vs)

def guardHolds (a : Args) : Guard → Bool
  | .shouldGenerateSupport => Cli.shouldGenerateSupport a
  | .notShouldGenerateSupport => !Cli.shouldGenerateSupport a
  | .notOnly => a.genSupport != .only
  | .only => a.genSupport == .only
  | .genNsTypes => Cli.generateNamespaceTypes a
  | .notGenNsTypes => !Cli.generateNamespaceTypes a

/-- The calls a list of call sites makes, in order, with evaluated keyword arguments; a site is passed over when one of
its enclosing `if`s fails. -/
def callsOfSpecs (a : Args) (ns : Namespace) : List CallSpec → Option (List Call)
  | [] => some []
  | c :: r =>
    if c.guards.all (guardHolds a) then
      match evalKwargs ns c.kwargs, callsOfSpecs a ns r with
      | some kw, some rest => some (⟨c.target, c.fn, kw⟩ :: rest)
      | _, _ => none
    else callsOfSpecs a ns r

/-- The calls run method `method` makes. -/
def callsOf (specs : List CallSpec) (method : String) (a : Args) (ns : Namespace) : Option (List Call) :=
  callsOfSpecs a ns (specs.filter fun c => c.method = method)

def Call.kw (c : Call) (k : String) : Option Val := c.kwargs.lookup k

/-! ### The post-processor list -/

/-- A post-processor object with its constructor arguments as the runner passes them. -/
inductive PP
  | trim
  | limitEmptyLines (n : Val)
  | extProgram (argv : List Scalar)
  | setFileMode (m : Val)
  deriving DecidableEq, Repr

def PP.isFilePP : PP → Bool
  | .extProgram _ => true
  | .setFileMode _ => true
  | _ => false

def evalCond (ns : Namespace) : PPCond → Option Bool
  | .always => some true
  | .truthy d => (ns.lookup d).map truthy
  | .notNone d => (ns.lookup d).map fun v => v ≠ .none     -- `hasattr` holds for every dest

def evalCtor (ns : Namespace) : PPCtor → Option PP
  | .trim => some .trim
  | .limitEmptyLines d => (ns.lookup d).map .limitEmptyLines
  | .setFileMode d => (ns.lookup d).map .setFileMode
  | .extProgram d ad =>
    match ns.lookup d, ns.lookup ad with
    | some (.sc prog), some .none => some (.extProgram [prog])
    | some (.sc prog), some (.list extra) => some (.extProgram (prog :: extra))
    | _, _ => none

/-- `_build_post_processor_list_from_args` -/
def buildPPs (ns : Namespace) : List PPRule → Option (List PP)
  | [] => some []
  | r :: rest => do
    let c ← evalCond ns r.cond
    let tail ← buildPPs ns rest
    if c then (do let p ← evalCtor ns r.ctor; pure (p :: tail)) else pure tail

/-- `CodeGenerator._handle_post_processors`, run once by each of the two generators on the *same* list object: a language
that configures `limit_empty_lines` / `trim_trailing_whitespace` appends the line post-processor unless one of that class
is already in the list. -/
def augment (limit : Option Val) (trimWs : Bool) (pps : List PP) : List PP :=
  let pps := match limit with
    | some n => if pps.any (fun | .limitEmptyLines _ => true | _ => false) then pps else pps ++ [.limitEmptyLines n]
    | none => pps
  if trimWs then (if pps.any (fun | .trim => true | _ => false) then pps else pps ++ [.trim]) else pps

/-- `file_pps` as `_generate_code` / `SupportGenerator.generate_all` split them off: the file post-processors in list
order. -/
def filePPs (pps : List PP) : List PP := pps.filter PP.isFilePP

end NunavutVerif.CliParse
