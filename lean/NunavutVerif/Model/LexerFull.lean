import NunavutVerif.Model.Lexer
/-!
# The whole state machine of the bundled lexer (C19, round 2)

`Model/Lexer.lean` describes the root rule and leaves the states entered by a begin token abstract.  This file
transcribes the rest of `jinja2/lexer.py` (`Lexer.__init__` rule table, `Lexer.tokeniter`, `Lexer.wrap`) for the
default delimiters and EVERY setting of `trim_blocks`, `lstrip_blocks`, `line_statement_prefix`,
`line_comment_prefix`, `keep_trailing_newline`, `newline_sequence`:

    root                 (.*?)(?: raw_begin | <rules sorted by (len, name) descending> )          -> data, #bygroup
                         .+                                                                       -> data
    comment_begin        (.*?)((?:\-#}\s*|#})\n?)      [\n? only with trim_blocks]                -> comment, comment_end, #pop
                         (.)                                                                      -> Failure
    block_begin          (?:\-%}\s*|%})\n?                                                        -> block_end, #pop   + tag rules
    variable_begin       \-}}\s*|}}                                                               -> variable_end, #pop + tag rules
    raw_begin            (.*?)((?:\s*{%\-|B)\s*endraw\s*(?:\-%}\s*|%}\n?))                         -> data, raw_end, #pop
                         (.)                                                                      -> Failure
    linestatement_begin  \s*(\n|$)                                                                -> linestatement_end, #pop + tag rules
    linecomment_begin    (.*?)()(?=\n|$)                                                          -> linecomment, linecomment_end, #pop
    tag rules            \s+ | (?<!\.)\d+\.\d+ | \d+ | [\w…]+ | string | operator   (with the brace balancing of tokeniter)

The line statement / line comment alternatives of the root rule are

    (?P<linestatement_begin>\s*^[ \t\v]*P\-|^[ \t\v]*P)      (?P<linecomment_begin>\s*(?:^|(?<=\S))[^\S\r\n]*Q\-|(?:^|(?<=\S))[^\S\r\n]*Q)

They are transcribed for prefixes `P`, `Q` that are non-empty and do not begin with a white-space character (then
the greedy classes in front of the literal never have to give anything back).  Nunavut configures neither.

None of the states entered by a begin token depends on Nunavut's edit: `innerF` does not take the `star` flags.
The character classes `\w` + identifier pattern, `\d` and the operator list are parameters (`Tables`); the driver
instantiates them from `Gen/LexerTables.lean`, which `translate/lexer_tables.py` regenerates from the real module.

Core Lean only.
-/
namespace NunavutVerif.Lexer

/-- data the tag rules depend on (regenerated from the real lexer module into `Gen/LexerTables.lean`) -/
structure Tables where
  /-- the class of `name_re` -/
  isWord : Char → Bool
  /-- `\d` -/
  isDigit : Char → Bool
  /-- alternatives of `operator_re` in the order the regex lists them -/
  operators : List Str

/-- Environment settings the lexer reads + which lexer (`star`, `commentStar` as in `Cfg`). -/
structure Env where
  star : Bool
  commentStar : Bool
  lstrip : Bool
  trim : Bool
  lineStmt : Option Str
  lineCmt : Option Str
  deriving DecidableEq, Repr

def Env.cfg (e : Env) : Cfg := ⟨e.star, e.commentStar, e.lstrip⟩

/-- the same environment with the lexer that has none of Nunavut's alternatives -/
def Env.upstream (e : Env) : Env := { e with star := false, commentStar := false }

inductive RKind where
  | raw | variable | comment | block | lstmt | lcmt
  deriving DecidableEq, Repr

/-- `^` under `re.M` seen from the character in front of the position -/
def isBol (prev : Option Char) : Bool :=
  match prev with
  | none => true
  | some c => c == '\n'

/-- `(?<=\S)` -/
def prevNonSpace (prev : Option Char) : Bool :=
  match prev with
  | none => false
  | some c => !isSpace c

def prevAfter (prev : Option Char) (consumed : Str) : Option Char :=
  match consumed.getLast? with
  | some c => some c
  | none => prev

/-- `[ \t\v]` -/
def isVBlank (c : Char) : Bool := c = ' ' || c = '\t' || c = '\x0b'
/-- `[^\S\r\n]` -/
def isHSpace (c : Char) : Bool := isSpace c && c != '\r' && c != '\n'

/-! ## Line statement / line comment begin -/

/-- `\s* A cls* lit` where `A` is a zero-width assertion and `lit` begins with a non-space character: the `\s*`
run `R` is consumed completely by `\s*` + `cls*`, so the assertion is evaluated at the start `j` of the maximal
`cls`-suffix of `R` (any later split point has a `cls` character — not a newline, not a non-space — in front of
it; any earlier one leaves a character outside `cls` for `cls*`).  `atStart` = the assertion at offset 0 (decided
by the character in front of the match), inside the run the assertion holds iff the character in front is `\n`. -/
def runThenLit (cls : Char → Bool) (atStart : Bool) (lit : Str) (s : Str) : Option Nat :=
  let n := spanLen isSpace s
  let run := s.take n
  let j := n - spanLen cls run.reverse
  let ok := if j = 0 then atStart else run[j - 1]? == some '\n'
  if ok && lit.isPrefixOf (s.drop n) then some (n + lit.length) else none

/-- `\s*^[ \t\v]*P\-` -/
def lstmtMinus (p : Str) (prev : Option Char) (s : Str) : Option Nat :=
  runThenLit isVBlank (isBol prev) (p ++ ['-']) s
/-- `^[ \t\v]*P` -/
def lstmtPlain (p : Str) (prev : Option Char) (s : Str) : Option Nat :=
  if isBol prev then skipLit isVBlank p s else none
/-- `\s*(?:^|(?<=\S))[^\S\r\n]*Q\-` -/
def lcmtMinus (q : Str) (prev : Option Char) (s : Str) : Option Nat :=
  runThenLit isHSpace (isBol prev || prevNonSpace prev) (q ++ ['-']) s
/-- `(?:^|(?<=\S))[^\S\r\n]*Q` -/
def lcmtPlain (q : Str) (prev : Option Char) (s : Str) : Option Nat :=
  if isBol prev || prevNonSpace prev then skipLit isHSpace q s else none

/-! ## The root rule with all alternatives -/

/-- `compile_rules`: key `(len, name)`; names compare `variable > linestatement > linecomment > comment > block`. -/
def RKind.rank : RKind → Nat
  | .raw => 5 | .variable => 4 | .lstmt => 3 | .lcmt => 2 | .comment => 1 | .block => 0

def keyGt (a b : Nat × RKind) : Bool := a.1 > b.1 || (a.1 == b.1 && a.2.rank > b.2.rank)

def insertDesc (x : Nat × RKind) : List (Nat × RKind) → List (Nat × RKind)
  | [] => [x]
  | y :: ys => if keyGt x y then x :: y :: ys else y :: insertDesc x ys

/-- `sorted(rules, reverse=True)` -/
def Env.order (e : Env) : List RKind :=
  let base : List (Nat × RKind) := [(2, .comment), (2, .block), (2, .variable)]
  let r1 := match e.lineStmt with | some p => base ++ [(p.length, RKind.lstmt)] | none => base
  let r2 := match e.lineCmt with | some q => r1 ++ [(q.length, RKind.lcmt)] | none => r1
  (r2.foldr insertDesc []).map (·.2)

/-- one named group of the root pattern at the current offset -/
def altF (e : Env) (prev : Option Char) (s : Str) : RKind → Option Nat
  | .raw => rawBegin e.cfg (isBol prev) s
  | .variable => tagBegin e.cfg .variable (isBol prev) s
  | .comment => tagBegin e.cfg .comment (isBol prev) s
  | .block => tagBegin e.cfg .block (isBol prev) s
  | .lstmt =>
    match e.lineStmt with
    | some p => (lstmtMinus p prev s).or (lstmtPlain p prev s)
    | none => none
  | .lcmt =>
    match e.lineCmt with
    | some q => (lcmtMinus q prev s).or (lcmtPlain q prev s)
    | none => none

def firstAlt (e : Env) (prev : Option Char) (s : Str) : List RKind → Option (RKind × Nat)
  | [] => none
  | k :: ks =>
    match altF e prev s k with
    | some n => some (k, n)
    | none => firstAlt e prev s ks

def matchAtF (e : Env) (prev : Option Char) (s : Str) : Option (RKind × Nat) :=
  firstAlt e prev s (.raw :: e.order)

def pickF (here : Option (RKind × Nat)) (later : Option (Nat × RKind × Nat)) : Option (Nat × RKind × Nat) :=
  match here with
  | some (k, n) => some (0, k, n)
  | none =>
    match later with
    | some (o, k, n) => some (o + 1, k, n)
    | none => none

/-- the lazy `(.*?)` in front of the alternation; `prev` = character in front of the current offset -/
def findBeginF (e : Env) : Option Char → Str → Option (Nat × RKind × Nat)
  | _, [] => none
  | prev, c :: cs => pickF (matchAtF e prev (c :: cs)) (findBeginF e (some c) cs)

/-! ## Tokens -/

inductive TT where
  | data | rawBegin | variableBegin | commentBegin | blockBegin | lstmtBegin | lcmtBegin
  | comment | commentEnd | blockEnd | variableEnd | rawEnd | lstmtEnd | lcmt | lcmtEnd
  | whitespace | float | integer | name | string | operator
  deriving DecidableEq, Repr

inductive LexErr where
  /-- 'Missing end of comment tag' -/
  | missingComment
  /-- 'Missing end of raw directive' -/
  | missingRaw
  /-- 'unexpected char %r at %d' -/
  | unexpectedChar (c : Char)
  /-- "unexpected '%s'" -/
  | unexpectedClose (c : Char)
  /-- "unexpected '%s', expected '%s'" -/
  | unexpectedCloseExpected (c e : Char)
  deriving DecidableEq, Repr

inductive Tok where
  | tok (t : TT) (v : Str)
  /-- `TemplateSyntaxError` raised by `tokeniter` (always the last element) -/
  | err (e : LexErr)
  /-- the model's fuel ran out (never with the fuel `tokeniter` supplies) -/
  | outOfFuel
  deriving DecidableEq, Repr

/-- `if data or token not in ignore_if_empty: yield` for the tokens of `ignore_if_empty` -/
def optTok (t : TT) (v : Str) : List Tok := if v.isEmpty then [] else [.tok t v]

def RKind.beginTT : RKind → TT
  | .raw => .rawBegin | .variable => .variableBegin | .comment => .commentBegin | .block => .blockBegin
  | .lstmt => .lstmtBegin | .lcmt => .lcmtBegin

/-- What a state entered by a begin token produces: its tokens and where the root state continues, or its tokens
when `tokeniter` ends inside the state (error raised, or end of text: the generator just returns). -/
inductive Inner where
  | done (toks : List Tok) (rest : Str) (prev : Option Char)
  | halt (toks : List Tok)
  deriving DecidableEq, Repr

def Inner.cons (t : Tok) : Inner → Inner
  | .done ts r p => .done (t :: ts) r p
  | .halt ts => .halt (t :: ts)

/-- smallest offset at which `f` matches (the lazy `(.*?)` of the comment / raw / line comment rules) -/
def findFirst (f : Option Char → Str → Option Nat) : Option Char → Str → Option (Nat × Nat)
  | _, [] => none
  | prev, c :: cs =>
    match f prev (c :: cs) with
    | some n => some (0, n)
    | none =>
      match findFirst f (some c) cs with
      | some (o, n) => some (o + 1, n)
      | none => none

/-! ## comment, raw, line comment -/

/-- `(?:\-CE\s*|CE)\n?` for a two-character end string `CE` (`#}` or `%}`); `\n?` only when `trimNl`.
After the greedy `\s*` there is no newline left for `\n?`. -/
def closeAt (c1 c2 : Char) (trimNl : Bool) (s : Str) : Option Nat :=
  if ['-', c1, c2].isPrefixOf s then some (3 + spanLen isSpace (s.drop 3))
  else if [c1, c2].isPrefixOf s then some (if trimNl && (s.drop 2).head? == some '\n' then 3 else 2)
  else none

def lexComment (trim : Bool) (prev : Option Char) (s : Str) : Inner :=
  match findFirst (fun _ t => closeAt '#' '}' trim t) prev s with
  | some (o, n) =>
    .done (optTok .comment (s.take o) ++ [.tok .commentEnd ((s.drop o).take n)]) (s.drop (o + n))
      (prevAfter prev (s.take (o + n)))
  | none => if s.isEmpty then .halt [] else .halt [.err .missingComment]

/-- `\s*KW\s*(?:\-%}\s*|%}NL)` with `NL = \n?` when `trimNl` -/
def kwTail (kw : Str) (trimNl : Bool) (s : Str) : Option Nat :=
  let n := spanLen isSpace s
  let s1 := s.drop n
  if kw.isPrefixOf s1 then
    let s2 := s1.drop kw.length
    let m := spanLen isSpace s2
    let s3 := s2.drop m
    if ['-', '%', '}'].isPrefixOf s3 then some (n + kw.length + m + 3 + spanLen isSpace (s3.drop 3))
    else if ['%', '}'].isPrefixOf s3 then
      some (n + kw.length + m + 2 + (if trimNl && (s3.drop 2).head? == some '\n' then 1 else 0))
    else none
  else none

def thenKw (kw : Str) (trimNl : Bool) (a : Option Nat) (s : Str) : Option Nat :=
  match a with
  | some n => (kwTail kw trimNl (s.drop n)).map (n + ·)
  | none => none

/-- `(?:\s*{%\-|B)\s*endraw\s*(?:\-%}\s*|%}\n?)` — upstream code, no Nunavut alternative -/
def rawEndAt (lstrip trim : Bool) (prev : Option Char) (s : Str) : Option Nat :=
  let st := Kind.raw.start
  let kw := ['e', 'n', 'd', 'r', 'a', 'w']
  (thenKw kw trim (altMinus st s) s).or
    (if lstrip then (thenKw kw trim (altLstrip st true (isBol prev) s) s).or (thenKw kw trim (altPlusOpt st s) s)
     else thenKw kw trim (altPlain st s) s)

def lexRaw (lstrip trim : Bool) (prev : Option Char) (s : Str) : Inner :=
  match findFirst (rawEndAt lstrip trim) prev s with
  | some (o, n) =>
    .done (optTok .data (s.take o) ++ [.tok .rawEnd ((s.drop o).take n)]) (s.drop (o + n))
      (prevAfter prev (s.take (o + n)))
  | none => if s.isEmpty then .halt [] else .halt [.err .missingRaw]

/-- `(.*?)()(?=\n|$)`: everything up to the next `\n` (exclusive) or the end; the end token is empty but is
yielded (`linecomment_end` is not in `ignore_if_empty`). -/
def lexLineComment (prev : Option Char) (s : Str) : Inner :=
  let o := spanLen (fun c => c != '\n') s
  .done (optTok .lcmt (s.take o) ++ [.tok .lcmtEnd []]) (s.drop o) (prevAfter prev (s.take o))

/-! ## block, variable, line statement: the tag rules -/

inductive TagState where
  | block | variable | lstmt
  deriving DecidableEq, Repr

def TagState.endTT : TagState → TT
  | .block => .blockEnd | .variable => .variableEnd | .lstmt => .lstmtEnd

/-- offset just behind the last `\n` of a string -/
def lastNlEnd : Str → Option Nat
  | [] => none
  | c :: cs =>
    match lastNlEnd cs with
    | some k => some (k + 1)
    | none => if c = '\n' then some 1 else none

/-- `\s*(\n|$)`: the greedy run if it reaches the end of the text, else the run cut behind its last `\n`. -/
def lineEndAt (s : Str) : Option Nat :=
  let n := spanLen isSpace s
  if n = s.length then some n else lastNlEnd (s.take n)

def endAt (st : TagState) (trim : Bool) (s : Str) : Option Nat :=
  match st with
  | .block => closeAt '%' '}' trim s
  | .variable => closeAt '}' '}' false s
  | .lstmt => lineEndAt s

/-- body and closing quote of a string literal: `[^q\\]*(?:\\.[^q\\]*)*q` (`.` matches everything under `re.S`) -/
def strBody (q : Char) : Nat → Str → Option Nat
  | 0, _ => none
  | _ + 1, [] => none
  | fuel + 1, c :: cs =>
    if c = q then some 1
    else if c = '\\' then
      match cs with
      | [] => none
      | _ :: cs' => (strBody q fuel cs').map (· + 2)
    else (strBody q fuel cs).map (· + 1)

def stringAt (s : Str) : Option Nat :=
  match s with
  | q :: rest => if q = '\'' || q = '"' then (strBody q (rest.length + 1) rest).map (· + 1) else none
  | [] => none

/-- `(?<!\.)\d+\.\d+` -/
def floatAt (tb : Tables) (prev : Option Char) (s : Str) : Option Nat :=
  let d1 := spanLen tb.isDigit s
  let t := s.drop d1
  let d2 := spanLen tb.isDigit (t.drop 1)
  if prev != some '.' && d1 > 0 && t.head? == some '.' && d2 > 0 then some (d1 + 1 + d2) else none

/-- first alternative of `operator_re` that is a prefix -/
def operatorAt : List Str → Str → Option Nat
  | [], _ => none
  | op :: ops, s => if op.isPrefixOf s then some op.length else operatorAt ops s

def posSpan (p : Char → Bool) (s : Str) : Option Nat :=
  let n := spanLen p s
  if n > 0 then some n else none

def closerOf (c : Char) : Option Char :=
  if c = '{' then some '}' else if c = '(' then some ')' else if c = '[' then some ']' else none

def isCloser (c : Char) : Bool := c = '}' || c = ')' || c = ']'

/-- what one turn of the `tokeniter` loop does inside a block / variable / line statement -/
inductive TagAct where
  /-- the end rule matched `n` characters: end token, `#pop` -/
  | finish (n : Nat)
  /-- a tag rule matched `n` characters: token of type `t`, new balancing stack -/
  | emit (t : TT) (n : Nat) (bal : List Char)
  /-- `tokeniter` ends here: nothing matches at the end of the text (`[]`), or an error is raised -/
  | stop (toks : List Tok)
  deriving DecidableEq, Repr

/-- the operator rule with the brace balancing of `tokeniter` (`bal` = `balancing_stack`, top first) -/
def operatorAct (bal : List Char) (op : Str) : TagAct :=
  match op with
  | [c] =>
    match closerOf c with
    | some cl => .emit .operator 1 (cl :: bal)
    | none =>
      if isCloser c then
        match bal with
        | [] => .stop [.err (.unexpectedClose c)]
        | top :: bal' => if top = c then .emit .operator 1 bal' else .stop [.err (.unexpectedCloseExpected c top)]
      else .emit .operator 1 bal
  | _ => .emit .operator op.length bal

/-- The rules of a tag state in the order `tokeniter` tries them (`fl` = what `float_re` matches here — the only
rule with a look-behind).  The end rule is skipped while the balancing stack is non-empty. -/
def tagRules (tb : Tables) (st : TagState) (trim : Bool) (bal : List Char) (fl : Option Nat) (s : Str) : TagAct :=
  match (if bal.isEmpty then endAt st trim s else none) with
  | some n => .finish n
  | none =>
  match posSpan isSpace s with
  | some n => .emit .whitespace n bal
  | none =>
  match fl with
  | some n => .emit .float n bal
  | none =>
  match posSpan tb.isDigit s with
  | some n => .emit .integer n bal
  | none =>
  match posSpan tb.isWord s with
  | some n => .emit .name n bal
  | none =>
  match stringAt s with
  | some n => .emit .string n bal
  | none =>
  match operatorAt tb.operators s with
  | some n => operatorAct bal (s.take n)
  | none =>
    match s with
    | [] => .stop []
    | c :: _ => .stop [.err (.unexpectedChar c)]

def tagAct (tb : Tables) (st : TagState) (trim : Bool) (bal : List Char) (prev : Option Char) (s : Str) : TagAct :=
  tagRules tb st trim bal (floatAt tb prev s) s

/-- The loop of `tokeniter` inside a block / variable / line statement (`fuel`: `s.length + 1` suffices). -/
def lexTag (tb : Tables) (st : TagState) (trim : Bool) : Nat → List Char → Option Char → Str → Inner
  | 0, _, _, _ => .halt [.outOfFuel]
  | fuel + 1, bal, prev, s =>
    match tagAct tb st trim bal prev s with
    | .finish n => .done [.tok st.endTT (s.take n)] (s.drop n) (prevAfter prev (s.take n))
    | .emit t n bal' =>
      (lexTag tb st trim fuel bal' (prevAfter prev (s.take n)) (s.drop n)).cons (.tok t (s.take n))
    | .stop toks => .halt toks

/-- The state entered by a begin token of kind `k`.  No dependence on Nunavut's edit. -/
def innerF (lstrip trim : Bool) (tb : Tables) (k : RKind) (prev : Option Char) (s : Str) : Inner :=
  match k with
  | .raw => lexRaw lstrip trim prev s
  | .comment => lexComment trim prev s
  | .lcmt => lexLineComment prev s
  | .variable => lexTag tb .variable trim (s.length + 1) [] prev s
  | .block => lexTag tb .block trim (s.length + 1) [] prev s
  | .lstmt => lexTag tb .lstmt trim (s.length + 1) [] prev s

/-! ## `tokeniter` -/

/-- after a tag state: its tokens, then the root state again (`#pop`) — or the end of `tokeniter` -/
def Inner.andThen (i : Inner) (next : Option Char → Str → List Tok) : List Tok :=
  match i with
  | .done toks rest prev => toks ++ next prev rest
  | .halt toks => toks

/-- The loop of `Lexer.tokeniter` from the root state (`fuel`: `src.length + 1` suffices — every root step consumes
at least the begin token). -/
def lexF (e : Env) (tb : Tables) : Nat → Option Char → Str → List Tok
  | 0, _, _ => [.outOfFuel]
  | fuel + 1, prev, src =>
    match findBeginF e prev src with
    | none => if src.isEmpty then [] else [.tok .data src]
    | some (o, k, n) =>
      optTok .data (src.take o) ++ .tok k.beginTT ((src.drop o).take n) ::
        (innerF e.lstrip e.trim tb k (prevAfter prev (src.take (o + n))) (src.drop (o + n))).andThen (lexF e tb fuel)

/-- `Lexer.tokeniter(source)`: normalisation, then the rules from the root state at offset 0. -/
def tokeniter (e : Env) (tb : Tables) (keep : Bool) (source : Str) : List Tok :=
  let src := normalizeSource keep source
  lexF e tb (src.length + 1) none src

def countNl (s : Str) : Nat := s.count '\n'

/-- the `lineno` tokeniter reports with each token: 1 + the newlines in everything yielded (or skipped as empty) before -/
def linenos : Nat → List Tok → List (Nat × Tok)
  | _, [] => []
  | l, .tok t v :: ts => (l, .tok t v) :: linenos (l + countNl v) ts
  | l, t :: ts => (l, t) :: linenos l ts

/-! ## `Lexer.wrap`: what the parser sees -/

/-- `newline_re.sub(newline_sequence, value)`, `newline_re = (\r\n|\r|\n)` -/
def normNewlines (seq : Str) : Str → Str
  | [] => []
  | '\r' :: '\n' :: cs => seq ++ normNewlines seq cs
  | c :: cs => if c = '\r' || c = '\n' then seq ++ normNewlines seq cs else c :: normNewlines seq cs

inductive PTok where
  /-- `Token(lineno, type, value)`; for name / string / integer / float / operator tokens `value` is the source
  text (the conversion `wrap` applies to it — `str`, unescape, `int`, `float`, `operators[…]` — is a function of
  that text alone and is not modelled) -/
  | tok (lineno : Nat) (t : TT) (v : Str)
  | err (lineno : Nat) (e : LexErr)
  | outOfFuel
  deriving DecidableEq, Repr

/-- `ignored_tokens` + the raw begin / end tokens `wrap` drops -/
def droppedByWrap (t : TT) : Bool :=
  t = .commentBegin || t = .comment || t = .commentEnd || t = .whitespace || t = .lcmtBegin || t = .lcmtEnd ||
  t = .lcmt || t = .rawBegin || t = .rawEnd

def wrapType (t : TT) : TT :=
  if t = .lstmtBegin then .blockBegin else if t = .lstmtEnd then .blockEnd else t

def wrap (seq : Str) : List (Nat × Tok) → List PTok
  | [] => []
  | (l, .tok t v) :: ts =>
    if droppedByWrap t then wrap seq ts
    else .tok l (wrapType t) (if t = .data then normNewlines seq v else v) :: wrap seq ts
  | (l, .err e) :: _ => [.err l e]
  | (_, .outOfFuel) :: _ => [.outOfFuel]

/-- `Lexer.tokenize` up to the value conversions: `wrap(tokeniter(source))` -/
def tokenize (e : Env) (tb : Tables) (keep : Bool) (seq : Str) (source : Str) : List PTok :=
  wrap seq (linenos 1 (tokeniter e tb keep source))

/-- `value.endswith(a + b + c)` -/
def endsWith3 (a b c : Char) (v : Str) : Bool :=
  match v.reverse with
  | z :: y :: x :: _ => x = a && y = b && z = c
  | _ => false

/-- `token.value.endswith(variable_start_string + '*')` for the default start string -/
def isVariableMarker (v : Str) : Bool := endsWith3 '{' '{' '*' v
/-- `token.value.endswith(block_start_string + '*')` for the default start string -/
def isBlockMarker (v : Str) : Bool := endsWith3 '{' '%' '*' v

/-- `Parser.subparse` (repaired, fix_marker_is_start_plus_star): does this parser-visible begin token get the `lineprefix`
wrapper — its text ends in the start string followed by `*`.  A line statement whose prefix merely ends in `*` does not. -/
def parserWraps (t : PTok) : Bool :=
  match t with
  | .tok _ ty v => (ty = .blockBegin && isBlockMarker v) || (ty = .variableBegin && isVariableMarker v)
  | _ => false

/-- the parser as found: `token.value.endswith('*')` — every line statement of an environment whose
`line_statement_prefix` ends in `*` is taken for an auto-indent block -/
def parserWrapsBeforeFix (t : PTok) : Bool :=
  match t with
  | .tok _ ty v => (ty = .blockBegin || ty = .variableBegin) && v.getLast? == some '*'
  | _ => false

/-! ## vocabulary of the marker theorems -/

def Kind.toR : Kind → RKind
  | .raw => .raw | .variable => .variable | .comment => .comment | .block => .block

/-- `{{` opens a variable, `{%` a block -/
def kindOf (c : Char) : Kind := if c = '{' then Kind.variable else Kind.block

/-- the text after a begin sequence does not start with one of the sign characters that change what the sequence
means: `{%-` (strip), `{%*` (Nunavut's marker), `{%+` (no lstrip) -/
def noSign (t : Str) : Prop := t.head? ≠ some '-' ∧ t.head? ≠ some '*' ∧ t.head? ≠ some '+'

/-- `Environment` settings as Nunavut leaves them: no line statements, no line comments -/
def Env.noLinePrefixes (e : Env) : Prop := e.lineStmt = none ∧ e.lineCmt = none

/-- ASCII instance of the tables (for closed examples; the driver uses the generated tables) -/
def asciiTables : Tables where
  isWord c := c.isAlphanum || c = '_'
  isDigit c := c.isDigit
  operators := [['/', '/'], ['*', '*'], ['=', '='], ['!', '='], ['>', '='], ['<', '=']] ++
    "+-/*%~[](){}><=.:|,;".toList.map fun c => [c]

end NunavutVerif.Lexer
