import NunavutVerif.Model.Resolve
/-!
Model of the template loader over an ORDERED LIST of user template directories (property C16, round 2).

* `FileSystemLoader.list_templates` (src/nunavut/jinja/jinja2/loaders.py): the set of names found under ALL search
  paths, `sorted(found)` (Python `str` order = lexicographic by code point);
* `FileSystemLoader.get_source`: the FIRST search path that has the file (`fsSource` in Model/Resolve.lean);
* `DSDLTemplateLoader.__init__`: which of the two Jinja loaders exist for (templates_dirs, package, search policy);
* `DSDLTemplateLoader.type_to_template` over such a loader (`lookupDirs`): the stem -> path dict is built from the
  package listing, then updated with the file-system listing;
* `DSDLTemplateLoader.get_templates` (part of what `--list-inputs` reports, through `get_template_inputs`): `glob("**/*.j2")` under EVERY search path plus the
  suffix-filtered package listing.

A user directory is a `Store` (relative name ↦ content id) of the regular files `os.walk` reaches, i.e. no file below a
symbolic-linked sub-directory when `followlinks` is off (those open but are not listed — `getSourceAt`'s comment).
Core Lean only.
-/
namespace NunavutVerif.Resolve

/-! ## Python's `str` order and `sorted(set(...))` -/

/-- `a < b` for Python strings: lexicographic by code point, a proper prefix is smaller. -/
def pathLt : Path → Path → Bool
  | [], [] => false
  | [], _ :: _ => true
  | _ :: _, [] => false
  | x :: xs, y :: ys =>
    if x.toNat < y.toNat then true
    else if y.toNat < x.toNat then false
    else pathLt xs ys

/-- Insert into a strictly increasing list; an element already present is not inserted again (`found` is a set). -/
def insertSorted (x : Path) : List Path → List Path
  | [] => [x]
  | y :: ys =>
    if pathLt x y then x :: y :: ys
    else if x = y then y :: ys
    else y :: insertSorted x ys

/-- `sorted(set(xs))`. -/
def sortDedup : List Path → List Path
  | [] => []
  | x :: xs => insertSorted x (sortDedup xs)

/-- The names a directory holds. -/
def names (d : Store) : List Path := d.map (·.1)

/-- `FileSystemLoader.list_templates()`: every name found under ANY search path, each once, sorted. -/
def fsList (dirs : List Store) : List Path := sortDedup (dirs.flatMap names)

/-- `PackageLoader.list_templates()`: the names of the package directory, sorted. -/
def pkgList (pkg : Store) : List Path := sortDedup (names pkg)

/-! ## Which loaders exist -/

inductive Policy | findFirst | findAll
deriving DecidableEq, Repr

/-- `DSDLTemplateLoader.__init__`: the file-system loader exists iff `templates_dirs` is given; the package loader
exists iff a package is named and (the policy is FIND_ALL or there is no file-system loader). -/
def loaderSources (policy : Policy) (dirs : Option (List Store)) (pkg : Option Store) :
    Option (List Store) × Option Store :=
  (dirs, match pkg with
    | none => none
    | some s => if policy = .findAll ∨ dirs.isNone then some s else none)

/-! ## `type_to_template` over a directory list -/

/-- The `(stem, path)` pairs of the file-system loader's listing. -/
def dirsTemplates (sfx : Name) (dirs : List Store) : Templates := templatesOf sfx (fsList dirs)

def pkgTemplates (sfx : Name) (pkg : Store) : Templates := templatesOf sfx (pkgList pkg)

/-- `DSDLTemplateLoader.type_to_template` on a loader with user directories `dirs` (in search-path order) and
package `pkg` (`none` = that loader does not exist). -/
def lookupDirs (H : Hier) (sfx : Name) (fuel : Nat) (cache : Cache) (dirs : Option (List Store))
    (pkg : Option Store) (c : Cls) : Option (Option Path × Cache) :=
  lookup H fuel cache (dirs.map (dirsTemplates sfx)) (pkg.map (pkgTemplates sfx)) c

/-- The index of the first directory that has the name (`FileSystemLoader.get_source`'s loop), with the content. -/
def firstDir : List Store → Path → Option (Nat × Nat)
  | [], _ => none
  | d :: ds, t =>
    match sfind d t with
    | some v => some (0, v)
    | none => (firstDir ds t).map fun r => (r.1 + 1, r.2)

/-- The paths `type_to_template` can return: for every stem of the merged dict, the path the dict holds. -/
def candidates (sfx : Name) (dirs : Option (List Store)) (pkg : Option Store) : List Path :=
  let m := merged (dirs.map (dirsTemplates sfx)) (pkg.map (pkgTemplates sfx))
  (m.filter fun e => tfind m e.1 = some e.2).map (·.2)

/-! ## `get_templates` -/

/-- `fnmatch(name, "*" + suffix)` on the last path component: what `glob("**/*.j2")` selects among files. -/
def globMatch (sfx : Name) (p : Path) : Bool := sfx.isSuffixOf (baseName p)

/-- The suffix filter `_filter_template_list_by_suffix` (`Path(f).suffix == TEMPLATE_SUFFIX`). -/
def suffixMatch (sfx : Name) (p : Path) : Bool := (splitExt (baseName p)).2 = sfx

def enumDir (sfx : Name) (i : Nat) (d : Store) : List (Origin × Nat × Path) :=
  ((names d).filter (globMatch sfx)).map fun p => (Origin.user, i, p)

def enumDirs (sfx : Name) : Nat → List Store → List (Origin × Nat × Path)
  | _, [] => []
  | i, d :: ds => enumDir sfx i d ++ enumDirs sfx (i + 1) ds

/-- `DSDLTemplateLoader.get_templates()` as a list of files `(origin, index of the user directory, relative name)`:
every file under every user directory whose name matches `*<suffix>` — ALL directories, also a file shadowed by a
same-named file of an earlier directory — and every package file that passes the suffix filter.  (The code returns
sorted absolute paths; the model keeps the components.) -/
def getTemplates (sfx : Name) (dirs : Option (List Store)) (pkg : Option Store) : List (Origin × Nat × Path) :=
  (match dirs with
    | some ds => enumDirs sfx 0 ds
    | none => []) ++
  (match pkg with
    | some s => ((pkgList s).filter (suffixMatch sfx)).map fun p => (Origin.builtin, 0, p)
    | none => [])

end NunavutVerif.Resolve
