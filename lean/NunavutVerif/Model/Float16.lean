/-!
# Model of the half-precision conversion shipped with generated C and C++ code (property C14, float part)

Transcription of `nunavutFloat16Pack` / `nunavutFloat16Unpack`
(`src/nunavut/lang/c/support/serialization.j2`; the C++ `float16Pack` / `float16Unpack` in
`src/nunavut/lang/cpp/support/serialization.j2` are the same statements with `static_cast`s) **on bit patterns**:
a binary32 value is the `Nat` below `2^32` holding its IEEE-754 encoding, a binary16 value the `Nat` below `2^16`.

Two packers are transcribed: `pack` = the function as shipped (ties round away from zero, defect candidate F14 of
the cross-target property C03) and `packRneC` = the function after the repair
`agent_out/CODEC_HARNESS/fix_float16_ties_to_even.diff` (ties to even).  Property C14 holds for both; the harness
recognises which of the two shapes the tree under check has and ties that one.  `packRne` is the Python target
(`struct.pack("<e")`), proved equal to `packRneC`.

The code reinterprets the pattern as a `float`, multiplies by (resp. adds) a constant and reinterprets back.  That
hardware operation is *modelled* by `f32mul` / `f32add` (IEEE-754 binary32 product / sum of two finite
non-negative operands, default rounding mode round-to-nearest-even, gradual underflow, overflow to infinity); the
assumption "the target's `*` / `+` is this function" is validated by the correspondence runs (random operand
pairs against the hardware, and through `pack`/`unpack` on every swept input), not proved.

Core Lean only; only kernel-accelerated `Nat` operations (`+ - * / % >>> <<< &&& ||| ^^^ ble beq`) in the hot
paths, no `Int`, no `Nat.log2` (measured: `Nat.log2` is not accelerated in the kernel, ≈ 2.5 ms per call).

Besides the implementation-shaped functions there is the specification-level reading of a pattern as an exact
dyadic number (`F32.mag`, `F16.mag`, `F32.val`, `F16.val`: integers in units of `2^-149`), against which
"exact", "nearest", "faithful" and "monotone" are stated.
-/
namespace NunavutVerif.Float16

/-! ## floor(log2) of a number below 2^64 by six comparisons -/

def lgA (p r : Nat) : Nat := bif Nat.ble 2 p then r + 1 else r
def lgB (p r : Nat) : Nat := bif Nat.ble 4 p then lgA (p >>> 2) (r + 2) else lgA p r
def lgC (p r : Nat) : Nat := bif Nat.ble 16 p then lgB (p >>> 4) (r + 4) else lgB p r
def lgD (p r : Nat) : Nat := bif Nat.ble 256 p then lgC (p >>> 8) (r + 8) else lgC p r
def lgE (p r : Nat) : Nat := bif Nat.ble 65536 p then lgD (p >>> 16) (r + 16) else lgD p r
/-- `lg p = ⌊log2 p⌋` for `0 < p < 2^64` (and `0` for `p = 0`). -/
def lg (p : Nat) : Nat := bif Nat.ble 4294967296 p then lgE (p >>> 32) 32 else lgE p 0

/-! ## round to nearest, ties to even -/

/-- `rne P s` = `P / 2^s` rounded to the nearest integer, ties to the even one (`s ≥ 1`). -/
def rne (P s : Nat) : Nat :=
  let q := P >>> s
  let r := P % 2 ^ s
  let h := 2 ^ (s - 1)
  bif Nat.blt h r || (Nat.beq r h && Nat.beq (q % 2) 1) then q + 1 else q

/-! ## the modelled hardware operation -/

/-- Round the exact value `P · 2^(E-300)` (`P < 2^48`) to binary32, result as a bit pattern.
The carry out of the significand on round-up moves into the exponent field by plain addition. -/
def f32round (P E : Nat) : Nat :=
  bif Nat.beq P 0 then 0 else
  let L := lg P
  let r :=
    bif Nat.ble 174 (L + E) then
      -- normal result: 24 significant bits
      (L + E - 174) * 8388608 + (bif Nat.ble L 23 then P <<< (23 - L) else rne P (L - 23))
    else
      -- subnormal result: unit 2^-149
      (bif Nat.ble 151 E then P <<< (E - 151) else rne P (151 - E))
  bif Nat.ble 2139095040 r then 2139095040 else r

/-- IEEE-754 binary32 product (round-to-nearest-even) of two **finite, non-negative** operands given as bit
patterns `< 0x7F800000`.  (The conversion code never multiplies anything else: `pack` branches away on
infinities and NaNs and clears the sign first; `unpack` multiplies a pattern below `2^28`.) -/
def f32mul (a b : Nat) : Nat :=
  let ea := a >>> 23
  let eb := b >>> 23
  let Ma := bif Nat.beq ea 0 then a else a % 8388608 + 8388608
  let Mb := bif Nat.beq eb 0 then b else b % 8388608 + 8388608
  let Ea := bif Nat.beq ea 0 then 1 else ea
  let Eb := bif Nat.beq eb 0 then 1 else eb
  f32round (Ma * Mb) (Ea + Eb)

/-- IEEE-754 binary32 sum (round-to-nearest-even) of two **finite, non-negative** operands given as bit
patterns `< 0x7F800000`.  With the larger operand normal the exact sum `S` (an integer in units of the smaller
operand's ulp) has its leading bit at one of two positions, so no logarithm is needed.
Only used by the repaired packer `packRneC` (`in.real += 0.5f`). -/
def f32add (a b : Nat) : Nat :=
  let hi := bif Nat.ble a b then b else a
  let lo := bif Nat.ble a b then a else b
  let eh := hi >>> 23
  bif Nat.beq eh 0 then hi + lo else            -- both subnormal or zero: exact, a carry lands in the exponent field
  let el := lo >>> 23
  let Mh := hi % 8388608 + 8388608
  let Ml := bif Nat.beq el 0 then lo else lo % 8388608 + 8388608
  let El := bif Nat.beq el 0 then 1 else el
  let d := eh - El
  let S := Mh <<< d + Ml                        -- exact sum = S · 2^(El-150),  2^(23+d) ≤ S < 2^(25+d)
  let r := bif Nat.blt S (2 ^ (24 + d)) then (eh - 1) * 8388608 + rne S d
           else eh * 8388608 + rne S (d + 1)
  bif Nat.ble 2139095040 r then 2139095040 else r

/-! ## the generated code, statement by statement -/

/-- `nunavutFloat16Pack` (C) / `float16Pack` (C++) **as shipped before the F14 repair** (ties round away from zero)
on the bit pattern `x < 2^32` of the argument. -/
def pack (x : Nat) : Nat :=
  let sign := x &&& 0x80000000                       -- in.bits & (1U << 31U)
  let a := x ^^^ sign                                -- in.bits ^= sign
  let out :=
    bif Nat.ble 0x7F800000 a then                    -- if (in.bits >= f32inf.bits)
      bif Nat.beq (a &&& 0x7FFFFF) 0 then
        (bif Nat.blt 0x7F800000 a then 0x7FFF else 0x7C00)
      else 0x7E00
    else
      let b := a &&& 0xFFFFF000                      -- in.bits &= round_mask
      let c := f32mul b 0x07800000                   -- in.real *= magic.real   (magic = 15 << 23 = 2^-112)
      let d := (c + 0x100000000 - 0xFFFFF000) % 0x100000000   -- in.bits -= round_mask  (uint32 wrap-around)
      let e := bif Nat.blt 0x0F800000 d then 0x0F800000 else d -- clamp to f16inf = 31 << 23
      (e >>> 13) % 0x10000                           -- (uint16_t)(in.bits >> 13U)
  out ||| ((sign >>> 16) % 0x10000)                  -- out |= (uint16_t)(sign >> 16U)

/-- The **repaired** `nunavutFloat16Pack` / `float16Pack` (round-to-nearest, ties-to-even; fix for F14,
`agent_out/CODEC_HARNESS/fix_float16_ties_to_even.diff`), statement by statement on the bit pattern `x < 2^32`.
`pack` above is the packer before that repair. -/
def packRneC (x : Nat) : Nat :=
  let sign := x &&& 0x80000000                       -- in.bits & (1U << 31U)
  let a := x ^^^ sign                                -- in.bits ^= sign
  let out :=
    bif Nat.ble 0x47800000 a then                    -- if (in.bits >= f16max.bits)     f16max = (127+16) << 23
      (bif Nat.blt 0x7F800000 a then 0x7E00 else 0x7C00)
    else bif Nat.blt a 0x38800000 then               -- else if (in.bits < (113U << 23U))
      let s := f32add a 0x3F000000                   -- in.real += denorm_magic.real    denorm_magic = 126 << 23 = 0.5f
      ((s + 0x100000000 - 0x3F000000) % 0x100000000) % 0x10000   -- (uint16_t)(in.bits - denorm_magic.bits)
    else
      let odd := (a >>> 13) &&& 1                    -- mant_odd = (in.bits >> 13U) & 1U
      let b := (a + 0x100000000 - 0x38000000) % 0x100000000      -- in.bits -= 112U << 23U
      let c := (b + (0x0FFF + odd)) % 0x100000000    -- in.bits += 0x0FFFU + mant_odd
      (c >>> 13) % 0x10000                           -- (uint16_t)(in.bits >> 13U)
  out ||| ((sign >>> 16) % 0x10000)                  -- out |= (uint16_t)(sign >> 16U)

/-- `nunavutFloat16Unpack` (C) / `float16Unpack` (C++) on the bit pattern `h < 2^16`; result is the pattern of
the returned `float`.  The comparison `out.real >= inf_nan.real` is between two non-negative non-NaN floats and
is therefore the comparison of their patterns. -/
def unpack (h : Nat) : Nat :=
  let o := (h &&& 0x7FFF) <<< 13                     -- out.bits = (value & 0x7FFF) << 13
  let o := f32mul o 0x77800000                       -- out.real *= magic.real   (magic = 0xEF << 23 = 2^112)
  let o := bif Nat.ble 0x47800000 o then o ||| 0x7F800000 else o   -- if (out.real >= 65536.0f) bits |= 0xFF << 23
  o ||| ((h &&& 0x8000) <<< 16)

/-! ## the Python target

`Serializer._float_to_bytes("e", x)` is `struct.pack("<e", x)` with `OverflowError` turned into ±infinity.
CPython's `'e'` conversion is IEEE round-to-nearest-**even** and raises `OverflowError` exactly when the rounded
magnitude would exceed 65504, keeps the sign of a NaN and produces the quiet NaN `0x7E00`.  `packRne` is that
behaviour on binary32 inputs (modelled; validated by the correspondence run against the generated Python). -/
def packRne (x : Nat) : Nat :=
  let s := x >>> 31
  let a := x % 0x80000000
  let e := a >>> 23
  let out :=
    bif Nat.ble 0x7F800000 a then (bif Nat.beq a 0x7F800000 then 0x7C00 else 0x7E00)
    else bif Nat.ble 113 e then
      -- normal half candidate: drop 13 bits with RNE; the carry moves into the exponent field
      let r := rne (a - 0x38000000) 13
      bif Nat.ble 0x7C00 r then 0x7C00 else r
    else rne (a % 8388608 + 8388608) (126 - e)   -- subnormal half: unit 2^-24 (for e = 0 the shift is 126: zero)
  out + s * 0x8000

/-! ## specification level: the exact value of a pattern, in units of 2^-149 -/

/-- `|x| · 2^149` for a binary32 pattern.  For the two infinities the formula yields `2^128 · 2^149`, the usual
IEEE convention (the value the pattern would have if the top binade were an ordinary one), which keeps the
order of the extended reals; NaN patterns are excluded by hypothesis wherever `mag` is used. -/
def F32.mag (x : Nat) : Nat :=
  let a := x % 2147483648
  let e := a / 8388608
  let m := a % 8388608
  bif Nat.beq e 0 then m else (8388608 + m) * 2 ^ (e - 1)

/-- `|h| · 2^149` for a binary16 pattern (infinity ↦ `65536 · 2^149`, same convention). -/
def F16.mag (h : Nat) : Nat :=
  let a := h % 32768
  let e := a / 1024
  let m := a % 1024
  (bif Nat.beq e 0 then m else (1024 + m) * 2 ^ (e - 1)) * 2 ^ 125

def F32.neg (x : Nat) : Bool := Nat.ble 2147483648 (x % 4294967296)
def F16.neg (h : Nat) : Bool := Nat.ble 32768 (h % 65536)

/-- The real number denoted by a (non-NaN) binary32 pattern, times `2^149`. -/
def F32.val (x : Nat) : Int := bif F32.neg x then -(F32.mag x : Int) else (F32.mag x : Int)
/-- The real number denoted by a (non-NaN) binary16 pattern, times `2^149`. -/
def F16.val (h : Nat) : Int := bif F16.neg h then -(F16.mag h : Int) else (F16.mag h : Int)

def F32.isNaN (x : Nat) : Bool := Nat.blt 0x7F800000 (x % 2147483648)
def F32.isInf (x : Nat) : Bool := Nat.beq (x % 2147483648) 0x7F800000
def F32.isFinite (x : Nat) : Bool := Nat.blt (x % 2147483648) 0x7F800000
def F16.isNaN (h : Nat) : Bool := Nat.blt 0x7C00 (h % 32768)
def F16.isInf (h : Nat) : Bool := Nat.beq (h % 32768) 0x7C00
def F16.isFinite (h : Nat) : Bool := Nat.blt (h % 32768) 0x7C00

/-! ## finite-table helper -/

/-- `allBelow n p` ⇔ `p i` for every `i < n` (structural, so the kernel evaluates it). -/
def allBelow : Nat → (Nat → Bool) → Bool
  | 0, _ => true
  | n + 1, p => p n && allBelow n p

end NunavutVerif.Float16
