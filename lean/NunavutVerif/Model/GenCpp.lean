import NunavutVerif.Model.Dsdl
import NunavutVerif.Model.BitsCpp
import NunavutVerif.Model.GenC
/-!
# GenCpp — implementation-shaped model of the generated C++ codecs (C01, C02, C03, C04)

Transcription of what `src/nunavut/lang/cpp/templates/{serialization,deserialization}.j2` emit into the two free
functions of `_composite_type.j2`

    SerializeResult serialize  (const T& obj, nunavut::support::bitspan       out_buffer)
    SerializeResult deserialize(      T& obj, nunavut::support::const_bitspan in_buffer)

* serialization: `capacity_bits = out_buffer.size()`, the up-front check against `bit_length_set.max`
  (`-Error::SerializationBufferTooSmall`), the `bitspan` cursor (`add_offset`), `padAndMoveToAlignment` between
  fields and at the end, per field `setZeros` / `setBit` / `setUxx` / `setIxx` / `setF16/32/64` with the emitted
  saturation code, arrays element by element (the C++ templates have no bulk path: the special cases are commented
  out in the template), the length prefix, `subspan(bits_at, size_bits)` + nested `serialize` call for composites,
  the delimiter header written *after* the nested call at the not yet advanced cursor, the union tag +
  `if / else if` chain, `return out_buffer.offset_bytes_ceil()`;
* deserialization: `capacity_bits = in_buffer.size()`, `getBit` / `getU8…64` / `getI8…64` / `getF16/32/64` on a
  `const_bitspan` (implicit zero extension inside the getters), `align_offset_to<8>()`, `std::array` elements decoded
  in place, variable-length arrays `clear()` + `reserve()` + one `push_back` of a value-initialised temporary per
  element, `subspan()` for sealed and `subspan_bytes(header)` for delimited nested objects, `set_x()` (= `emplace`)
  + `get_x_if()` for unions, the three `Error::…` codes, `min(offset, capacity_bits) / 8`.

The `bitspan` operations are **not** re-modelled: `Cpp.setZeros`, `Cpp.setBit`, `Cpp.setUxx`, `Cpp.setIxx`,
`Cpp.padAndMoveToAlignment`, `Cpp.subspan`, `Cpp.getU`, `Cpp.getI`, `Cpp.getBit`, `Cpp.Span.size` are the C14 models of
`Model/BitsCpp.lean` (every `data_[k]` goes through the checked accessors: "memory safe" = "never `Err.prim _`").
Only the pure cursor arithmetic that C14 does not cover is written here (`add_offset`, `align_offset_to`,
`offset_bytes_ceil`, the window computed by `any_bitspan::subspan()` and `const_bitspan::subspan_bytes()`).

Conventions / seams (the same as `Model/GenC.lean`, whose vocabulary is reused)
* a span is (`data`, `offset_bits_`); a function that writes returns the new bytes of `data`; a nested call works on
  the window `(data.drop first).take nbytes` and the result is put back (functional rendering of the shared storage);
* the object is a `Dsdl.Val` (`GenC.storageOK`: integers fit `std::uintN_t`/`std::intN_t`, `float` members hold
  binary32 values); float *value* conversions (`float16Pack/Unpack`, the float16 saturation code, `(double) float`)
  are the spec's `narrow`/`widen` on patterns (C14-float's subject);
* error codes: `GenC.Err.ret (-k)` stands for `unexpected<Error>{Error(k)}` (3, 10, 11, 12 — the same numbers as C);
* the C++ templates select **no** path from alignment facts; `offset.is_aligned_at_byte()` only decides which
  `NUNAVUT_ASSERT(…offset_alings_to_byte())` are emitted.  With `enable_serialization_asserts` (`Opts.asserts`)
  every `NUNAVUT_ASSERT` of the two templates is an aborting branch (`Err.assert`); the generation-time claim is the
  oracle `Opts.orc` over GenC's static offset descriptors `AOff`, theorems hold for every `Sound` oracle;
* the destination object of `deserialize` is a parameter (`prior : Val`, shape = `hasTy`): members are assigned,
  `std::array` elements and nested composites are decoded in place, a data-free type leaves the object untouched.
  `Opts.clearFirst = true` is the template as it is (`reference.clear()` before the `push_back` loop, fix 46d1abc);
  `false` is the template before that fix (appends to what the container held);
* `size_t` wrap-around is not modelled (as in `Model/Bits.lean`).
-/
namespace NunavutVerif.GenCpp
open NunavutVerif.Dsdl NunavutVerif.Bits
open NunavutVerif.GenC (AOff resBits W liftP eTooSmall eBadArrayLength eBadUnionTag eBadDelimiterHeader
  satInt isStd storW floatBits serLoop deLoop trivVal trivVals trivHead padDe)

/-- outcomes other than success: `prim` (a C14 primitive failed: undefined behaviour in C++; proved unreachable),
`ret (-k)` (`unexpected<Error>{Error(k)}`), `illTyped` (the value is not an object of the type), `assert`
(a `NUNAVUT_ASSERT` failed; proved unreachable) -/
abbrev Err := GenC.Err

/-! ## Options -/

structure Opts where
  /-- the generation-time alignment oracle: answer of `offset.is_aligned_at_byte()` for a descriptor (decides which
      alignment assertions are emitted, nothing else) -/
  orc : AOff → Bool
  /-- `enable_serialization_asserts` -/
  asserts : Bool := false
  /-- `reference.clear();` is emitted before the `push_back` loop (the template as it is) -/
  clearFirst : Bool := true

/-- The oracle claims "aligned" only when every offset the descriptor allows is. -/
def Opts.Sound (o : Opts) : Prop := ∀ d, o.orc d = true → d.isAligned = true

/-- `NUNAVUT_ASSERT(c);` followed by `k` -/
def assertX {α : Type} (o : Opts) (c : Prop) [Decidable c] (k : Except Err α) : Except Err α :=
  if o.asserts = true ∧ ¬ c then .error .assert else k

/-- `if(not result){ return -result.error(); }` for a `VoidResult` (`has_value()` is `e == 0`) -/
def chkX (r : Except Bits.Err (Int × Buf)) : Except Err Buf :=
  match r with
  | .error e => .error (.prim e)
  | .ok (c, b) => if c ≠ 0 then .error (.ret c) else .ok b

/-! ## Cursor arithmetic of `any_bitspan` / `const_bitspan` that C14 does not model -/

/-- `offset_bytes_ceil()` -/
def offsetBytesCeil (off : Nat) : Nat := (off + 7) / 8

/-- `any_bitspan::subspan()` (no arguments): the rest of the data from the byte of the cursor on, offset `% 8` -/
def subspanRest (sp : Cpp.Span) : Cpp.Span :=
  let offsetBytes := sp.off / 8
  let newSize := if offsetBytes < sp.data.length then sp.data.length - offsetBytes else 0
  ⟨(sp.data.drop offsetBytes).take newSize, sp.off % 8⟩

/-- `const_bitspan::subspan_bytes(size_bytes)`: at most `size_bytes` bytes from the byte of the cursor on, offset 0 -/
def subspanBytes (sp : Cpp.Span) (sizeBytes : Nat) : Cpp.Span :=
  let offsetBytes := if sp.off / 8 < sp.data.length then sp.off / 8 else sp.data.length
  let availableBytes := sp.data.length - offsetBytes
  ⟨(sp.data.drop offsetBytes).take (if sizeBytes < availableBytes then sizeBytes else availableBytes), 0⟩

/-! ## Serialization: field macros -/

/-- the assertions at the head of `_serialize_any` -/
def anyGuardS {α : Type} (o : Opts) (t : Ty) (d : AOff) (data : Buf) (off : Nat) (k : Except Err α) : Except Err α :=
  assertX o (align t > 1 → off % align t = 0)
    (assertX o (o.orc d = true → off % 8 = 0)
      (assertX o (maxBits t > 0 → maxBits t ≤ Cpp.Span.size ⟨data, off⟩) k))

/-- serialization `_pad_to_alignment(n)`: emitted for `n > 1` only -/
def padSer (n : Nat) (data : Buf) (off : Nat) : Except Err W :=
  if n > 1 then
    match Cpp.padAndMoveToAlignment ⟨data, off⟩ n with
    | .error e => .error (.prim e)
    | .ok (rc, d, off') => if rc ≠ 0 then .error (.ret rc) else .ok (d, off')
  else .ok (data, off)

/-- `_serialize_void` -/
def serVoid (n : Nat) (data : Buf) (off : Nat) : Except Err W :=
  match chkX (Cpp.setZeros ⟨data, off⟩ n) with
  | .error e => .error e
  | .ok d => .ok (d, off + n)

/-- `_serialize_boolean` -/
def serBool (v : Bool) (data : Buf) (off : Nat) : Except Err W :=
  match chkX (Cpp.setBit ⟨data, off⟩ v) with
  | .error e => .error e
  | .ok d => .ok (d, off + 1)

/-- `_serialize_integer` (also length prefixes, union tags, delimiter headers): the emitted saturation code, then
`setUxx(value, n)` / `setIxx(value, n)` (the argument is converted to `uint64_t` / `int64_t`) -/
def serInt (signed : Bool) (n : Nat) (sat : Bool) (v : Int) (data : Buf) (off : Nat) : Except Err W :=
  let v := if sat ∧ ¬ isStd n then satInt signed n v else v
  match chkX (if signed then Cpp.setIxx ⟨data, off⟩ v n else Cpp.setUxx ⟨data, off⟩ (toU64 v) n) with
  | .error e => .error e
  | .ok d => .ok (d, off + n)

/-- `_serialize_float`: `setF16/32/64` = `setUxx(pattern, n)` -/
def serFloat (n : Nat) (m : Cast) (x : Nat) (data : Buf) (off : Nat) : Except Err W :=
  match chkX (Cpp.setUxx ⟨data, off⟩ (floatBits n m x) n) with
  | .error e => .error e
  | .ok d => .ok (d, off + n)

/-- `_serialize_composite`: `subspan`, the nested `serialize` call, the delimiter header, `add_offset`.
`inner sub off0` is the nested function on the window.  (`fixed_length` types assert `== max`, the others
`>= min` and `<= max`: the same condition, `fixed_length` meaning `min == max`.) -/
def nestedSer (o : Opts) (inner : Buf → Nat → Except Err W) (isDelim : Bool) (minB maxB : Nat)
    (data : Buf) (off : Nat) : Except Err W :=
  let sizeBytes := (maxB + 7) / 8
  match Cpp.subspan ⟨data, off⟩ (if isDelim then 32 else 0) (sizeBytes * 8) with
  | (rc, first, nbytes, noff) =>
    if rc ≠ 0 then .error (.ret rc)
    else
      assertX o (noff % 8 = 0) <|
      match inner ((data.drop first).take nbytes) noff with
      | .error e => .error e
      | .ok (sub, size) =>
        assertX o (minB ≤ size * 8 ∧ size * 8 ≤ maxB) <|
        let data1 := data.take first ++ sub ++ data.drop (first + nbytes)
        if isDelim then
          match chkX (Cpp.setUxx ⟨data1, off⟩ size 32) with
          | .error e => .error e
          | .ok d => .ok (d, off + 32 + size * 8)
        else .ok (data1, off + size * 8)

/-- skeleton of a generated `serialize` (`serialize` + `_serialize_impl`): the new bytes and the returned size -/
def topSer (o : Opts) (minB maxB : Nat) (body : Buf → Nat → Except Err W) (data : Buf) (off : Nat) : Except Err W :=
  if maxB = 0 then .ok (data, 0)
  else if Cpp.Span.size ⟨data, off⟩ < maxB then .error eTooSmall
  else
    assertX o (off % 8 = 0) <|
    match body data off with
    | .error e => .error e
    | .ok (d, off') =>
      match padSer 8 d off' with
      | .error e => .error e
      | .ok (d, off') =>
        assertX o (minB ≤ off' ∧ off' ≤ maxB) <| assertX o (off' % 8 = 0) <| .ok (d, offsetBytesCeil off')

mutual
/-- `_serialize_any(t, reference, offset)` with the cursor of `out_buffer` at `off`. -/
def serAny (o : Opts) : Ty → Val → AOff → Buf → Nat → Except Err W
  | .uint n m, .int i => fun _ data off => serInt false n (m == .sat) i data off
  | .sint n m, .int i => fun _ data off => serInt true n (m == .sat) i data off
  | .float n m, .float x => fun _ data off => serFloat n m x data off
  | .bool, .bool b => fun _ data off => serBool b data off
  | .void n, .void => fun _ data off => serVoid n data off
  | .arr t n, .arr vs => fun d data off =>
    if vs.length = n then
      let dE := d.add (AOff.rangeRep (resBits t) (n - 1) AOff.zero)
      match serLoop (fun v b f => anyGuardS o t dE b f (serAny o t v dE b f)) vs data off with
      | .error e => .error e
      | .ok (b, off') =>
        -- `NUNAVUT_ASSERT((out_buffer.offset() - origin) >= min / <= max / == max)`
        assertX o (n * minBits t ≤ off' - off ∧ off' - off ≤ n * maxBits t) (.ok (b, off'))
    else .error .illTyped
  | .varr t c, .arr vs => fun d data off =>
    if vs.length > c then .error eBadArrayLength
    else
      match serInt false (prefixBits c) false (vs.length : Int) data off with
      | .error e => .error e
      | .ok (data, off) =>
        let dE := d.add (resBits (.varr t c))
        -- `{% if first_element_offset.is_aligned_at_byte() %} NUNAVUT_ASSERT(out_buffer.offset_alings_to_byte())`
        assertX o (o.orc (d.add (AOff.single (prefixBits c))) = true → off % 8 = 0) <|
        serLoop (fun v b f => anyGuardS o t dE b f (serAny o t v dE b f)) vs data off
  | .struct fs, .struct vs => fun _ data off =>
    nestedSer o (topSer o (minBits (.struct fs)) (maxBits (.struct fs))
        (fun b f => serFields o fs vs true AOff.zero b f))
      false (minBits (.struct fs)) (maxBits (.struct fs)) data off
  | .union fs, .union k v => fun _ data off =>
    nestedSer o (topSer o (minBits (.union fs)) (maxBits (.union fs)) (fun b f =>
        match serInt false (tagBits fs.length) false (k : Int) b f with
        | .error e => .error e
        | .ok (b, f) => serNth o fs k v (AOff.single (tagBits fs.length)) b f))
      false (minBits (.union fs)) (maxBits (.union fs)) data off
  | .delim _ inner, v => fun _ data off =>
    nestedSer o (serFn o inner v) true (minBits inner) (maxBits inner) data off
  | _, _ => fun _ _ _ => .error .illTyped
/-- the generated function `serialize(obj, out_buffer)` of a composite `T`, `out_buffer = (data, off)`
(a delimited `T` is its inner type: no header at top level). -/
def serFn (o : Opts) : Ty → Val → Buf → Nat → Except Err W
  | .struct fs, .struct vs => fun data off =>
    topSer o (minBits (.struct fs)) (maxBits (.struct fs)) (fun b f => serFields o fs vs true AOff.zero b f) data off
  | .union fs, .union k v => fun data off =>
    topSer o (minBits (.union fs)) (maxBits (.union fs)) (fun b f =>
        match serInt false (tagBits fs.length) false (k : Int) b f with
        | .error e => .error e
        | .ok (b, f) => serNth o fs k v (AOff.single (tagBits fs.length)) b f) data off
  | .delim _ inner, v => fun data off => serFn o inner v data off
  | _, _ => fun _ _ => .error .illTyped
/-- the fields of a structure; `d` is the static offset after the previous field. -/
def serFields (o : Opts) : List Ty → List Val → Bool → AOff → Buf → Nat → Except Err W
  | [], [] => fun _ _ data off => .ok (data, off)
  | f :: fs, v :: vs => fun first d data off =>
    let dF := d.pad (align f)
    match (if first then .ok (data, off) else padSer (align f) data off) with
    | .error e => .error e
    | .ok (data, off) =>
      match anyGuardS o f dF data off (serAny o f v dF data off) with
      | .error e => .error e
      | .ok (data, off) => serFields o fs vs false (dF.add (resBits f)) data off
  | _, _ => fun _ _ _ _ => .error .illTyped
/-- `if (VariantType::IndexOf::a == index) {…} else if … else return -Error::RepresentationBadUnionTag` -/
def serNth (o : Opts) : List Ty → Nat → Val → AOff → Buf → Nat → Except Err W
  | [], _, _ => fun _ _ _ => .error eBadUnionTag
  | f :: _, 0, v => fun d data off => anyGuardS o f d data off (serAny o f v d data off)
  | _ :: fs, k + 1, v => fun d data off => serNth o fs k v d data off
end

/-- **The generated serializer**: `serialize(obj, bitspan{buf})`, cursor at 0.
Result: the buffer afterwards and the returned size in bytes. -/
def serializeCpp (o : Opts) (t : Ty) (obj : Val) (buf : Buf) : Except Err (Buf × Nat) :=
  serFn o t obj buf 0

/-! ## Deserialization: field macros -/

/-- the assertions at the head of `_deserialize_any` -/
def anyGuardD {α : Type} (o : Opts) (t : Ty) (d : AOff) (off : Nat) (k : Except Err α) : Except Err α :=
  assertX o (align t > 1 → off % align t = 0) (assertX o (o.orc d = true → off % 8 = 0) k)

/-- `_deserialize_integer` of an unsigned field (also length prefixes, tags, delimiter headers): `getU8…U64` -/
def deUint (n : Nat) (data : Buf) (off : Nat) : Except Err Nat := liftP (Cpp.getU (storW n) ⟨data, off⟩ n)

/-- `_deserialize_integer` of a signed field: `getI8…I64` -/
def deSint (n : Nat) (data : Buf) (off : Nat) : Except Err Int := liftP (Cpp.getI (storW n) ⟨data, off⟩ n)

/-- `_deserialize_boolean`: `getBit()` -/
def deBool (data : Buf) (off : Nat) : Except Err Bool := liftP (Cpp.getBit ⟨data, off⟩)

/-- `_deserialize_float`: `getF16/32/64` -/
def deFloat (n : Nat) (data : Buf) (off : Nat) : Except Err Nat :=
  match liftP (Cpp.getU n ⟨data, off⟩ n) with
  | .error e => .error e
  | .ok w => .ok (widen n w)

/-- the `for` loop over the elements of a `std::array`: each one decoded in place -/
def deLoopInto (elem : Val → Nat → Except Err (Val × Nat)) : List Val → Nat → Except Err (List Val × Nat)
  | [], off => .ok ([], off)
  | p :: ps, off =>
    match elem p off with
    | .error e => .error e
    | .ok (v, o') =>
      match deLoopInto elem ps o' with
      | .error e => .error e
      | .ok (vs, o'') => .ok (v :: vs, o'')

/-- `_deserialize_composite`; `inner sub off0` is the nested `deserialize` call, returning the object and the size it
reports. -/
def nestedDe (o : Opts) (inner : Buf → Nat → Except Err (Val × Nat)) (isDelim : Bool)
    (data : Buf) (off : Nat) : Except Err (Val × Nat) :=
  if isDelim then
    match deUint 32 data off with
    | .error e => .error e
    | .ok h =>
      let off := off + 32
      if h * 8 > Cpp.Span.size ⟨data, off⟩ then .error eBadDelimiterHeader
      else
        assertX o (off % 8 = 0) <|
        let sub := subspanBytes ⟨data, off⟩ h
        match inner sub.data sub.off with
        | .error e => .error e
        | .ok (v, _) => assertX o (off % 8 = 0) (.ok (v, off + h * 8))
  else
    assertX o (off % 8 = 0) <|
    let sub := subspanRest ⟨data, off⟩
    match inner sub.data sub.off with
    | .error e => .error e
    | .ok (v, size) => .ok (v, off + size * 8)

/-- skeleton of a generated `deserialize`: the object and the returned size.  A type that carries no data
(`bit_length_set.max = 0`) leaves `obj` untouched. -/
def topDe (o : Opts) (maxB : Nat) (prior : Val) (body : Buf → Nat → Except Err (Val × Nat)) (data : Buf) (off : Nat) :
    Except Err (Val × Nat) :=
  if maxB = 0 then .ok (prior, 0)
  else
    let capacityBits := Cpp.Span.size ⟨data, off⟩
    match body data off with
    | .error e => .error e
    | .ok (v, off') =>
      let off' := padDe 8 off'
      assertX o (off' % 8 = 0) <|
      let bitsGot := min off' capacityBits
      assertX o (capacityBits ≥ bitsGot) <| .ok (v, bitsGot / 8)

mutual
/-- `_deserialize_any(t, reference, offset)` with the cursor of `in_buffer` at `off`; `prior` is what `reference`
holds before.  Result: the new value of `reference` and the new cursor. -/
def deAny (o : Opts) : Ty → Val → AOff → Buf → Nat → Except Err (Val × Nat)
  | .uint n _, _ => fun _ data off =>
    match deUint n data off with
    | .error e => .error e
    | .ok x => .ok (.int x, off + n)
  | .sint n _, _ => fun _ data off =>
    match deSint n data off with
    | .error e => .error e
    | .ok x => .ok (.int x, off + n)
  | .float n _, _ => fun _ data off =>
    match deFloat n data off with
    | .error e => .error e
    | .ok x => .ok (.float x, off + n)
  | .bool, _ => fun _ data off =>
    match deBool data off with
    | .error e => .error e
    | .ok b => .ok (.bool b, off + 1)
  | .void n, _ => fun _ _ off => .ok (.void, off + n)
  | .arr t n, .arr ps => fun d data off =>
    if ps.length = n then
      let dE := d.add (AOff.rangeRep (resBits t) (n - 1) AOff.zero)
      match deLoopInto (fun p f => anyGuardD o t dE f (deAny o t p dE data f)) ps off with
      | .error e => .error e
      | .ok (vs, off) => .ok (.arr vs, off)
    else .error .illTyped
  | .varr t c, .arr ps => fun d data off =>
    match deUint (prefixBits c) data off with
    | .error e => .error e
    | .ok count =>
      let off := off + prefixBits c
      if count > c then .error eBadArrayLength
      else
        -- `reference.clear(); reference.reserve(size);`
        let base := if o.clearFirst then [] else ps
        let dE := d.add (resBits (.varr t c))
        assertX o (o.orc (d.add (AOff.single (prefixBits c))) = true → off % 8 = 0) <|
        -- `T tmp = T(); _deserialize_any(tmp); reference.push_back(std::move(tmp));`
        match deLoop (fun f => anyGuardD o t dE f (deAny o t (trivVal t) dE data f)) count off with
        | .error e => .error e
        | .ok (vs, off) => .ok (.arr (base ++ vs), off)
  | .struct fs, .struct ps => fun _ data off =>
    nestedDe o (topDe o (maxBits (.struct fs)) (.struct ps) (fun b f =>
        match deFields o fs ps true AOff.zero b f with
        | .error e => .error e
        | .ok (vs, f) => .ok (.struct vs, f))) false data off
  | .union fs, p => fun _ data off =>
    nestedDe o (topDe o (maxBits (.union fs)) p (fun b f =>
        match deUint (tagBits fs.length) b f with
        | .error e => .error e
        | .ok k =>
          match deNth o fs k (AOff.single (tagBits fs.length)) b (f + tagBits fs.length) with
          | .error e => .error e
          | .ok (v, f) => .ok (.union k v, f))) false data off
  | .delim _ inner, p => fun _ data off => nestedDe o (deFn o inner p) true data off
  | _, _ => fun _ _ _ => .error .illTyped
/-- the generated function `deserialize(obj, in_buffer)` of a composite `T`, `in_buffer = (data, off)`. -/
def deFn (o : Opts) : Ty → Val → Buf → Nat → Except Err (Val × Nat)
  | .struct fs, .struct ps => fun data off =>
    topDe o (maxBits (.struct fs)) (.struct ps) (fun b f =>
        match deFields o fs ps true AOff.zero b f with
        | .error e => .error e
        | .ok (vs, f) => .ok (.struct vs, f)) data off
  | .union fs, p => fun data off =>
    topDe o (maxBits (.union fs)) p (fun b f =>
        match deUint (tagBits fs.length) b f with
        | .error e => .error e
        | .ok k =>
          match deNth o fs k (AOff.single (tagBits fs.length)) b (f + tagBits fs.length) with
          | .error e => .error e
          | .ok (v, f) => .ok (.union k v, f)) data off
  | .delim _ inner, p => fun data off => deFn o inner p data off
  | _, _ => fun _ _ => .error .illTyped
def deFields (o : Opts) : List Ty → List Val → Bool → AOff → Buf → Nat → Except Err (List Val × Nat)
  | [], [] => fun _ _ _ off => .ok ([], off)
  | f :: fs, p :: ps => fun first d data off =>
    let dF := d.pad (align f)
    let off := if first then off else padDe (align f) off
    match anyGuardD o f dF off (deAny o f p dF data off) with
    | .error e => .error e
    | .ok (v, off) =>
      match deFields o fs ps false (dF.add (resBits f)) data off with
      | .error e => .error e
      | .ok (vs, off) => .ok (v :: vs, off)
  | _, _ => fun _ _ _ _ => .error .illTyped
/-- `if (IndexOf::a == index) { obj.set_a(); auto ptr = obj.get_a_if(); … }`: the alternative is a fresh
value-initialised object -/
def deNth (o : Opts) : List Ty → Nat → AOff → Buf → Nat → Except Err (Val × Nat)
  | [], _ => fun _ _ _ => .error eBadUnionTag
  | f :: _, 0 => fun d data off => anyGuardD o f d off (deAny o f (trivVal f) d data off)
  | _ :: fs, k + 1 => fun d data off => deNth o fs k d data off
end

/-- **The generated deserializer**: `deserialize(obj, const_bitspan{buf})`, cursor at 0, `obj` holding `prior`.
Result: the object afterwards and the returned size (consumed bytes). -/
def deserializeCpp (o : Opts) (t : Ty) (prior : Val) (buf : Buf) : Except Err (Val × Nat) :=
  deFn o t prior buf 0

end NunavutVerif.GenCpp
