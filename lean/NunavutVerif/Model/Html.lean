/-!
# Model for C20 — generated HTML documentation

Core Lean only.  Parts:

* `escape` / `escapeStd` — `nunavut.jinja.markupsafe._native.escape` (what Jinja's autoescaping and `|e` call) and
  the standard library's `html.escape` (called by `filter_make_unique`), both written as the code writes them:
  sequential single-character `str.replace` calls;
* `LexSt`/`lexStep` — a conservative HTML tokenizer state machine: which characters can end character data, a
  quoted attribute value, a raw-text element; `jsStep` — the same for a quoted JS string literal;
* `Tok`/`runToks`/`wellNested` — tag events and the nesting stack;
* `Tm`/`Renders`/`effect` — the mini template language the translator maps the templates to, its renderings and
  the static stack-effect analysis;
* `displayType` — `filter_display_type` (after the fix: Markup, pieces escaped), with `…BeforeFix`;
* `tagId`, `urlFromType`, `makeUnique`, `upPrefix`, `resolve` — ids, links and relative-URL resolution;
* `NsTree`/`entryIds` — which entries a namespace page contains (the recursion of `namespace_info.j2`).
-/
namespace NunavutVerif.Html

abbrev Str := List Char

/-! ## Escaping -/

/-- Python `s.replace(x, r)` for a one-character `x`. -/
def replaceChar (x : Char) (r : Str) : Str → Str
  | [] => []
  | c :: s => if c = x then r ++ replaceChar x r s else c :: replaceChar x r s

/-- `markupsafe._native.escape`:
`.replace("&","&amp;").replace(">","&gt;").replace("<","&lt;").replace("'","&#39;").replace('"',"&#34;")`. -/
def escape (s : Str) : Str :=
  replaceChar '"' "&#34;".toList
    (replaceChar '\'' "&#39;".toList
      (replaceChar '<' "&lt;".toList
        (replaceChar '>' "&gt;".toList
          (replaceChar '&' "&amp;".toList s))))

/-- `html.escape(s, quote=True)` of the standard library:
`&`→`&amp;`, `<`→`&lt;`, `>`→`&gt;`, `"`→`&quot;`, `'`→`&#x27;` in this order. -/
def escapeStd (s : Str) : Str :=
  replaceChar '\'' "&#x27;".toList
    (replaceChar '"' "&quot;".toList
      (replaceChar '>' "&gt;".toList
        (replaceChar '<' "&lt;".toList
          (replaceChar '&' "&amp;".toList s))))

/-- A value that reaches an output expression: its text and whether it is `Markup` (has `__html__`). -/
structure Val where
  markup : Bool
  text : Str
  deriving DecidableEq, Repr

/-- `escape(value)` as Jinja's autoescaping / `Markup.format` / `Markup.__add__` call it: a function of the text and
the is-Markup flag ONLY — Markup is returned as it is, anything else goes through the replace chain.  There is no
other input: no cache, no memo, nothing that an earlier call (with an equal text of the other kind) could leave behind. -/
def escapeVal (v : Val) : Str := if v.markup then v.text else escape v.text

/-- A whole generator run as far as escaping is concerned: the values in the order they are escaped. -/
def escapeRun (vs : List Val) : List Str := vs.map escapeVal

/-- What `escape` does to one character. -/
def escChar (c : Char) : Str :=
  if c = '&' then "&amp;".toList else if c = '>' then "&gt;".toList else if c = '<' then "&lt;".toList
  else if c = '\'' then "&#39;".toList else if c = '"' then "&#34;".toList else [c]

def escCharStd (c : Char) : Str :=
  if c = '&' then "&amp;".toList else if c = '<' then "&lt;".toList else if c = '>' then "&gt;".toList
  else if c = '"' then "&quot;".toList else if c = '\'' then "&#x27;".toList else [c]

/-- The five character references `escape` produces, with the character each stands for. -/
def entities : List (Str × Char) :=
  [("&amp;".toList, '&'), ("&gt;".toList, '>'), ("&lt;".toList, '<'), ("&#39;".toList, '\''), ("&#34;".toList, '"')]

def entitiesStd : List (Str × Char) :=
  [("&amp;".toList, '&'), ("&lt;".toList, '<'), ("&gt;".toList, '>'), ("&quot;".toList, '"'), ("&#x27;".toList, '\'')]

/-- Character data in which every `&` starts one of the given references and which has no other markup-significant
character: the shape of everything `escape` returns. -/
inductive CharData (ents : List (Str × Char)) : Str → Prop
  | nil : CharData ents []
  | plain (c : Char) (s : Str) : c ≠ '&' → c ≠ '<' → c ≠ '>' → c ≠ '"' → c ≠ '\'' → CharData ents s → CharData ents (c :: s)
  | ent (e : Str) (c : Char) (s : Str) : (e, c) ∈ ents → CharData ents s → CharData ents (e ++ s)

/-- Decoding of the five references of `escape` (what an HTML parser does with them); any other `&` is kept. -/
def unescape : Str → Str
  | [] => []
  | c :: r =>
    if c = '&' then
      match r with
      | 'a' :: 'm' :: 'p' :: ';' :: r' => '&' :: unescape r'
      | 'g' :: 't' :: ';' :: r' => '>' :: unescape r'
      | 'l' :: 't' :: ';' :: r' => '<' :: unescape r'
      | '#' :: '3' :: '9' :: ';' :: r' => '\'' :: unescape r'
      | '#' :: '3' :: '4' :: ';' :: r' => '"' :: unescape r'
      | rest => c :: unescape rest
    else c :: unescape r

/-! ## When is an output expression escaped: the environment's rule -/

def lowerStr (s : Str) : Str := s.map Char.toLower

/-- `select_autoescape(enabled_extensions=("htm","html","xml","json"), default_for_string=False, default=False)`:
keyed on the template's name (case-insensitive suffix); a template from a string (`none`) is not escaped. -/
def selectAutoescape : Option String → Bool
  | none => false
  | some name =>
    let n := lowerStr name.toList
    ".htm".toList.isSuffixOf n || ".html".toList.isSuffixOf n || ".xml".toList.isSuffixOf n || ".json".toList.isSuffixOf n

/-- The environment's escaping decision (after the fix): ON for the target language `html`, whatever the template
is called and whatever the output extension, the namespace file stem or any other option of that language is —
none of them is an argument of this function; for every other language the file-name rule. -/
def autoescapeRule (targetLanguage : String) (templateName : Option String) : Bool :=
  targetLanguage == "html" || selectAutoescape templateName

/-- Before the fix: the file-name rule alone (the HTML templates are named `*.j2`). -/
def autoescapeRuleBeforeFix (_targetLanguage : String) (templateName : Option String) : Bool :=
  selectAutoescape templateName

/-! ## A conservative tokenizer state machine

Only what matters for "can this text change the tokenizer state": in character data only `<` can start markup
(`&` starts a character reference, which is still character data); a double-quoted attribute value ends at `"`,
a single-quoted one at `'`; a raw-text element (`script`, `style`) can only end at a `<`. -/
inductive LexSt
  | data | tag | attrDq | attrSq | rawText | markup
  deriving DecidableEq, Repr

def lexStep : LexSt → Char → LexSt
  | .data, c => if c = '<' then .markup else .data
  | .attrDq, c => if c = '"' then .tag else .attrDq
  | .attrSq, c => if c = '\'' then .tag else .attrSq
  | .rawText, c => if c = '<' then .markup else .rawText
  | .tag, c => if c = '>' then .data else if c = '"' then .attrDq else if c = '\'' then .attrSq else .tag
  | .markup, _ => .markup

def lexRun (q : LexSt) (s : Str) : LexSt := s.foldl lexStep q

/-- A quoted JavaScript string literal (quote `q`) ends, or changes meaning, at the quote, a backslash or a line end.
`true` = still inside the literal, verbatim. -/
def jsStep (q : Char) (inside : Bool) (c : Char) : Bool :=
  inside && !(c = q || c = '\\' || c = '\n' || c = '\r')

def jsRun (q : Char) (s : Str) : Bool := s.foldl (jsStep q) true

/-- The characters PyDSDL allows in a name component (`_name.py`), plus the component separator. -/
def isNameChar (c : Char) : Bool := c.isAlphanum || c = '_'
def isNameOrDot (c : Char) : Bool := isNameChar c || c = '.'

/-! ## Tag events and nesting -/
abbrev Tag := Nat

inductive Tok
  | op (t : Tag)   -- start tag of a non-void element
  | cl (t : Tag)   -- end tag
  | vd (t : Tag)   -- void element (no effect on nesting)
  deriving DecidableEq, Repr

/-- The nesting stack (top first); `none` = an end tag that does not match the innermost open element. -/
def runToks : List Tag → List Tok → Option (List Tag)
  | st, [] => some st
  | st, .op t :: s => runToks (t :: st) s
  | st, .vd _ :: s => runToks st s
  | [], .cl _ :: _ => none
  | a :: st, .cl t :: s => if a = t then runToks st s else none

def wellNested (s : List Tok) : Bool := runToks [] s == some []

/-- Balanced snippets: what a markup-producing filter may contribute. -/
inductive Balanced : List Tok → Prop
  | nil : Balanced []
  | vd (t : Tag) : Balanced [.vd t]
  | wrap (t : Tag) (s : List Tok) : Balanced s → Balanced (.op t :: s ++ [.cl t])
  | app (a b : List Tok) : Balanced a → Balanced b → Balanced (a ++ b)

/-! ## The mini template language -/

inductive Tm
  | eps
  | tok (t : Tok)          -- a tag in the template text
  | chars (leaf : Nat)     -- expression leaf whose value arrives as character data (escaped, or constant)
  | snip (leaf : Nat)      -- expression leaf produced by a markup filter: some balanced snippet
  | wild (leaf : Nat)      -- unescaped text of DSDL origin: may be anything
  | seq (a b : Tm)
  | alt (a b : Tm)         -- if / elif / else
  | star (a : Tm)          -- for
  | call (m : Nat)         -- macro call
  deriving DecidableEq, Repr

namespace Tm
def o (t : Tag) : Tm := .tok (.op t)
def c (t : Tag) : Tm := .tok (.cl t)
def v (t : Tag) : Tm := .tok (.vd t)
def tx (n : Nat) : Tm := .chars n
def sn (n : Nat) : Tm := .snip n
def un (n : Nat) : Tm := .wild n
def sq : List Tm → Tm
  | [] => .eps
  | [a] => a
  | a :: l => .seq a (sq l)
def al : List Tm → Tm
  | [] => .eps
  | [a] => a
  | a :: l => .alt a (al l)
end Tm

/-- `Renders env t s`: the tag-event sequence `s` is a possible rendering of `t` (macro bodies in `env`). -/
inductive Renders (env : List Tm) : Tm → List Tok → Prop
  | eps : Renders env .eps []
  | tok (t : Tok) : Renders env (.tok t) [t]
  | chars (n : Nat) : Renders env (.chars n) []
  | snip (n : Nat) (s : List Tok) : Balanced s → Renders env (.snip n) s
  | wild (n : Nat) (s : List Tok) : Renders env (.wild n) s
  | seq {a b : Tm} {s₁ s₂ : List Tok} : Renders env a s₁ → Renders env b s₂ → Renders env (.seq a b) (s₁ ++ s₂)
  | altL {a b : Tm} {s : List Tok} : Renders env a s → Renders env (.alt a b) s
  | altR {a b : Tm} {s : List Tok} : Renders env b s → Renders env (.alt a b) s
  | starNil {a : Tm} : Renders env (.star a) []
  | starCons {a : Tm} {s₁ s₂ : List Tok} : Renders env a s₁ → Renders env (.star a) s₂ → Renders env (.star a) (s₁ ++ s₂)
  | call {m : Nat} {b : Tm} {s : List Tok} : env[m]? = some b → Renders env b s → Renders env (.call m) s

/-- Stack effect: close `pops` (innermost first), then leave `pushes` open (innermost first). -/
structure Eff where
  pops : List Tag
  pushes : List Tag
  deriving DecidableEq, Repr

def Eff.neutral : Eff := ⟨[], []⟩

/-- Cancel what the first part leaves open against what the second part closes. -/
def cancel : List Tag → List Tag → Option (List Tag × List Tag)
  | pu, [] => some (pu, [])
  | [], po => some ([], po)
  | a :: pu, b :: po => if a = b then cancel pu po else none

def Eff.comp (e₁ e₂ : Eff) : Option Eff :=
  match cancel e₁.pushes e₂.pops with
  | none => none
  | some (restPush, restPop) => some ⟨e₁.pops ++ restPop, e₂.pushes ++ restPush⟩

def tokEff : Tok → Eff
  | .op t => ⟨[], [t]⟩
  | .cl t => ⟨[t], []⟩
  | .vd _ => .neutral

/-- The static analysis.  `nm` = number of macros; every macro call is *assumed* neutral (and every macro body
is checked to be, `macrosOk`).  Branches must agree, loop bodies must be neutral, unescaped text is rejected. -/
def effect (nm : Nat) : Tm → Option Eff
  | .eps => some .neutral
  | .tok t => some (tokEff t)
  | .chars _ => some .neutral
  | .snip _ => some .neutral
  | .wild _ => none
  | .seq a b =>
    match effect nm a, effect nm b with
    | some e₁, some e₂ => e₁.comp e₂
    | _, _ => none
  | .alt a b =>
    match effect nm a, effect nm b with
    | some e₁, some e₂ => if e₁ = e₂ then some e₁ else none
    | _, _ => none
  | .star a =>
    match effect nm a with
    | some e => if e = .neutral then some .neutral else none
    | none => none
  | .call m => if m < nm then some .neutral else none

def isNeutral (nm : Nat) (t : Tm) : Bool := effect nm t == some .neutral

def macrosOk (env : List Tm) : Bool := env.all (isNeutral env.length)

/-- Executable acceptor for the correspondence (not used by the theorems): the possible remainders, each with its
length, after `t` has consumed a prefix of `s`. -/
abbrev Rem := Nat × List Tok

def balancedPrefixes : Nat → Rem → List Rem
  | _, (_, []) => [(0, [])]
  | d, (n, .op t :: s) => (if d = 0 then [(n, .op t :: s)] else []) ++ balancedPrefixes (d + 1) (n - 1, s)
  | d, (n, .vd t :: s) => (if d = 0 then [(n, .vd t :: s)] else []) ++ balancedPrefixes d (n - 1, s)
  | 0, (n, .cl t :: s) => [(n, .cl t :: s)]
  | d + 1, (n, .cl _ :: s) => balancedPrefixes d (n - 1, s)

def suffixes : Rem → List Rem
  | (_, []) => [(0, [])]
  | (n, t :: s) => (n, t :: s) :: suffixes (n - 1, s)

def dedupLen (l : List Rem) : List Rem :=
  l.foldr (fun s acc => if acc.any (fun r => r.1 == s.1) then acc else s :: acc) []

/-- the alternatives of a (right-nested) `alt` chain -/
def altList : Tm → List Tm
  | .alt a b => a :: altList b
  | t => [t]

def accept (env : List Tm) : Nat → Tm → Rem → List Rem
  | 0, _, _ => []
  | _ + 1, .eps, s => [s]
  | _ + 1, .tok t, s => match s with
    | (n, x :: r) => if x = t then [(n - 1, r)] else []
    | (_, []) => []
  | _ + 1, .chars _, s => [s]
  | _ + 1, .snip _, s => dedupLen (balancedPrefixes 0 s)
  | _ + 1, .wild _, s => suffixes s
  | f + 1, .seq a b, s => dedupLen ((accept env f a s).flatMap (accept env f b))
  | f + 1, .alt a b, s => dedupLen ((a :: altList b).eraseDups.flatMap (fun t => accept env f t s))
  | f + 1, .star a, s =>
    dedupLen (s :: ((accept env f a s).filter (fun r => r.1 < s.1)).flatMap (accept env f (.star a)))
  | f + 1, .call m, s => match env[m]? with
    | some b => accept env f b s
    | none => []

def accepts (env : List Tm) (fuel : Nat) (t : Tm) (s : List Tok) : Bool :=
  (accept env fuel t (s.length, s)).any (fun r => r.1 == 0)

/-! ## The expression-leaf table -/

inductive Origin
  | const    -- a literal of the template
  | number   -- a number computed from the definition (version, port id, sizes)
  | ident    -- an id computed from names (tag_id, make_unique)
  | name     -- a DSDL name (type, namespace, field) or `str()` of a type
  | url      -- a link computed from names (url_from_type)
  | doc      -- a documentation comment: arbitrary text
  | markup   -- output of a markup-producing filter (display_type)
  | macro    -- a macro call
  deriving DecidableEq, Repr

inductive Ctx
  | data | attrDq | attrSq | attrJs | script | style
  | attrUrl   -- a quoted attribute whose value is a URL (`href`, `src`, …)
  deriving DecidableEq, Repr

structure Leaf where
  tpl : String
  line : Nat
  expr : String
  origin : Origin
  ctx : Ctx
  escaped : Bool    -- on every path: autoescaped, explicit `|e`, or already escaped by the filter that made it
  snippet : Bool    -- emitted as markup (filter result that nothing escapes)
  how : String

/-- Text that comes from the DSDL definitions. -/
def Origin.isDsdl : Origin → Bool
  | .number | .ident | .name | .url | .doc => true
  | _ => false

/-- Text whose alphabet is restricted by the front end (names, ids made from names, numbers). -/
def Origin.isRestricted : Origin → Bool
  | .const | .number | .ident | .name => true
  | _ => false

/-- The per-leaf requirement of the property.  HTML escaping is the right protection in element text and in
quoted attribute values; inside a JS string literal (event-handler attribute, `<script>`) it is not, so only text
with the front end's restricted alphabet may be placed there.  In a URL attribute HTML escaping protects the attribute
but nothing percent-encodes the value, so free text (a documentation comment) may not be placed there at all: only
names, numbers and the ids / links made from names, whose alphabet needs no encoding and cannot form a scheme. -/
def Leaf.ok (l : Leaf) : Bool :=
  match l.origin with
  | .macro => l.ctx == .data
  | .markup => l.ctx == .data
  | .const => true
  | _ =>
    l.escaped && (match l.ctx with
      | .data | .attrDq | .attrSq => true
      | .attrJs | .script => l.origin.isRestricted
      | .attrUrl => l.origin != .doc
      | .style => false)

/-- Consistency of a term with the leaf table: `chars n` only for leaves that are escaped or constant,
`snip n` only for markup leaves. -/
def termLeavesOk (ls : List Leaf) : Tm → Bool
  | .chars n => match ls[n]? with
    | some l => (l.origin == .const || l.escaped) && l.ctx == .data && !l.snippet
    | none => false
  | .snip n => match ls[n]? with
    | some l => l.origin == .markup && l.snippet && l.ctx == .data
    | none => false
  | .wild n => (ls[n]?).isSome
  | .seq a b => termLeavesOk ls a && termLeavesOk ls b
  | .alt a b => termLeavesOk ls a && termLeavesOk ls b
  | .star a => termLeavesOk ls a
  | _ => true

def hasUnsafe : Tm → Bool
  | .wild _ => true
  | .seq a b => hasUnsafe a || hasUnsafe b
  | .alt a b => hasUnsafe a || hasUnsafe b
  | .star a => hasUnsafe a
  | _ => false

/-! ## `filter_display_type` -/

/-- What the filter dispatches on (all strings are what `str()` / `.name` / `.value` give). -/
inductive DT
  | fixedArr (el : DT) (cap : Nat)
  | varArr (el : DT) (cap : Nat)
  | padding (s : Str)                       -- PaddingField: `str(instance)`
  | field (dt : DT) (name : Str)
  | const (dt : DT) (name : Str) (value : Str)
  | prim (saturated : Bool) (s : Str)       -- `str(instance)`, the last blank-separated word is shown
  | other (s : Str)                         -- composite (or anything else): `str(instance)`
  deriving Repr

def dec (n : Nat) : Str := Nat.toDigits 10 n

/-- Python `s.split()[-1]` for a string with at least one non-blank character: the last blank-separated word. -/
def lastWord (s : Str) : Str :=
  let rec go (cur last : Str) : Str → Str
    | [] => if cur.isEmpty then last else cur
    | c :: r => if c.isWhitespace then go [] (if cur.isEmpty then last else cur) r else go (cur ++ [c]) last r
  go [] [] s

def spanOpen (color : String) : Str := ("<span style=\"color: " ++ color ++ "\">").toList
def spanClose : Str := "</span>".toList

/-- Output pieces: constant markup, or text. -/
inductive Piece
  | spanO (color : String)
  | spanC
  | lit (s : Str)      -- constant text of the filter (no markup characters)
  | txt (s : Str)      -- text taken from the definition

/-- The structure of the filter's output (the same before and after the fix). -/
def displayPieces : DT → List Piece
  | .fixedArr el cap => displayPieces el ++ [.spanO "green", .lit ['['], .txt (dec cap), .lit [']'], .spanC]
  | .varArr el cap => displayPieces el ++ [.spanO "green", .lit "[<=".toList, .txt (dec cap), .lit [']'], .spanC]
  | .padding s => [.spanO "gray", .txt s, .spanC]
  | .field dt name => displayPieces dt ++ [.lit [' '], .txt name]
  | .const dt name value =>
    displayPieces dt ++ [.lit [' '], .spanO "darkmagenta", .txt name, .spanC, .lit " = ".toList,
                         .spanO "darkcyan", .txt value, .spanC]
  | .prim sat s =>
    (if sat then [.spanO "gray", .lit "saturated".toList, .spanC, .lit [' ']]
     else [.spanO "orange", .lit "truncated".toList, .spanC, .lit [' ']]) ++ [.spanO "green", .txt (lastWord s), .spanC]
  | .other s => [.txt s]

/-- Rendering after the fix: `Markup(...).format(...)` escapes every argument, the literal `<=` is written `&lt;=`. -/
def renderPiece : Piece → Str
  | .spanO col => spanOpen col
  | .spanC => spanClose
  | .lit s => escape s
  | .txt s => escape s

/-- Rendering before the fix: plain `str.format`, nothing escaped. -/
def renderPieceBeforeFix : Piece → Str
  | .spanO col => spanOpen col
  | .spanC => spanClose
  | .lit s => s
  | .txt s => s

def displayType (d : DT) : Str := (displayPieces d).flatMap renderPiece
def displayTypeBeforeFix (d : DT) : Str := (displayPieces d).flatMap renderPieceBeforeFix

def pieceToks (span : Tag) : Piece → List Tok
  | .spanO _ => [.op span]
  | .spanC => [.cl span]
  | _ => []

/-- The tag events of the filter's output. -/
def displayToks (span : Tag) (d : DT) : List Tok := (displayPieces d).flatMap (pieceToks span)

/-! ## Ids and links -/

/-- A composite type as the filters see it. -/
structure CType where
  comps : List Str            -- components of `full_name` (namespace components, then the short name; for a
                              -- service's request/response: `… , Service, "Request"`)
  major : Nat
  minor : Nat
  hasParentService : Bool
  deriving Repr

def joinWith (sep : Char) : List Str → Str
  | [] => []
  | [a] => a
  | a :: l => a ++ sep :: joinWith sep l

def CType.fullName (t : CType) : Str := joinWith '.' t.comps
def CType.fullNamespace (t : CType) : Str := joinWith '.' t.comps.dropLast
def CType.rootNamespace (t : CType) : Str := t.comps.headD []

def versionSuffix (major minor : Nat) : Str := '_' :: dec major ++ '_' :: dec minor

/-- `filter_tag_id` for a composite type: `"{}_{}_{}".format(full_name.replace(".", "_"), major, minor)`. -/
def tagId (t : CType) : Str := replaceChar '.' ['_'] t.fullName ++ versionSuffix t.major t.minor

/-- `filter_tag_id` for an array type: `str(element_type)` with `.` and blanks replaced, then `_array`. -/
def tagIdArray (elementStr : Str) : Str :=
  replaceChar ' ' ['_'] (replaceChar '.' ['_'] elementStr) ++ "_array".toList

/-- The type whose entry documents `t`: a service's request/response live inside the service's entry
("the name of the parent service equals the full namespace name of this type", same version). -/
def CType.entry (t : CType) : CType :=
  if t.hasParentService then { t with comps := t.comps.dropLast, hasParentService := false } else t

/-- `filter_url_from_type` (after the fix): `"../{root}/#{entry id}"`. -/
def urlFromType (t : CType) : Str :=
  "../".toList ++ t.rootNamespace ++ "/#".toList ++
    (replaceChar '.' ['_'] (if t.hasParentService then t.fullNamespace else t.fullName) ++ versionSuffix t.major t.minor)

/-- Before the fix the fragment was always made from `full_name`. -/
def urlFromTypeBeforeFix (t : CType) : Str :=
  "../".toList ++ t.rootNamespace ++ "/#".toList ++ (replaceChar '.' ['_'] t.fullName ++ versionSuffix t.major t.minor)

def countChar (x : Char) : Str → Nat
  | [] => 0
  | c :: s => (if c = x then 1 else 0) + countChar x s

def repeatStr (s : Str) : Nat → Str
  | 0 => []
  | n + 1 => s ++ repeatStr s n

/-- The link prefix `"../" * T.full_name.count(".")` passed down from `Namespace.j2` (after the fix). -/
def upPrefix (nsFullName : Str) : Str := repeatStr "../".toList (countChar '.' nsFullName)

/-- The `href` of a reference to type `t` on the page of namespace `ns` (after the fix / before). -/
def typeHref (ns : List Str) (t : CType) : Str := upPrefix (joinWith '.' ns) ++ urlFromType t
def typeHrefBeforeFix (_ns : List Str) (t : CType) : Str := urlFromTypeBeforeFix t

/-- The id of a namespace's own entry (`namespace_info.j2`): `full_name.replace(".", "_")`. -/
def nsId (ns : List Str) : Str := replaceChar '.' ['_'] (joinWith '.' ns)

def indexPage : Str := "index.html".toList

/-- The back link of a type page (after the fix): `index.html#` + the id of the type's namespace entry. -/
def backHref (t : CType) : Str := indexPage ++ '#' :: replaceChar '.' ['_'] t.fullNamespace

def lowerFirst : Str → Str
  | [] => []
  | c :: s => c.toLower :: s

/-- `filter_make_unique` with the per-page `UniqueNameGenerator` state (`seen` = the tokens handed out so far):
lower-case the first character, `html.escape`, append the number of earlier requests for the same token. -/
def makeUnique (seen : List Str) (base : Str) : Str × List Str :=
  let tok := escapeStd (lowerFirst base)
  (tok ++ dec (seen.count tok), tok :: seen)

/-! ### Relative URL resolution (RFC 3986 §5.2 for the forms that occur) -/

def splitOn (sep : Char) : Str → List Str
  | [] => [[]]
  | c :: s =>
    if c = sep then [] :: splitOn sep s
    else match splitOn sep s with
      | [] => [[c]]
      | h :: t => (c :: h) :: t

/-- `(before the first '#', after it)`. -/
def splitFragment : Str → Str × Str
  | [] => ([], [])
  | c :: s => if c = '#' then ([], s) else let (p, f) := splitFragment s; (c :: p, f)

/-- Walk path segments from a directory (stack, innermost first).  `..` above the output root: `none`.
A path that ends in `/` names a directory; its page is the directory index. -/
def resolveSegs : List Str → List Str → Option (List Str)
  | rdir, [] => some rdir.reverse
  | rdir, [last] =>
    if last = [] ∨ last = ['.'] then some (rdir.reverse ++ [indexPage])
    else if last = ['.', '.'] then (match rdir with | [] => none | _ :: up => some (up.reverse ++ [indexPage]))
    else some (rdir.reverse ++ [last])
  | rdir, seg :: rest =>
    if seg = [] ∨ seg = ['.'] then resolveSegs rdir rest
    else if seg = ['.', '.'] then (match rdir with | [] => none | _ :: up => resolveSegs up rest)
    else resolveSegs (seg :: rdir) rest

/-- Resolve `href` against the page at `pagePath` (path components under the output root):
`(path components of the target page, fragment)`. -/
def resolve (pagePath : List Str) (href : Str) : Option (List Str × Str) :=
  let (path, frag) := splitFragment href
  if path = [] then some (pagePath, frag)
  else match resolveSegs pagePath.dropLast.reverse (splitOn '/' path) with
    | some p => some (p, frag)
    | none => none

/-- Where the generator writes the page of a namespace / of a type (html: `namespace_file_stem: index`, `.html`). -/
def nsPagePath (ns : List Str) : List Str := ns ++ [indexPage]
def typePagePath (t : CType) : List Str :=
  t.comps.dropLast ++ [t.comps.getLastD [] ++ versionSuffix t.major t.minor ++ ".html".toList]

/-! ### Which entries a namespace page contains (recursion of `namespace_info.j2`) -/

inductive NsTree
  | node (name : List Str) (types : List CType) (children : List NsTree)

mutual
/-- ids of the (non-nested) type entries on the page of a namespace, in document order: the types of the namespace
itself except the doc holder `_`, then the nested namespaces. -/
def entryIds : NsTree → List Str
  | .node _ types children => ((types.filter fun t => t.comps.getLastD [] ≠ ['_']).map tagId) ++ entryIdsL children
def entryIdsL : List NsTree → List Str
  | [] => []
  | n :: l => entryIds n ++ entryIdsL l
end

mutual
/-- ids of the namespace entries on the page of a namespace: its own, then those of the nested namespaces. -/
def nsEntryIds : NsTree → List Str
  | .node name _ children => nsId name :: nsEntryIdsL children
def nsEntryIdsL : List NsTree → List Str
  | [] => []
  | n :: l => nsEntryIds n ++ nsEntryIdsL l
end

mutual
def allTypes : NsTree → List CType
  | .node _ types children => types ++ allTypesL children
def allTypesL : List NsTree → List CType
  | [] => []
  | n :: l => allTypes n ++ allTypesL l
end

/-! ### The forms of `href=` values the templates may contain -/

inductive HPart
  | lit (s : String)
  | ex (s : String)
  deriving DecidableEq, Repr

/-- Recognised link forms (after the fix).  Each has a meaning in the model:
* a literal `https://…` or `javascript:…` — not a reference to a type;
* `#` + namespace id / `#` + `tag_id` — same-page links of the side bar;
* `up` + `url_from_type`, inside `if nested and t.short_name != "_"` — `typeHref`;
* `index.html#` + the id of the namespace entry of the page's own type — `backHref`. -/
def hrefFormOk (guards : List String) (ps : List HPart) : Bool :=
  match ps with
  | [.lit s] => "https://".toList.isPrefixOf s.toList || "javascript:".toList.isPrefixOf s.toList
  | [.lit "#", .ex "t.full_name.replace(\".\",\"_\")"] => true
  | [.lit "#", .ex "type|tag_id"] => true
  | [.ex "up", .ex "t|url_from_type"] =>
    -- only for types that have an entry of their own: not for the doc holder `_`
    guards.any (· == "(nested and t.short_name ne \"_\")")
  | [.lit "index.html#", .ex "T.full_namespace.replace(\".\",\"_\")"] => true
  | _ => false

/-- The link prefix parameter is only ever the expression of `upPrefix` (at the root call) or the caller's own
parameter passed through. -/
def upBindingOk (b : String × List String) : Bool :=
  if ".up".toList.isSuffixOf b.1.toList then
    b.2.all fun s => ": param:up".toList.isSuffixOf s.toList ||
      ": (\"../\" * T.full_name.count(\".\"))".toList.isSuffixOf s.toList
  else true

end NunavutVerif.Html
