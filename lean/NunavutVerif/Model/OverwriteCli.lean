import NunavutVerif.Model.Overwrite
import NunavutVerif.Model.CliParse
/-!
# From the command line to the runs of the overwrite model (C12)

`Model/Overwrite.lean` describes one `nnvg` invocation as a `Run` (one `allowOverwrite`, one list of file post-processors, the
files in generation order).  Here that record is *derived* from what the runner does: `ArgparseRunner._generate` makes up to
two `generate_all` calls (support generator, type generator — table `Gen.CliArgs.calls`), each with its own `allow_overwrite`
and `is_dryrun` keyword values, each generator splitting the file post-processors off the post-processor list it was
constructed with (`_build_post_processor_list_from_args`, table `Gen.CliArgs.ppRules`).  One call = one `Part`; an invocation
= its parts in order.  Core Lean only.
-/
namespace NunavutVerif.OverwriteCli
open NunavutVerif.Overwrite NunavutVerif.CliParse NunavutVerif.Gen.CliArgs

/-- `SetFileMode(v)(path)` is `path.chmod(v)`: a Python `int` that fits a C `int` reaches `chmod(2)`, which keeps
`v & 07777` (two's complement for a negative one); anything else raises (`OverflowError`, `TypeError` for a list). -/
def setFileModePP : Val → FilePP
  | .sc (.int i) => if -2147483648 ≤ i ∧ i < 2147483648 then .setMode (i % 4096).toNat else .raises
  | _ => .raises

/-- A post-processor object as a file post-processor of the overwrite model (`none`: a line post-processor — it acts on the
rendered text, i.e. on `Write.content`).  `prog argv`: what the external program with that command line does to a file. -/
def toFilePP (prog : List Scalar → Content → Option (Content × Option Nat)) : PP → Option FilePP
  | .extProgram argv => some (.edit (prog argv))
  | .setFileMode v => some (setFileModePP v)
  | .trim => none
  | .limitEmptyLines _ => none

/-- `file_pps` of `_generate_code` / `SupportGenerator.generate_all`: the file post-processors in list order. -/
def toFilePPs (prog : List Scalar → Content → Option (Content × Option Nat)) (pps : List PP) : List FilePP :=
  pps.filterMap (toFilePP prog)

/-- What one `generate_all` call does to the output tree. -/
structure Part where
  allow : Bool
  pps : List FilePP
  writes : List Write

/-- The calls of one invocation in order; the first raised error ends the invocation. -/
def runParts (env : Env) : List Part → FS → Overwrite.Outcome
  | [], fs => ⟨fs, [], none⟩
  | p :: ps, fs =>
    let o := runWrites env p.allow p.pps p.writes fs
    match o.err with
    | some e => ⟨o.fs, o.ops, some e⟩
    | none =>
      let o' := runParts env ps o.fs
      ⟨o'.fs, o.ops ++ o'.ops, o'.err⟩

/-- The keyword values a `generate_all` call of `_generate` receives for a command line on which `--dry-run`,
`--no-overwrite`, `--omit-serialization-support`, `--embed-auditing-info` were (`true`) or were not given. -/
def generateKw (dry now om emb : Bool) : List (String × Val) :=
  [("is_dryrun", .bool dry), ("allow_overwrite", .bool (!now)), ("omit_serialization_support", .bool om),
   ("embed_auditing_info", .bool emb)]

def boolKw (c : Call) (k : String) : Option Bool :=
  match c.kw k with
  | some (.bool b) => some b
  | _ => none

/-- One `generate_all(is_dryrun, allow_overwrite, …)` call as a part: the generator named `c.target` writes `files c.target`
unless the call is dry. -/
def partOfCall (fpps : List FilePP) (files : String → List Write) (c : Call) : Option Part :=
  match boolKw c "allow_overwrite", boolKw c "is_dryrun" with
  | some allow, some dry => some ⟨allow, fpps, if dry then [] else files c.target⟩
  | _, _ => none

def partsOfCalls (fpps : List FilePP) (files : String → List Write) : List Call → Option (List Part)
  | [] => some []
  | c :: r =>
    match partOfCall fpps files c, partsOfCalls fpps files r with
    | some p, some ps => some (p :: ps)
    | _, _ => none

/-- The parts of a generating invocation (`ArgparseRunner._generate`) for a parsed command line: the calls of the table
with their evaluated keywords, the file post-processors of the list `_build_post_processor_list_from_args` builds. -/
def cliParts (prog : List Scalar → Content → Option (Content × Option Nat)) (files : String → List Write)
    (a : Cli.Args) (ns : Namespace) : Option (List Part) :=
  match callsOf calls "_generate" a ns, buildPPs ns ppRules with
  | some cs, some pps => partsOfCalls (toFilePPs prog pps) files cs
  | _, _ => none

end NunavutVerif.OverwriteCli
