import NunavutVerif.Model.OptionExpr
/-!
# Emission sites of the option guard, as read from the templates

`translate/optionemit.py` walks the Jinja AST of the four anchored templates
(`lang/c/support/serialization.j2`, `lang/c/templates/base.j2`, `lang/cpp/support/serialization.j2`,
`lang/cpp/templates/base.j2`) *and of every template they import / include / extend*, finds every output statement
that prints `… | to_static_assertion_value`, and records for each such **emission site**

* over what the enclosing loop iterates and which loop variables it binds,
* every template-level construct the site is nested in that decides whether / how often it is rendered
  (Jinja `if` tests and loop filters, `{% set %}` blocks, macros, `{% block %}`s, being in another file than the
  entry template) and every C preprocessor conditional that is open at the site — the **guards**,
* how the printed name and the printed value are computed from the loop variables,
* the C / C++ statement form the surrounding text gives the two printed expressions.

The result is `Gen/OptionEmit.lean :: emitSites`.  This file gives the table a meaning (`siteRender`): the list of
`(rendered name, number)` pairs a site contributes to a header — defined only for the guards and expression forms the
model understands.  Anything else is carried by name (`Guard.other kind text`, `NameExpr.other`, …), makes
`siteRender` answer `none`, and so breaks `C17_emission_table_is_the_model` with the construct's name in the table.
-/
namespace NunavutVerif.Options

inductive Side where
  | support | type
  deriving DecidableEq, Repr

/-- A template-level condition on an emission site. -/
inductive Guard where
  /-- Jinja: `not nunavut.support.omit`, as an `{% if %}` test around the loop or as the loop's filter. -/
  | notOmit
  /-- C preprocessor: the header's own include guard (`#ifndef G` … `#define G`), open at the site: true whenever the
  header's text is read for the first time in a translation unit, which is the only time anything in it counts. -/
  | includeGuard
  /-- Anything else; `kind` ∈ jinja-if, jinja-else, loop-filter, set-block, macro, call-block, filter-block, block,
  imported-from, cpp-conditional, …; `text` is the normalised source of the condition. -/
  | other (kind : String) (text : String)
  deriving DecidableEq, Repr

/-- How the printed name is computed from the loop variable `key`. -/
inductive NameExpr where
  | macrofyPrefixed (pfx : String)   -- `"<pfx>{}".format(key) | ln.c.macrofy`
  | idOfKey                          -- `key | id`
  | other (text : String)
  deriving DecidableEq, Repr

/-- How the printed number is computed from the loop variable `value`. -/
inductive ValueExpr where
  | encOfValue                       -- `value | to_static_assertion_value`  (`ln.c.to_static_assertion_value` in C++)
  | other (text : String)
  deriving DecidableEq, Repr

/-- The statement the site's literal text forms around the two printed expressions. -/
inductive Form where
  | define (df : DefForm)                          -- support side
  | staticAssert (qualifier : String) (op : CmpOp) -- type side: `static_assert( ⟨qualifier⟩⟨name⟩ ⟨op⟩ ⟨value⟩, "…" );`
  | other (text : String)
  deriving DecidableEq, Repr

structure EmitSite where
  lang : Lang
  side : Side
  file : String
  loopOver : String        -- normalised source of the loop's iterable; the model understands `options.items()`
  loopVars : String        -- `key, value`
  guards : List Guard      -- outermost first
  nameExpr : NameExpr
  valueExpr : ValueExpr
  form : Form
  deriving DecidableEq, Repr

/-- The two name filters of the real code (`ln.c.macrofy`, `id` of the C++ language), as parameters. -/
structure NameFilters where
  macrofy : String → String
  cppId : String → String

def NameExpr.apply (nf : NameFilters) : NameExpr → Option (String → String)
  | .macrofyPrefixed pfx => some fun k => nf.macrofy (pfx ++ k)
  | .idOfKey => some nf.cppId
  | .other _ => none

/-- Does the guard let the site through, in a header rendered with `nunavut.support.omit = omit`? -/
def Guard.holds (om : Bool) : Guard → Option Bool
  | .notOmit => some (!om)
  | .includeGuard => some true
  | .other _ _ => none

def guardsHold (om : Bool) : List Guard → Option Bool
  | [] => some true
  | g :: r =>
    match g.holds om, guardsHold om r with
    | some a, some b => some (a && b)
    | _, _ => none

/-- What the site contributes to a header rendered with option set `o` (the `options` global) and
`nunavut.support.omit = omit`.  Outer `none`: the table row uses a construct the model does not interpret.  Inner
`none`: `filter_to_static_assertion_value` raised (the header is not generated). -/
def siteRender (nf : NameFilters) (s : EmitSite) (om : Bool) (o : OptSet) : Option (Option (List (String × Int))) :=
  if s.loopOver = "options.items()" ∧ s.loopVars = "key, value" then
    match guardsHold om s.guards, s.nameExpr.apply nf, s.valueExpr with
    | some g, some name, .encOfValue => some (if g then render name o else some [])
    | _, _, _ => none
  else none

/-- The sites of one header kind. -/
def sitesOf (tbl : List EmitSite) (lang : Lang) (side : Side) : List EmitSite :=
  tbl.filter fun s => s.lang = lang ∧ s.side = side

/-- All sites of a header kind, concatenated in document order (a header with two sites would print both). -/
def renderAll (nf : NameFilters) (om : Bool) (o : OptSet) : List EmitSite → Option (Option (List (String × Int)))
  | [] => some (some [])
  | s :: r =>
    match siteRender nf s om o, renderAll nf om o r with
    | some (some a), some (some b) => some (some (a ++ b))
    | some none, some _ => some none
    | some _, some none => some none
    | _, _ => none

/-- The option definitions / assertions a header of kind `(lang, side)` carries according to the table. -/
def tableRender (tbl : List EmitSite) (nf : NameFilters) (lang : Lang) (side : Side) (om : Bool) (o : OptSet) :
    Option (Option (List (String × Int))) :=
  renderAll nf om o (sitesOf tbl lang side)

/-- The name function of a language induced by the filters: what `Model/Options.lean` takes as the parameter `name`. -/
def canonicalName (nf : NameFilters) : Lang → String → String
  | .c => fun k => nf.macrofy ("NUNAVUT_SUPPORT_LANGUAGE_OPTION_" ++ k)
  | .cpp => nf.cppId

/-- The shape the model of `Model/Options.lean` assumes for the site of `(lang, side)`. -/
def expectedSite (lang : Lang) (side : Side) (s : EmitSite) : Bool :=
  s.lang = lang && s.side = side && s.loopOver = "options.items()" && s.loopVars = "key, value" &&
  (match side with
   | .support => s.guards = [.includeGuard]
   | .type => s.guards = [.includeGuard, .notOmit]) &&
  (match lang with
   | .c => s.nameExpr = .macrofyPrefixed "NUNAVUT_SUPPORT_LANGUAGE_OPTION_"
   | .cpp => s.nameExpr = .idOfKey) &&
  s.valueExpr = .encOfValue &&
  (match lang, side with
   | .c, .support => s.form = .define .macro
   | .cpp, .support => s.form = .define (.constexprVar .uint32)
   | .c, .type => s.form = .staticAssert "" .eq
   | .cpp, .type => s.form = .staticAssert "nunavut::support::options::" .eq)

/-- Exactly one site per header kind, of the expected shape. -/
def tableOK (tbl : List EmitSite) : Bool :=
  [Lang.c, Lang.cpp].all fun lang => [Side.support, Side.type].all fun side =>
    match sitesOf tbl lang side with
    | [s] => expectedSite lang side s
    | _ => false

end NunavutVerif.Options
