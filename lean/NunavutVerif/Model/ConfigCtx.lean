import NunavutVerif.Model.Config
/-
The access-path layer above the merged configuration (src/nunavut/lang/__init__.py, lang/_language.py):

* `Language.__init__`  — a language object is a *view* of one section of the `LanguageConfig` it was given;
  constructing it runs the language class' `_validate_language_options` on the `options` dict that lives
  inside that configuration (C++: the `std` shorthand groups, Python: forced asserts) — `initSection`,
  `newLanguage`; a section without an `options` mapping gives the object a private validated `{}` (`LangObj.own`);
* `LanguageContextBuilder.create()` — resolve the target, merge the pending overrides into the target's
  section, THEN construct the target language (`BS.create`);
* `LanguageContext` = (configuration, target language, lazily built map of all languages):
  `get_supported_languages()` builds the map on first use (`BS.force` / `buildMap`), constructing every
  non-target language — which validates (= mutates) that language's section of the shared configuration;
* every way a value can be read from a context (`Access`): `ctx.config…`, `ctx.get_target_language()…`,
  `ctx.get_language(name)…` (= the `ln.<name>` globals of the templates), `get_supported_languages()`;
* a *process*: a file system (path ↦ document currently stored), any number of builders, each owning its
  configuration and the contexts it created (`Proc`, `POp`).  There is no other process-wide state: that is the
  statement the correspondence checks against the real code (no cache of parsed files, no cache of language
  objects).

Core Lean only (linked into the `config` driver).
-/
namespace NunavutVerif.Config

variable {κ σ : Type} [DecidableEq κ]

/-- Errors above the merge level. -/
inductive CErr where
  | cfg (e : Err)          -- raised by `LanguageConfig.update` / by a language class' validation
  | unknownLanguage        -- KeyError: a section names a language without a language module
  | unsupported            -- UnsupportedLanguageError: the target language is experimental, not enabled
  | noLanguage             -- KeyError of `get_language(name)`: not in the map (does not damage anything)
  | noSection              -- no mapping under the section name (cannot happen: names come from `sections()`)
  | noFile                 -- FileNotFoundError in `add_config_files`
  | noContext              -- the request names a builder / context that was never created (protocol error)
  | dead                   -- the builder raised before and is not used any more
  deriving DecidableEq, Repr

/-- What the language classes contribute. -/
structure LangEnv (κ σ : Type) where
  /-- `_validate_language_options(defaults, options)` of the language class of a section: the options
  afterwards (the real method updates the `options` dict in place and returns it). -/
  validateOptions : κ → M κ σ → M κ σ → Except Err (M κ σ)
  /-- `importlib.import_module(section name)` succeeds. -/
  known : κ → Bool
  /-- `Language.stable_support` read from the section. -/
  stable : M κ σ → Bool
  /-- `Language.WKCV_LANGUAGE_OPTIONS`, `WKCV_LANGUAGE_OPTION_DEFAULTS` -/
  options : κ
  defaults : κ

/-- A `Language` object: a view of section `sect` of the configuration it was constructed with.
`own = none`: its `_language_options` IS the `options` dict inside the configuration (read live);
`own = some o`: the section had no `options` mapping when the object was constructed —
`get_config_value_as_dict(section, "options", {})` handed out a fresh `{}`, the validated `o` is private to the
object and the configuration knows nothing of it. -/
structure LangObj (κ σ : Type) where
  sect : κ
  own : Option (M κ σ)

/-- `get_config_value_as_dict(section, key, {})` of a section. -/
def dictOr (sec : M κ σ) (key : κ) : Option (M κ σ) :=
  match sec.get key with
  | some (.map d) => some d
  | _ => none

/-- `Language.__init__` on section `sec`: validate the options; the section afterwards and the object's private
options, if any. -/
def initSection (E : LangEnv κ σ) (l : κ) (sec : M κ σ) : Except Err (M κ σ × Option (M κ σ)) :=
  let dflts := (dictOr sec E.defaults).getD .nil
  match dictOr sec E.options with
  | some o =>
    (match E.validateOptions l dflts o with
     | .error e => .error e
     | .ok o' => .ok (sec.set E.options (.map o'), none))
  | none =>
    (match E.validateOptions l dflts .nil with
     | .error e => .error e
     | .ok o' => .ok (sec, some o'))

/-- `_new_language_w_experimental_handling(name)` on the configuration `c`: import the module, construct the
language (validation mutates its section), then test `stable_support or include_experimental`.
Returns the configuration afterwards, the object, and whether it is kept (`false` = `UnsupportedLanguageError`:
the object is dropped, the validation has happened). -/
def newLanguage (E : LangEnv κ σ) (exp : Bool) (c : M κ σ) (l : κ) :
    Except CErr (M κ σ × LangObj κ σ × Bool) :=
  if E.known l then
    match c.get l with
    | some (.map sec) =>
      (match initSection E l sec with
       | .error e => .error (.cfg e)
       | .ok (sec', own) => .ok (c.set l (.map sec'), ⟨l, own⟩, E.stable sec' || exp))
    | _ => .error .noSection
  else .error .unknownLanguage

/-- `_new_language_map(target)`: every section name except the target's, in turn; an unsupported language is
skipped, any other exception propagates.  Returns the objects in the map besides the target. -/
def buildMap (E : LangEnv κ σ) (exp : Bool) (target : κ) :
    M κ σ → List κ → Except CErr (M κ σ × List (LangObj κ σ))
  | c, [] => .ok (c, [])
  | c, l :: ls =>
    if l = target then buildMap E exp target c ls
    else
      match newLanguage E exp c l with
      | .error e => .error e
      | .ok (c', obj, keep) =>
        match buildMap E exp target c' ls with
        | .error e => .error e
        | .ok (c'', os) => .ok (c'', if keep then obj :: os else os)

/-- `sections()[sect]["options"][key]`: the option as the configuration has it. -/
def optionOf (E : LangEnv κ σ) (c : M κ σ) (sect key : κ) : Option (V κ σ) :=
  match c.get sect with
  | some (.map sec) =>
    (match dictOr sec E.options with
     | some o => o.get key
     | none => none)
  | _ => none

/-- `Language.get_option(key)` of a language object bound to configuration `c`. -/
def LangObj.option (E : LangEnv κ σ) (c : M κ σ) (obj : LangObj κ σ) (key : κ) : Option (V κ σ) :=
  match obj.own with
  | some o => o.get key
  | none => optionOf E c obj.sect key

/-- The raw entry of a section (`sections()[sect][key]`, `Language.get_config_value*` before `str()`). -/
def rawOf (c : M κ σ) (sect key : κ) : Option (V κ σ) :=
  match c.get sect with
  | some (.map sec) => sec.get key
  | _ => none

/-- One `LanguageContext`: its target language and the lazily built map (`none` = not built yet). -/
structure CtxS (κ σ : Type) where
  target : LangObj κ σ
  langs : Option (List (LangObj κ σ))

/-- `get_supported_languages()[name]` once the map is built. -/
def CtxS.find (cx : CtxS κ σ) (os : List (LangObj κ σ)) (name : κ) : Option (LangObj κ σ) :=
  if name = cx.target.sect then some cx.target else os.find? (fun o => o.sect = name)

/-- association lists keyed by numbers (builders, contexts, paths) -/
def alook {α : Type} : List (Nat × α) → Nat → Option α
  | [], _ => none
  | (k', v) :: r, k => if k' = k then some v else alook r k

def aset {α : Type} : List (Nat × α) → Nat → α → List (Nat × α)
  | [], k, v => [(k, v)]
  | (k', v') :: r, k, v => if k' = k then (k', v) :: r else (k', v') :: aset r k v

/-- One `LanguageContextBuilder` with everything that hangs on it: its configuration (shared with every
context it created), the pending overrides, the chosen language, the contexts. -/
structure BS (κ σ : Type) where
  b : Builder κ σ
  exp : Bool
  ctxs : List (Nat × CtxS κ σ)
  dead : Bool

/-- Every way a value is read from a context. -/
inductive Access (κ : Type) where
  /-- `ctx.config.sections()[sect][key]` / `ctx.config.get_config_value*(sect, key)` -/
  | cfgValue (sect key : κ)
  /-- `ctx.config.sections()[sect]["options"][key]` -/
  | cfgOption (sect key : κ)
  /-- `ctx.get_target_language().get_config_value(key)` / `.extension` … -/
  | tgtValue (key : κ)
  /-- `ctx.get_target_language().get_option(key)`, the `options` global of the templates -/
  | tgtOption (key : κ)
  /-- `ctx.get_language(name).get_config_value(key)`, `ln.<name>.<global>` -/
  | langValue (name key : κ)
  /-- `ctx.get_language(name).get_option(key)`, `ln.<name>.options.<key>` -/
  | langOption (name key : κ)
  /-- `ctx.get_supported_languages().keys()` -/
  | names
  deriving DecidableEq

inductive Ans (κ σ : Type) where
  | unit
  | val (v : Option (V κ σ))
  | names (ns : List κ)
  | err (e : CErr)
  deriving DecidableEq

/-- Parameters of a process. -/
structure PEnv (κ σ : Type) where
  E : LangEnv κ σ
  /-- the configuration a new builder starts from (`LanguageClassLoader._load_config()`, loaded afresh) -/
  builtin : M κ σ
  valid : κ → Bool
  dflt : κ
  resolve : M κ σ → M κ σ → κ

/-- The loop of `add_config_files(*paths)`; `none` = the path does not exist. -/
def readFiles (valid : κ → Bool) (c : M κ σ) : List (Option (V κ σ)) → Except CErr (M κ σ)
  | [] => .ok c
  | none :: _ => .error .noFile
  | some doc :: docs =>
    match update valid c doc with
    | .ok c' => readFiles valid c' docs
    | .error e => .error (.cfg e)

namespace BS

/-- The target `create()` resolves. -/
def targetOf (P : PEnv κ σ) (s : BS κ σ) : κ :=
  match s.b.lang with
  | some l => l
  | none => P.resolve s.b.config s.b.overrides

/-- `create()`: merge the overrides into the target's section (`Builder.create`), then construct the target
language on the merged configuration; the new context's map is not built. -/
def create (P : PEnv κ σ) (s : BS κ σ) (j : Nat) : Except CErr (BS κ σ) :=
  let b' := s.b.create P.resolve
  match newLanguage P.E s.exp b'.config (s.targetOf P) with
  | .error e => .error e
  | .ok (c, obj, true) => .ok { s with b := { b' with config := c }, ctxs := aset s.ctxs j ⟨obj, none⟩ }
  | .ok (_, _, false) => .error .unsupported

/-- `get_supported_languages()` of context `j`: build the map if it has not been built. -/
def force (P : PEnv κ σ) (s : BS κ σ) (j : Nat) : Except CErr (BS κ σ × CtxS κ σ × List (LangObj κ σ)) :=
  match alook s.ctxs j with
  | none => .error .noContext
  | some cx =>
    match cx.langs with
    | some ns => .ok (s, cx, ns)
    | none =>
      match buildMap P.E s.exp cx.target.sect s.b.config s.b.config.keys with
      | .error e => .error e
      | .ok (c, ns) =>
        .ok ({ s with b := { s.b with config := c }, ctxs := aset s.ctxs j { cx with langs := some ns } },
             cx, ns)

/-- One read through context `j`. -/
def read (P : PEnv κ σ) (s : BS κ σ) (j : Nat) (a : Access κ) : Except CErr (BS κ σ × Ans κ σ) :=
  match alook s.ctxs j with
  | none => .error .noContext
  | some cx =>
    match a with
    | .cfgValue sect key => .ok (s, .val (rawOf s.b.config sect key))
    | .cfgOption sect key => .ok (s, .val (optionOf P.E s.b.config sect key))
    | .tgtValue key => .ok (s, .val (rawOf s.b.config cx.target.sect key))
    | .tgtOption key => .ok (s, .val (cx.target.option P.E s.b.config key))
    | .langValue name key =>
      (match force P s j with
       | .error e => .error e
       | .ok (s', _, os) =>
         match cx.find os name with
         | some obj => .ok (s', .val (rawOf s'.b.config obj.sect key))
         | none => .ok (s', .err .noLanguage))
    | .langOption name key =>
      (match force P s j with
       | .error e => .error e
       | .ok (s', _, os) =>
         match cx.find os name with
         | some obj => .ok (s', .val (obj.option P.E s'.b.config key))
         | none => .ok (s', .err .noLanguage))
    | .names =>
      (match force P s j with
       | .error e => .error e
       | .ok (s', _, os) => .ok (s', .names (cx.target.sect :: os.map LangObj.sect)))

/-- A sequence of reads through one context; stops at the first exception. -/
def readAll (P : PEnv κ σ) (j : Nat) : BS κ σ → List (Access κ) → List (Ans κ σ)
  | _, [] => []
  | s, a :: as =>
    match read P s j a with
    | .error e => [.err e]
    | .ok (s', r) => r :: readAll P j s' as

end BS

/-- Whether an access goes through the language map (and so builds it on first use). -/
def Access.forces : Access κ → Bool
  | .langValue _ _ => true
  | .langOption _ _ => true
  | .names => true
  | _ => false

/-- An access whose answer cannot depend on whether the non-target languages have been constructed yet:
everything except a direct look into the configuration section of a language other than the target. -/
def Access.lazySafe (target : κ) : Access κ → Bool
  | .cfgValue sect _ => sect = target
  | .cfgOption sect _ => sect = target
  | _ => true

/-! ### the process -/

structure Proc (κ σ : Type) where
  /-- the file system: path ↦ the document the file holds now -/
  fs : List (Nat × V κ σ)
  bs : List (Nat × BS κ σ)

inductive POp (κ σ : Type) where
  /-- (re)write a file -/
  | write (path : Nat) (doc : V κ σ)
  /-- `LanguageContextBuilder(include_experimental_languages=exp)` bound to the name `b` -/
  | newBuilder (b : Nat) (exp : Bool)
  | addFiles (b : Nat) (paths : List Nat)
  | setOverride (b : Nat) (k : κ) (v : Option (V κ σ))
  | setLanguage (b : Nat) (l : Option κ)
  /-- `ctx_j = b.create()` -/
  | create (b j : Nat)
  | read (b j : Nat) (a : Access κ)

/-- The builder an op is addressed to (`none`: the file system). -/
def POp.builder : POp κ σ → Option Nat
  | .write _ _ => none
  | .newBuilder b _ => some b
  | .addFiles b _ => some b
  | .setOverride b _ _ => some b
  | .setLanguage b _ => some b
  | .create b _ => some b
  | .read b _ _ => some b

/-- Run `f` on builder `b`; an exception kills the builder (it is not used afterwards). -/
def Proc.onBuilder (p : Proc κ σ) (b : Nat) (f : BS κ σ → Except CErr (BS κ σ × Ans κ σ)) : Proc κ σ × Ans κ σ :=
  match alook p.bs b with
  | none => (p, .err .noContext)
  | some s =>
    if s.dead then (p, .err .dead)
    else
      match f s with
      | .ok (s', a) => ({ p with bs := aset p.bs b s' }, a)
      | .error e => ({ p with bs := aset p.bs b { s with dead := true } }, .err e)

def Proc.step (P : PEnv κ σ) (p : Proc κ σ) : POp κ σ → Proc κ σ × Ans κ σ
  | .write path doc => ({ p with fs := aset p.fs path doc }, .unit)
  | .newBuilder b exp => ({ p with bs := aset p.bs b ⟨⟨P.builtin, .nil, none⟩, exp, [], false⟩ }, .unit)
  | .addFiles b paths =>
    p.onBuilder b fun s =>
      match readFiles P.valid s.b.config (paths.map (alook p.fs)) with
      | .ok c => .ok ({ s with b := { s.b with config := c } }, .unit)
      | .error e => .error e
  | .setOverride b k v =>
    p.onBuilder b fun s =>
      match s.b.apply P.valid P.dflt (.setOverride k v) with
      | .ok b' => .ok ({ s with b := b' }, .unit)
      | .error e => .error (.cfg e)
  | .setLanguage b l =>
    p.onBuilder b fun s =>
      match s.b.apply P.valid P.dflt (.setLanguage l) with
      | .ok b' => .ok ({ s with b := b' }, .unit)
      | .error e => .error (.cfg e)
  | .create b j =>
    p.onBuilder b fun s =>
      match s.create P j with
      | .ok s' => .ok (s', .unit)
      | .error e => .error e
  | .read b j a => p.onBuilder b fun s => s.read P j a

/-- The answers of a whole history. -/
def Proc.run (P : PEnv κ σ) : Proc κ σ → List (POp κ σ) → Proc κ σ × List (Ans κ σ)
  | p, [] => (p, [])
  | p, op :: ops =>
    let r := p.step P op
    let rest := Proc.run P r.1 ops
    (rest.1, r.2 :: rest.2)

/-- What concerns builder `b`: the ops addressed to it, and the file system. -/
def POp.concerns (b : Nat) (op : POp κ σ) : Bool :=
  match op.builder with
  | none => true
  | some b' => b' = b

/-! ### the YAML constructor (PyYAML `SafeConstructor.construct_mapping`)

A YAML mapping node is a *list* of key/value nodes — the same key may occur more than once.  The constructor
executes `mapping[key] = value` for every pair in document order: the LAST occurrence of a key gives the value,
the FIRST occurrence gives the position.  `M` as parsed from the text (duplicates allowed) ↦ the `dict`. -/

mutual
def normV : V κ σ → V κ σ
  | .map m => .map (normM .nil m)
  | v => v
def normM (acc : M κ σ) : M κ σ → M κ σ
  | .nil => acc
  | .cons k v rest => normM (acc.set k (normV v)) rest
end

/-- The last entry with key `k` (what a reader of the text has to look at). -/
def M.getLast : M κ σ → κ → Option (V κ σ)
  | .nil, _ => none
  | .cons k' v rest, k =>
    match M.getLast rest k with
    | some w => some w
    | none => if k' = k then some v else none

end NunavutVerif.Config
