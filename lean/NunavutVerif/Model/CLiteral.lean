/-!
# C05 (constants) — rendering of DSDL constants as C / C++ / Python literals, and what the literals denote

Core Lean only (linked into `Drivers/CLiteral.lean`).  Four parts:

1. **Rendering, transcribed from the code as it is** (`src/nunavut/lang/c/__init__.py`: `filter_literal`,
   `filter_constant_value`, `_most_negative_integer_literal`, `_float_literal_expression`, `_CFit.get_best_fit`,
   `_CFit.to_c_float`; `lang/cpp/__init__.py` forwards to the C filter with its own `cast_format`; the Python target
   renders constants in `lang/py/templates/base.j2`).  Strings are `List Char`.  Python's `str(Fraction)`,
   `float(int)`, `int / int` (correctly rounded true division, `OverflowError`) and `repr(float)` (shortest
   round-trip digits, `float_repr_style = 'short'`) are modelled with exact integer arithmetic.
2. **Binary floating point as exact arithmetic**: `roundNat prec N D` rounds the non-negative rational `N / D`
   to `m * 2^E` (`m < 2^prec`, round to nearest, ties to even); a format (`binary32`, `binary64`) fixes
   `prec`, the scale `2^bias` (`value = m * 2^E / 2^bias`, so that `E = 0` is the subnormal range) and the largest `E`.
3. **The literal language of C11 / C++14** restricted to what constants use: decimal / octal-zero integer literals with
   suffixes, decimal floating literals, `true` / `false`, unary minus, binary minus, division, C casts and
   `static_cast` to `float` / `double`, parentheses.  Lexer (a number token is the maximal preprocessing number,
   C11 6.4.8, which must then be a literal of the fragment), parser, and an evaluator with the integer-literal typing
   rule (first type of the standard's list that can represent the value; LP64: `int` 32 bit, `long` = `long long` = 64
   bit), integer promotions, usual arithmetic conversions, signed overflow as an error, floating literals and
   floating division correctly rounded (IEEE 754 / Annex F; what gcc and clang do on this host).
   There are **no negative literals**: `-9223372036854775808LL` is unary minus applied to a literal that fits no
   signed type — `intLiteralNoType` in this model.
4. **The Python expression language of the generated class constants**: integer literals, `True` / `False`, unary
   minus and true division.
-/
namespace NunavutVerif.CLiteral

abbrev Str := List Char

instance {ε α : Type} [DecidableEq ε] [DecidableEq α] : DecidableEq (Except ε α)
  | .ok a, .ok b => if h : a = b then isTrue (by rw [h]) else isFalse (by intro e; cases e; exact h rfl)
  | .error a, .error b => if h : a = b then isTrue (by rw [h]) else isFalse (by intro e; cases e; exact h rfl)
  | .ok _, .error _ => isFalse (by intro e; cases e)
  | .error _, .ok _ => isFalse (by intro e; cases e)

/-! ## 1. Python values and the rendering filters -/

/-- `fractions.Fraction`: the class keeps `den > 0` and lowest terms (hypotheses of the theorems, not needed to run).
A Python `int` is the fraction with denominator 1. -/
structure Frac where
  num : Int
  den : Nat
deriving Repr, DecidableEq

/-- `constant.value.native_value`: `bool` for `pydsdl.Boolean`, `Fraction` for `pydsdl.Rational`. -/
inductive PyVal
  | bool (b : Bool)
  | frac (f : Frac)
deriving Repr, DecidableEq

/-- The data type of a constant as far as `filter_literal` looks at it. `other`: any other PyDSDL type. -/
inductive DTy
  | bool
  | uint (w : Nat)
  | sint (w : Nat)
  | float (w : Nat)
  | other
deriving Repr, DecidableEq

def natStr (n : Nat) : Str := Nat.toDigits 10 n

/-- `str(int)` -/
def intStr : Int → Str
  | .ofNat n => natStr n
  | .negSucc n => '-' :: natStr (n + 1)

/-- `str(value)`: `str(bool)`, `str(Fraction)` (`"n"` when the denominator is 1, else `"n/d"`). -/
def pyStr : PyVal → Str
  | .bool true => "True".toList
  | .bool false => "False".toList
  | .frac f => if f.den = 1 then intStr f.num else intStr f.num ++ '/' :: natStr f.den

/-- Python truthiness of the value. -/
def truthy : PyVal → Bool
  | .bool b => b
  | .frac f => f.num != 0

/-- `value.numerator`, `value.denominator` (a `bool` is an `int`). -/
def asFrac : PyVal → Frac
  | .bool b => ⟨if b then 1 else 0, 1⟩
  | .frac f => f

/-- A `str.format` template over the two fields `filter_literal` passes. -/
inductive FmtPiece
  | lit (s : Str)
  | ty
  | val
deriving Repr, DecidableEq

/-- What `filter_literal` reads from the language object. -/
structure LangCfg where
  /-- `named_values['true']` / `['false']` (`language.valuetoken_true`) -/
  tokTrue : Str
  tokFalse : Str
  /-- option `cast_format`; `none`: missing or not a string -/
  castFormat : Option (List FmtPiece)
deriving Repr

inductive RenderErr
  | castFormatMissing   -- RuntimeError("cast_format language option was missing or invalid.")
  | notALiteralType     -- ValueError("Cannot construct a literal from an instance of ...")
  | tooWide             -- RuntimeError: primitive larger than 64 bits
  | overflow            -- OverflowError: integer division result too large for a float
  | zeroDivision        -- ZeroDivisionError
deriving Repr, DecidableEq

def formatCast (fmt : List FmtPiece) (ty val : Str) : Str :=
  match fmt with
  | [] => []
  | .lit s :: r => s ++ formatCast r ty val
  | .ty :: r => ty ++ formatCast r ty val
  | .val :: r => val ++ formatCast r ty val

/-- `_CFit.get_best_fit(bit_length)` (the enum value), raising above 64. -/
def bestFit (w : Nat) : Except RenderErr Nat :=
  if w ≤ 8 then .ok 8 else if w ≤ 16 then .ok 16 else if w ≤ 32 then .ok 32 else if w ≤ 64 then .ok 64
  else .error .tooWide

/-- `filter_type_from_primitive` of a `FloatType`: `_CFit.to_c_float`. -/
def cFloatTypeName (w : Nat) : Except RenderErr Str := do
  let fit ← bestFit w
  pure (if fit = 8 ∨ fit = 16 ∨ fit = 32 then "float".toList else "double".toList)

/-! ### binary rounding (part 2 is needed by `float(int)` already) -/

/-- `⌊log2 (N / D)⌋` for `0 < D ≤ N`. -/
def flog2Q (N D : Nat) : Nat :=
  let k := N.log2 - D.log2
  if D * 2 ^ k ≤ N then k else k - 1

/-- Exponent of the last place when `N / D` is written with `prec` significant bits; `0` below `2^(prec-1)`. -/
def expOf (prec N D : Nat) : Nat :=
  (if D ≤ N then flog2Q N D else 0) + 1 - prec

/-- `N / den` rounded to the nearest integer, ties to even. -/
def rneDiv (N den : Nat) : Nat :=
  let q := N / den
  let r := N % den
  if 2 * r < den then q else if den < 2 * r then q + 1 else if q % 2 = 0 then q else q + 1

/-- Round `N / D` (`D > 0`) to `m * 2^E` with `m < 2^prec` (`2^(prec-1) ≤ m` unless `E = 0`): nearest, ties to
even.  A carry out of the significand moves to the next exponent. -/
def roundNat (prec N D : Nat) : Nat × Nat :=
  let E := expOf prec N D
  let m := rneDiv N (D * 2 ^ E)
  if m = 2 ^ prec then (2 ^ (prec - 1), E + 1) else (m, E)

/-- A binary interchange format: `value = m * 2^E / 2^bias`, `m < 2^prec`, `E ≤ emax`. -/
structure Fmt where
  prec : Nat
  bias : Nat
  emax : Nat
  width : Nat
deriving Repr, DecidableEq

def binary64 : Fmt := ⟨53, 1074, 2045, 64⟩
def binary32 : Fmt := ⟨24, 149, 253, 32⟩

/-- A floating value of a format: finite `(-1)^neg * m * 2^E / 2^bias`, or an infinity, or NaN. -/
inductive FVal
  | fin (neg : Bool) (m E : Nat)
  | inf (neg : Bool)
  | nan
deriving Repr, DecidableEq

/-- `(-1)^neg * N / (D * 2^bias)`... precisely: round the rational `N / D` *already scaled by `2^bias`* into the
format; beyond the largest finite number: infinity. -/
def roundTo (f : Fmt) (neg : Bool) (N D : Nat) : FVal :=
  let r := roundNat f.prec N D
  if f.emax < r.2 then .inf neg else .fin neg r.1 r.2

/-- IEEE bit pattern. `E * 2^(prec-1) + m` covers subnormal (`E = 0`) and normal numbers (hidden bit adds 1 to the
exponent field). -/
def toBits (f : Fmt) : FVal → Nat
  | .fin neg m E => (if neg then 2 ^ (f.width - 1) else 0) + E * 2 ^ (f.prec - 1) + m
  | .inf neg => (if neg then 2 ^ (f.width - 1) else 0) + (f.emax + 2) * 2 ^ (f.prec - 1)
  | .nan => (f.emax + 2) * 2 ^ (f.prec - 1) + 2 ^ (f.prec - 2)

/-- Decode a bit pattern (driver only). -/
def ofBits (f : Fmt) (b : Nat) : FVal :=
  let neg := decide (2 ^ (f.width - 1) ≤ b % 2 ^ f.width)
  let mag := b % 2 ^ (f.width - 1)
  let E := mag / 2 ^ (f.prec - 1)
  let m := mag % 2 ^ (f.prec - 1)
  if E = f.emax + 2 then (if m = 0 then .inf neg else .nan)
  else if E = 0 then .fin neg m 0 else .fin neg (m + 2 ^ (f.prec - 1)) (E - 1)

/-- `float(a)` for a non-negative Python `int` below `2^1024 - 2^970`: the integer it denotes is
`m * 2^E / 2^1074`. -/
def pyFloatOfNat (a : Nat) : Nat × Nat := roundNat 53 (a * 2 ^ 1074) 1

/-- `is_exact` inside `_float_literal_expression`: `abs(x) < 2**1023 and int(float(x)) == x`. -/
def isExact (x : Int) : Bool :=
  decide (x.natAbs < 2 ^ 1023) &&
    (let r := pyFloatOfNat x.natAbs
     r.1 * 2 ^ r.2 == x.natAbs * 2 ^ 1074)

/-- Python `n / d` on `int`s: correctly rounded (`long_true_divide`), `OverflowError` beyond the range. -/
def finiteOrOverflow : FVal → Except RenderErr FVal
  | .fin s m E => .ok (.fin s m E)
  | _ => .error .overflow

def pyTrueDiv (n : Int) (d : Int) : Except RenderErr FVal :=
  if d = 0 then .error .zeroDivision else
  finiteOrOverflow (roundTo binary64 (decide (n < 0) != decide (d < 0)) (n.natAbs * 2 ^ 1074) d.natAbs)

/-! ### `repr(float)` -/

/-- The value `mant * 10^e10` read as a decimal floating literal, rounded into the format. -/
def roundDec (f : Fmt) (neg : Bool) (mant : Nat) (e10 : Int) : FVal :=
  match e10 with
  | .ofNat k => roundTo f neg (mant * 10 ^ k * 2 ^ f.bias) 1
  | .negSucc k => roundTo f neg (mant * 2 ^ f.bias) (10 ^ (k + 1))

/-- `VN / VD < 10^p` -/
def ltPow10 (VN VD : Nat) (p : Int) : Bool :=
  match p with
  | .ofNat k => decide (VN < VD * 10 ^ k)
  | .negSucc k => decide (VN * 10 ^ (k + 1) < VD)

/-- smallest `p ≥ start` (within `fuel` steps) with `VN / VD < 10^p` -/
def findDecpt (VN VD : Nat) : Nat → Int → Option Int
  | 0, _ => none
  | fuel + 1, p => if ltPow10 VN VD p then some p else findDecpt VN VD fuel (p + 1)

/-- Decimal exponent of `VN / VD > 0`: the `p` with `10^(p-1) ≤ VN / VD < 10^p`.  An estimate from the binary
logarithm first, the plain search from far below as the fall back. -/
def decpt (VN VD : Nat) : Int :=
  let est : Int := (((VN.log2 : Int) - (VD.log2 : Int)) * 30103) / 100000 - 2
  let slow := (findDecpt VN VD 800 (-400)).getD 400
  if ltPow10 VN VD est then slow else (findDecpt VN VD 8 est).getD slow

def stripZeros : Nat → Nat → Nat
  | 0, d => d
  | fuel + 1, d => if d ≠ 0 ∧ d % 10 = 0 then stripZeros fuel (d / 10) else d

/-- One precision `k` of the shortest-digits search for `x = m * 2^E / 2^1074 > 0` with decimal exponent `p`:
the `k`-digit decimals just below and just above `x`; keep those that read back as `x` (round to nearest even);
of two, the closer one (half way: the even digit).  Result: `(digits as a number, exponent e10)` with
`value = digits * 10^e10`. -/
def shortestAt (m E : Nat) (p : Int) (k : Nat) : Option (Nat × Int) :=
  let VN := m * 2 ^ E
  let VD := 2 ^ 1074
  let e10 : Int := p - k
  let (num, den) := match e10 with
    | .ofNat j => (VN, VD * 10 ^ j)
    | .negSucc j => (VN * 10 ^ (j + 1), VD)
  let lo := num / den
  let r := num % den
  let okLo := decide (lo ≠ 0) && (roundDec binary64 false lo e10 == .fin false m E)
  let okHi := roundDec binary64 false (lo + 1) e10 == .fin false m E
  if r = 0 ∧ okLo then some (lo, e10)
  else if okLo ∧ okHi then
    (if 2 * r < den then some (lo, e10) else if den < 2 * r then some (lo + 1, e10)
     else if lo % 2 = 0 then some (lo, e10) else some (lo + 1, e10))
  else if okLo then some (lo, e10)
  else if okHi then some (lo + 1, e10)
  else none

def shortestSearch (m E : Nat) (p : Int) : Nat → Nat → Option (Nat × Int)
  | 0, _ => none
  | fuel + 1, k =>
    match shortestAt m E p k with
    | some r => some r
    | none => shortestSearch m E p fuel (k + 1)

/-- The search over 1..17 digits; `none` would mean that 17 digits do not identify the double. -/
def shortestDigits? (m E : Nat) : Option (Nat × Int) :=
  shortestSearch m E (decpt (m * 2 ^ E) (2 ^ 1074)) 17 1

/-- 17 correctly rounded digits (what `repr` falls back to; never needed, see `C05_fallback…_partial`). -/
def digits17 (m E : Nat) : Nat × Int :=
  let p := decpt (m * 2 ^ E) (2 ^ 1074)
  let e10 : Int := p - 17
  let (num, den) := match e10 with
    | .ofNat j => (m * 2 ^ E, 2 ^ 1074 * 10 ^ j)
    | .negSucc j => (m * 2 ^ E * 10 ^ (j + 1), 2 ^ 1074)
  (rneDiv num den, e10)

def replicateZeros (n : Nat) : Str := List.replicate n '0'

def pad2 (n : Nat) : Str := if n < 10 then '0' :: natStr n else natStr n

/-- `format_float_short(x, 'r', 0, Py_DTSF_ADD_DOT_0)` applied to the digit string `ds` (no trailing zeros) with the
decimal point after `dp` digits (`value = 0.ds * 10^dp`): exponent form when `dp ≤ -4` or `dp > 16`. -/
def formatRepr (ds : Str) (dp : Int) : Str :=
  let k := ds.length
  if -4 < dp ∧ dp ≤ 16 then
    if dp ≤ 0 then '0' :: '.' :: (replicateZeros (-dp).toNat ++ ds)
    else if (k : Int) ≤ dp then ds ++ replicateZeros (dp.toNat - k) ++ ['.', '0']
    else ds.take dp.toNat ++ '.' :: ds.drop dp.toNat
  else
    let e := dp - 1
    let mant := match ds with
      | [] => []
      | [c] => [c]
      | c :: cs => c :: '.' :: cs
    mant ++ 'e' :: (if e < 0 then '-' else '+') :: pad2 e.natAbs

/-- `repr` of a positive finite float `m * 2^E / 2^1074`, or of zero: the text after the sign. -/
def reprBody (m E : Nat) : Str :=
  if m = 0 then "0.0".toList else
  let (d, e10) := (shortestDigits? m E).getD (digits17 m E)
  let d' := stripZeros 400 d
  let ds := natStr d'
  -- value = d * 10^e10 = 0.ds * 10^(e10 + number of digits of d)
  formatRepr ds (e10 + (natStr d).length)

/-- `repr(x)` of a Python float. -/
def pyFloatRepr : FVal → Str
  | .nan => "nan".toList
  | .inf neg => if neg then "-inf".toList else "inf".toList
  | .fin neg m E => (if neg then ['-'] else []) ++ reprBody m E

/-- `_float_literal_expression(value)` -/
def floatLiteralExpression (f : Frac) : Except RenderErr Str :=
  if isExact f.num && isExact f.den then
    if f.den = 1 then .ok (intStr f.num ++ ".0".toList)
    else .ok ('(' :: intStr f.num ++ ".0 / ".toList ++ natStr f.den ++ ".0)".toList)
  else do
    let x ← pyTrueDiv f.num f.den
    pure (pyFloatRepr x)

def int64MinLiteral : Str := "-9223372036854775808LL".toList

/-- `_most_negative_integer_literal(literal)` -/
def mostNegativeIntegerLiteral (literal : Str) : Str :=
  if literal = int64MinLiteral then "(-9223372036854775807LL - 1)".toList else literal

def suffixL (w : Nat) : Str := (if 16 < w then ['L'] else []) ++ (if 32 < w then ['L'] else [])

/-- The integer branch before `_most_negative_integer_literal`. -/
def integerLiteralRaw (unsigned : Bool) (w : Nat) (value : PyVal) : Str :=
  pyStr value ++ (if unsigned then ['U'] else []) ++ suffixL w

/-- `filter_literal(language, value, ty)` (`cast_format` argument left at `None`). -/
def filterLiteral (cfg : LangCfg) (value : PyVal) (ty : DTy) : Except RenderErr Str :=
  match cfg.castFormat with
  | none => .error .castFormatMissing
  | some fmt =>
    match ty with
    | .bool => .ok (if truthy value then cfg.tokTrue else cfg.tokFalse)
    | .uint w => .ok (mostNegativeIntegerLiteral (integerLiteralRaw true w value))
    | .sint w => .ok (mostNegativeIntegerLiteral (integerLiteralRaw false w value))
    | .float w => do
      let expr ← floatLiteralExpression (asFrac value)
      let cast ← cFloatTypeName w
      pure (formatCast fmt cast expr)
    | .other => .error .notALiteralType

/-- The code before fix 8a97f8c (regression witness only). -/
def filterLiteralBeforeFix (cfg : LangCfg) (value : PyVal) (ty : DTy) : Except RenderErr Str :=
  match cfg.castFormat with
  | none => .error .castFormatMissing
  | some fmt =>
    match ty with
    | .bool => .ok (if truthy value then cfg.tokTrue else cfg.tokFalse)
    | .uint w => .ok (integerLiteralRaw true w value)
    | .sint w => .ok (integerLiteralRaw false w value)
    | .float w => do
      let f := asFrac value
      let expr := if f.den = 1 then intStr f.num ++ ".0".toList
                  else '(' :: intStr f.num ++ ".0 / ".toList ++ natStr f.den ++ ".0)".toList
      let cast ← cFloatTypeName w
      pure (formatCast fmt cast expr)
    | .other => .error .notALiteralType

/-- `definitions.j2`: `#define <name> ({{ constant | constant_value }})` — the macro body. -/
def cMacroBody (lit : Str) : Str := '(' :: lit ++ [')']

/-- Python target, `base.j2`: the right-hand side of a class-level constant.
`BooleanType`: `{{ c.value.native_value }}`; `IntegerType`: `{{ c.value.as_native_integer() }}`;
`FloatType`: `{{ numerator }} / {{ denominator }}`. -/
def pyConstantExpr (value : PyVal) (ty : DTy) : Except RenderErr Str :=
  match ty with
  | .bool => .ok (pyStr value)
  | .uint _ | .sint _ => .ok (intStr (asFrac value).num)
  | .float _ => .ok (intStr (asFrac value).num ++ " / ".toList ++ natStr (asFrac value).den)
  | .other => .error .notALiteralType

/-! ## 3. The literal language of C11 / C++14 -/

inductive FSuf | none | f | l
deriving Repr, DecidableEq

inductive Tok
  /-- integer literal: value, decimal (`false`: the octal literal `0`), `U` suffix, number of `L`s -/
  | int (n : Nat) (dec : Bool) (u : Bool) (l : Nat)
  /-- decimal floating literal: `mant * 10^e10` -/
  | flt (mant : Nat) (e10 : Int) (suf : FSuf)
  | ident (s : Str)
  | lp | rp | minus | slash | lt | gt
deriving Repr, DecidableEq

def spanDigits : Str → Str × Str
  | [] => ([], [])
  | c :: cs => if c.isDigit then ((c :: (spanDigits cs).1), (spanDigits cs).2) else ([], c :: cs)

def isIdChar (c : Char) : Bool := c.isAlphanum || c = '_'

/-- A pp-number must not run into an identifier character or a dot. -/
def safeEnd : Str → Bool
  | [] => true
  | c :: _ => !(isIdChar c || c = '.')

def digitsVal (ds : Str) : Nat := Nat.ofDigitChars 10 ds 0

def lexFSuf (mant : Nat) (e10 : Int) (r : Str) : Option (Tok × Str) :=
  match r with
  | [] => some (.flt mant e10 .none, [])
  | c :: r' =>
    if c = 'f' ∨ c = 'F' then (if safeEnd r' then some (.flt mant e10 .f, r') else none)
    else if c = 'l' ∨ c = 'L' then (if safeEnd r' then some (.flt mant e10 .l, r') else none)
    else if safeEnd (c :: r') then some (.flt mant e10 .none, c :: r') else none

/-- optional exponent part, then the suffix -/
def lexExp (digs : Str) (nfrac : Nat) (r : Str) : Option (Tok × Str) :=
  match r with
  | [] => lexFSuf (digitsVal digs) (-(nfrac : Int)) []
  | c :: r' =>
    if c = 'e' ∨ c = 'E' then
      match r' with
      | [] => none
      | s :: r'' =>
        if s = '-' then
          let ex := spanDigits r''
          if ex.1 = [] then none else lexFSuf (digitsVal digs) (-(digitsVal ex.1 : Int) - nfrac) ex.2
        else if s = '+' then
          let ex := spanDigits r''
          if ex.1 = [] then none else lexFSuf (digitsVal digs) ((digitsVal ex.1 : Int) - nfrac) ex.2
        else
          let ex := spanDigits r'
          if ex.1 = [] then none else lexFSuf (digitsVal digs) ((digitsVal ex.1 : Int) - nfrac) ex.2
    else lexFSuf (digitsVal digs) (-(nfrac : Int)) (c :: r')

def isU (c : Char) : Bool := c = 'U' || c = 'u'
def isL (c : Char) : Bool := c = 'L' || c = 'l'

def takeU : Str → Bool × Str
  | [] => (false, [])
  | c :: r => if isU c then (true, r) else (false, c :: r)

/-- `LL` / `ll` (not mixed case), `L` / `l`, or nothing -/
def takeL : Str → Nat × Str
  | [] => (0, [])
  | [c] => if isL c then (1, []) else (0, [c])
  | c :: c2 :: r =>
    if (c = 'L' ∧ c2 = 'L') ∨ (c = 'l' ∧ c2 = 'l') then (2, r)
    else if isL c then (1, c2 :: r) else (0, c :: c2 :: r)

/-- integer suffix: `U`? then `LL` | `L`?, or `LL` | `L` then `U`? -/
def lexIntSuffix (ip : Str) (r : Str) : Option (Tok × Str) :=
  let u1 := takeU r
  let l1 := takeL u1.2
  let u2 : Bool × Str := if u1.1 then (true, l1.2) else takeU l1.2
  if !safeEnd u2.2 then none
  else if ip = ['0'] then some (.int 0 false u2.1 l1.1, u2.2)
  else if ip.head? = some '0' then none            -- other octal literals: not in this fragment
  else some (.int (digitsVal ip) true u2.1 l1.1, u2.2)

/-- The number grammar applied to a text: the token and what is left over. -/
def lexNumRaw (cs : Str) : Option (Tok × Str) :=
  let ip := spanDigits cs
  match ip.2 with
  | [] => lexIntSuffix ip.1 []
  | c :: r =>
    if c = '.' then
      let fp := spanDigits r
      lexExp (ip.1 ++ fp.1) fp.1.length fp.2
    else if c = 'e' ∨ c = 'E' then lexExp ip.1 0 (c :: r)
    else lexIntSuffix ip.1 (c :: r)

/-- The preprocessing number at the head of the text (C11 6.4.8): digits, letters, `_`, `.`, and a sign directly
after `e` / `E` — the maximal munch every C / C++ lexer takes before it looks at what the number means.
The flag: the previous character was `e` / `E`. -/
def spanPP : Bool → Str → Str × Str
  | _, [] => ([], [])
  | prevE, c :: cs =>
    if isIdChar c || c = '.' then ((c :: (spanPP (c = 'e' || c = 'E') cs).1), (spanPP (c = 'e' || c = 'E') cs).2)
    else if prevE && (c = '+' || c = '-') then ((c :: (spanPP false cs).1), (spanPP false cs).2)
    else ([], c :: cs)

/-- A number token: the whole preprocessing number must be a literal of the fragment. -/
def lexNumTok (pp : Str) : Option Tok :=
  match lexNumRaw pp with
  | some (t, []) => some t
  | _ => none

/-- A number token at the head of `cs` (which starts with a digit). -/
def lexNum (cs : Str) : Option (Tok × Str) :=
  match lexNumTok (spanPP false cs).1 with
  | some t => some (t, (spanPP false cs).2)
  | none => none

/-- every character of `s` belongs to the preprocessing number started before it -/
def ppAll : Bool → Str → Bool
  | _, [] => true
  | prevE, c :: cs =>
    if isIdChar c || c = '.' then ppAll (c = 'e' || c = 'E') cs
    else if prevE && (c = '+' || c = '-') then ppAll false cs
    else false

/-- the `spanPP` flag after `s` -/
def ppFlag : Bool → Str → Bool
  | b, [] => b
  | prevE, c :: cs =>
    if isIdChar c || c = '.' then ppFlag (c = 'e' || c = 'E') cs
    else if prevE && (c = '+' || c = '-') then ppFlag false cs
    else false

/-- The decimal text `repr` prints for `m * 2^E / 2^1074` is one preprocessing number starting with a digit, it is
a floating literal of the fragment, and that literal, correctly rounded, is the same double again (the round-trip
property of `repr`).  Executable; hypothesis of `C05_float_fallback_literal_partial`. -/
def reprReadsBack (m E : Nat) : Bool :=
  let s := reprBody m E
  (match s with | c :: _ => c.isDigit | [] => false) && ppAll false s && !ppFlag false s &&
  (match lexNumTok s with
   | some (.flt mant e10 .none) => roundDec binary64 false mant e10 == .fin false m E
   | _ => false)

def spanIdent : Str → Str × Str
  | [] => ([], [])
  | c :: cs => if isIdChar c then ((c :: (spanIdent cs).1), (spanIdent cs).2) else ([], c :: cs)

def lex : Nat → Str → Option (List Tok)
  | 0, _ => none
  | _ + 1, [] => some []
  | f + 1, c :: cs =>
    if c = ' ' then lex f cs
    else if c = '(' then (lex f cs).map (Tok.lp :: ·)
    else if c = ')' then (lex f cs).map (Tok.rp :: ·)
    else if c = '-' then (lex f cs).map (Tok.minus :: ·)
    else if c = '/' then (lex f cs).map (Tok.slash :: ·)
    else if c = '<' then (lex f cs).map (Tok.lt :: ·)
    else if c = '>' then (lex f cs).map (Tok.gt :: ·)
    else if c.isDigit then
      match lexNum (c :: cs) with
      | some (t, rest) => (lex f rest).map (t :: ·)
      | none => none
    else if isIdChar c then
      let id := spanIdent (c :: cs)
      (lex f id.2).map (Tok.ident id.1 :: ·)
    else none

def lexStr (cs : Str) : Option (List Tok) := lex (cs.length + 32) cs

inductive CType
  | bool | int | uint | long | ulong | llong | ullong | float | double
deriving Repr, DecidableEq

inductive CExpr
  | ilit (n : Nat) (dec : Bool) (u : Bool) (l : Nat)
  | flit (mant : Nat) (e10 : Int) (suf : FSuf)
  | blit (b : Bool)
  | neg (e : CExpr)
  | sub (a b : CExpr)
  | div (a b : CExpr)
  | cast (t : CType) (e : CExpr)
deriving Repr, DecidableEq

/-- type names accepted in a cast (what `to_c_float` can produce) -/
def typeName? (s : Str) : Option CType :=
  if s = "float".toList then some .float else if s = "double".toList then some .double else none

/-
expr    := mul ('-' mul)*
mul     := unary ('/' unary)*
unary   := '-' unary | '(' typename ')' unary | postfix
postfix := literal | true | false | '(' expr ')' | static_cast '<' typename '>' '(' expr ')'
One function per level, structurally recursive on the fuel.
-/
mutual
def parseExpr : Nat → List Tok → Option (CExpr × List Tok)
  | 0, _ => none
  | f + 1, ts =>
    match parseMul f ts with
    | some (a, r) => parseExprRest f a r
    | none => none
def parseExprRest : Nat → CExpr → List Tok → Option (CExpr × List Tok)
  | 0, _, _ => none
  | f + 1, a, ts =>
    match ts with
    | .minus :: r =>
      match parseMul f r with
      | some (b, r') => parseExprRest f (.sub a b) r'
      | none => none
    | _ => some (a, ts)
def parseMul : Nat → List Tok → Option (CExpr × List Tok)
  | 0, _ => none
  | f + 1, ts =>
    match parseUnary f ts with
    | some (a, r) => parseMulRest f a r
    | none => none
def parseMulRest : Nat → CExpr → List Tok → Option (CExpr × List Tok)
  | 0, _, _ => none
  | f + 1, a, ts =>
    match ts with
    | .slash :: r =>
      match parseUnary f r with
      | some (b, r') => parseMulRest f (.div a b) r'
      | none => none
    | _ => some (a, ts)
def parseUnary : Nat → List Tok → Option (CExpr × List Tok)
  | 0, _ => none
  | f + 1, ts =>
    match ts with
    | .minus :: r =>
      match parseUnary f r with
      | some (e, r') => some (.neg e, r')
      | none => none
    | .lp :: .ident s :: .rp :: r =>
      match typeName? s with
      | some t =>
        match parseUnary f r with
        | some (e, r') => some (.cast t e, r')
        | none => none
      | none => parsePostfix f ts
    | _ => parsePostfix f ts
def parsePostfix : Nat → List Tok → Option (CExpr × List Tok)
  | 0, _ => none
  | f + 1, ts =>
    match ts with
    | .int n d u l :: r => some (.ilit n d u l, r)
    | .flt m e s :: r => some (.flit m e s, r)
    | .lp :: r =>
      match parseExpr f r with
      | some (e, .rp :: r') => some (e, r')
      | _ => none
    | .ident s :: r =>
      if s = "true".toList then some (.blit true, r)
      else if s = "false".toList then some (.blit false, r)
      else if s = "static_cast".toList then
        match r with
        | .lt :: .ident t :: .gt :: .lp :: r2 =>
          match typeName? t with
          | some ty =>
            match parseExpr f r2 with
            | some (e, .rp :: r3) => some (.cast ty e, r3)
            | _ => none
          | none => none
        | _ => none
      else none
    | _ => none
end

def parseToks (ts : List Tok) : Option CExpr :=
  match parseExpr (6 * ts.length + 8) ts with
  | some (e, []) => some e
  | _ => none

inductive Dialect | c11 | cpp14
deriving Repr, DecidableEq

inductive EvalErr
  | lex | parse
  | intLiteralNoType        -- the literal fits no type of its list (gcc: __int128 / "so large that it is unsigned")
  | signedOverflow          -- undefined behaviour
  | divisionByZero
  | fltLiteralRange         -- "floating constant exceeds range"
  | castRange               -- conversion to a narrower floating type out of range: undefined behaviour
  | unsupported             -- long double, static_cast in C
deriving Repr, DecidableEq

inductive CVal
  | int (t : CType) (v : Int)
  | flt (t : CType) (x : FVal)
deriving Repr, DecidableEq

namespace CType
def isInteger : CType → Bool
  | .float | .double => false
  | _ => true
def signed : CType → Bool
  | .int | .long | .llong | .float | .double => true
  | _ => false
/-- LP64 -/
def bits : CType → Nat
  | .bool => 1
  | .int | .uint => 32
  | .float => 32
  | _ => 64
def rank : CType → Nat
  | .bool => 0
  | .int | .uint => 1
  | .long | .ulong => 2
  | .llong | .ullong => 3
  | _ => 4
def minVal (t : CType) : Int := if t.signed then -(2 ^ (t.bits - 1) : Nat) else 0
def maxVal (t : CType) : Int := if t.signed then (2 ^ (t.bits - 1) : Nat) - 1 else (2 ^ t.bits : Nat) - 1
def inRange (t : CType) (v : Int) : Bool := decide (t.minVal ≤ v) && decide (v ≤ t.maxVal)
def toUnsigned : CType → CType
  | .int => .uint | .long => .ulong | .llong => .ullong | t => t
def fmt : CType → Fmt
  | .float => binary32
  | _ => binary64
end CType

/-- The candidate types of an integer literal (C11 6.4.4.1 §5, C++14 [lex.icon] table 5). -/
def litCandidates (dec u : Bool) (l : Nat) : List CType :=
  match u, l with
  | true, 0 => [.uint, .ulong, .ullong]
  | true, 1 => [.ulong, .ullong]
  | true, _ => [.ullong]
  | false, 0 => if dec then [.int, .long, .llong] else [.int, .uint, .long, .ulong, .llong, .ullong]
  | false, 1 => if dec then [.long, .llong] else [.long, .ulong, .llong, .ullong]
  | false, _ => if dec then [.llong] else [.llong, .ullong]

def firstFit (n : Nat) : List CType → Option CType
  | [] => none
  | t :: ts => if t.inRange n then some t else firstFit n ts

/-- integer promotion -/
def promote : CType → CType
  | .bool => .int
  | t => t

/-- usual arithmetic conversions on two promoted integer types (C11 6.3.1.8) -/
def commonInt (a b : CType) : CType :=
  if a = b then a
  else if a.signed = b.signed then (if a.rank < b.rank then b else a)
  else
    let (s, u) := if a.signed then (a, b) else (b, a)
    if s.rank ≤ u.rank then u
    else if u.bits < s.bits then s      -- the signed type represents all values of the unsigned one
    else s.toUnsigned

/-- the result of an integer operation in type `t`: wraps when unsigned, undefined when signed and out of range -/
def intResult (t : CType) (v : Int) : Except EvalErr CVal :=
  if t.signed then (if t.inRange v then .ok (.int t v) else .error .signedOverflow)
  else .ok (.int t (v % (2 ^ t.bits : Nat)))

/-- value of a finite `x` of format `f` re-rounded into format `g` (`neg` kept) -/
def convertF (f g : Fmt) : FVal → FVal
  | .fin neg m E => roundTo g neg (m * 2 ^ E * 2 ^ g.bias) (2 ^ f.bias)
  | x => x

def intToF (g : Fmt) (v : Int) : FVal := roundTo g (decide (v < 0)) (v.natAbs * 2 ^ g.bias) 1

/-- to the floating type `t` -/
def toFloating (t : CType) : CVal → FVal
  | .int _ v => intToF t.fmt v
  | .flt s x => convertF s.fmt t.fmt x

def fdiv (g : Fmt) : FVal → FVal → FVal
  | .fin s1 m1 E1, .fin s2 m2 E2 =>
    if m2 = 0 then (if m1 = 0 then .nan else .inf (s1 != s2))
    else roundTo g (s1 != s2) (m1 * 2 ^ E1 * 2 ^ g.bias) (m2 * 2 ^ E2)
  | .fin s1 _ _, .inf s2 => .fin (s1 != s2) 0 0
  | .inf s1, .fin s2 _ _ => .inf (s1 != s2)
  | _, _ => .nan

def fsub (g : Fmt) : FVal → FVal → FVal
  | .fin s1 m1 E1, .fin s2 m2 E2 =>
    let a : Int := if s1 then -((m1 * 2 ^ E1 : Nat) : Int) else ((m1 * 2 ^ E1 : Nat) : Int)
    let b : Int := if s2 then -((m2 * 2 ^ E2 : Nat) : Int) else ((m2 * 2 ^ E2 : Nat) : Int)
    let z := a - b
    if z = 0 then .fin (s1 && !s2) 0 0 else roundTo g (decide (z < 0)) z.natAbs 1
  | .inf s1, .inf s2 => if s1 = s2 then .nan else .inf s1
  | .inf s1, .fin _ _ _ => .inf s1
  | .fin _ _ _, .inf s2 => .inf (!s2)
  | _, _ => .nan

def fneg : FVal → FVal
  | .fin s m E => .fin (!s) m E
  | .inf s => .inf (!s)
  | .nan => .nan

def CVal.type : CVal → CType
  | .int t _ => t
  | .flt t _ => t

def CVal.promoted : CVal → CVal
  | .int t v => .int (promote t) v
  | x => x

/-- the floating type of a binary operation, if any operand is floating -/
def commonFloat (a b : CType) : Option CType :=
  if a = .double ∨ b = .double then some .double
  else if a = .float ∨ b = .float then some .float else none

def eval (d : Dialect) : CExpr → Except EvalErr CVal
  | .ilit n dec u l =>
    match firstFit n (litCandidates dec u l) with
    | some t => .ok (.int t n)
    | none => .error .intLiteralNoType
  | .flit mant e10 suf =>
    match suf with
    | .l => .error .unsupported
    | .none =>
      match roundDec binary64 false mant e10 with
      | .fin s m E => .ok (.flt .double (.fin s m E))
      | _ => .error .fltLiteralRange
    | .f =>
      match roundDec binary32 false mant e10 with
      | .fin s m E => .ok (.flt .float (.fin s m E))
      | _ => .error .fltLiteralRange
  | .blit b =>
    -- C11: <stdbool.h> macros `1` / `0` of type int; C++: keywords of type bool
    match d with
    | .c11 => .ok (.int .int (if b then 1 else 0))
    | .cpp14 => .ok (.int .bool (if b then 1 else 0))
  | .neg e => do
    let v ← eval d e
    match v.promoted with
    | .int t x => intResult t (-x)
    | .flt t x => pure (.flt t (fneg x))
  | .sub a b => do
    let x ← eval d a
    let y ← eval d b
    match x.promoted, y.promoted with
    | .int t u, .int s w => intResult (commonInt t s) (u - w)
    | x', y' =>
      match commonFloat x'.type y'.type with
      | some t => pure (.flt t (fsub t.fmt (toFloating t x') (toFloating t y')))
      | none => .error .unsupported
  | .div a b => do
    let x ← eval d a
    let y ← eval d b
    match x.promoted, y.promoted with
    | .int t u, .int s w =>
      if w = 0 then .error .divisionByZero
      else
        let ct := commonInt t s
        -- operands converted to the common type first (an unsigned common type wraps a negative operand)
        let cu : Int := if ct.signed then u else u % (2 ^ ct.bits : Nat)
        let cw : Int := if ct.signed then w else w % (2 ^ ct.bits : Nat)
        if cw = 0 then .error .divisionByZero else intResult ct (Int.tdiv cu cw)
    | x', y' =>
      match commonFloat x'.type y'.type with
      | some t => pure (.flt t (fdiv t.fmt (toFloating t x') (toFloating t y')))
      | none => .error .unsupported
  | .cast t e => do
    let v ← eval d e
    match toFloating t v with
    | .fin s m E => pure (.flt t (.fin s m E))
    | .nan => pure (.flt t .nan)
    | .inf s =>
      -- an infinite operand stays infinite; a finite one beyond the range of `t`: undefined (C11 6.3.1.4/5)
      match v with
      | .flt _ (.inf _) => pure (.flt t (.inf s))
      | _ => .error .castRange

/-- `static_cast` is C++ only. -/
def usesStaticCast (ts : List Tok) : Bool := ts.any (· == Tok.ident "static_cast".toList)

/-- Lex, parse and evaluate a literal expression. -/
def evalStr (d : Dialect) (s : Str) : Except EvalErr CVal :=
  match lexStr s with
  | none => .error .lex
  | some ts =>
    if d = .c11 && usesStaticCast ts then .error .unsupported else
    match parseToks ts with
    | none => .error .parse
    | some e => eval d e

/-! ## 4. Python expressions of the generated class constants -/

inductive PyV
  | int (v : Int)
  | bool (b : Bool)
  | float (x : FVal)
deriving Repr, DecidableEq

inductive PyExpr
  | int (n : Nat)
  | bool (b : Bool)
  | neg (e : PyExpr)
  | div (a b : PyExpr)
deriving Repr, DecidableEq

inductive PyErr | lex | parse | overflow | zeroDivision | unsupported
deriving Repr, DecidableEq

mutual
def pyParseUnary : Nat → List Tok → Option (PyExpr × List Tok)
  | 0, _ => none
  | f + 1, ts =>
    match ts with
    | .minus :: r =>
      match pyParseUnary f r with
      | some (e, r') => some (.neg e, r')
      | none => none
    | .int n _ false 0 :: r => some (.int n, r)
    | .ident s :: r =>
      if s = "True".toList then some (.bool true, r)
      else if s = "False".toList then some (.bool false, r) else none
    | _ => none
def pyParseRest : Nat → PyExpr → List Tok → Option (PyExpr × List Tok)
  | 0, _, _ => none
  | f + 1, a, ts =>
    match ts with
    | .slash :: r =>
      match pyParseUnary f r with
      | some (b, r') => pyParseRest f (.div a b) r'
      | none => none
    | _ => some (a, ts)
end

def pyParse (ts : List Tok) : Option PyExpr :=
  match pyParseUnary (2 * ts.length + 4) ts with
  | some (a, r) =>
    match pyParseRest (2 * ts.length + 4) a r with
    | some (e, []) => some e
    | _ => none
  | none => none

def pyAsInt : PyV → Option Int
  | .int v => some v
  | .bool b => some (if b then 1 else 0)
  | .float _ => none

def pyEval : PyExpr → Except PyErr PyV
  | .int n => .ok (.int n)
  | .bool b => .ok (.bool b)
  | .neg e => do
    match ← pyEval e with
    | .int v => pure (.int (-v))
    | .bool b => pure (.int (if b then -1 else 0))
    | .float x => pure (.float (fneg x))
  | .div a b => do
    let x ← pyEval a
    let y ← pyEval b
    match pyAsInt x, pyAsInt y with
    | some n, some dd =>
      match pyTrueDiv n dd with
      | .ok r => pure (.float r)
      | .error .zeroDivision => .error .zeroDivision
      | .error _ => .error .overflow
    | _, _ =>
      -- a float operand: the other one is converted with `float(int)` (OverflowError beyond the range)
      let conv : PyV → Except PyErr FVal := fun v =>
        match v with
        | .float f => .ok f
        | .int i => (match intToF binary64 i with | .fin s m E => .ok (.fin s m E) | _ => .error .overflow)
        | .bool b => .ok (intToF binary64 (if b then 1 else 0))
      match conv x, conv y with
      | .ok a, .ok b =>
        match b with
        | .fin _ 0 _ => .error .zeroDivision
        | _ =>
          match fdiv binary64 a b with
          | .inf s => (match a with | .inf _ => pure (.float (.inf s)) | _ => .error .overflow)
          | r => pure (.float r)
      | .error e, _ => .error e
      | _, .error e => .error e

def pyEvalStr (s : Str) : Except PyErr PyV :=
  match lexStr s with
  | none => .error .lex
  | some ts =>
    match pyParse ts with
    | none => .error .parse
    | some e => pyEval e

/-! ## DSDL side: what a well-formed constant is (PyDSDL `Constant.__init__`) -/

/-- inclusive value range of an integer type of `w` bits -/
def intInRange (unsigned : Bool) (w : Nat) (v : Int) : Prop :=
  if unsigned then 0 ≤ v ∧ v < (2 ^ w : Nat) else -(2 ^ (w - 1) : Nat) ≤ v ∧ v < (2 ^ (w - 1) : Nat)

instance (u : Bool) (w : Nat) (v : Int) : Decidable (intInRange u w v) := by
  unfold intInRange; exact inferInstance

/-- the C type a constant of an integer DSDL type is expected to have on LP64 given the suffix rule -/
def expectedCType (unsigned : Bool) (w : Nat) : CType :=
  if w ≤ 16 then (if unsigned then .uint else .int)
  else if w ≤ 32 then (if unsigned then .ulong else .long)
  else (if unsigned then .ullong else .llong)

/-- `uint8 X = 'c'`: PyDSDL replaces the one-byte string by `Rational(ord(c))`. -/
def charConstant (c : Char) : PyVal := .frac ⟨c.toNat, 1⟩

end NunavutVerif.CLiteral
