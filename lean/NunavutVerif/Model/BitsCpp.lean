import NunavutVerif.Model.Bits
/-!
# C14 — model of the C++ `bitspan` / `const_bitspan` operations

Transcription of `src/nunavut/lang/cpp/support/serialization.j2` (rendered `nunavut/support/serialization.hpp`),
integer/bit part.  A span is the byte list `data_` refers to (`data_.size() = data.length`) plus `offset_bits_`;
every `data_[k]` goes through the checked accessors of `Model/Bits.lean`, so an index outside the span is
`Err.oob` (the real `span::operator[]` only asserts `index < size_`).  Operations that write return the new
contents of the destination span's bytes.  `Error::SerializationBufferTooSmall` is reported as `-3` like in C.

`setZeros` is the *repaired* function (proposed fix `agent_out/C14/fix_cpp_setzeros.diff`);
`setZerosBeforeFix` is the function as shipped, which misses addressed bits and clears bits after the range.
-/
namespace NunavutVerif.Bits.Cpp
open NunavutVerif.Bits

structure Span where
  data : Buf
  off : Nat
  deriving Repr, DecidableEq

/-- `any_bitspan::size()` — remaining bits -/
def Span.size (s : Span) : Nat :=
  let bitSize := s.data.length * 8
  if bitSize < s.off then 0 else bitSize - s.off

/-- `const_bitspan::saturateBufferFragmentBitLength` -/
def Span.saturate (s : Span) (len : Nat) : Nat :=
  let sizeBits := s.data.length * 8
  let tailBits := sizeBits - min sizeBits s.off
  min len tailBits

/-- `const_bitspan::copyTo(bitspan dst, size_t length_bits)`; returns the bytes of `dst`.
The unaligned loop is textually the loop of the C header (`copyLoop`). -/
def copyTo (src dst : Span) (lengthBits : Nat) : Except Err Buf :=
  let lengthBits := if lengthBits > src.size then src.size else lengthBits
  if lengthBits = 0 then .ok dst.data
  else if src.off % 8 = 0 ∧ dst.off % 8 = 0 then do
    let lengthBytes := lengthBits / 8
    let d1 ← memmove dst.data (dst.off / 8) src.data (src.off / 8) lengthBytes
    let lengthMod := lengthBits % 8
    if lengthMod ≠ 0 then
      let mask := ((1 <<< lengthMod) - 1) % 256
      let di := (dst.off + lengthBits) / 8      -- dst.aligned_ref(length_bits)
      let si := (src.off + lengthBits) / 8      -- aligned_ref(length_bits)
      let ld ← get? d1 di
      let ls ← get? src.data si
      set? d1 di (mergeByte ld ls mask)
    else .ok d1
  else
    copyLoop lengthBits dst.data dst.off src.data src.off (src.off + lengthBits)

/-- `const_bitspan::getBits(bytespan output, size_t len_bits)` -/
def getBits (src : Span) (out : Buf) (len : Nat) : Except Err Buf := do
  let lenBytes := (len + 7) / 8
  let satBits := src.saturate len
  let n ← sub? lenBytes (satBits / 8)
  let out1 ← memset0 out (satBits / 8) n
  copyTo src ⟨out1, 0⟩ satBits

/-- `bitspan::setZeros(size_t length)` as shipped. -/
def setZerosBeforeFix (sp : Span) (length : Nat) : Except Err (Int × Buf) :=
  if length > sp.size then .ok (errTooSmall, sp.data)
  else if length = 0 then .ok (0, sp.data)
  else do
    let offsetBytes := sp.off / 8
    let offsetBitsMod := sp.off % 8
    let lengthBytesCeil := (length + 7) / 8
    let b ← get? sp.data offsetBytes
    let firstByteTemp := b &&& ((0xFF >>> (8 - offsetBitsMod)) % 256)
    let d1 ← memset0 sp.data offsetBytes lengthBytesCeil
    let b1 ← get? d1 offsetBytes
    let d2 ← set? d1 offsetBytes ((b1 ||| firstByteTemp) % 256)
    .ok (0, d2)

/-- `(end_bits_mod == 0U) ? 0U : static_cast<uint8_t>(data_[last_byte] & static_cast<uint8_t>(0xFFU << end_bits_mod))` -/
def lastByteKeepOf (data : Buf) (lastByte endBitsMod : Nat) : Except Err Nat :=
  if endBitsMod = 0 then .ok 0 else do
    let l ← get? data lastByte
    .ok ((l &&& ((0xFF <<< endBitsMod) % 256)) % 256)

/-- `bitspan::setZeros(size_t length)` after the proposed fix: the byte count covers the unaligned start, and
the bits after the range in the last byte are kept like the bits before the range in the first byte. -/
def setZeros (sp : Span) (length : Nat) : Except Err (Int × Buf) :=
  if length > sp.size then .ok (errTooSmall, sp.data)
  else if length = 0 then .ok (0, sp.data)
  else do
    let offsetBytes := sp.off / 8
    let offsetBitsMod := sp.off % 8
    let endBits := offsetBitsMod + length
    let affectedBytes := (endBits + 7) / 8
    let endBitsMod := endBits % 8
    let lastByte ← sub? (offsetBytes + affectedBytes) 1
    let b ← get? sp.data offsetBytes
    let firstByteKeep := (b &&& ((0xFF >>> (8 - offsetBitsMod)) % 256)) % 256
    let lastByteKeep ← lastByteKeepOf sp.data lastByte endBitsMod
    let d1 ← memset0 sp.data offsetBytes affectedBytes
    let b1 ← get? d1 offsetBytes
    let d2 ← set? d1 offsetBytes ((b1 ||| firstByteKeep) % 256)
    let l2 ← get? d2 lastByte
    let d3 ← set? d2 lastByte ((l2 ||| lastByteKeep) % 256)
    .ok (0, d3)

/-- `bitspan::padAndMoveToAlignment(size_t n_bits)`; returns (result code, bytes, new offset).
`n_bits = 0` is a division by zero in the real code (`Err.usage`). -/
def padAndMoveToAlignment (sp : Span) (nBits : Nat) : Except Err (Int × Buf × Nat) :=
  if nBits = 0 then .error .usage
  else
    let padding := (nBits - sp.off % nBits) % 256        -- static_cast<uint8_t>
    if padding ≠ nBits then do
      let (rc, d) ← setZeros sp padding
      if rc ≠ 0 then .ok (rc, d, sp.off)
      else .ok (0, d, sp.off + padding)
    else .ok (0, sp.data, sp.off)

/-- the same with the shipped `setZeros` -/
def padAndMoveToAlignmentBeforeFix (sp : Span) (nBits : Nat) : Except Err (Int × Buf × Nat) :=
  if nBits = 0 then .error .usage
  else
    let padding := (nBits - sp.off % nBits) % 256
    if padding ≠ nBits then do
      let (rc, d) ← setZerosBeforeFix sp padding
      if rc ≠ 0 then .ok (rc, d, sp.off)
      else .ok (0, d, sp.off + padding)
    else .ok (0, sp.data, sp.off)

/-- `bitspan::subspan(bits_at, size_bits)`: the window (first byte, size in bytes, new bit offset) of the
result inside `data_`, or `-3`. -/
def subspan (sp : Span) (bitsAt sizeBits : Nat) : Int × Nat × Nat × Nat :=
  let offsetBits := sp.off + bitsAt
  let offsetBytes := offsetBits / 8
  let newOffsetBits := offsetBits % 8
  if offsetBytes > sp.data.length then (errTooSmall, 0, 0, 0)
  else
    let newSizeBits := newOffsetBits + sizeBits
    let sizeAvailableBits := (sp.data.length - offsetBytes) * 8
    if newSizeBits > sizeAvailableBits then (errTooSmall, 0, 0, 0)
    else (0, offsetBytes, newSizeBits / 8, newOffsetBits)

/-- `bitspan::setBit` -/
def setBit (sp : Span) (value : Bool) : Except Err (Int × Buf) :=
  if sp.data.length * 8 ≤ sp.off then .ok (errTooSmall, sp.data)
  else do
    let val := if value then 1 else 0
    let r ← copyTo ⟨[val], 0⟩ sp 1
    .ok (0, r)

/-- `bitspan::setUxx` -/
def setUxx (sp : Span) (value len : Nat) : Except Err (Int × Buf) :=
  if sp.data.length * 8 < sp.off + len then .ok (errTooSmall, sp.data)
  else do
    let saturatedLen := min len 64
    let r ← copyTo ⟨u64Tmp value, 0⟩ sp saturatedLen
    .ok (0, r)

/-- `bitspan::setIxx` -/
def setIxx (sp : Span) (value : Int) (len : Nat) : Except Err (Int × Buf) :=
  setUxx sp (toU64 value) len

/-- `const_bitspan::getU8/16/32/64` -/
def getU (W : Nat) (sp : Span) (len : Nat) : Except Err Nat := do
  let bits := sp.saturate (min len W)
  let tmp ← copyTo sp ⟨List.replicate (W / 8) 0, 0⟩ bits
  .ok (leLoad tmp)

def getBit (sp : Span) : Except Err Bool := do
  let v ← getU 8 sp 1
  .ok (v == 1)

/-- `const_bitspan::getI8/16/32/64` — the same sign-extension text as in C -/
def getI (W : Nat) (sp : Span) (len : Nat) : Except Err Int := do
  let sat := min len W
  let val ← getU W sp sat
  signExtend W sat val

end NunavutVerif.Bits.Cpp
