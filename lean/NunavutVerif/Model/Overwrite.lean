/-
Model of how `nnvg` writes its output files over whatever is already in the output directory:

* `CodeGenerator._handle_overwrite`, `CodeGenerator._generate_code`,
  `SupportGenerator._generate_header`, `SupportGenerator._copy_header`,
  `DSDLCodeGenerator._generate_type`                        (src/nunavut/jinja/__init__.py)
* `SetFileMode`, `ExternalProgramEditInPlace`               (src/nunavut/_postprocessors.py)
* `ArgparseRunner._generate`, `_build_post_processor_list_from_args`  (src/nunavut/cli/runners.py):
  support files first, then the types; file post-processors in the order
  `[--pp-run-program] ++ [SetFileMode(--file-mode)]` (the CLI always appends `SetFileMode`, default 0o444).

The file system is abstract: a map from paths to regular files (content, permission bits).  Directories and
symbolic links are not part of the model (`mkdir(parents=True, exist_ok=True)` appears only in the operation
trace).  `open(path, "w")` is modelled for a non-root owner as well as for root: without the owner's write
bit a non-root `open` fails with EACCES.

Core Lean only (this file is linked into the correspondence driver).
-/
namespace NunavutVerif.Overwrite

abbrev Path := String
abbrev Content := String
/-- Permission bits (what `chmod(2)` keeps: `mode & 07777`). -/
abbrev Mode := Nat

structure File where
  content : Content
  mode    : Mode
deriving DecidableEq, Repr

/-- The abstract file system: regular files below the output directory. -/
abbrev FS := Path → Option File

def FS.empty : FS := fun _ => none

def FS.set (fs : FS) (p : Path) (f : File) : FS := fun q => if q = p then some f else fs q

/-- The kernel keeps `mode & S_IALLUGO` of a `chmod` argument (`Path.chmod(st_mode | 0o220)` passes the
file-type bits too, `--file-mode` accepts any integer). -/
def permBits (m : Nat) : Mode := m % 4096

/-- `S_IWUSR` (0o200). -/
def ownerWrite (m : Mode) : Bool := m.testBit 7

/-- The bits `_handle_overwrite` adds: `0o220`. -/
def addWriteBits (m : Mode) : Mode := permBits (m ||| 0o220)

/-- What the process is: root (CAP_DAC_OVERRIDE: `open` ignores the permission bits) or the plain owner of the
files; `createMode` = `0o666 & ~umask`, the mode of a file created by `open(…, "w")`. -/
structure Env where
  root       : Bool
  createMode : Mode

/-- File post-processors (`FilePostProcessor`): `SetFileMode(m)` is `generated.chmod(m)`;
`ExternalProgramEditInPlace` runs a program on the file (`check=True`): `none` = non-zero exit status
(`CalledProcessError`), `some (c, none)` = the file content afterwards, edited in place (mode kept),
`some (c, some m)` = the program also left the mode `m` behind (it replaced the file by temp file + rename — a new
inode with the temp file's mode — or ran `chmod`).  The program is assumed to depend on the content only.
`raises`: a post-processor that raises before it does anything. -/
inductive FilePP
  | setMode (m : Nat)
  | edit (f : Content → Option (Content × Option Nat))
  | raises     -- raises without touching the file: `SetFileMode` with an argument `os.chmod` rejects (`OverflowError`
               -- outside the C `int` range, `TypeError` for a non-integer)

inductive Err
  | conflict (p : Path)        -- PermissionError("… exists and allow_overwrite is False.")
  | eacces (p : Path)          -- open(2): EACCES, the owner's write bit is missing
  | render (p : Path)          -- the template generator raised while the file was being written
  | pp (p : Path) (i : Nat)    -- file post-processor number i raised
deriving DecidableEq, Repr

/-- Operations on the output tree as `strace` shows them. -/
inductive Op
  | chmod (p : Path) (m : Mode)    -- chmod(p, m)
  | mkdirs (p : Path)              -- p.parent.mkdir(parents=True, exist_ok=True)
  | openW (p : Path)               -- open(p, O_WRONLY|O_CREAT|O_TRUNC, 0666) = fd
  | denied (p : Path)              -- the same open failing with EACCES
  | exec (p : Path) (i : Nat) (m : Option Mode)
                                   -- external program (post-processor i) run on p; `some m`: it left mode m
deriving DecidableEq, Repr

def Op.path : Op → Path
  | .chmod p _ => p
  | .mkdirs p => p
  | .openW p => p
  | .denied p => p
  | .exec p _ _ => p

/-- One output file of a run.  `content` is what the template renders to after the line post-processors
(a function of the run's inputs and flags: reproducibility is C07/C10, a hypothesis here).
`renderOk = false`: the lazily evaluated template raises after `content` (a prefix) was written.
`copyMode = some m`: the `_copy_header` path without line post-processors, `shutil.copy` = write the content,
then `chmod(target, mode of the resource)`. -/
structure Write where
  path     : Path
  content  : Content
  renderOk : Bool := true
  copyMode : Option Nat := none

/-- One `nnvg` invocation: `allowOverwrite = not --no-overwrite`; the file post-processors; the files in the
order they are written (support files, then types). -/
structure Run where
  allowOverwrite : Bool
  filePPs        : List FilePP
  writes         : List Write

def Run.paths (r : Run) : List Path := r.writes.map Write.path

structure Outcome where
  fs  : FS
  ops : List Op
  err : Option Err

/-! ### One file -/

/-- `_handle_overwrite`: `if exists: if allow: chmod(st_mode | 0o220) else: raise PermissionError`. -/
def gate (allow : Bool) (p : Path) (fs : FS) : Except Err (FS × List Op) :=
  match fs p with
  | none => .ok (fs, [])
  | some f =>
    if allow then .ok (fs.set p { f with mode := addWriteBits f.mode }, [.chmod p (addWriteBits f.mode)])
    else .error (.conflict p)

/-- `open(path, "w")`: creates with `createMode`, or truncates an existing file, which a non-root owner may
do only with the write bit.  Returns the file system and the mode of the opened file. -/
def openTrunc (env : Env) (p : Path) (fs : FS) : Except Err (FS × Mode) :=
  match fs p with
  | none => .ok (fs.set p ⟨"", env.createMode⟩, env.createMode)
  | some f =>
    if env.root || ownerWrite f.mode then .ok (fs.set p ⟨"", f.mode⟩, f.mode)
    else .error (.eacces p)

structure PPOut where
  file : File
  ops  : List Op
  err  : Option Err

/-- The mode after an external program: kept, or whatever the program left. -/
def editMode (nm : Option Nat) (old : Mode) : Mode :=
  match nm with
  | none => old
  | some m => permBits m

/-- `for file_pp in file_pps: output_path = file_pp(output_path)`; `i` numbers the processors. -/
def applyPPs (p : Path) : List FilePP → Nat → File → PPOut
  | [], _, f => ⟨f, [], none⟩
  | .setMode m :: rest, i, f =>
    let r := applyPPs p rest (i + 1) { f with mode := permBits m }
    ⟨r.file, .chmod p (permBits m) :: r.ops, r.err⟩
  | .edit g :: rest, i, f =>
    match g f.content with
    | none => ⟨f, [.exec p i none], some (.pp p i)⟩
    | some (c, nm) =>
      let r := applyPPs p rest (i + 1) ⟨c, editMode nm f.mode⟩
      ⟨r.file, .exec p i (nm.map permBits) :: r.ops, r.err⟩
  | .raises :: _, i, f => ⟨f, [], some (.pp p i)⟩

/-- Mode of the file once its content is written: `shutil.copy` copies the resource's mode, a plain
`open`/`write` keeps the mode the opened file has. -/
def startMode (w : Write) (m : Mode) : Mode :=
  match w.copyMode with
  | none => m
  | some cm => permBits cm

def copyOps (w : Write) : List Op :=
  match w.copyMode with
  | none => []
  | some cm => [.chmod w.path (permBits cm)]

/-- After the open: write the content, (`shutil.copy`: copy the mode), run the file post-processors. -/
def afterOpen (pps : List FilePP) (w : Write) (m : Mode) (fs : FS) (ops : List Op) : Outcome :=
  if w.renderOk then
    let r := applyPPs w.path pps 0 ⟨w.content, startMode w m⟩
    ⟨fs.set w.path r.file, ops ++ copyOps w ++ r.ops, r.err⟩
  else
    ⟨fs.set w.path ⟨w.content, m⟩, ops, some (.render w.path)⟩

/-- `_generate_code` / `_copy_header` for one file:
gate → mkdir parents → open (truncate) → write → file post-processors in order.
The state reached so far is kept when an error is raised. -/
def writeFile (env : Env) (allow : Bool) (pps : List FilePP) (w : Write) (fs : FS) : Outcome :=
  match gate allow w.path fs with
  | .error e => ⟨fs, [], some e⟩
  | .ok (fs1, ops1) =>
    match openTrunc env w.path fs1 with
    | .error e => ⟨fs1, ops1 ++ [.mkdirs w.path, .denied w.path], some e⟩
    | .ok (fs2, m) => afterOpen pps w m fs2 (ops1 ++ [.mkdirs w.path, .openW w.path])

/-! ### One run, a history of runs -/

/-- The files of a run in order; the first raised error ends the run, what was written stays. -/
def runWrites (env : Env) (allow : Bool) (pps : List FilePP) : List Write → FS → Outcome
  | [], fs => ⟨fs, [], none⟩
  | w :: ws, fs =>
    let o := writeFile env allow pps w fs
    match o.err with
    | some e => ⟨o.fs, o.ops, some e⟩
    | none =>
      let o' := runWrites env allow pps ws o.fs
      ⟨o'.fs, o.ops ++ o'.ops, o'.err⟩

def runRun (env : Env) (r : Run) (fs : FS) : Outcome :=
  runWrites env r.allowOverwrite r.filePPs r.writes fs

/-- A history: every invocation starts from whatever the previous one left, failed or not.
Returns, per run, the file system before it, the run, and its outcome. -/
def runHistory (env : Env) : List Run → FS → List (FS × Run × Outcome)
  | [], _ => []
  | r :: rs, fs =>
    let o := runRun env r fs
    (fs, r, o) :: runHistory env rs o.fs

/-! ### Specification-side helpers -/

/-- Is a `SetFileMode` among the post-processors (the CLI: always)? -/
def hasSetMode : List FilePP → Bool
  | [] => false
  | .setMode _ :: _ => true
  | .edit _ :: rest => hasSetMode rest
  | .raises :: rest => hasSetMode rest

/-- The requested file mode: the argument of `SetFileMode` when it is the *last* post-processor — where the CLI
puts it (`post_processors.append(SetFileMode(self._args.file_mode))` after everything else), so that no
external program can undo it. -/
def requestedMode (pps : List FilePP) : Option Nat :=
  match pps.getLast? with
  | some (.setMode m) => some m
  | _ => none

/-- The content after all external programs, `none` if one of them fails. -/
def ppContent : List FilePP → Content → Option Content
  | [], c => some c
  | .setMode _ :: rest, c => ppContent rest c
  | .edit g :: rest, c => (g c).bind (fun r => ppContent rest r.1)
  | .raises :: _, _ => none

/-- Nothing of the run can raise except the overwrite gate and `open`: every template renders and every
external program succeeds on what it is given. -/
def Run.total (r : Run) : Prop :=
  ∀ w ∈ r.writes, w.renderOk = true ∧ (ppContent r.filePPs w.content).isSome

/-- `fs'` contains everything `fs` contains, unchanged. -/
def FS.preserved (fs fs' : FS) : Prop := ∀ p f, fs p = some f → fs' p = some f

/-- At path `p` both file systems hold a file with the same content and — when `forced` (a `SetFileMode` is
among the post-processors) — the same mode. -/
def FS.agreeAt (forced : Bool) (a b : FS) (p : Path) : Prop :=
  ∃ f g, a p = some f ∧ b p = some g ∧ f.content = g.content ∧ (forced = true → f.mode = g.mode)

def Op.isDenied : Op → Bool
  | .denied _ => true
  | _ => false

/-! ### The code without the `chmod` (mutant of `_handle_overwrite`, for the non-vacuity examples) -/

def gateNoChmod (allow : Bool) (p : Path) (fs : FS) : Except Err (FS × List Op) :=
  match fs p with
  | none => .ok (fs, [])
  | some _ => if allow then .ok (fs, []) else .error (.conflict p)

def writeFileNoChmod (env : Env) (allow : Bool) (pps : List FilePP) (w : Write) (fs : FS) : Outcome :=
  match gateNoChmod allow w.path fs with
  | .error e => ⟨fs, [], some e⟩
  | .ok (fs1, ops1) =>
    match openTrunc env w.path fs1 with
    | .error e => ⟨fs1, ops1 ++ [.mkdirs w.path, .denied w.path], some e⟩
    | .ok (fs2, m) => afterOpen pps w m fs2 (ops1 ++ [.mkdirs w.path, .openW w.path])

end NunavutVerif.Overwrite
