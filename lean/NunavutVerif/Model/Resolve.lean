import NunavutVerif.Gen.PydsdlClasses
/-!
Model of template resolution and of the template-environment contract (property C16).

* `DSDLTemplateLoader.type_to_template`, `_type_to_template_internal`, `get_source`
  (src/nunavut/jinja/loaders.py),
* `DSDLCodeGenerator._create_instance_tests_for_type`, `_create_all_dsdl_tests`
  (src/nunavut/jinja/__init__.py),
* `CodeGenEnvironment.__init__`, `_add_to_environment`, conventional names
  (src/nunavut/jinja/environment.py, src/nunavut/_templates.py).

Core Lean only (linked into the `resolve` driver).  Strings are `List Char`.  Python sets and dicts are
association lists; every `raise` is an explicit branch.  The PyDSDL class table comes from
`Gen/PydsdlClasses.lean`, regenerated from the running PyDSDL on every run.

Two places describe the code *after* the repairs proposed with this check (agent_out/C16/fix_*.diff); the
behaviour of the unrepaired code is kept as `lookupBeforeFix` / `addGlobalsBeforeFix`.
-/
namespace NunavutVerif.Resolve

abbrev Cls  := Nat          -- a class object (identity); the lookup cache is keyed by it
abbrev Name := List Char    -- `__name__`, template stems, filter / test / global names
abbrev Path := List Char    -- a template name as listed by a Jinja loader (relative, `/`-separated)

/-- A class hierarchy as the search sees it: the classes it goes on to from `cls` (`cls.__bases__` without
`object`, in order; none from `pydsdl.Any` in the repaired code) and `cls.__name__`.  Two classes may share a
name. -/
structure Hier where
  bases : Cls → List Cls
  name  : Cls → Name

/-! ## pathlib: `Path(x).suffix`, `Path(x).stem` and the suffix filter -/

/-- Last path component. -/
def baseName (p : Path) : Name := (p.reverse.takeWhile (· ≠ '/')).reverse

/-- `str.rfind(ch)` as a left-to-right scan. -/
def rfindAux (ch : Char) : List Char → Nat → Option Nat → Option Nat
  | [], _, acc => acc
  | c :: cs, i, acc => rfindAux ch cs (i + 1) (if c = ch then some i else acc)

/-- `(stem, suffix)` of a file name (`Path(x).stem`, `Path(x).suffix`): split at the LAST dot only, unless that dot is
the first or the last character.  So the stem is the name minus its last suffix and nothing more:
`UnionType.orig.j2` has stem `UnionType.orig` (not a class name), `StructureType.j2.bak` has suffix `.bak` (filtered
out), `.StructureType.j2` has stem `.StructureType`; case is preserved (`Properties: C16_stem_drops_last_suffix_only`). -/
def splitExt (n : Name) : Name × Name :=
  match rfindAux '.' n 0 none with
  | some i => if 0 < i ∧ i + 1 < n.length then (n.take i, n.drop i) else (n, [])
  | none => (n, [])

/-- `(stem, path)` pairs in enumeration order: what `dict(map(lambda x: (Path(x).stem, Path(x)), …))` is fed. -/
abbrev Templates := List (Name × Path)

/-- `_filter_template_list_by_suffix` followed by the `(stem, path)` map. -/
def templatesOf (suffix : Name) (files : List Path) : Templates :=
  files.filterMap fun f =>
    let se := splitExt (baseName f)
    if se.2 = suffix then some (se.1, f) else none

/-- Look-up in the dict built from the pairs: a later pair with the same stem overwrites an earlier one. -/
def tfind : Templates → Name → Option Path
  | [], _ => none
  | (s, p) :: rest, n =>
    match tfind rest n with
    | some q => some q
    | none => if s = n then some p else none

/-! ## The search -/

/-- `_type_to_template_lookup_cache`. New entries are put in front; a key is only ever inserted when absent. -/
abbrev Cache := List (Cls × Path)

def cfind : Cache → Cls → Option Path
  | [], _ => none
  | (c, p) :: rest, k => if c = k then some p else cfind rest k

/-- The `for base_type in current.__bases__` loop: `search_queue.appendleft(base)` (the queue is popped from
the other end, so the model appends at the back and pops at the front) and — as coded — `discovered.add(current)`,
not the base. -/
def pushBases (cur : Cls) : List Cls → List Cls → List Cls → List Cls × List Cls
  | [], q, d => (q, d)
  | b :: bs, q, d =>
    if d.contains b then pushBases cur bs q d
    else pushBases cur bs (q ++ [b]) (if d.contains cur then d else cur :: d)

/-- The `while len(search_queue) > 0` loop of `_type_to_template_internal`.  `none` = the fuel ran out (the
Python loop has no bound; it terminates because `__bases__` is acyclic — `bfs_total`). -/
def bfs (H : Hier) (tpl : Templates) : Nat → Cache → List Cls → List Cls → Option (Option Path × Cache)
  | _, cache, [], _ => some (none, cache)
  | 0, _, _ :: _, _ => none
  | fuel + 1, cache, cur :: q, d =>
    match cfind cache cur with
    | some p => some (some p, cache)
    | none =>
      match tfind tpl (H.name cur) with
      | some p => some (some p, (cur, p) :: cache)
      | none =>
        let qd := pushBases cur (H.bases cur) q d
        bfs H tpl fuel cache qd.1 qd.2

/-- The dict `type_to_template` searches (repaired code): package (built-in) entries first, then
`update` with the file-system (user) entries, so a user template shadows a built-in one of the same stem.
`none` = that loader does not exist. -/
def merged (fs pkg : Option Templates) : Templates := pkg.getD [] ++ fs.getD []

/-- `DSDLTemplateLoader.type_to_template` (repaired): one search over the merged dict. -/
def lookup (H : Hier) (fuel : Nat) (cache : Cache) (fs pkg : Option Templates) (c : Cls) :
    Option (Option Path × Cache) :=
  bfs H (merged fs pkg) fuel cache [c] []

/-- `type_to_template` before the repair: a complete search over the file-system set, then — only if that
found nothing — a complete search over the package set, both through the one shared cache. -/
def lookupBeforeFix (H : Hier) (fuel : Nat) (cache : Cache) (fs pkg : Option Templates) (c : Cls) :
    Option (Option Path × Cache) :=
  let r1 := match fs with
    | some t => bfs H t fuel cache [c] []
    | none => some (none, cache)
  match r1 with
  | none => none
  | some (some p, cache') => some (some p, cache')
  | some (none, cache') =>
    match pkg with
    | some t => bfs H t fuel cache' [c] []
    | none => some (none, cache')

/-- A sequence of look-ups on one loader object (the cache is threaded through). -/
def runSeq (look : Cache → Cls → Option (Option Path × Cache)) : Cache → List Cls →
    Option (List (Option Path) × Cache)
  | cache, [] => some ([], cache)
  | cache, c :: cs =>
    match look cache c with
    | none => none
    | some (r, cache') =>
      match runSeq look cache' cs with
      | none => none
      | some (rs, cache'') => some (r :: rs, cache'')

/-! ## The specification: nearest class of the chain that has a template -/

/-- The inheritance chain of `c` in a single-inheritance hierarchy: `c`, its base, … (at most `fuel` classes). -/
def chain (H : Hier) : Nat → Cls → List Cls
  | 0, _ => []
  | f + 1, c => c :: (match H.bases c with
      | b :: _ => chain H f b
      | [] => [])

/-- The template of the first class of the list that has one. -/
def nearest (H : Hier) (find : Name → Option Path) : List Cls → Option Path
  | [] => none
  | c :: cs =>
    match find (H.name c) with
    | some p => some p
    | none => nearest H find cs

/-- Precedence at one name: the user's (file-system) template if there is one, else the built-in one. -/
def mfind (fs pkg : Option Templates) (n : Name) : Option Path :=
  match fs.bind (tfind · n) with
  | some p => some p
  | none => pkg.bind (tfind · n)

/-- Every class has at most one base other than `object`. -/
def SingleInheritance (H : Hier) : Prop := ∀ c, (H.bases c).length ≤ 1

/-- `rank` strictly decreases along `__bases__` (so the hierarchy has no cycle). -/
def RankedBy (H : Hier) (rank : Cls → Nat) : Prop := ∀ c b, b ∈ H.bases c → rank b < rank c

def Acyclic (H : Hier) : Prop := ∃ rank, RankedBy H rank

/-- The template named after the nearest class of the complete chain of `c` (self first) for which `find`
has a template. -/
def nearestAncestor (H : Hier) (find : Name → Option Path) (rank : Cls → Nat) (c : Cls) : Option Path :=
  nearest H find (chain H (rank c + 1) c)

/-- The caches a loader object can hold: empty, or what any earlier look-up (any class, any fuel) left. -/
inductive Reachable (H : Hier) (fs pkg : Option Templates) : Cache → Prop
  | empty : Reachable H fs pkg []
  | step {cache fuel c r cache'} : Reachable H fs pkg cache →
      lookup H fuel cache fs pkg c = some (r, cache') → Reachable H fs pkg cache'

/-- The same for the code before the repair. -/
inductive ReachableBeforeFix (H : Hier) (fs pkg : Option Templates) : Cache → Prop
  | empty : ReachableBeforeFix H fs pkg []
  | step {cache fuel c r cache'} : ReachableBeforeFix H fs pkg cache →
      lookupBeforeFix H fuel cache fs pkg c = some (r, cache') → ReachableBeforeFix H fs pkg cache'

/-! ## `get_source` -/

inductive Origin | user | builtin
deriving DecidableEq, Repr

/-- Content of a template directory / package: template name ↦ content id. -/
abbrev Store := List (Path × Nat)

def sfind : Store → Path → Option Nat
  | [], _ => none
  | (p, v) :: rest, k => if p = k then some v else sfind rest k

/-- `FileSystemLoader.get_source`: the first search path that has the file. -/
def fsSource : List Store → Path → Option Nat
  | [], _ => none
  | d :: ds, t =>
    match sfind d t with
    | some v => some v
    | none => fsSource ds t

/-- `DSDLTemplateLoader.get_source` for a name already in canonical form; `none` = `TemplateNotFound`.
The code PROBES the file-system loader (try / except TemplateNotFound) — it does not consult a listing — so what
counts is which files open: a file under a symbolic-linked sub-directory is not listed (followlinks off) but opens. -/
def getSourceAt (fs : Option (List Store)) (pkg : Option Store) (t : Path) : Option (Origin × Nat) :=
  match fs.bind (fsSource · t) with
  | some v => some (.user, v)
  | none =>
    match pkg with
    | some s => (sfind s t).map fun v => (.builtin, v)
    | none => none

/-- `template.split("/")`. -/
def splitSlash : List Char → Name → List Name
  | [], cur => [cur.reverse]
  | c :: cs, cur => if c = '/' then cur.reverse :: splitSlash cs [] else splitSlash cs (c :: cur)

/-- Jinja's `split_template_path`, joined again: empty pieces and `.` pieces are dropped (`./x`, `a//x`, `/x`, `x/`
all name `x`), a `..` piece is refused (`none` = `TemplateNotFound`).  Both Jinja loaders apply it to the requested
name, so the stores are keyed by canonical names. -/
def canonicalName (t : Path) : Option Path :=
  let ps := splitSlash t []
  if ps.contains ['.', '.'] then none
  else some (List.intercalate ['/'] (ps.filter fun p => p ≠ [] ∧ p ≠ ['.']))

/-- `DSDLTemplateLoader.get_source(environment, template)` for a name as spelled in the request. -/
def getSource (fs : Option (List Store)) (pkg : Option Store) (t : Path) : Option (Origin × Nat) :=
  match canonicalName t with
  | none => none
  | some c => getSourceAt fs pkg c

/-! ## Instance tests -/

/-- The class table: `(name, names of the bases)`. -/
abbrev Table := List (Name × List Name)

def genTable : Table := Gen.PydsdlClasses.classes

def indexOf : Table → Name → Option Nat
  | [], _ => none
  | (n, _) :: rest, k => if n = k then some 0 else (indexOf rest k).map (· + 1)

/-- The table as the hierarchy the search walks: class = row index; the search does not go on from a class
named in `stops` (`if current_search_type is pydsdl.Any: continue`). -/
def Hier.ofTable (t : Table) (stops : List Name) : Hier where
  bases c := match t[c]? with
    | some e => if stops.contains e.1 then [] else e.2.filterMap (indexOf t)
    | none => []
  name c := match t[c]? with
    | some e => e.1
    | none => []

def genStops : List Name := Gen.PydsdlClasses.searchStops

def basesOf : Table → Name → List Name
  | [], _ => []
  | (n, bs) :: rest, k => if n = k then bs else basesOf rest k

/-- `issubclass(c, r)`: reflexive-transitive closure of `__bases__` (fuel ≥ depth of the table). -/
def isSub (t : Table) : Nat → Name → Name → Bool
  | 0, c, r => c = r
  | f + 1, c, r => c = r || (basesOf t c).any fun b => isSub t f b r

/-- `cls.__subclasses__()` restricted to the table, in table order. -/
def subclassesOf (t : Table) (n : Name) : List Name :=
  (t.filter fun e => e.2.contains n).map (·.1)

/-- `str.lower()` for ASCII names (the translator refuses anything else). -/
def lower (n : Name) : Name := n.map Char.toLower

/-- The short alias: lower case, minus a trailing `type` (if longer than 4) else minus a trailing `field`
(if longer than 5). -/
def aliasOf (n : Name) : Name :=
  let l := lower n
  if l.length > 4 ∧ ['t', 'y', 'p', 'e'].isSuffixOf l then l.take (l.length - 4)
  else if l.length > 5 ∧ ['f', 'i', 'e', 'l', 'd'].isSuffixOf l then l.take (l.length - 5)
  else l

/-- `_create_instance_tests_for_type(root)`: `(test name, class)` in insertion order (a later pair with the
same name overwrites).  `none` = fuel ran out. -/
def testsFor (t : Table) : Nat → Name → Option (List (Name × Name))
  | 0, _ => none
  | f + 1, root =>
    (subclassesOf t root).foldl
      (fun acc d => match acc, testsFor t f d with
        | some a, some b => some (a ++ b)
        | _, _ => none)
      (some [(root, root), (aliasOf root, root)])

/-- `_create_all_dsdl_tests()`. -/
def allTests (t : Table) (roots : List Name) : Option (List (Name × Name)) :=
  roots.foldl
    (fun acc r => match acc, testsFor t (t.length + 1) r with
      | some a, some b => some (a ++ b)
      | _, _ => none)
    (some [])

/-- dict look-up, last writer wins. -/
def testClass : List (Name × Name) → Name → Option Name
  | [], _ => none
  | (s, c) :: rest, n =>
    match testClass rest n with
    | some q => some q
    | none => if s = n then some c else none

inductive TestErr | noSuchTest | noDataType
deriving DecidableEq, Repr

/-- `_field_is_instance` of the closure for `root`, on a value whose class is `vcls` and, when it has a
`data_type`, whose `data_type`'s class is `dt`. -/
def fieldIsInstance (t : Table) (redirect root : Name) (vcls : Name) (dt : Option Name) : Except TestErr Bool :=
  if isSub t t.length vcls redirect then
    match dt with
    | some d => .ok (isSub t t.length d root)
    | none => .error .noDataType
  else .ok (isSub t t.length vcls root)

/-- `env.tests[name](value)`. -/
def evalTest (t : Table) (tests : List (Name × Name)) (redirect : Name) (testName vcls : Name)
    (dt : Option Name) : Except TestErr Bool :=
  match testClass tests testName with
  | none => .error .noSuchTest
  | some root => fieldIsInstance t redirect root vcls dt

/-- A history of test evaluations in one environment: `(test name, class of the value, class of its data_type)`.
The closures hold no state (no memo keyed by object identity), so the environment is not threaded through. -/
def evalSeq (t : Table) (tests : List (Name × Name)) (redirect : Name) :
    List (Name × Name × Option Name) → List (Except TestErr Bool)
  | [] => []
  | q :: qs => evalTest t tests redirect q.1 q.2.1 q.2.2 :: evalSeq t tests redirect qs

def genRoots : List Name := Gen.PydsdlClasses.instanceTestRoots
def genRedirect : Name := Gen.PydsdlClasses.redirectClass
def genTests : Option (List (Name × Name)) := allTests genTable genRoots
def genCodeTests : List (Name × Name) := Gen.PydsdlClasses.codeTests

/-! ## The environment -/

/-- Who put a value into a collection. -/
inductive Owner
  | jinja | reserved | lang
  | pre (i : Nat) | post (i : Nat) | user (i : Nat)
deriving DecidableEq, Repr

/-- `env.filters`, `env.tests`, `env.globals`: dicts. -/
abbrev Coll := List (Name × Owner)

def cget : Coll → Name → Option Owner
  | [], _ => none
  | (k, v) :: rest, n => if k = n then some v else cget rest n

def cset : Coll → Name → Owner → Coll
  | [], n, v => [(n, v)]
  | (k, w) :: rest, n, v => if k = n then (k, v) :: rest else (k, w) :: cset rest n v

inductive Err
  | alreadyDefined (n : Name)
  | reservedGlobal (n : Name)
deriving DecidableEq, Repr

/-- `_add_to_environment`. -/
def addToEnv (allow : Bool) (coll : Coll) (n : Name) (v : Owner) : Except Err Coll :=
  match cget coll n with
  | some _ => if allow then .ok (cset coll n v) else .error (.alreadyDefined n)
  | none => .ok (cset coll n v)

def addAll (allow : Bool) : Coll → List (Name × Owner) → Except Err Coll
  | m, [] => .ok m
  | m, (n, v) :: rest =>
    match addToEnv allow m n v with
    | .ok m' => addAll allow m' rest
    | .error e => .error e

/-- `dict.update` / plain item assignment: no check. -/
def setAll : Coll → List (Name × Owner) → Coll
  | m, [] => m
  | m, (n, v) :: rest => setAll (cset m n v) rest

/-- COUNTERFACTUAL, not the code: `dict.setdefault` for every pair (an existing entry is kept).  Only used in an
`example` of Properties/C16 showing that it is the unconditional overwrite, performed after the user's globals
were taken, that protects the language globals. -/
def setDefaultAll : Coll → List (Name × Owner) → Coll
  | m, [] => m
  | m, (n, v) :: rest =>
    setDefaultAll (match cget m n with
      | some _ => m
      | none => cset m n v) rest

def dropPrefix? (pre n : Name) : Option Name :=
  if pre.isPrefixOf n then some (n.drop pre.length) else none

/-- `LanguageEnvironment._parse_callable_name`: the name a callable is registered under. -/
def conventionalName (n : Name) : Name :=
  match dropPrefix? Gen.PydsdlClasses.testPrefix n with
  | some r => r
  | none =>
    match dropPrefix? Gen.PydsdlClasses.filterPrefix n with
    | some r => r
    | none =>
      match dropPrefix? Gen.PydsdlClasses.usesPrefix n with
      | some r => r
      | none => n

def conv (xs : List (Name × Owner)) : List (Name × Owner) := xs.map fun e => (conventionalName e.1, e.2)

/-- The `additional_globals` loop of `CodeGenEnvironment.__init__` (repaired): a reserved name raises, any
other name goes through `_add_to_environment`. -/
def addGlobals (reserved : List Name) (allow : Bool) : Coll → List (Name × Owner) → Except Err Coll
  | g, [] => .ok g
  | g, (n, v) :: rest =>
    if reserved.contains n then .error (.reservedGlobal n)
    else match addToEnv allow g n v with
      | .ok g' => addGlobals reserved allow g' rest
      | .error e => .error e

/-- The loop before the repair: `self.globals[global_name] = global_value`. -/
def addGlobalsBeforeFix (reserved : List Name) : Coll → List (Name × Owner) → Except Err Coll
  | g, [] => .ok g
  | g, (n, v) :: rest =>
    if reserved.contains n then .error (.reservedGlobal n)
    else addGlobalsBeforeFix reserved (cset g n v) rest

inductive Kind | filter | test
deriving DecidableEq, Repr

structure Env where
  filters : Coll
  tests   : Coll
  globals : Coll
deriving Repr

/-- What the environment contains apart from the user's additions. -/
structure EnvCfg where
  jinjaFilters : Coll                       -- `jinja2.Environment()` defaults (+ extensions)
  jinjaTests   : Coll
  jinjaGlobals : Coll
  reservedNs    : List Name                 -- RESERVED_GLOBAL_NAMESPACES
  reservedNames : List Name                 -- RESERVED_GLOBAL_NAMES
  langGlobals  : List (Name × Owner)        -- `target_language.get_globals()`, installed with `dict.update`
  preFilters   : List (Name × Owner)        -- language support + the environment's own methods, through
  preTests     : List (Name × Owner)        --   `_add_to_environment`, before the user's filters and tests
  post         : List (Kind × Name × Owner) -- `DSDLCodeGenerator.__init__` after `create()`: instance tests,
                                            --   then the generator's own `filter_*` / `is_*` methods

def addPost (allow : Bool) : Env → List (Kind × Name × Owner) → Except Err Env
  | e, [] => .ok e
  | e, (.filter, n, v) :: rest =>
    match addToEnv allow e.filters n v with
    | .ok f => addPost allow { e with filters := f } rest
    | .error x => .error x
  | e, (.test, n, v) :: rest =>
    match addToEnv allow e.tests n v with
    | .ok t => addPost allow { e with tests := t } rest
    | .error x => .error x

def nowUtc : Name := ['n', 'o', 'w', '_', 'u', 't', 'c']

/-- Globals once the user's have been taken: reserved namespaces, `now_utc`, language globals. -/
def builtinGlobals (cfg : EnvCfg) (g : Coll) : Coll :=
  setAll (cset (setAll g (cfg.reservedNs.map fun n => (n, Owner.reserved))) nowUtc .reserved) cfg.langGlobals

/-- Everything after the `additional_globals` loop. -/
def constructRest (cfg : EnvCfg) (allow : Bool) (g : Coll) (uf ut : List (Name × Owner)) : Except Err Env :=
  match addAll allow cfg.jinjaFilters cfg.preFilters with
  | .error e => .error e
  | .ok f1 =>
    match addAll allow cfg.jinjaTests cfg.preTests with
    | .error e => .error e
    | .ok t1 =>
      match addAll allow f1 (conv uf) with
      | .error e => .error e
      | .ok f2 =>
        match addAll allow t1 (conv ut) with
        | .error e => .error e
        | .ok t2 => addPost allow ⟨f2, t2, builtinGlobals cfg g⟩ cfg.post

/-- `DSDLCodeGenerator(namespace, additional_globals=ug, additional_filters=uf, additional_tests=ut)` with
`allow_filter_test_or_use_query_overwrite = allow` (repaired code). -/
def construct (cfg : EnvCfg) (allow : Bool) (ug uf ut : List (Name × Owner)) : Except Err Env :=
  match addGlobals (cfg.reservedNs ++ cfg.reservedNames) allow cfg.jinjaGlobals ug with
  | .error e => .error e
  | .ok g => constructRest cfg allow g uf ut

def constructBeforeFix (cfg : EnvCfg) (allow : Bool) (ug uf ut : List (Name × Owner)) : Except Err Env :=
  match addGlobalsBeforeFix (cfg.reservedNs ++ cfg.reservedNames) cfg.jinjaGlobals ug with
  | .error e => .error e
  | .ok g => constructRest cfg allow g uf ut

end NunavutVerif.Resolve
