import NunavutVerif.Model.BitsCpp
import NunavutVerif.Model.BitsPy
/-!
# C14 (round 2) — the remaining public entry points of the three support libraries

Everything in `lang/c/support/serialization.j2`, `lang/cpp/support/serialization.j2` and
`lang/py/support/nunavut_support.j2` (`Serializer`, `Deserializer`, `ZeroExtendingBuffer`) that the first round left
without a model: float set/get as bit-pattern moves, the offset/window arithmetic of `any_bitspan`, the convenience
overloads, cursor bookkeeping, forking.  Core Lean only (linked into the `bits` driver).
-/
namespace NunavutVerif.Bits

/-! ## C -/

/-- `nunavutSetF32` / `nunavutSetF64` (`W` = 32, 64): the float's object representation (the `union` pun; `bits` is
that pattern) goes through `nunavutSetUxx` with `sizeof(tmp) * 8` bits. -/
def setF (little : Bool) (W : Nat) (buf : Buf) (size off bits : Nat) : Except Err (Int × Buf) :=
  setUxx little buf size off bits W

/-- `nunavutGetF32` / `nunavutGetF64`: the pattern `nunavutGetU32/64(buf, size, off, W)` read back as a float. -/
def getF (little : Bool) (W : Nat) (buf : Buf) (size off : Nat) : Except Err Nat :=
  getU little W buf size off W

/-- `nunavutSetF16`: `nunavutSetUxx(…, nunavutFloat16Pack(value), 16)` (`pack` on bit patterns: the float part). -/
def setF16 (little : Bool) (pack : Nat → Nat) (buf : Buf) (size off v : Nat) : Except Err (Int × Buf) :=
  setUxx little buf size off (pack v) 16

/-- `nunavutGetF16`: `nunavutFloat16Unpack(nunavutGetU16(…, 16))` -/
def getF16 (little : Bool) (unpack : Nat → Nat) (buf : Buf) (size off : Nat) : Except Err Nat := do
  let h ← getU little 16 buf size off 16
  .ok (unpack h)

namespace Cpp

/-! ## C++: `any_bitspan` offset and window arithmetic -/

/-- `at_offset(bits)` (a copy) and `add_offset(bits)` (in place): same bytes, offset advanced -/
def atOffset (sp : Span) (bits : Nat) : Span := ⟨sp.data, sp.off + bits⟩

/-- `set_offset(bits)` -/
def setOffset (sp : Span) (bits : Nat) : Span := ⟨sp.data, bits⟩

/-- `subspan(bits = 0)`: the offset converted into a pointer — the bytes from the offset's byte on (none if the offset
lies behind the data: `newSize = 0`), offset reduced modulo 8. -/
def subspan1 (sp : Span) (bits : Nat) : Span :=
  let offsetBits := sp.off + bits
  let offsetBytes := offsetBits / 8
  let newSize := if offsetBytes < sp.data.length then sp.data.length - offsetBytes else 0
  ⟨(sp.data.drop offsetBytes).take newSize, offsetBits % 8⟩

/-- `offset_misalignment(alignment_bits)`: `%` by zero is undefined behaviour -/
def offsetMisalignment (sp : Span) (a : Nat) : Except Err Nat :=
  if a = 0 then .error .usage else .ok (sp.off % a)

/-- `offset_alings_to(alignment_bits)` / `offset_alings_to_byte()` -/
def offsetAlignsTo (sp : Span) (a : Nat) : Except Err Bool := do
  let m ← offsetMisalignment sp a
  .ok (m == 0)

def offsetBytes (sp : Span) : Nat := sp.off / 8
def offsetBytesCeil (sp : Span) : Nat := (sp.off + 7) / 8

/-- `aligned_ref(plus)`: `data_[(offset_bits_ + plus) / 8]` through `span::operator[]` (index checked) -/
def alignedRef (sp : Span) (plus : Nat) : Except Err Nat := get? sp.data ((sp.off + plus) / 8)

/-- `aligned_ptr(plus)` as a byte index into `data_` -/
def alignedPtr (sp : Span) (plus : Nat) : Nat := (sp.off + plus) / 8

/-- `const_bitspan::subspan_bytes(size_bytes)`: at most `size_bytes` bytes from the offset's byte on, offset 0 -/
def subspanBytes (sp : Span) (sizeBytes : Nat) : Span :=
  let offsetBytes := if sp.off / 8 < sp.data.length then sp.off / 8 else sp.data.length
  let available := sp.data.length - offsetBytes
  ⟨(sp.data.drop offsetBytes).take (if sizeBytes < available then sizeBytes else available), 0⟩

/-- `const_bitspan::copyTo(bitspan dst)` = `copyTo(dst, size())` -/
def copyToAll (src dst : Span) : Except Err Buf := copyTo src dst src.size

/-- `bitspan::setZeros()` = `setZeros(size())` -/
def setZerosAll (sp : Span) : Except Err (Int × Buf) := setZeros sp sp.size

/-- `const_bitspan::align_offset_to<n>()`, `n` ∈ {8, 16, 32, 64} (static_assert):
`(offset + (n - 1)) & ~(n - 1)` on the 64-bit `size_t` -/
def alignOffsetTo (n : Nat) (sp : Span) : Span :=
  ⟨sp.data, ((sp.off + (n - 1)) % 2 ^ 64) &&& (2 ^ 64 - 1 - (n - 1))⟩

/-- `bitspan::setF32/setF64` and `const_bitspan::getF32/getF64` (pattern moves), `setF16`/`getF16` -/
def setF (W : Nat) (sp : Span) (bits : Nat) : Except Err (Int × Buf) := setUxx sp bits W
def getF (W : Nat) (sp : Span) : Except Err Nat := getU W sp W
def setF16 (pack : Nat → Nat) (sp : Span) (v : Nat) : Except Err (Int × Buf) := setUxx sp (pack v) 16
def getF16 (unpack : Nat → Nat) (sp : Span) : Except Err Nat := do
  let h ← getU 16 sp 16
  .ok (unpack h)

end Cpp

namespace Py

/-! ## Python: cursor bookkeeping, views, forks, float and array wrappers -/

/-- `Serializer.new(buffer_size_in_bytes)`: `int(n) + 1` zero bytes, cursor 0 -/
def Ser.new (n : Nat) : Ser := ⟨List.replicate (n + 1) 0, 0⟩

/-- `current_bit_length` -/
def currentBitLength (s : Ser) : Nat := s.off

/-- `buffer`: `self._buf[: (self._bit_offset + 7) // 8]` (slicing clips) -/
def bufferView (s : Ser) : Buf := s.buf.take ((s.off + 7) / 8)

/-- `Serializer.skip_bits(bit_length)` with the argument as passed (no check: a negative number moves the cursor
back; a cursor below zero is represented as an error of the model) -/
def skipBitsZ (s : Ser) (n : Int) : Except Err Ser :=
  if (s.off : Int) + n < 0 then .error .usage else .ok ⟨s.buf, ((s.off : Int) + n).toNat⟩

/-- `Serializer.fork_bytes(forked_buffer_size_in_bytes)`: a view `_buf[byte_offset:][:size + 1]`, cursor 0 -/
def forkBytes (s : Ser) (sizeBytes : Nat) : Except Err Ser :=
  if s.off % 8 ≠ 0 then .error .usage
  else
    let fb := s.buf.drop (s.off / 8)
    let size := sizeBytes + 1
    if fb.length < size then .error .usage
    else .ok ⟨fb.take size, 0⟩

/-- the parent's buffer after the fork wrote through its view -/
def joinFork (s fork : Ser) : Buf :=
  s.buf.take (s.off / 8) ++ fork.buf ++ s.buf.drop (s.off / 8 + fork.buf.length)

/-- `add_aligned_f16/32/64` / `add_unaligned_f16/32/64`: `struct.pack` (an external function: `bytes` is its result,
2, 4 or 8 bytes) followed by `add_*_bytes` -/
def addFloat (aligned : Bool) (s : Ser) (bytes : Buf) : Except Err Ser :=
  if aligned then addAlignedBytes s bytes else addUnalignedBytes s bytes

/-- `add_*_array_of_standard_bit_length_primitives` on a little-endian host: the array's bytes (`x.view(Byte)`) -/
def addStdArray (aligned : Bool) (s : Ser) (bytes : Buf) : Except Err Ser :=
  if aligned then addAlignedBytes s bytes else addUnalignedBytes s bytes

/-- `ZeroExtendingBuffer(fragments)`: the fragments concatenated -/
def zebNew (fragments : List Buf) : Buf := fragments.flatten

def zebBitLength (buf : Buf) : Nat := buf.length * 8

/-- `get_byte(index)` with the index as passed -/
def getByteZ (buf : Buf) (i : Int) : Except Err Nat :=
  if i < 0 then .error .usage else .ok (getByte buf i.toNat)

/-- `get_unsigned_slice(left, right)` with the indices as passed -/
def getUnsignedSliceZ (buf : Buf) (l r : Int) : Except Err Buf :=
  if ¬ (0 ≤ l ∧ l ≤ r) then .error .usage else getUnsignedSlice buf l.toNat r.toNat

/-- `ZeroExtendingBuffer.fork_bytes(offset_bytes, length_bytes)` -/
def zebForkBytes (buf : Buf) (offsetBytes lengthBytes : Nat) : Except Err Buf :=
  let offsetBytes := if lengthBytes = 0 then min offsetBytes buf.length else offsetBytes
  if offsetBytes + lengthBytes > buf.length then .error .usage
  else .ok ((buf.drop offsetBytes).take lengthBytes)

/-- `Deserializer.new(fragments)` -/
def De.new (fragments : List Buf) : De := ⟨zebNew fragments, 0⟩

def consumedBitLength (d : De) : Nat := d.off

/-- `remaining_bit_length` (negative in the zero-extended area) -/
def remainingBitLength (d : De) : Int := (zebBitLength d.buf : Int) - d.off

/-- `_ensure_cardinal(i)` -/
def ensureCardinal (i : Int) : Except Err Nat := if i < 0 then .error .usage else .ok i.toNat

/-- `Deserializer.skip_bits(bit_length)` -/
def deSkipBitsZ (d : De) (n : Int) : Except Err De := do
  let k ← ensureCardinal n
  .ok ⟨d.buf, d.off + k⟩

/-- `Deserializer.fork_bytes(forked_buffer_size_in_bytes)` -/
def deForkBytes (d : De) (sizeBytes : Nat) : Except Err De :=
  if d.off % 8 ≠ 0 then .error .usage
  else
    let remaining := (max (remainingBitLength d) 0).toNat
    if remaining % 8 ≠ 0 then .error .usage            -- assert
    else if remaining / 8 < sizeBytes then .error .usage
    else do
      let out ← zebForkBytes d.buf (d.off / 8) sizeBytes
      if out.length * 8 ≠ sizeBytes * 8 then .error .usage   -- assert out.remaining_bit_length == size * 8
      else .ok ⟨out, 0⟩

/-- the `fetch_*` methods that start with `_ensure_cardinal(count)`, with the argument as passed -/
def fetchZ {α : Type} (f : De → Nat → Except Err α) (d : De) (count : Int) : Except Err α := do
  let k ← ensureCardinal count
  f d k

/-- `fetch_aligned_f16/32/64` / `fetch_unaligned_f16/32/64`: `fetch_*_bytes(W/8)` handed to `struct.unpack` -/
def fetchFloat (aligned : Bool) (d : De) (W : Nat) : Except Err (Buf × De) :=
  if aligned then fetchAlignedBytes d (W / 8) else fetchUnalignedBytes d (W / 8)

/-- `fetch_*_array_of_standard_bit_length_primitives(dtype, count)` on a little-endian host: `count * itemsize`
bytes reinterpreted (`numpy.frombuffer`) -/
def fetchStdArray (aligned : Bool) (d : De) (itemSize count : Nat) : Except Err (Buf × De) :=
  if aligned then do
    assertAligned d.off
    let out ← getUnsignedSlice d.buf (d.off / 8) (d.off / 8 + count * itemSize)
    .ok (out, ⟨d.buf, d.off + out.length * 8⟩)
  else fetchUnalignedBytes d (itemSize * count)

end Py
end NunavutVerif.Bits
