/-
C04 — index safety of the checks that the C templates emit (`lang/c/templates/{serialization,deserialization}.j2`).

A deliberately small, flat model of *where the emitted code checks and where it does not*:

* serialization starts with the capacity check `8 * capacity_bytes < bit_length_set.max → BUFFER_TOO_SMALL`
  (compiled out under the documented option `enable_override_variable_array_capacity` as soon as one
  `<TYPE>_<field>_ARRAY_CAPACITY_` macro is user-defined);
* a primitive is written either through `nunavutSetUxx` (bounds-checked against `capacity_bytes`: `checked = true`)
  or by an aligned store / `memmove` fast path (no check: `checked = false`);
* a variable-length array of primitives: `if (count > CAP) return BAD_ARRAY_LENGTH;`, the length prefix (checked
  setter, or an unchecked aligned byte store), then either one checked `nunavutSetUxx` per element
  (`elemsChecked = true`; the element is read from `elements[i]` first) or ONE bulk `nunavutCopyBits` of
  `count * elementBits` bits (no check) out of `elements[0 … count-1]`;  the C array really has `sl` elements:
  `sl = cap` normally, `sl = ` the user's reduced capacity under the override option;
* a union writes its tag (checked), then an if-chain over the tag selects the member, `else BAD_UNION_TAG`;
* deserialization reads through saturating getters only (never outside the buffer: C14), stores `count`, checks
  `count > CAP`, then writes `elements[0 … count-1]`.

`cmpStorage` says what `CAP` in the emitted comparison is: `false` = the DSDL capacity literal, `true` = the capacity of
the array that is really there (`sizeof(elements) / sizeof(elements[0])`, what the templates emit under the override option).

Round 2 — every array kind of the C templates is in the model:
* `vbits`: variable-length BIT array `bool[<=cap]` = `uint8_t bitpacked[(D + 7) / 8]; size_t count;`.  `definitions.j2` decides
  the dimension `D` (the DSDL capacity, or the user-overridable `…_ARRAY_CAPACITY_` macro: `storMacro`); the length
  comparisons of `serialization.j2` / `deserialization.j2` are against the DSDL literal or the macro (`Cmp`), independently of
  the dimension; the bits move by ONE unchecked `nunavutCopyBits` / `nunavutGetBits` of `count` bits which touches the bytes
  `0 … ⌈count/8⌉-1` of `bitpacked`;
* `farr` / `fbits`: fixed-length arrays (loop bound and dimension are the same DSDL literal; not overridable);
* the entry check of the API functions (`NULL` arguments → `INVALID_ARGUMENT`): `serApi` / `deApi`.
Accesses are *checked accessors*: leaving the buffer or the object is a value (`oobBuffer`, `oobObject`), and the
theorems say when it is unreachable.  Core Lean only.
-/
namespace NunavutVerif.CBuf

/-- what an emitted length comparison of a bit array compares `count` with -/
inductive Cmp where
  /-- the DSDL capacity literal -/
  | lit
  /-- the (user-overridable) `<type>_<field>_ARRAY_CAPACITY_` macro -/
  | macro
  deriving Repr, DecidableEq, Inhabited

inductive Field where
  /-- primitive of `w` bits; `checked` = written through the bounds-checked setter -/
  | prim (w : Nat) (checked : Bool)
  /-- variable-length array of primitives: prefix bits, element bits, DSDL capacity, elements really in the C array;
      is the prefix written through the checked setter; are the elements written one by one through the checked
      setter (otherwise: one unchecked bulk copy) -/
  | varr (lp eb cap sl : Nat) (lpChecked elemsChecked : Bool)
  /-- variable-length bit array: prefix bits, DSDL capacity, value `sl` of the capacity macro (`= cap` unless the user
      defined it), is the dimension of `bitpacked` taken from the macro, the bound of the serializer's / deserializer's
      length comparison, is the prefix written through the checked setter -/
  | vbits (lp cap sl : Nat) (storMacro : Bool) (cmpS cmpD : Cmp) (lpChecked : Bool)
  /-- fixed-length array of `cap` primitives of `eb` bits: a loop `i < cap` over checked setters, or one bulk copy -/
  | farr (eb cap : Nat) (elemsChecked : Bool)
  /-- fixed-length bit array `bool[cap]`: one bulk copy of `cap` bits from/to `uint8_t x_bitpacked_[(cap + 7) / 8]` -/
  | fbits (cap : Nat)
  deriving Repr, DecidableEq, Inhabited

/-- what of a field's in-memory value matters for safety -/
inductive FVal where
  | prim
  | count (c : Nat)
  deriving Repr, DecidableEq, Inhabited

inductive Msg where
  | struct (fs : List Field)
  | union (tagBits : Nat) (tagChecked : Bool) (fs : List Field)
  deriving Repr, DecidableEq, Inhabited

inductive MObj where
  | struct (vs : List FVal)
  /-- `_tag_` (any value) and the overlapping member storage -/
  | union (tag : Nat) (vs : List FVal)
  deriving Repr, DecidableEq, Inhabited

inductive CErr where
  | bufferTooSmall
  | badArrayLength
  | badUnionTag
  /-- a `NULL` argument (entry check of the API functions, `serApi` / `deApi`) -/
  | invalidArgument
  deriving Repr, DecidableEq, Inhabited

/-- the macro of `lang/c/support/serialization.j2` behind the code -/
def CErr.macroName : CErr → String
  | .bufferTooSmall => "NUNAVUT_ERROR_SERIALIZATION_BUFFER_TOO_SMALL"
  | .badArrayLength => "NUNAVUT_ERROR_REPRESENTATION_BAD_ARRAY_LENGTH"
  | .badUnionTag => "NUNAVUT_ERROR_REPRESENTATION_BAD_UNION_TAG"
  | .invalidArgument => "NUNAVUT_ERROR_INVALID_ARGUMENT"

/-- the enumerator of `nunavut::support::Error` (`lang/cpp/support/serialization.j2`); C++ has references, no `NULL` check -/
def CErr.cppName : CErr → Option String
  | .bufferTooSmall => some "SerializationBufferTooSmall"
  | .badArrayLength => some "SerializationBadArrayLength"
  | .badUnionTag => some "RepresentationBadUnionTag"
  | .invalidArgument => none

/-- the value the generated routine returns (negated) -/
def CErr.code : CErr → Nat
  | .invalidArgument => 2
  | .bufferTooSmall => 3
  | .badArrayLength => 10
  | .badUnionTag => 11

inductive Out where
  /-- success; bits produced / consumed -/
  | ok (bits : Nat)
  /-- a documented error code -/
  | err (e : CErr)
  /-- an access outside the supplied buffer: bit range `[off, off+len)` with `capBits` available -/
  | oobBuffer (off len : Nat)
  /-- an access outside the object: element index `idx` of an array of `sl` elements -/
  | oobObject (idx sl : Nat)
  /-- the object does not have the layout of the type (not reachable from generated types) -/
  | shape
  deriving Repr, DecidableEq, Inhabited

def Out.isOob : Out → Bool
  | .oobBuffer _ _ => true
  | .oobObject _ _ => true
  | _ => false

def Out.isOobObject : Out → Bool
  | .oobObject _ _ => true
  | _ => false

def fieldMax : Field → Nat
  | .prim w _ => w
  | .varr lp eb cap _ _ _ => lp + cap * eb
  | .vbits lp cap _ _ _ _ _ => lp + cap
  | .farr eb cap _ => cap * eb
  | .fbits cap => cap

/-- the bound of the emitted length comparison -/
def cmpBound (cmpStorage : Bool) (cap sl : Nat) : Nat := if cmpStorage then sl else cap

/-- the bound of a bit array's length comparison -/
def Cmp.bound : Cmp → Nat → Nat → Nat
  | .lit, cap, _ => cap
  | .macro, _, sl => sl

/-- `sizeof(bitpacked)`: the dimension `(D + 7) / 8` with `D` the DSDL capacity or the macro -/
def bitsStorBytes (cap sl : Nat) (storMacro : Bool) : Nat := ((if storMacro then sl else cap) + 7) / 8

/-- the largest size the emitted length comparison lets through (`= fieldMax` when nothing is overridden; with
    `cmpStorage` it is the maximum for the arrays that are really there — what a user of the override option must
    provide) -/
def fieldMaxB (cmpStorage : Bool) : Field → Nat
  | .prim w _ => w
  | .varr lp eb cap sl _ _ => lp + cmpBound cmpStorage cap sl * eb
  | .vbits lp cap sl _ cS _ _ => lp + cS.bound cap sl
  | .farr eb cap _ => cap * eb
  | .fbits cap => cap

def sumMax (f : Field → Nat) : List Field → Nat
  | [] => 0
  | x :: xs => f x + sumMax f xs

def maxMax (f : Field → Nat) : List Field → Nat
  | [] => 0
  | x :: xs => max (f x) (maxMax f xs)

/-- round up to a whole number of bytes -/
def pad8 (n : Nat) : Nat := (n + 7) / 8 * 8

/-- `bit_length_set.max` of a composite: a whole number of bytes -/
def msgMax (f : Field → Nat) : Msg → Nat
  | .struct fs => pad8 (sumMax f fs)
  | .union tb _ fs => pad8 (tb + maxMax f fs)

/-- the final `_pad_to_alignment(8)`: zero bits through the checked setter -/
def padEnd (capBits : Nat) : Out → Out
  | .ok off => if capBits < pad8 off then .err .bufferTooSmall else .ok (pad8 off)
  | r => r

/-- a write of `len` bits at `off`: `none` = done, go on -/
def write (checked : Bool) (capBits off len : Nat) : Option Out :=
  if checked then (if capBits < off + len then some (.err .bufferTooSmall) else none)
  else (if off + len ≤ capBits then none else some (.oobBuffer off len))

/-- `for (i = …; i < count; ++i) { err = nunavutSetUxx(buffer, capacity_bytes, offset_bits, elements[i], eb); … }` -/
def elemLoop (capBits eb sl : Nat) : Nat → Nat → Nat → Out
  | 0, _, off => .ok off
  | r + 1, i, off =>
    if i ≥ sl then .oobObject i sl
    else if capBits < off + eb then .err .bufferTooSmall
    else elemLoop capBits eb sl r (i + 1) (off + eb)

def serField (cmpStorage : Bool) (capBits off : Nat) : Field → FVal → Out
  | .prim w checked, .prim =>
    match write checked capBits off w with
    | some r => r
    | none => .ok (off + w)
  | .varr lp eb cap sl lpc ec, .count c =>
    if c > cmpBound cmpStorage cap sl then .err .badArrayLength
    else
      match write lpc capBits off lp with
      | some r => r
      | none =>
        if ec then elemLoop capBits eb sl c 0 (off + lp)
        else if c > sl then .oobObject sl sl
        else
          match write false capBits (off + lp) (c * eb) with
          | some r => r
          | none => .ok (off + lp + c * eb)
  | .vbits lp cap sl sm cS _ lpc, .count c =>
    if c > cS.bound cap sl then .err .badArrayLength
    else
      match write lpc capBits off lp with
      | some r => r
      | none =>
        -- `nunavutCopyBits(&buffer[0], offset_bits, count, &bitpacked[0], 0U)` reads the bytes 0 … ⌈count/8⌉-1 of `bitpacked`
        if (c + 7) / 8 > bitsStorBytes cap sl sm then .oobObject (bitsStorBytes cap sl sm) (bitsStorBytes cap sl sm)
        else
          match write false capBits (off + lp) c with
          | some r => r
          | none => .ok (off + lp + c)
  | .farr eb cap ec, .prim =>
    -- `for (i = 0; i < CAP; ++i)` over `x[CAP]`, or one `nunavutCopyBits` of `CAP * eb` bits
    if ec then elemLoop capBits eb cap cap 0 off
    else
      match write false capBits off (cap * eb) with
      | some r => r
      | none => .ok (off + cap * eb)
  | .fbits cap, .prim =>
    match write false capBits off cap with
    | some r => r
    | none => .ok (off + cap)
  | _, _ => .shape

def serFields (cmpStorage : Bool) (capBits : Nat) : Nat → List Field → List FVal → Out
  | off, [], [] => .ok off
  | off, f :: fs, v :: vs =>
    match serField cmpStorage capBits off f v with
    | .ok off' => serFields cmpStorage capBits off' fs vs
    | r => r
  | _, _, _ => .shape

def nth? {α : Type} : List α → Nat → Option α
  | [], _ => none
  | x :: _, 0 => some x
  | _ :: xs, k + 1 => nth? xs k

/-- `<Type>_serialize_` : `checkCap` = the up-front capacity check is compiled in -/
def ser (checkCap cmpStorage : Bool) (m : Msg) (o : MObj) (capBytes : Nat) : Out :=
  let capBits := 8 * capBytes
  if checkCap && decide (capBits < msgMax fieldMax m) then .err .bufferTooSmall
  else
    match m, o with
    | .struct fs, .struct vs => padEnd capBits (serFields cmpStorage capBits 0 fs vs)
    | .union tb tagChecked fs, .union tag vs =>
      match write tagChecked capBits 0 tb with
      | some r => r
      | none =>
        match nth? fs tag, nth? vs tag with
        | some f, some v => padEnd capBits (serField cmpStorage capBits tb f v)
        | none, _ => .err .badUnionTag
        | some _, none => .shape
    | _, _ => .shape

/-! ### deserialization: `rd off len` is the (saturating, always defined) read of `len` bits at `off` -/

def deField (cmpStorage : Bool) (rd : Nat → Nat → Nat) (off : Nat) : Field → Out
  | .prim w _ => .ok (off + w)
  | .varr lp eb cap sl _ _ =>
    let c := rd off lp
    if c > cmpBound cmpStorage cap sl then .err .badArrayLength
    else if c > sl then .oobObject sl sl
    else .ok (off + lp + c * eb)
  | .vbits lp cap sl sm _ cD _ =>
    let c := rd off lp
    if c > cD.bound cap sl then .err .badArrayLength
    -- `nunavutGetBits(&bitpacked[0], …, count)` writes the bytes 0 … ⌈count/8⌉-1 of `bitpacked`
    else if (c + 7) / 8 > bitsStorBytes cap sl sm then .oobObject (bitsStorBytes cap sl sm) (bitsStorBytes cap sl sm)
    else .ok (off + lp + c)
  | .farr eb cap _ => .ok (off + cap * eb)
  | .fbits cap => .ok (off + cap)

def deFields (cmpStorage : Bool) (rd : Nat → Nat → Nat) : Nat → List Field → Out
  | off, [] => .ok off
  | off, f :: fs =>
    match deField cmpStorage rd off f with
    | .ok off' => deFields cmpStorage rd off' fs
    | r => r

def de (cmpStorage : Bool) (rd : Nat → Nat → Nat) : Msg → Out
  | .struct fs => deFields cmpStorage rd 0 fs
  | .union tb _ fs =>
    match nth? fs (rd 0 tb) with
    | some f => deField cmpStorage rd tb f
    | none => .err .badUnionTag

/-! ### the API entry: `NULL` arguments (`serialize` / `deserialize` macros of the templates) -/

/-- `<Type>_serialize_(obj, buffer, inout_buffer_size_bytes)`: any `NULL` → `INVALID_ARGUMENT` before anything is touched -/
def serApi (objNull bufNull sizeNull : Bool) (checkCap cmpStorage : Bool) (m : Msg) (o : MObj) (capBytes : Nat) : Out :=
  if objNull || bufNull || sizeNull then .err .invalidArgument else ser checkCap cmpStorage m o capBytes

/-- `<Type>_deserialize_(out_obj, buffer, inout_buffer_size_bytes)`: a `NULL` buffer is allowed for size 0 (replaced by `""`);
    `sizeBytes` is `*inout_buffer_size_bytes` (not read when the pointer is `NULL`) -/
def deApi (objNull bufNull sizeNull : Bool) (sizeBytes : Nat) (cmpStorage : Bool) (rd : Nat → Nat → Nat) (m : Msg) : Out :=
  if objNull || sizeNull || (bufNull && sizeBytes != 0) then .err .invalidArgument else de cmpStorage rd m

/-! ### side conditions -/

/-- no capacity was overridden: every C array has its DSDL capacity -/
def noOverride : Field → Bool
  | .prim _ _ => true
  | .varr _ _ cap sl _ _ => sl == cap
  | .vbits _ cap sl _ _ _ _ => sl == cap
  | .farr _ _ _ => true
  | .fbits _ => true

/-- a user-reduced capacity never exceeds the DSDL capacity (`#error` in the generated header otherwise) -/
def reduced : Field → Bool
  | .prim _ _ => true
  | .varr _ _ cap sl _ _ => decide (sl ≤ cap)
  | .vbits _ cap sl _ _ _ _ => decide (sl ≤ cap)
  | .farr _ _ _ => true
  | .fbits _ => true

/-- the serializer's length comparison protects the array that is really there -/
def okSer (cmpStorage : Bool) : Field → Bool
  | .varr _ _ cap sl _ _ => decide (cmpBound cmpStorage cap sl ≤ sl)
  | .vbits _ cap sl sm cS _ _ => decide (cS.bound cap sl ≤ 8 * bitsStorBytes cap sl sm)
  | _ => true

/-- the deserializer's length comparison protects the array that is really there -/
def okDe (cmpStorage : Bool) : Field → Bool
  | .varr _ _ cap sl _ _ => decide (cmpBound cmpStorage cap sl ≤ sl)
  | .vbits _ cap sl sm _ cD _ => decide (cD.bound cap sl ≤ 8 * bitsStorBytes cap sl sm)
  | _ => true

/-- both emitted length comparisons protect the array that is really there -/
def okCmp (cmpStorage : Bool) : Field → Bool
  | .prim _ _ => true
  | .varr _ _ cap sl _ _ => decide (cmpBound cmpStorage cap sl ≤ sl)
  | .vbits _ cap sl sm cS cD _ =>
    decide (cS.bound cap sl ≤ 8 * bitsStorBytes cap sl sm) && decide (cD.bound cap sl ≤ 8 * bitsStorBytes cap sl sm)
  | .farr _ _ _ => true
  | .fbits _ => true

/-- a bit array's length comparisons protect `bitpacked` as it is dimensioned (no condition on the other kinds);
    for bit arrays this is all of `okCmp`: the `sizeof`-based comparison (`cmpStorage`) is emitted for non-bit arrays only -/
def okBits : Field → Bool
  | .vbits _ cap sl sm cS cD _ =>
    decide (cS.bound cap sl ≤ 8 * bitsStorBytes cap sl sm) && decide (cD.bound cap sl ≤ 8 * bitsStorBytes cap sl sm)
  | _ => true

/-- every write of the field goes through the bounds-checked setter (the C++ serializer: `setUxx`/`setBit`/… only) -/
def allChecked : Field → Bool
  | .prim _ c => c
  | .varr _ _ _ _ lpc ec => lpc && ec
  | .vbits _ _ _ _ _ _ _ => false
  | .farr _ _ ec => ec
  | .fbits _ => false

/-- the in-memory value has the layout of the field -/
def FVal.fits : Field → FVal → Bool
  | .prim _ _, .prim => true
  | .varr _ _ _ _ _ _, .count _ => true
  | .vbits _ _ _ _ _ _ _, .count _ => true
  | .farr _ _ _, .prim => true
  | .fbits _, .prim => true
  | _, _ => false

def fitsAll : List Field → List FVal → Bool
  | [], [] => true
  | f :: fs, v :: vs => FVal.fits f v && fitsAll fs vs
  | _, _ => false

/-- the object has the layout of the message type (always true for an object of the generated C type) -/
def MObj.fits : Msg → MObj → Bool
  | .struct fs, .struct vs => fitsAll fs vs
  | .union _ _ fs, .union _ vs => fitsAll fs vs
  | _, _ => false

/-- the union tag (if any) is written through the checked setter -/
def Msg.tagOk : Msg → Bool
  | .struct _ => true
  | .union _ tc _ => tc

def Msg.fields : Msg → List Field
  | .struct fs => fs
  | .union _ _ fs => fs

/-! ### what the templates emit per array kind (rows regenerated by `translate/c_array_kinds.py` → `Gen/CArrayKinds.lean`) -/

/-- the bound of an emitted length comparison as the translator reads it off the generated text -/
inductive RCmp where
  /-- the DSDL capacity literal -/
  | lit
  /-- `sizeof(x.elements) / sizeof(x.elements[0])` -/
  | storage
  /-- the capacity macro -/
  | macro
  /-- no comparison (fixed-length arrays have no count) -/
  | none
  deriving Repr, DecidableEq, Inhabited

/-- one array kind under one generator configuration -/
structure Row where
  kind : String
  /-- generated with `--enable-override-variable-array-capacity` -/
  override : Bool
  /-- generated with `--target-endianness little` -/
  little : Bool
  varLen : Bool
  /-- element type `bool` (bit-packed) -/
  bits : Bool
  /-- the capacity macro is wrapped in `#ifndef`: the user can define it (the header `#error`s above the DSDL capacity) -/
  overridable : Bool
  /-- the dimension of the C array in the struct definition is the macro (otherwise: the DSDL literal) -/
  storMacro : Bool
  cmpSer : RCmp
  cmpDe : RCmp
  lpChecked : Bool
  elemsChecked : Bool
  deriving Repr, DecidableEq, Inhabited

def RCmp.toBits : RCmp → Option Cmp
  | .lit => some .lit
  | .macro => some .macro
  | _ => Option.none

/-- The model field of an array of this kind: prefix bits, element bits, DSDL capacity, and `usr` = what the user defined
    the capacity macro as (irrelevant when the header does not let the user define it).  `none`: the row describes
    something the flat model cannot express. -/
def Row.field (r : Row) (lp eb cap usr : Nat) : Option Field :=
  let sl := if r.overridable then usr else cap
  if r.varLen then
    if r.bits then
      match r.cmpSer.toBits, r.cmpDe.toBits with
      | some cS, some cD => some (.vbits lp cap sl r.storMacro cS cD r.lpChecked)
      | _, _ => Option.none
    else if r.cmpSer == r.cmpDe && (r.cmpSer == .lit || r.cmpSer == .storage) then
      some (.varr lp eb cap (if r.storMacro then sl else cap) r.lpChecked r.elemsChecked)
    else Option.none
  else if r.bits then some (.fbits cap)
  else some (.farr eb cap r.elemsChecked)

/-- the `cmpStorage` flag under which a non-bit variable-length array of this row is to be read -/
def Row.cs (r : Row) : Bool := r.cmpSer == .storage

/-- is the row a non-bit variable-length array (the only kind the `cmpStorage` flag speaks about) -/
def Row.isVarr (r : Row) : Bool := r.varLen && !r.bits

def RCmp.safeFor (c : RCmp) (bits storMacro overridable : Bool) : Bool :=
  match c with
  | .lit => !(storMacro && overridable)
  | .storage => !bits
  | .macro => bits
  | .none => false

/-- Decidable criterion: for EVERY capacity and EVERY user-reduced capacity both comparisons protect the array as it is
    dimensioned.  A literal bound is safe unless the user can shrink the dimension; the `sizeof` bound and (for bit
    arrays) the macro bound are always safe. -/
def Row.safe (r : Row) : Bool :=
  if r.varLen then
    r.cmpSer.safeFor r.bits r.storMacro r.overridable && r.cmpDe.safeFor r.bits r.storMacro r.overridable &&
      (r.bits || r.cmpSer == r.cmpDe)
  else true

end NunavutVerif.CBuf
