/-
C04 — index safety of the checks that the C templates emit (`lang/c/templates/{serialization,deserialization}.j2`).

A deliberately small, flat model of *where the emitted code checks and where it does not*:

* serialization starts with the capacity check `8 * capacity_bytes < bit_length_set.max → BUFFER_TOO_SMALL`
  (compiled out under the documented option `enable_override_variable_array_capacity` as soon as one
  `<TYPE>_<field>_ARRAY_CAPACITY_` macro is user-defined);
* a primitive is written either through `nunavutSetUxx` (bounds-checked against `capacity_bytes`: `checked = true`)
  or by an aligned store / `memmove` fast path (no check: `checked = false`);
* a variable-length array of primitives: `if (count > CAP) return BAD_ARRAY_LENGTH;`, the length prefix (checked
  setter, or an unchecked aligned byte store), then either one checked `nunavutSetUxx` per element
  (`elemsChecked = true`; the element is read from `elements[i]` first) or ONE bulk `nunavutCopyBits` of
  `count * elementBits` bits (no check) out of `elements[0 … count-1]`;  the C array really has `sl` elements:
  `sl = cap` normally, `sl = ` the user's reduced capacity under the override option;
* a union writes its tag (checked), then an if-chain over the tag selects the member, `else BAD_UNION_TAG`;
* deserialization reads through saturating getters only (never outside the buffer: C14), stores `count`, checks
  `count > CAP`, then writes `elements[0 … count-1]`.

`cmpStorage` says what `CAP` in the emitted comparison is: `false` = the DSDL capacity literal (the templates as they
are), `true` = the capacity of the array that is really there (`…_ARRAY_CAPACITY_`).
Accesses are *checked accessors*: leaving the buffer or the object is a value (`oobBuffer`, `oobObject`), and the
theorems say when it is unreachable.  Core Lean only.
-/
namespace NunavutVerif.CBuf

inductive Field where
  /-- primitive of `w` bits; `checked` = written through the bounds-checked setter -/
  | prim (w : Nat) (checked : Bool)
  /-- variable-length array of primitives: prefix bits, element bits, DSDL capacity, elements really in the C array;
      is the prefix written through the checked setter; are the elements written one by one through the checked
      setter (otherwise: one unchecked bulk copy) -/
  | varr (lp eb cap sl : Nat) (lpChecked elemsChecked : Bool)
  deriving Repr, DecidableEq, Inhabited

/-- what of a field's in-memory value matters for safety -/
inductive FVal where
  | prim
  | count (c : Nat)
  deriving Repr, DecidableEq, Inhabited

inductive Msg where
  | struct (fs : List Field)
  | union (tagBits : Nat) (tagChecked : Bool) (fs : List Field)
  deriving Repr, DecidableEq, Inhabited

inductive MObj where
  | struct (vs : List FVal)
  /-- `_tag_` (any value) and the overlapping member storage -/
  | union (tag : Nat) (vs : List FVal)
  deriving Repr, DecidableEq, Inhabited

inductive CErr where
  | bufferTooSmall
  | badArrayLength
  | badUnionTag
  deriving Repr, DecidableEq, Inhabited

inductive Out where
  /-- success; bits produced / consumed -/
  | ok (bits : Nat)
  /-- a documented error code -/
  | err (e : CErr)
  /-- an access outside the supplied buffer: bit range `[off, off+len)` with `capBits` available -/
  | oobBuffer (off len : Nat)
  /-- an access outside the object: element index `idx` of an array of `sl` elements -/
  | oobObject (idx sl : Nat)
  /-- the object does not have the layout of the type (not reachable from generated types) -/
  | shape
  deriving Repr, DecidableEq, Inhabited

def Out.isOob : Out → Bool
  | .oobBuffer _ _ => true
  | .oobObject _ _ => true
  | _ => false

def Out.isOobObject : Out → Bool
  | .oobObject _ _ => true
  | _ => false

def fieldMax : Field → Nat
  | .prim w _ => w
  | .varr lp eb cap _ _ _ => lp + cap * eb

/-- the bound of the emitted length comparison -/
def cmpBound (cmpStorage : Bool) (cap sl : Nat) : Nat := if cmpStorage then sl else cap

/-- the largest size the emitted length comparison lets through (`= fieldMax` when nothing is overridden; with
    `cmpStorage` it is the maximum for the arrays that are really there — what a user of the override option must
    provide) -/
def fieldMaxB (cmpStorage : Bool) : Field → Nat
  | .prim w _ => w
  | .varr lp eb cap sl _ _ => lp + cmpBound cmpStorage cap sl * eb

def sumMax (f : Field → Nat) : List Field → Nat
  | [] => 0
  | x :: xs => f x + sumMax f xs

def maxMax (f : Field → Nat) : List Field → Nat
  | [] => 0
  | x :: xs => max (f x) (maxMax f xs)

/-- round up to a whole number of bytes -/
def pad8 (n : Nat) : Nat := (n + 7) / 8 * 8

/-- `bit_length_set.max` of a composite: a whole number of bytes -/
def msgMax (f : Field → Nat) : Msg → Nat
  | .struct fs => pad8 (sumMax f fs)
  | .union tb _ fs => pad8 (tb + maxMax f fs)

/-- the final `_pad_to_alignment(8)`: zero bits through the checked setter -/
def padEnd (capBits : Nat) : Out → Out
  | .ok off => if capBits < pad8 off then .err .bufferTooSmall else .ok (pad8 off)
  | r => r

/-- a write of `len` bits at `off`: `none` = done, go on -/
def write (checked : Bool) (capBits off len : Nat) : Option Out :=
  if checked then (if capBits < off + len then some (.err .bufferTooSmall) else none)
  else (if off + len ≤ capBits then none else some (.oobBuffer off len))

/-- `for (i = …; i < count; ++i) { err = nunavutSetUxx(buffer, capacity_bytes, offset_bits, elements[i], eb); … }` -/
def elemLoop (capBits eb sl : Nat) : Nat → Nat → Nat → Out
  | 0, _, off => .ok off
  | r + 1, i, off =>
    if i ≥ sl then .oobObject i sl
    else if capBits < off + eb then .err .bufferTooSmall
    else elemLoop capBits eb sl r (i + 1) (off + eb)

def serField (cmpStorage : Bool) (capBits off : Nat) : Field → FVal → Out
  | .prim w checked, .prim =>
    match write checked capBits off w with
    | some r => r
    | none => .ok (off + w)
  | .varr lp eb cap sl lpc ec, .count c =>
    if c > cmpBound cmpStorage cap sl then .err .badArrayLength
    else
      match write lpc capBits off lp with
      | some r => r
      | none =>
        if ec then elemLoop capBits eb sl c 0 (off + lp)
        else if c > sl then .oobObject sl sl
        else
          match write false capBits (off + lp) (c * eb) with
          | some r => r
          | none => .ok (off + lp + c * eb)
  | _, _ => .shape

def serFields (cmpStorage : Bool) (capBits : Nat) : Nat → List Field → List FVal → Out
  | off, [], [] => .ok off
  | off, f :: fs, v :: vs =>
    match serField cmpStorage capBits off f v with
    | .ok off' => serFields cmpStorage capBits off' fs vs
    | r => r
  | _, _, _ => .shape

def nth? {α : Type} : List α → Nat → Option α
  | [], _ => none
  | x :: _, 0 => some x
  | _ :: xs, k + 1 => nth? xs k

/-- `<Type>_serialize_` : `checkCap` = the up-front capacity check is compiled in -/
def ser (checkCap cmpStorage : Bool) (m : Msg) (o : MObj) (capBytes : Nat) : Out :=
  let capBits := 8 * capBytes
  if checkCap && decide (capBits < msgMax fieldMax m) then .err .bufferTooSmall
  else
    match m, o with
    | .struct fs, .struct vs => padEnd capBits (serFields cmpStorage capBits 0 fs vs)
    | .union tb tagChecked fs, .union tag vs =>
      match write tagChecked capBits 0 tb with
      | some r => r
      | none =>
        match nth? fs tag, nth? vs tag with
        | some f, some v => padEnd capBits (serField cmpStorage capBits tb f v)
        | none, _ => .err .badUnionTag
        | some _, none => .shape
    | _, _ => .shape

/-! ### deserialization: `rd off len` is the (saturating, always defined) read of `len` bits at `off` -/

def deField (cmpStorage : Bool) (rd : Nat → Nat → Nat) (off : Nat) : Field → Out
  | .prim w _ => .ok (off + w)
  | .varr lp eb cap sl _ _ =>
    let c := rd off lp
    if c > cmpBound cmpStorage cap sl then .err .badArrayLength
    else if c > sl then .oobObject sl sl
    else .ok (off + lp + c * eb)

def deFields (cmpStorage : Bool) (rd : Nat → Nat → Nat) : Nat → List Field → Out
  | off, [] => .ok off
  | off, f :: fs =>
    match deField cmpStorage rd off f with
    | .ok off' => deFields cmpStorage rd off' fs
    | r => r

def de (cmpStorage : Bool) (rd : Nat → Nat → Nat) : Msg → Out
  | .struct fs => deFields cmpStorage rd 0 fs
  | .union tb _ fs =>
    match nth? fs (rd 0 tb) with
    | some f => deField cmpStorage rd tb f
    | none => .err .badUnionTag

/-! ### side conditions -/

/-- no capacity was overridden: every C array has its DSDL capacity -/
def noOverride : Field → Bool
  | .prim _ _ => true
  | .varr _ _ cap sl _ _ => sl == cap

/-- a user-reduced capacity never exceeds the DSDL capacity (`#error` in the generated header otherwise) -/
def reduced : Field → Bool
  | .prim _ _ => true
  | .varr _ _ cap sl _ _ => decide (sl ≤ cap)

/-- the emitted length comparison protects the array that is really there -/
def okCmp (cmpStorage : Bool) : Field → Bool
  | .prim _ _ => true
  | .varr _ _ cap sl _ _ => decide (cmpBound cmpStorage cap sl ≤ sl)

/-- every write of the field goes through the bounds-checked setter (the C++ serializer: `setUxx`/`setBit`/… only) -/
def allChecked : Field → Bool
  | .prim _ c => c
  | .varr _ _ _ _ lpc ec => lpc && ec

/-- the union tag (if any) is written through the checked setter -/
def Msg.tagOk : Msg → Bool
  | .struct _ => true
  | .union _ tc _ => tc

def Msg.fields : Msg → List Field
  | .struct fs => fs
  | .union _ _ fs => fs

end NunavutVerif.CBuf
