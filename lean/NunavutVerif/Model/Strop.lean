import NunavutVerif.Model.Regex
/-!
# Model of `nunavut.lang._common.TokenEncoder.strop` (C09)

Transcribes the control flow of the real code (src/nunavut/lang/_common.py):

* `_encode`            – every encoding rule of the id type applied with `re.sub(_encoding_filter)`; in the dry
                         run `Pattern.match` (start of string only) raises "Unstable encoding";
* `_strop_by_keyword`  – `token in reserved_identifiers` ⇒ prefix + token + suffix (dry run: raise);
* `_strop_by_pattern`  – some reserved pattern of the id type `match`es ⇒ prefix + token + suffix (dry: raise);
                         an id type without patterns is a `KeyError` that `_do_for_type_and_all` swallows;
* `_do_for_type_and_all` – first for `"all"`, then for the (lower-cased) id type;
* `strop`              – encode, strop by keyword, strop by pattern, then the three dry-run re-verifications,
                         each followed by the language's failure handler (C / C++: `^_+([A-Z]?)` ↦ `_` +
                         lower-cased letter + rest, else re-raise); a token supplied by a handler goes through
                         all three verifications once more, without a handler (this is the proposed fix; the
                         code as found is `stropTraceBeforeFix`).
The map `"any"` = concatenation of all lists (built by `_get_map_of_type_to_lists_of_patterns`) is data of
the configuration (generated).
-/
namespace NunavutVerif.Strop
open NunavutVerif.Regex

inductive Err where
  | valueError        -- id type "all"
  | illegalToken      -- RuntimeError "... yielded an illegal token after stropping"
  | unstableEncoding  -- RuntimeError "Unstable encoding ..."
deriving DecidableEq, Repr

instance [DecidableEq α] : DecidableEq (Except Err α) := fun a b =>
  match a, b with
  | .ok x, .ok y => if h : x = y then isTrue (by rw [h]) else isFalse (by intro e; cases e; exact h rfl)
  | .error x, .error y => if h : x = y then isTrue (by rw [h]) else isFalse (by intro e; cases e; exact h rfl)
  | .ok _, .error _ => isFalse (by intro e; cases e)
  | .error _, .ok _ => isFalse (by intro e; cases e)

/-- The language-specific failure handlers that exist in the code base. -/
inductive Handler where
  | none
  | cStyle     -- c.Language._handle_stropping_failure / cpp.Language._handle_stropping_or_encoding_failure
deriving DecidableEq, Repr

structure Cfg where
  reserved : List Str
  stropPrefix : Str
  stropSuffix : Str
  encPrefix : Str
  wsChar : Option Str                  -- whitespace_encoding_char
  collapse : Bool                      -- collapse_whitespace_when_encoding
  patterns : List (Str × List Re)      -- reserved_token_patterns_by_type, keys lower-cased, plus "any"
  rules : List (Str × List Re)         -- token_encoding_rules_by_identifier_type, likewise
  stropHandler : Handler
  encHandler : Handler
  space : List (Nat × Nat)             -- code points with `str.isspace()`

def tyAll : Str := [97, 108, 108]      -- "all"

def lookup (m : List (Str × List Re)) (k : Str) : Option (List Re) :=
  match m with
  | [] => none
  | (k', v) :: rest => if k' = k then some v else lookup rest k

def lowerAscii (s : Str) : Str := s.map (fun c => if 65 ≤ c ∧ c ≤ 90 then c + 32 else c)

/-! ### `encode_character` -/

def hexDigit (d : Nat) : Nat := if d < 10 then 48 + d else 55 + d     -- '0'..'9', 'A'..'F'

def hexCore : Nat → Nat → Str → Str
  | 0, _, acc => acc
  | fuel + 1, n, acc =>
    let acc' := hexDigit (n % 16) :: acc
    if n / 16 = 0 then acc' else hexCore fuel (n / 16) acc'

/-- `f"{n:04X}"` -/
def hex4 (n : Nat) : Str :=
  let ds := hexCore (n + 1) n []
  List.replicate (4 - ds.length) 48 ++ ds

def isSpace (cfg : Cfg) (c : Nat) : Bool := inRanges cfg.space c

def encChar (cfg : Cfg) (c : Nat) : Str :=
  match cfg.wsChar with
  | some w => if isSpace cfg c then w else cfg.encPrefix ++ hex4 c
  | none => cfg.encPrefix ++ hex4 c

/-- `_encoding_filter` applied to the matched span. -/
def encFilter (cfg : Cfg) (m : Str) : Str :=
  if cfg.collapse && !m.isEmpty && m.all (isSpace cfg) then
    (match cfg.wsChar with
     | some w => w
     | none => encChar cfg 32)
  else (m.map (encChar cfg)).flatten

/-! ### the three transforms, real and dry -/

def matchesAny (pats : List Re) (s : Str) : Bool := pats.any (fun p => matchesStart p s)

def encodeReal (cfg : Cfg) (ty : Str) (tok : Str) : Str :=
  match lookup cfg.rules ty with
  | none => tok
  | some rs => rs.foldl (fun acc r => sub r (encFilter cfg) acc) tok

/-- dry run of `_encode`: would raise? -/
def encodeDry (cfg : Cfg) (ty : Str) (tok : Str) : Bool :=
  match lookup cfg.rules ty with
  | none => false
  | some rs => matchesAny rs tok

def isReserved (cfg : Cfg) (s : Str) : Bool := cfg.reserved.contains s

def wrap (cfg : Cfg) (s : Str) : Str := cfg.stropPrefix ++ s ++ cfg.stropSuffix

def kwStrop (cfg : Cfg) (s : Str) : Str := if isReserved cfg s then wrap cfg s else s

/-- does a reserved pattern of type `ty` match (missing type = `KeyError` = no) -/
def patDry (cfg : Cfg) (ty : Str) (s : Str) : Bool :=
  match lookup cfg.patterns ty with
  | none => false
  | some ps => matchesAny ps s

def patStrop (cfg : Cfg) (ty : Str) (s : Str) : Str := if patDry cfg ty s then wrap cfg s else s

/-- `re.match(r"^_+([A-Z]?)", s)` ⇒ `"_" + group(1).lower() + s[m.end():]`; no match ⇒ re-raise. -/
def cHandler (s : Str) : Option Str :=
  match s with
  | 95 :: t =>
    match t.dropWhile (· == 95) with
    | [] => some [95]
    | c :: r => if 65 ≤ c ∧ c ≤ 90 then some (95 :: (c + 32) :: r) else some (95 :: c :: r)
  | _ => none

def runHandler (h : Handler) (pending : Err) (s : Str) : Except Err Str :=
  match h with
  | .none => .error pending
  | .cStyle =>
    match cHandler s with
    | some r => .ok r
    | none => .error pending

/-- `_do_for_type_and_all(transform, …)` for `ty ≠ "all"`. -/
def realPipeline (cfg : Cfg) (ty : Str) (tok : Str) : Str :=
  let encoded := encodeReal cfg ty (encodeReal cfg tyAll tok)
  let kw := kwStrop cfg (kwStrop cfg encoded)
  patStrop cfg ty (patStrop cfg tyAll kw)

/--
One dry-run re-verification: `bad` = the dry run raises; then the handler either supplies a new token or
the pending error propagates.  The flag records whether a handler produced the token.
-/
def recheck (bad : Bool) (h : Handler) (pending : Err) (s : Str) (fired : Bool) : Except Err (Str × Bool) :=
  if bad then
    match runHandler h pending s with
    | .ok s' => .ok (s', true)
    | .error e => .error e
  else .ok (s, fired)

/--
`TokenEncoder.strop(tok, tyRaw)` as it was before the fix proposed in agent_out/C09/fix_handler_token_unverified.diff:
result and whether a failure handler produced it.  A handler's token is checked only by the re-verifications that
come *after* the one that invoked it.
-/
def stropTraceBeforeFix (cfg : Cfg) (tok : Str) (tyRaw : Str) : Except Err (Str × Bool) :=
  let ty := lowerAscii tyRaw
  if ty = tyAll then .error .valueError else
  let s1 := realPipeline cfg ty tok
  -- check that the stropping yielded a viable token
  match recheck (patDry cfg tyAll s1 || patDry cfg ty s1) cfg.stropHandler .illegalToken s1 false with
  | .error e => .error e
  | .ok (s2, f2) =>
  -- check that the stropping didn't result in a keyword
  match recheck (isReserved cfg s2) cfg.stropHandler .illegalToken s2 f2 with
  | .error e => .error e
  | .ok (s3, f3) =>
  -- make sure stropping didn't result in encoding violations
  recheck (encodeDry cfg tyAll s3 || encodeDry cfg ty s3) cfg.encHandler .unstableEncoding s3 f3

/-- The three dry runs once more, this time without a handler (the fix): pattern, keyword, encoding. -/
def verify (cfg : Cfg) (ty : Str) (s : Str) : Except Err Str :=
  if patDry cfg tyAll s || patDry cfg ty s then .error .illegalToken
  else if isReserved cfg s then .error .illegalToken
  else if encodeDry cfg tyAll s || encodeDry cfg ty s then .error .unstableEncoding
  else .ok s

/--
`TokenEncoder.strop(tok, tyRaw)` (repaired): a token supplied by a failure handler is verified like any other.
-/
def stropTrace (cfg : Cfg) (tok : Str) (tyRaw : Str) : Except Err (Str × Bool) :=
  match stropTraceBeforeFix cfg tok tyRaw with
  | .error e => .error e
  | .ok (r, false) => .ok (r, false)
  | .ok (r, true) =>
    match verify cfg (lowerAscii tyRaw) r with
    | .ok r' => .ok (r', true)
    | .error e => .error e

def strop (cfg : Cfg) (tok : Str) (tyRaw : Str) : Except Err Str :=
  (stropTrace cfg tok tyRaw).map (·.1)

def stropBeforeFix (cfg : Cfg) (tok : Str) (tyRaw : Str) : Except Err Str :=
  (stropTraceBeforeFix cfg tok tyRaw).map (·.1)

/-! ### the property's vocabulary -/

def isWordChar (c : Nat) : Bool :=
  (decide (97 ≤ c) && decide (c ≤ 122)) || (decide (65 ≤ c) && decide (c ≤ 90)) ||
  (decide (48 ≤ c) && decide (c ≤ 57)) || c == 95

def isIdentStart (c : Nat) : Bool :=
  (decide (97 ≤ c) && decide (c ≤ 122)) || (decide (65 ≤ c) && decide (c ≤ 90)) || c == 95

/-- `[A-Za-z_][A-Za-z0-9_]*` -/
def isIdent : Str → Bool
  | [] => false
  | c :: t => isIdentStart c && t.all isWordChar

/-- no encoding rule of `"all"` / `ty` matches anywhere in `s` -/
def encodingFree (cfg : Cfg) (ty : Str) (s : Str) : Bool :=
  ((lookup cfg.rules tyAll).getD [] ++ (lookup cfg.rules ty).getD []).all (fun r => matchesNowhere s.length r s)

/-- The conclusion of the property for a returned token. -/
def acceptable (cfg : Cfg) (ty : Str) (r : Str) : Bool :=
  isIdent r && !isReserved cfg r && !patDry cfg tyAll r && !patDry cfg ty r

end NunavutVerif.Strop
