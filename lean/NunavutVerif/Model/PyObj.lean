/-!
# C18 — model of the Python data classes emitted by `lang/py/templates/base.j2`

What is modelled (as the code *is*, every `raise` an explicit branch):

* the per-field property setters (`bool(x)`; `int(x)` + inclusive range check regardless of the cast mode;
  `float(x)` + range check only below 64 bit and only for finite values; the three branches of `assign_array`
  with `==` / `<=`; `isinstance` for composites);
* the structure constructor (`None` ⇒ default, otherwise the setter logic) and the union constructor
  (`_init_cnt_`) and union setters (assign, then every sibling `= None`);
* `to_builtin` / `update_from_builtin` of `nunavut_support.j2` (dict sources and positional sources; service classes).

Python values are abstracted to what that code inspects (`Py`).  A float is sign + magnitude in units of
`2^-1074` (every finite binary64 is such a multiple), `±inf` or `nan` (payload abstracted).  NumPy's
`numpy.array(x, dtype).flatten()` is a *parameter* `np` of the model (an oracle); the theorems hold for every oracle
that satisfies the two laws of `NumPy` (Lemmas file); `npArray` below is the concrete oracle the driver runs (NumPy 2
semantics on a documented domain, everything else `unmodelled`) and is shown to satisfy the laws.
-/
namespace NunavutVerif.PyObj

/-- Exception classes.  `other` = any other class (AssertionError, AttributeError, …);
`unmodelled` = outside the modelled domain (never compared in the tie). -/
inductive Exc | value | type | overflow | other | unmodelled
  deriving DecidableEq, Repr

/-- Python / NumPy float: sign and magnitude in units of `2^-1074`; infinities; NaN. -/
inductive F
  | fin (neg : Bool) (a : Nat)
  | inf (neg : Bool)
  | nan
  deriving DecidableEq, Repr

/-- NumPy scalar types chosen by `filter_numpy_scalar_type`. -/
inductive DType | bool | u (w : Nat) | i (w : Nat) | f (w : Nat) | obj
  deriving DecidableEq, Repr

/-- DSDL field types (void padding has no accessor and is absent).  `trunc` is the cast mode; `cls` is the
identity of the generated class (DSDL types are nominal). -/
inductive Ty
  | bool
  | int (signed : Bool) (w : Nat) (trunc : Bool)
  | float (w : Nat) (trunc : Bool)
  | arr (fixed : Bool) (cap : Nat) (e : Ty)
  | comp (cls : Nat) (union : Bool) (fields : List Ty)
  deriving Repr

/-- Python values: candidates handed to setters, stored field values, built-in trees.
`str` carries its UTF-8 encoding; `nd` is a one-dimensional `numpy.ndarray`; `obj` an instance of generated class
`cls` with its `_field` slots (`none` = unselected union option); `dict vals extra` is a dict *seen relative to the
destination type*: `vals[i]` is the value under the name of field `i` (`missing` = key absent), `extra` = some
other key is present. -/
inductive Py
  | none
  | missing
  | bool (b : Bool)
  | int (i : Int)
  | float (f : F)
  | str (bs : List Nat)
  | bytes (mutbl : Bool) (bs : List Nat)
  | list (xs : List Py)
  | nd (dt : DType) (xs : List Py)
  | obj (cls : Nat) (slots : List Py)
  | dict (vals : List Py) (extra : Bool)
  deriving Repr

def isNone : Py → Bool | .none => true | _ => false
def isMissing : Py → Bool | .missing => true | _ => false
def isObj : Py → Bool | .obj .. => true | _ => false
def isComp : Ty → Bool | .comp .. => true | _ => false
def isInt : Ty → Bool | .int .. => true | _ => false
def isArr : Ty → Bool | .arr .. => true | _ => false

/-! ## numbers -/

/-- 1.0 in units. -/
def one : Nat := 2 ^ 1074

def intLo (s : Bool) (w : Nat) : Int := if s then -((2 : Int) ^ (w - 1)) else 0
def intHi (s : Bool) (w : Nat) : Int := if s then (2 : Int) ^ (w - 1) - 1 else (2 : Int) ^ w - 1

/-- precision, exponent of the smallest quantum (in units), exponent of the overflow bound (in units). -/
structure FFmt where
  p : Nat
  qmin : Nat
  emax1 : Nat

def ffmt (w : Nat) : FFmt :=
  if w = 16 then ⟨11, 1050, 16 + 1074⟩ else if w = 32 then ⟨24, 925, 128 + 1074⟩ else ⟨53, 0, 1024 + 1074⟩

/-- Largest finite magnitude of floatN in units (`inclusive_value_range.max`). -/
def fmax (w : Nat) : Nat := (2 ^ (ffmt w).p - 1) * 2 ^ ((ffmt w).emax1 - (ffmt w).p)

/-- Round a magnitude to `p` significant bits with quantum at least `2^qmin`, ties to even. -/
def roundMag (p qmin a : Nat) : Nat :=
  if a = 0 then 0 else
  let q := max (a.log2 + 1 - p) qmin
  let m := 2 ^ q
  let n := a / m
  let r := a % m
  (if 2 * r > m ∨ (2 * r = m ∧ n % 2 = 1) then n + 1 else n) * m

/-- Conversion to floatN as NumPy / the hardware does it: round to nearest even, overflow to infinity. -/
def roundF (w : Nat) : F → F
  | .fin neg a =>
    let b := roundMag (ffmt w).p (ffmt w).qmin a
    if b < 2 ^ (ffmt w).emax1 then .fin neg b else .inf neg
  | x => x

def ofInt (i : Int) : F := .fin (decide (i < 0)) (i.natAbs * one)

/-- Python `float(i)` for an `int`: correctly rounded, `OverflowError` beyond the binary64 range. -/
def intToDouble (i : Int) : Except Exc F :=
  match roundF 64 (ofInt i) with
  | .fin n a => .ok (.fin n a)
  | _ => .error .overflow

/-- Python `int(x)` of a float. -/
def truncF : F → Except Exc Int
  | .fin neg a => .ok (if neg then -((a / one : Nat) : Int) else ((a / one : Nat) : Int))
  | .inf _ => .error .overflow
  | .nan => .error .value

def isDigit (c : Nat) : Bool := 48 ≤ c && c ≤ 57

def digitsVal : List Nat → Nat → Nat
  | [], acc => acc
  | c :: cs, acc => digitsVal cs (acc * 10 + (c - 48))

/-- Characters that occur in no Python numeric literal (so one of them makes `int()`/`float()` raise):
printable ASCII other than digits, sign, `.`, `_` and the letters of `e`, `inf`, `infinity`, `nan`. -/
def definitelyNotNumeric (c : Nat) : Bool :=
  33 ≤ c && c ≤ 126 && !(isDigit c) && !([43, 45, 46, 95].contains c) &&
  !([101, 105, 110, 102, 97, 116, 121, 69, 73, 78, 70, 65, 84, 89].contains c)

/-- `int(text)` / `float(text)` on the modelled alphabet: `some (some n)` a plain decimal integer literal with
optional sign; `some none` certainly not a number (`ValueError`); `none` outside the modelled alphabet. -/
def parseNum (isBytes : Bool) (bs : List Nat) : Option (Option Int) :=
  let body := match bs with
    | 43 :: r => r
    | 45 :: r => r
    | r => r
  let neg := match bs with
    | 45 :: _ => true
    | _ => false
  if bs.isEmpty then some none
  else if !body.isEmpty && body.all isDigit then
    some (some (if neg then -((digitsVal body 0 : Nat) : Int) else ((digitsVal body 0 : Nat) : Int)))
  else if bs.any definitelyNotNumeric then some none
  else if isBytes && bs.any (fun c => 128 ≤ c) then some none
  else none

/-- CPython's `sys.int_info.default_max_str_digits`: `int()` of a longer literal raises `ValueError`. -/
def tooManyDigits (bs : List Nat) : Bool := decide (4300 < (bs.filter isDigit).length)

def pyInt : Py → Except Exc Int
  | .none => .error .type
  | .bool b => .ok (if b then 1 else 0)
  | .int i => .ok i
  | .float f => truncF f
  | .str bs => match parseNum false bs with
    | some (some n) => if tooManyDigits bs then .error .value else .ok n
    | some none => .error .value
    | none => .error .unmodelled
  | .bytes _ bs => match parseNum true bs with
    | some (some n) => if tooManyDigits bs then .error .value else .ok n
    | some none => .error .value
    | none => .error .unmodelled
  | .list _ => .error .type
  | .obj .. => .error .type
  | .dict .. => .error .type
  | .nd .. => .error .unmodelled
  | .missing => .error .unmodelled

def pyFloat : Py → Except Exc F
  | .none => .error .type
  | .bool b => .ok (if b then .fin false one else .fin false 0)
  | .int i => intToDouble i
  | .float f => .ok f
  | .str bs => match parseNum false bs with
    | some (some n) => .ok (roundF 64 (ofInt n))   -- a literal beyond the range parses to inf, no exception
    | some none => .error .value
    | none => .error .unmodelled
  | .bytes _ bs => match parseNum true bs with
    | some (some n) => .ok (roundF 64 (ofInt n))
    | some none => .error .value
    | none => .error .unmodelled
  | .list _ => .error .type
  | .obj .. => .error .type
  | .dict .. => .error .type
  | .nd .. => .error .unmodelled
  | .missing => .error .unmodelled

def fNonZero : F → Bool
  | .fin _ a => a != 0
  | _ => true

/-- Python truthiness `bool(x)` (generated classes define neither `__bool__` nor `__len__`). -/
def pyBool : Py → Except Exc Bool
  | .none => .ok false
  | .bool b => .ok b
  | .int i => .ok (i != 0)
  | .float f => .ok (fNonZero f)
  | .str bs => .ok (!bs.isEmpty)
  | .bytes _ bs => .ok (!bs.isEmpty)
  | .list xs => .ok (!xs.isEmpty)
  | .obj .. => .ok true
  | .dict vals extra => .ok (extra || vals.any (fun v => !isMissing v))
  | .nd .. => .error .unmodelled
  | .missing => .error .unmodelled

/-! ## NumPy storage types -/

def pickWidth (w : Nat) : Nat := if w ≤ 8 then 8 else if w ≤ 16 then 16 else if w ≤ 32 then 32 else 64

/-- `filter_numpy_scalar_type`. -/
def dtypeOf : Ty → DType
  | .bool => .bool
  | .int true w _ => .i (pickWidth w)
  | .int false w _ => .u (pickWidth w)
  | .float w _ => .f (pickWidth w)
  | _ => .obj

/-- `e` can be an element of an array of dtype `dt` (what the memory of such an array can hold). -/
def inDT : DType → Py → Bool
  | .bool, .bool _ => true
  | .u w, .int i => decide (0 ≤ i) && decide (i < (2 : Int) ^ w)
  | .i w, .int i => decide (-((2 : Int) ^ (w - 1)) ≤ i) && decide (i < (2 : Int) ^ (w - 1))
  | .f w, .float f => decide (roundF w f = f)
  | .obj, _ => true
  | _, _ => false

/-! ## the concrete NumPy oracle run by the driver (NumPy ≥ 2 semantics) -/

def scalarLike : Py → Bool
  | .none | .bool _ | .int _ | .float _ | .str _ | .bytes .. | .obj .. => true
  | _ => false

/-- One Python scalar converted into an array of `dt` (inside `numpy.array(list, dt)` or as a 0-d array). -/
def npElem (dt : DType) (s : Py) : Except Exc Py :=
  match dt with
  | .bool => (pyBool s).map .bool
  | .u w => do
    let i ← pyInt s
    if 0 ≤ i ∧ i < (2 : Int) ^ w then pure (.int i) else throw .overflow
  | .i w => do
    let i ← pyInt s
    if -((2 : Int) ^ (w - 1)) ≤ i ∧ i < (2 : Int) ^ (w - 1) then pure (.int i) else throw .overflow
  | .f w =>
    match s with
    | .none => pure (.float .nan)
    | _ => do
      let f ← pyFloat s
      pure (.float (roundF w f))
  | .obj => pure s

def wrapU (w : Nat) (i : Int) : Int := i % (2 : Int) ^ w
def wrapI (w : Nat) (i : Int) : Int := (i + (2 : Int) ^ (w - 1)) % (2 : Int) ^ w - (2 : Int) ^ (w - 1)

/-- Element cast of an existing ndarray to another dtype (C cast; float → int is platform-specific: unmodelled). -/
def npCast (dt : DType) (x : Py) : Except Exc Py :=
  match dt, x with
  | .bool, .bool b => pure (.bool b)
  | .bool, .int i => pure (.bool (i != 0))
  | .bool, .float f => pure (.bool (fNonZero f))
  | .u w, .int i => pure (.int (wrapU w i))
  | .u w, .bool b => pure (.int (wrapU w (if b then 1 else 0)))
  | .i w, .int i => pure (.int (wrapI w i))
  | .i w, .bool b => pure (.int (wrapI w (if b then 1 else 0)))
  | .f w, .int i => pure (.float (roundF w (ofInt i)))
  | .f w, .bool b => pure (.float (roundF w (if b then .fin false one else .fin false 0)))
  | .f w, .float f => pure (.float (roundF w f))
  | _, _ => throw .unmodelled

/-- `numpy.array(x, dt).flatten()` as the list of elements. -/
def npArray (dt : DType) (x : Py) : Except Exc (List Py) :=
  match x with
  | .list xs => if xs.all scalarLike then xs.mapM (npElem dt) else .error .unmodelled
  | .nd dt' xs =>
    if dt' = dt then (if xs.all (inDT dt) then .ok xs else .error .unmodelled)
    else if dt = .obj then .error .unmodelled
    else xs.mapM (npCast dt)
  | .dict .. => .error .unmodelled
  | .missing => .error .unmodelled
  | s => (npElem dt s).map (fun e => [e])

/-! ## setters -/

abbrev Oracle := DType → Py → Except Exc (List Py)

def lenOK (fixed : Bool) (cap n : Nat) : Bool := if fixed then n == cap else decide (n ≤ cap)

/-- `t.string_like` of PyDSDL: variable-length array of 8-bit unsigned (`uint8`, `byte`, `utf8`). -/
def strLike (fixed : Bool) (e : Ty) : Bool :=
  match e with
  | .int false 8 _ => !fixed
  | _ => false

/-- `t.element_type is UnsignedIntegerType and t.element_type.bit_length <= 8`. -/
def byteLike (e : Ty) : Bool :=
  match e with
  | .int false w _ => decide (w ≤ 8)
  | _ => false

/-- `x = x.encode() if isinstance(x, str) else x` (emitted only for string-like arrays). -/
def encodeStr (fixed : Bool) (e : Ty) (x : Py) : Py :=
  if strLike fixed e then (match x with | .str bs => .bytes false bs | y => y) else x

/-- "Last resort, slow construction of a new array": `numpy.array(x, dt).flatten()`, then the length check. -/
def slowPath (np : Oracle) (fixed : Bool) (cap : Nat) (dt : DType) (x : Py) : Except Exc Py := do
  let xs ← np dt x
  if lenOK fixed cap xs.length then pure (.nd dt xs) else throw .value

/-- "Fast binding if the source array has the same type and dimensionality", else the slow path. -/
def fastPath (np : Oracle) (fixed : Bool) (cap : Nat) (dt : DType) (x : Py) : Except Exc Py :=
  match x with
  | .nd dt' xs => if dt' = dt ∧ lenOK fixed cap xs.length = true then pure (.nd dt xs) else slowPath np fixed cap dt x
  | _ => slowPath np fixed cap dt x

def fromBuffer (dt : DType) (bs : List Nat) : Py := .nd dt (bs.map fun b => .int ((b % 256 : Nat) : Int))

/-- The `assign_array` macro (after `fix: … reject over-long bytes`): a `bytes`/`bytearray` source for a
byte-like element type is length-checked and never reaches `numpy.array`. -/
def assignCore (np : Oracle) (fixed : Bool) (cap : Nat) (e : Ty) (x : Py) : Except Exc Py :=
  if byteLike e then
    match x with
    | .bytes _ bs => if lenOK fixed cap bs.length then pure (fromBuffer (dtypeOf e) bs) else throw .value
    | _ => fastPath np fixed cap (dtypeOf e) x
  else fastPath np fixed cap (dtypeOf e) x

def assignArray (np : Oracle) (fixed : Bool) (cap : Nat) (e : Ty) (x : Py) : Except Exc Py :=
  assignCore np fixed cap e (encodeStr fixed e x)

/-- `assign_array` as shipped before the fix: a `bytes` source of the wrong length falls through to
`numpy.array(x, dtype)`, which reads the buffer as one decimal literal. -/
def assignArrayBeforeFix (np : Oracle) (fixed : Bool) (cap : Nat) (e : Ty) (x : Py) : Except Exc Py :=
  let x := encodeStr fixed e x
  if byteLike e then
    match x with
    | .bytes _ bs =>
      if lenOK fixed cap bs.length then pure (fromBuffer (dtypeOf e) bs) else fastPath np fixed cap (dtypeOf e) x
    | _ => fastPath np fixed cap (dtypeOf e) x
  else fastPath np fixed cap (dtypeOf e) x

/-- Does a finite/infinite/NaN float pass the emitted float range check of a `w`-bit field? -/
def floatOK (w : Nat) (f : F) : Bool :=
  decide (64 ≤ w) ||
  match f with
  | .fin _ a => decide (a ≤ fmax w)
  | _ => true

/-- The property setter emitted for a field of type `t`, given candidate `x`: the value stored or the exception. -/
def setField (np : Oracle) (t : Ty) (x : Py) : Except Exc Py :=
  match t with
  | .bool => (pyBool x).map .bool
  | .int s w _ => do
    let i ← pyInt x
    if intLo s w ≤ i ∧ i ≤ intHi s w then pure (.int i) else throw .value
  | .float w _ => do
    let f ← pyFloat x
    if floatOK w f then pure (.float f) else throw .value
  | .arr fixed cap e => assignArray np fixed cap e x
  | .comp cls _ _ =>
    match x with
    | .obj c slots => if c = cls then pure (.obj c slots) else throw .value
    | _ => throw .value

/-! ## default values (`C()`, `numpy.zeros`, `numpy.array([], dt)`) -/

def zeroOf : DType → Py
  | .bool => .bool false
  | .u _ => .int 0
  | .i _ => .int 0
  | .f _ => .float (.fin false 0)
  | .obj => .none

mutual
def defaultVal : Ty → Py
  | .bool => .bool false
  | .int .. => .int 0
  | .float .. => .float (.fin false 0)
  | .arr fixed cap e =>
    if fixed then
      (if isComp e then .nd .obj (List.replicate cap (defaultVal e)) else .nd (dtypeOf e) (List.replicate cap (zeroOf (dtypeOf e))))
    else .nd (dtypeOf e) []
  | .comp cls union fs => .obj cls (if union then defaultU fs else defaultS fs)
def defaultS : List Ty → List Py
  | [] => []
  | f :: fs => defaultVal f :: defaultS fs
def defaultU : List Ty → List Py
  | [] => []
  | f :: fs => defaultVal f :: fs.map (fun _ => Py.none)
end

/-! ## objects: constructors and attribute assignment -/

/-- Union setter tail: slot `i` holds `v`, every sibling `None`. -/
def oneHot : List Py → Nat → Py → List Py
  | [], _, _ => []
  | _ :: ss, 0, v => v :: ss.map (fun _ => Py.none)
  | _ :: ss, i + 1, v => Py.none :: oneHot ss i v

def countSome (slots : List Py) : Nat := (slots.filter (fun s => !isNone s)).length

/-- `obj.<field i> = x` on an instance of composite type `t`. -/
def objSet (np : Oracle) (t : Ty) (i : Nat) (x : Py) (o : Py) : Except Exc Py :=
  match t, o with
  | .comp _ union fields, .obj c slots =>
    match fields[i]? with
    | none => .error .unmodelled
    | some f => do
      let v ← setField np f x
      if i < slots.length then pure (.obj c (if union then oneHot slots i v else slots.set i v))
      else throw .unmodelled
  | _, _ => .error .unmodelled

/-- Structure `__init__`: `None` ⇒ the default, otherwise the setter logic, field by field. -/
def ctorStruct (np : Oracle) : List Ty → List Py → Except Exc (List Py)
  | [], _ => pure []
  | f :: fs, args => do
    let a := args.headD .none
    let v ← setField np f (if isNone a then defaultVal f else a)
    let rest ← ctorStruct np fs args.tail
    pure (v :: rest)

/-- Union `__init__`, the loop over the keyword arguments: state = (slots, `_init_cnt_`). -/
def ctorUnionLoop (np : Oracle) : List Ty → List Py → Nat → List Py × Nat → Except Exc (List Py × Nat)
  | [], _, _, st => pure st
  | f :: fs, args, i, (slots, cnt) =>
    let a := args.headD .none
    if isNone a then ctorUnionLoop np fs args.tail (i + 1) (slots, cnt)
    else do
      let v ← setField np f a
      ctorUnionLoop np fs args.tail (i + 1) (oneHot slots i v, cnt + 1)

/-- `C(*args)`; `args[i]` is the argument for field `i`, `None`/absent = not given. -/
def construct (np : Oracle) (t : Ty) (args : List Py) : Except Exc Py :=
  match t with
  | .comp cls false fs => (ctorStruct np fs args).map (.obj cls)
  | .comp cls true fs => do
    let (slots, cnt) ← ctorUnionLoop np fs args 0 (fs.map (fun _ => Py.none), 0)
    if cnt = 0 then
      match fs with
      | [] => throw .other
      | f0 :: _ => do
        let v ← setField np f0 (defaultVal f0)
        pure (.obj cls (oneHot slots 0 v))
    else if cnt = 1 then pure (.obj cls slots)
    else throw .value
  | _ => .error .unmodelled

/-- A sequence of attribute assignments; one that raises leaves the object as it was. -/
def runOps (np : Oracle) (t : Ty) : Py → List (Nat × Py) → Py
  | o, [] => o
  | o, (i, x) :: ops =>
    match objSet np t i x o with
    | .ok o' => runOps np t o' ops
    | .error _ => runOps np t o ops

/-! ## well-typedness -/

/-- Element types of arrays whose *DSDL* range the emitted code relies on the NumPy dtype to enforce. -/
def primNonInt : Ty → Bool
  | .bool => true
  | .float .. => true
  | _ => false

mutual
/-- `hasTy strict t v`: `v` is a well-typed stored value of a field of type `t`.  Scalars are in the DSDL range;
arrays have the numpy dtype of their element type, a permitted length and elements that fit the dtype;
with `strict` integer elements are moreover in the *DSDL* range of the element type; composite elements and
composite fields are (deeply) well-typed instances of the right class; a union holds exactly one option. -/
def hasTy (strict : Bool) : Ty → Py → Bool
  | .bool, .bool _ => true
  | .int s w _, .int i => decide (intLo s w ≤ i) && decide (i ≤ intHi s w)
  | .float w _, .float f => floatOK w f
  | .arr fixed cap e, .nd dt xs =>
    decide (dt = dtypeOf e) && lenOK fixed cap xs.length && xs.all (inDT dt) &&
      (primNonInt e || (isInt e && !strict) || xs.all (hasTy strict e))
  | .comp cls union fs, .obj c slots =>
    decide (c = cls) && (if union then hasTyU strict fs slots else hasTyS strict fs slots)
  | _, _ => false
def hasTyS (strict : Bool) : List Ty → List Py → Bool
  | [], [] => true
  | f :: fs, s :: ss => hasTy strict f s && hasTyS strict fs ss
  | _, _ => false
def hasTyU (strict : Bool) : List Ty → List Py → Bool
  | f :: fs, s :: ss =>
    if isNone s then hasTyU strict fs ss
    else hasTy strict f s && ss.all isNone && decide (ss.length = fs.length)
  | _, _ => false
end

/-- What a setter guarantees for *every* field type, looking only at the stored value itself. -/
def stored (t : Ty) (v : Py) : Bool :=
  match t, v with
  | .arr fixed cap e, .nd dt xs => decide (dt = dtypeOf e) && lenOK fixed cap xs.length && xs.all (inDT dt)
  | .comp cls _ _, .obj c _ => decide (c = cls)
  | .arr .., _ => false
  | .comp .., _ => false
  | t, v => hasTy true t v

/-- `stored` field by field. -/
def storedS : List Ty → List Py → Bool
  | [], [] => true
  | f :: fs, s :: ss => stored f s && storedS fs ss
  | _, _ => false

/-- How many of the first `n` constructor arguments are given (not `None`). -/
def givenArgs : Nat → List Py → Nat
  | 0, _ => 0
  | n + 1, args => (if isNone (args.headD .none) then 0 else 1) + givenArgs n args.tail

/-- Field types for which the emitted setter establishes full DSDL well-typedness: everything except arrays whose
integer element type is narrower than its numpy dtype and arrays of composites (elements not `isinstance`-checked). -/
def fullyChecked : Ty → Bool
  | .arr _ _ (.int _ w _) => decide (w = pickWidth w)
  | .arr _ _ (.comp ..) => false
  | .arr _ _ (.arr ..) => false
  | _ => true

mutual
/-- Shapes DSDL admits: unions have at least one option, array elements are not arrays, float widths. -/
def wf : Ty → Bool
  | .bool => true
  | .int _ w _ => decide (1 ≤ w) && decide (w ≤ 64)
  | .float w _ => decide (w = 16 ∨ w = 32 ∨ w = 64)
  | .arr _ _ e => !isArr e && wf e
  | .comp _ union fs => (!union || !fs.isEmpty) && wfs fs
def wfs : List Ty → Bool
  | [] => true
  | f :: fs => wf f && wfs fs
end

/-! ## `to_builtin` / `update_from_builtin` -/

def printable (c : Nat) : Bool := (32 ≤ c && c ≤ 126) || (9 ≤ c && c ≤ 13)

/-- `obj.tobytes()` of a uint8 array. -/
def bytesOf : List Py → Option (List Nat)
  | [] => some []
  | .int i :: xs => if 0 ≤ i ∧ i < 256 then (bytesOf xs).map (i.toNat :: ·) else none
  | _ => none

mutual
/-- `_to_builtin_impl(obj, model)`. -/
def toBuiltin : Ty → Py → Except Exc Py
  | .bool, v => (pyBool v).map .bool
  | .int .., v => (pyInt v).map .int
  | .float .., v => (pyFloat v).map .float
  | .arr fixed _ e, .nd _ xs =>
    if strLike fixed e then
      match bytesOf xs with
      | some bs => if bs.all printable then pure (.str bs) else (xs.mapM (toBuiltin e)).map .list
      | none => .error .other
    else (xs.mapM (toBuiltin e)).map .list
  | .arr .., _ => .error .other
  | .comp _ _ fs, .obj _ slots => (tbFields fs slots).map (fun vs => .dict vs false)
  | .comp _ _ [], _ => pure (.dict [] false)   -- no field is ever read: any object passes (duck typing)
  | .comp .., _ => .error .other               -- AttributeError on the first field
def tbFields : List Ty → List Py → Except Exc (List Py)
  | [], _ => pure []
  | f :: fs, s :: ss => do
    let v ← (if isNone s then pure Py.missing else toBuiltin f s)
    let r ← tbFields fs ss
    pure (v :: r)
  | _ :: _, [] => .error .other
end

/-- `update_from_builtin`, source not a `dict` ("positional initialization"): a non-sequence becomes a 1-tuple;
when the first field is an array or composite and there are more values than fields (more than one for a union)
the whole sequence is handed to the first field; more values than fields ⇒ `TypeError`; then
`{f.name: v for f, v in zip(fields, source)}` — returned as the per-field value list (`missing` = no key). -/
def positional (union : Bool) (fs : List Ty) (v : Py) : Except Exc (List Py) :=
  let src := match v with
    | .list xs => xs
    | x => [x]
  let canPropagate := match fs with
    | f :: _ => isArr f || isComp f
    | [] => false
  let tooMany := decide ((if union then 1 else fs.length) < src.length)
  let src := if canPropagate && tooMany then [Py.list src] else src
  if fs.length < src.length then .error .type
  else .ok (src ++ List.replicate (fs.length - src.length) Py.missing)

/-- `[update_from_builtin(dtype(), s) for s in value]`: what iterating the source value yields.  `None`, numbers and
generated objects are not iterable (`TypeError`); a `str` yields its characters (ASCII modelled), `bytes` its
integers. -/
def iterate : Py → Except Exc (List Py)
  | .list ss => .ok ss
  | .bytes _ bs => .ok (bs.map fun b => .int ((b % 256 : Nat) : Int))
  | .str bs => if bs.all (fun b => decide (b < 128)) then .ok (bs.map fun b => .str [b]) else .error .unmodelled
  | .none => .error .type
  | .bool _ => .error .type
  | .int _ => .error .type
  | .float _ => .error .type
  | .obj .. => .error .type
  | _ => .error .unmodelled

mutual
/-- The body of the `for f in fields` loop of `update_from_builtin` for one field of type `t` whose current value
is `cur` (`None` for an unselected union option) and whose source value is `v`; returns the new field value.
For a composite `t` this is `update_from_builtin(cur or t(), v)` itself. -/
def updSlot (np : Oracle) : Ty → Py → Py → Except Exc Py
  | .comp cls union fs, cur, v =>
    let d := if isNone cur then Py.obj cls (if union then defaultU fs else defaultS fs) else cur
    match d, v with
    | .obj c slots, .dict vals extra => do
      let slots' ← (if union then updU np fs vals [] slots else updS np fs slots vals)
      if extra then throw .value else pure (.obj c slots')
    | .obj .., .missing => .error .unmodelled
    | .obj c slots, src => do
      let vals ← positional union fs src
      let slots' ← (if union then updU np fs vals [] slots else updS np fs slots vals)
      pure (.obj c slots')
    | _, _ => .error .other
  | .arr fixed cap e, _, v =>
    if isComp e then
      match iterate v with
      | .ok ss => do
        let objs ← ss.mapM (updSlot np e Py.none)
        assignArray np fixed cap e (.list objs)
      | .error x => .error x
    else assignArray np fixed cap e v
  | .bool, _, v => setField np .bool v
  | .int s w c, _, v => setField np (.int s w c) v
  | .float w c, _, v => setField np (.float w c) v
/-- Structure destination: fields in order; an absent key keeps the value. -/
def updS (np : Oracle) : List Ty → List Py → List Py → Except Exc (List Py)
  | [], slots, _ => pure slots
  | _ :: _, [], _ => .error .other
  | _ :: _, s :: ss, [] => pure (s :: ss)
  | f :: fs, s :: ss, v :: vs => do
    let s' ← (if isMissing v then pure s else updSlot np f s v)
    let rest ← updS np fs ss vs
    pure (s' :: rest)
/-- Union destination: fields in order; a present key selects its option (the union setter clears every sibling).
`before`/`after` are the slots left and right of the current position. -/
def updU (np : Oracle) : List Ty → List Py → List Py → List Py → Except Exc (List Py)
  | f :: fs, v :: vs, before, s :: after =>
    if isMissing v then updU np fs vs (before ++ [s]) after
    else do
      let nv ← updSlot np f s v
      updU np fs vs (before.map (fun _ => Py.none) ++ [nv]) (after.map (fun _ => Py.none))
  | _, _, before, after => pure (before ++ after)
end

/-- `update_from_builtin(d, v)` for a destination `d` of composite type `t`. -/
def update (np : Oracle) (t : Ty) (d v : Py) : Except Exc Py :=
  if isComp t && isObj d then updSlot np t d v else .error .other

/-- `to_builtin(obj)` / `update_from_builtin(obj, …)` at the top: `get_model(obj)`; for a *service* class (which has
no fields of its own) both raise `TypeError` ("Built-in form is not defined for service types"). -/
def toBuiltinTop (service : Bool) (t : Ty) (o : Py) : Except Exc Py :=
  if service then .error .type else toBuiltin t o

def updateTop (np : Oracle) (service : Bool) (t : Ty) (d v : Py) : Except Exc Py :=
  if service then .error .type else update np t d v

/-- A candidate ndarray holds only what its dtype can hold (true of every real ndarray). -/
def ndOK : Py → Bool
  | .nd dt xs => xs.all (inDT dt)
  | _ => true

/-- NumPy's `numpy.array(x, dtype).flatten()` as an assumed oracle: whatever it returns fits the dtype (an array
cannot hold anything else); a list of Python scalars that already are values of the dtype (what `to_builtin`
produces), and a list of generated objects for `object_`, converts to exactly those elements; an ndarray of the
same dtype is copied. -/
structure NumPy where
  array : Oracle
  sound : ∀ dt x xs, array dt x = .ok xs → ∀ e ∈ xs, inDT dt e = true
  builtin : ∀ dt xs, (∀ e ∈ xs, inDT dt e = true ∧ (dt = .obj → isObj e = true)) → array dt (.list xs) = .ok xs
  same : ∀ dt xs, (∀ e ∈ xs, inDT dt e = true) → array dt (.nd dt xs) = .ok xs

/-! ## reflection: package-level aliases and the module lookup of `get_class`

`Namespace.j2` emits, per namespace package, `Name_M = Name_M_m` for the newest minor version `m` of every
`(short name, major)` (`filter_newest_minor_version_aliases`: `max(..., key=lambda x: int(x.version.minor))`).
`get_class` walks the namespace components with `do_import`: try `pkg.comp`, on `ImportError` try `pkg.comp_`
(the generator suffixes reserved names — keywords *and* builtins — with an underscore). -/

/-- A generated type as the alias filter sees it.  `deprecated` (`@deprecated` in the definition) is carried along to
make explicit that the alias selection does NOT consult it: the newest minor is aliased even when it is deprecated
and an older minor is not. -/
structure TyId where
  name : String
  major : Nat
  minor : Nat
  deprecated : Bool := false
  deriving DecidableEq, Repr

/-- `max` by the *integer* minor version. -/
def maxMinor : List Nat → Option Nat
  | [] => none
  | m :: ms =>
    match maxMinor ms with
    | none => some m
    | some k => some (max m k)

/-- The minor version `Name_M` refers to. -/
def newestMinor (tys : List TyId) (name : String) (major : Nat) : Option Nat :=
  maxMinor ((tys.filter (fun t => t.name = name ∧ t.major = major)).map (·.minor))

/-- All aliases of a namespace: one per distinct `(name, major)`, in first-occurrence order. -/
def aliasesFrom (all : List TyId) : List TyId → List TyId → List TyId
  | _, [] => []
  | seen, t :: ts =>
    if seen.any (fun u => u.name = t.name ∧ u.major = t.major) then aliasesFrom all seen ts
    else
      match newestMinor all t.name t.major with
      | some k => ⟨t.name, t.major, k, false⟩ :: aliasesFrom all (t :: seen) ts
      | none => aliasesFrom all (t :: seen) ts

def aliases (tys : List TyId) : List TyId := aliasesFrom tys [] tys

/-- The name the generator gives a namespace component. -/
def strop (reserved : String → Bool) (c : String) : String := if reserved c then c ++ "_" else c

/-- `do_import`: `ex` tells which dotted module paths import; `pre` is the path of the package reached so far. -/
def doImport (ex : List String → Bool) : List String → List String → Option (List String)
  | pre, [] => some pre
  | pre, c :: cs =>
    if ex (pre ++ [c]) then doImport ex (pre ++ [c]) cs
    else if ex (pre ++ [c ++ "_"]) then doImport ex (pre ++ [c ++ "_"]) cs
    else none

/-! ## class identity

The model identifies a generated class by a number `cls`; `isinstance(x, ns.pkg.Name_M_m)` in the emitted setters and
constructors is `c = cls`.  Which classes are *the same* is fixed here: a class is generated per
`(namespace, short name, major, minor)` — `full_reference_name` — and `cls` is its position in the table of the run, so
two instances have the same `cls` exactly when all four agree (another minor or major version, a namesake in another
namespace and a structurally identical definition are all *other* classes).  An instance of a user-defined subclass of
a generated class has the `cls` of that generated class (it passes every `isinstance`, shares `_MODEL_` and the
slots). -/

structure ClsKey where
  ns : List String
  name : String
  major : Nat
  minor : Nat
  deriving DecidableEq, Repr

def clsOf (tbl : List ClsKey) (k : ClsKey) : Nat := tbl.idxOf k

def keyTyId (k : ClsKey) : TyId := ⟨k.name, k.major, k.minor, false⟩

/-- The alias name `Name_major` of `Namespace.j2`. -/
def aliasName (name : String) (major : Nat) : String := s!"{name}_{major}"

/-- `short_reference_name` of a class. -/
def keyRef (k : ClsKey) : String := s!"{k.name}_{k.major}_{k.minor}"

/-- `obj.field = pkg.Name_M(...)`: the candidate is an instance of whatever the attribute `Name_M` of the package is
bound to — a class of the package that is itself called `Name_M` (it keeps its name: repaired `Namespace.j2`),
else the newest-minor alias (`AttributeError` if the package has neither); the field is declared as `decl`. -/
def setViaAlias (np : Oracle) (tbl : List ClsKey) (decl : ClsKey) (union : Bool) (fs : List Ty)
    (pkg : List String) (name : String) (major : Nat) (slots : List Py) : Except Exc Py :=
  let here := tbl.filter (fun k => k.ns = pkg)
  match here.find? (fun k => keyRef k = aliasName name major) with
  | some k => setField np (.comp (clsOf tbl decl) union fs) (.obj (clsOf tbl k) slots)
  | none =>
    match newestMinor (here.map keyTyId) name major with
    | some k => setField np (.comp (clsOf tbl decl) union fs) (.obj (clsOf tbl ⟨pkg, name, major, k⟩) slots)
    | none => .error .other

end NunavutVerif.PyObj
