import NunavutVerif.Model.Overwrite
/-!
# Regeneration over a tree with directories and symbolic links (C12, extended file-system model)

`Model/Overwrite.lean` sees regular files only.  This model adds what the same code meets in a real output tree:

* directories — `output_path.parent.mkdir(parents=True, exist_ok=True)` transcribed from `pathlib.Path.mkdir` (Python 3.12): try
  `os.mkdir`; `FileNotFoundError` → create the parent recursively, then `os.mkdir` again; any other `OSError` (the directory
  exists, a file is in the way, a dangling link is in the way, permission denied) is swallowed iff the path is a directory;
* symbolic links — `Path.exists`, `Path.chmod`, `Path.is_dir`, `open(path, "w")` all *follow* links (a dangling link does not
  "exist"; `open` creates its target), `os.mkdir` does not follow the last component (`EEXIST` on any link);
* a directory at an output path (`open` fails with `EISDIR` — after `_handle_overwrite` has already `chmod`-ed it), a regular file
  in directory position (`ENOTDIR`: `exists()` is `False`, `mkdir` raises);
* for a process that is not root: creating an entry needs the owner's write bit on the (resolved) parent directory.

Paths are lists of components below one root (the root itself is a directory outside the model, taken as writable).  A
symbolic link is described by the *real path* of its target (no link inside the target path, target not itself a link): chains of
links are outside the model (`Res.loop`).  `..` is not modelled (C08 covers `..` in `--outdir`).

The per-file sequence is the one of `CodeGenerator._generate_code` / `SupportGenerator._copy_header`:
gate (`_handle_overwrite`) → `mkdir -p` of the parent → truncating open → write → (`shutil.copy`: copy the mode) → file
post-processors (`Overwrite.applyPPs`, reused: they act on the opened file).  External programs are taken to edit the file the
path resolves to (a program that *replaces* the directory entry of a symbolically linked output is outside this model; for
regular files that case is in `Model/Overwrite.lean`).

Core Lean only.
-/
namespace NunavutVerif.OverwriteFs
open NunavutVerif.Overwrite (Content Mode File FilePP Env permBits ownerWrite addWriteBits applyPPs)

/-- A path below the root, as components. -/
abbrev P := List String

inductive Node
  | file (f : File)
  | dir (mode : Mode)
  | link (target : P)      -- symbolic link, by the real path of its target
deriving DecidableEq, Repr

abbrev FS := P → Option Node

def FS.empty : FS := fun _ => none

def FS.set (fs : FS) (p : P) (n : Node) : FS := fun q => if q = p then some n else fs q

/-- Outcome of resolving a path the way `stat(2)` / `open(2)` do (the last component is followed too). -/
inductive Res
  | found (real : P) (n : Node)    -- exists; `n` is a file or a directory
  | missing (real : P)             -- does not exist, but its (resolved) parent directory does: `open(…, O_CREAT)` creates `real`
  | noent                          -- `ENOENT`: a directory on the way is missing
  | notdir                         -- `ENOTDIR`: a regular file in directory position
  | loop                           -- a link to a link / to the root: outside the model (`ELOOP` class)
deriving DecidableEq, Repr

/-- The real path `d` is a directory: the root, or a directory node. -/
def isRealDir (fs : FS) (d : P) : Bool :=
  d = [] || (match fs d with | some (.dir _) => true | _ => false)

/-- Resolve `rest` starting in the real directory `cur`. -/
def walk (fs : FS) : P → List String → Res
  | cur, [] => .found cur (.dir 0)           -- only for the empty path: the root (its mode is outside the model)
  | cur, [name] =>
    (match fs (cur ++ [name]) with
     | none => .missing (cur ++ [name])
     | some (.link t) =>
       (match fs t with
        | some (.link _) => .loop
        | some n => .found t n
        | none => if t ≠ [] && isRealDir fs t.dropLast then .missing t else if t = [] then .loop else .noent)
     | some n => .found (cur ++ [name]) n)
  | cur, name :: rest =>
    (match fs (cur ++ [name]) with
     | none => .noent
     | some (.dir _) => walk fs (cur ++ [name]) rest
     | some (.file _) => .notdir
     | some (.link t) =>
       (match fs t with
        | some (.dir _) => walk fs t rest
        | some (.file _) => .notdir
        | some (.link _) => .loop
        | none => if t = [] then .loop else .noent))

/-- `stat(p)` from the root. -/
def resolve (fs : FS) (p : P) : Res := walk fs [] p

/-- `Path.exists()`: `ENOENT`, `ENOTDIR`, `ELOOP` all mean `False`. -/
def pathExists (fs : FS) (p : P) : Bool :=
  match resolve fs p with
  | .found _ _ => true
  | _ => false

/-- `Path.is_dir()` -/
def isDir (fs : FS) (p : P) : Bool :=
  match resolve fs p with
  | .found _ (.dir _) => true
  | _ => false

/-- What reading the path yields: the file it resolves to. -/
def readFile (fs : FS) (p : P) : Option File :=
  match resolve fs p with
  | .found _ (.file f) => some f
  | _ => none

inductive Err
  | conflict (p : P)       -- PermissionError("… exists and allow_overwrite is False.")
  | eacces (p : P)         -- PermissionError: open without the write bit / create in a directory without it
  | isdir (p : P)          -- IsADirectoryError from `open`
  | noent (p : P)          -- FileNotFoundError from `open` (dangling link into a missing directory)
  | notdir (p : P)         -- NotADirectoryError from `open` / `mkdir`
  | exists_ (p : P)        -- FileExistsError from `mkdir`: a file or a dangling link is in the way
  | unsupported (p : P)    -- link chains
  | render (p : P)
  | pp (p : P) (i : Nat)
deriving DecidableEq, Repr

/-- Operations as `strace` shows them; paths as the process passes them (unresolved). -/
inductive Op
  | chmod (p : P) (m : Mode)
  | mkdir (p : P)                   -- a `mkdir(2)` that succeeded
  | openW (p : P)                   -- `open(p, O_WRONLY|O_CREAT|O_TRUNC)` succeeded
  | openFail (p : P)                -- … failed
  | exec (p : P) (i : Nat) (m : Option Mode)
deriving DecidableEq, Repr

def Op.path : Op → P
  | .chmod p _ => p
  | .mkdir p => p
  | .openW p => p
  | .openFail p => p
  | .exec p _ _ => p

/-- The mode a directory created by `mkdir(0o777)` gets: `0o777 & ~umask`. -/
structure EnvFs where
  root : Bool
  createMode : Mode
  dirMode : Mode

def EnvFs.base (e : EnvFs) : Env := ⟨e.root, e.createMode⟩

/-- May the process create an entry in the real directory `d`? -/
def dirWritable (env : EnvFs) (fs : FS) (d : P) : Bool :=
  env.root || d = [] || (match fs d with | some (.dir m) => ownerWrite m | _ => false)

/-! ### `_handle_overwrite` -/

def gate (allow : Bool) (p : P) (fs : FS) : Except Err (FS × List Op) :=
  match resolve fs p with
  | .found q n =>
    if allow then
      (match n with
       | .file f => .ok (fs.set q (.file { f with mode := addWriteBits f.mode }), [.chmod p (addWriteBits f.mode)])
       | .dir m => .ok (fs.set q (.dir (addWriteBits m)), [.chmod p (addWriteBits m)])
       | .link _ => .error (.unsupported p))
    else .error (.conflict p)
  | _ => .ok (fs, [])

/-! ### `Path.mkdir(parents=True, exist_ok=True)` -/

inductive MkRes
  | ok (fs : FS)
  | enoent
  | other (e : Err)      -- any other `OSError`

/-- `os.mkdir(p)`: the parent is resolved (links followed), the last name must not exist in any form. -/
def mkdir1 (env : EnvFs) (fs : FS) (revP : List String) : MkRes :=
  match revP with
  | [] => .other (.exists_ [])
  | name :: revParent =>
    let p := (name :: revParent).reverse
    match resolve fs revParent.reverse with
    | .found q (.dir _) =>
      (match fs (q ++ [name]) with
       | some _ => .other (.exists_ p)
       | none => if dirWritable env fs q then .ok (fs.set (q ++ [name]) (.dir env.dirMode)) else .other (.eacces p))
    | .found _ _ => .other (.notdir p)
    | .missing _ => .enoent
    | .noent => .enoent
    | .notdir => .other (.notdir p)
    | .loop => .other (.unsupported p)

structure MkOut where
  fs : FS
  ops : List Op
  err : Option Err

/-- `Path.mkdir(parents=True, exist_ok=True)` on the reversed path (recursion on the parent). -/
def mkdirP (env : EnvFs) (fs : FS) : List String → MkOut
  | [] => ⟨fs, [], none⟩          -- the root: `os.mkdir` → `EEXIST`, and it is a directory
  | name :: revParent =>
    let p := (name :: revParent).reverse
    match mkdir1 env fs (name :: revParent) with
    | .ok fs' => ⟨fs', [.mkdir p], none⟩
    | .other e => if isDir fs p then ⟨fs, [], none⟩ else ⟨fs, [], some e⟩
    | .enoent =>
      let up := mkdirP env fs revParent
      match up.err with
      | some e => ⟨up.fs, up.ops, some e⟩
      | none =>
        match mkdir1 env up.fs (name :: revParent) with
        | .ok fs' => ⟨fs', up.ops ++ [.mkdir p], none⟩
        | .enoent => ⟨up.fs, up.ops, some (.noent p)⟩
        | .other e => if isDir up.fs p then ⟨up.fs, up.ops, none⟩ else ⟨up.fs, up.ops, some e⟩

/-! ### `open(path, "w")` -/

/-- Returns the file system, the real path of the opened file and its mode. -/
def openTrunc (env : EnvFs) (p : P) (fs : FS) : Except Err (FS × P × Mode) :=
  match resolve fs p with
  | .found q (.file f) =>
    if env.root || ownerWrite f.mode then .ok (fs.set q (.file ⟨"", f.mode⟩), q, f.mode) else .error (.eacces p)
  | .found _ (.dir _) => .error (.isdir p)
  | .found _ (.link _) => .error (.unsupported p)
  | .missing q =>
    if dirWritable env fs q.dropLast then .ok (fs.set q (.file ⟨"", env.createMode⟩), q, env.createMode)
    else .error (.eacces p)
  | .noent => .error (.noent p)
  | .notdir => .error (.notdir p)
  | .loop => .error (.unsupported p)

/-! ### One file, one run, a history -/

structure Write where
  path     : P
  content  : Content
  renderOk : Bool := true
  copyMode : Option Nat := none

structure Run where
  allowOverwrite : Bool
  filePPs        : List FilePP
  writes         : List Write

def Run.paths (r : Run) : List P := r.writes.map Write.path

structure Outcome where
  fs  : FS
  ops : List Op
  err : Option Err

def pathStr (p : P) : String := "/".intercalate p

def liftOp (p : P) : Overwrite.Op → Op
  | .chmod _ m => .chmod p m
  | .mkdirs _ => .mkdir p
  | .openW _ => .openW p
  | .denied _ => .openFail p
  | .exec _ i m => .exec p i m

def liftErr (p : P) : Overwrite.Err → Err
  | .pp _ i => .pp p i
  | .render _ => .render p
  | .eacces _ => .eacces p
  | .conflict _ => .conflict p

def startMode (w : Write) (m : Mode) : Mode :=
  match w.copyMode with
  | none => m
  | some cm => permBits cm

def copyOps (w : Write) : List Op :=
  match w.copyMode with
  | none => []
  | some cm => [.chmod w.path (permBits cm)]

/-- After the open: the content is written into the opened file `q`, (`shutil.copy`: the mode copied), the file
post-processors run on it. -/
def afterOpen (pps : List FilePP) (w : Write) (q : P) (m : Mode) (fs : FS) (ops : List Op) : Outcome :=
  if w.renderOk then
    let r := applyPPs (pathStr w.path) pps 0 ⟨w.content, startMode w m⟩
    ⟨fs.set q (.file r.file), ops ++ copyOps w ++ r.ops.map (liftOp w.path), r.err.map (liftErr w.path)⟩
  else
    ⟨fs.set q (.file ⟨w.content, m⟩), ops, some (.render w.path)⟩

def writeFile (env : EnvFs) (allow : Bool) (pps : List FilePP) (w : Write) (fs : FS) : Outcome :=
  match gate allow w.path fs with
  | .error e => ⟨fs, [], some e⟩
  | .ok (fs1, ops1) =>
    let mk := mkdirP env fs1 w.path.dropLast.reverse
    match mk.err with
    | some e => ⟨mk.fs, ops1 ++ mk.ops, some e⟩
    | none =>
      match openTrunc env w.path mk.fs with
      | .error e => ⟨mk.fs, ops1 ++ mk.ops ++ [.openFail w.path], some e⟩
      | .ok (fs3, q, m) => afterOpen pps w q m fs3 (ops1 ++ mk.ops ++ [.openW w.path])

def runWrites (env : EnvFs) (allow : Bool) (pps : List FilePP) : List Write → FS → Outcome
  | [], fs => ⟨fs, [], none⟩
  | w :: ws, fs =>
    let o := writeFile env allow pps w fs
    match o.err with
    | some e => ⟨o.fs, o.ops, some e⟩
    | none =>
      let o' := runWrites env allow pps ws o.fs
      ⟨o'.fs, o.ops ++ o'.ops, o'.err⟩

def runRun (env : EnvFs) (r : Run) (fs : FS) : Outcome :=
  runWrites env r.allowOverwrite r.filePPs r.writes fs

def runHistory (env : EnvFs) : List Run → FS → List (FS × Run × Outcome)
  | [], _ => []
  | r :: rs, fs =>
    let o := runRun env r fs
    (fs, r, o) :: runHistory env rs o.fs

/-! ### `_copy_header` before `fix_copy_header_into_directory` -/

/-- The copy path of the unchanged code used `shutil.copy(resource, target)`: with a directory at `target` the file is
created *inside* it under the resource's name `res`, the call succeeds, and the file post-processors are then applied to
`target` — the directory (`SetFileMode` puts the file mode on it). -/
def copyIntoDirBeforeFix (env : EnvFs) (pps : List FilePP) (w : Write) (res : String) (fs : FS) : Outcome :=
  match resolve fs w.path with
  | .found q (.dir m) =>
    let inner := q ++ [res]
    let fs1 := fs.set inner (.file ⟨w.content, match w.copyMode with | some cm => permBits cm | none => env.createMode⟩)
    let m' := (applyPPs (pathStr w.path) pps 0 ⟨"", addWriteBits m⟩).file.mode     -- what the post-processors leave as mode
    ⟨fs1.set q (.dir m'), [.chmod w.path (addWriteBits m), .openW (w.path ++ [res])], none⟩
  | _ => ⟨fs, [], none⟩

/-! ### Specification-side notions -/

/-- Everything `fs` contains is in `fs'`, unchanged (files with content and mode, directories with their mode, links). -/
def Pres (fs fs' : FS) : Prop := ∀ p n, fs p = some n → fs' p = some n

def sameKind : Node → Node → Prop
  | .file _, .file _ => True
  | .dir _, .dir _ => True
  | .link t, .link t' => t = t'
  | _, _ => False

/-- `fs'` has everything `fs` has, with the same kind (a link stays the same link): entries are only added, file
contents / modes and directory modes may differ. -/
def Ext (fs fs' : FS) : Prop := ∀ p n, fs p = some n → ∃ n', fs' p = some n' ∧ sameKind n n'

/-- The real path a path resolves to (`os.path.realpath` of something that exists). -/
def realOf (fs : FS) (p : P) : Option P :=
  match resolve fs p with
  | .found q _ => some q
  | _ => none

/-- Tree shape: every entry sits in a directory. -/
def WF (fs : FS) : Prop := ∀ p n, fs p = some n → p ≠ [] ∧ isRealDir fs p.dropLast = true

end NunavutVerif.OverwriteFs
