import NunavutVerif.Model.LineBuffer
import NunavutVerif.Model.Tpl
/-
Process-wide state of a generator process as explicit state machines (C10):

* `UniqueNameGenerator` (src/nunavut/lang/_common.py): a singleton index map; `_generate_code` replaces it by a fresh
  one (`reset`) before it consumes the template generator of every file;
* the line post-processors: `LimitEmptyLines` keeps `_empty_line_count` in an object that is shared by all files of a
  run and, through the shared `post_processors` list, by the support generator and the type generator;
* memoisation: `functools.lru_cache` on `TokenEncoder.strop`, `Language.get_dependency_builder`,
  `LanguageClassLoader.load_language_class`, `_make_textwrap`; `_type_to_template_lookup_cache`.

Core Lean only.
-/
namespace NunavutVerif.ProcState
open NunavutVerif.LineBuffer

/-! ### UniqueNameGenerator -/

/-- One call `UniqueNameGenerator.get_instance()(key, base_token, prefix, suffix)`. -/
structure Req where
  key  : Str
  base : Str
  pre  : Str
  suf  : Str
deriving DecidableEq, Repr, Inhabited

abbrev NameKey := Str × Str

def Req.nameKey (r : Req) : NameKey := (r.key, r.base)

/-- `_index_map`: `(key, base_token) ↦ next index`; an absent entry means 0. -/
abbrev UState := List (NameKey × Nat)

def lookup : UState → NameKey → Nat
  | [], _ => 0
  | (k', n) :: rest, k => if k' = k then n else lookup rest k

def bump : UState → NameKey → UState
  | [], k => [(k, 1)]
  | (k', n) :: rest, k => if k' = k then (k', n + 1) :: rest else (k', n) :: bump rest k

/-- Python `f"{next_index}"`. -/
def natToStr (n : Nat) : Str := (toString n).toList

def Req.name (r : Req) (index : Nat) : Str := r.pre ++ r.base ++ natToStr index ++ r.suf

/-- `__call__`. -/
def request (st : UState) (r : Req) : Str × UState :=
  (r.name (lookup st r.nameKey), bump st r.nameKey)

def issue : UState → List Req → List Str × UState
  | st, [] => ([], st)
  | st, r :: rs =>
      let a := request st r
      let b := issue a.2 rs
      (a.1 :: b.1, b.2)

/-- `UniqueNameGenerator.reset()`: a fresh, empty index map — ALL domains (the first component of the key: `"c"`,
`"cpp"`, `"py"`, `"html"`) are cleared, not only the target language's. -/
def resetState : UState := []

/-- A reset that clears only one domain (what the code does NOT do; kept to show why: a template may borrow another
language's unique-name filter through `ln.<lang>.*`). -/
def resetDomain : UState → Str → UState
  | [], _ => []
  | (k, n) :: rest, d => if k.1 = d then resetDomain rest d else (k, n) :: resetDomain rest d

def namesInFileDomainReset (target : Str) (prior : UState) (reqs : List Req) : List Str :=
  (issue (resetDomain prior target) reqs).1

/-- Names issued while one file is rendered, given the state left by whatever ran before (the code as it is:
reset first). -/
def namesInFile (_prior : UState) (reqs : List Req) : List Str := (issue resetState reqs).1

/-- The same without the reset (the C10 mutant; kept to show what the reset is for). -/
def namesInFileNoReset (prior : UState) (reqs : List Req) : List Str := (issue prior reqs).1

/-- Closed form: the index of a request is the number of earlier requests *of this file* with the same
(key, base token). `seen` = keys of the earlier requests. -/
def specNames : List NameKey → List Req → List Str
  | _, [] => []
  | seen, r :: rs => r.name (seen.count r.nameKey) :: specNames (r.nameKey :: seen) rs

/-! ### Line post-processors across the files of a run -/

/-- `pipeLines` that also returns the final processor state. -/
def pipeLinesSt (pps : List PP) : List Nat → List Line → List Line × List Nat
  | ss, [] => ([], ss)
  | ss, l :: ls =>
      let r := pipeLine pps ss l
      let r' := pipeLinesSt pps r.2 ls
      (r.1 :: r'.1, r'.2)

/-- Initial state of a processor list (`LimitEmptyLines.__init__`: `_empty_line_count = 0`). -/
def zeros (pps : List PP) : List Nat := pps.map fun _ => 0

/-- One file: the complete rendered text (by C15 the chunking is irrelevant) through the processors whose state
is `ss` when the file starts.  Returns the written text and the state afterwards. -/
def fileOut (pps : List PP) (ss : List Nat) (text : Str) : Str × List Nat :=
  let r := pipeLinesSt pps ss (specLines text)
  (write r.1, r.2)

/-- The files of one run, processor state carried from file to file (the code before the fix; F9). -/
def runFilesBeforeFix (pps : List PP) : List Nat → List Str → List Str
  | _, [] => []
  | ss, f :: fs =>
      let r := fileOut pps ss f
      r.1 :: runFilesBeforeFix pps r.2 fs

/-- The files of one run when every file starts from the initial processor state (the proposed fix). -/
def runFilesReset (pps : List PP) (files : List Str) : List Str :=
  files.map fun f => (fileOut pps (zeros pps) f).1

/-- The run as the tree under check performs it (`resetPerFile` is read off the source by the translator). -/
def runFiles (resetPerFile : Bool) (pps : List PP) (files : List Str) : List Str :=
  if resetPerFile then runFilesReset pps files else runFilesBeforeFix pps (zeros pps) files

/-- Some character of the string is not whitespace. -/
def hasNonWs : Str → Bool
  | [] => false
  | c :: rest => !isWs c || hasNonWs rest

/-- Processor states that agree on every limiter position (the state slot of a `trim` is never read). -/
def limAgree : List PP → List Nat → List Nat → Prop
  | [], _, _ => True
  | .trim :: ps, _ :: ss, _ :: ss' => limAgree ps ss ss'
  | .limit _ :: ps, s :: ss, s' :: ss' => s = s' ∧ limAgree ps ss ss'
  | _ :: _, _, _ => False

/-! ### The line buffer of `_generate_with_line_buffer` and renderings that are aborted by an exception -/

/-- One rendering handed to `_generate_code`: the chunks the template generator yields and whether it then raises
(`{% assert %}`, an undefined variable, a filter error, a line post-processor that raises …). -/
structure Rendering where
  chunks  : List Str
  aborted : Bool
deriving DecidableEq, Repr, Inhabited

/-- The `(line, terminator)` pairs handed on by one call of `_generate_with_line_buffer` that starts with `startBuf` in its
line buffer, and the buffer it leaves behind.  A rendering that completes flushes the remainder and leaves nothing; an
aborted one has handed on its complete lines only — the unfinished line stays in the buffer (the exception leaves the
function before the flush; a carriage return held back by `_join_split_line_endings` dies with that generator). -/
def bufLines (startBuf : Str) (r : Rendering) : List Line × Str :=
  let p := procChunks ⟨startBuf, false⟩ r.chunks
  if r.aborted then (p.1, p.2.buf)
  else (p.1 ++ flush (p.2.buf ++ (if p.2.pend then ['\r'] else [])), [])

/-- The files of a process, one after the other.  `perCall`: the line buffer is a fresh `io.StringIO()` created by the call
(the code as it is; source fact `lineBufferPerCall`) — otherwise one buffer is shared by all calls.  `resetPerFile` as in
`runFiles`.  Without line post-processors `_generate_code` does not use the line buffer at all: every chunk the
generator yielded is written as it comes (`for part in template_gen: output_file.write(part)`). -/
def runRenderings (perCall resetPerFile : Bool) (pps : List PP) : List Nat → Str → List Rendering → List Str
  | _, _, [] => []
  | ss, buf, r :: rs =>
      if pps.isEmpty then r.chunks.flatten :: runRenderings perCall resetPerFile pps ss buf rs
      else
        let l := bufLines (if perCall then [] else buf) r
        let o := pipeLinesSt pps (if resetPerFile then zeros pps else ss) l.1
        write o.1 :: runRenderings perCall resetPerFile pps o.2 l.2 rs

/-! ### Memoisation -/

/-- A cache in front of a function `f`: look the key up, otherwise compute and store; `evict` models the bounded
`lru_cache(maxsize=…)` (it may drop any entries, never invent one). -/
def cacheFind {κ ν : Type} [DecidableEq κ] : List (κ × ν) → κ → Option ν
  | [], _ => none
  | (k', v) :: rest, k => if k' = k then some v else cacheFind rest k

def memoGet {κ ν : Type} [DecidableEq κ] (f : κ → ν) (evict : List (κ × ν) → List (κ × ν))
    (cache : List (κ × ν)) (k : κ) : ν × List (κ × ν) :=
  match cacheFind cache k with
  | some v => (v, cache)
  | none => (f k, evict ((k, f k) :: cache))

def memoRun {κ ν : Type} [DecidableEq κ] (f : κ → ν) (evict : List (κ × ν) → List (κ × ν)) :
    List (κ × ν) → List κ → List ν × List (κ × ν)
  | cache, [] => ([], cache)
  | cache, k :: ks =>
      let a := memoGet f evict cache k
      let b := memoRun f evict a.2 ks
      (a.1 :: b.1, b.2)

/-- A cache that is shared by all instances (keyed by `κ` only) in front of a function that takes the instance as an
argument — what `cached_property` would be if it kept its value on the descriptor, or `lru_cache` on a method if `self`
were not part of the key.  The caches of the code are keyed as follows: `lru_cache` on `TokenEncoder.strop`,
`Language.get_dependency_builder`, `LanguageClassLoader.load_language_class`: `(self, arguments)` — per instance;
`cached_property` (`Language._token_encoder`): `instance.__dict__` — per instance; `_make_textwrap`: its three
arguments, module-wide, the function has no instance; `_type_to_template_lookup_cache`: a dict attribute of the loader
— per instance. -/
def memoGetShared {ι κ ν : Type} [DecidableEq κ] (f : ι → κ → ν) (cache : List (κ × ν)) (i : ι) (k : κ) :
    ν × List (κ × ν) :=
  match cacheFind cache k with
  | some v => (v, cache)
  | none => (f i k, (k, f i k) :: cache)

def memoRunShared {ι κ ν : Type} [DecidableEq κ] (f : ι → κ → ν) :
    List (κ × ν) → List (ι × κ) → List ν × List (κ × ν)
  | cache, [] => ([], cache)
  | cache, q :: qs =>
      let a := memoGetShared f cache q.1 q.2
      let b := memoRunShared f a.2 qs
      (a.1 :: b.1, b.2)

/-- The functions of the package that are memoised with `functools.lru_cache` / `functools.cache` and for which T5 is
instantiated (pure in the arguments the cache compares; results not configured afterwards): stropping of a token,
loading a language module + class by name, the text wrapper for three scalars.  Any other memoised function needs its own
argument — e.g. a memoised FACTORY of a configurable object (`LanguageContextBuilder._new_language_w_experimental_handling`)
hands the object of an earlier `create()` to a later one. -/
def modelledMemoised : List String :=
  [ "nunavut/lang/_common.py:TokenEncoder.strop",
    "nunavut/lang/_language.py:LanguageClassLoader.load_language_class",
    "nunavut/lang/cpp/__init__.py:_make_textwrap" ]

/-- A cache whose keys are compared through `π` although the function looks at the whole argument: `functools.lru_cache`
on a function of a PyDSDL model object — composite types compare and hash equal by name, version and bit length set
(`π`), the function (`DependencyBuilder(for_type)`) keeps the object with its attributes.  `Language.get_dependency_builder`
was memoised like this before the `fix:` commit; no memoised function is any more (source fact `memoKeysDetermineResult`). -/
def memoGetBy {κ κ' ν : Type} [DecidableEq κ'] (π : κ → κ') (f : κ → ν) (cache : List (κ' × ν)) (k : κ) :
    ν × List (κ' × ν) :=
  match cacheFind cache (π k) with
  | some v => (v, cache)
  | none => (f k, (π k, f k) :: cache)

def memoRunBy {κ κ' ν : Type} [DecidableEq κ'] (π : κ → κ') (f : κ → ν) :
    List (κ' × ν) → List κ → List ν × List (κ' × ν)
  | cache, [] => ([], cache)
  | cache, k :: ks =>
      let a := memoGetBy π f cache k
      let b := memoRunBy π f a.2 ks
      (a.1 :: b.1, b.2)

/-- Every stored value is the function's value for every argument with that key. -/
def CacheValidBy {κ κ' ν : Type} (π : κ → κ') (f : κ → ν) (cache : List (κ' × ν)) : Prop :=
  ∀ p ∈ cache, ∀ k, π k = p.1 → p.2 = f k

/-- Every stored value is the function's value. -/
def CacheValid {κ ν : Type} (f : κ → ν) (cache : List (κ × ν)) : Prop := ∀ p ∈ cache, p.2 = f p.1

/-! ### One generated file in a process -/

/-- What a process carries from one file to the next. -/
structure PState where
  amb      : Tpl.Amb          -- abstract: unique-name map, caches, clock … one value per source class
  counters : List Nat         -- state of the line post-processors

/-- Generate one file: render body `root` (auditing off), post-process.  `resetPerFile` as in `runFiles`. -/
def genFile {δ : Type} (I : Tpl.Interp δ) (P : List Tpl.Tpl) (fuel : Nat) (resetPerFile : Bool) (pps : List PP)
    (σ : PState) (root : Nat) (d : δ) : Str × List Nat :=
  let raw := Tpl.render I P false d σ.amb fuel root []
  fileOut pps (if resetPerFile then zeros pps else σ.counters) raw

/-- One output file to generate: the root body selected for it and its declared inputs (the type and the types it
refers to, options, templates). -/
structure Job (δ : Type) where
  root : Nat
  decl : δ

/-- A sequence of files generated one after the other in one process (files of one run, or of several runs).
`evolve` is whatever a file leaves behind in the process-wide state. -/
def runJobs {δ : Type} (I : Tpl.Interp δ) (P : List Tpl.Tpl) (fuel : Nat) (resetPerFile : Bool) (pps : List PP)
    (evolve : Tpl.Amb → Job δ → Tpl.Amb) : PState → List (Job δ) → List Str × PState
  | σ, [] => ([], σ)
  | σ, j :: js =>
      let r := genFile I P fuel resetPerFile pps σ j.root j.decl
      let rest := runJobs I P fuel resetPerFile pps evolve ⟨evolve σ.amb j, r.2⟩ js
      (r.1 :: rest.1, rest.2)

end NunavutVerif.ProcState
