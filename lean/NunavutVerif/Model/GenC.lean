import NunavutVerif.Model.Dsdl
import NunavutVerif.Model.Bits
/-!
# GenC — implementation-shaped model of the generated C codecs (C01, C02, C04)

Transcription of what `src/nunavut/lang/c/templates/{serialization,deserialization}.j2` emit for a composite type:
the function skeleton (`capacity_bytes`, up-front check against `bit_length_set.max`, running `offset_bits`,
final `_pad_to_alignment`, `*inout_buffer_size_bytes = offset_bits / 8`), every per-field macro with each fast path
the template contains, nested composites as *calls on sub-buffers*, delimiter-header reserve / back-patch, union tag
dispatch, the documented negative return codes, and on the decode side `capacity_bits`, the guarded raw reads, the
saturating getters, `remaining_bytes`, `min(offset, capacity) / 8`.

The support-library primitives are **not** re-modelled: `nunavutSetUxx/SetIxx`, `nunavutCopyBits`, `nunavutGetBits`,
`nunavutGetU8…U64/I8…I64`, `memmove`, `memset` are the C14 models of `Model/Bits.lean`, every raw `buffer[i]` access
goes through the checked `get?`/`set?` of that file: "memory safe" = "never `Err.prim _`".

Conventions / seams
* the object handed to the serializer is a `Dsdl.Val` (integers: the storage-type value; floats: the binary64 pattern of
  the value the `float`/`double` member holds).  `StorageOK` says the integers fit the member's C type
  (`uint8_t…uint64_t`, `int8_t…int64_t` — what the C type system guarantees) and that `float` members hold a binary32
  value;
* float *value* conversions (`nunavutFloat16Pack/Unpack`, the saturation code of `float16`, `(double) float`) are
  C14-float's subject: here they are the spec's `narrow`/`widen` on patterns; this layer models where and how the
  pattern is stored;
* which fast path a field takes is decided at generation time from PyDSDL's `BitLengthSet` (`offset.is_aligned_at_byte()`).
  The model threads the same *static* offset descriptor (`AOff`: the set of possible offsets modulo 8, computed with the
  template's arithmetic: `offset + t.bit_length_set`, `repeat_range`, padding) and asks an **oracle** `Opts.orc` about
  it.  Theorems hold for every oracle that is `Sound` (claims "aligned" only for descriptors that contain no
  non-zero residue); `exactOrc` is the oracle of the driver (and, by the structural tie, PyDSDL's);
* `little = true` is `target_endianness: little` (memmove of object representations, zero-cost primitive arrays),
  `false` is `any`/`big` on the shift-based renderings;
* `size_t` wrap-around is not modelled (as in `Model/Bits.lean`).
-/
namespace NunavutVerif.GenC
open NunavutVerif.Dsdl NunavutVerif.Bits

/-! ## Outcomes -/

inductive Err where
  /-- a support primitive or a raw buffer access failed (`oob`, `fuel`, `wrap`, `overflow`): undefined behaviour in C;
      proved unreachable -/
  | prim (e : Bits.Err)
  /-- negative return value of the generated function -/
  | ret (code : Int)
  /-- the value does not have the shape of the type (cannot be expressed as a C object; driver: `bad-op`) -/
  | illTyped
  /-- a `NUNAVUT_ASSERT` failed (only with `enable_serialization_asserts`; the program aborts); proved unreachable -/
  | assert
  deriving DecidableEq, Repr

/-- `-NUNAVUT_ERROR_SERIALIZATION_BUFFER_TOO_SMALL` -/
def eTooSmall : Err := .ret (-3)
/-- `-NUNAVUT_ERROR_REPRESENTATION_BAD_ARRAY_LENGTH` -/
def eBadArrayLength : Err := .ret (-10)
/-- `-NUNAVUT_ERROR_REPRESENTATION_BAD_UNION_TAG` -/
def eBadUnionTag : Err := .ret (-11)
/-- `-NUNAVUT_ERROR_REPRESENTATION_BAD_DELIMITER_HEADER` -/
def eBadDelimiterHeader : Err := .ret (-12)

def liftP {α : Type} (r : Except Bits.Err α) : Except Err α :=
  match r with
  | .error e => .error (.prim e)
  | .ok a => .ok a

/-- `const int8_t err = f(...); if (err < 0) { return err; }` -/
def chk (r : Except Bits.Err (Int × Buf)) : Except Err Buf :=
  match r with
  | .error e => .error (.prim e)
  | .ok (c, b) => if c < 0 then .error (.ret c) else .ok b

/-! ## Static offset descriptors (the template's `offset` BitLengthSet, modulo 8) -/

/-- Set of residues modulo 8, as a duplicate-free ascending list. -/
abbrev AOff := List Nat

namespace AOff
def norm (p : Nat → Bool) : AOff := (List.range 8).filter p
def zero : AOff := [0]
def single (n : Nat) : AOff := [n % 8]
/-- `a + b` of two bit length sets -/
def add (a b : AOff) : AOff := norm fun r => a.any fun x => b.any fun y => (x + y) % 8 == r
def union (a b : AOff) : AOff := norm fun r => a.contains r || b.contains r
/-- `is_aligned_at_byte()` -/
def isAligned (a : AOff) : Bool := a.all (· == 0)
/-- `acc + s + … + s` (`k` times) -/
def kfold (s : AOff) : Nat → AOff → AOff
  | 0, acc => acc
  | k + 1, acc => kfold s k (add acc s)
/-- `acc + s.repeat_range(k)` for `acc = {0}` -/
def rangeRep (s : AOff) : Nat → AOff → AOff
  | 0, acc => acc
  | k + 1, acc => rangeRep s k (union zero (add acc s))
/-- `pad_to_alignment(al)` (`al` is 1 or 8) -/
def pad (a : AOff) (al : Nat) : AOff := if al = 8 then zero else a
end AOff

/-- Residues of `t.bit_length_set` modulo 8. -/
def resBits : Ty → AOff
  | .uint n _ => AOff.single n
  | .sint n _ => AOff.single n
  | .float n _ => AOff.single n
  | .bool => AOff.single 1
  | .void n => AOff.single n
  | .arr t n => AOff.kfold (resBits t) n AOff.zero
  | .varr t cap => AOff.rangeRep (resBits t) cap AOff.zero
  | .struct _ => AOff.zero
  | .union _ => AOff.zero
  | .delim _ _ => AOff.zero

/-! ## Options -/

structure Opts where
  /-- `target_endianness: little` -/
  little : Bool
  /-- the generation-time alignment oracle: answer of `offset.is_aligned_at_byte()` for a descriptor -/
  orc : AOff → Bool
  /-- byte every destination storage array holds before deserialization (prior state of `out_obj`) -/
  fill : Nat := 0
  /-- `enable_serialization_asserts`: every `NUNAVUT_ASSERT` of the templates is compiled in -/
  asserts : Bool := false

/-- The oracle claims "aligned" only when every offset the descriptor admits is. -/
def Opts.Sound (o : Opts) : Prop := ∀ d, o.orc d = true → d.isAligned = true

def exactOrc : AOff → Bool := AOff.isAligned

/-- `NUNAVUT_ASSERT(c);` followed by `k` -/
def assertC {α : Type} (o : Opts) (c : Prop) [Decidable c] (k : Except Err α) : Except Err α :=
  if o.asserts = true ∧ ¬ c then .error .assert else k

/-- `x ≤ c` when a bound is given -/
def optLe (x : Nat) : Option Nat → Bool
  | none => true
  | some c => decide (x ≤ c)

/-- `mn ≤ x ≤ mx` when bounds are given -/
def inRange (x : Nat) : Option (Nat × Nat) → Bool
  | none => true
  | some (mn, mx) => decide (mn ≤ x ∧ x ≤ mx)

/-- the assertions at the head of `_serialize_any` / `_deserialize_any`: alignment requirement of the type, the
generation-time alignment claim, (serialization) room for the longest representation -/
def anyGuard {α : Type} (o : Opts) (t : Ty) (room : Option Nat) (d : AOff) (off : Nat) (k : Except Err α) :
    Except Err α :=
  assertC o (align t > 1 → off % align t = 0)
    (assertC o (o.orc d = true → off % 8 = 0)
      (assertC o (optLe (off + maxBits t) room = true) k))

/-! ## C storage -/

/-- `t.standard_bit_length` -/
def isStd (n : Nat) : Bool := n == 8 || n == 16 || n == 32 || n == 64

/-- width of the C integer type that stores an `n`-bit field (`type_from_primitive`) -/
def storW (n : Nat) : Nat := if n ≤ 8 then 8 else if n ≤ 16 then 16 else if n ≤ 32 then 32 else 64

/-- pattern of the `float` that holds the value with binary64 pattern `x` -/
def f32bits (x : Nat) : Nat := narrow 32 .trunc x

/-- `t is PrimitiveType and t is zero_cost_primitive` -/
def zeroCost (o : Opts) : Ty → Bool
  | .uint n _ => o.little && isStd n
  | .sint n _ => o.little && isStd n
  | .float n _ => o.little && (n == 32 || n == 64)
  | _ => false

/-- element width of a zero-cost primitive -/
def primBits : Ty → Nat
  | .uint n _ => n
  | .sint n _ => n
  | .float n _ => n
  | _ => 0

/-- object representation of one zero-cost element (little-endian machine) -/
def elemRep : Ty → Val → Buf
  | .uint n _, .int i => objRepLE ((i % (2 : Int) ^ n).toNat) (n / 8)
  | .sint n _, .int i => objRepLE ((i % (2 : Int) ^ n).toNat) (n / 8)
  | .float n _, .float x => objRepLE (if n = 32 then f32bits x else x) (n / 8)
  | t, _ => List.replicate (primBits t / 8) 0

/-- value of one zero-cost element read back from its object representation -/
def elemVal : Ty → Buf → Val
  | .uint _ _, b => .int (objValLE b)
  | .sint n _, b => .int (Dsdl.signExtend n (objValLE b))
  | .float n _, b => .float (widen n (objValLE b))
  | _, _ => .void

def asBool : Val → Bool
  | .bool b => b
  | _ => false

/-- a storage array: the given bytes, zero filled up to `n` bytes -/
def padRight (b : Buf) (n : Nat) : Buf := b ++ List.replicate (n - b.length) 0

/-- `bool[…]` member: bit-packed bytes -/
def bitRep (vs : List Val) (storN : Nat) : Buf := padRight (packBytes (vs.map asBool)) ((storN + 7) / 8)

/-- member array of zero-cost primitives -/
def arrRep (t : Ty) (vs : List Val) (storN : Nat) : Buf :=
  padRight (vs.flatMap (elemRep t)) (storN * (primBits t / 8))

/-! ## Serialization: field macros -/

abbrev W := Buf × Nat     -- buffer and `offset_bits`

/-- serialization `_pad_to_alignment(n)` -/
def padSer (o : Opts) (n : Nat) (cap : Nat) (buf : Buf) (off : Nat) : Except Err W :=
  if n > 1 ∧ off % n ≠ 0 then
    let pad := (n - off % n) % 256
    assertC o (pad > 0)
      (match chk (setUxx o.little buf cap off 0 pad) with
      | .error e => .error e
      | .ok b => assertC o ((off + pad) % n = 0) (.ok (b, off + pad)))
  else .ok (buf, off)

/-- `_serialize_void` -/
def serVoid (o : Opts) (n : Nat) (cap : Nat) (d : AOff) (buf : Buf) (off : Nat) : Except Err W :=
  if o.orc d then
    if n ≤ 8 then
      match liftP (set? buf (off / 8) 0) with
      | .error e => .error e
      | .ok b => .ok (b, off + n)
    else
      match liftP (memset0 buf (off / 8) ((n + 7) / 8)) with
      | .error e => .error e
      | .ok b => .ok (b, off + n)
  else
    match chk (setUxx o.little buf cap off 0 n) with
    | .error e => .error e
    | .ok b => .ok (b, off + n)

/-- `_serialize_boolean` -/
def serBool (o : Opts) (v : Bool) (d : AOff) (buf : Buf) (off : Nat) : Except Err W :=
  if o.orc d then
    match liftP (set? buf (off / 8) (if v then 1 else 0)) with
    | .error e => .error e
    | .ok b => .ok (b, off + 1)
  else
    match liftP (get? buf (off / 8)) with
    | .error e => .error e
    | .ok x =>
      let y := if v then (x ||| (1 <<< (off % 8))) % 256 else x &&& ((1 <<< (off % 8)) ^^^ 255)
      match liftP (set? buf (off / 8) y) with
      | .error e => .error e
      | .ok b => .ok (b, off + 1)

/-- the emitted saturation code of a non-standard-width integer -/
def satInt (signed : Bool) (n : Nat) (v : Int) : Int :=
  let v := if signed ∧ v < -((2 : Int) ^ (n - 1)) then -((2 : Int) ^ (n - 1)) else v
  let hi : Int := if signed then (2 : Int) ^ (n - 1) - 1 else (2 : Int) ^ n - 1
  if v > hi then hi else v

/-- `_serialize_integer` for an `n`-bit field whose value `v` lives in a `Wd`-bit C object -/
def serInt (o : Opts) (signed : Bool) (n Wd : Nat) (sat : Bool) (v : Int) (cap : Nat) (d : AOff)
    (buf : Buf) (off : Nat) : Except Err W :=
  let v := if sat ∧ ¬ isStd n then satInt signed n v else v
  if o.orc d ∧ n ≤ 8 then
    match liftP (set? buf (off / 8) ((v % 256).toNat)) with
    | .error e => .error e
    | .ok b => .ok (b, off + n)
  else if o.orc d ∧ o.little then
    match liftP (memmove buf (off / 8) (objRepLE ((v % (2 : Int) ^ Wd).toNat) (Wd / 8)) 0 ((n + 7) / 8)) with
    | .error e => .error e
    | .ok b => .ok (b, off + n)
  else
    match chk (if signed then setIxx o.little buf cap off v n else setUxx o.little buf cap off (toU64 v) n) with
    | .error e => .error e
    | .ok b => .ok (b, off + n)

/-- wire pattern the float macros store (value conversion: C14-float / the spec's `narrow`) -/
def floatBits (n : Nat) (m : Cast) (x : Nat) : Nat :=
  if n = 16 then narrow 16 m x else if n = 32 then f32bits x else x

/-- `_serialize_float` -/
def serFloat (o : Opts) (n : Nat) (m : Cast) (x : Nat) (cap : Nat) (d : AOff) (buf : Buf) (off : Nat) :
    Except Err W :=
  let w := floatBits n m x
  if o.orc d ∧ o.little then
    match liftP (memmove buf (off / 8) (objRepLE w (n / 8)) 0 (n / 8)) with
    | .error e => .error e
    | .ok b => .ok (b, off + n)
  else
    match chk (setUxx o.little buf cap off w n) with
    | .error e => .error e
    | .ok b => .ok (b, off + n)

/-- the element-wise `for` loop -/
def serLoop (elem : Val → Buf → Nat → Except Err W) : List Val → Buf → Nat → Except Err W
  | [], buf, off => .ok (buf, off)
  | v :: vs, buf, off =>
    match elem v buf off with
    | .error e => .error e
    | .ok (b, o') => serLoop elem vs b o'

/-- elements of a fixed or variable array: the three special cases, else the loop.
`storN` is the declared capacity (size of the member array); `post` = the bit length bounds a fixed-length
array asserts after its loop. -/
def serElems (o : Opts) (t : Ty) (elem : Val → Buf → Nat → Except Err W) (vs : List Val) (storN : Nat)
    (post : Option (Nat × Nat)) (buf : Buf) (off : Nat) : Except Err W :=
  match t with
  | .bool =>
    match liftP (copyBits buf off vs.length (bitRep vs storN) 0) with
    | .error e => .error e
    | .ok b => .ok (b, off + vs.length)
  | t =>
    if zeroCost o t then
      match liftP (copyBits buf off (vs.length * primBits t) (arrRep t vs storN) 0) with
      | .error e => .error e
      | .ok b => .ok (b, off + vs.length * primBits t)
    else
      match serLoop elem vs buf off with
      | .error e => .error e
      | .ok (b, off') =>
        -- fixed-length arrays: `NUNAVUT_ASSERT((offset_bits - origin) >= min / <= max / == max)`
        assertC o (inRange (off' - off) post = true) (.ok (b, off'))

/-- `_serialize_composite`: prologue, the nested `_serialize_` call on the sub-buffer `&buffer[offset_bits / 8]`
with capacity = the nested type's maximal size, epilogue.  `inner sub capacity` is the nested function. -/
def nestedSer (o : Opts) (inner : Buf → Nat → Except Err W) (isDelim fixed : Bool) (minB maxB : Nat)
    (cap : Nat) (d : AOff) (buf : Buf) (off : Nat) : Except Err W :=
  let sizeBytes := (maxB + 7) / 8
  let pro : Except Err W :=
    if isDelim then
      if fixed then serInt o false 32 64 false (sizeBytes : Int) cap d buf off
      else .ok (buf, off + 32)
    else .ok (buf, off)
  match pro with
  | .error e => .error e
  | .ok (buf, off) =>
    assertC o (off % 8 = 0) <| assertC o (off / 8 + sizeBytes ≤ cap) <|
    match inner (buf.drop (off / 8)) sizeBytes with
    | .error e => .error e
    | .ok (sub, size) =>
      assertC o (minB ≤ size * 8 ∧ size * 8 ≤ maxB) <|
      let buf := buf.take (off / 8) ++ sub
      let epi : Except Err Buf :=
        if isDelim ∧ ¬ fixed then
          if o.little then liftP (memmove buf ((off - 32) / 8) (objRepLE size 8) 0 4)
          else chk (setUxx o.little buf cap (off - 32) size 32)
        else .ok buf
      match epi with
      | .error e => .error e
      | .ok buf => assertC o (off + size * 8 ≤ cap * 8) (.ok (buf, off + size * 8))

/-- skeleton of a generated `T_serialize_` (`serialize` + `_serialize_impl`): returns the buffer and the new
`*inout_buffer_size_bytes`. -/
def topSer (o : Opts) (minB maxB : Nat) (body : Nat → Buf → Except Err W) (buf : Buf) (cap : Nat) : Except Err W :=
  if maxB = 0 then .ok (buf, 0)
  else if 8 * cap < maxB then .error eTooSmall
  else
    match body cap buf with
    | .error e => .error e
    | .ok (b, off) =>
      match padSer o 8 cap b off with
      | .error e => .error e
      | .ok (b, off) =>
        assertC o (minB ≤ off ∧ off ≤ maxB) <| assertC o (off % 8 = 0) <| .ok (b, off / 8)

/-- `t.inner_type.bit_length_set.fixed_length` -/
def fixedLen (t : Ty) : Bool := minBits t == maxBits t

mutual
/-- `_serialize_any(t, reference, offset)` at `offset_bits = off` in `buffer` with `capacity_bytes = cap`. -/
def serAny (o : Opts) : Ty → Val → Nat → AOff → Buf → Nat → Except Err W
  | .uint n m, .int i => fun cap d buf off => serInt o false n (storW n) (m == .sat) i cap d buf off
  | .sint n m, .int i => fun cap d buf off => serInt o true n (storW n) (m == .sat) i cap d buf off
  | .float n m, .float x => fun cap d buf off => serFloat o n m x cap d buf off
  | .bool, .bool b => fun _ d buf off => serBool o b d buf off
  | .void n, .void => fun cap d buf off => serVoid o n cap d buf off
  | .arr t n, .arr vs => fun cap d buf off =>
    if vs.length = n then
      let dE := d.add (AOff.rangeRep (resBits t) (n - 1) AOff.zero)
      serElems o t (fun v b f => anyGuard o t (some (cap * 8)) dE f (serAny o t v cap dE b f)) vs n
        (some (n * minBits t, n * maxBits t)) buf off
    else .error .illTyped
  | .varr t c, .arr vs => fun cap d buf off =>
    if vs.length > c then .error eBadArrayLength
    else
      match serInt o false (prefixBits c) 64 false (vs.length : Int) cap d buf off with
      | .error e => .error e
      | .ok (buf, off) =>
        let dE := d.add (resBits (.varr t c))
        -- `{% if first_element_offset.is_aligned_at_byte() %} NUNAVUT_ASSERT(offset_bits % 8U == 0U)`
        assertC o (o.orc (d.add (AOff.single (prefixBits c))) = true → off % 8 = 0) <|
        serElems o t (fun v b f => anyGuard o t (some (cap * 8)) dE f (serAny o t v cap dE b f)) vs c none buf off
  | .struct fs, .struct vs => fun cap d buf off =>
    nestedSer o (topSer o (minBits (.struct fs)) (maxBits (.struct fs))
        (fun c b => serFields o fs vs true c AOff.zero b 0))
      false (fixedLen (.struct fs)) (minBits (.struct fs)) (maxBits (.struct fs)) cap d buf off
  | .union fs, .union k v => fun cap d buf off =>
    nestedSer o (topSer o (minBits (.union fs)) (maxBits (.union fs)) (fun c b =>
        match serInt o false (tagBits fs.length) (tagBits fs.length) false (k : Int) c AOff.zero b 0 with
        | .error e => .error e
        | .ok (b, f) => serNth o fs k v c (AOff.single (tagBits fs.length)) b f))
      false (fixedLen (.union fs)) (minBits (.union fs)) (maxBits (.union fs)) cap d buf off
  | .delim _ inner, v => fun cap d buf off =>
    nestedSer o (serFn o inner v) true (fixedLen inner) (minBits inner) (maxBits inner) cap d buf off
  | _, _ => fun _ _ _ _ => .error .illTyped
/-- the generated function `T_serialize_(obj, buffer, inout_buffer_size_bytes)` of a composite `T`
(a delimited `T` is its inner type: no header at top level). -/
def serFn (o : Opts) : Ty → Val → Buf → Nat → Except Err W
  | .struct fs, .struct vs => fun buf cap =>
    topSer o (minBits (.struct fs)) (maxBits (.struct fs)) (fun c b => serFields o fs vs true c AOff.zero b 0) buf cap
  | .union fs, .union k v => fun buf cap =>
    topSer o (minBits (.union fs)) (maxBits (.union fs)) (fun c b =>
        match serInt o false (tagBits fs.length) (tagBits fs.length) false (k : Int) c AOff.zero b 0 with
        | .error e => .error e
        | .ok (b, f) => serNth o fs k v c (AOff.single (tagBits fs.length)) b f) buf cap
  | .delim _ inner, v => fun buf cap => serFn o inner v buf cap
  | _, _ => fun _ _ => .error .illTyped
/-- the fields of a structure; `d` is the static offset after the previous field. -/
def serFields (o : Opts) : List Ty → List Val → Bool → Nat → AOff → Buf → Nat → Except Err W
  | [], [] => fun _ _ _ buf off => .ok (buf, off)
  | f :: fs, v :: vs => fun first cap d buf off =>
    let dF := d.pad (align f)
    match (if first then .ok (buf, off) else padSer o (align f) cap buf off) with
    | .error e => .error e
    | .ok (buf, off) =>
      match anyGuard o f (some (cap * 8)) dF off (serAny o f v cap dF buf off) with
      | .error e => .error e
      | .ok (buf, off) => serFields o fs vs false cap (dF.add (resBits f)) buf off
  | _, _ => fun _ _ _ _ _ => .error .illTyped
/-- `if (0U == obj->_tag_) {…} else if (1U == obj->_tag_) {…} … else return BAD_UNION_TAG` -/
def serNth (o : Opts) : List Ty → Nat → Val → Nat → AOff → Buf → Nat → Except Err W
  | [], _, _ => fun _ _ _ _ => .error eBadUnionTag
  | f :: _, 0, v => fun cap d buf off => anyGuard o f (some (cap * 8)) d off (serAny o f v cap d buf off)
  | _ :: fs, k + 1, v => fun cap d buf off => serNth o fs k v cap d buf off
end

/-- **The generated serializer**: `T_serialize_(&obj, buffer, &size)` with `size = cap` on entry.
Result: the buffer afterwards and the size reported back. -/
def serializeC (o : Opts) (t : Ty) (obj : Val) (buf : Buf) (cap : Nat) : Except Err (Buf × Nat) :=
  serFn o t obj buf cap

/-! ## Deserialization: field macros -/

/-- `_deserialize_integer` of an unsigned field (also length prefixes, tags, delimiter headers) -/
def deUint (o : Opts) (n : Nat) (d : AOff) (buf : Buf) (cap off : Nat) : Except Err Nat :=
  if o.orc d ∧ n ≤ 8 then
    if off + n ≤ cap * 8 then
      match liftP (get? buf (off / 8)) with
      | .error e => .error e
      | .ok x => .ok (x &&& (2 ^ n - 1))
    else .ok 0
  else liftP (getU o.little (storW n) buf cap off n)

/-- `_deserialize_integer` of a signed field -/
def deSint (o : Opts) (n : Nat) (buf : Buf) (cap off : Nat) : Except Err Int :=
  liftP (getI o.little (storW n) buf cap off n)

/-- `_deserialize_boolean` -/
def deBool (o : Opts) (d : AOff) (buf : Buf) (cap off : Nat) : Except Err Bool :=
  if off < cap * 8 then
    match liftP (get? buf (off / 8)) with
    | .error e => .error e
    | .ok x => .ok (if o.orc d then (x &&& 1) != 0 else (x &&& (1 <<< (off % 8))) != 0)
  else .ok false

/-- `_deserialize_float`: `nunavutGetF16/32/64` -/
def deFloat (o : Opts) (n : Nat) (buf : Buf) (cap off : Nat) : Except Err Nat :=
  match liftP (getU o.little n buf cap off n) with
  | .error e => .error e
  | .ok w => .ok (widen n w)

/-- the element-wise `for` loop -/
def deLoop (elem : Nat → Except Err (Val × Nat)) : Nat → Nat → Except Err (List Val × Nat)
  | 0, off => .ok ([], off)
  | k + 1, off =>
    match elem off with
    | .error e => .error e
    | .ok (v, o') =>
      match deLoop elem k o' with
      | .error e => .error e
      | .ok (vs, o'') => .ok (v :: vs, o'')

/-- `count` elements of a fixed or variable array (member array of `storN` elements, filled with `o.fill`). -/
def deElems (o : Opts) (t : Ty) (elem : Nat → Except Err (Val × Nat)) (count storN : Nat)
    (buf : Buf) (cap off : Nat) : Except Err (List Val × Nat) :=
  match t with
  | .bool =>
    match liftP (getBits (List.replicate ((storN + 7) / 8) (o.fill % 256)) buf cap off count) with
    | .error e => .error e
    | .ok r => .ok ((List.range count).map (fun i => Val.bool (bitAt r i)), off + count)
  | t =>
    if zeroCost o t then
      let w := primBits t
      match liftP (getBits (List.replicate (storN * (w / 8)) (o.fill % 256)) buf cap off (count * w)) with
      | .error e => .error e
      | .ok r =>
        .ok ((List.range count).map (fun i => elemVal t ((r.drop (i * (w / 8))).take (w / 8))), off + count * w)
    else deLoop elem count off

/-- `(capacity_bytes - nunavutChooseMin((offset_bits / 8U), capacity_bytes))` -/
def remainingBytes (cap off : Nat) : Nat := cap - chooseMin (off / 8) cap

/-- `_deserialize_composite`; `inner sub size` is the nested `_deserialize_` call, returning the object and the
size it reports back. -/
def nestedDe (o : Opts) (inner : Buf → Nat → Except Err (Val × Nat)) (isDelim : Bool)
    (d : AOff) (buf : Buf) (cap off : Nat) : Except Err (Val × Nat) :=
  if isDelim then
    match deUint o 32 d buf cap off with
    | .error e => .error e
    | .ok h =>
      let off := off + 32
      if h > remainingBytes cap off then .error eBadDelimiterHeader
      else
        assertC o (off % 8 = 0) <|
        match inner (buf.drop (off / 8)) h with
        | .error e => .error e
        | .ok (v, _) => .ok (v, off + h * 8)
  else
    assertC o (off % 8 = 0) <|
    match inner (buf.drop (off / 8)) (remainingBytes cap off) with
    | .error e => .error e
    | .ok (v, size) => .ok (v, off + size * 8)

/-- deserialization `_pad_to_alignment(8)`: `(offset_bits + 7U) & ~7U` -/
def padDe (n off : Nat) : Nat := if n > 1 then (off + (n - 1)) / n * n else off

/-- skeleton of a generated `T_deserialize_`: object and the new `*inout_buffer_size_bytes`.
`triv` is the object when the type carries no data (`bit_length_set.max = 0`: `out_obj` is not touched). -/
def topDe (o : Opts) (maxB : Nat) (triv : Val) (body : Buf → Nat → Except Err (Val × Nat)) (buf : Buf) (cap : Nat) :
    Except Err (Val × Nat) :=
  if maxB = 0 then .ok (triv, 0)
  else
    match body buf cap with
    | .error e => .error e
    | .ok (v, off) =>
      assertC o (padDe 8 off % 8 = 0) <| assertC o (cap ≥ chooseMin (padDe 8 off) (cap * 8) / 8) <|
      .ok (v, chooseMin (padDe 8 off) (cap * 8) / 8)

mutual
/-- the only value of a type that carries no data -/
def trivVal : Ty → Val
  | .uint _ _ => .int 0
  | .sint _ _ => .int 0
  | .float _ _ => .float 0
  | .bool => .bool false
  | .void _ => .void
  | .arr t n => .arr (List.replicate n (trivVal t))
  | .varr _ _ => .arr []
  | .struct fs => .struct (trivVals fs)
  | .union fs => .union 0 (trivHead fs)
  | .delim _ inner => trivVal inner
def trivVals : List Ty → List Val
  | [] => []
  | f :: fs => trivVal f :: trivVals fs
def trivHead : List Ty → Val
  | [] => .void
  | f :: _ => trivVal f
end

mutual
/-- `_deserialize_any(t, reference, offset)` at `offset_bits = off`; result: value and new `offset_bits`. -/
def deAny (o : Opts) : Ty → AOff → Buf → Nat → Nat → Except Err (Val × Nat)
  | .uint n _ => fun d buf cap off =>
    match deUint o n d buf cap off with
    | .error e => .error e
    | .ok x => .ok (.int x, off + n)
  | .sint n _ => fun _ buf cap off =>
    match deSint o n buf cap off with
    | .error e => .error e
    | .ok x => .ok (.int x, off + n)
  | .float n _ => fun _ buf cap off =>
    match deFloat o n buf cap off with
    | .error e => .error e
    | .ok x => .ok (.float x, off + n)
  | .bool => fun d buf cap off =>
    match deBool o d buf cap off with
    | .error e => .error e
    | .ok b => .ok (.bool b, off + 1)
  | .void n => fun _ _ _ off => .ok (.void, off + n)
  | .arr t n => fun d buf cap off =>
    let dE := d.add (AOff.rangeRep (resBits t) (n - 1) AOff.zero)
    match deElems o t (fun f => anyGuard o t none dE f (deAny o t dE buf cap f)) n n buf cap off with
    | .error e => .error e
    | .ok (vs, off) => .ok (.arr vs, off)
  | .varr t c => fun d buf cap off =>
    match deUint o (prefixBits c) d buf cap off with
    | .error e => .error e
    | .ok count =>
      if count > c then .error eBadArrayLength
      else
        let dE := d.add (resBits (.varr t c))
        assertC o (o.orc (d.add (AOff.single (prefixBits c))) = true → (off + prefixBits c) % 8 = 0) <|
        match deElems o t (fun f => anyGuard o t none dE f (deAny o t dE buf cap f)) count c buf cap
          (off + prefixBits c) with
        | .error e => .error e
        | .ok (vs, off) => .ok (.arr vs, off)
  | .struct fs => fun d buf cap off =>
    nestedDe o (topDe o (maxBits (.struct fs)) (.struct (trivVals fs)) (fun b c =>
        match deFields o fs true AOff.zero b c 0 with
        | .error e => .error e
        | .ok (vs, f) => .ok (.struct vs, f))) false d buf cap off
  | .union fs => fun d buf cap off =>
    nestedDe o (topDe o (maxBits (.union fs)) (.union 0 (trivHead fs)) (fun b c =>
        match deUint o (tagBits fs.length) AOff.zero b c 0 with
        | .error e => .error e
        | .ok k =>
          match deNth o fs k (AOff.single (tagBits fs.length)) b c (tagBits fs.length) with
          | .error e => .error e
          | .ok (v, f) => .ok (.union k v, f))) false d buf cap off
  | .delim _ inner => fun d buf cap off => nestedDe o (deFn o inner) true d buf cap off
/-- the generated function `T_deserialize_(out_obj, buffer, inout_buffer_size_bytes)` of a composite `T`. -/
def deFn (o : Opts) : Ty → Buf → Nat → Except Err (Val × Nat)
  | .struct fs => fun buf cap =>
    topDe o (maxBits (.struct fs)) (.struct (trivVals fs)) (fun b c =>
        match deFields o fs true AOff.zero b c 0 with
        | .error e => .error e
        | .ok (vs, f) => .ok (.struct vs, f)) buf cap
  | .union fs => fun buf cap =>
    topDe o (maxBits (.union fs)) (.union 0 (trivHead fs)) (fun b c =>
        match deUint o (tagBits fs.length) AOff.zero b c 0 with
        | .error e => .error e
        | .ok k =>
          match deNth o fs k (AOff.single (tagBits fs.length)) b c (tagBits fs.length) with
          | .error e => .error e
          | .ok (v, f) => .ok (.union k v, f)) buf cap
  | .delim _ inner => fun buf cap => deFn o inner buf cap
  | _ => fun _ _ => .error .illTyped
def deFields (o : Opts) : List Ty → Bool → AOff → Buf → Nat → Nat → Except Err (List Val × Nat)
  | [] => fun _ _ _ _ off => .ok ([], off)
  | f :: fs => fun first d buf cap off =>
    let dF := d.pad (align f)
    let off := if first then off else padDe (align f) off
    match anyGuard o f none dF off (deAny o f dF buf cap off) with
    | .error e => .error e
    | .ok (v, off) =>
      match deFields o fs false (dF.add (resBits f)) buf cap off with
      | .error e => .error e
      | .ok (vs, off) => .ok (v :: vs, off)
def deNth (o : Opts) : List Ty → Nat → AOff → Buf → Nat → Nat → Except Err (Val × Nat)
  | [], _ => fun _ _ _ _ => .error eBadUnionTag
  | f :: _, 0 => fun d buf cap off => anyGuard o f none d off (deAny o f d buf cap off)
  | _ :: fs, k + 1 => fun d buf cap off => deNth o fs k d buf cap off
end

/-- **The generated deserializer**: `T_deserialize_(&obj, buffer, &size)` with `size = cap` on entry.
Result: the decoded object and the size reported back (consumed bytes). -/
def deserializeC (o : Opts) (t : Ty) (buf : Buf) (cap : Nat) : Except Err (Val × Nat) :=
  deFn o t buf cap

/-! ## What the C type system guarantees about the object -/

mutual
/-- Integers fit the member's C type; `float` members hold binary32 values; counts fit `size_t`. -/
def storageOK : Ty → Val → Bool
  | .uint n _, .int i => decide (0 ≤ i ∧ i < (2 : Int) ^ storW n)
  | .sint n _, .int i => decide (-((2 : Int) ^ (storW n - 1)) ≤ i ∧ i < (2 : Int) ^ (storW n - 1))
  | .float n _, .float x => decide (n = 64 ∨ widen 32 (f32bits x) = x)
  | .arr t _, .arr vs => vs.all (storageOK t)
  | .varr t _, .arr vs => decide (vs.length < 2 ^ 64) && vs.all (storageOK t)
  | .struct fs, .struct vs => storageOKFields fs vs
  | .union fs, .union k v => storageOKNth fs k v
  | .delim _ inner, v => storageOK inner v
  | _, _ => true
def storageOKFields : List Ty → List Val → Bool
  | f :: fs, v :: vs => storageOK f v && storageOKFields fs vs
  | _, _ => true
def storageOKNth : List Ty → Nat → Val → Bool
  | [], _, _ => true
  | f :: _, 0, v => storageOK f v
  | _ :: fs, k + 1, v => storageOKNth fs k v
end

mutual
/-- What PyDSDL guarantees beyond `Dsdl.wf`: `void1…void64`, array capacities ≥ 1 that fit `size_t`. -/
def wfC : Ty → Bool
  | .void n => decide (1 ≤ n ∧ n ≤ 64)
  | .arr t n => decide (n < 2 ^ 64) && wfC t
  | .varr t _ => wfC t
  | .struct fs => wfCAll fs
  | .union fs => wfCAll fs
  | .delim _ inner => wfC inner
  | _ => true
def wfCAll : List Ty → Bool
  | [] => true
  | f :: fs => wfC f && wfCAll fs
end

end NunavutVerif.GenC
